//! ops for `Ellipse::perimeter` (C11E).  `kummer_elliptic_perimeter`, `kummer_elliptic_perimeter_range` and
//! `agm_elliptic_perimeter` are private fns of `kurbo::ellipse`, so there is no `ellipse.kummer` / `ellipse.agm` on this side;
//! the number of passes of the AGM loop is read from the work counter when the crate is built with `--cfg kurbo_verif`.
use crate::*;

type R = Result<String, BadArgs>;

pub fn run(op: &str, rd: &mut Rd) -> Option<R> {
    Some(match op {
        "ellipse.perimeter_full" => (|| -> R {
            let c = rd.pt()?; let r = rd.vec()?; let rot = rd.num()?; let acc = rd.num()?;
            Ok(e(Ellipse::new(c, r, rot).perimeter(acc)))
        })(),
        "ellipse.radii" => (|| -> R {
            let c = rd.pt()?; let r = rd.vec()?; let rot = rd.num()?;
            let rr = Ellipse::new(c, r, rot).radii();
            Ok(format!("{} {}", e(rr.x), e(rr.y)))
        })(),
        #[cfg(kurbo_verif)]
        "ellipse.perimeter_work" => (|| -> R {
            let c = rd.pt()?; let r = rd.vec()?; let rot = rd.num()?; let acc = rd.num()?;
            kurbo::verif_hooks::LIMIT.store(20_000_000, core::sync::atomic::Ordering::Relaxed);
            kurbo::verif_hooks::take();
            let p = Ellipse::new(c, r, rot).perimeter(acc);
            Ok(format!("{} {}", e(p), kurbo::verif_hooks::take()))
        })(),
        _ => return None,
    })
}
