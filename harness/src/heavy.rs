//! stroke / fit / offset / simplify ops (implementation only) with the work counter of cfg(kurbo_verif)
use crate::*;
use kurbo::*;

type R = Result<String, BadArgs>;

#[cfg(kurbo_verif)]
fn work() -> u64 {
    kurbo::verif_hooks::LIMIT.store(20_000_000, core::sync::atomic::Ordering::Relaxed);
    kurbo::verif_hooks::take()
}
#[cfg(not(kurbo_verif))]
fn work() -> u64 {
    0
}

fn rd_style(rd: &mut Rd) -> Result<Stroke, BadArgs> {
    // width join(0 bevel,1 miter,2 round) cap(0 butt,1 square,2 round) miter_limit dash_offset ndash dashes…
    let w = rd.num()?;
    let join = match rd.nat()? { 0 => Join::Bevel, 1 => Join::Miter, _ => Join::Round };
    let cap = match rd.nat()? { 0 => Cap::Butt, 1 => Cap::Square, _ => Cap::Round };
    let ml = rd.num()?;
    let off = rd.num()?;
    let n = rd.nat()?;
    let mut pat = vec![];
    for _ in 0..n { pat.push(rd.num()?); }
    let mut s = Stroke::new(w).with_join(join).with_caps(cap).with_miter_limit(ml);
    if !pat.is_empty() { s = s.with_dashes(off, pat); }
    Ok(s)
}

pub fn run(op: &str, rd: &mut Rd) -> Option<R> {
    Some(match op {
        "path.stroke" => (|| -> R {
            let style = rd_style(rd)?; let tol = rd.num()?; let p = rd.els()?;
            work();
            let out = stroke(p, &style, &StrokeOpts::default(), tol);
            let w = work();
            Ok(format!("{} | {}", w, e_els(out.elements().iter().copied())))
        })(),
        "cubic.fit_offset" => (|| -> R {
            // offset curve of a cubic at distance d fitted to accuracy acc (opt = 0 subdivide / 1 optimised)
            let c = rd.cubic()?; let d = rd.num()?; let acc = rd.num()?; let opt = rd.nat()?;
            work();
            let co = if opt >= 2 { offset::CubicOffset::new_regularized(c, d, acc) } else { offset::CubicOffset::new(c, d) };
            let path = if opt % 2 == 1 { fit_to_bezpath_opt(&co, acc) } else { fit_to_bezpath(&co, acc) };
            let w = work();
            Ok(format!("{} | {}", w, e_els(path.elements().iter().copied())))
        })(),
        "path.simplify" => (|| -> R {
            let acc = rd.num()?; let opt = rd.nat()?; let p = rd.els()?;
            work();
            let options = simplify::SimplifyOptions::default().opt_level(if opt == 1 { simplify::SimplifyOptLevel::Optimize } else { simplify::SimplifyOptLevel::Subdivide });
            let out = simplify::simplify_bezpath(p, acc, &options);
            let w = work();
            Ok(format!("{} | {}", w, e_els(out.elements().iter().copied())))
        })(),
        "path.fit" => (|| -> R {
            // fit a whole path as a source curve through SimplifyBezPath (ParamCurveFit)
            let acc = rd.num()?; let opt = rd.nat()?; let p = rd.els()?;
            work();
            let src = simplify::SimplifyBezPath::new(p);
            let out = if opt == 1 { fit_to_bezpath_opt(&src, acc) } else { fit_to_bezpath(&src, acc) };
            let w = work();
            Ok(format!("{} | {}", w, e_els(out.elements().iter().copied())))
        })(),
        "cubic.moments" => (|| -> R { let c = rd.cubic()?; let (a, b, cc) = simplify::moment_integrals(c); Ok(format!("{} {} {}", e(a), e(b), e(cc))) })(),
        "work.probe" => (|| -> R {
            // work of single calls: arclen, inv_arclen, nearest, ellipse perimeter, dash
            let s = rd.seg()?; let acc = rd.num()?;
            work();
            let a = s.arclen(acc); let w1 = work();
            let t = s.inv_arclen(0.5 * a, acc); let w2 = work();
            Ok(format!("{} {} {} {}", e(a), w1, e(t), w2))
        })(),
        "cubic.arclen_work" => (|| -> R {
            let c = rd.cubic()?; let acc = rd.num()?;
            work();
            let a = c.arclen(acc);
            Ok(format!("{} {}", e(a), work()))
        })(),
        "ellipse.perimeter" => (|| -> R {
            let c = rd.pt()?; let r = rd.vec()?; let rot = rd.num()?; let acc = rd.num()?;
            work();
            let p = Ellipse::new(c, r, rot).perimeter(acc);
            Ok(format!("{} {}", e(p), work()))
        })(),
        _ => return None,
    })
}
