//! kvh: line-protocol harness around the kurbo crate in /repo (as it is now).
//! One operation per line, every f64 as 16 hex digits of its bit pattern.
use kurbo::*;
use std::io::{self, BufRead, Write};

mod ops;
mod shapes;
mod heavy;
mod ops_svgw;
mod ops_pathmut;
mod ops_quartic;
mod ops_assign;
mod ops_ellperim;

pub struct Rd<'a> {
    pub t: Vec<&'a str>,
    pub i: usize,
}

#[derive(Debug)]
pub struct BadArgs;

impl<'a> Rd<'a> {
    pub fn tok(&mut self) -> Result<&'a str, BadArgs> {
        if self.i < self.t.len() {
            self.i += 1;
            Ok(self.t[self.i - 1])
        } else {
            Err(BadArgs)
        }
    }
    pub fn peek(&self) -> Option<&'a str> {
        self.t.get(self.i).copied()
    }
    pub fn num(&mut self) -> Result<f64, BadArgs> {
        let s = self.tok()?;
        if s.len() != 16 {
            return Err(BadArgs);
        }
        u64::from_str_radix(s, 16).map(f64::from_bits).map_err(|_| BadArgs)
    }
    pub fn nat(&mut self) -> Result<usize, BadArgs> {
        self.tok()?.parse().map_err(|_| BadArgs)
    }
    pub fn pt(&mut self) -> Result<Point, BadArgs> {
        Ok(Point::new(self.num()?, self.num()?))
    }
    pub fn vec(&mut self) -> Result<Vec2, BadArgs> {
        Ok(Vec2::new(self.num()?, self.num()?))
    }
    pub fn line(&mut self) -> Result<Line, BadArgs> {
        Ok(Line::new(self.pt()?, self.pt()?))
    }
    pub fn quad(&mut self) -> Result<QuadBez, BadArgs> {
        Ok(QuadBez::new(self.pt()?, self.pt()?, self.pt()?))
    }
    pub fn cubic(&mut self) -> Result<CubicBez, BadArgs> {
        Ok(CubicBez::new(self.pt()?, self.pt()?, self.pt()?, self.pt()?))
    }
    pub fn rect(&mut self) -> Result<Rect, BadArgs> {
        Ok(Rect::new(self.num()?, self.num()?, self.num()?, self.num()?))
    }
    pub fn insets(&mut self) -> Result<Insets, BadArgs> {
        Ok(Insets::new(self.num()?, self.num()?, self.num()?, self.num()?))
    }
    pub fn size(&mut self) -> Result<Size, BadArgs> {
        Ok(Size::new(self.num()?, self.num()?))
    }
    pub fn affine(&mut self) -> Result<Affine, BadArgs> {
        Ok(Affine::new([self.num()?, self.num()?, self.num()?, self.num()?, self.num()?, self.num()?]))
    }
    pub fn tscale(&mut self) -> Result<TranslateScale, BadArgs> {
        Ok(TranslateScale::new(self.vec()?, self.num()?))
    }
    pub fn seg(&mut self) -> Result<PathSeg, BadArgs> {
        match self.tok()? {
            "L" => Ok(PathSeg::Line(self.line()?)),
            "Q" => Ok(PathSeg::Quad(self.quad()?)),
            "C" => Ok(PathSeg::Cubic(self.cubic()?)),
            _ => Err(BadArgs),
        }
    }
    /// path elements up to `;` or the end of the line
    pub fn els(&mut self) -> Result<Vec<PathEl>, BadArgs> {
        let mut v = vec![];
        loop {
            match self.peek() {
                None => break,
                Some(";") => {
                    self.i += 1;
                    break;
                }
                Some("M") => {
                    self.i += 1;
                    v.push(PathEl::MoveTo(self.pt()?));
                }
                Some("L") => {
                    self.i += 1;
                    v.push(PathEl::LineTo(self.pt()?));
                }
                Some("Q") => {
                    self.i += 1;
                    v.push(PathEl::QuadTo(self.pt()?, self.pt()?));
                }
                Some("C") => {
                    self.i += 1;
                    v.push(PathEl::CurveTo(self.pt()?, self.pt()?, self.pt()?));
                }
                Some("Z") => {
                    self.i += 1;
                    v.push(PathEl::ClosePath);
                }
                _ => return Err(BadArgs),
            }
        }
        Ok(v)
    }
}

pub fn e(x: f64) -> String {
    if x.is_nan() {
        "nan".to_string()
    } else {
        format!("{:016x}", x.to_bits())
    }
}
pub fn e_pt(p: Point) -> String {
    format!("{} {}", e(p.x), e(p.y))
}
pub fn e_vec(p: Vec2) -> String {
    format!("{} {}", e(p.x), e(p.y))
}
pub fn e_line(l: Line) -> String {
    format!("{} {}", e_pt(l.p0), e_pt(l.p1))
}
pub fn e_quad(l: QuadBez) -> String {
    format!("{} {} {}", e_pt(l.p0), e_pt(l.p1), e_pt(l.p2))
}
pub fn e_cubic(l: CubicBez) -> String {
    format!("{} {} {} {}", e_pt(l.p0), e_pt(l.p1), e_pt(l.p2), e_pt(l.p3))
}
pub fn e_rect(r: Rect) -> String {
    format!("{} {} {} {}", e(r.x0), e(r.y0), e(r.x1), e(r.y1))
}
pub fn e_insets(r: Insets) -> String {
    format!("{} {} {} {}", e(r.x0), e(r.y0), e(r.x1), e(r.y1))
}
pub fn e_size(r: Size) -> String {
    format!("{} {}", e(r.width), e(r.height))
}
pub fn e_affine(a: Affine) -> String {
    let c = a.as_coeffs();
    format!("{} {} {} {} {} {}", e(c[0]), e(c[1]), e(c[2]), e(c[3]), e(c[4]), e(c[5]))
}
pub fn e_ts(a: TranslateScale) -> String {
    format!("{} {}", e_vec(a.translation), e(a.scale))
}
pub fn e_bool(b: bool) -> String {
    if b { "1" } else { "0" }.to_string()
}
pub fn e_seg(s: PathSeg) -> String {
    match s {
        PathSeg::Line(l) => format!("L {}", e_line(l)),
        PathSeg::Quad(q) => format!("Q {}", e_quad(q)),
        PathSeg::Cubic(c) => format!("C {}", e_cubic(c)),
    }
}
pub fn e_el(el: PathEl) -> String {
    match el {
        PathEl::MoveTo(p) => format!("M {}", e_pt(p)),
        PathEl::LineTo(p) => format!("L {}", e_pt(p)),
        PathEl::QuadTo(a, b) => format!("Q {} {}", e_pt(a), e_pt(b)),
        PathEl::CurveTo(a, b, c) => format!("C {} {} {}", e_pt(a), e_pt(b), e_pt(c)),
        PathEl::ClosePath => "Z".to_string(),
    }
}
pub fn e_els<I: IntoIterator<Item = PathEl>>(els: I) -> String {
    els.into_iter().map(e_el).collect::<Vec<_>>().join(" ")
}
pub fn e_segs(l: &[PathSeg]) -> String {
    let mut s = format!("{}", l.len());
    for x in l {
        s.push_str(" | ");
        s.push_str(&e_seg(*x));
    }
    s
}
pub fn e_pts(l: &[Point]) -> String {
    let mut s = format!("{}", l.len());
    for x in l {
        s.push(' ');
        s.push_str(&e_pt(*x));
    }
    s
}
pub fn e_list(l: &[f64]) -> String {
    let mut s = format!("{}", l.len());
    for x in l {
        s.push(' ');
        s.push_str(&e(*x));
    }
    s
}

fn run_line(line: &str) -> String {
    let toks: Vec<&str> = line.split(' ').filter(|s| !s.is_empty()).collect();
    if toks.is_empty() {
        return "EMPTY".to_string();
    }
    let op = toks[0];
    let mut rd = Rd { t: toks[1..].to_vec(), i: 0 };
    let r = match ops::run(op, &mut rd) {
        None => match shapes::run(op, &mut rd) {
            None => match heavy::run(op, &mut rd) {
                None => match ops_svgw::run(op, &mut rd) {
                    None => match ops_pathmut::run(op, &mut rd) {
                        None => match ops_quartic::run(op, &mut rd) {
                            None => match ops_assign::run(op, &mut rd) {
                                None => ops_ellperim::run(op, &mut rd),
                                x => x,
                            },
                            x => x,
                        },
                        x => x,
                    },
                    x => x,
                },
                x => x,
            },
            x => x,
        },
        x => x,
    };
    match r {
        None => "UNKNOWN-OP".to_string(),
        Some(Err(BadArgs)) => "BAD-ARGS".to_string(),
        Some(Ok(s)) => {
            if rd.i != rd.t.len() {
                "BAD-ARGS trailing".to_string()
            } else {
                s
            }
        }
    }
}

thread_local! {
    static PANIC_LOC: std::cell::RefCell<String> = std::cell::RefCell::new(String::new());
}

fn main() {
    std::panic::set_hook(Box::new(|info| {
        let loc = info.location().map(|l| format!("{}:{}", l.file().rsplit('/').next().unwrap_or(""), l.line())).unwrap_or_default();
        PANIC_LOC.with(|c| *c.borrow_mut() = loc);
    }));
    let stdin = io::stdin();
    let out = io::stdout();
    let mut out = io::BufWriter::new(out.lock());
    for line in stdin.lock().lines() {
        let line = line.unwrap();
        #[cfg(kurbo_verif)]
        {
            // every op starts with a fresh work counter and a hard budget (the hook panics beyond it)
            kurbo::verif_hooks::LIMIT.store(20_000_000, core::sync::atomic::Ordering::Relaxed);
            kurbo::verif_hooks::take();
        }
        let r = std::panic::catch_unwind(|| run_line(line.trim()));
        let s = match r {
            Ok(s) => s,
            Err(p) => {
                let msg = if let Some(s) = p.downcast_ref::<&str>() {
                    s.to_string()
                } else if let Some(s) = p.downcast_ref::<String>() {
                    s.clone()
                } else {
                    "?".to_string()
                };
                format!("PANIC({} @ {})", msg.replace('\n', " "), PANIC_LOC.with(|c| c.borrow().clone()))
            }
        };
        writeln!(out, "{}", s).unwrap();
    }
}
