//! shape ops (mirrors lean/Kurbo/OpsShapes.lean) plus implementation-only outline queries
use crate::*;
use kurbo::*;

pub enum Shp {
    Circle(Circle),
    Ellipse(Ellipse),
    Arc(Arc),
    RRect(RoundedRect),
    CSeg(CircleSegment),
    Rect(Rect),
    Tri(Triangle),
    Line(Line),
    Quad(QuadBez),
    Cubic(CubicBez),
}

pub fn rd_shape(rd: &mut Rd) -> Result<Shp, BadArgs> {
    Ok(match rd.tok()? {
        "circle" => Shp::Circle(Circle::new(rd.pt()?, rd.num()?)),
        "ellipse" => Shp::Ellipse(Ellipse::new(rd.pt()?, rd.vec()?, rd.num()?)),
        "ellipse_aff" => Shp::Ellipse(Ellipse::from_affine(rd.affine()?)),
        "arc" => {
            let c = rd.pt()?; let r = rd.vec()?; let st = rd.num()?; let sw = rd.num()?; let rot = rd.num()?;
            Shp::Arc(Arc::new(c, r, st, sw, rot))
        }
        "rrect" => {
            let r = rd.rect()?;
            let radii = RoundedRectRadii::new(rd.num()?, rd.num()?, rd.num()?, rd.num()?);
            Shp::RRect(RoundedRect::from_rect(r, radii))
        }
        "cseg" => Shp::CSeg(CircleSegment::new(rd.pt()?, rd.num()?, rd.num()?, rd.num()?, rd.num()?)),
        "rect" => Shp::Rect(rd.rect()?),
        "tri" => Shp::Tri(Triangle::new(rd.pt()?, rd.pt()?, rd.pt()?)),
        "line" => Shp::Line(rd.line()?),
        "quad" => Shp::Quad(rd.quad()?),
        "cubic" => Shp::Cubic(rd.cubic()?),
        _ => return Err(BadArgs),
    })
}

macro_rules! with_shape {
    ($s:expr, $x:ident => $e:expr) => {
        match $s {
            Shp::Circle($x) => $e,
            Shp::Ellipse($x) => $e,
            Shp::Arc($x) => $e,
            Shp::RRect($x) => $e,
            Shp::CSeg($x) => $e,
            Shp::Rect($x) => $e,
            Shp::Tri($x) => $e,
            Shp::Line($x) => $e,
            Shp::Quad($x) => $e,
            Shp::Cubic($x) => $e,
        }
    };
}

impl Shp {
    pub fn path(&self, tol: f64) -> Vec<PathEl> {
        with_shape!(self, x => Shape::path_elements(x, tol).collect())
    }
    pub fn closed_form(&self) -> bool {
        matches!(self, Shp::Circle(_) | Shp::Ellipse(_) | Shp::RRect(_) | Shp::CSeg(_) | Shp::Rect(_) | Shp::Tri(_))
    }
    pub fn area(&self) -> f64 {
        with_shape!(self, x => Shape::area(x))
    }
    pub fn perimeter(&self, acc: f64) -> f64 {
        with_shape!(self, x => Shape::perimeter(x, acc))
    }
    pub fn winding(&self, p: Point) -> i32 {
        with_shape!(self, x => Shape::winding(x, p))
    }
    pub fn bbox(&self) -> Rect {
        with_shape!(self, x => Shape::bounding_box(x))
    }
}

type R = Result<String, BadArgs>;

pub fn run(op: &str, rd: &mut Rd) -> Option<R> {
    Some(match op {
        "shape.path" => (|| -> R { let s = rd_shape(rd)?; let tol = rd.num()?; Ok(e_els(s.path(tol))) })(),
        "shape.query" => (|| -> R {
            let s = rd_shape(rd)?; let n = rd.nat()?;
            let mut pts = vec![]; for _ in 0..n { pts.push(rd.pt()?); }
            let cf = s.closed_form();
            let a = if cf { e(s.area()) } else { "-".to_string() };
            let b = if cf { e_rect(s.bbox()) } else { "-".to_string() };
            let ws: Vec<String> = pts.iter().map(|p| if cf { s.winding(*p).to_string() } else { "-".to_string() }).collect();
            Ok(format!("{} | {} | {}", a, b, ws.join(" ")))
        })(),
        "shape.full" => (|| -> R {
            // implementation only: closed forms AND the same quantities computed from the shape's own outline at tolerance `tol`
            let s = rd_shape(rd)?; let tol = rd.num()?; let acc = rd.num()?; let n = rd.nat()?;
            let mut pts = vec![]; for _ in 0..n { pts.push(rd.pt()?); }
            let path = BezPath::from_vec(s.path(tol));
            let ws: Vec<String> = pts.iter().map(|p| s.winding(*p).to_string()).collect();
            let wo: Vec<String> = pts.iter().map(|p| path.winding(*p).to_string()).collect();
            Ok(format!("{} {} {} | {} {} {} | {} | {}", e(s.area()), e(s.perimeter(acc)), e_rect(s.bbox()),
                e(path.area()), e(path.perimeter(acc.min(1e-9))), e_rect(path.bounding_box()), ws.join(" "), wo.join(" ")))
        })(),
        "shape.affine" => (|| -> R {
            // image under an affine map of circle / ellipse / arc: outline of the image vs image of the outline (sample points)
            let a = rd.affine()?; let s = rd_shape(rd)?; let tol = rd.num()?;
            let (img, src): (Vec<PathEl>, Vec<PathEl>) = match &s {
                Shp::Circle(c) => ((a * *c).path_elements(tol).collect(), c.path_elements(tol).collect()),
                Shp::Ellipse(el) => ((a * *el).path_elements(tol).collect(), el.path_elements(tol).collect()),
                Shp::Arc(arc) => ((a * *arc).path_elements(tol).collect(), arc.path_elements(tol).collect()),
                _ => return Err(BadArgs),
            };
            Ok(format!("{} | {}", e_els(img), e_els(src.into_iter().map(|el| a * el))))
        })(),
        "svg.parse" => (|| -> R {
            let t = rd.tok()?;
            let bytes = unhex_bytes(&t[1..]).ok_or(BadArgs)?;
            let text = match String::from_utf8(bytes) { Ok(s) => s, Err(_) => return Ok("NOT-UTF8".to_string()) };
            Ok(e_svg_res(BezPath::from_svg(&text)))
        })(),
        #[cfg(feature = "std")]
        "svg.write" => (|| -> R {
            // to_svg text (hex) | parse(to_svg) result
            let p = rd.els()?;
            let bp = BezPath::from_vec(p);
            let text = bp.to_svg();
            Ok(format!("x{} | {}", hex_bytes(text.as_bytes()), e_svg_res(BezPath::from_svg(&text))))
        })(),
        "svg.arc" => (|| -> R {
            let from = rd.pt()?; let to = rd.pt()?; let radii = rd.vec()?; let rot = rd.num()?; let la = rd.nat()?; let sw = rd.nat()?;
            let sa = SvgArc { from, to, radii, x_rotation: rot, large_arc: la == 1, sweep: sw == 1 };
            Ok(match Arc::from_svg_arc(&sa) { None => "none".to_string(), Some(a) => format!("{} {} {} {} {}", e_pt(a.center), e_vec(a.radii), e(a.start_angle), e(a.sweep_angle), e(a.x_rotation)) })
        })(),
        "seg.arclen" => (|| -> R { let s = rd.seg()?; let acc = rd.num()?; Ok(e(s.arclen(acc))) })(),
        "seg.inv_arclen" => (|| -> R { let s = rd.seg()?; let len = rd.num()?; let acc = rd.num()?; Ok(e(s.inv_arclen(len, acc))) })(),
        "seg.arclen_split" => (|| -> R {
            // arclen(s), arclen(s[0..t]) + arclen(s[t..1]), and arclen up to the parameter returned by inv_arclen(len)
            let s = rd.seg()?; let t = rd.num()?; let len = rd.num()?; let acc = rd.num()?;
            let ti = s.inv_arclen(len, acc);
            Ok(format!("{} {} {} {} {}", e(s.arclen(acc)), e(s.subsegment(0.0..t).arclen(acc)), e(s.subsegment(t..1.0).arclen(acc)), e(ti), e(s.subsegment(0.0..ti).arclen(acc * 1e-3))))
        })(),
        "path.perimeter" => (|| -> R { let acc = rd.num()?; let p = rd.els()?; Ok(e(p.as_slice().perimeter(acc))) })(),
        "path.dash" => (|| -> R {
            let off = rd.num()?; let n = rd.nat()?; let mut pat = vec![]; for _ in 0..n { pat.push(rd.num()?); }
            let p = rd.els()?;
            let out: Vec<PathEl> = dash(p.into_iter(), off, &pat).take(200000).collect();
            Ok(format!("ok {}", e_els(out)))
        })(),
        _ => return None,
    })
}

pub fn unhex_bytes(s: &str) -> Option<Vec<u8>> {
    if s.len() % 2 != 0 { return None; }
    (0..s.len()).step_by(2).map(|i| u8::from_str_radix(&s[i..i + 2], 16).ok()).collect()
}
pub fn hex_bytes(b: &[u8]) -> String {
    b.iter().map(|x| format!("{:02x}", x)).collect()
}
pub fn e_svg_res(r: Result<BezPath, SvgParseError>) -> String {
    match r {
        Ok(p) => format!("ok {}", e_els(p.elements().iter().copied())),
        Err(SvgParseError::Wrong) => "err Wrong".to_string(),
        Err(SvgParseError::UnexpectedEof) => "err UnexpectedEof".to_string(),
        Err(SvgParseError::UnknownCommand(c)) => format!("err UnknownCommand({})", c as u32),
        Err(SvgParseError::UninitializedPath) => "err UninitializedPath".to_string(),
        Err(_) => "err ?".to_string(),
    }
}
