//! SVG path writer op (C16, tag C16W): `svg.to_svg <elements>` -> `x` + hex of the UTF-8 bytes of `BezPath::to_svg()`.
//! The path is built with `BezPath::new()` + `Extend` (no `debug_assert!` there), NOT with `BezPath::from_vec`, so that element
//! lists that do not start with a `MoveTo` can be written as well (`from_vec` / `push` debug-assert "BezPath must begin with MoveTo").
use crate::*;
use kurbo::*;

type R = Result<String, BadArgs>;

pub fn run(op: &str, rd: &mut Rd) -> Option<R> {
    Some(match op {
        #[cfg(feature = "std")]
        "svg.to_svg" => (|| -> R {
            let p = rd.els()?;
            let mut bp = BezPath::new();
            bp.extend(p);
            let text = bp.to_svg();
            // write_to into a Vec<u8> must give the same bytes
            let mut buf: Vec<u8> = Vec::new();
            bp.write_to(&mut buf).map_err(|_| BadArgs)?;
            if buf != text.as_bytes() {
                return Ok("WRITE_TO-DIFFERS-FROM-TO_SVG".to_string());
            }
            Ok(format!("x{}", crate::shapes::hex_bytes(text.as_bytes())))
        })(),
        #[cfg(feature = "std")]
        "svg.to_svg_parse" => (|| -> R {
            // to_svg text (hex) | from_svg(to_svg) result; like `svg.write` but without the MoveTo assertion of `from_vec`
            let p = rd.els()?;
            let mut bp = BezPath::new();
            bp.extend(p);
            let text = bp.to_svg();
            Ok(format!("x{} | {}", crate::shapes::hex_bytes(text.as_bytes()), crate::shapes::e_svg_res(BezPath::from_svg(&text))))
        })(),
        _ => return None,
    })
}
