//! `BezPath` mutators as a state machine (C07, tag C07M): `path.mut <script>` – see lean/Kurbo/OpsPathMut.lean for the script grammar.
//! The harness is built with debug assertions on; a failing `debug_assert!` unwinds to `main`, which prints `PANIC(<message> @ <location>)`.
use crate::*;
use kurbo::*;

type R = Result<String, BadArgs>;

fn el1(rd: &mut Rd) -> Result<PathEl, BadArgs> {
    Ok(match rd.tok()? {
        "M" => PathEl::MoveTo(rd.pt()?),
        "L" => PathEl::LineTo(rd.pt()?),
        "Q" => PathEl::QuadTo(rd.pt()?, rd.pt()?),
        "C" => PathEl::CurveTo(rd.pt()?, rd.pt()?, rd.pt()?),
        "Z" => PathEl::ClosePath,
        _ => return Err(BadArgs),
    })
}

pub fn run(op: &str, rd: &mut Rd) -> Option<R> {
    Some(match op {
        "path.mut" => (|| -> R {
            let mut p = BezPath::new();
            let mut acc: Vec<String> = vec![];
            while let Some(t) = rd.peek() {
                rd.i += 1;
                match t {
                    "new" => p = BezPath::new(),
                    "cap" => p = BezPath::with_capacity(rd.nat()?),
                    "vec" => p = BezPath::from_vec(rd.els()?),
                    "push" => p.push(el1(rd)?),
                    "pop" => acc.push(match p.pop() { Some(el) => format!("pop {}", e_el(el)), None => "pop none".to_string() }),
                    "trunc" => p.truncate(rd.nat()?),
                    "ext" => p.extend(rd.els()?),
                    "mv" => p.move_to(rd.pt()?),
                    "ln" => p.line_to(rd.pt()?),
                    "qd" => { let a = rd.pt()?; let b = rd.pt()?; p.quad_to(a, b) }
                    "cv" => { let a = rd.pt()?; let b = rd.pt()?; let c = rd.pt()?; p.curve_to(a, b, c) }
                    "cl" => p.close_path(),
                    "aff" => p.apply_affine(rd.affine()?),
                    "els" => acc.push(format!("els {}", e_els(p.elements().iter().copied()))),
                    "iter" => acc.push(format!("iter {}", e_els(p.iter()))),
                    "segs" => { let v: Vec<PathSeg> = p.segments().collect(); acc.push(format!("segs {}", e_segs(&v))) }
                    "gseg" => { let i = rd.nat()?; acc.push(format!("gseg {}", match p.get_seg(i) { Some(s) => e_seg(s), None => "none".to_string() })) }
                    "empty" => acc.push(format!("empty {}", e_bool(p.is_empty()))),
                    "len" => acc.push(format!("len {}", p.elements().len())),
                    _ => return Err(BadArgs),
                }
            }
            Ok(acc.join(" ; "))
        })(),
        _ => return None,
    })
}
