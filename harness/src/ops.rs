//! protocol ops (mirrors lean/Kurbo/Ops*.lean)
use crate::*;
use kurbo::*;

type R = Result<String, BadArgs>;

pub fn run(op: &str, rd: &mut Rd) -> Option<R> {
    Some(match op {
        // vec2 / point
        "vec.dot" => (|| -> R { let a = rd.vec()?; let b = rd.vec()?; Ok(e(a.dot(b))) })(),
        "vec.cross" => (|| -> R { let a = rd.vec()?; let b = rd.vec()?; Ok(e(a.cross(b))) })(),
        "vec.lerp" => (|| -> R { let a = rd.vec()?; let b = rd.vec()?; let t = rd.num()?; Ok(e_vec(a.lerp(b, t))) })(),
        "vec.ops" => (|| -> R {
            let a = rd.vec()?; let b = rd.vec()?; let t = rd.num()?; let p = rd.pt()?;
            Ok(format!("{} {} {} {} {} {} {} {} {} {}", e_vec(a + b), e_vec(a - b), e_vec(a * t), e_vec(t * a), e_vec(-a),
                e_pt(p + a), e_pt(p - a), e_vec(p - b.to_point()), e_vec(a.turn_90()), e_vec(a.rotate_scale(b))))
        })(),
        "pt.lerp" => (|| -> R { let a = rd.pt()?; let b = rd.pt()?; let t = rd.num()?; Ok(e_pt(a.lerp(b, t))) })(),
        "pt.midpoint" => (|| -> R { let a = rd.pt()?; let b = rd.pt()?; Ok(e_pt(a.midpoint(b))) })(),
        "pt.round" => (|| -> R { let a = rd.pt()?; Ok(format!("{} {} {} {} {}", e_pt(a.round()), e_pt(a.ceil()), e_pt(a.floor()), e_pt(a.expand()), e_pt(a.trunc()))) })(),
        "vec.round" => (|| -> R { let a = rd.vec()?; Ok(format!("{} {} {} {} {}", e_vec(a.round()), e_vec(a.ceil()), e_vec(a.floor()), e_vec(a.expand()), e_vec(a.trunc()))) })(),
        "size.round" => (|| -> R { let a = rd.size()?; Ok(format!("{} {} {} {} {}", e_size(a.round()), e_size(a.ceil()), e_size(a.floor()), e_size(a.expand()), e_size(a.trunc()))) })(),
        // segments
        "line.eval" => (|| -> R { let l = rd.line()?; let t = rd.num()?; Ok(e_pt(l.eval(t))) })(),
        "quad.eval" => (|| -> R { let l = rd.quad()?; let t = rd.num()?; Ok(e_pt(l.eval(t))) })(),
        "cubic.eval" => (|| -> R { let l = rd.cubic()?; let t = rd.num()?; Ok(e_pt(l.eval(t))) })(),
        "line.subsegment" => (|| -> R { let l = rd.line()?; let a = rd.num()?; let b = rd.num()?; Ok(e_line(l.subsegment(a..b))) })(),
        "quad.subsegment" => (|| -> R { let l = rd.quad()?; let a = rd.num()?; let b = rd.num()?; Ok(e_quad(l.subsegment(a..b))) })(),
        "cubic.subsegment" => (|| -> R { let l = rd.cubic()?; let a = rd.num()?; let b = rd.num()?; Ok(e_cubic(l.subsegment(a..b))) })(),
        "quad.subdivide" => (|| -> R { let l = rd.quad()?; let (a, b) = l.subdivide(); Ok(format!("{} {}", e_quad(a), e_quad(b))) })(),
        "cubic.subdivide" => (|| -> R { let l = rd.cubic()?; let (a, b) = l.subdivide(); Ok(format!("{} {}", e_cubic(a), e_cubic(b))) })(),
        "quad.deriv" => (|| -> R { let l = rd.quad()?; Ok(e_line(l.deriv())) })(),
        "cubic.deriv" => (|| -> R { let l = rd.cubic()?; Ok(e_quad(l.deriv())) })(),
        "quad.raise" => (|| -> R { let l = rd.quad()?; Ok(e_cubic(l.raise())) })(),
        "line.startend" => (|| -> R { let l = rd.line()?; Ok(format!("{} {}", e_pt(l.start()), e_pt(l.end()))) })(),
        "quad.startend" => (|| -> R { let l = rd.quad()?; Ok(format!("{} {}", e_pt(l.start()), e_pt(l.end()))) })(),
        "cubic.startend" => (|| -> R { let l = rd.cubic()?; Ok(format!("{} {}", e_pt(l.start()), e_pt(l.end()))) })(),
        "line.area" => (|| -> R { let l = rd.line()?; Ok(e(l.signed_area())) })(),
        "quad.area" => (|| -> R { let l = rd.quad()?; Ok(e(l.signed_area())) })(),
        "cubic.area" => (|| -> R { let l = rd.cubic()?; Ok(e(l.signed_area())) })(),
        "line.nearest" => (|| -> R { let l = rd.line()?; let p = rd.pt()?; let n = l.nearest(p, 0.0); Ok(format!("{} {}", e(n.t), e(n.distance_sq))) })(),
        // PathSeg
        "seg.eval" => (|| -> R { let s = rd.seg()?; let t = rd.num()?; Ok(e_pt(s.eval(t))) })(),
        "seg.subsegment" => (|| -> R { let s = rd.seg()?; let a = rd.num()?; let b = rd.num()?; Ok(e_seg(s.subsegment(a..b))) })(),
        "seg.startend" => (|| -> R { let s = rd.seg()?; Ok(format!("{} {}", e_pt(s.start()), e_pt(s.end()))) })(),
        "seg.reverse" => (|| -> R { let s = rd.seg()?; Ok(e_seg(s.reverse())) })(),
        "seg.tocubic" => (|| -> R { let s = rd.seg()?; Ok(e_cubic(s.to_cubic())) })(),
        "seg.area" => (|| -> R { let s = rd.seg()?; Ok(e(s.signed_area())) })(),
        "seg.subseg_eval" => (|| -> R {
            let s = rd.seg()?; let t0 = rd.num()?; let t1 = rd.num()?; let u = rd.num()?;
            Ok(format!("{} {}", e_pt(s.subsegment(t0..t1).eval(u)), e_pt(s.eval(t0 + u * (t1 - t0)))))
        })(),
        "seg.rev_raise_eval" => (|| -> R {
            let s = rd.seg()?; let t = rd.num()?;
            let tt = match s { PathSeg::Line(_) => 3.0 * t * t - 2.0 * t * t * t, _ => t };
            Ok(format!("{} {} {} {}", e_pt(s.reverse().eval(t)), e_pt(s.eval(1.0 - t)), e_pt(s.to_cubic().eval(t)), e_pt(s.eval(tt))))
        })(),
        // paths
        "path.segs" => (|| -> R { let p = rd.els()?; let v: Vec<PathSeg> = segments(p).collect(); Ok(e_segs(&v)) })(),
        "path.getsegs" => (|| -> R {
            let p = rd.els()?; let n = p.len();
            let bp = BezPath::from_vec(p);
            Ok((0..n + 2).map(|ix| match bp.get_seg(ix) { Some(s) => e_seg(s), None => "none".to_string() }).collect::<Vec<_>>().join(" | "))
        })(),
        "path.fromsegs" => (|| -> R { let p = rd.els()?; let v: Vec<PathSeg> = segments(p).collect(); Ok(e_els(BezPath::from_path_segments(v.into_iter()))) })(),
        "path.rev" => (|| -> R { let p = rd.els()?; let bp = BezPath::from_vec(p); Ok(e_els(bp.reverse_subpaths())) })(),
        "path.area" => (|| -> R { let p = rd.els()?; Ok(e(p.as_slice().area())) })(),
        "path.segs_of_fromsegs" => (|| -> R {
            let p = rd.els()?; let v: Vec<PathSeg> = segments(p).collect();
            let q = BezPath::from_path_segments(v.into_iter());
            let w: Vec<PathSeg> = q.segments().collect(); Ok(e_segs(&w))
        })(),
        "path.segs_of_revrev" => (|| -> R {
            let p = rd.els()?; let q = BezPath::from_vec(p).reverse_subpaths().reverse_subpaths();
            let w: Vec<PathSeg> = q.segments().collect(); Ok(e_segs(&w))
        })(),
        "path.segs_of_rev" => (|| -> R {
            let p = rd.els()?; let q = BezPath::from_vec(p).reverse_subpaths();
            let w: Vec<PathSeg> = q.segments().collect(); Ok(e_segs(&w))
        })(),
        _ => return None,
    })
}
