//! protocol ops (mirrors lean/Kurbo/Ops*.lean)
use crate::*;
use kurbo::*;

type R = Result<String, BadArgs>;

pub fn run(op: &str, rd: &mut Rd) -> Option<R> {
    Some(match op {
        // vec2 / point
        "vec.hypot" => (|| -> R { let a = rd.vec()?; Ok(format!("{} {} {}", e(a.hypot()), e(a.hypot2()), e(a.atan2()))) })(),
        "vec.dot" => (|| -> R { let a = rd.vec()?; let b = rd.vec()?; Ok(e(a.dot(b))) })(),
        "vec.cross" => (|| -> R { let a = rd.vec()?; let b = rd.vec()?; Ok(e(a.cross(b))) })(),
        "vec.lerp" => (|| -> R { let a = rd.vec()?; let b = rd.vec()?; let t = rd.num()?; Ok(e_vec(a.lerp(b, t))) })(),
        "vec.ops" => (|| -> R {
            let a = rd.vec()?; let b = rd.vec()?; let t = rd.num()?; let p = rd.pt()?;
            Ok(format!("{} {} {} {} {} {} {} {} {} {}", e_vec(a + b), e_vec(a - b), e_vec(a * t), e_vec(t * a), e_vec(-a),
                e_pt(p + a), e_pt(p - a), e_vec(p - b.to_point()), e_vec(a.turn_90()), e_vec(a.rotate_scale(b))))
        })(),
        "pt.lerp" => (|| -> R { let a = rd.pt()?; let b = rd.pt()?; let t = rd.num()?; Ok(e_pt(a.lerp(b, t))) })(),
        "pt.midpoint" => (|| -> R { let a = rd.pt()?; let b = rd.pt()?; Ok(e_pt(a.midpoint(b))) })(),
        "pt.round" => (|| -> R { let a = rd.pt()?; Ok(format!("{} {} {} {} {}", e_pt(a.round()), e_pt(a.ceil()), e_pt(a.floor()), e_pt(a.expand()), e_pt(a.trunc()))) })(),
        "vec.round" => (|| -> R { let a = rd.vec()?; Ok(format!("{} {} {} {} {}", e_vec(a.round()), e_vec(a.ceil()), e_vec(a.floor()), e_vec(a.expand()), e_vec(a.trunc()))) })(),
        "size.round" => (|| -> R { let a = rd.size()?; Ok(format!("{} {} {} {} {}", e_size(a.round()), e_size(a.ceil()), e_size(a.floor()), e_size(a.expand()), e_size(a.trunc()))) })(),
        // segments
        "line.eval" => (|| -> R { let l = rd.line()?; let t = rd.num()?; Ok(e_pt(l.eval(t))) })(),
        "quad.eval" => (|| -> R { let l = rd.quad()?; let t = rd.num()?; Ok(e_pt(l.eval(t))) })(),
        "cubic.eval" => (|| -> R { let l = rd.cubic()?; let t = rd.num()?; Ok(e_pt(l.eval(t))) })(),
        "line.subsegment" => (|| -> R { let l = rd.line()?; let a = rd.num()?; let b = rd.num()?; Ok(e_line(l.subsegment(a..b))) })(),
        "quad.subsegment" => (|| -> R { let l = rd.quad()?; let a = rd.num()?; let b = rd.num()?; Ok(e_quad(l.subsegment(a..b))) })(),
        "cubic.subsegment" => (|| -> R { let l = rd.cubic()?; let a = rd.num()?; let b = rd.num()?; Ok(e_cubic(l.subsegment(a..b))) })(),
        "quad.subdivide" => (|| -> R { let l = rd.quad()?; let (a, b) = l.subdivide(); Ok(format!("{} {}", e_quad(a), e_quad(b))) })(),
        "cubic.subdivide" => (|| -> R { let l = rd.cubic()?; let (a, b) = l.subdivide(); Ok(format!("{} {}", e_cubic(a), e_cubic(b))) })(),
        "quad.deriv" => (|| -> R { let l = rd.quad()?; Ok(e_line(l.deriv())) })(),
        "cubic.deriv" => (|| -> R { let l = rd.cubic()?; Ok(e_quad(l.deriv())) })(),
        "quad.raise" => (|| -> R { let l = rd.quad()?; Ok(e_cubic(l.raise())) })(),
        "line.startend" => (|| -> R { let l = rd.line()?; Ok(format!("{} {}", e_pt(l.start()), e_pt(l.end()))) })(),
        "quad.startend" => (|| -> R { let l = rd.quad()?; Ok(format!("{} {}", e_pt(l.start()), e_pt(l.end()))) })(),
        "cubic.startend" => (|| -> R { let l = rd.cubic()?; Ok(format!("{} {}", e_pt(l.start()), e_pt(l.end()))) })(),
        "line.area" => (|| -> R { let l = rd.line()?; Ok(e(l.signed_area())) })(),
        "quad.area" => (|| -> R { let l = rd.quad()?; Ok(e(l.signed_area())) })(),
        "cubic.area" => (|| -> R { let l = rd.cubic()?; Ok(e(l.signed_area())) })(),
        "line.nearest" => (|| -> R { let l = rd.line()?; let p = rd.pt()?; let n = l.nearest(p, 0.0); Ok(format!("{} {}", e(n.t), e(n.distance_sq))) })(),
        // PathSeg
        "seg.eval" => (|| -> R { let s = rd.seg()?; let t = rd.num()?; Ok(e_pt(s.eval(t))) })(),
        "seg.subsegment" => (|| -> R { let s = rd.seg()?; let a = rd.num()?; let b = rd.num()?; Ok(e_seg(s.subsegment(a..b))) })(),
        "seg.startend" => (|| -> R { let s = rd.seg()?; Ok(format!("{} {}", e_pt(s.start()), e_pt(s.end()))) })(),
        "seg.reverse" => (|| -> R { let s = rd.seg()?; Ok(e_seg(s.reverse())) })(),
        "seg.tocubic" => (|| -> R { let s = rd.seg()?; Ok(e_cubic(s.to_cubic())) })(),
        "seg.area" => (|| -> R { let s = rd.seg()?; Ok(e(s.signed_area())) })(),
        "seg.subseg_eval" => (|| -> R {
            let s = rd.seg()?; let t0 = rd.num()?; let t1 = rd.num()?; let u = rd.num()?;
            Ok(format!("{} {}", e_pt(s.subsegment(t0..t1).eval(u)), e_pt(s.eval(t0 + u * (t1 - t0)))))
        })(),
        "seg.rev_raise_eval" => (|| -> R {
            let s = rd.seg()?; let t = rd.num()?;
            let tt = match s { PathSeg::Line(_) => 3.0 * t * t - 2.0 * t * t * t, _ => t };
            Ok(format!("{} {} {} {}", e_pt(s.reverse().eval(t)), e_pt(s.eval(1.0 - t)), e_pt(s.to_cubic().eval(t)), e_pt(s.eval(tt))))
        })(),
        // paths
        "path.segs" => (|| -> R { let p = rd.els()?; let v: Vec<PathSeg> = segments(p).collect(); Ok(e_segs(&v)) })(),
        "path.getsegs" => (|| -> R {
            let p = rd.els()?; let n = p.len();
            let bp = BezPath::from_vec(p);
            Ok((0..n + 2).map(|ix| match bp.get_seg(ix) { Some(s) => e_seg(s), None => "none".to_string() }).collect::<Vec<_>>().join(" | "))
        })(),
        "path.fromsegs" => (|| -> R { let p = rd.els()?; let v: Vec<PathSeg> = segments(p).collect(); Ok(e_els(BezPath::from_path_segments(v.into_iter()))) })(),
        "path.rev" => (|| -> R { let p = rd.els()?; let bp = BezPath::from_vec(p); Ok(e_els(bp.reverse_subpaths())) })(),
        "path.area" => (|| -> R { let p = rd.els()?; Ok(e(p.as_slice().area())) })(),
        "path.segs_of_fromsegs" => (|| -> R {
            let p = rd.els()?; let v: Vec<PathSeg> = segments(p).collect();
            let q = BezPath::from_path_segments(v.into_iter());
            let w: Vec<PathSeg> = q.segments().collect(); Ok(e_segs(&w))
        })(),
        "path.segs_of_revrev" => (|| -> R {
            let p = rd.els()?; let q = BezPath::from_vec(p).reverse_subpaths().reverse_subpaths();
            let w: Vec<PathSeg> = q.segments().collect(); Ok(e_segs(&w))
        })(),
        "path.segs_of_rev" => (|| -> R {
            let p = rd.els()?; let q = BezPath::from_vec(p).reverse_subpaths();
            let w: Vec<PathSeg> = q.segments().collect(); Ok(e_segs(&w))
        })(),
        // rect / insets
        "rect.bin" => (|| -> R {
            let a = rd.rect()?; let b = rd.rect()?;
            Ok(format!("{} {} {} {} {} {} {} {}", e_rect(a.union(b)), e_rect(a.intersect(b)), e_bool(a.overlaps(b)), e_bool(b.overlaps(a)),
                e_bool(a.contains_rect(b)), e_bool(b.contains_rect(a)), e_insets(a - b), e_rect(b + (a - b))))
        })(),
        "rect.un" => (|| -> R {
            let a = rd.rect()?;
            Ok(format!("{} {} {} {} {} {} {} {} {} {} {} {} {} {} {} {} {} {} {}", e_rect(a.abs()), e_rect(a.expand()), e_rect(a.trunc()), e_rect(a.round()),
                e_rect(a.ceil()), e_rect(a.floor()), e(a.area()), e(a.width()), e(a.height()), e_pt(a.origin()), e_size(a.size()), e_pt(a.center()),
                e_bool(a.is_zero_area()), e(Shape::perimeter(&a, 0.0)), e_rect(Shape::bounding_box(&a)), e(a.min_x()), e(a.max_x()), e(a.min_y()), e(a.max_y())))
        })(),
        "rect.pt" => (|| -> R {
            let a = rd.rect()?; let p = rd.pt()?;
            Ok(format!("{} {} {} {}", e_bool(a.contains(p)), e_rect(a.union_pt(p)), Shape::winding(&a, p), e_rect(Rect::from_points(a.origin(), p))))
        })(),
        "rect.insets" => (|| -> R {
            let a = rd.rect()?; let i = rd.insets()?;
            Ok(format!("{} {} {} {} {} {} {} {} {}", e_rect(a + i), e_rect((a + i) - i), e_rect(i + a), e_rect(i - a), e_rect(a - i), e_insets(-i), e_size(i.size()), e(i.x_value()), e(i.y_value())))
        })(),
        "rect.misc" => (|| -> R {
            let a = rd.rect()?; let w = rd.num()?; let h = rd.num()?; let v = rd.vec()?;
            Ok(format!("{} {} {} {}", e_rect(a.inflate(w, h)), e_rect(a.scale_from_origin(w)), e_rect(a + v), e_rect(a - v)))
        })(),
        // affine
        "aff.bin" => (|| -> R {
            let a = rd.affine()?; let b = rd.affine()?; let p = rd.pt()?;
            Ok(format!("{} {} {} {} {} {}", e_affine(a * b), e_pt(a * p), e_pt((a * b) * p), e_pt(a * (b * p)), e(a.determinant()), e((a * b).determinant())))
        })(),
        "aff.inv" => (|| -> R { let a = rd.affine()?; Ok(format!("{} {} {}", e_affine(a.inverse()), e_affine(a * a.inverse()), e_affine(a.inverse() * a))) })(),
        "aff.family" => (|| -> R {
            let a = rd.affine()?; let s = rd.num()?; let sx = rd.num()?; let sy = rd.num()?; let v = rd.vec()?; let c = rd.pt()?;
            Ok([Affine::scale(s), Affine::scale_non_uniform(sx, sy), Affine::translate(v), Affine::skew(sx, sy), Affine::scale_about(s, c),
                a.pre_scale(s), a.pre_scale_non_uniform(sx, sy), a.pre_translate(v), a.then_scale(s), a.then_scale_non_uniform(sx, sy),
                a.then_translate(v), a.then_scale_about(s, c)].iter().map(|x| e_affine(*x)).collect::<Vec<_>>().join(" ")
                + " " + &e_vec(a.translation()) + " " + &e_affine(a.with_translation(v)))
        })(),
        "aff.rot" => (|| -> R {
            let a = rd.affine()?; let th = rd.num()?; let c = rd.pt()?;
            Ok([Affine::rotate(th), Affine::rotate_about(th, c), a.pre_rotate(th), a.pre_rotate_about(th, c), a.then_rotate(th), a.then_rotate_about(th, c)]
                .iter().map(|x| e_affine(*x)).collect::<Vec<_>>().join(" "))
        })(),
        "aff.reflect" => (|| -> R { let p = rd.pt()?; let d = rd.vec()?; Ok(e_affine(Affine::reflect(p, d))) })(),
        "aff.rect" => (|| -> R { let a = rd.affine()?; let r = rd.rect()?; Ok(format!("{} {}", e_rect(a.transform_rect_bbox(r)), e_affine(Affine::map_unit_square(r)))) })(),
        "aff.seg" => (|| -> R {
            let a = rd.affine()?; let s = rd.seg()?; let t = rd.num()?;
            Ok(format!("{} {} {}", e_seg(a * s), e_pt((a * s).eval(t)), e_pt(a * s.eval(t))))
        })(),
        "aff.els" => (|| -> R { let a = rd.affine()?; let p = rd.els()?; Ok(e_els(p.into_iter().map(|el| a * el))) })(),
        "ts.bin" => (|| -> R {
            let a = rd.tscale()?; let b = rd.tscale()?; let p = rd.pt()?;
            Ok(format!("{} {} {} {} {} {} {} {}", e_ts(a * b), e_pt(a * p), e_affine(a.into()), e_ts(a.inverse()), e_pt(Affine::from(a) * p),
                e_ts(TranslateScale::from_scale_about(a.scale, p)), e_ts(a + b.translation), e_ts(a - b.translation)))
        })(),
        "ts.scalar" => (|| -> R {
            // k * ts, its affine form, k * Affine::from(ts)
            let k = rd.num()?; let a = rd.tscale()?;
            Ok(format!("{} {} {}", e_ts(k * a), e_affine((k * a).into()), e_affine(k * Affine::from(a))))
        })(),
        "ts.shapes" => (|| -> R {
            let a = rd.tscale()?; let l = rd.line()?; let r = rd.rect()?; let q = rd.quad()?; let c = rd.cubic()?;
            Ok(format!("{} {} {} {}", e_line(a * l), e_rect(a * r), e_quad(a * q), e_cubic(a * c)))
        })(),
        "path.area_meta" => (|| -> R {
            // area of p, of reverse(p), of A*p, det A, of p with every segment split at t, of p with every segment raised to a cubic
            let a = rd.affine()?; let t = rd.num()?; let p = rd.els()?;
            let bp = BezPath::from_vec(p);
            let rev = bp.reverse_subpaths();
            let tr = a * bp.clone();
            let split = BezPath::from_path_segments(bp.segments().flat_map(|s| [s.subsegment(0.0..t), s.subsegment(t..1.0)]));
            let raised = BezPath::from_path_segments(bp.segments().map(|s| PathSeg::Cubic(s.to_cubic())));
            Ok(format!("{} {} {} {} {} {}", e(bp.area()), e(rev.area()), e(tr.area()), e(a.determinant()), e(split.area()), e(raised.area())))
        })(),
        // solvers
        "solve.quadratic" => (|| -> R { let c0 = rd.num()?; let c1 = rd.num()?; let c2 = rd.num()?; Ok(e_list(&common::solve_quadratic(c0, c1, c2))) })(),
        "solve.cubic" => (|| -> R { let c0 = rd.num()?; let c1 = rd.num()?; let c2 = rd.num()?; let c3 = rd.num()?; Ok(e_list(&common::solve_cubic(c0, c1, c2, c3))) })(),
        "solve.quartic" => (|| -> R { let c0 = rd.num()?; let c1 = rd.num()?; let c2 = rd.num()?; let c3 = rd.num()?; let c4 = rd.num()?; Ok(e_list(&common::solve_quartic(c0, c1, c2, c3, c4))) })(),
        "solve.itp" => (|| -> R {
            let c0 = rd.num()?; let c1 = rd.num()?; let c2 = rd.num()?; let c3 = rd.num()?;
            let a = rd.num()?; let b = rd.num()?; let eps = rd.num()?; let n0 = rd.nat()?; let k1 = rd.num()?;
            let f = |x: f64| ((c3 * x + c2) * x + c1) * x + c0;
            Ok(e(common::solve_itp(f, a, b, eps, n0, k1, f(a), f(b))))
        })(),
        // curve queries
        "seg.extrema" => (|| -> R { let s = rd.seg()?; Ok(e_list(&s.extrema())) })(),
        "seg.bbox" => (|| -> R { let s = rd.seg()?; Ok(e_rect(ParamCurveExtrema::bounding_box(&s))) })(),
        "path.bbox" => (|| -> R { let p = rd.els()?; Ok(e_rect(p.as_slice().bounding_box())) })(),
        "path.cbox" => (|| -> R { let p = rd.els()?; Ok(e_rect(BezPath::from_vec(p).control_box())) })(),
        "seg.winding" => (|| -> R {
            // a single segment closed back by nothing: use the path [M start, seg]: winding of an open path = sum over its segments
            let s = rd.seg()?; let p = rd.pt()?;
            let path = BezPath::from_path_segments([s].into_iter());
            Ok(format!("{}", path.winding(p)))
        })(),
        "path.winding" => (|| -> R {
            let q = rd.pt()?; let p = rd.els()?;
            let w = p.as_slice().winding(q);
            Ok(format!("{} {}", w, e_bool(Shape::contains(&p.as_slice(), q))))
        })(),
        "path.winding_meta" => (|| -> R {
            let a = rd.affine()?; let q = rd.pt()?; let p = rd.els()?;
            let bp = BezPath::from_vec(p);
            let rev = bp.reverse_subpaths();
            let tr = a * bp.clone();
            let raised = BezPath::from_path_segments(bp.segments().map(|s| PathSeg::Cubic(s.to_cubic())));
            // split every segment at t = 0.375; the pieces keep the stored end points of the original (subsegment(t..1.0)
            // recomputes the end point of a line with one rounding, which would open 1-ulp gaps in the closed path)
            let split = BezPath::from_path_segments(bp.segments().flat_map(|s| {
                let a = s.subsegment(0.0..0.375);
                let b = s.subsegment(0.375..1.0);
                let a = match a { PathSeg::Line(mut l) => { l.p0 = s.start(); PathSeg::Line(l) } PathSeg::Quad(mut l) => { l.p0 = s.start(); PathSeg::Quad(l) } PathSeg::Cubic(mut l) => { l.p0 = s.start(); PathSeg::Cubic(l) } };
                let b = match b { PathSeg::Line(mut l) => { l.p1 = s.end(); PathSeg::Line(l) } PathSeg::Quad(mut l) => { l.p2 = s.end(); PathSeg::Quad(l) } PathSeg::Cubic(mut l) => { l.p3 = s.end(); PathSeg::Cubic(l) } };
                [a, b]
            }));
            Ok(format!("{} {} {} {} {}", bp.winding(q), rev.winding(q), tr.winding(a * q), raised.winding(q), split.winding(q)))
        })(),
        // cubic -> quadratics, nearest
        "cubic.to_quads" => (|| -> R {
            let c = rd.cubic()?; let acc = rd.num()?;
            let v: Vec<(f64, f64, QuadBez)> = c.to_quads(acc).collect();
            let mut s = format!("{}", v.len());
            for (t0, t1, q) in v { s.push_str(&format!(" | {} {} {}", e(t0), e(t1), e_quad(q))); }
            Ok(s)
        })(),
        "cubic.approx_spline" => (|| -> R {
            let c = rd.cubic()?; let acc = rd.num()?;
            Ok(match c.approx_spline(acc) { None => "none".to_string(), Some(sp) => e_pts(sp.points()) })
        })(),
        "cubics.to_splines" => (|| -> R {
            let acc = rd.num()?; let n = rd.nat()?;
            let mut cs = vec![]; for _ in 0..n { cs.push(rd.cubic()?); }
            Ok(match cubics_to_quadratic_splines(&cs, acc) { None => "none".to_string(), Some(v) => v.iter().map(|sp| e_pts(sp.points())).collect::<Vec<_>>().join(" | ") })
        })(),
        "spline.to_quads" => (|| -> R {
            let n = rd.nat()?; let mut pts = vec![]; for _ in 0..n { pts.push(rd.pt()?); }
            let qs: Vec<QuadBez> = QuadSpline::new(pts).to_quads().collect();
            let mut s = format!("{}", qs.len());
            for q in qs { s.push_str(" | "); s.push_str(&e_quad(q)); }
            Ok(s)
        })(),
        "seg.nearest" => (|| -> R {
            let s = rd.seg()?; let p = rd.pt()?; let acc = rd.num()?;
            let n = s.nearest(p, acc);
            Ok(format!("{} {}", e(n.t), e(n.distance_sq)))
        })(),
        // flatten
        "path.flatten" => (|| -> R {
            let tol = rd.num()?; let p = rd.els()?;
            let mut out = vec![];
            flatten(p, tol, |el| out.push(el));
            Ok(e_els(out))
        })(),
        "path.flatten_meta" => (|| -> R {
            // cumulative output length after each input element | flatten(path, tol) | flatten(4*path, 4*tol) scaled back by 1/4
            let tol = rd.num()?; let p = rd.els()?;
            let mut cum = vec![];
            for k in 1..=p.len() {
                let mut cnt = 0usize;
                flatten(p[..k].iter().copied(), tol, |_| cnt += 1);
                cum.push(cnt.to_string());
            }
            let mut out = vec![];
            flatten(p.iter().copied(), tol, |el| out.push(el));
            let big = Affine::scale(4.0);
            let small = Affine::scale(0.25);
            let mut out4 = vec![];
            flatten(p.iter().map(|el| big * *el), 4.0 * tol, |el| out4.push(small * el));
            Ok(format!("{} | {} | {}", cum.join(" "), e_els(out), e_els(out4)))
        })(),
        _ => return None,
    })
}
