//! compound-assignment operators (`*=`, `+=`, `-=`, `/=`): each must equal its binary operator
use crate::*;
use kurbo::*;

type R = Result<String, BadArgs>;

pub fn run(op: &str, rd: &mut Rd) -> Option<R> {
    Some(match op {
        "assign.maps" => (|| -> R {
            // Affine a *= b ; TranslateScale s *= t, s += v, s -= v
            let a = rd.affine()?; let b = rd.affine()?; let s = rd.tscale()?; let t = rd.tscale()?; let v = rd.vec()?;
            let mut a1 = a; a1 *= b;
            let mut s1 = s; s1 *= t;
            let mut s2 = s; s2 += v;
            let mut s3 = s; s3 -= v;
            Ok(format!("{} {} {} {}", e_affine(a1), e_ts(s1), e_ts(s2), e_ts(s3)))
        })(),
        "assign.vecs" => (|| -> R {
            // Point += / -= Vec2 ; Vec2 += -= Vec2, *= /= f64 ; Size *= /= f64, += -= Size
            let p = rd.pt()?; let u = rd.vec()?; let v = rd.vec()?; let k = rd.num()?; let sa = rd.vec()?; let sb = rd.vec()?;
            let mut p1 = p; p1 += v;
            let mut p2 = p; p2 -= v;
            let mut u1 = u; u1 += v;
            let mut u2 = u; u2 -= v;
            let mut u3 = u; u3 *= k;
            let mut u4 = u; u4 /= k;
            let (sa, sb) = (Size::new(sa.x, sa.y), Size::new(sb.x, sb.y));
            let mut z1 = sa; z1 *= k;
            let mut z2 = sa; z2 /= k;
            let mut z3 = sa; z3 += sb;
            let mut z4 = sa; z4 -= sb;
            let es = |z: Size| format!("{} {}", e(z.width), e(z.height));
            Ok(format!("{} {} {} {} {} {} {} {} {} {}", e_pt(p1), e_pt(p2), e_vec(u1), e_vec(u2), e_vec(u3), e_vec(u4), es(z1), es(z2), es(z3), es(z4)))
        })(),
        _ => return None,
    })
}
