//! ops for the general path of `solve_quartic` (C15Q): the full solver and the public `factor_quartic_inner`.
//! `depressed_cubic_dominant` is a private fn of `kurbo::common`, so there is no `solve.dcd` on this side.
use crate::*;

type R = Result<String, BadArgs>;

pub fn run(op: &str, rd: &mut Rd) -> Option<R> {
    Some(match op {
        "solve.quartic_full" => (|| -> R {
            let c0 = rd.num()?; let c1 = rd.num()?; let c2 = rd.num()?; let c3 = rd.num()?; let c4 = rd.num()?;
            Ok(e_list(&common::solve_quartic(c0, c1, c2, c3, c4)))
        })(),
        "solve.factor_quartic" => (|| -> R {
            let a = rd.num()?; let b = rd.num()?; let c = rd.num()?; let d = rd.num()?; let r = rd.nat()?;
            Ok(match common::factor_quartic_inner(a, b, c, d, r != 0) {
                None => "NONE".to_string(),
                Some(q) => format!("{} {} {} {}", e(q[0].0), e(q[0].1), e(q[1].0), e(q[1].1)),
            })
        })(),
        "f.cbrt" => (|| -> R { let x = rd.num()?; Ok(e(x.cbrt())) })(),
        _ => return None,
    })
}
