import Kurbo.OpsKernel
import Kurbo.OpsPath
import Kurbo.OpsSolve
import Kurbo.OpsCurve
import Kurbo.OpsQuads
import Kurbo.OpsFlatten
import Kurbo.OpsShapes
import Kurbo.OpsSvg
import Kurbo.OpsDash
import Kurbo.OpsStroke
import Kurbo.OpsSimplify
import Kurbo.OpsSvgWrite
import Kurbo.OpsPathMut
import Kurbo.OpsQuartic
import Kurbo.OpsAssign
import Kurbo.OpsEllipsePerimeter
open Kurbo Kurbo.Driver

def tables (K : Type) [Scalar K] [Codec K] : List (String → Option (Rd String)) :=
  [opsKernel (K := K), opsPath (K := K), opsSolve (K := K), opsCurve (K := K), opsQuads (K := K), opsFlatten (K := K), opsShapes (K := K), opsSvg (K := K), opsDash (K := K), opsStroke (K := K), opsSimplify (K := K), opsSvgWrite (K := K), opsPathMut (K := K), opsQuartic (K := K), opsAssign (K := K), opsEllipsePerimeter (K := K)]

def runLine (K : Type) [Scalar K] [Codec K] (line : String) : String :=
  let toks := (line.trimAscii.toString.splitOn " ").filter (· ≠ "")
  match toks with
  | [] => "EMPTY"
  | op :: args =>
    match (tables K).findSome? (fun t => t op) with
    | none => "UNKNOWN-OP"
    | some rd =>
      match rd.run args with
      | some (out, []) => out
      | some (_, _) => "BAD-ARGS trailing"
      | none => "BAD-ARGS"

partial def loop (K : Type) [Scalar K] [Codec K] (h : IO.FS.Stream) (out : IO.FS.Stream) : IO Unit := do
  let line ← h.getLine
  if line.isEmpty then return ()
  out.putStrLn (runLine K line)
  loop K h out

def main (args : List String) : IO Unit := do
  let stdin ← IO.getStdin
  let stdout ← IO.getStdout
  match args with
  | ["R"] => loop Rat stdin stdout
  | ["F"] => loop Float stdin stdout
  | _ => IO.eprintln "usage: kmodel R|F  < ops"
