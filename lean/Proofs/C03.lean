import Proofs.Lemmas.C03GL
import Kurbo.Arclen
/-! C03 – arc length.  PROVED here:
    * `gl*_exact`: each of the 15 Gauss–Legendre tables of common.rs (as the exact rationals of the printed decimals, re-extracted from
      the source on every run and proved equal to these pinned tables in `Proofs/GenEquivGL.lean`) integrates every polynomial of degree
      ≤ 2n − 1 on [−1, 1] exactly to 1e-13: Σ wᵢ xᵢᵏ = ∫ xᵏ for all k < 2n (half tables: the symmetric half), all weights positive, all
      nodes in [−1, 1].  A finite table: `decide +kernel` over the whole table IS a proof; a mistyped node or weight (≥ 1e-13) breaks it.
    * structural facts about `arclenRec` (depth), `pathPerimeter` (sum over segments).
    NOT PROVED: the accuracy claim for quadratics/cubics (the subdivision decision uses an error estimate with fitted constants);
    accuracy and monotonicity of `inv_arclen` – both are decided by the oracle in gen/c03.py. -/
namespace Kurbo
open Kurbo.GL

theorem gl3_exact : fullOk gl3 = true ∧ nodesOk gl3 = true := by decide +kernel
theorem gl4_exact : fullOk gl4 = true ∧ nodesOk gl4 = true := by decide +kernel
theorem gl5_exact : fullOk gl5 = true ∧ nodesOk gl5 = true := by decide +kernel
theorem gl6_exact : fullOk gl6 = true ∧ nodesOk gl6 = true := by decide +kernel
theorem gl7_exact : fullOk gl7 = true ∧ nodesOk gl7 = true := by decide +kernel
theorem gl8_exact : fullOk gl8 = true ∧ nodesOk gl8 = true := by decide +kernel
theorem gl9_exact : fullOk gl9 = true ∧ nodesOk gl9 = true := by decide +kernel
theorem gl11_exact : fullOk gl11 = true ∧ nodesOk gl11 = true := by decide +kernel
theorem gl16_exact : fullOk gl16 = true ∧ nodesOk gl16 = true := by decide +kernel
theorem gl24_exact : fullOk gl24 = true ∧ nodesOk gl24 = true := by decide +kernel
theorem gl32_exact : fullOk gl32 = true ∧ nodesOk gl32 = true := by decide +kernel
theorem gl8Half_exact : halfOk gl8Half = true ∧ nodesOk gl8Half = true := by decide +kernel
theorem gl16Half_exact : halfOk gl16Half = true ∧ nodesOk gl16Half = true := by decide +kernel
theorem gl24Half_exact : halfOk gl24Half = true ∧ nodesOk gl24Half = true := by decide +kernel
theorem gl32Half_exact : halfOk gl32Half = true ∧ nodesOk gl32Half = true := by decide +kernel

/-- table sizes are what their names say -/
theorem gl_table_sizes :
    gl3.length = 3 ∧ gl4.length = 4 ∧ gl5.length = 5 ∧ gl6.length = 6 ∧ gl7.length = 7 ∧ gl8.length = 8 ∧ gl9.length = 9 ∧
    gl11.length = 11 ∧ gl16.length = 16 ∧ gl24.length = 24 ∧ gl32.length = 32 ∧ gl8Half.length = 4 ∧ gl16Half.length = 8 ∧
    gl24Half.length = 12 ∧ gl32Half.length = 16 := by decide

section structural
variable {K : Type} [Scalar K]

/-- the perimeter of a path is the left fold of the segment lengths (any scalar type; `none` exactly when `segments()` panics) -/
theorem pathPerimeter_eq (els : List (PathEl K)) (acc : K) :
    pathPerimeter els acc = (segs els).map fun ss => ss.foldl (fun a s => Scalar.add a (s.arclen acc)) (Scalar.ofRat 0) := rfl

/-- `CubicBez::arclen` starts the recursion with 20 levels of subdivision left: the recursion depth is at most 20 and at most 2^20
    leaves are integrated (the model recursion is structural on that fuel, so it terminates for every input) -/
theorem cubic_arclen_depth (c : CubicBez K) (acc : K) : c.arclen acc = arclenRec 20 c acc := rfl

end structural
end Kurbo
