import Kurbo.Flatten
namespace Kurbo
end Kurbo
