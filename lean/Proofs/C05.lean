import Proofs.Lemmas.C05
import Proofs.Lemmas.C05Real
import Proofs.Lemmas.C05Cubic
import Proofs.Lemmas.C05Scale
/-! C05 – flattening (`flatten`, `QuadBez::estimate_subdiv`, `determine_subdiv_t`; model: `Kurbo/Flatten.lean`).
    Helper definitions (`PathEl.isFlat`, `flattenRun`, `flattenState`, `flattenStateAfter`, `flattenRuns`, `flattenFrom`,
    `flattenQuadN`, `flattenQuadT`, `flattenCubicN`, `flattenCubicBuf`, `flattenCubicSum`, `PathEl.scaleBy`, the law
    classes `LawfulSqrt`, `LawfulHypotR`) and lemmas: `Proofs/Lemmas/C05.lean`, `C05Real.lean`, `C05Cubic.lean`,
    `C05Scale.lean`.

    PROVED
    * for EVERY `Scalar` (no arithmetic law; holds verbatim for `Float`):
      - `flatten_kinds`: only `MoveTo`/`LineTo`/`ClosePath` are emitted;
      - `flatten_runs`, `flatten_append`, `flattenState_spec`: the output is the concatenation of one run per input element,
        in input order, each run a function of the element and of the state `(current point, sub-path start)` threaded
        through the prefix;
      - `flatten_passthrough`: the run of a move/line/close element is that element;
      - `flatten_run_ends_exact_quad/_cubic`: with a current point the run of a curve element is non-empty, consists of
        `LineTo`s only and ends with `LineTo` of the *stored* end point; `flatten_run_no_current_point`: without a current
        point it is empty, and (`no_current_point_only_before_moveTo`) that can happen only before the first `MoveTo`;
        `flatten_state_after_close`: after `ClosePath` the current point is the start of the closed sub-path;
      - `flattenQuad_length` (exactly `max 1 ⌈½·val/√tol⌉` lines), `flattenCubic_length_le`
        (at most `#quads·(n+2) + 1`, the fuel bound of the model – see the remark below);
      - `quad_vertices_on_curve`, `cubic_vertices_on_quads`: every emitted vertex but the last is `eval t` of the source
        quadratic / of the corresponding quadratic of `to_quads(tolerance/10)`, groups in the order of the quadratics.
    * for a lawful scalar: `flattenQuadT_spec` (the parameters are `determine_subdiv_t params (i/n)`),
      `determine_subdiv_t_zero_one`, `determine_subdiv_t_degenerate_zero`, `flattenQuad_eq_map_eval`,
      `flattenQuad_degenerate` (collinear control points: `val = 0`, one line), `flattenCubic_length_lawful`
      (all `val ≥ 0` ⇒ exactly `n` lines, loop parameters `u` strictly increasing in `[0,1)` per piece).
    * over ℝ with `LawfulSqrt`: `approxParabolaInvIntegral_strictMono`, `approxParabolaIntegral_strictMono`,
      `estimate_subdiv_nondegenerate_iff` (`a0 ≠ a2` iff the control points are not collinear),
      `determine_subdiv_t_strictMono`, `determine_subdiv_t_monotone` (unconditional), `determine_subdiv_t_mapsTo`,
      `quad_vertices_monotone` (strict, parameters in (0,1), non-collinear control points),
      `quad_vertices_monotone_weak` (never backwards, parameters in [0,1], every quadratic),
      `cubic_vertices_monotone` (per piece of `to_quads`, in order: strictly increasing `t ∈ [0,1)`; exactly `n` lines).
    * over ℝ with `LawfulSqrt` and `LawfulHypotR`: `flattenQuad_scale`, `flattenCubic_scale`, `flatten_scale`
      (scaling path by `k > 0` and tolerance by `k` scales the output, element by element).

    NOT PROVED here
    * the distance of the cubic's vertices to the cubic itself (that is `to_quads` accuracy, property C17) and that the
      pieces of `to_quads` are in increasing cubic parameter (true by definition: piece `i` is the range `[i/n,(i+1)/n]`);
    * the flattening error bound (chord–curve distance ≤ tolerance) – the parabola-integral heuristic is not an
      exact bound (kurbo: "not absolutely guaranteed") and is not claimed.

    REMARK on the cubic length for an arbitrary `Scalar`: the design note "a cubic run has at most n+1 points because of the
    `i == n+1` break" is NOT a theorem of the model (nor of the Rust loop) without arithmetic: after the break the `for`
    loop goes on and the `while` can be re-entered with `i = n+1`, where the break test `i == n+1` never fires again.
    With lawful arithmetic and `val ≥ 0` the break is never reached at all and the count is exactly `n`
    (`flattenCubic_length_lawful`); for an arbitrary `Scalar` only the fuel bound holds. -/
set_option linter.unusedSectionVars false
namespace Kurbo

/-! ## structural part: any `Scalar` (also `Float`) -/
section structural
variable {K' : Type} [Scalar K']

/-- only move, line and close elements are emitted -/
theorem flatten_kinds (els : List (PathEl K')) (tol : K') : ∀ e ∈ flatten els tol, e.isFlat = true := by
  rw [flatten_eq_flattenFrom]
  exact flattenRuns_isFlat _ _ _

/-- one run per input element, in input order; the `i`-th run depends on the `i`-th element and on the state after the
    first `i` elements only -/
theorem flatten_runs (els : List (PathEl K')) (tol : K') :
    flatten els tol = (flattenRuns (none, none) els tol).flatten ∧
    (flattenRuns (none, none) els tol).length = els.length ∧
    ∀ (i : Nat) (hi : i < els.length),
      (flattenRuns (none, none) els tol)[i]'(by rw [flattenRuns_length]; exact hi) =
        flattenRun (flattenStateAfter (none, none) (els.take i)) els[i] tol (Scalar.sqrt tol) :=
  ⟨flatten_eq_flattenFrom els tol, flattenRuns_length _ _ _, fun i hi => flattenRuns_getElem _ _ _ i hi⟩

/-- flattening a concatenation = flattening the first part, then continuing from the state it left -/
theorem flatten_append (a b : List (PathEl K')) (tol : K') :
    flatten (a ++ b) tol = flatten a tol ++ flattenFrom (flattenStateAfter (none, none) a) b tol := by
  rw [flatten_eq_flattenFrom, flatten_eq_flattenFrom]
  unfold flattenFrom
  rw [flattenRuns_append, List.flatten_append]

/-- the threaded state is `(current point, sub-path start)` -/
theorem flattenState_spec (st : Option (Point K') × Option (Point K')) (p p1 p2 p3 : Point K') :
    flattenState st (.MoveTo p) = (some p, some p) ∧
    flattenState st (.LineTo p) = (some p, st.2) ∧
    flattenState st (.QuadTo p1 p2) = (some p2, st.2) ∧
    flattenState st (.CurveTo p1 p2 p3) = (some p3, st.2) ∧
    flattenState st .ClosePath = (st.2, st.2) ∧
    ∀ (pre : List (PathEl K')) (el : PathEl K'),
      flattenStateAfter (none, none) (pre ++ [el]) = flattenState (flattenStateAfter (none, none) pre) el :=
  ⟨rfl, rfl, rfl, rfl, rfl, fun pre el => by rw [flattenStateAfter_append]; rfl⟩

/-- move, line and close elements are passed through unchanged, whatever the state -/
theorem flatten_passthrough (st : Option (Point K') × Option (Point K')) (tol sqrt_tol : K') (p : Point K') :
    flattenRun st (.MoveTo p) tol sqrt_tol = [.MoveTo p] ∧
    flattenRun st (.LineTo p) tol sqrt_tol = [.LineTo p] ∧
    flattenRun st .ClosePath tol sqrt_tol = [.ClosePath] := ⟨rfl, rfl, rfl⟩

/-- the run of a `QuadTo` ends exactly at the stored end point -/
theorem flatten_run_ends_exact_quad (st : Option (Point K') × Option (Point K')) (p0 p1 p2 : Point K')
    (tol sqrt_tol : K') (h : st.1 = some p0) :
    flattenRun st (.QuadTo p1 p2) tol sqrt_tol = flattenQuad ⟨p0, p1, p2⟩ sqrt_tol ∧
    flattenRun st (.QuadTo p1 p2) tol sqrt_tol ≠ [] ∧
    (∀ e ∈ flattenRun st (.QuadTo p1 p2) tol sqrt_tol, ∃ p, e = PathEl.LineTo p) ∧
    (flattenRun st (.QuadTo p1 p2) tol sqrt_tol).getLast? = some (PathEl.LineTo p2) := by
  have e : flattenRun st (.QuadTo p1 p2) tol sqrt_tol = flattenQuad ⟨p0, p1, p2⟩ sqrt_tol := by
    unfold flattenRun; simp only [h]
  rw [e]
  refine ⟨rfl, ?_, ?_, flattenQuad_getLast _ _⟩
  · intro h0
    have := flattenQuad_getLast (⟨p0, p1, p2⟩ : QuadBez K') sqrt_tol
    rw [h0] at this; simp at this
  · intro el hel
    exact (PathEl.isLineTo_iff el).mp (flattenQuad_all_lineTo _ _ el hel)

/-- the run of a `CurveTo` ends exactly at the stored end point -/
theorem flatten_run_ends_exact_cubic (st : Option (Point K') × Option (Point K')) (p0 p1 p2 p3 : Point K')
    (tol sqrt_tol : K') (h : st.1 = some p0) :
    flattenRun st (.CurveTo p1 p2 p3) tol sqrt_tol = flattenCubic ⟨p0, p1, p2, p3⟩ tol sqrt_tol ∧
    flattenRun st (.CurveTo p1 p2 p3) tol sqrt_tol ≠ [] ∧
    (∀ e ∈ flattenRun st (.CurveTo p1 p2 p3) tol sqrt_tol, ∃ p, e = PathEl.LineTo p) ∧
    (flattenRun st (.CurveTo p1 p2 p3) tol sqrt_tol).getLast? = some (PathEl.LineTo p3) := by
  have e : flattenRun st (.CurveTo p1 p2 p3) tol sqrt_tol = flattenCubic ⟨p0, p1, p2, p3⟩ tol sqrt_tol := by
    unfold flattenRun; simp only [h]
  rw [e]
  refine ⟨rfl, ?_, ?_, flattenCubic_getLast _ _ _⟩
  · intro h0
    have := flattenCubic_getLast (⟨p0, p1, p2, p3⟩ : CubicBez K') tol sqrt_tol
    rw [h0] at this; simp at this
  · intro el hel
    exact (PathEl.isLineTo_iff el).mp (flattenCubic_all_lineTo _ _ _ el hel)

/-- without a current point a curve element emits nothing (the crate's `if let Some(p0) = last_pt`) -/
theorem flatten_run_no_current_point (st : Option (Point K') × Option (Point K')) (p1 p2 p3 : Point K')
    (tol sqrt_tol : K') (h : st.1 = none) :
    flattenRun st (.QuadTo p1 p2) tol sqrt_tol = [] ∧ flattenRun st (.CurveTo p1 p2 p3) tol sqrt_tol = [] := by
  unfold flattenRun; simp only [h]; exact ⟨trivial, trivial⟩

/-- … and there is a current point (and a sub-path start) after every prefix that contains a `MoveTo` -/
theorem no_current_point_only_before_moveTo (pre : List (PathEl K'))
    (h : (flattenStateAfter (none, none) pre).1 = none) : ∀ p, PathEl.MoveTo p ∉ pre := by
  intro p hp
  have := (flattenStateAfter_isSome_of_moveTo (none, none) pre p hp).1
  rw [h] at this; simp at this

/-- after `… MoveTo p … ClosePath` (no further `MoveTo` in between) the current point is `p` again: a curve element
    directly after `ClosePath` is flattened from the start point of the closed sub-path, it is not dropped -/
theorem flatten_state_after_close (pre mid : List (PathEl K')) (p p1 p2 : Point K') (tol : K')
    (h : ∀ p', PathEl.MoveTo p' ∉ mid) :
    flattenStateAfter (none, none) (pre ++ PathEl.MoveTo p :: (mid ++ [PathEl.ClosePath])) = (some p, some p) ∧
    flattenRun (flattenStateAfter (none, none) (pre ++ PathEl.MoveTo p :: (mid ++ [PathEl.ClosePath])))
      (.QuadTo p1 p2) tol (Scalar.sqrt tol) = flattenQuad ⟨p, p1, p2⟩ (Scalar.sqrt tol) := by
  have e := flattenStateAfter_close (none, none) pre mid p h
  exact ⟨e, by rw [e]; rfl⟩

/-- a quadratic is flattened into exactly `n = max 1 (⌈½·val/√tol⌉ as usize)` lines -/
theorem flattenQuad_length (q : QuadBez K') (sqrt_tol : K') :
    (flattenQuad q sqrt_tol).length = flattenQuadN q sqrt_tol ∧
    flattenQuadN q sqrt_tol = max 1 (Scalar.toUSize (Scalar.ceil
      (Scalar.div (Scalar.mul (Scalar.ofRat (1/2)) (q.estimate_subdiv sqrt_tol).val) sqrt_tol))) :=
  ⟨flattenQuad_length' q sqrt_tol, flattenQuadN_eq q sqrt_tol⟩

/-- a cubic is flattened into at most `#quads·(n+2) + 1` lines (`n + 2` is the fuel of the model's inner loop; with
    non-negative `val`s the loop emits `n − 1 … n` points in total, see the header) -/
theorem flattenCubic_length_le (c : CubicBez K') (tolerance sqrt_tol : K') :
    (flattenCubic c tolerance sqrt_tol).length ≤
      (c.to_quads (Scalar.mul tolerance (Scalar.ofRat toQuadTol))).length * (flattenCubicN c tolerance sqrt_tol + 2) + 1 ∧
    1 ≤ (flattenCubic c tolerance sqrt_tol).length := by
  refine ⟨flattenCubic_length_le' c tolerance sqrt_tol, ?_⟩
  rw [flattenCubic_eq]; simp

/-- every vertex of a quadratic's run except the last is a point `q.eval t` of the quadratic; the last is the stored
    end point -/
theorem quad_vertices_on_curve (q : QuadBez K') (sqrt_tol : K') :
    flattenQuad q sqrt_tol =
      ((List.range (flattenQuadN q sqrt_tol - 1)).map fun k => PathEl.LineTo (q.eval (flattenQuadT q sqrt_tol (k + 1))))
        ++ [PathEl.LineTo q.p2] ∧
    ∀ i, flattenQuadT q sqrt_tol i = q.determine_subdiv_t (q.estimate_subdiv sqrt_tol)
      (Scalar.mul (natK i) (Scalar.div (Scalar.ofRat ((1 : Nat) : Rat)) (natK (flattenQuadN q sqrt_tol)))) :=
  ⟨flattenQuad_eq q sqrt_tol, fun _ => rfl⟩

/-- the vertices of a cubic's run: one group per quadratic of `to_quads(tolerance·0.1)`, in their order, every vertex
    of a group a point `q.eval t` of its quadratic; then the stored end point -/
theorem cubic_vertices_on_quads (c : CubicBez K') (tolerance sqrt_tol : K') :
    ∃ groups : List (List (PathEl K')),
      flattenCubic c tolerance sqrt_tol = groups.flatten ++ [PathEl.LineTo c.p3] ∧
      List.Forall₂ (fun (tq : K' × K' × QuadBez K') g =>
        g.length ≤ flattenCubicN c tolerance sqrt_tol + 2 ∧ ∀ e ∈ g, ∃ t, e = PathEl.LineTo (tq.2.2.eval t))
        (c.to_quads (Scalar.mul tolerance (Scalar.ofRat toQuadTol))) groups :=
  flattenCubic_groups c tolerance sqrt_tol

/-! non-vacuity: states with and without a current point -/
example : (flattenStateAfter (none, none) [PathEl.MoveTo (⟨0, 0⟩ : Point Rat), .LineTo ⟨1, 0⟩]).1 = some ⟨1, 0⟩ := rfl
example : (flattenStateAfter (none, none) [PathEl.LineTo (⟨1, 0⟩ : Point Rat), .ClosePath]).1 = none := rfl
example : (flattenStateAfter (none, none) ([] : List (PathEl Rat))).1 = none := rfl
example : ∀ p', PathEl.MoveTo p' ∉ [PathEl.LineTo (⟨1, 0⟩ : Point Rat), .QuadTo ⟨1, 1⟩ ⟨2, 0⟩] := by simp
example : flattenRun (some (⟨0, 0⟩ : Point Rat), none) (.QuadTo ⟨1, 1⟩ ⟨2, 0⟩) (1/100) (1/10) ≠ [] :=
  (flatten_run_ends_exact_quad _ ⟨0, 0⟩ ⟨1, 1⟩ ⟨2, 0⟩ _ _ rfl).2.1

end structural

/-! ## lawful scalar: the subdivision parameters -/
section lawful
variable {K : Type} [Field K] [LinearOrder K] [IsStrictOrderedRing K] [FloorRing K] [Scalar K] [LawfulScalar K]

/-- the `i`-th vertex of a quadratic's run has parameter `determine_subdiv_t params (i/n)` -/
theorem flattenQuadT_spec (q : QuadBez K) (s : K) (i : Nat) :
    flattenQuadT q s i = q.determine_subdiv_t (q.estimate_subdiv s) ((i : K) / (flattenQuadN q s : K)) :=
  flattenQuadT_lawful q s i

/-- the parameter map sends 0 to 0, and 1 to 1 unless the two end images `u0`, `u2` coincide -/
theorem determine_subdiv_t_zero_one (q : QuadBez K) (s : K) :
    q.determine_subdiv_t (q.estimate_subdiv s) 0 = 0 ∧
    (approxParabolaInvIntegral (q.estimate_subdiv s).a0 ≠ approxParabolaInvIntegral (q.estimate_subdiv s).a2 →
      q.determine_subdiv_t (q.estimate_subdiv s) 1 = 1) :=
  ⟨determine_subdiv_t_zero q _ (estimate_subdiv_u0 q s),
   determine_subdiv_t_one q _ (estimate_subdiv_u0 q s) (estimate_subdiv_uscale q s)⟩

/-- if the end images coincide (`uscale = 1/0 = 0`) every parameter is 0: all interior vertices are `q.eval 0` -/
theorem determine_subdiv_t_degenerate_zero (q : QuadBez K) (s : K)
    (h : approxParabolaInvIntegral (q.estimate_subdiv s).a0 = approxParabolaInvIntegral (q.estimate_subdiv s).a2) (x : K) :
    q.determine_subdiv_t (q.estimate_subdiv s) x = 0 :=
  determine_subdiv_t_degenerate q _ (estimate_subdiv_uscale q s) h x

/-- in the non-degenerate case the whole run, last vertex included, is `q.eval (t i)`, `i = 1..n` (the last vertex is
    emitted as the stored `p2`, which is `q.eval 1 = q.eval (t n)`) -/
theorem flattenQuad_eq_map_eval (q : QuadBez K) (s : K)
    (h : approxParabolaInvIntegral (q.estimate_subdiv s).a0 ≠ approxParabolaInvIntegral (q.estimate_subdiv s).a2) :
    flattenQuad q s = (List.range (flattenQuadN q s)).map fun k => PathEl.LineTo (q.eval (flattenQuadT q s (k + 1))) := by
  have hn := flattenQuadN_pos q s
  obtain ⟨m, hm⟩ : ∃ m, flattenQuadN q s = m + 1 := ⟨flattenQuadN q s - 1, by omega⟩
  rw [flattenQuad_eq]
  have hlast : flattenQuadT q s (m + 1) = 1 := by
    rw [flattenQuadT_lawful, hm]
    have : ((m + 1 : Nat) : K) / ((m + 1 : Nat) : K) = 1 := div_self (by positivity)
    rw [this]
    exact (determine_subdiv_t_zero_one q s).2 h
  rw [hm, Nat.add_sub_cancel, List.range_succ, List.map_append, List.map_singleton]
  rw [hlast, quad_eval_one]

/-- collinear control points (`cross = 0`): `val = 0` and – given `0 as usize = 0`, which holds for ℚ, ℝ and f64 – the run
    is the single line to the stored end point -/
theorem flattenQuad_degenerate (q : QuadBez K) (s : K)
    (h : (q.p1.x - q.p0.x) * (q.p2.y - q.p0.y) - (q.p1.y - q.p0.y) * (q.p2.x - q.p0.x) = 0)
    (hz : Scalar.toUSize (0 : K) = 0) :
    (q.estimate_subdiv s).val = 0 ∧ flattenQuadN q s = 1 ∧ flattenQuad q s = [PathEl.LineTo q.p2] :=
  flattenQuad_degenerate' q s h hz

example : Scalar.toUSize (0 : Rat) = 0 := rfl
example : let q : QuadBez Rat := ⟨⟨0, 0⟩, ⟨1, 1⟩, ⟨3, 3⟩⟩
    (q.p1.x - q.p0.x) * (q.p2.y - q.p0.y) - (q.p1.y - q.p0.y) * (q.p2.x - q.p0.x) = 0 := by norm_num

/-- a cubic all of whose quadratic pieces have `val ≥ 0` (true over ℝ for `sqrt_tol ≥ 0`, see `cubic_vertices_monotone`)
    is flattened into exactly `n` lines (one line if all `val`s are 0): the `i == n + 1` break is never taken and the
    loop never re-enters after it; every piece's group of vertices has strictly increasing loop parameters
    `u = (i·step − val_sum)/val ∈ [0,1)` -/
theorem flattenCubic_length_lawful (c : CubicBez K) (tol s : K)
    (hval : ∀ qp ∈ flattenCubicBuf c tol s, 0 ≤ qp.2.val) :
    ∃ groups : List (List (PathEl K)),
      flattenCubic c tol s = groups.flatten ++ [PathEl.LineTo c.p3] ∧
      List.Forall₂ (fun (qp : QuadBez K × FlattenParams K) g =>
        ∃ us : List K, g = us.map (fun u => PathEl.LineTo (qp.1.eval (qp.1.determine_subdiv_t qp.2 u))) ∧
          us.Pairwise (· < ·) ∧ (∀ u ∈ us, 0 ≤ u ∧ u < 1) ∧ (us ≠ [] → 0 < qp.2.val))
        (flattenCubicBuf c tol s) groups ∧
      (flattenCubic c tol s).length = if 0 < flattenCubicSum c tol s then flattenCubicN c tol s else 1 :=
  flattenCubic_exact c tol s hval

end lawful

/-! ## over ℝ: monotonicity -/
section real
variable [Scalar ℝ] [LawfulScalar ℝ] [LawfulSqrt]

/-- `x ↦ x·(1 − B + √(B² + x²/4))` (B = 0.39) is strictly increasing -/
theorem approxParabolaInvIntegral_strictMono :
    (∀ x : ℝ, approxParabolaInvIntegral x = x * (1 - 39/100 + Real.sqrt ((39/100) ^ 2 + x ^ 2 / 4))) ∧
    StrictMono (fun x : ℝ => approxParabolaInvIntegral x) := by
  refine ⟨fun x => approxParabolaInvIntegral_real x, ?_⟩
  intro x y hxy
  simp only [approxParabolaInvIntegral_real]
  exact invIntR_strictMono hxy

/-- `x ↦ x / (1 − D + ⁴√(D⁴ + x²/4))` (D = 0.67) is strictly increasing -/
theorem approxParabolaIntegral_strictMono :
    (∀ x : ℝ, approxParabolaIntegral x = x / (1 - 67/100 + Real.sqrt (Real.sqrt ((67/100) ^ 4 + x ^ 2 / 4)))) ∧
    StrictMono (fun x : ℝ => approxParabolaIntegral x) := by
  refine ⟨fun x => approxParabolaIntegral_real x, ?_⟩
  intro x y hxy
  simp only [approxParabolaIntegral_real]
  exact intR_strictMono hxy

/-- the two end values `a0`, `a2` differ exactly when the control points are not collinear -/
theorem estimate_subdiv_nondegenerate_iff (q : QuadBez ℝ) (s : ℝ) :
    (q.estimate_subdiv s).a0 ≠ (q.estimate_subdiv s).a2 ↔
      (q.p1.x - q.p0.x) * (q.p2.y - q.p0.y) - (q.p1.y - q.p0.y) * (q.p2.x - q.p0.x) ≠ 0 :=
  estimate_subdiv_a0_ne_a2_iff q s

/-- for `a0 ≠ a2` (either order!) the parameter map is strictly increasing, with value 0 at 0 and 1 at 1 -/
theorem determine_subdiv_t_strictMono (q : QuadBez ℝ) (s : ℝ)
    (h : (q.estimate_subdiv s).a0 ≠ (q.estimate_subdiv s).a2) :
    StrictMono (fun x : ℝ => q.determine_subdiv_t (q.estimate_subdiv s) x) ∧
    q.determine_subdiv_t (q.estimate_subdiv s) 0 = 0 ∧ q.determine_subdiv_t (q.estimate_subdiv s) 1 = 1 :=
  ⟨fun _ _ hxy => determine_subdiv_t_lt q _ (estimate_subdiv_wf q s) h hxy,
   (determine_subdiv_t_zero_one q s).1, (determine_subdiv_t_zero_one q s).2 (invInt_ne_of_ne _ _ h)⟩

/-- without any hypothesis the parameter map never goes backwards (it is constantly 0 when `a0 = a2`) -/
theorem determine_subdiv_t_monotone (q : QuadBez ℝ) (s : ℝ) :
    Monotone (fun x : ℝ => q.determine_subdiv_t (q.estimate_subdiv s) x) :=
  fun _ _ hxy => determine_subdiv_t_le q _ (estimate_subdiv_wf q s) hxy

/-- … and maps [0,1] into [0,1] -/
theorem determine_subdiv_t_mapsTo (q : QuadBez ℝ) (s : ℝ) (x : ℝ) (h0 : 0 ≤ x) (h1 : x ≤ 1) :
    0 ≤ q.determine_subdiv_t (q.estimate_subdiv s) x ∧ q.determine_subdiv_t (q.estimate_subdiv s) x ≤ 1 := by
  by_cases hne : (q.estimate_subdiv s).a0 = (q.estimate_subdiv s).a2
  · rw [determine_subdiv_t_degenerate_zero q s (by rw [hne]) x]
    exact ⟨le_rfl, zero_le_one⟩
  · obtain ⟨-, e0, e1⟩ := determine_subdiv_t_strictMono q s hne
    have m := determine_subdiv_t_monotone q s
    exact ⟨e0 ▸ m h0, e1 ▸ m h1⟩

/-- the vertices of a quadratic with non-collinear control points advance strictly: the parameters
    `t i = determine_subdiv_t params (i/n)` satisfy `t 0 = 0`, `t n = 1`, `t i < t j` for `i < j ≤ n`; in particular the
    interior ones (`0 < i < n`) lie strictly between 0 and 1 -/
theorem quad_vertices_monotone (q : QuadBez ℝ) (s : ℝ)
    (h : (q.p1.x - q.p0.x) * (q.p2.y - q.p0.y) - (q.p1.y - q.p0.y) * (q.p2.x - q.p0.x) ≠ 0) :
    flattenQuadT q s 0 = 0 ∧ flattenQuadT q s (flattenQuadN q s) = 1 ∧
    (∀ i j, i < j → j ≤ flattenQuadN q s → flattenQuadT q s i < flattenQuadT q s j) ∧
    (∀ i, 0 < i → i < flattenQuadN q s → 0 < flattenQuadT q s i ∧ flattenQuadT q s i < 1) := by
  have hne := (estimate_subdiv_nondegenerate_iff q s).mpr h
  obtain ⟨hm, e0, e1⟩ := determine_subdiv_t_strictMono q s hne
  have hn := flattenQuadN_pos q s
  have hnpos : (0 : ℝ) < (flattenQuadN q s : ℝ) := by exact_mod_cast hn
  have t0 : flattenQuadT q s 0 = 0 := by rw [flattenQuadT_lawful]; simpa using e0
  have tn : flattenQuadT q s (flattenQuadN q s) = 1 := by
    rw [flattenQuadT_lawful, div_self hnpos.ne']; exact e1
  have tlt : ∀ i j, i < j → flattenQuadT q s i < flattenQuadT q s j := by
    intro i j hij
    rw [flattenQuadT_lawful, flattenQuadT_lawful]
    apply hm
    apply div_lt_div_of_pos_right _ hnpos
    exact_mod_cast hij
  refine ⟨t0, tn, fun i j hij _ => tlt i j hij, fun i hi hin => ?_⟩
  exact ⟨t0 ▸ tlt 0 i hi, tn ▸ tlt i _ hin⟩

/-- for every quadratic (also degenerate ones) the vertices never go backwards and the parameters stay in [0,1] -/
theorem quad_vertices_monotone_weak (q : QuadBez ℝ) (s : ℝ) :
    (∀ i j, i ≤ j → flattenQuadT q s i ≤ flattenQuadT q s j) ∧
    (∀ i, i ≤ flattenQuadN q s → 0 ≤ flattenQuadT q s i ∧ flattenQuadT q s i ≤ 1) := by
  have hn := flattenQuadN_pos q s
  have hnpos : (0 : ℝ) < (flattenQuadN q s : ℝ) := by exact_mod_cast hn
  constructor
  · intro i j hij
    rw [flattenQuadT_lawful, flattenQuadT_lawful]
    apply determine_subdiv_t_monotone q s
    apply div_le_div_of_nonneg_right _ hnpos.le
    exact_mod_cast hij
  · intro i hi
    rw [flattenQuadT_lawful]
    apply determine_subdiv_t_mapsTo
    · positivity
    · rw [div_le_one hnpos]; exact_mod_cast hi

/-- the vertices of a cubic's run (`sqrt_tol ≥ 0`): one group per quadratic of `to_quads(tolerance·0.1)`, in their order;
    inside a group the vertices are `q.eval t` with strictly increasing `t ∈ [0,1)`; then the stored end point.
    The run has exactly `n` lines (1 if `Σ val = 0`) -/
theorem cubic_vertices_monotone (c : CubicBez ℝ) (tol s : ℝ) (hs : 0 ≤ s) :
    ∃ groups : List (List (PathEl ℝ)),
      flattenCubic c tol s = groups.flatten ++ [PathEl.LineTo c.p3] ∧
      List.Forall₂ (fun (tq : ℝ × ℝ × QuadBez ℝ) g =>
        ∃ ts : List ℝ, g = ts.map (fun t => PathEl.LineTo (tq.2.2.eval t)) ∧ ts.Pairwise (· < ·) ∧
          ∀ t ∈ ts, 0 ≤ t ∧ t < 1)
        (c.to_quads (Scalar.mul tol (Scalar.ofRat toQuadTol))) groups ∧
      (flattenCubic c tol s).length = if 0 < flattenCubicSum c tol s then flattenCubicN c tol s else 1 :=
  flattenCubic_mono c tol s hs

/-- inside `flatten` the hypothesis `sqrt_tol ≥ 0` of `cubic_vertices_monotone` always holds -/
theorem flatten_sqrt_tol_nonneg (tol : ℝ) : 0 ≤ (Scalar.sqrt tol : ℝ) := by
  rw [LawfulSqrt.sqrt_eq]; exact Real.sqrt_nonneg tol

end real

/-! ## over ℝ: scaling -/
section scale
variable [Scalar ℝ] [LawfulScalar ℝ] [LawfulSqrt] [LawfulHypotR]

/-- scaling a quadratic by `k > 0` and the tolerance by `k` (so `sqrt_tol` by `√k`) scales its run: same number of
    lines, same curve parameters -/
theorem flattenQuad_scale (k : ℝ) (hk : 0 < k) (q : QuadBez ℝ) (s : ℝ) :
    flattenQuad (q.scaleBy k) (Real.sqrt k * s) = (flattenQuad q s).map (PathEl.scaleBy k) ∧
    flattenQuadN (q.scaleBy k) (Real.sqrt k * s) = flattenQuadN q s ∧
    ∀ i, flattenQuadT (q.scaleBy k) (Real.sqrt k * s) i = flattenQuadT q s i :=
  ⟨flattenQuad_scale' k hk q s, flattenQuadN_scale k hk q s, flattenQuadT_scale k hk q s⟩

/-- the same for a cubic (`to_quads` chooses the same number of pieces, the pieces are the scaled pieces) -/
theorem flattenCubic_scale (k : ℝ) (hk : 0 < k) (c : CubicBez ℝ) (tol s : ℝ) :
    flattenCubic (c.scaleBy k) (k * tol) (Real.sqrt k * s) = (flattenCubic c tol s).map (PathEl.scaleBy k) :=
  flattenCubic_scale' k hk c tol s

/-- scaling path and tolerance together scales the output -/
theorem flatten_scale (k : ℝ) (hk : 0 < k) (els : List (PathEl ℝ)) (tol : ℝ) :
    flatten (els.map (PathEl.scaleBy k)) (k * tol) = (flatten els tol).map (PathEl.scaleBy k) :=
  flatten_scale' k hk els tol

end scale

/-! non-vacuity of the ℝ section: the instance, and a quadratic with non-collinear control points -/
example : @LawfulScalar ℝ _ _ _ _ realScalarC05 ∧ @LawfulSqrt realScalarC05 ∧ @LawfulHypotR realScalarC05 :=
  ⟨realScalarC05_lawful, realScalarC05_lawfulSqrt, realScalarC05_lawfulHypot⟩
/-- the hypothesis of `flattenCubic_length_lawful` holds for every cubic over ℝ when `sqrt_tol ≥ 0` -/
example (c : CubicBez ℝ) (tol : ℝ) : letI := realScalarC05
    ∀ qp ∈ flattenCubicBuf c tol (1/10), 0 ≤ qp.2.val := by
  let _ := realScalarC05
  have _ := realScalarC05_lawful
  have _ := realScalarC05_lawfulSqrt
  exact flattenCubicBuf_val_nonneg c tol (1/10) (by norm_num)
example : let q : QuadBez ℝ := ⟨⟨-1, 1⟩, ⟨0, -1⟩, ⟨1, 1⟩⟩
    (q.p1.x - q.p0.x) * (q.p2.y - q.p0.y) - (q.p1.y - q.p0.y) * (q.p2.x - q.p0.x) ≠ 0 := by
  norm_num
/-- the hypothesis of `determine_subdiv_t_zero_one`/`flattenQuad_eq_map_eval` holds for that quadratic -/
example : letI := realScalarC05
    let q : QuadBez ℝ := ⟨⟨-1, 1⟩, ⟨0, -1⟩, ⟨1, 1⟩⟩
    approxParabolaInvIntegral (q.estimate_subdiv (1/10)).a0 ≠ approxParabolaInvIntegral (q.estimate_subdiv (1/10)).a2 := by
  let _ := realScalarC05
  have _ := realScalarC05_lawful
  have _ := realScalarC05_lawfulSqrt
  intro q
  apply invInt_ne_of_ne
  rw [estimate_subdiv_nondegenerate_iff]
  norm_num [q]

end Kurbo
