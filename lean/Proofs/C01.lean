import Proofs.KDefs
import Proofs.Lemmas.C01
import Proofs.Lemmas.C01Real
import Proofs.Lemmas.C01Curve
/-! C01 – winding number and containment.

    "For every closed Bezier path and every point that does not lie on the path, the reported winding number equals
    the topological winding number of the path about that point (sign as for signed area), and `contains` is true
    exactly when it is non-zero.  This holds equally for points that share a coordinate with a vertex, a segment end
    point or a curve extremum.  Reversing the path negates the number, … and splitting segments leaves it unchanged."

    The theorems are about the model functions `PathSeg.winding_inner`, `windingAtNearerEnd`, `PathSeg.winding`,
    `pathWinding`, `pathContains` (`Kurbo/Curve.lean`) and `segs` (`Kurbo/Path.lean`) exactly as they are.

    What is proved:
    1. (any lawful scalar) `windingInner_line_eq_kc`: the line branch of `winding_inner`, the two x-extent early outs
       included, is the signed half-open crossing indicator `kc (start − p) (end − p)` of the leftward ray
       (`kc`/`kcr` in `Proofs/Lemmas/C01.lean`: `−1` iff `a.y ≤ 0 < b.y ∧ a×b ≤ 0`, `+1` iff `b.y ≤ 0 < a.y ∧ a×b ≥ 0`),
       for EVERY segment and point (also points on the segment).  `winding_line`: `winding = winding_inner` on lines.
    2. (any lawful scalar) `pathWinding_polyline_eq_crossings`: on element lists without `QuadTo`/`CurveTo`
       `pathWinding` is the sum of the crossing indicators over `segs` (and panics exactly when `segs` does).
       `pathWinding_append`: additivity over sub-paths.
    3. (ℝ) `closedPolyline_winding_eq_angleSum`: for every list of closed polyline sub-paths (`ClosedPath`: each
       sub-path `MoveTo p, LineTo…, ClosePath`, or `MoveTo p, LineTo…` returning to `p`; any number of sub-paths,
       self-intersections, repeated vertices and zero-length edges allowed) and every `p` that lies on no edge
       (`OffPath`: no segment's own `eval` takes the value `p` on `[0,1]`), the iterator does not panic and
       `pathWinding els p = (1/2π)·Σ_edges arg((b − p)/(a − p))`, the angle-sum (topological) winding number.
       Rows through vertices are INCLUDED: there is no genericity hypothesis.  `polygon_winding_eq_angleSum` is the
       special case of one polygon `M v0 L v1 … L vn Z`, with the edge list written out.
    4. (any lawful scalar) reversal: `kc_antisymm` (swapping the end points of an edge negates the indicator, for every
       point, also on the edge), `winding_reverse_chain` (chain level), `winding_reverse_polyline` (element level:
       `reverseSubpaths` of one closed polyline sub-path does not panic and negates `pathWinding`, for EVERY point).
       Splitting: `winding_insert_vertex` (for `m = a + t(b − a)`, `t ∈ [0,1]`, the indicators of `a m` and `m b` add up
       to that of `a b`, for EVERY point), `winding_split_line` (the same for the model's `Line.subsegment`).
    5. (any `Scalar`, also `Float`) `pathContains_iff`, `winding_line`, `windingAtNearerEnd_cases`,
       `pathWinding_eq_segSum`, `winding_eq_sum_pieces` (on a curved segment `winding` is the sum of `winding_inner`
       over the sub-segments between consecutive extrema).
    6. (any lawful scalar) curved pieces, ONE monotone piece at a time: `windingInner_offRow` (outside the half-open
       row of its end points every kind of segment contributes 0), `windingInner_quad_monotone`,
       `windingInner_cubic_monotone`: if `y(t)` is injective on `[0,1]` (e.g. strictly monotone), `tS ∈ [0,1]` is the
       parameter with `y(tS) = p.y`, and the solver returns exactly the roots of the polynomial `y(t) − p.y` it is
       handed (hypothesis `hsolve`, taken as a HYPOTHESIS here; it has literally the shape of the conclusions of
       `solveQuadratic_spec`/`solveQuadratic_spec_real` and `solveCubic_mem_iff`/`solveCubic_of_c3_zero` of C15, whose
       non-degeneracy side condition is `quad_row_poly_nonzero`), then the branch –
       x-extent early outs and `firstInUnit` search included – returns `rowSign · [x(tS) ≤ p.x]`, i.e. it counts the
       crossing of the leftward ray with the half-open rule.  (ℝ) `windingInner_quad_monotone_real`: under strict
       monotonicity and `p.y` in the half-open row, such a `tS` exists (intermediate value theorem) and is unique.

    What is NOT proved:
    * Curved paths as a whole.  (6) characterises `winding_inner` on a single y-injective piece, under the solver
      specification as a hypothesis.  NOT proved: that the pieces produced by `extrema_ranges`/`subsegment` in
      `PathSeg.winding` are y-monotone and share end points exactly (so that the half-open rows tile); that the
      crossing sum of a closed CURVED path equals its topological winding number (needs a homotopy to an inscribed
      polygon); anything about the `windingAtNearerEnd` fallback beyond "returns `sign` or `0`" (under the hypotheses
      of (6) it is unreachable; it matters only when the solver misses a root, i.e. under rounding).
      Hence "equals the topological winding number" is established for closed POLYLINE paths only.
    * `hsolve` for `solveCubic` is only known where C15 proves the cubic solver specification; the non-vacuity
      examples below discharge `hsolve` over `Rat` for a quadratic and for a degree-raised quadratic (cubic with
      vanishing leading coefficient), where the model's `Rat` square root is exact.
    * The element-level reversal theorem is for ONE closed sub-path; for several sub-paths only the chain-level
      statement plus additivity (`pathWinding_append`) is available.
    * The affine law `w(A·P, A·p) = sgn(det A)·w(P, p)` is not proved.
    * Everything in 1–4 and 6 is about exact (lawful) scalars; nothing is claimed about `Float` rounding (miscounts
      on rows through end points/extrema of curved pieces are a known finding of the design round).
    Helper lemmas: `Proofs/Lemmas/C01Arg.lean` (pure Mathlib: `phi`, `kcross`, `edge_angle`),
    `Proofs/Lemmas/C01.lean`, `Proofs/Lemmas/C01Real.lean`, `Proofs/Lemmas/C01Curve.lean`. -/
set_option linter.unusedSectionVars false

/-! ## 5. structural facts (any `Scalar`, also `Float`) -/
namespace Kurbo
section anyScalar
variable {K : Type} [Scalar K]

theorem pathContains_iff (els : List (PathEl K)) (p : Point K) :
    pathContains els p = (pathWinding els p).map (· != 0) := rfl

/-- `winding` of a line is `winding_inner` (no splitting at extrema) -/
theorem winding_line (l : Line K) (p : Point K) :
    PathSeg.winding (.Line l) p = PathSeg.winding_inner (.Line l) p := rfl

/-- the fallback returns `sign` or `0`, decided by the x-coordinate of the end point nearer in `y` -/
theorem windingAtNearerEnd_cases (start «end» p : Point K) (sign : Int) :
    windingAtNearerEnd start «end» p sign = sign ∨ windingAtNearerEnd start «end» p sign = 0 := by
  unfold windingAtNearerEnd
  dsimp only
  split_ifs <;> first | exact Or.inl rfl | exact Or.inr rfl

/-- `pathWinding` folds `+` from `0`: it is the sum of the segment windings, and `none` exactly when `segs` is -/
theorem pathWinding_eq_segSum (els : List (PathEl K)) (p : Point K) :
    pathWinding els p = (segs els).map fun ss => (ss.map fun s => s.winding p).sum :=
  pathWinding_eq_sum els p

/-- on a curved segment `winding` is the sum of `winding_inner` over the sub-segments between consecutive extrema -/
theorem winding_eq_sum_pieces (s : PathSeg K) (p : Point K) (h : ¬ IsLineSeg s) :
    s.winding p = (s.extrema_ranges.map fun r => (s.subsegment r).winding_inner p).sum := by
  cases s with
  | Line l => exact (h trivial).elim
  | Quad q => simp only [PathSeg.winding, foldl_add_int, zero_add]
  | Cubic c => simp only [PathSeg.winding, foldl_add_int, zero_add]

end anyScalar
end Kurbo

/-! ## 1, 2, 4. crossings (any lawful scalar) -/
namespace Kurbo
section lawful
variable {K : Type} [Field K] [LinearOrder K] [IsStrictOrderedRing K] [FloorRing K] [Scalar K] [LawfulScalar K]

/-- **line branch = crossing indicator**, early outs included, for every segment and every point -/
theorem windingInner_line_eq_kc (l : Line K) (p : Point K) :
    PathSeg.winding_inner (.Line l) p = kc (l.p0 - p) (l.p1 - p) :=
  windingInner_line_eq_kc' l p

/-- the indicator written out: `−1` for an upward edge whose half-open row `[a.y, b.y)` contains the point and which
    passes on or left of it, `+1` for a downward one, `0` otherwise -/
theorem kc_def (a b : Vec2 K) :
    kc a b =
      if a.y < b.y then (if a.y ≤ 0 ∧ 0 < b.y ∧ a.x * b.y - a.y * b.x ≤ 0 then -1 else 0)
      else if b.y < a.y then (if b.y ≤ 0 ∧ 0 < a.y ∧ 0 ≤ a.x * b.y - a.y * b.x then 1 else 0)
      else 0 := rfl

/-- **polylines**: `pathWinding` is the crossing sum over the segments -/
theorem pathWinding_polyline_eq_crossings (els : List (PathEl K)) (h : AllLines els) (p : Point K) :
    pathWinding els p = (segs els).map fun ss => (ss.map fun s => kc (s.start - p) (s.end - p)).sum := by
  rw [pathWinding_eq_sum, segs_eq_segsFrom]
  cases hss : segsFrom none els with
  | none => rfl
  | some ss =>
    simp only [Option.map_some, Option.some.injEq]
    exact windingSum_eq_crossSum ss (segsFrom_allLines els none ss h hss) p

/-- additivity over sub-paths (any kinds of segments): if the second part starts a new sub-path (its segments do
    not depend on the iterator state, e.g. it starts with `MoveTo`) the winding numbers add -/
theorem pathWinding_append {els₁ els₂ : List (PathEl K)} (hi : ∀ st, segsFrom st els₂ = segsFrom none els₂)
    (p : Point K) {w₁ w₂ : Int} (h1 : pathWinding els₁ p = some w₁) (h2 : pathWinding els₂ p = some w₂) :
    pathWinding (els₁ ++ els₂) p = some (w₁ + w₂) := by
  rw [pathWinding_eq_sum, segs_eq_segsFrom] at h1 h2 ⊢
  rw [segsFrom_append_bind hi]
  cases e1 : segsFrom none els₁ with
  | none => rw [e1] at h1; cases h1
  | some s1 =>
    cases e2 : segsFrom none els₂ with
    | none => rw [e2] at h2; cases h2
    | some s2 =>
      rw [e1] at h1; rw [e2] at h2
      simp only [Option.map_some, Option.some.injEq, Option.bind_some] at h1 h2 ⊢
      rw [List.map_append, List.sum_append, h1, h2]

/-! ### reversal -/

/-- swapping the end points of an edge negates its contribution – for every point, also one on the edge -/
theorem kc_antisymm (a b : Vec2 K) : kc b a = - kc a b := kc_swap a b

/-- chain level: reversing the order of the edges and each edge negates the crossing sum -/
theorem winding_reverse_chain (ss : List (PathSeg K)) (p : Point K) :
    ((ss.reverse.map PathSeg.reverse).map fun s => kc (s.start - p) (s.end - p)).sum
      = - (ss.map fun s => kc (s.start - p) (s.end - p)).sum :=
  crossSum_reverse ss p

/-- element level: `reverse_subpaths` of one closed polyline sub-path `MoveTo p0, LineTo …, ClosePath` does not panic
    and negates the winding number about EVERY point -/
theorem winding_reverse_polyline (p0 : Point K) (body : List (PathEl K)) (hb : IsBody body) (hl : AllLines body)
    (q : Point K) :
    ∃ (r : List (PathEl K)) (w : Int), reverseSubpaths (.MoveTo p0 :: body ++ [PathEl.ClosePath]) = some r ∧
      pathWinding (.MoveTo p0 :: body ++ [PathEl.ClosePath]) q = some w ∧ pathWinding r q = some (-w) := by
  have hall : AllLines (.MoveTo p0 :: body ++ [PathEl.ClosePath]) := by
    rw [List.cons_append, allLines_cons, allLines_append]
    refine ⟨trivial, hl, ?_⟩
    intro e he; simp only [List.mem_cons, List.not_mem_nil, or_false] at he; subst he; trivial
  have hss := segsFrom_closed_subpath none p0 body hb
  have hlines := segsFrom_allLines _ none _ hall hss
  refine ⟨_, _, reverseSubpaths_closed_subpath p0 body hb, pathWinding_eq_crossSum hall hss q, ?_⟩
  rw [pathWinding_eq_sum, segs_eq_segsFrom, segsFrom_reverse_closed none p0 body hb, Option.map_some]
  have hlines' : ∀ s ∈ (bodySegs p0 body).reverse.map PathSeg.reverse ++ closeSegs p0 (bodyEnd p0 body),
      IsLineSeg s := by
    intro s hs
    rcases List.mem_append.mp hs with hs | hs
    · rw [List.mem_map] at hs
      obtain ⟨s0, h0, rfl⟩ := hs
      exact reverse_isLine (hlines s0 (List.mem_append_left _ (List.mem_reverse.mp h0)))
    · exact closeSegs_isLine _ _ s hs
  rw [windingSum_eq_crossSum _ hlines' q, closeSegs_swap, ← closeSegs_reverse (bodyEnd p0 body) p0,
    crossSum_append, crossSum_reverse, crossSum_reverse, closeSegs_reverse, crossSum_append]
  congr 1; ring

/-! ### splitting -/

/-- inserting a vertex `m = a + t·(b − a)`, `t ∈ [0,1]`, on an edge changes nothing – for EVERY query point -/
theorem winding_insert_vertex (a b m p : Point K) (t : K) (h0 : 0 ≤ t) (h1 : t ≤ 1)
    (hx : m.x = a.x + (b.x - a.x) * t) (hy : m.y = a.y + (b.y - a.y) * t) :
    kc (a - p) (m - p) + kc (m - p) (b - p) = kc (a - p) (b - p) := by
  unfold kc
  simp only [vsub_x, vsub_y]
  have h := kcr_split (a.x - p.x) (a.y - p.y) (b.x - p.x) (b.y - p.y) t h0 h1
  have ex : m.x - p.x = a.x - p.x + (b.x - p.x - (a.x - p.x)) * t := by rw [hx]; ring
  have ey : m.y - p.y = a.y - p.y + (b.y - p.y - (a.y - p.y)) * t := by rw [hy]; ring
  rw [ex, ey]; exact h

/-- the same for the model's own `Line.subsegment`: splitting a line at any `t ∈ [0,1]` keeps the winding number -/
theorem winding_split_line (l : Line K) (t : K) (h0 : 0 ≤ t) (h1 : t ≤ 1) (p : Point K) :
    PathSeg.winding (.Line (l.subsegment ⟨0, t⟩)) p + PathSeg.winding (.Line (l.subsegment ⟨t, 1⟩)) p
      = PathSeg.winding (.Line l) p := by
  rw [winding_line, winding_line, winding_line, windingInner_line_eq_kc, windingInner_line_eq_kc,
    windingInner_line_eq_kc]
  have e0 : (l.subsegment ⟨0, t⟩).p0 = l.p0 := by
    cases l; rename_i a b; cases a; cases b; kring
  have e1 : (l.subsegment ⟨t, 1⟩).p1 = l.p1 := by
    cases l; rename_i a b; cases a; cases b; kring
  have em : (l.subsegment ⟨0, t⟩).p1 = (l.subsegment ⟨t, 1⟩).p0 := rfl
  rw [e0, e1, em]
  refine winding_insert_vertex l.p0 l.p1 _ p t h0 h1 ?_ ?_
  · kring
  · kring

end lawful
end Kurbo

/-! ## 3. closed polylines: ray casting = angle sum (ℝ) -/
namespace Kurbo
section real
open Complex Real
variable [Scalar ℝ] [LawfulScalar ℝ]

/-- **C01 for closed polyline paths.**  Any number of closed sub-paths made of lines; `p` on no edge; rows through
    vertices included.  `toC v = v.x + v.y·i`. -/
theorem closedPolyline_winding_eq_angleSum {els : List (PathEl ℝ)} (hc : ClosedPath els) (hl : AllLines els)
    (p : Point ℝ) (hoff : OffPath els p) :
    ∃ (ss : List (PathSeg ℝ)) (w : Int), segs els = some ss ∧ pathWinding els p = some w ∧
      (w : ℝ) = (1 / (2 * π)) * (ss.map fun s => arg (toC (s.end - p) / toC (s.start - p))).sum := by
  obtain ⟨ss, hss, hcc⟩ := segsFrom_closedPath hc
  have hsegs : segs els = some ss := by rw [segs_eq_segsFrom]; exact hss
  have hlines := segsFrom_allLines els none ss hl hss
  have hoff' : ∀ s ∈ ss, OffEdge s p := by
    intro s hs
    have h1 := hlines s hs
    have h2 := hoff ss hsegs s hs
    cases s with
    | Line l => cases l; exact offEdge_of_not_onSeg _ _ p h2
    | Quad q => exact h1.elim
    | Cubic c => exact h1.elim
  exact ⟨ss, crossSum ss p, hsegs, pathWinding_eq_crossSum hl hss p,
    closedChains_crossSum_eq_angleSum hcc p hoff'⟩

/-- one closed polygon `M v0 L v1 … L vn Z`, the edge list written out (`lineChain v0 [v1,…,vn]` is
    `v0v1, v1v2, …`; the closing edge `vn v0` is present unless `vn = v0`) -/
theorem polygon_winding_eq_angleSum (v0 : Point ℝ) (vs : List (Point ℝ)) (p : Point ℝ)
    (hoff : OffPath (polygon v0 vs) p) :
    ∃ w : Int, pathWinding (polygon v0 vs) p = some w ∧
      (w : ℝ) = (1 / (2 * π)) *
        ((lineChain v0 vs ++
            (if (v0 :: vs).getLast (List.cons_ne_nil _ _) = v0 then []
             else [PathSeg.Line ⟨(v0 :: vs).getLast (List.cons_ne_nil _ _), v0⟩])).map
          fun s => arg (toC (s.end - p) / toC (s.start - p))).sum := by
  obtain ⟨ss, w, hss, hw, h⟩ :=
    closedPolyline_winding_eq_angleSum (closedPath_polygon v0 vs) (allLines_polygon v0 vs) p hoff
  rw [segs_polygon, Option.some.injEq] at hss
  subst hss
  exact ⟨w, hw, h⟩

/-- the geometric hypothesis implies the side conditions under which `arg((b−p)/(a−p))` is the signed angle
    subtended by the edge (`≠ π`: the point is not between the end points) -/
theorem offPath_sideConditions (a b p : Point ℝ) (h : ¬ OnSeg (.Line ⟨a, b⟩) p) :
    toC (a - p) ≠ 0 ∧ toC (b - p) ≠ 0 ∧ arg (toC (b - p) / toC (a - p)) ≠ π :=
  offEdge_of_not_onSeg a b p h

end real
end Kurbo

/-! ## 6. curved pieces: the crossing rule on a piece that is injective in `y` -/
namespace Kurbo
section curves
variable {K : Type} [Field K] [LinearOrder K] [IsStrictOrderedRing K] [FloorRing K] [Scalar K] [LawfulScalar K]

/-- outside the half-open row `[min y, max y)` of its end points every kind of segment contributes `0` -/
theorem windingInner_offRow (s : PathSeg K) (p : Point K)
    (hup : ¬ (s.start.y ≤ p.y ∧ p.y < s.end.y)) (hdown : ¬ (s.end.y ≤ p.y ∧ p.y < s.start.y)) :
    s.winding_inner p = 0 := by
  unfold PathSeg.winding_inner
  simp only [scalar_norm, decide_eq_true_eq, Bool.or_eq_true]
  by_cases a1 : s.start.y < s.end.y
  · have a2 : p.y < s.start.y ∨ s.end.y ≤ p.y := by
      by_contra hh; push Not at hh; exact hup ⟨hh.1, hh.2⟩
    simp only [a1, a2, if_true]
  · by_cases a1' : s.end.y < s.start.y
    · have a2 : p.y < s.end.y ∨ s.start.y ≤ p.y := by
        by_contra hh; push Not at hh; exact hdown ⟨hh.1, hh.2⟩
      simp only [a1, a1', a2, if_true, if_false]
    · simp only [a1, a1', if_false]

/-- **quadratic piece**: if the y-coordinate is injective on `[0,1]` (e.g. strictly monotone: the piece lies between
    two extrema), `tS ∈ [0,1]` is the parameter with `y(tS) = p.y`, and `solveQuadratic` returns exactly the roots
    of the polynomial `y(t) − p.y` it is handed (its specification – C15), then the branch returns the row sign
    times the indicator "the curve point on the row is left of or at `p`".  `rowSign y0 y1 y` is `−1` for
    `y0 ≤ y < y1`, `+1` for `y1 ≤ y < y0`, else `0`.  The x-extent early outs and the `firstInUnit` search are
    covered; the `windingAtNearerEnd` fallback is not reached under these hypotheses. -/
theorem windingInner_quad_monotone (q : QuadBez K) (p : Point K) (tS : K)
    (hsolve : ∀ x : K, x ∈ solveQuadratic (q.p0.y - p.y) (2 * (q.p1.y - q.p0.y)) (q.p2.y - 2 * q.p1.y + q.p0.y) ↔
        (q.p0.y - p.y) + (2 * (q.p1.y - q.p0.y)) * x + (q.p2.y - 2 * q.p1.y + q.p0.y) * x ^ 2 = 0)
    (hinj : Set.InjOn (fun t => (q.eval t).y) (Set.Icc 0 1))
    (h0 : 0 ≤ tS) (h1 : tS ≤ 1) (hy : (q.eval tS).y = p.y) :
    PathSeg.winding_inner (.Quad q) p = rowSign q.p0.y q.p2.y p.y * (if (q.eval tS).x ≤ p.x then 1 else 0) :=
  windingInner_quad_eq q p tS hsolve hinj h0 h1 hy

/-- **cubic piece**, same statement with `solveCubic` -/
theorem windingInner_cubic_monotone (c : CubicBez K) (p : Point K) (tS : K)
    (hsolve : ∀ x : K, x ∈ solveCubic (c.p0.y - p.y) (3 * (c.p1.y - c.p0.y)) (3 * (c.p2.y - 2 * c.p1.y + c.p0.y))
          (c.p3.y - 3 * c.p2.y + 3 * c.p1.y - c.p0.y) ↔
        (c.p0.y - p.y) + (3 * (c.p1.y - c.p0.y)) * x + (3 * (c.p2.y - 2 * c.p1.y + c.p0.y)) * x ^ 2
          + (c.p3.y - 3 * c.p2.y + 3 * c.p1.y - c.p0.y) * x ^ 3 = 0)
    (hinj : Set.InjOn (fun t => (c.eval t).y) (Set.Icc 0 1))
    (h0 : 0 ≤ tS) (h1 : tS ≤ 1) (hy : (c.eval tS).y = p.y) :
    PathSeg.winding_inner (.Cubic c) p = rowSign c.p0.y c.p3.y p.y * (if (c.eval tS).x ≤ p.x then 1 else 0) :=
  windingInner_cubic_eq c p tS hsolve hinj h0 h1 hy

/-- when `p.y` is in the half-open row the polynomial handed to `solveQuadratic` is not identically zero – the
    side condition under which C15 (`solveQuadratic_spec`, `solveQuadratic_spec_real`) proves `hsolve` -/
theorem quad_row_poly_nonzero (q : QuadBez K) (p : Point K)
    (hrow : q.p0.y ≤ p.y ∧ p.y < q.p2.y ∨ q.p2.y ≤ p.y ∧ p.y < q.p0.y) :
    ¬ (q.p0.y - p.y = 0 ∧ 2 * (q.p1.y - q.p0.y) = 0 ∧ q.p2.y - 2 * q.p1.y + q.p0.y = 0) := by
  rintro ⟨h0, h1, h2⟩
  rcases hrow with h | h <;> linarith [h.1, h.2]

end curves

section curvesReal
open Set
variable [Scalar ℝ] [LawfulScalar ℝ]

/-- (ℝ) on a strictly y-monotone quadratic piece whose half-open row contains `p.y` the root `tS` exists
    (intermediate value theorem) and is unique, and the branch counts the crossing at `tS` -/
theorem windingInner_quad_monotone_real (q : QuadBez ℝ) (p : Point ℝ)
    (hsolve : ∀ x : ℝ, x ∈ solveQuadratic (q.p0.y - p.y) (2 * (q.p1.y - q.p0.y)) (q.p2.y - 2 * q.p1.y + q.p0.y) ↔
        (q.p0.y - p.y) + (2 * (q.p1.y - q.p0.y)) * x + (q.p2.y - 2 * q.p1.y + q.p0.y) * x ^ 2 = 0)
    (hmono : StrictMonoOn (fun t => (q.eval t).y) (Icc 0 1) ∨ StrictAntiOn (fun t => (q.eval t).y) (Icc 0 1))
    (hrow : q.p0.y ≤ p.y ∧ p.y < q.p2.y ∨ q.p2.y ≤ p.y ∧ p.y < q.p0.y) :
    ∃ tS : ℝ, 0 ≤ tS ∧ tS ≤ 1 ∧ (q.eval tS).y = p.y ∧ (∀ t, 0 ≤ t → t ≤ 1 → (q.eval t).y = p.y → t = tS) ∧
      PathSeg.winding_inner (.Quad q) p
        = (if q.p0.y < q.p2.y then -1 else 1) * (if (q.eval tS).x ≤ p.x then 1 else 0) := by
  have hinj : InjOn (fun t => (q.eval t).y) (Icc 0 1) := by
    rcases hmono with h | h
    · exact h.injOn
    · exact h.injOn
  obtain ⟨tS, h0, h1, hy⟩ := quad_row_root_exists q p.y (by
    rcases hrow with h | h
    · exact Or.inl ⟨h.1, h.2.le⟩
    · exact Or.inr ⟨h.1, h.2.le⟩)
  refine ⟨tS, h0, h1, hy, ?_, ?_⟩
  · intro t ht0 ht1 hty
    exact hinj ⟨ht0, ht1⟩ ⟨h0, h1⟩ (by show (q.eval t).y = (q.eval tS).y; rw [hty, hy])
  · rw [windingInner_quad_monotone q p tS hsolve hinj h0 h1 hy]
    congr 1
    unfold rowSign
    rcases hrow with h | h
    · rw [if_pos h, if_pos (by linarith [h.1, h.2])]
    · rw [if_neg (by rintro ⟨c1, c2⟩; linarith [h.1, h.2]), if_pos h, if_neg (by linarith [h.1, h.2])]

end curvesReal
end Kurbo

/-! ## non-vacuity: concrete inputs meeting the hypotheses -/
namespace Kurbo
namespace C01Examples
open PathEl

/-- unit square, positive signed area -/
def sq : List (PathEl Rat) := [MoveTo ⟨0, 0⟩, LineTo ⟨1, 0⟩, LineTo ⟨1, 1⟩, LineTo ⟨0, 1⟩, ClosePath]
/-- a diamond whose vertices `(±1, 0)` lie on the row `y = 0` of the query point `(0, 0)` -/
def dia : List (PathEl Rat) := polygon ⟨1, 0⟩ [⟨0, 1⟩, ⟨-1, 0⟩, ⟨0, -1⟩]

-- 1: an edge crossing the row to the left of the point, one to the right, and a point ON an edge
example : PathSeg.winding_inner (.Line ⟨(⟨0, 1⟩ : Point Rat), ⟨0, 0⟩⟩) ⟨1/2, 1/2⟩ = 1 ∧
    kc ((⟨0, 1⟩ : Point Rat) - (⟨1/2, 1/2⟩ : Point Rat)) ((⟨0, 0⟩ : Point Rat) - (⟨1/2, 1/2⟩ : Point Rat)) = 1 ∧
    PathSeg.winding_inner (.Line ⟨(⟨1, 0⟩ : Point Rat), ⟨1, 1⟩⟩) ⟨1/2, 1/2⟩ = 0 ∧
    PathSeg.winding_inner (.Line ⟨(⟨0, 0⟩ : Point Rat), ⟨2, 2⟩⟩) ⟨1, 1⟩ = -1 := by decide +kernel
-- 2: hypotheses and values (sign as for the signed area: both positive)
example : AllLines sq ∧ AllLines dia := by decide
example : pathWinding sq ⟨1/2, 1/2⟩ = some 1 ∧ pathArea sq = some 1 ∧ pathContains sq ⟨1/2, 1/2⟩ = some true := by
  decide +kernel
example : pathWinding sq ⟨3/2, 1/2⟩ = some 0 ∧ pathContains sq ⟨3/2, 1/2⟩ = some false := by decide +kernel
-- rows through vertices: inside, and outside on either side
example : pathWinding dia ⟨0, 0⟩ = some 1 ∧ pathWinding dia ⟨2, 0⟩ = some 0 ∧ pathWinding dia ⟨-2, 0⟩ = some 0 := by
  decide +kernel
-- additivity (`pathWinding_append`): two sub-paths around the point
example : (∀ st, segsFrom st sq = segsFrom none sq) := fun st => segsFrom_moveTo_any st _ _
example : pathWinding (dia ++ sq) ⟨1/4, 1/4⟩ = some 2 := by decide +kernel
-- reversal (`winding_reverse_polyline`): hypotheses and value
example : IsBody [LineTo (⟨0, 1⟩ : Point Rat), LineTo ⟨-1, 0⟩, LineTo ⟨0, -1⟩] ∧
    AllLines [LineTo (⟨0, 1⟩ : Point Rat), LineTo ⟨-1, 0⟩, LineTo ⟨0, -1⟩] := by decide
example : (reverseSubpaths dia).bind (pathWinding · ⟨0, 0⟩) = some (-1) := by decide +kernel
-- splitting (`winding_insert_vertex`, `winding_split_line`): the vertex (1/3)(b − a) inserted on the row of the point
example : (0 : Rat) ≤ 1/3 ∧ (1/3 : Rat) ≤ 1 ∧ (1 : Rat) = 0 + (3 - 0) * (1/3) ∧ (0 : Rat) = -1 + (2 - (-1)) * (1/3) := by
  norm_num
example : let a : Point Rat := ⟨0, -1⟩; let m : Point Rat := ⟨1, 0⟩; let b : Point Rat := ⟨3, 2⟩; let p : Point Rat := ⟨2, 0⟩
    kc (a - p) (m - p) = 0 ∧ kc (m - p) (b - p) = -1 ∧ kc (a - p) (b - p) = -1 := by decide +kernel

-- 6: a quadratic piece with y(t) = t², x(t) = 2t(1−t), the row y = 1/4 (root t = 1/2, curve point x = 1/2), and the
-- same curve degree-raised to a cubic; all hypotheses of `windingInner_quad_monotone`/`_cubic_monotone` hold
def qd : QuadBez Rat := ⟨⟨0, 0⟩, ⟨1, 0⟩, ⟨0, 1⟩⟩
def cb : CubicBez Rat := ⟨⟨0, 0⟩, ⟨2/3, 0⟩, ⟨2/3, 1/3⟩, ⟨0, 1⟩⟩
example : PathSeg.winding_inner (.Quad qd) ⟨1, 1/4⟩ = -1 ∧ PathSeg.winding_inner (.Quad qd) ⟨1/4, 1/4⟩ = 0 ∧
    PathSeg.winding_inner (.Cubic cb) ⟨1, 1/4⟩ = -1 ∧ PathSeg.winding_inner (.Cubic cb) ⟨1/4, 1/4⟩ = 0 := by
  decide +kernel
example : (0 : Rat) ≤ 1/2 ∧ (1/2 : Rat) ≤ 1 ∧ (qd.eval (1/2)).y = 1/4 ∧ (qd.eval (1/2)).x = 1/2 ∧
    (cb.eval (1/2)).y = 1/4 ∧ (cb.eval (1/2)).x = 1/2 := by decide +kernel
example : ∀ x : Rat, x ∈ solveQuadratic (qd.p0.y - 1/4) (2 * (qd.p1.y - qd.p0.y)) (qd.p2.y - 2 * qd.p1.y + qd.p0.y) ↔
    (qd.p0.y - 1/4) + (2 * (qd.p1.y - qd.p0.y)) * x + (qd.p2.y - 2 * qd.p1.y + qd.p0.y) * x ^ 2 = 0 := by
  intro x
  have e : solveQuadratic (qd.p0.y - 1/4) (2 * (qd.p1.y - qd.p0.y)) (qd.p2.y - 2 * qd.p1.y + qd.p0.y)
      = [-1/2, 1/2] := by decide +kernel
  rw [e, c01_roots_quarter]
  simp only [qd]
  constructor <;> intro h <;> linarith
example : ∀ x : Rat, x ∈ solveCubic (cb.p0.y - 1/4) (3 * (cb.p1.y - cb.p0.y)) (3 * (cb.p2.y - 2 * cb.p1.y + cb.p0.y))
      (cb.p3.y - 3 * cb.p2.y + 3 * cb.p1.y - cb.p0.y) ↔
    (cb.p0.y - 1/4) + (3 * (cb.p1.y - cb.p0.y)) * x + (3 * (cb.p2.y - 2 * cb.p1.y + cb.p0.y)) * x ^ 2
      + (cb.p3.y - 3 * cb.p2.y + 3 * cb.p1.y - cb.p0.y) * x ^ 3 = 0 := by
  intro x
  have e : solveCubic (cb.p0.y - 1/4) (3 * (cb.p1.y - cb.p0.y)) (3 * (cb.p2.y - 2 * cb.p1.y + cb.p0.y))
      (cb.p3.y - 3 * cb.p2.y + 3 * cb.p1.y - cb.p0.y) = [-1/2, 1/2] := by decide +kernel
  rw [e, c01_roots_quarter]
  simp only [cb]
  constructor <;> intro h <;> linarith
example : Set.InjOn (fun t => (qd.eval t).y) (Set.Icc 0 1) := by
  intro s hs t ht h
  simp only [quad_eval_y_poly, qd] at h
  have h' : s ^ 2 = t ^ 2 := by linarith
  exact (pow_left_inj₀ hs.1 ht.1 (by norm_num)).mp h'
example : Set.InjOn (fun t => (cb.eval t).y) (Set.Icc 0 1) := by
  intro s hs t ht h
  simp only [cubic_eval_y_poly, cb] at h
  have h' : s ^ 2 = t ^ 2 := by linarith
  exact (pow_left_inj₀ hs.1 ht.1 (by norm_num)).mp h'
-- `quad_row_poly_nonzero`: the row y = 1/4 meets the piece
example : qd.p0.y ≤ (1/4 : Rat) ∧ (1/4 : Rat) < qd.p2.y := by decide +kernel
-- `windingInner_offRow`: the row y = 2 misses the piece
example : ¬ (((PathSeg.Quad qd).start.y ≤ (2 : Rat)) ∧ (2 : Rat) < (PathSeg.Quad qd).end.y) ∧
    ¬ (((PathSeg.Quad qd).end.y ≤ (2 : Rat)) ∧ (2 : Rat) < (PathSeg.Quad qd).start.y) := by decide +kernel

-- 3 (ℝ): the diamond and the origin meet the hypotheses of `polygon_winding_eq_angleSum`: the origin is on no edge
-- although its row passes through two vertices
section real
variable [Scalar ℝ] [LawfulScalar ℝ]

example : OffPath (polygon (⟨1, 0⟩ : Point ℝ) [⟨0, 1⟩, ⟨-1, 0⟩, ⟨0, -1⟩]) ⟨0, 0⟩ := by
  intro ss hss s hs
  rw [segs_polygon, Option.some.injEq] at hss
  subst hss
  simp only [lineChain, List.getLast_cons_cons, List.getLast_singleton, List.cons_append,
    List.nil_append, List.mem_cons] at hs
  have key : ∀ a b : Point ℝ, (∀ t : ℝ, 0 = a.x + (b.x - a.x) * t → 0 = a.y + (b.y - a.y) * t → False) →
      ¬ OnSeg (.Line ⟨a, b⟩) ⟨0, 0⟩ := by
    intro a b h
    rw [onSeg_line_iff]
    rintro ⟨t, _, _, hx, hy⟩
    exact h t hx hy
  rcases hs with rfl | rfl | rfl | hs
  · exact key _ _ (fun t hx hy => by simp only at hx hy; linarith)
  · exact key _ _ (fun t hx hy => by simp only at hx hy; linarith)
  · exact key _ _ (fun t hx hy => by simp only at hx hy; linarith)
  · have hs' := (List.mem_ite_nil_left.mp hs).2
    rw [List.mem_singleton] at hs'
    subst hs'
    exact key _ _ (fun t hx hy => by simp only at hx hy; linarith)

example : ClosedPath (polygon (⟨1, 0⟩ : Point ℝ) [⟨0, 1⟩, ⟨-1, 0⟩, ⟨0, -1⟩]) ∧
    AllLines (polygon (⟨1, 0⟩ : Point ℝ) [⟨0, 1⟩, ⟨-1, 0⟩, ⟨0, -1⟩]) :=
  ⟨closedPath_polygon _ _, allLines_polygon _ _⟩

-- `windingInner_quad_monotone_real`: strict monotonicity and the row hypothesis for y(t) = t², row y = 1/4
example : StrictMonoOn (fun t => ((⟨⟨0, 0⟩, ⟨1, 0⟩, ⟨0, 1⟩⟩ : QuadBez ℝ).eval t).y) (Set.Icc 0 1) := by
  intro s hs t ht hst
  simp only [quad_eval_y_poly]
  have h1 : 0 < t - s := sub_pos.mpr hst
  have h2 : 0 < t + s := by linarith [hs.1, ht.1]
  nlinarith [mul_pos h1 h2]
example : (⟨⟨0, 0⟩, ⟨1, 0⟩, ⟨0, 1⟩⟩ : QuadBez ℝ).p0.y ≤ (1/4 : ℝ) ∧
    (1/4 : ℝ) < (⟨⟨0, 0⟩, ⟨1, 0⟩, ⟨0, 1⟩⟩ : QuadBez ℝ).p2.y := by norm_num

end real
end C01Examples
end Kurbo
