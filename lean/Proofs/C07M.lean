import Proofs.Lemmas.C07M
/-! # C07M – the `BezPath` mutators as a state machine (builder histories)

Model: `Kurbo/PathMut.lean` – the state of a `BezPath` is its element list; `BezPath.{new, with_capacity, from_vec, push, pop,
truncate, extend, move_to, line_to, quad_to, curve_to, close_path, apply_affine}` transcribe bezpath.rs including the
`debug_assert!`s (outcome `MutRes.panic msg`; the crate is observed with debug assertions on); `mutStep` / `mutRun` run one step /
a history (`MutOp`), collecting the values returned by `pop`.  Tied to the crate by the op `path.mut` (stratum `mutators` of
`gen/c07.py`: implementation == model for `Float` and `Rat`, exactly, including WHICH assertion fires).  All theorems are structural:
arbitrary `[Scalar K]`, hence verbatim for `Float`.

## Proved
1. **Refinement** – `mutStep_refines`, `mutRun_refines`: a history that does not panic leaves the state equal to the obvious list
   function of the history (`mutSpec`: `push` = append one, `pop` = `dropLast`, `truncate n` = `take n`, `extend` = append,
   `new`/`with_capacity` = `[]`, `from_vec v` = `v`, the drawing methods = append that element, `apply_affine a` = `map (a * ·)`), and
   the values returned by its `pop`s are the last elements under that semantics (`popValues`).  `mutRun_append`: histories compose.
   `builder_history_irrelevant`: `segments` / `get_seg` / `elements` / `is_empty` after a history are those of the list
   `ops.foldl mutSpec s` (trivial once the state is the list; this is item 7 of `Proofs/C07.lean`, which the immutable model could
   not even state).
2. **Algebra of the mutators** – `pop_push` (`pop` after a successful `push` returns the element and restores the state),
   `truncate_len` (`truncate (len)` and any larger bound is the identity), `truncate_extend` (`extend` then `truncate` to the old length
   restores), `pop_eq_truncate` (`pop` = `truncate (len − 1)` + the last element), `extend_nil`, `pop_empty`.
3. **When do the assertions fire** – `push_panics_iff`, `from_vec_panics_iff`, `drawing_panics_iff`: exact conditions, with the
   message.  `mutStep_inv`: the invariant `PathInv` (empty, or first element `MoveTo`) is preserved by every non-panicking step
   except `extend` (`extend_breaks_inv`: `extend` has no assertion, so `new` + `extend [LineTo]` is a `BezPath` that violates the
   invariant – the next `push` of whatever element panics, `push_after_bad_extend`).
4. **No panic for builder use** – `growing_never_panics`: from a state that starts with a `MoveTo`, any history made of the drawing
   methods, `push`, `extend`, `apply_affine` never panics, never returns a value, and ends in `state ++ …` starting with `MoveTo`;
   `drawing_from_move_to_never_panics`: in particular `new` followed by `move_to p` and any drawing methods builds exactly the
   element list `MoveTo p :: appended elements` without panic.

## NOT proved
* Capacity (`with_capacity`, reallocation) is not modelled; `elements_mut`, `FromIterator`, `IntoIterator` are not part of `MutOp`
  (`FromIterator` = `from_vec ∘ collect`).
* After a panic the model has no state (the history ends); in the crate `push` has already appended the element when its assertion
  fires (observable only through `catch_unwind` on a `&mut BezPath`, which the harness does not do).
* Nothing here is about `Float` arithmetic: `apply_affine` is `map (Affine.mul_PathEl a)`, whatever `*` and `+` do.
-/
set_option linter.unusedSectionVars false
namespace Kurbo
variable {K : Type} [Scalar K]

/-! ## 1. Refinement -/

/-- one non-panicking step computes the list function `mutSpec`; only `pop` returns a value: the last element (or `None`) -/
theorem mutStep_refines {s s' : BezPath K} {op : MutOp K} {out : Option (Option (PathEl K))}
    (h : mutStep s op = .ok (s', out)) :
    s' = mutSpec s op ∧ out = (match op with | .pop => some s.getLast? | _ => none) :=
  mutStep_ok h

/-- **any history that does not panic leaves the state equal to the obvious list function of the history**, and its `pop`s
    return what the list semantics says -/
theorem mutRun_refines (ops : List (MutOp K)) {s s' : BezPath K} {outs : List (Option (PathEl K))}
    (h : mutRun s ops = .ok (s', outs)) : s' = ops.foldl mutSpec s ∧ outs = popValues s ops := by
  induction ops generalizing s s' outs with
  | nil => simp only [mutRun, MutRes.ok.injEq, Prod.mk.injEq] at h; exact ⟨h.1.symm, h.2.symm⟩
  | cons op ops ih =>
    cases hst : mutStep s op with
    | panic m => rw [mutRun_cons_panic ops hst] at h; cases h
    | ok r =>
      obtain ⟨p, out⟩ := r
      rw [mutRun_cons_ok ops hst] at h
      cases hr : mutRun p ops with
      | panic m => rw [hr] at h; cases h
      | ok r' =>
        obtain ⟨q, outs'⟩ := r'
        rw [hr] at h
        simp only [MutRes.ok.injEq, Prod.mk.injEq] at h
        obtain ⟨hp, hout⟩ := mutStep_ok hst
        obtain ⟨hq, houts⟩ := ih hr
        subst hp
        refine ⟨by rw [← h.1, hq]; rfl, ?_⟩
        rw [← h.2, houts, hout]
        cases op <;> rfl

/-- histories compose: running `ops₁ ++ ops₂` is running `ops₁`, then `ops₂` on the state reached -/
theorem mutRun_append (s : BezPath K) (ops₁ ops₂ : List (MutOp K)) :
    mutRun s (ops₁ ++ ops₂) = (match mutRun s ops₁ with
      | .panic m => .panic m
      | .ok (p, outs₁) => match mutRun p ops₂ with
        | .panic m => .panic m
        | .ok (q, outs₂) => .ok (q, outs₁ ++ outs₂)) := by
  induction ops₁ generalizing s with
  | nil =>
    simp only [List.nil_append, mutRun]
    cases mutRun s ops₂ with
    | panic m => rfl
    | ok r => obtain ⟨q, o⟩ := r; simp
  | cons op ops ih =>
    cases hst : mutStep s op with
    | panic m => rw [List.cons_append, mutRun_cons_panic _ hst, mutRun_cons_panic _ hst]
    | ok r =>
      obtain ⟨p, out⟩ := r
      rw [List.cons_append, mutRun_cons_ok _ hst, mutRun_cons_ok _ hst, ih p]
      cases mutRun p ops with
      | panic m => rfl
      | ok r1 =>
        obtain ⟨p1, o1⟩ := r1
        dsimp only
        cases mutRun p1 ops₂ with
        | panic m => rfl
        | ok r2 => obtain ⟨p2, o2⟩ := r2; simp

/-- the observations after a history depend on the final element list only, and that list is the fold of `mutSpec`:
    `segments`, `get_seg`, `elements`, `iter`, `is_empty` of the built path are those of `ops.foldl mutSpec s` -/
theorem builder_history_irrelevant (ops : List (MutOp K)) {s s' : BezPath K} {outs : List (Option (PathEl K))}
    (h : mutRun s ops = .ok (s', outs)) :
    BezPath.segments s' = segs (ops.foldl mutSpec s) ∧ (∀ ix, BezPath.get_seg s' ix = getSeg (ops.foldl mutSpec s) ix) ∧
    BezPath.elements s' = ops.foldl mutSpec s ∧ BezPath.iter s' = ops.foldl mutSpec s ∧
    BezPath.is_empty s' = BezPath.is_empty (ops.foldl mutSpec s) := by
  rw [(mutRun_refines ops h).1]
  exact ⟨rfl, fun _ => rfl, rfl, rfl, rfl⟩

/-- two histories with the same list semantics build paths with the same segments (when neither panics) -/
theorem same_list_same_segments (ops₁ ops₂ : List (MutOp K)) {s s₁ s₂ : BezPath K} {o₁ o₂ : List (Option (PathEl K))}
    (h₁ : mutRun s ops₁ = .ok (s₁, o₁)) (h₂ : mutRun s ops₂ = .ok (s₂, o₂)) (h : ops₁.foldl mutSpec s = ops₂.foldl mutSpec s) :
    s₁ = s₂ ∧ BezPath.segments s₁ = BezPath.segments s₂ := by
  have : s₁ = s₂ := by rw [(mutRun_refines ops₁ h₁).1, (mutRun_refines ops₂ h₂).1, h]
  exact ⟨this, by rw [this]⟩

/-- a history with every kind of step, run by the model: final state and popped values (no arithmetic: `decide`) -/
example :
    mutRun (K := Rat) BezPath.new
      [.move_to ⟨1, 2⟩, .line_to ⟨3, 4⟩, .push .ClosePath, .pop, .quad_to ⟨0, 0⟩ ⟨1, 1⟩, .extend [.LineTo ⟨5, 6⟩, .ClosePath],
       .truncate 3, .pop, .pop, .pop, .pop, .with_capacity 4, .from_vec [.MoveTo ⟨7, 8⟩], .curve_to ⟨1, 1⟩ ⟨2, 2⟩ ⟨3, 3⟩, .close_path] =
    .ok ([.MoveTo ⟨7, 8⟩, .CurveTo ⟨1, 1⟩ ⟨2, 2⟩ ⟨3, 3⟩, .ClosePath],
         [some .ClosePath, some (.QuadTo ⟨0, 0⟩ ⟨1, 1⟩), some (.LineTo ⟨3, 4⟩), some (.MoveTo ⟨1, 2⟩), none]) := by decide +kernel

/-! ## 2. Algebra of the mutators -/

/-- `pop` after a successful `push` returns the pushed element and restores the state -/
theorem pop_push {s s' : BezPath K} {el : PathEl K} (h : s.push el = .ok s') : s'.pop = (some el, s) := by
  rw [push_eq] at h
  split at h
  · injection h with h
    subst h
    simp [BezPath.pop]
  · cases h

/-- `pop` on the empty path returns `None` and changes nothing -/
theorem pop_empty : (BezPath.new : BezPath K).pop = (none, BezPath.new) := rfl

/-- `truncate` to the current length – or anything larger – is the identity -/
theorem truncate_len (s : BezPath K) (n : Nat) (h : s.length ≤ n) : s.truncate n = s := List.take_of_length_le h

/-- `extend`, then `truncate` to the old length, restores the state -/
theorem truncate_extend (s : BezPath K) (els : List (PathEl K)) : (s.extend els).truncate s.length = s := by
  simp [BezPath.truncate, BezPath.extend]

/-- `pop` is `truncate (len - 1)` together with the last element -/
theorem pop_eq_truncate (s : BezPath K) : s.pop = (s.getLast?, s.truncate (s.length - 1)) := by
  simp [BezPath.pop, BezPath.truncate, List.dropLast_eq_take]

theorem extend_nil (s : BezPath K) : s.extend [] = s := by simp [BezPath.extend]

/-- `push`, `push`, `truncate`, `pop` as steps of one history (the `mutRun` form of the laws above) -/
theorem history_push_pop (s : BezPath K) (el : PathEl K) (hs : BezPath.firstIsMoveTo s = true) :
    mutRun s [.push el, .pop] = .ok (s, [some el]) ∧
    mutRun s [.extend [el, el], .truncate s.length] = .ok (s, []) := by
  have h1 := push_ok_of_first hs el
  constructor
  · simp only [mutRun, mutStep, h1, BezPath.pop]
    simp
  · simp only [mutRun, mutStep, truncate_extend]
    rfl

example : BezPath.firstIsMoveTo ([.MoveTo ⟨0, 0⟩, .LineTo ⟨1, 1⟩] : BezPath Rat) = true := rfl

/-! ## 3. When the assertions fire -/

/-- `push` panics – with "BezPath must begin with MoveTo" – exactly when the path is empty and the element is not a `MoveTo`, or
    the path is non-empty and (by earlier abuse of `extend`) does not start with a `MoveTo` -/
theorem push_panics_iff (s : BezPath K) (el : PathEl K) :
    (∃ m, s.push el = .panic m) ↔ (s = [] ∧ BezPath.firstIsMoveTo [el] = false) ∨ (s ≠ [] ∧ BezPath.firstIsMoveTo s = false) := by
  have hm : ∀ b : Bool, (∃ m, (if b then MutRes.ok (s ++ [el]) else MutRes.panic PanicMsg.mustBeginWithMoveTo) = .panic m) ↔ b = false := by
    intro b; cases b <;> simp
  rw [push_eq, hm]
  cases s with
  | nil => simp
  | cons e r => rw [firstIsMoveTo_append_of_ne_nil (by simp)]; simp

theorem push_panic_msg {s : BezPath K} {el : PathEl K} {m : PanicMsg} (h : s.push el = .panic m) : m = .mustBeginWithMoveTo := by
  rw [push_eq] at h
  split at h
  · cases h
  · injection h with h; exact h.symm

/-- `from_vec` panics exactly on a non-empty vector that does not start with a `MoveTo` -/
theorem from_vec_panics_iff (v : List (PathEl K)) :
    (∃ m, BezPath.from_vec v = .panic m) ↔ (v ≠ [] ∧ BezPath.firstIsMoveTo v = false) := by
  unfold BezPath.from_vec
  cases v with
  | nil => simp
  | cons e r => cases h : BezPath.firstIsMoveTo (e :: r) <;> simp

/-- `line_to` / `quad_to` / `curve_to` / `close_path` panic with "uninitialized subpath (missing MoveTo)" exactly on the empty path;
    on a path that starts with a `MoveTo` they append their element -/
theorem drawing_panics_iff (s : BezPath K) (p p1 p2 p3 : Point K) :
    (s.line_to p = .panic .uninitializedSubpath ↔ s = []) ∧ (s.quad_to p1 p2 = .panic .uninitializedSubpath ↔ s = []) ∧
    (s.curve_to p1 p2 p3 = .panic .uninitializedSubpath ↔ s = []) ∧ (s.close_path = .panic .uninitializedSubpath ↔ s = []) := by
  have key : ∀ el : PathEl K, ((if s.isEmpty then MutRes.panic PanicMsg.uninitializedSubpath else s.push el) =
      .panic .uninitializedSubpath ↔ s = []) := by
    intro el
    cases s with
    | nil => simp
    | cons e r =>
      simp only [List.isEmpty_cons, Bool.false_eq_true, if_false, reduceCtorEq, iff_false]
      intro h
      have := push_panic_msg h
      cases this
  exact ⟨key _, key _, key _, key _⟩

/-- the invariant `PathInv` (empty or first element `MoveTo`) is preserved by every non-panicking step other than `extend` -/
theorem mutStep_inv {s s' : BezPath K} {op : MutOp K} {out : Option (Option (PathEl K))} (hs : PathInv s)
    (h : mutStep s op = .ok (s', out)) (hop : ∀ els, op ≠ .extend els) : PathInv s' := by
  have hpush : ∀ (el : PathEl K) (q : BezPath K), s.push el = .ok q → PathInv q := by
    intro el q hq
    rw [push_eq] at hq
    split at hq
    · rename_i hf; injection hq with hq; subst hq; exact .inr hf
    · cases hq
  cases op with
  | new => simp only [mutStep, MutRes.ok.injEq, Prod.mk.injEq] at h; exact .inl h.1.symm
  | with_capacity n => simp only [mutStep, MutRes.ok.injEq, Prod.mk.injEq] at h; exact .inl h.1.symm
  | from_vec v =>
    have hv : (v.isEmpty || BezPath.firstIsMoveTo v) = true := by
      cases hc : (v.isEmpty || BezPath.firstIsMoveTo v) with
      | true => rfl
      | false => simp [mutStep, BezPath.from_vec, hc] at h
    have hs' := (mutStep_ok h).1
    simp only [mutSpec] at hs'
    subst hs'
    cases s' with
    | nil => exact .inl rfl
    | cons e r => exact .inr (by simpa using hv)
  | push el =>
    simp only [mutStep] at h
    split at h
    · rename_i p hp; injection h with h; injection h with h1 h2; subst h1; exact hpush el p hp
    · cases h
  | pop =>
    simp only [mutStep, BezPath.pop, MutRes.ok.injEq, Prod.mk.injEq] at h
    rw [← h.1, List.dropLast_eq_take]
    rcases hs with hs | hs
    · exact .inl (by rw [hs]; rfl)
    · rcases firstIsMoveTo_take hs (s.length - 1) with h0 | h0
      · exact .inl (by rw [h0]; rfl)
      · exact .inr h0
  | truncate n =>
    simp only [mutStep, BezPath.truncate, MutRes.ok.injEq, Prod.mk.injEq] at h
    rw [← h.1]
    rcases hs with hs | hs
    · exact .inl (by rw [hs]; simp)
    · rcases firstIsMoveTo_take hs n with h0 | h0
      · exact .inl (by rw [h0]; rfl)
      · exact .inr h0
  | extend els => exact absurd rfl (hop els)
  | move_to p =>
    simp only [mutStep, BezPath.move_to] at h
    split at h
    · rename_i q hq; injection h with h; injection h with h1 h2; subst h1; exact hpush _ q hq
    · cases h
  | line_to p =>
    simp only [mutStep, BezPath.line_to] at h
    split at h
    · rename_i q hq
      split at hq
      · cases hq
      · injection h with h; injection h with h1 h2; subst h1; exact hpush _ q hq
    · cases h
  | quad_to p1 p2 =>
    simp only [mutStep, BezPath.quad_to] at h
    split at h
    · rename_i q hq
      split at hq
      · cases hq
      · injection h with h; injection h with h1 h2; subst h1; exact hpush _ q hq
    · cases h
  | curve_to p1 p2 p3 =>
    simp only [mutStep, BezPath.curve_to] at h
    split at h
    · rename_i q hq
      split at hq
      · cases hq
      · injection h with h; injection h with h1 h2; subst h1; exact hpush _ q hq
    · cases h
  | close_path =>
    simp only [mutStep, BezPath.close_path] at h
    split at h
    · rename_i q hq
      split at hq
      · cases hq
      · injection h with h; injection h with h1 h2; subst h1; exact hpush _ q hq
    · cases h
  | apply_affine a =>
    simp only [mutStep, BezPath.apply_affine, MutRes.ok.injEq, Prod.mk.injEq] at h
    rw [← h.1]
    rcases hs with hs | hs
    · exact .inl (by rw [hs]; rfl)
    · exact .inr (by rw [firstIsMoveTo_map]; exact hs)

/-- `extend` has no assertion: it can build a path that violates the invariant … -/
theorem extend_breaks_inv (p : Point K) : ¬ PathInv ((BezPath.new : BezPath K).extend [.LineTo p]) := by
  intro h
  rcases h with h | h
  · cases h
  · cases h

/-- … and then every later `push` (so every drawing method, `move_to` included) panics -/
theorem push_after_bad_extend {s : BezPath K} (hs : ¬ PathInv s) (el : PathEl K) : s.push el = .panic .mustBeginWithMoveTo := by
  have hne : s ≠ [] := fun h => hs (.inl h)
  have hf : BezPath.firstIsMoveTo s = false := by
    cases h : BezPath.firstIsMoveTo s with
    | false => rfl
    | true => exact absurd (.inr h) hs
  rw [push_eq, firstIsMoveTo_append_of_ne_nil hne, hf]
  rfl

example : mutRun (K := Rat) BezPath.new [.extend [.LineTo ⟨1, 2⟩], .move_to ⟨0, 0⟩] = .panic .mustBeginWithMoveTo := by decide +kernel
example : mutRun (K := Rat) BezPath.new [.move_to ⟨0, 0⟩, .pop, .line_to ⟨1, 1⟩] = .panic .uninitializedSubpath := by decide +kernel
example : mutRun (K := Rat) BezPath.new [.from_vec [.ClosePath]] = .panic .mustBeginWithMoveTo := by decide +kernel

/-! ## 4. Builder use never panics -/

/-- from a path that starts with a `MoveTo`, a history of drawing methods, `push`, `extend`, `apply_affine` never panics, returns no
    value, and ends in the fold of `mutSpec`, which still starts with a `MoveTo` -/
theorem growing_never_panics (ops : List (MutOp K)) {s : BezPath K} (hs : BezPath.firstIsMoveTo s = true)
    (hops : ∀ op ∈ ops, op.isGrowing = true) :
    mutRun s ops = .ok (ops.foldl mutSpec s, []) ∧ BezPath.firstIsMoveTo (ops.foldl mutSpec s) = true := by
  induction ops generalizing s with
  | nil => exact ⟨rfl, hs⟩
  | cons op ops ih =>
    obtain ⟨h1, h2⟩ := mutStep_growing hs op (hops op List.mem_cons_self)
    obtain ⟨h3, h4⟩ := ih h2 (fun o ho => hops o (List.mem_cons_of_mem _ ho))
    refine ⟨?_, h4⟩
    rw [mutRun_cons_ok ops h1, h3]
    rfl

/-- **a path built only with `move_to` / `line_to` / `quad_to` / `curve_to` / `close_path`, starting with `move_to`, never panics**;
    its elements are the appended elements in order -/
theorem drawing_from_move_to_never_panics (p : Point K) (ops : List (MutOp K)) (hops : ∀ op ∈ ops, op.isDrawing = true) :
    mutRun BezPath.new (.move_to p :: ops) = .ok (.MoveTo p :: ops.filterMap MutOp.appended, []) := by
  have hst : mutStep (BezPath.new : BezPath K) (.move_to p) = .ok ([.MoveTo p], none) := rfl
  have hg : ∀ op ∈ ops, op.isGrowing = true := by
    intro op hop
    have := hops op hop
    cases op <;> first | rfl | cases this
  have hfold : ∀ (ops : List (MutOp K)) (s : BezPath K), (∀ op ∈ ops, op.isDrawing = true) →
      ops.foldl mutSpec s = s ++ ops.filterMap MutOp.appended := by
    intro ops
    induction ops with
    | nil => intro s _; simp
    | cons op ops ih =>
      intro s h
      have h1 := h op List.mem_cons_self
      rw [List.foldl_cons, ih _ (fun o ho => h o (List.mem_cons_of_mem _ ho))]
      cases op <;> first | (simp only [MutOp.isDrawing, Bool.false_eq_true] at h1; done) | simp [mutSpec, MutOp.appended]
  rw [mutRun_cons_ok ops hst, (growing_never_panics ops (s := [.MoveTo p]) rfl hg).1, hfold ops _ hops]
  rfl

/-- the hypotheses on a concrete history; the element list that is built -/
example :
    let ops : List (MutOp Rat) := [.line_to ⟨1, 0⟩, .quad_to ⟨1, 1⟩ ⟨0, 1⟩, .close_path, .move_to ⟨2, 2⟩, .curve_to ⟨3, 3⟩ ⟨4, 4⟩ ⟨5, 5⟩]
    (∀ op ∈ ops, op.isDrawing = true) ∧
    mutRun BezPath.new (.move_to ⟨0, 0⟩ :: ops) =
      .ok ([.MoveTo ⟨0, 0⟩, .LineTo ⟨1, 0⟩, .QuadTo ⟨1, 1⟩ ⟨0, 1⟩, .ClosePath, .MoveTo ⟨2, 2⟩, .CurveTo ⟨3, 3⟩ ⟨4, 4⟩ ⟨5, 5⟩], []) :=
  ⟨by decide, by decide +kernel⟩

end Kurbo
