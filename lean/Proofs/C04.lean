import Proofs.Lemmas.C04Real
/-! C04 – stroke outline, for POLYLINE sources (every element `MoveTo` / `LineTo` / `ClosePath`), about the hand-written model
    `Kurbo/Stroke.lean` of `stroke_undashed` (`do_join`, `do_line`, `finish`, `finish_closed`, caps, `extend_reversed`).

    PROVED, part A (any `[Scalar K]`, no arithmetic law; holds for `Float` too):
    * `c04_stroke_polyline_total` – on a polyline the model never answers `.panic` (Rust `unwrap`/`unreachable!`) nor `.notModelled`.
    * `c04_extendReversed_spec`, `c04_extendReversed_spec_lines`, `c04_extendReversed_ends_at_start` – what `extend_reversed` returns.
    * `c04_finish_one_contour`, `c04_finish_closed_two_contours`, `c04_stroke_contours_closed`, `c04_stroke_contours_round_start` –
      the output is a concatenation of contours `MoveTo, (LineTo|CurveTo)*, ClosePath`; with a round START cap the crate emits no
      `ClosePath` for an open sub-path and that contour ends with the `CurveTo`s of `round_cap join_thresh start_pt start_norm` instead.
    * `c04_stroke_output_empty_iff` – the output is empty iff no `LineTo`/`ClosePath` moves the current point.
    PROVED, part B (lawful ordered field; `C04HypotLaw`: `hypot x y ≥ 0`, `hypot x y · hypot x y = x·x + y·y`, inhabited by ℝ):
    * `c04_norm_spec`, `c04_do_line_offsets`, `c04_do_join_start` – the offset vector is orthogonal to the tangent, of length w/2,
      on the positive side; the two points appended by `do_line`.
    * `c04_bevel_within` – the bevel segment stays within w/2 of the join point.
    * `c04_miter_distance`, `c04_miter_within`, `c04_do_join_miter` – the miter point lies on both offset lines, at squared
      distance `2·(w/2)²·h/(h + dot)`; when the model's miter test passes it is within `w/2 · miter_limit`.
    * `c04_square_cap_within` – corners of the square cap at squared distance `2·|norm|²`, the third point at `|norm|²`.
    * `c04_inner_pivot_on_path`, `c04_do_join_bevel` – the inner-join pivot is the join point itself, on the side opposite to the
      miter point.
    * `c04_polyline_outline_vertices_within`, `…_moveTo`, `c04_style_bound` (stretch goal) – bevel/miter joins, butt/square caps:
      the outline of a polyline has only `MoveTo`/`LineTo`/`ClosePath` elements and every VERTEX of it is within the (squared)
      style bound `(w/2)² · (2 if a cap is square) · (miter_limit² if mitered)` of a vertex of the source.

    NOT PROVED:
    * the coverage claims of C04 (every point closer than w/2 to the path has non-zero winding number; no point farther than the
      style bound is covered): only the VERTICES of the outline (and the points of a single bevel edge) are bounded here; nothing
      about the points of the other edges (offset, miter and cap edges), nothing about winding numbers.
    * anything about `QuadTo`/`CurveTo` sources (`do_cubic`, curve fitting: not modelled), and about the geometry of round
      joins/caps (the `CurveTo`s of `roundJoin`/`roundCap` are treated as opaque; in particular it is NOT proved that a contour
      ending with a round start cap returns to its `MoveTo` point).
    * that `Float` arithmetic satisfies part B (it does not exactly; part B is about exact arithmetic).
    Only property theorems live here (helper lemmas: `Proofs/Lemmas/C04*.lean`). -/
set_option linter.unusedSectionVars false
set_option linter.unusedVariables false
namespace Kurbo

/-! ## Part A: structure (any scalar) -/
section structure_
variable {K : Type} [Scalar K]

/-- **Totality on polylines.** No Rust panic (`unwrap` of a missing end point, `unreachable!` in `extend_reversed`) is
    reachable, and the model covers every polyline. -/
theorem c04_stroke_polyline_total (els : List (PathEl K)) (style : StrokeStyle K) (tolerance : K)
    (hp : ∀ e ∈ els, c04_isPoly e = true) : ∃ out, strokeUndashed els style tolerance = .ok out := by
  obtain ⟨out, h, _⟩ := c04_strokeUndashed_summary els style tolerance hp
  exact ⟨out, h⟩
example : ∀ e ∈ ([.MoveTo ⟨0, 0⟩, .LineTo ⟨4, 0⟩, .LineTo ⟨4, 3⟩, .ClosePath] : List (PathEl Rat)), c04_isPoly e = true := by
  decide

/-- **`extend_reversed`, general.** On `MoveTo` followed by `LineTo`/`CurveTo` elements it succeeds; the result is, in reverse
    order, each element drawn back to the end point of its predecessor (`c04_revEl`: `LineTo _ ↦ LineTo e`,
    `CurveTo p1 p2 _ ↦ CurveTo p2 p1 e`); it has one element less than the input and consists of `LineTo`/`CurveTo` only. -/
theorem c04_extendReversed_spec (p : Point K) (t : List (PathEl K)) (ht : ∀ e ∈ t, c04_isSeg e = true) :
    extendReversed (.MoveTo p :: t) = some ((List.zipWith c04_revEl (.MoveTo p :: t) t).reverse) ∧
    ((List.zipWith c04_revEl (.MoveTo p :: t) t).reverse).length = t.length ∧
    ∀ e ∈ (List.zipWith c04_revEl (.MoveTo p :: t) t).reverse, c04_isSeg e = true := by
  have hl : c04_PathOK (PathEl.MoveTo p :: t) := ⟨p, t, rfl, ht⟩
  refine ⟨c04_extendReversed_PathOK hl, ?_, c04_Segs_reverse (c04_zipWith_revEl_segs _ _ ht)⟩
  simp only [List.length_reverse, List.length_zipWith, List.length_cons]
  omega
example : ∀ e ∈ ([.LineTo ⟨1, 0⟩, .CurveTo ⟨1, 1⟩ ⟨2, 1⟩ ⟨2, 2⟩] : List (PathEl Rat)), c04_isSeg e = true := by decide
example : extendReversed ([.MoveTo ⟨0, 0⟩, .LineTo ⟨1, 0⟩, .CurveTo ⟨1, 1⟩ ⟨2, 1⟩ ⟨2, 2⟩] : List (PathEl Rat))
    = some [.CurveTo ⟨2, 1⟩ ⟨1, 1⟩ ⟨1, 0⟩, .LineTo ⟨0, 0⟩] := by decide

/-- **`extend_reversed` on a polyline:** `MoveTo p, LineTo q₁ … LineTo qₙ ↦ LineTo qₙ₋₁ … LineTo q₁, LineTo p`. -/
theorem c04_extendReversed_spec_lines (p : Point K) (pts : List (Point K)) :
    extendReversed (.MoveTo p :: pts.map .LineTo) = some (((p :: pts).dropLast.reverse).map .LineTo) :=
  c04_extendReversed_lines p pts

/-- the reversed path ends at the start point of the path (so the start cap / `ClosePath` starts from there) -/
theorem c04_extendReversed_ends_at_start (p : Point K) (e : PathEl K) (t : List (PathEl K))
    (ht : ∀ x ∈ e :: t, c04_isSeg x = true) :
    ∃ r last, extendReversed (.MoveTo p :: e :: t) = some (r ++ [last]) ∧ last.end_point = some p := by
  obtain ⟨r, h1, h2⟩ := c04_extendReversed_returns (p := p) ht
  exact ⟨r, _, h1, h2⟩

/-- **`finish` emits one contour.** Under the context invariant (`C04Inv`: forward and backward path both empty, or both
    `MoveTo` followed by `LineTo`/`CurveTo` only – kept by every step on a polyline, `c04_I_step`) and with a sub-path in
    progress, `finish` appends exactly one contour: closed (`MoveTo, (LineTo|CurveTo)*, ClosePath`) when the start cap is
    butt or square; with a round start cap: `MoveTo q`, drawing elements, then the elements of `round_cap join_thresh start_pt start_norm`,
    where `q = start_pt - start_norm` if point equality is sound. -/
theorem c04_finish_one_contour (style : StrokeStyle K) (c : StrokeCtx K) (h : C04Inv c) (hne : c.forward_path ≠ []) :
    ∃ x, c.finish style = some { c with output := c.output ++ x, forward_path := [], backward_path := [] } ∧
      (style.start_cap ≠ 2 → c04_ClosedContour x) ∧
      (style.start_cap = 2 → ∃ q mid, x = .MoveTo q :: (mid ++ roundCap c.join_thresh c.start_pt c.start_norm) ∧
        (∀ e ∈ mid, c04_isSeg e = true) ∧ (c04_PeqSound K → q = c.start_pt - c.start_norm)) := by
  obtain ⟨hf, hb⟩ := h.ok_of_ne hne
  obtain ⟨rp, hrp⟩ := c04_lastEndPoint_PathOK hb
  obtain ⟨rev, hrev, hsegs, _⟩ := c04_extendReversed_segs hb
  obtain ⟨q, t, e0, ht⟩ := hf
  have hmid : c04_Segs (t ++ c04_endCap c.join_thresh style c.last_pt rp ++ rev) :=
    c04_Segs_append (c04_Segs_append ht (c04_endCap_segs _ _ _ _)) hsegs
  refine ⟨c.forward_path ++ c04_endCap c.join_thresh style c.last_pt rp ++ rev ++ c04_startCap c.join_thresh style c.start_pt c.start_norm, ?_, ?_, ?_⟩
  · rw [c04_finish_eq c style hne hrp hrev]
    simp only [List.append_assoc]
  · intro h2
    obtain ⟨m, hm, _, em⟩ := c04_startCap_closed c.join_thresh style c.start_pt c.start_norm h2
    refine ⟨q, (t ++ c04_endCap c.join_thresh style c.last_pt rp ++ rev) ++ m, ?_, c04_Segs_append hmid hm⟩
    rw [em, e0]
    simp only [List.cons_append, List.append_assoc]
  · intro h2
    refine ⟨q, _, ?_, hmid, fun hs => h.head_f hs q t e0⟩
    rw [c04_startCap_round _ style _ _ h2, e0]
    simp only [List.cons_append, List.append_assoc]

/-- **`finish_closed` emits two closed contours** (whatever the caps), and resets the paths. -/
theorem c04_finish_closed_two_contours (style : StrokeStyle K) (c : StrokeCtx K) (h : C04Inv c) (hne : c.forward_path ≠ []) :
    ∃ x1 x2 c', c04_ClosedContour x1 ∧ c04_ClosedContour x2 ∧ c.finish_closed style = some c' ∧
      c'.output = c.output ++ (x1 ++ x2) ∧ c'.forward_path = [] ∧ c'.backward_path = [] :=
  let ⟨x1, x2, c', h1, h2, h3, h4, h5, h6, _⟩ := c04_finish_closed_spec style c h hne
  ⟨x1, x2, c', h1, h2, h3, h4, h5, h6⟩
/-- the invariant with a sub-path in progress is satisfiable: the context after `MoveTo (0,0), LineTo (4,0)` -/
example : ∃ c : StrokeCtx Rat, C04Inv c ∧ c.forward_path ≠ [] := by
  let c0 : StrokeCtx Rat :=
    { start_pt := ⟨0, 0⟩, start_norm := ⟨0, 0⟩, start_tan := ⟨0, 0⟩, last_pt := ⟨0, 0⟩, last_tan := ⟨0, 0⟩, join_thresh := 1 }
  have h0 : C04Inv c0 :=
    ⟨Or.inl ⟨rfl, rfl⟩, fun _ _ => rfl, fun _ q t h => (nomatch h), fun _ q t h => (nomatch h)⟩
  have := c04_stepLine_inv ⟨2, 0, 4, 0, 0⟩ c0 ⟨4, 0⟩ h0
  exact ⟨_, this.1, this.2.1⟩

/-- **Contours of the outline, butt or square start cap.** The output of a polyline source is a concatenation of closed
    contours: each starts with `MoveTo`, contains no other `MoveTo`, only `LineTo`/`CurveTo` in between, and ends with its only
    `ClosePath`. -/
theorem c04_stroke_contours_closed (els : List (PathEl K)) (style : StrokeStyle K) (tolerance : K)
    (hp : ∀ e ∈ els, c04_isPoly e = true) (hcap : style.start_cap ≠ 2) :
    ∃ cs : List (List (PathEl K)), strokeUndashed els style tolerance = .ok cs.flatten ∧
      ∀ x ∈ cs, ∃ p mid, x = .MoveTo p :: (mid ++ [.ClosePath]) ∧ ∀ e ∈ mid, c04_isSeg e = true := by
  obtain ⟨out, h, ⟨cs, rfl, hg⟩, _⟩ := c04_strokeUndashed_summary els style tolerance hp
  refine ⟨cs, h, fun x hx => ?_⟩
  rcases hg x hx with hc | ⟨h2, _⟩
  · exact hc
  · exact absurd h2 hcap
example : (⟨2, 1, 4, 0, 1⟩ : StrokeStyle Rat).start_cap ≠ 2 := by decide

/-- **Contours of the outline, any caps.** Every contour is closed as above, or (round start cap only; the contour of an open
    sub-path) it is `MoveTo q`, `LineTo`/`CurveTo` elements, then the `CurveTo`s of `round_cap tol s n` with no `ClosePath`; if point
    equality is sound (every lawful scalar; not `Float`, where `0.0 == -0.0`) then `q = s - n`.
    NOT proved: that `round_cap tol s n` ends at `s - n` (geometry of the arc). -/
theorem c04_stroke_contours_round_start (els : List (PathEl K)) (style : StrokeStyle K) (tolerance : K)
    (hp : ∀ e ∈ els, c04_isPoly e = true) :
    ∃ cs : List (List (PathEl K)), strokeUndashed els style tolerance = .ok cs.flatten ∧
      ∀ x ∈ cs, (∃ p mid, x = .MoveTo p :: (mid ++ [.ClosePath]) ∧ ∀ e ∈ mid, c04_isSeg e = true) ∨
        (style.start_cap = 2 ∧ ∃ q tol s n mid, x = .MoveTo q :: (mid ++ roundCap tol s n) ∧ (∀ e ∈ mid, c04_isSeg e = true) ∧
          (∀ e ∈ roundCap tol s n, c04_isCurve e = true) ∧ (c04_PeqSound K → q = s - n)) := by
  obtain ⟨out, h, ⟨cs, rfl, hg⟩, _⟩ := c04_strokeUndashed_summary els style tolerance hp
  refine ⟨cs, h, fun x hx => ?_⟩
  rcases hg x hx with hc | ⟨h2, q, tl, s, n, mid, e, hm, hq⟩
  · exact Or.inl hc
  · exact Or.inr ⟨h2, q, tl, s, n, mid, e, hm, c04_roundCap_curves tl s n, hq⟩

/-- **Empty output.** The output is empty iff the source has no non-degenerate segment: `c04_hasSegment` follows the
    stroker's current point and start point through the source and reports whether some `LineTo` target differs from the
    current point or some `ClosePath` finds the current point away from the start point (the crate's `!=` on points). -/
theorem c04_stroke_output_empty_iff (els : List (PathEl K)) (style : StrokeStyle K) (tolerance : K)
    (hp : ∀ e ∈ els, c04_isPoly e = true) :
    strokeUndashed els style tolerance = .ok [] ↔ c04_hasSegment els = false := by
  obtain ⟨out, h, _, hiff⟩ := c04_strokeUndashed_summary els style tolerance hp
  rw [h]
  constructor
  · intro e
    injection e with e
    exact hiff.1 e
  · intro e
    rw [hiff.2 e]
example : c04_hasSegment ([.MoveTo ⟨1, 1⟩, .LineTo ⟨1, 1⟩, .ClosePath] : List (PathEl Rat)) = false := by decide
example : c04_hasSegment ([.MoveTo ⟨1, 1⟩, .LineTo ⟨1, 2⟩] : List (PathEl Rat)) = true := by decide

end structure_

/-! ## Part B: geometry (lawful ordered field, lawful `hypot`) -/
section geometry
variable {K : Type} [Field K] [LinearOrder K] [IsStrictOrderedRing K] [FloorRing K] [Scalar K] [LawfulScalar K]
  [C04HypotLaw K]

/-- the hypotheses on the scalar are satisfiable (ℝ with `hypot x y = √(x²+y²)`) -/
example : ∃ (_ : Scalar ℝ) (_ : LawfulScalar ℝ), C04HypotLaw ℝ := c04_exReal

/-- **The offset vector.** `c04_norm w t = (0.5·w / t.hypot()) · (−t.y, t.x)` is the vector `norm` computed by `do_join` and
    `do_line` (`c04_do_line_offsets`, `c04_do_join_start`, `c04_do_join_nonempty`). For a non-zero tangent it is orthogonal to
    the tangent, has squared length `(w/2)²`, and `tangent × norm = (w/2)·|tangent|` (positive side for `w > 0`). -/
theorem c04_norm_spec (w : K) (t : Vec2 K) (ht : t.x ≠ 0 ∨ t.y ≠ 0) :
    (c04_norm w t).dot t = 0 ∧ (c04_norm w t).hypot2 = (w / 2) ^ 2 ∧ t.cross (c04_norm w t) = w / 2 * t.hypot ∧
    0 < t.hypot :=
  ⟨c04_norm_dot w t, c04_norm_hypot2 w t ht, c04_norm_cross w t ht, c04_hypot_pos _ _ ht⟩
example : ((⟨4, 3⟩ : Point Rat) - (⟨4, 0⟩ : Point Rat)).x ≠ 0 ∨ ((⟨4, 3⟩ : Point Rat) - (⟨4, 0⟩ : Point Rat)).y ≠ 0 := by
  right; decide +kernel

/-- the tangents the element loop passes to `do_join`/`do_line` are non-zero (`p1 != p0` in the crate) -/
theorem c04_loop_tangent_ne_zero (p0 p1 : Point K) (h : p1.peq p0 = false) : (p1 - p0).x ≠ 0 ∨ (p1 - p0).y ≠ 0 :=
  c04_sub_ne_zero (c04_peq_false_ne h)
example : (⟨4, 3⟩ : Point Rat).peq ⟨4, 0⟩ = false := by decide

/-- **`do_line`.** It appends `p1 − norm` to the forward path and `p1 + norm` to the backward path, `norm = c04_norm w tangent`.
    Both points are at distance exactly `w/2` from `p1`, on opposite sides (`+norm` on the positive side of the tangent), and
    the edge from the previous offset point `p0 ∓ norm` (same `norm`) is the source segment `p1 − p0` translated. -/
theorem c04_do_line_offsets (c : StrokeCtx K) (style : StrokeStyle K) (t : Vec2 K) (p1 : Point K) (ht : t.x ≠ 0 ∨ t.y ≠ 0) :
    let n := c04_norm style.width t
    (c.do_line style t p1).forward_path = c.forward_path ++ [.LineTo (p1 - n)] ∧
    (c.do_line style t p1).backward_path = c.backward_path ++ [.LineTo (p1 + n)] ∧
    (c.do_line style t p1).last_pt = p1 ∧
    (p1 - n).distance_squared p1 = (style.width / 2) ^ 2 ∧ (p1 + n).distance_squared p1 = (style.width / 2) ^ 2 ∧
    (p1 + n) - p1 = n ∧ (p1 - n) - p1 = -n ∧ t.cross n = style.width / 2 * t.hypot ∧
    ∀ p0 : Point K, (p1 - n) - (p0 - n) = p1 - p0 ∧ (p1 + n) - (p0 + n) = p1 - p0 := by
  intro n
  obtain ⟨h1, h2, h3⟩ := c04_offsets_opposite p1 n
  obtain ⟨d1, d2⟩ := c04_offset_dist p1 n
  exact ⟨rfl, rfl, rfl, d1.trans (c04_norm_hypot2 _ t ht), d2.trans (c04_norm_hypot2 _ t ht), h1, h2,
    c04_norm_cross _ t ht, h3⟩

/-- **`do_join` at the start of a sub-path:** the two paths start at `last_pt ∓ norm`; `start_norm` is that `norm`. -/
theorem c04_do_join_start (c : StrokeCtx K) (style : StrokeStyle K) (t : Vec2 K) (he : c.forward_path = [])
    (hb : c.backward_path = []) :
    (c.do_join style t).forward_path = [.MoveTo (c.last_pt - c04_norm style.width t)] ∧
    (c.do_join style t).backward_path = [.MoveTo (c.last_pt + c04_norm style.width t)] ∧
    (c.do_join style t).start_norm = c04_norm style.width t ∧ (c.do_join style t).start_tan = t := by
  rw [c04_do_join_empty c style t he]
  simp only [hb, List.nil_append, and_self]

/-- **Bevel.** Every point of the segment between two points at distance `r` from `p0` (such as `p0 − last_norm` and
    `p0 − norm`, `c04_do_join_bevel`) is within `r` of `p0`. -/
theorem c04_bevel_within (p0 : Point K) (a b : Vec2 K) (rr s : K) (ha : a.hypot2 = rr) (hb : b.hypot2 = rr)
    (h0 : 0 ≤ s) (h1 : s ≤ 1) : ((p0 - a).lerp (p0 - b) s).distance_squared p0 ≤ rr :=
  c04_bevel_chord p0 a b rr s ha hb h0 h1

/-- the join-skip test of `do_join`, in ordinary arithmetic: a join is made unless the turn is forward and tiny -/
theorem c04_join_test_iff (c : StrokeCtx K) (tan0 : Vec2 K) :
    c04_joinTest c tan0 = true ↔
      (c.last_tan.dot tan0 ≤ 0 ∨
        Scalar.hypot (c.last_tan.cross tan0) (c.last_tan.dot tan0) * c.join_thresh ≤ |c.last_tan.cross tan0|) :=
  c04_joinTest_iff c tan0

/-- **The inner-join pivot is the join point itself**, appended to the backward path for a left turn (`cross > 0`), to the
    forward path for a right turn (`cross < 0`), nowhere for `cross = 0`. -/
theorem c04_inner_pivot_on_path (c : StrokeCtx K) (p0 : Point K) (cross : K) :
    (0 < cross → c.inner_join_pivot p0 cross = { c with backward_path := c.backward_path ++ [.LineTo p0] }) ∧
    (cross < 0 → c.inner_join_pivot p0 cross = { c with forward_path := c.forward_path ++ [.LineTo p0] }) ∧
    (cross = 0 → c.inner_join_pivot p0 cross = c) := by
  refine ⟨fun h => ?_, fun h => ?_, fun h => ?_⟩
  · rw [c04_inner_join_pivot_eq, (c04_pivot_pos p0 cross h).1, (c04_pivot_pos p0 cross h).2]
    cases c; simp [c04_ext]
  · rw [c04_inner_join_pivot_eq, (c04_pivot_neg p0 cross h).1, (c04_pivot_neg p0 cross h).2]
    cases c; simp [c04_ext]
  · subst h
    rw [c04_inner_join_pivot_eq, (c04_pivot_zero p0).1, (c04_pivot_zero p0).2, c04_ext_nil]

/-- **Bevel join** (`style.join = 0`, sub-path in progress, join not skipped): the outer side gets the new offset point (the
    bevel edge from the previous one), the inner side goes through the join point `last_pt` first. -/
theorem c04_do_join_bevel (c : StrokeCtx K) (style : StrokeStyle K) (tan0 : Vec2 K) (hne : c.forward_path ≠ [])
    (hj : style.join = 0) (ht : c04_joinTest c tan0 = true) :
    let n := c04_norm style.width tan0
    (0 < c.last_tan.cross tan0 → c.do_join style tan0 =
      { c with forward_path := c.forward_path ++ [.LineTo (c.last_pt - n)],
               backward_path := c.backward_path ++ [.LineTo c.last_pt, .LineTo (c.last_pt + n)] }) ∧
    (c.last_tan.cross tan0 < 0 → c.do_join style tan0 =
      { c with forward_path := c.forward_path ++ [.LineTo c.last_pt, .LineTo (c.last_pt - n)],
               backward_path := c.backward_path ++ [.LineTo (c.last_pt + n)] }) ∧
    (c.last_tan.cross tan0 = 0 → c.do_join style tan0 =
      { c with forward_path := c.forward_path ++ [.LineTo (c.last_pt - n)],
               backward_path := c.backward_path ++ [.LineTo (c.last_pt + n)] }) := by
  intro n
  rw [c04_do_join_nonempty c style tan0 hne, c04_joinApp_bevel c style tan0 hj ht]
  refine ⟨fun h => ?_, fun h => ?_, fun h => ?_⟩
  · rw [(c04_pivot_pos _ _ h).1, (c04_pivot_pos _ _ h).2]; rfl
  · rw [(c04_pivot_neg _ _ h).1, (c04_pivot_neg _ _ h).2]; rfl
  · rw [h, (c04_pivot_zero _).1, (c04_pivot_zero _).2]; rfl

/-- **Miter join** (`style.join = 1`, sub-path in progress, join not skipped): as the bevel join, but the outer side first gets
    the miter point if the miter-limit test `c04_miterTest` (`2·hypot < (hypot + dot)·limit²`, `c04_miter_test_iff`) passes;
    the pivot is on the opposite (inner) side. -/
theorem c04_do_join_miter (c : StrokeCtx K) (style : StrokeStyle K) (tan0 : Vec2 K) (hne : c.forward_path ≠ [])
    (hj : style.join = 1) (ht : c04_joinTest c tan0 = true) :
    let n := c04_norm style.width tan0
    (0 < c.last_tan.cross tan0 → c.do_join style tan0 =
      { c with forward_path := c.forward_path ++
                 ((if c04_miterTest c style tan0 then [.LineTo (c04_miterPtF style.width c.last_pt c.last_tan tan0)] else [])
                   ++ [.LineTo (c.last_pt - n)]),
               backward_path := c.backward_path ++ [.LineTo c.last_pt, .LineTo (c.last_pt + n)] }) ∧
    (c.last_tan.cross tan0 < 0 → c.do_join style tan0 =
      { c with forward_path := c.forward_path ++ [.LineTo c.last_pt, .LineTo (c.last_pt - n)],
               backward_path := c.backward_path ++
                 ((if c04_miterTest c style tan0 then [.LineTo (c04_miterPtB style.width c.last_pt c.last_tan tan0)] else [])
                   ++ [.LineTo (c.last_pt + n)]) }) ∧
    (c.last_tan.cross tan0 = 0 → c.do_join style tan0 =
      { c with forward_path := c.forward_path ++ [.LineTo (c.last_pt - n)],
               backward_path := c.backward_path ++ [.LineTo (c.last_pt + n)] }) := by
  intro n
  rw [c04_do_join_nonempty c style tan0 hne, c04_joinApp_miter c style tan0 hj ht]
  refine ⟨fun h => ?_, fun h => ?_, fun h => ?_⟩
  · rw [(c04_pivot_pos _ _ h).1, (c04_pivot_pos _ _ h).2, (c04_miterFB_pos c style tan0 h).1, (c04_miterFB_pos c style tan0 h).2]
    rfl
  · rw [(c04_pivot_neg _ _ h).1, (c04_pivot_neg _ _ h).2, (c04_miterFB_neg c style tan0 h).1, (c04_miterFB_neg c style tan0 h).2]
    rfl
  · rw [(c04_miterFB_zero c style tan0 h).1, (c04_miterFB_zero c style tan0 h).2, h, (c04_pivot_zero _).1, (c04_pivot_zero _).2]
    rfl
/-- a left turn with a join: after `(0,0) → (4,0)`, going on to `(4,3)`: cross = 12 > 0, dot = 0 -/
example : (⟨4, 0⟩ : Vec2 Rat).cross ⟨0, 3⟩ = 12 ∧ (⟨4, 0⟩ : Vec2 Rat).dot ⟨0, 3⟩ ≤ 0 := by decide +kernel

/-- the miter-limit test of `do_join`, in ordinary arithmetic -/
theorem c04_miter_test_iff (c : StrokeCtx K) (style : StrokeStyle K) (tan0 : Vec2 K) :
    c04_miterTest c style tan0 = true ↔
      2 * Scalar.hypot (c.last_tan.cross tan0) (c.last_tan.dot tan0)
        < (Scalar.hypot (c.last_tan.cross tan0) (c.last_tan.dot tan0) + c.last_tan.dot tan0) * style.miter_limit ^ 2 :=
  c04_miterTest_iff c style tan0

/-- **The miter point.** For non-zero tangents `ab`, `cd` that are not parallel, the miter points the model computes
    (`c04_miterPtF`: forward side, used when `cross > 0`; `c04_miterPtB`: backward side, `cross < 0`) lie on both offset lines
    (through `p0 ∓ norm(cd)` along `cd`, through `p0 ∓ norm(ab)` along `ab`), and their squared distance `m²` from the join
    point satisfies `m² · (h + ab·cd) = 2·(w/2)²·h` with `h = hypot(ab×cd, ab·cd) = |ab|·|cd|`. -/
theorem c04_miter_distance (w : K) (p0 : Point K) (ab cd : Vec2 K) (hab : ab.x ≠ 0 ∨ ab.y ≠ 0) (hcd : cd.x ≠ 0 ∨ cd.y ≠ 0)
    (hX : ab.cross cd ≠ 0) :
    ((c04_miterPtF w p0 ab cd).distance_squared p0 * (Scalar.hypot (ab.cross cd) (ab.dot cd) + ab.dot cd)
        = 2 * (w / 2) ^ 2 * Scalar.hypot (ab.cross cd) (ab.dot cd) ∧
      (c04_miterPtF w p0 ab cd - (p0 - c04_norm w cd)).cross cd = 0 ∧
      (c04_miterPtF w p0 ab cd - (p0 - c04_norm w ab)).cross ab = 0) ∧
    ((c04_miterPtB w p0 ab cd).distance_squared p0 * (Scalar.hypot (ab.cross cd) (ab.dot cd) + ab.dot cd)
        = 2 * (w / 2) ^ 2 * Scalar.hypot (ab.cross cd) (ab.dot cd) ∧
      (c04_miterPtB w p0 ab cd - (p0 + c04_norm w cd)).cross cd = 0 ∧
      (c04_miterPtB w p0 ab cd - (p0 + c04_norm w ab)).cross ab = 0) ∧
    Scalar.hypot (ab.cross cd) (ab.dot cd) = ab.hypot * cd.hypot :=
  ⟨c04_miterPtF_spec w p0 ab cd hab hcd hX, c04_miterPtB_spec w p0 ab cd hab hcd hX, by
    simp only [Vec2.cross, Vec2.dot, Vec2.hypot, scalar_norm]; exact c04_hypot_cross_dot _ _ _ _⟩
example : ((⟨4, 0⟩ : Vec2 Rat).x ≠ 0 ∨ (⟨4, 0⟩ : Vec2 Rat).y ≠ 0) ∧ ((⟨0, 3⟩ : Vec2 Rat).x ≠ 0 ∨ (⟨0, 3⟩ : Vec2 Rat).y ≠ 0) ∧
    (⟨4, 0⟩ : Vec2 Rat).cross ⟨0, 3⟩ ≠ 0 := by decide +kernel

/-- **Miter limit.** A miter point emitted by the model (the test passed) is within `w/2 · miter_limit` of the join point. -/
theorem c04_miter_within (c : StrokeCtx K) (style : StrokeStyle K) (tan0 : Vec2 K)
    (hab : c.last_tan.x ≠ 0 ∨ c.last_tan.y ≠ 0) (hcd : tan0.x ≠ 0 ∨ tan0.y ≠ 0) (ht : c04_miterTest c style tan0 = true) :
    (0 < c.last_tan.cross tan0 →
      (c04_miterPtF style.width c.last_pt c.last_tan tan0).distance_squared c.last_pt ≤ (style.width / 2 * style.miter_limit) ^ 2) ∧
    (c.last_tan.cross tan0 < 0 →
      (c04_miterPtB style.width c.last_pt c.last_tan tan0).distance_squared c.last_pt ≤ (style.width / 2 * style.miter_limit) ^ 2) :=
  Kurbo.c04_miter_within_ctx c style tan0 hab hcd ht

/-- **Square cap.** `square_cap close centre norm` is `centre + norm + rot90(norm)`, `centre − norm + rot90(norm)`, then
    `ClosePath` (start cap) or `centre − norm` (end cap); the two corners are at squared distance `2·|norm|²` from the centre,
    the third point at `|norm|²`. -/
theorem c04_square_cap_within (close : Bool) (s : Point K) (n : Vec2 K) :
    ∃ q1 q2 q3 : Point K,
      squareCap close s n = [.LineTo q1, .LineTo q2] ++ (if close then [.ClosePath] else [.LineTo q3]) ∧
      q1.distance_squared s = 2 * n.hypot2 ∧ q2.distance_squared s = 2 * n.hypot2 ∧ q3.distance_squared s = n.hypot2 ∧
      q3 = s - n := by
  refine ⟨_, _, _, c04_squareCap_eq close s n, (c04_squareCap_dist s n).1, (c04_squareCap_dist s n).2.1,
    (c04_squareCap_dist s n).2.2, ?_⟩
  cases s; cases n; kring

/-- **Vertices of the outline (stretch goal).** Bevel or miter joins, butt or square caps, `R2` any squared bound with
    `(w/2)² ≤ R2`, `2·(w/2)² ≤ R2` if a cap is square, `(w/2·miter_limit)² ≤ R2` if joins are mitered. Then the outline of a
    polyline consists of `MoveTo`/`LineTo`/`ClosePath` only and every vertex is within `R2` (squared distance) of a vertex of
    the source – or of the origin, which is the stroker's current point if the source does not start with `MoveTo`
    (`c04_polyline_outline_vertices_within_moveTo` drops the origin).
    NOT proved: the same for the points of the edges between the vertices; round joins and caps. -/
theorem c04_polyline_outline_vertices_within (els : List (PathEl K)) (style : StrokeStyle K) (tolerance : K)
    (hp : ∀ e ∈ els, c04_isPoly e = true) (R2 : K)
    (hjoin : style.join = 0 ∨ style.join = 1) (hsc : style.start_cap ≠ 2) (hec : style.end_cap ≠ 2)
    (hhalf : (style.width / 2) ^ 2 ≤ R2)
    (hsq : (style.start_cap ≠ 0 ∨ style.end_cap ≠ 0) → 2 * (style.width / 2) ^ 2 ≤ R2)
    (hmi : style.join = 1 → (style.width / 2 * style.miter_limit) ^ 2 ≤ R2) :
    ∃ out, strokeUndashed els style tolerance = .ok out ∧
      ∀ e ∈ out, e = .ClosePath ∨ ∃ q, (e = .MoveTo q ∨ e = .LineTo q) ∧
        ∃ p ∈ (⟨0, 0⟩ : Point K) :: els.filterMap PathEl.end_point, q.distance_squared p ≤ R2 := by
  obtain ⟨out, h, hw⟩ := c04_strokeUndashed_allW ⟨hjoin, hsc, hec, hhalf, hsq, hmi⟩ els tolerance hp
  exact ⟨out, h, fun e he => c04_elW_iff (hw e he)⟩
/-- width 2, miter joins with limit 4, square start cap, butt end cap: `R2 = 16` is a bound -/
example : let style : StrokeStyle Rat := ⟨2, 1, 4, 1, 0⟩
    (style.join = 0 ∨ style.join = 1) ∧ style.start_cap ≠ 2 ∧ style.end_cap ≠ 2 ∧ (style.width / 2) ^ 2 ≤ 16 ∧
    ((style.start_cap ≠ 0 ∨ style.end_cap ≠ 0) → 2 * (style.width / 2) ^ 2 ≤ 16) ∧
    (style.join = 1 → (style.width / 2 * style.miter_limit) ^ 2 ≤ 16) := by
  refine ⟨Or.inr rfl, by decide, by decide, by norm_num, fun _ => by norm_num, fun _ => by norm_num⟩

/-- the same for a source that starts with `MoveTo`: every vertex of the outline is near a vertex of the source -/
theorem c04_polyline_outline_vertices_within_moveTo (p0 : Point K) (rest : List (PathEl K)) (style : StrokeStyle K)
    (tolerance : K) (hp : ∀ e ∈ rest, c04_isPoly e = true) (R2 : K)
    (hjoin : style.join = 0 ∨ style.join = 1) (hsc : style.start_cap ≠ 2) (hec : style.end_cap ≠ 2)
    (hhalf : (style.width / 2) ^ 2 ≤ R2)
    (hsq : (style.start_cap ≠ 0 ∨ style.end_cap ≠ 0) → 2 * (style.width / 2) ^ 2 ≤ R2)
    (hmi : style.join = 1 → (style.width / 2 * style.miter_limit) ^ 2 ≤ R2) :
    ∃ out, strokeUndashed (.MoveTo p0 :: rest) style tolerance = .ok out ∧
      ∀ e ∈ out, e = .ClosePath ∨ ∃ q, (e = .MoveTo q ∨ e = .LineTo q) ∧
        ∃ p ∈ (PathEl.MoveTo p0 :: rest).filterMap PathEl.end_point, q.distance_squared p ≤ R2 := by
  obtain ⟨out, h, hw⟩ := c04_strokeUndashed_allW_moveTo ⟨hjoin, hsc, hec, hhalf, hsq, hmi⟩ p0 rest tolerance hp
  exact ⟨out, h, fun e he => c04_elW_iff (hw e he)⟩

/-- the style bound of C04, squared: `(w/2)² · (2 if a cap is square) · (miter_limit² if joins are mitered)` is such an `R2`
    (for a miter limit of at least 1, as SVG requires; the crate's default is 4) -/
theorem c04_style_bound (style : StrokeStyle K) (hlim : style.join = 1 → 1 ≤ style.miter_limit) :
    let R2 := (style.width / 2) ^ 2 * (if style.start_cap = 0 ∧ style.end_cap = 0 then 1 else 2) *
      (if style.join = 1 then style.miter_limit ^ 2 else 1)
    (style.width / 2) ^ 2 ≤ R2 ∧ ((style.start_cap ≠ 0 ∨ style.end_cap ≠ 0) → 2 * (style.width / 2) ^ 2 ≤ R2) ∧
    (style.join = 1 → (style.width / 2 * style.miter_limit) ^ 2 ≤ R2) := by
  intro R2
  have hr : 0 ≤ (style.width / 2) ^ 2 := sq_nonneg _
  have ha : (1 : K) ≤ (if style.start_cap = 0 ∧ style.end_cap = 0 then 1 else 2) := by split <;> norm_num
  have hb : (1 : K) ≤ (if style.join = 1 then style.miter_limit ^ 2 else 1) := by
    split
    · rename_i h1; have := hlim h1; nlinarith
    · exact le_refl _
  have hab : (style.width / 2) ^ 2 * 1 ≤ (style.width / 2) ^ 2 * (if style.start_cap = 0 ∧ style.end_cap = 0 then 1 else 2) :=
    mul_le_mul_of_nonneg_left ha hr
  have hpos : 0 ≤ (style.width / 2) ^ 2 * (if style.start_cap = 0 ∧ style.end_cap = 0 then (1 : K) else 2) := by
    linarith
  refine ⟨?_, ?_, ?_⟩
  · have := mul_le_mul_of_nonneg_left hb hpos
    simp only [R2]; linarith
  · intro hcap
    have h2 : (if style.start_cap = 0 ∧ style.end_cap = 0 then (1 : K) else 2) = 2 := by
      rw [if_neg]; intro h; rcases hcap with h' | h'
      · exact h' h.1
      · exact h' h.2
    have := mul_le_mul_of_nonneg_left hb hpos
    simp only [R2]; rw [h2] at this ⊢; linarith
  · intro h1
    simp only [R2, if_pos h1]
    have hm : 0 ≤ style.miter_limit ^ 2 := sq_nonneg _
    have := mul_le_mul_of_nonneg_right hab hm
    rw [mul_pow]; linarith
example : (⟨2, 1, 4, 1, 0⟩ : StrokeStyle Rat).join = 1 → (1 : Rat) ≤ (⟨2, 1, 4, 1, 0⟩ : StrokeStyle Rat).miter_limit := by
  intro _; norm_num

end geometry
end Kurbo
