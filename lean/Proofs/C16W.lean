import Proofs.C16
import Proofs.C16B
import Proofs.Lemmas.C16W
import Proofs.Lemmas.C16WSegs
import Proofs.Lemmas.C07Inst
/-! # C16W – `BezPath::write_to` / `to_svg` in the model, and the round trip through the model parser

`Kurbo/SvgWrite.lean` (model, Mathlib-free) transcribes svg.rs `write_to`: `svgWriteEl` = the `match *el { … write!(…) }`,
`svgWrite spell els` = the `enumerate` loop that writes one space in front of every element but the first.  The number printer
(`{}` = Rust's `Display for f64`) is the parameter `spell : K → List UInt8`.  The writer is tied to the crate by the correspondence
stratum `writer` of `gen/c16.py` (op `svg.write`: the model writer, handed the numerals of the crate's text, must write the crate's
bytes exactly; every numeral must be of the form `-?digits(.digits)?` and denote exactly its coordinate).

## Proved (arbitrary `[Scalar K]`, no arithmetic law used – verbatim for the `Float` instantiation)
1. `c16b_write_eq_svgWrite`: the proof-side format `c16b_write` of C16B (written "by reading the Rust source") IS the model writer:
   `c16b_write spell els = svgWrite (fun x => (spell x).bytes) els`.  Hence every theorem of C16B about `c16b_write` is a theorem
   about the model writer.  `svgWrite_eq_intercalate`: the written text is the elements joined by single spaces.
2. `svgWrite_parse`: the text written for a list that is empty or starts with `MoveTo` parses – no panic, no error – to the
   meaning of its `M L Q C Z` commands; `svgWrite_roundtrip`: **`fromSvgBytes (svgWrite spell els) = ok els`** if moreover every
   `ClosePath` is followed by a `MoveTo` or the end; `svgWrite_parse_count`: in general the result has one element per element
   plus one (the implicit `MoveTo`) per non-`MoveTo` element directly after a `ClosePath` – between `n` and `2n`;
   `svgWrite_parse_explicit`: the result is exactly `reparse first_pt false els` (that `MoveTo first_pt` inserted);
   **`svgWrite_same_segments`** (`[LawfulPeq K]`): `segs` of the result = `segs els` – the general "same segments" half of C16,
   which C16B only had as an element count.
   Hypothesis on the printer, only for the coordinates that occur: `SpellsNumber (spell x) x` – `spell x` is a number token of the
   grammar of `get_number` and `tokValue (parseTok (spell x)) = x`.
3. `svgWrite_roundtrip_display`: the same round trip with the hypothesis in the form the correspondence judge checks on every
   numeral of the crate's text: `IsDisplayNumeral (spell x)` (`-?digits(.digits)?`, what `Display for f64` prints for finite
   numbers: no exponent, no `+`, a digit in front of the period) and value `x`.  (`display_numeral_is_token`.)
4. `svgWrite_uninitialized`: a non-empty list that does NOT start with a `MoveTo` (it violates the invariant `BezPath::from_vec` /
   `push` debug-assert, but `Extend` / `truncate` can produce it) is written as a text the parser rejects with
   `UninitializedPath` – whatever the printer.
5. `svgWrite_congr`: the writer uses `spell` only on the coordinates that occur.

## NOT proved
* Nothing about Rust's `Display for f64` itself: that it prints a numeral of the form `-?digits(.digits)?` whose correctly rounded
  value is the number printed is exactly the hypothesis `IsDisplayNumeral (spell x) ∧ tokValue (parseTok (spell x)) = x`; it is
  checked numeral by numeral in the correspondence runs (it fails, as it must, for NaN / ±inf: `NaN`, `inf` are not numerals).
* "Same SEGMENTS" (`svgWrite_same_segments`) is proved for scalars with a lawful point equality (`LawfulPeq`, e.g. `Rat`, every
  `LawfulScalar`), NOT for `Float`, where it is false in the letter: after `M0,0 L-0,-0 Z L1,1` the crate's next segment starts at
  `(-0,-0)`, after the round trip (implicit `MoveTo(0,0)` inserted) at `(0,0)` – equal as `f64` values (`==`), not as bit patterns
  (the correspondence judge compares segments with `-0 == +0`).
* `write_to` to a writer that can fail (`io::Error` propagation by `?`) is not modelled: the model writes into a byte list.
-/
set_option linter.unusedSectionVars false
namespace Kurbo
variable {K : Type} [Scalar K]

/-! ## 1. The format of C16B is the model writer -/

/-- the format `c16b_write` (defined in the proof tree for C16B) coincides with the model writer `svgWrite` -/
theorem c16b_write_eq_svgWrite (spell : K → NumParts) (els : List (PathEl K)) :
    c16b_write spell els = svgWrite (fun x => (spell x).bytes) els :=
  c16b_write_eq_svgWrite_aux spell els

/-- the loop of `write_to` = the elements joined by single spaces -/
theorem svgWrite_eq_intercalate' (spell : K → List UInt8) (els : List (PathEl K)) :
    svgWrite spell els = [32].intercalate (els.map (svgWriteEl spell)) :=
  svgWrite_eq_intercalate spell els

/-- the writer uses the printer only on the coordinates that occur -/
theorem svgWrite_congr' (f g : K → List UInt8) (els : List (PathEl K)) (h : ∀ e ∈ els, ∀ x ∈ e.coords, f x = g x) :
    svgWrite f els = svgWrite g els :=
  svgWrite_congr f g els h

/-- C16B's `parse_write_format_roundtrip`, read as a statement about the model writer (printer with values in `NumParts`) -/
theorem svgWrite_roundtrip_parts (spell : K → NumParts) (els : List (PathEl K)) (hm : StartsWithMoveTo els)
    (hcm : CloseThenMoveTo els)
    (hspell : ∀ e ∈ els, ∀ x ∈ e.coords, (spell x).Valid ∧ tokValue (parseTok (spell x).bytes) = x) :
    fromSvgBytes (K := K) ⟨(svgWrite (fun x => (spell x).bytes) els).toArray⟩ = .ok els := by
  rw [← c16b_write_eq_svgWrite]
  exact parse_write_format_roundtrip spell els ((c16w_startsWithMove els).2 hm) ((c16w_closeThenMove els).2 hcm)
    (fun e he x hx => hspell e he x (by rwa [c16w_coords] at hx))

example : StartsWithMoveTo c16b_exEls ∧ CloseThenMoveTo c16b_exEls ∧
    (∀ e ∈ c16b_exEls, ∀ x ∈ e.coords, (c16b_exSpell x).Valid ∧ tokValue (parseTok (c16b_exSpell x).bytes) = x) :=
  ⟨by decide, by decide, by decide +kernel⟩

/-! ## 2. Write, then parse -/

/-- the text written for a list that is empty or starts with `MoveTo` parses to the meaning of its commands `M L Q C Z` -/
theorem svgWrite_parse (spell : K → List UInt8) (els : List (PathEl K)) (hm : StartsWithMoveTo els)
    (hspell : ∀ e ∈ els, ∀ x ∈ e.coords, SpellsNumber (spell x) x) :
    fromSvgBytes (K := K) ⟨(svgWrite spell els).toArray⟩ = .ok (c16b_run svgInit (els.map c16b_ofEl)).path := by
  obtain ⟨hw, hp⟩ := c16w_to_c16b spell els hspell
  rw [hw]
  exact parse_write_format _ els ((c16w_startsWithMove els).2 hm) hp

/-- **write → parse round trip of the model**: an element list that starts with a `MoveTo` (or is empty) and in which every
    `ClosePath` is followed by a `MoveTo` or the end is read back identically from the bytes `svgWrite` writes, provided the
    printer writes, for every coordinate `x` that occurs, a number token whose parsed value is `x` -/
theorem svgWrite_roundtrip (spell : K → List UInt8) (els : List (PathEl K)) (hm : StartsWithMoveTo els)
    (hcm : CloseThenMoveTo els) (hspell : ∀ e ∈ els, ∀ x ∈ e.coords, SpellsNumber (spell x) x) :
    fromSvgBytes (K := K) ⟨(svgWrite spell els).toArray⟩ = .ok els := by
  obtain ⟨hw, hp⟩ := c16w_to_c16b spell els hspell
  rw [hw]
  exact parse_write_format_roundtrip _ els ((c16w_startsWithMove els).2 hm) ((c16w_closeThenMove els).2 hcm) hp

/-- without the condition on `ClosePath`: one extra element (the implicit `MoveTo`) per non-`MoveTo` element directly after a
    `ClosePath`; so between `n` and `2n` elements, and `n` under the condition -/
theorem svgWrite_parse_count (spell : K → List UInt8) (els : List (PathEl K)) (hm : StartsWithMoveTo els)
    (hspell : ∀ e ∈ els, ∀ x ∈ e.coords, SpellsNumber (spell x) x) :
    ∃ els', fromSvgBytes (K := K) ⟨(svgWrite spell els).toArray⟩ = .ok els' ∧
      els'.length = reparsedCount false els ∧ els.length ≤ els'.length ∧ els'.length ≤ 2 * els.length := by
  obtain ⟨hw, hp⟩ := c16w_to_c16b spell els hspell
  obtain ⟨els', h1, h2⟩ := parse_write_format_count _ els ((c16w_startsWithMove els).2 hm) hp
  rw [c16w_elemCount] at h2
  have hb := c16b_elemCount_bounds false (els.map c16b_ofEl)
  rw [c16w_elemCount, List.length_map] at hb
  exact ⟨els', by rw [hw]; exact h1, h2, by omega, by omega⟩

/-- the result of parsing the written text, explicitly: `reparse` = the list with a `MoveTo first_pt` inserted in front of every
    non-`MoveTo` element that directly follows a `ClosePath` -/
theorem svgWrite_parse_explicit (spell : K → List UInt8) (els : List (PathEl K)) (hm : StartsWithMoveTo els)
    (hspell : ∀ e ∈ els, ∀ x ∈ e.coords, SpellsNumber (spell x) x) :
    fromSvgBytes (K := K) ⟨(svgWrite spell els).toArray⟩ = .ok (reparse (svgInit (K := K)).first_pt false els) := by
  rw [svgWrite_parse spell els hm hspell, c16w_run_reparse els svgInit false rfl]
  simp [svgInit]

/-- **write → parse keeps the SEGMENTS** of every element list that starts with a `MoveTo`, whatever follows a `ClosePath`
    (scalars with a lawful point equality, e.g. every `LawfulScalar`; for `Float` this is false in the letter: `0.0 == -0.0`) -/
theorem svgWrite_same_segments [LawfulPeq K] (spell : K → List UInt8) (els : List (PathEl K)) (hm : StartsWithMoveTo els)
    (hspell : ∀ e ∈ els, ∀ x ∈ e.coords, SpellsNumber (spell x) x) :
    ∃ els', fromSvgBytes (K := K) ⟨(svgWrite spell els).toArray⟩ = .ok els' ∧ segs els' = segs els := by
  refine ⟨_, svgWrite_parse_explicit spell els hm hspell, ?_⟩
  cases els with
  | nil => rfl
  | cons e tl =>
    cases e with
    | MoveTo p => simp only [reparse]; rw [segs_moveTo, segs_moveTo, segsT_reparse tl p p false (by intro h; cases h)]
    | _ => cases hm

/-- the hypothesis `LawfulPeq` holds for `Rat` (`Proofs/Lemmas/C07Inst.lean`); a concrete list: end of section 3 -/
example : LawfulPeq Rat := inferInstance

/-! ## 3. The hypothesis on the printer in the form the correspondence judge checks -/

/-- a numeral of the form `-?digits(.digits)?` is a number token of the parser's grammar -/
theorem display_numeral_is_token {bs : List UInt8} (h : IsDisplayNumeral bs) : ∃ p : NumParts, p.Valid ∧ p.bytes = bs :=
  h.parts

/-- the round trip with the hypothesis as checked per numeral by the stratum `writer`: every coordinate is printed as
    `-?digits(.digits)?` and that numeral denotes the coordinate -/
theorem svgWrite_roundtrip_display (spell : K → List UInt8) (els : List (PathEl K)) (hm : StartsWithMoveTo els)
    (hcm : CloseThenMoveTo els)
    (hspell : ∀ e ∈ els, ∀ x ∈ e.coords, IsDisplayNumeral (spell x) ∧ tokValue (parseTok (spell x)) = x) :
    fromSvgBytes (K := K) ⟨(svgWrite spell els).toArray⟩ = .ok els :=
  svgWrite_roundtrip spell els hm hcm (fun e he x hx => ⟨(hspell e he x hx).1.parts, (hspell e he x hx).2⟩)

/-- a printer for the examples: the integers `-9 … 9` as one digit with `-` for the negative ones, the halves `n + 1/2` as `n.5` -/
def c16w_exSpell (x : Rat) : List UInt8 :=
  (if x < 0 then [45] else []) ++ [48 + x.num.natAbs.toUInt8 / x.den.toUInt8] ++ (if x.den = 1 then [] else [46, 53])

/-- `M1,2 L3.5,-4 Z Z L5,6 Q0,-0.5 7,8` – starts with `MoveTo`, but `ClosePath` is followed by `ClosePath` and by `LineTo` -/
def c16w_exEls : List (PathEl Rat) :=
  [.MoveTo ⟨1, 2⟩, .LineTo ⟨7/2, -4⟩, .ClosePath, .ClosePath, .LineTo ⟨5, 6⟩, .QuadTo ⟨0, -1/2⟩ ⟨7, 8⟩]

/-- the hypotheses of `svgWrite_roundtrip_display` on a concrete list (with a fraction and negative numbers); what is written -/
example :
    let els : List (PathEl Rat) := [.MoveTo ⟨1, 2⟩, .LineTo ⟨7/2, -4⟩, .ClosePath, .MoveTo ⟨0, -1/2⟩, .CurveTo ⟨1, 2⟩ ⟨3, 4⟩ ⟨5, 6⟩]
    StartsWithMoveTo els ∧ CloseThenMoveTo els ∧
    (∀ e ∈ els, ∀ x ∈ e.coords, tokValue (K := Rat) (parseTok (c16w_exSpell x)) = x) ∧
    (⟨(svgWrite c16w_exSpell els).toArray⟩ : ByteArray) = "M1,2 L3.5,-4 Z M0,-0.5 C1,2 3,4 5,6".toUTF8 ∧
    fromSvgBytes (K := Rat) ⟨(svgWrite c16w_exSpell els).toArray⟩ = .ok els :=
  ⟨by decide, by decide, by decide +kernel, by decide +kernel, by decide +kernel⟩

/-- `IsDisplayNumeral` on concrete numerals: `-3.5`, `0`; not `+1`, `1e5`, `.5`, `inf` -/
example : IsDisplayNumeral [45, 51, 46, 53] ∧ IsDisplayNumeral [48] :=
  ⟨⟨true, [51], [53], by decide, by decide, by decide, by decide⟩, ⟨false, [48], [], by decide, by decide, by decide, by decide⟩⟩

/-- `ClosePath` followed by `ClosePath` / `LineTo`: 6 elements are read back as 8 (`svgWrite_parse_count`), by direct evaluation -/
example : (⟨(svgWrite c16w_exSpell c16w_exEls).toArray⟩ : ByteArray) = "M1,2 L3.5,-4 Z Z L5,6 Q0,-0.5 7,8".toUTF8 ∧
    reparsedCount false c16w_exEls = 8 ∧ ¬ CloseThenMoveTo c16w_exEls ∧
    fromSvgBytes (K := Rat) ⟨(svgWrite c16w_exSpell c16w_exEls).toArray⟩ =
      .ok [.MoveTo ⟨1, 2⟩, .LineTo ⟨7/2, -4⟩, .ClosePath, .MoveTo ⟨1, 2⟩, .ClosePath, .MoveTo ⟨1, 2⟩, .LineTo ⟨5, 6⟩,
           .QuadTo ⟨0, -1/2⟩ ⟨7, 8⟩] :=
  ⟨by decide +kernel, by decide, by decide, by decide +kernel⟩

/-- … `reparse` on that list, and the segments (by evaluation): the same 4 segments before and after -/
example : reparse (svgInit (K := Rat)).first_pt false c16w_exEls =
      [.MoveTo ⟨1, 2⟩, .LineTo ⟨7/2, -4⟩, .ClosePath, .MoveTo ⟨1, 2⟩, .ClosePath, .MoveTo ⟨1, 2⟩, .LineTo ⟨5, 6⟩, .QuadTo ⟨0, -1/2⟩ ⟨7, 8⟩] ∧
    segs (reparse (svgInit (K := Rat)).first_pt false c16w_exEls) = segs c16w_exEls ∧
    (segs c16w_exEls).map List.length = some 4 ∧
    StartsWithMoveTo c16w_exEls ∧ (∀ e ∈ c16w_exEls, ∀ x ∈ e.coords, tokValue (K := Rat) (parseTok (c16w_exSpell x)) = x) :=
  ⟨by decide +kernel, by decide +kernel, by decide +kernel, by decide, by decide +kernel⟩

/-! ## 4. Lists that do not start with a `MoveTo` -/

/-- a non-empty element list that does not start with a `MoveTo` is written as a text `from_svg` rejects with
    `UninitializedPath` (for every printer): such a list never round-trips -/
theorem svgWrite_uninitialized (spell : K → List UInt8) (e : PathEl K) (es : List (PathEl K)) (h : e.isMove = false) :
    fromSvgBytes (K := K) ⟨(svgWrite spell (e :: es)).toArray⟩ = .err .uninitializedPath := by
  obtain ⟨r, hr⟩ := svgWrite_head spell e es
  cases e with
  | MoveTo p => cases h
  | LineTo p =>
    exact parse_errors_uninitialized _ 76 _ (c16w_first_byte _ 76 r (by simpa using hr) (by decide)) (by decide) (by decide) (by decide)
  | QuadTo p1 p2 =>
    exact parse_errors_uninitialized _ 81 _ (c16w_first_byte _ 81 r (by simpa using hr) (by decide)) (by decide) (by decide) (by decide)
  | CurveTo p1 p2 p3 =>
    exact parse_errors_uninitialized _ 67 _ (c16w_first_byte _ 67 r (by simpa using hr) (by decide)) (by decide) (by decide) (by decide)
  | ClosePath =>
    exact parse_errors_uninitialized _ 90 _ (c16w_first_byte _ 90 r (by simpa using hr) (by decide)) (by decide) (by decide) (by decide)

example : fromSvgBytes (K := Rat) ⟨(svgWrite c16w_exSpell [.LineTo ⟨1, 2⟩, .MoveTo ⟨3, 4⟩]).toArray⟩ = .err .uninitializedPath := by
  decide +kernel

end Kurbo
