import Proofs.KDefs
import Proofs.Lemmas.Calc
import Proofs.Lemmas.C02
/-! C02 – signed area.

    "For every closed path the reported area equals the signed area it encloses (the integral of the winding
    number over the plane), positive for contours that turn from +x towards +y.  It is additive over sub-paths,
    negated by reversing sub-paths, multiplied by the determinant under an affine map, and unchanged when
    segments are split, degree-raised or re-expressed (line as quadratic/cubic)."

    What is proved (about the model functions `Line/QuadBez/CubicBez/PathSeg.signed_area` of `Kurbo/Kernel.lean`
    and `segs`, `pathArea` of `Kurbo/Path.lean`, exactly as they are):

    A. (ℝ) each of the three closed forms is the Green line integral `½∫₀¹ (x·y′ − y·x′) dt` of the segment's own
       `eval`, with `y′, x′` the segment's own `deriv` (for `Line`, which has no `deriv` in the kernel, the constant
       velocity `p1 − p0`, shown to be the derivative of `Line.eval` in `line_eval_hasDerivAt`).
    B. (any lawful scalar, polynomial identities) reversal negates; `raise`, `to_cubic`, line-as-quadratic keep the
       area; the area is additive over any split of the parameter range (no ordering of `t0 t1 t2` assumed);
       affine law for a single (open) segment with the explicit end-point correction that telescopes.
    C. (any lawful scalar, path level) `pathArea` is the sum of the segment areas; additivity over sub-paths
       (`c02_segs_append`, `area_append`, including propagation of the iterator's panic); for chains of segments:
       determinant law with end-point correction, determinant law for closed chains, negation under reversal;
       for element lists made of closed sub-paths (`ClosedPath`: each sub-path is `MoveTo p, body…, ClosePath` or
       `MoveTo p, body…` with the body returning to `p`; body = `LineTo/QuadTo/CurveTo` only):
       `pathArea (A·els) = det A · pathArea els` for EVERY affine `A` (also singular ones, where the closing line
       of `ClosePath` may disappear in the image), and invariance under translation.
       Element-level reversal: for a SINGLE sub-path (`MoveTo p, body…, ClosePath` or `MoveTo p, body…`, open or
       not) `reverseSubpaths` does not panic, the segments of its result are the reversed chain (for the closed
       form: rotated so that the reversed closing line comes last), and `pathArea` is negated.
       Orientation: the area of a triangle path is `½·(b−a)×(c−a)`, positive when it turns from +x towards +y.

    What is NOT proved:
    * "= ∬ winding number dA" (Green's theorem proper for piecewise polynomial loops).  Part A identifies the closed
      forms with the line integral `½∮(x dy − y dx)`; that this line integral equals the integral of the winding
      number over the plane is cited mathematics and is not formalised here.
    * Element-level reversal (`reverseSubpaths`) is proved for element lists consisting of ONE sub-path only; for
      lists with several sub-paths only the chain-level statement `chain_area_reverse` (and `area_append`) is
      available – no theorem here describes `reverseSubpaths` across `MoveTo` boundaries (two `Rat` examples at the
      end of the file evaluate it on a two-sub-path list).
    * The determinant law at path level is for lists of *closed* sub-paths as described above; for open sub-paths
      the correction term of `chain_area_affine` remains (it is not zero in general).
    * Everything is about exact (lawful) scalars; nothing is claimed about `Float` rounding, except the purely
      structural `c02_segs_append`, `chain_reverse_isChain`, which hold for every `Scalar`.
    Helper lemmas: `Proofs/Lemmas/C02.lean`. -/
set_option linter.unusedSectionVars false

/-! ## A. Green integral (ℝ) -/
namespace Kurbo
section real
variable [Scalar ℝ] [LawfulScalar ℝ]

theorem cubic_signedArea_eq_green (c : CubicBez ℝ) :
    c.signed_area = (1 / 2) * ∫ t in (0:ℝ)..1,
      ((c.eval t).x * (c.deriv.eval t).y - (c.eval t).y * (c.deriv.eval t).x) := by
  rw [integral_green_of_poly _
    c.p0.x (3 * (c.p1.x - c.p0.x)) (3 * (c.p2.x - 2 * c.p1.x + c.p0.x)) (c.p3.x - 3 * c.p2.x + 3 * c.p1.x - c.p0.x)
    c.p0.y (3 * (c.p1.y - c.p0.y)) (3 * (c.p2.y - 2 * c.p1.y + c.p0.y)) (c.p3.y - 3 * c.p2.y + 3 * c.p1.y - c.p0.y)
    (fun t => by kring)]
  kring

theorem quad_signedArea_eq_green (q : QuadBez ℝ) :
    q.signed_area = (1 / 2) * ∫ t in (0:ℝ)..1,
      ((q.eval t).x * (q.deriv.eval t).y - (q.eval t).y * (q.deriv.eval t).x) := by
  rw [integral_green_of_poly _
    q.p0.x (2 * (q.p1.x - q.p0.x)) (q.p2.x - 2 * q.p1.x + q.p0.x) 0
    q.p0.y (2 * (q.p1.y - q.p0.y)) (q.p2.y - 2 * q.p1.y + q.p0.y) 0
    (fun t => by kring)]
  kring

/-- `Line` has no `deriv` in the kernel; its velocity is the constant `p1 − p0` (next theorem) -/
theorem line_signedArea_eq_green (l : Line ℝ) :
    l.signed_area = (1 / 2) * ∫ t in (0:ℝ)..1,
      ((l.eval t).x * (l.p1.y - l.p0.y) - (l.eval t).y * (l.p1.x - l.p0.x)) := by
  rw [integral_green_of_poly _
    l.p0.x (l.p1.x - l.p0.x) 0 0
    l.p0.y (l.p1.y - l.p0.y) 0 0
    (fun t => by kring)]
  kring

theorem line_eval_hasDerivAt (l : Line ℝ) (t : ℝ) :
    HasDerivAt (fun t => (l.eval t).x) (l.p1.x - l.p0.x) t ∧
    HasDerivAt (fun t => (l.eval t).y) (l.p1.y - l.p0.y) t := by
  constructor
  · have h := hasDerivAt_poly3 l.p0.x (l.p1.x - l.p0.x) 0 0 t
    have e1 : (fun t => (l.eval t).x) = fun x : ℝ => l.p0.x + (l.p1.x - l.p0.x) * x + 0 * x ^ 2 + 0 * x ^ 3 := by
      funext x; kring
    rw [e1]; convert h using 1; ring
  · have h := hasDerivAt_poly3 l.p0.y (l.p1.y - l.p0.y) 0 0 t
    have e1 : (fun t => (l.eval t).y) = fun x : ℝ => l.p0.y + (l.p1.y - l.p0.y) * x + 0 * x ^ 2 + 0 * x ^ 3 := by
      funext x; kring
    rw [e1]; convert h using 1; ring

end real
end Kurbo

/-! ## B. Segment level (any lawful scalar) -/
namespace Kurbo
variable {K : Type} [Field K] [LinearOrder K] [IsStrictOrderedRing K] [FloorRing K] [Scalar K] [LawfulScalar K]

/-! ### the closed forms as plain polynomials (what the model computes) -/

theorem line_signedArea_formula (l : Line K) :
    l.signed_area = (l.p0.x * l.p1.y - l.p0.y * l.p1.x) / 2 := by kring

/-! ### reversal negates -/

theorem signedArea_reverse (s : PathSeg K) : s.reverse.signed_area = - s.signed_area := by
  cases s with
  | Line l => cases l; simp only [PathSeg.reverse, PathSeg.signed_area]; kring
  | Quad q => simp only [PathSeg.reverse, PathSeg.signed_area]; kring
  | Cubic c => simp only [PathSeg.reverse, PathSeg.signed_area]; kring

theorem line_reversed_signedArea (l : Line K) : l.reversed.signed_area = - l.signed_area := by kring

/-! ### degree raising and re-expression keep the area -/

theorem signedArea_raise (q : QuadBez K) : q.raise.signed_area = q.signed_area := by kring

theorem signedArea_line_as_cubic (l : Line K) : (PathSeg.Line l).to_cubic.signed_area = l.signed_area := by
  cases l; simp only [PathSeg.to_cubic]; kring

/-- `to_cubic` keeps the area of every kind of segment -/
theorem signedArea_toCubic (s : PathSeg K) : s.to_cubic.signed_area = s.signed_area := by
  cases s with
  | Line l => exact signedArea_line_as_cubic l
  | Quad q => exact signedArea_raise q
  | Cubic c => rfl

/-- a line written as the quadratic with the midpoint as control point -/
theorem signedArea_line_as_quad (l : Line K) :
    (QuadBez.mk l.p0 l.midpoint l.p1).signed_area = l.signed_area := by kring

/-- … and with ANY control point on the (infinite) line, `p0 + s·(p1 − p0)`, also outside `[0,1]` -/
theorem signedArea_line_as_quad_any (l : Line K) (s : K) :
    (QuadBez.mk l.p0 (l.eval s) l.p1).signed_area = l.signed_area := by kring

/-- a line written as a cubic with ANY two control points on the line -/
theorem signedArea_line_as_cubic_any (l : Line K) (s u : K) :
    (CubicBez.mk l.p0 (l.eval s) (l.eval u) l.p1).signed_area = l.signed_area := by kring

/-! ### splitting the parameter range: additive, no correction term, no ordering assumption -/

theorem line_signedArea_split (l : Line K) (t0 t1 t2 : K) :
    (l.subsegment ⟨t0, t1⟩).signed_area + (l.subsegment ⟨t1, t2⟩).signed_area
      = (l.subsegment ⟨t0, t2⟩).signed_area := by kring
theorem quad_signedArea_split (q : QuadBez K) (t0 t1 t2 : K) :
    (q.subsegment ⟨t0, t1⟩).signed_area + (q.subsegment ⟨t1, t2⟩).signed_area
      = (q.subsegment ⟨t0, t2⟩).signed_area := by kring
theorem cubic_signedArea_split (c : CubicBez K) (t0 t1 t2 : K) :
    (c.subsegment ⟨t0, t1⟩).signed_area + (c.subsegment ⟨t1, t2⟩).signed_area
      = (c.subsegment ⟨t0, t2⟩).signed_area := by kring

theorem signedArea_split (s : PathSeg K) (t0 t1 t2 : K) :
    (s.subsegment ⟨t0, t1⟩).signed_area + (s.subsegment ⟨t1, t2⟩).signed_area
      = (s.subsegment ⟨t0, t2⟩).signed_area := by
  cases s with
  | Line l => exact line_signedArea_split l t0 t1 t2
  | Quad q => exact quad_signedArea_split q t0 t1 t2
  | Cubic c => exact cubic_signedArea_split c t0 t1 t2

/-- the whole range gives the whole area -/
theorem signedArea_subsegment_full (s : PathSeg K) : (s.subsegment ⟨0, 1⟩).signed_area = s.signed_area := by
  cases s with
  | Line l => simp only [PathSeg.subsegment, PathSeg.signed_area]; kring
  | Quad q => simp only [PathSeg.subsegment, PathSeg.signed_area]; kring
  | Cubic c => simp only [PathSeg.subsegment, PathSeg.signed_area]; kring

/-- splitting a segment at any `t` (also outside `[0,1]`) into its two parts -/
theorem signedArea_split_at (s : PathSeg K) (t : K) :
    (s.subsegment ⟨0, t⟩).signed_area + (s.subsegment ⟨t, 1⟩).signed_area = s.signed_area := by
  rw [signedArea_split, signedArea_subsegment_full]

/-- `subdivide` (split at one half) keeps the total area -/
theorem cubic_signedArea_subdivide (c : CubicBez K) :
    c.subdivide.1.signed_area + c.subdivide.2.signed_area = c.signed_area := by kring
theorem quad_signedArea_subdivide (q : QuadBez K) :
    q.subdivide.1.signed_area + q.subdivide.2.signed_area = q.signed_area := by kring

/-! ### affine maps: determinant times the area, plus a term that depends only on the end points -/

/-- With `A = [a b c d e f]` (`x′ = a·x + c·y + e`, `y′ = b·x + d·y + f`):
    `area(A·s) = det A · area s + ½·(e·Δy′ − f·Δx′)` where `Δ′ = A·end − A·start`.
    The correction telescopes along a chain and vanishes on a closed one (part C). -/
theorem signedArea_affine (A : Affine K) (s : PathSeg K) :
    (A * s).signed_area = A.determinant * s.signed_area
      + (1 / 2) * (A.c4 * ((A * s.end).y - (A * s.start).y) - A.c5 * ((A * s.end).x - (A * s.start).x)) :=
  pathSeg_signedArea_affine A s

theorem line_signedArea_affine (A : Affine K) (l : Line K) :
    (A * l).signed_area = A.determinant * l.signed_area
      + (1 / 2) * (A.c4 * ((A * l.p1).y - (A * l.p0).y) - A.c5 * ((A * l.p1).x - (A * l.p0).x)) := by aff_ring
theorem quad_signedArea_affine (A : Affine K) (q : QuadBez K) :
    (A * q).signed_area = A.determinant * q.signed_area
      + (1 / 2) * (A.c4 * ((A * q.p2).y - (A * q.p0).y) - A.c5 * ((A * q.p2).x - (A * q.p0).x)) := by aff_ring
theorem cubic_signedArea_affine (A : Affine K) (c : CubicBez K) :
    (A * c).signed_area = A.determinant * c.signed_area
      + (1 / 2) * (A.c4 * ((A * c.p3).y - (A * c.p0).y) - A.c5 * ((A * c.p3).x - (A * c.p0).x)) := by aff_ring

/-- the same correction in terms of the original end points: `½ · (translation × linear part (end − start))` -/
theorem signedArea_affine' (A : Affine K) (s : PathSeg K) :
    (A * s).signed_area = A.determinant * s.signed_area
      + (1 / 2) * (A.c4 * (A.c1 * (s.end.x - s.start.x) + A.c3 * (s.end.y - s.start.y))
                 - A.c5 * (A.c0 * (s.end.x - s.start.x) + A.c2 * (s.end.y - s.start.y))) := by
  cases s <;> aff_ring

/-- linear maps (no translation): exactly the determinant, for every single segment -/
theorem signedArea_linear (A : Affine K) (h4 : A.c4 = 0) (h5 : A.c5 = 0) (s : PathSeg K) :
    (A * s).signed_area = A.determinant * s.signed_area := by
  rw [signedArea_affine, h4, h5]; ring

/-- a segment that starts and ends in the same point (a closed chain of one) : exactly the determinant -/
theorem signedArea_affine_loop (A : Affine K) (s : PathSeg K) (h : s.end = s.start) :
    (A * s).signed_area = A.determinant * s.signed_area := by
  rw [signedArea_affine, h]; ring

/-- translation of a single (open) segment -/
theorem signedArea_translate (v : Vec2 K) (s : PathSeg K) :
    (Affine.translate v * s).signed_area
      = s.signed_area + (1 / 2) * (v.x * (s.end.y - s.start.y) - v.y * (s.end.x - s.start.x)) := by
  cases s <;> aff_ring

theorem determinant_mul (A B : Affine K) : (A * B).determinant = A.determinant * B.determinant := by aff_ring
theorem determinant_translate (v : Vec2 K) : (Affine.translate v).determinant = 1 := by aff_ring

end Kurbo

/-! ## C. Path level (any lawful scalar) -/
namespace Kurbo
variable {K : Type} [Field K] [LinearOrder K] [IsStrictOrderedRing K] [FloorRing K] [Scalar K] [LawfulScalar K]

/-- `Segments::area` folds from `0` on the left; in a field that is the sum of the segment areas -/
theorem pathArea_eq_sum (els : List (PathEl K)) :
    pathArea els = (segs els).map (fun ss => (ss.map PathSeg.signed_area).sum) :=
  pathArea_eq_areaSum els

/-! ### additivity over sub-paths -/

/-- a `MoveTo` resets the iterator: the segments of `els₁ ++ MoveTo p :: r` are those of `els₁` followed by those
    of `MoveTo p :: r`; the whole panics iff one of the parts does (holds for every `Scalar`, also `Float`) -/
theorem c02_segs_append {K' : Type} [Scalar K'] (els₁ r : List (PathEl K')) (p : Point K') :
    segs (els₁ ++ .MoveTo p :: r)
      = (segs els₁).bind fun ss₁ => (segs (.MoveTo p :: r)).map (ss₁ ++ ·) := by
  simp only [segs_eq_segsFrom]
  exact segsFrom_append_bind (fun st => segsFrom_moveTo_any st p r) els₁ none

theorem area_append (els₁ r : List (PathEl K)) (p : Point K) :
    pathArea (els₁ ++ .MoveTo p :: r)
      = (pathArea els₁).bind fun a₁ => (pathArea (.MoveTo p :: r)).map (a₁ + ·) := by
  simp only [pathArea_eq_areaSum, c02_segs_append]
  cases segs els₁ with
  | none => rfl
  | some ss₁ =>
    cases segs (.MoveTo p :: r) with
    | none => rfl
    | some ss₂ => simp [areaSum_append]

/-- the form with both parts well-formed -/
theorem area_append_some (els₁ els₂ : List (PathEl K)) (p : Point K) (r : List (PathEl K))
    (h : els₂ = .MoveTo p :: r) (ss₁ ss₂ : List (PathSeg K)) (a₁ a₂ : K)
    (h1 : segs els₁ = some ss₁) (h2 : segs els₂ = some ss₂)
    (ha1 : pathArea els₁ = some a₁) (ha2 : pathArea els₂ = some a₂) :
    segs (els₁ ++ els₂) = some (ss₁ ++ ss₂) ∧ pathArea (els₁ ++ els₂) = some (a₁ + a₂) := by
  subst h
  constructor
  · rw [c02_segs_append, h1, h2]; rfl
  · rw [area_append, ha1, ha2]; rfl

/-! ### chains of segments -/

/-- determinant law along a chain from `p` to `q`: the single-segment corrections telescope -/
theorem chain_area_affine (A : Affine K) (p q : Point K) (ss : List (PathSeg K)) (h : SegChain p ss q) :
    ((ss.map (fun s : PathSeg K => A * s)).map PathSeg.signed_area).sum
      = A.determinant * (ss.map PathSeg.signed_area).sum
        + (1 / 2) * (A.c4 * ((A * q).y - (A * p).y) - A.c5 * ((A * q).x - (A * p).x)) :=
  chain_areaSum_affine A h

/-- closed chain: exactly the determinant (any `A`, singular or not) -/
theorem chain_area_affine_closed (A : Affine K) (p : Point K) (ss : List (PathSeg K)) (h : SegChain p ss p) :
    ((ss.map (fun s : PathSeg K => A * s)).map PathSeg.signed_area).sum
      = A.determinant * (ss.map PathSeg.signed_area).sum := by
  rw [chain_area_affine A p p ss h]; ring

/-- translating a closed chain does not change its area -/
theorem chain_area_translate_closed (v : Vec2 K) (p : Point K) (ss : List (PathSeg K)) (h : SegChain p ss p) :
    ((ss.map (fun s : PathSeg K => Affine.translate v * s)).map PathSeg.signed_area).sum
      = (ss.map PathSeg.signed_area).sum := by
  rw [chain_area_affine_closed _ p ss h, determinant_translate, one_mul]

/-- reversing a chain (reverse the order, reverse each segment) gives a chain from `q` back to `p` with the
    negated area.  (The area statement needs no chain hypothesis.) -/
theorem chain_area_reverse (ss : List (PathSeg K)) :
    ((ss.reverse.map PathSeg.reverse).map PathSeg.signed_area).sum = - (ss.map PathSeg.signed_area).sum :=
  areaSum_reverse ss signedArea_reverse

theorem chain_reverse_isChain {K' : Type} [Scalar K'] (p q : Point K') (ss : List (PathSeg K'))
    (h : SegChain p ss q) : SegChain q (ss.reverse.map PathSeg.reverse) p :=
  segChain_reverse h

/-! ### closed sub-paths -/

/-- the segments of one explicitly closed sub-path: the body's segments and, when the body does not end at the
    start point, the closing line; they form a closed chain from `p` to `p` -/
theorem segs_closed_subpath (p : Point K) (body : List (PathEl K)) (hb : IsBody body) :
    segs (.MoveTo p :: body ++ [PathEl.ClosePath])
        = some (bodySegs p body ++ (if bodyEnd p body = p then [] else [.Line ⟨bodyEnd p body, p⟩])) ∧
    SegChain p (bodySegs p body ++ (if bodyEnd p body = p then [] else [.Line ⟨bodyEnd p body, p⟩])) p := by
  have e : (if bodyEnd p body = p then [] else [PathSeg.Line ⟨bodyEnd p body, p⟩])
      = closeSegs (bodyEnd p body) p := by
    unfold closeSegs
    by_cases h : bodyEnd p body = p
    · rw [if_pos h, if_pos ((c02_peq_iff _ _).mpr h)]
    · rw [if_neg h, if_neg (fun h' => h ((c02_peq_iff _ _).mp h'))]
  rw [e, segs_eq_segsFrom, segsFrom_closed_subpath none p body hb]
  exact ⟨rfl, segChain_append (segChain_bodySegs body p hb) (segChain_closeSegs _ _)⟩

/-- one closed sub-path under ANY affine map: the area is multiplied by the determinant -/
theorem area_affine_closed (A : Affine K) (p : Point K) (body : List (PathEl K)) (hb : IsBody body) :
    ∃ a : K, pathArea (.MoveTo p :: body ++ [PathEl.ClosePath]) = some a ∧
      pathArea ((PathEl.MoveTo p :: body ++ [PathEl.ClosePath]).map (fun e : PathEl K => A * e))
        = some (A.determinant * a) := by
  refine ⟨areaSum (bodySegs p body ++ closeSegs (bodyEnd p body) p), ?_, ?_⟩
  · rw [pathArea_eq_areaSum, segs_eq_segsFrom, segsFrom_closed_subpath none p body hb]; rfl
  · have hm : (PathEl.MoveTo p :: body ++ [PathEl.ClosePath]).map (fun e : PathEl K => A * e)
        = PathEl.MoveTo (A * p) :: body.map (fun e : PathEl K => A * e) ++ [PathEl.ClosePath] := by
      simp only [List.map_cons, List.map_append, List.map_nil, List.cons_append]; rfl
    rw [hm, pathArea_eq_areaSum, segs_eq_segsFrom, segsFrom_closed_subpath none _ _ (isBody_map A hb),
      bodySegs_map A body p hb, bodyEnd_map A body p hb]
    simp only [Option.map_some, Option.some.injEq]
    rw [areaSum_append, areaSum_closeSegs_map, ← areaSum_append, ← List.map_append]
    have hc : SegChain p (bodySegs p body ++ closeSegs (bodyEnd p body) p) p :=
      segChain_append (segChain_bodySegs body p hb) (segChain_closeSegs _ _)
    rw [chain_areaSum_affine A hc, affCorr_self, add_zero]

/-- any list of closed sub-paths (`ClosedPath`, see `Proofs/Lemmas/C02.lean`: explicitly closed by `ClosePath`, or
    returning to the start point without it) under ANY affine map: the iterator does not panic on either path and
    the area is multiplied by the determinant -/
theorem area_affine_closedPath (A : Affine K) (els : List (PathEl K)) (h : ClosedPath els) :
    ∃ a : K, pathArea els = some a ∧
      pathArea (els.map (fun e : PathEl K => A * e)) = some (A.determinant * a) := by
  -- statement strengthened by `ClosedPath` of the image, so that `segs` of a concatenation splits
  suffices hs : ClosedPath (els.map (fun e : PathEl K => A * e)) ∧ ∃ a : K, pathArea els = some a ∧
      pathArea (els.map (fun e : PathEl K => A * e)) = some (A.determinant * a) from hs.2
  induction h with
  | nil => exact ⟨ClosedPath.nil, 0, by simp [pathArea_eq_areaSum, segs_eq_segsFrom, segsFrom, areaSum], by
      simp [pathArea_eq_areaSum, segs_eq_segsFrom, segsFrom, areaSum]⟩
  | close p body rest hb hrest ih =>
    obtain ⟨hcl, a, ha, hAa⟩ := ih
    have hm : ((PathEl.MoveTo p :: body ++ [PathEl.ClosePath]) ++ rest).map (fun e : PathEl K => A * e)
        = (PathEl.MoveTo p :: body ++ [PathEl.ClosePath]).map (fun e : PathEl K => A * e)
          ++ rest.map (fun e : PathEl K => A * e) := List.map_append
    have hm1 : (PathEl.MoveTo p :: body ++ [PathEl.ClosePath]).map (fun e : PathEl K => A * e)
        = (PathEl.MoveTo (A * p) :: body.map (fun e : PathEl K => A * e) ++ [PathEl.ClosePath]) := by
      simp only [List.map_cons, List.map_append, List.map_nil, List.cons_append]; rfl
    obtain ⟨a1, ha1, hAa1⟩ := area_affine_closed A p body hb
    refine ⟨?_, a1 + a, pathArea_append_some hrest.state_indep ha1 ha, ?_⟩
    · rw [hm, hm1]; exact ClosedPath.close _ _ _ (isBody_map A hb) hcl
    · rw [hm, pathArea_append_some hcl.state_indep hAa1 hAa]; congr 1; ring
  | implicit p body rest hb hend hrest ih =>
    obtain ⟨hcl, a, ha, hAa⟩ := ih
    have hm : ((PathEl.MoveTo p :: body) ++ rest).map (fun e : PathEl K => A * e)
        = (PathEl.MoveTo p :: body).map (fun e : PathEl K => A * e)
          ++ rest.map (fun e : PathEl K => A * e) := List.map_append
    have hm1 : (PathEl.MoveTo p :: body).map (fun e : PathEl K => A * e)
        = (PathEl.MoveTo (A * p) :: body.map (fun e : PathEl K => A * e)) := by
      simp only [List.map_cons]; rfl
    have hend' : bodyEnd (A * p) (body.map (fun e : PathEl K => A * e)) = A * p := by
      rw [bodyEnd_map A body p hb, hend]
    have hc : SegChain p (bodySegs p body) p := by
      have := segChain_bodySegs body p hb
      rwa [hend] at this
    have ha1 : pathArea (PathEl.MoveTo p :: body) = some (areaSum (bodySegs p body)) := by
      rw [pathArea_eq_areaSum, segs_eq_segsFrom, segsFrom_open_subpath none p body hb]; rfl
    have hAa1 : pathArea ((PathEl.MoveTo p :: body).map (fun e : PathEl K => A * e))
        = some (A.determinant * areaSum (bodySegs p body)) := by
      rw [hm1, pathArea_eq_areaSum, segs_eq_segsFrom, segsFrom_open_subpath none _ _ (isBody_map A hb),
        bodySegs_map A body p hb]
      simp only [Option.map_some, Option.some.injEq]
      rw [chain_areaSum_affine A hc, affCorr_self, add_zero]
    refine ⟨?_, areaSum (bodySegs p body) + a, pathArea_append_some hrest.state_indep ha1 ha, ?_⟩
    · rw [hm, hm1]; exact ClosedPath.implicit _ _ _ (isBody_map A hb) hend' hcl
    · rw [hm, pathArea_append_some hcl.state_indep hAa1 hAa]; congr 1; ring

/-- translation invariance for closed paths -/
theorem area_translate_closedPath (v : Vec2 K) (els : List (PathEl K)) (h : ClosedPath els) :
    pathArea (els.map (fun e : PathEl K => Affine.translate v * e)) = pathArea els := by
  obtain ⟨a, ha, hA⟩ := area_affine_closedPath (Affine.translate v) els h
  rw [hA, ha, determinant_translate, one_mul]

/-! ### reversal at element level (`reverse_subpaths`) for a single sub-path -/

/-- one explicitly closed sub-path: `reverse_subpaths` does not panic; the reversed path draws the reversed body
    chain followed by the reversed closing line (a rotation of the reversed closed chain) -/
theorem segs_reverse_closed (p : Point K) (body : List (PathEl K)) (hb : IsBody body) :
    ∃ r : List (PathEl K), reverseSubpaths (.MoveTo p :: body ++ [PathEl.ClosePath]) = some r ∧
      segs r = some ((bodySegs p body).reverse.map PathSeg.reverse
        ++ (if bodyEnd p body = p then [] else [PathSeg.Line ⟨bodyEnd p body, p⟩]).map PathSeg.reverse) := by
  refine ⟨_, reverseSubpaths_closed_subpath p body hb, ?_⟩
  rw [segs_eq_segsFrom, segsFrom_reverse_closed none p body hb, closeSegs_swap, closeSegs_eq_ite]

/-- … and its area is negated -/
theorem area_reverse_closed (p : Point K) (body : List (PathEl K)) (hb : IsBody body) :
    ∃ (r : List (PathEl K)) (a : K), reverseSubpaths (.MoveTo p :: body ++ [PathEl.ClosePath]) = some r ∧
      pathArea (.MoveTo p :: body ++ [PathEl.ClosePath]) = some a ∧ pathArea r = some (-a) := by
  refine ⟨_, areaSum (bodySegs p body ++ closeSegs (bodyEnd p body) p),
    reverseSubpaths_closed_subpath p body hb, ?_, ?_⟩
  · rw [pathArea_eq_areaSum, segs_eq_segsFrom, segsFrom_closed_subpath none p body hb]; rfl
  · rw [pathArea_eq_areaSum, segs_eq_segsFrom, segsFrom_reverse_closed none p body hb, closeSegs_swap]
    simp only [Option.map_some, Option.some.injEq]
    have h1 := areaSum_reverse (bodySegs p body) signedArea_reverse
    have h2 := areaSum_reverse (closeSegs (bodyEnd p body) p) signedArea_reverse
    have h3 : (closeSegs (bodyEnd p body) p).reverse = closeSegs (bodyEnd p body) p := by
      unfold closeSegs; split_ifs <;> rfl
    rw [h3] at h2
    rw [areaSum_append, areaSum_append, h1, h2]; ring

/-- a single sub-path without `ClosePath` (open or not): the reversed path draws the reversed chain, area negated -/
theorem area_reverse_open (p : Point K) (body : List (PathEl K)) (hb : IsBody body) :
    ∃ (r : List (PathEl K)) (a : K), reverseSubpaths (.MoveTo p :: body) = some r ∧
      segs (.MoveTo p :: body) = some (bodySegs p body) ∧
      segs r = some ((bodySegs p body).reverse.map PathSeg.reverse) ∧
      pathArea (.MoveTo p :: body) = some a ∧ pathArea r = some (-a) := by
  refine ⟨_, areaSum (bodySegs p body), reverseSubpaths_open_subpath p body hb, ?_, ?_, ?_, ?_⟩
  · rw [segs_eq_segsFrom, segsFrom_open_subpath none p body hb]
  · rw [segs_eq_segsFrom, segsFrom_reverse_open none p body hb]
  · rw [pathArea_eq_areaSum, segs_eq_segsFrom, segsFrom_open_subpath none p body hb]; rfl
  · rw [pathArea_eq_areaSum, segs_eq_segsFrom, segsFrom_reverse_open none p body hb]
    simp only [Option.map_some, Option.some.injEq]
    exact areaSum_reverse (bodySegs p body) signedArea_reverse

/-! ### orientation: positive for contours that turn from +x towards +y -/

/-- the area of the triangle path `a → b → c → (close)` is half the cross product `(b−a)×(c−a)` -/
theorem triangle_area (a b c : Point K) :
    pathArea [.MoveTo a, .LineTo b, .LineTo c, .ClosePath]
      = some (((b.x - a.x) * (c.y - a.y) - (b.y - a.y) * (c.x - a.x)) / 2) := by
  have hb : IsBody [PathEl.LineTo b, PathEl.LineTo c] := by
    intro e he
    simp only [List.mem_cons, List.not_mem_nil, or_false] at he
    rcases he with rfl | rfl <;> trivial
  have h : segs [PathEl.MoveTo a, .LineTo b, .LineTo c, .ClosePath]
      = some ([PathSeg.Line ⟨a, b⟩, PathSeg.Line ⟨b, c⟩] ++ (if c = a then [] else [PathSeg.Line ⟨c, a⟩])) :=
    (segs_closed_subpath a [PathEl.LineTo b, PathEl.LineTo c] hb).1
  rw [pathArea_eq_areaSum, h]
  simp only [Option.map_some, Option.some.injEq]
  by_cases hca : c = a
  · rw [if_pos hca]; subst hca
    simp only [areaSum, List.map_cons, List.map_nil, List.sum_cons, List.sum_nil, List.append_nil,
      PathSeg.signed_area, kdefs, scalar_norm]
    push_cast; ring
  · rw [if_neg hca]
    simp only [areaSum, List.map_cons, List.map_nil, List.sum_cons, List.sum_nil, List.cons_append,
      List.nil_append, PathSeg.signed_area, kdefs, scalar_norm]
    push_cast; ring

/-- in particular a counter-clockwise triangle (turning from +x towards +y) has positive area -/
theorem triangle_area_pos (a b c : Point K)
    (h : 0 < (b.x - a.x) * (c.y - a.y) - (b.y - a.y) * (c.x - a.x)) :
    ∃ ar : K, pathArea [.MoveTo a, .LineTo b, .LineTo c, .ClosePath] = some ar ∧ 0 < ar :=
  ⟨_, triangle_area a b c, by positivity⟩

end Kurbo

/-! ## Non-vacuity: concrete instances over `Rat` (the scalar the driver executes) -/
namespace Kurbo
namespace C02Examples
open PathEl

-- example data `sq` (unit square), `blob` (quadratic + cubic, closed implicitly), `cb`, `aff` (det 7), `proj`
-- (singular) are defined in `Proofs/Lemmas/C02.lean`
example : pathArea sq = some 1 := by decide +kernel
example : pathArea [MoveTo (⟨0, 0⟩ : Point Rat), LineTo ⟨0, 1⟩, LineTo ⟨1, 1⟩, LineTo ⟨1, 0⟩, ClosePath] = some (-1) := by
  decide +kernel
example : pathArea blob = some (28 / 15) := by decide +kernel
-- additivity over sub-paths (hypotheses of `area_append_some`)
example : segs sq ≠ none ∧ segs blob ≠ none ∧ pathArea (sq ++ blob) = some (1 + 28 / 15) := by decide +kernel
-- `ClosedPath`, `IsBody` are inhabited by non-trivial paths (one sub-path of each kind)
example : IsBody [LineTo (⟨1, 0⟩ : Point Rat), QuadTo ⟨3, 1⟩ ⟨2, 2⟩, CurveTo ⟨1, 2⟩ ⟨1, 0⟩ ⟨2, 0⟩] := by decide
example : ClosedPath (sq ++ blob) :=
  ClosedPath.close ⟨0, 0⟩ [LineTo ⟨1, 0⟩, LineTo ⟨1, 1⟩, LineTo ⟨0, 1⟩] blob (by decide)
    (ClosedPath.implicit ⟨2, 0⟩ [QuadTo ⟨3, 1⟩ ⟨2, 2⟩, CurveTo ⟨1, 2⟩ ⟨1, 0⟩ ⟨2, 0⟩] [] (by decide) rfl ClosedPath.nil)
-- determinant law on it: det = 7
example : aff.determinant = 7 ∧
    pathArea ((sq ++ blob).map (fun e : PathEl Rat => aff * e)) = some (7 * (1 + 28 / 15)) := by decide +kernel
-- singular map: the closing line of the square collapses to a point in the image, the law still holds
example : proj.determinant = 0 ∧ pathArea (sq.map (fun e : PathEl Rat => proj * e)) = some 0 := by decide +kernel
-- a closed chain of three different kinds of segments
example : SegChain (⟨0, 0⟩ : Point Rat)
    [.Line ⟨⟨0, 0⟩, ⟨1, 0⟩⟩, .Quad ⟨⟨1, 0⟩, ⟨2, 1⟩, ⟨1, 1⟩⟩, .Cubic ⟨⟨1, 1⟩, ⟨1, 2⟩, ⟨0, 2⟩, ⟨0, 0⟩⟩] ⟨0, 0⟩ :=
  ⟨rfl, rfl, rfl, rfl⟩
-- a single segment that is a loop (`signedArea_affine_loop`), and a map without translation (`signedArea_linear`)
example : (PathSeg.Cubic ⟨(⟨0, 0⟩ : Point Rat), ⟨3, 0⟩, ⟨0, 3⟩, ⟨0, 0⟩⟩).end
    = (PathSeg.Cubic ⟨(⟨0, 0⟩ : Point Rat), ⟨3, 0⟩, ⟨0, 3⟩, ⟨0, 0⟩⟩).start := rfl
example : (⟨2, 1, -1, 3, 0, 0⟩ : Affine Rat).c4 = 0 ∧ (⟨2, 1, -1, 3, 0, 0⟩ : Affine Rat).c5 = 0 := ⟨rfl, rfl⟩
-- counter-clockwise triangle (`triangle_area_pos`)
example : (0 : Rat) < ((1 : Rat) - 0) * (1 - 0) - (0 - 0) * (0 - 0) := by norm_num
-- values: a cubic, its two parts at t = 1/3, a part with reversed / outside range
example : cb.signed_area = 3 / 5 := by decide +kernel
example : (cb.subsegment ⟨0, 1 / 3⟩).signed_area = 16 / 405 ∧ (cb.subsegment ⟨1 / 3, 1⟩).signed_area = 227 / 405 ∧
    (16 / 405 + 227 / 405 : Rat) = 3 / 5 := by decide +kernel
example : (cb.subsegment ⟨2, 1⟩).signed_area = -33 / 5 := by decide +kernel
-- the element-level reversal of the crate on the examples (the second one, with two sub-paths, is NOT covered by a
-- theorem of this file, see header)
example : (reverseSubpaths sq).bind pathArea = some (-1) := by decide +kernel
example : (reverseSubpaths (sq ++ blob)).bind pathArea = some (-(1 + 28 / 15)) := by decide +kernel

end C02Examples
end Kurbo
