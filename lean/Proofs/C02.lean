import Proofs.KDefs
namespace Kurbo
end Kurbo
