import Proofs.Lemmas.C07
import Proofs.Lemmas.C07Rev
import Proofs.Lemmas.C07Path
import Proofs.Lemmas.C07Inst
/-! # C07 – the element view and the segment view of a path are coherent

Theorems about the hand-written model `Kurbo/Path.lean` (`segStep/segsIdxFrom/segsIdx/segs`, `subpathStart`,
`getSeg`, `fromPathSegments`, `reverseSubpath`, `reverseSubpaths`), exactly as it is defined there.

Scalars.  Purely structural theorems hold for every `[Scalar K]` (also `Float`).  Theorems that depend on the
outcome of the point comparison `Point.peq` assume `[LawfulPeq K]` (`a.peq b = true ↔ a = b`, defined in
`Proofs/Lemmas/C07.lean`); `Proofs/Lemmas/C07Inst.lean` proves `LawfulPeq K` for every `LawfulScalar K`, hence for
`Rat`.  `Float` is NOT an instance (`NaN ≠ NaN`, `0.0 == -0.0`): for `Float` only the `[Scalar K]` theorems apply.

What is proved (all for arbitrary lists / arbitrary length):
* 1 `segs_total`, `segs_closePath_first`, `segs_eq_none_iff`: `segments` panics iff the first element is `ClosePath`.
* 2 `segsIdxFrom_append`, `segStateAfter_append`, `segs_append`, `segsIdxFrom_eq_none_iff`: fold law (state after a prefix = `segStateAfter`).
* 3 `close_contributes_iff`: `ClosePath` emits `Line(last,start)` iff `last ≠ start`; the new current point is `start`.
* 4 `segState_invariant`, `getSeg_spec`: for every path starting with `MoveTo` and EVERY index `ix`,
    `getSeg els ix` is the segment the iterator emits while consuming element `ix` (none if it emits none);
    `segs_eq_filterMap_getSeg`: `segs els = (List.range els.length).filterMap (getSeg els)`.
* 5 `segs_fromPathSegments`, `fromPathSegments_moves`.
* 6a `reverseSubpath_block`, `reverseSubpath_isSome_iff`: block level (run of drawing elements): reversed
    segments in reverse order, ends at the old start, reversing twice restores the run; panics iff the run
    contains a `MoveTo`/`ClosePath`.
* 6b path level, for EVERY path starting with `MoveTo` (any number of sub-paths, implicit sub-paths after
    `ClosePath`, lone `MoveTo`s, doubled `ClosePath`s …), via the sub-path decomposition `subpaths`
    (`Proofs/Lemmas/C07Path.lean`; a sub-path = start point, run of drawing elements, closed flag):
    `reverseSubpaths_spec` (never panics; output = each sub-path reversed, same order, closedness kept),
    `segs_subpaths` (segments of a path = concatenation of its sub-paths' segments, so `subpaths` is faithful),
    `subpaths_render`, `subpath_rev_segs_open`, `subpath_rev_segs_closed`, `subpath_rev_segs_rotate`
    (closed sub-path: the reversed closing line comes LAST instead of FIRST, i.e. rotation by one, because the
    reversed sub-path starts at the last point of the body), `reverse_segs`, `reverse_reverse_els`,
    `reverse_reverse_segs`; and, in terms of the model functions only, the single-sub-path cases
    `reverse_single_open` (`MoveTo p :: body`) and `reverse_single_closed` (`MoveTo p :: body ++ [ClosePath]`).
* 7 `builder_history_irrelevant` is trivial in THIS model (`segs`, `getSeg`, … are functions of the final element list only) and
    therefore not a theorem here; the builder operations with their debug assertions are modelled as a state machine in
    `Kurbo/PathMut.lean`, and `Proofs/C07M.lean` proves that every non-panicking history computes the obvious list function.
* "the Shape segment iterator agrees": in the crate `Shape::path_segments` is `segments(self.path_elements(tol))`
    and `BezPath::path_elements` iterates the element vector, i.e. it is the very function modelled by `segs`;
    there is no second definition to compare with in this model.
* Remark on `getSeg`: the model follows the crate after the commit "fix: BezPath::get_seg agrees with segments()
    after a ClosePath" (DESIGN.md 5.b); `getSeg_spec` holds for it without any side condition on element `ix−1`
    or on degenerate sub-paths (`M p Z`, `M … Z M q Z`), see the two `example`s there.

What is NOT proved here:
* Nothing about `Float` beyond the `[Scalar K]`-only statements (items 1, 2, 6a element level, `reverseSubpaths_spec`,
    `reverse_reverse_els`).
* Paths that do not start with `MoveTo` (the crate's debug assertion excludes them): `getSeg_spec`, and the
    path-level reversal theorems assume a leading `MoveTo` (without it `reverseSubpaths` skips element 0 and
    starts from the default point (0,0), while `segs` uses the end point of element 0 as start).
* `pathArea` (`Segments::area`) is not part of this property.
-/
set_option linter.unusedSectionVars false
namespace Kurbo
variable {K : Type} [Scalar K]

/-! ## 1  totality -/

/-- `segments` does not panic unless the very first element is `ClosePath` (any `Scalar`, also `Float`) -/
theorem segs_total (el : PathEl K) (rest : List (PathEl K)) (h : el ≠ .ClosePath) :
    segs (el :: rest) ≠ none := by
  have key : ∀ sl out, segStep none el = some (some sl, out) → segs (el :: rest) ≠ none := by
    intro sl out hs
    simp only [segs, segsIdx, segsIdxFrom, hs, segsIdxFrom_some]
    simp
  cases el with
  | ClosePath => exact absurd rfl h
  | MoveTo p => exact key _ _ rfl
  | LineTo p => exact key _ _ rfl
  | QuadTo p1 p2 => exact key _ _ rfl
  | CurveTo p1 p2 p3 => exact key _ _ rfl
example : (PathEl.MoveTo (⟨0, 0⟩ : Point Rat)) ≠ .ClosePath := by decide

theorem segs_nil : segs ([] : List (PathEl K)) = some [] := rfl

/-- "Can't start a segment on a ClosePath" -/
theorem segs_closePath_first (rest : List (PathEl K)) : segs (.ClosePath :: rest) = none := rfl

theorem segs_eq_none_iff (els : List (PathEl K)) : segs els = none ↔ ∃ rest, els = .ClosePath :: rest := by
  constructor
  · intro h
    cases els with
    | nil => cases h
    | cons el rest =>
      cases el with
      | ClosePath => exact ⟨rest, rfl⟩
      | MoveTo p => exact absurd h (segs_total _ _ (by intro e; cases e))
      | LineTo p => exact absurd h (segs_total _ _ (by intro e; cases e))
      | QuadTo p1 p2 => exact absurd h (segs_total _ _ (by intro e; cases e))
      | CurveTo p1 p2 p3 => exact absurd h (segs_total _ _ (by intro e; cases e))
  · rintro ⟨rest, rfl⟩; rfl

/-! ## 2  fold law -/

/-- consuming `a ++ b` = consuming `a`, then `b` from the state reached (`segStateAfter`), indices shifted -/
theorem segsIdxFrom_append (st : SegSt K) (ix : Nat) (a b : List (PathEl K)) :
    segsIdxFrom st ix (a ++ b) =
      match segStateAfter st a, segsIdxFrom st ix a with
      | some st', some la => (segsIdxFrom st' (ix + a.length) b).map (la ++ ·)
      | _, _ => none :=
  segsIdxFrom_append' st ix a b

theorem segStateAfter_append (st : SegSt K) (a b : List (PathEl K)) :
    segStateAfter st (a ++ b) = (segStateAfter st a).bind fun st' => segStateAfter st' b := by
  induction a generalizing st with
  | nil => rfl
  | cons el rest ih =>
    simp only [List.cons_append, segStateAfter]
    cases segStep st el with
    | none => rfl
    | some r => exact ih r.1

/-- fold law at the level of `segs`, for a path starting with `MoveTo` -/
theorem segs_append (p : Point K) (a b : List (PathEl K)) :
    ∃ sl, segStateAfter none (.MoveTo p :: a) = some (some sl) ∧
      segs (.MoveTo p :: a ++ b)
        = (segs (.MoveTo p :: a)).bind fun sa => (segsIdxFrom (some sl) 0 b).map fun lb => sa ++ lb.map (·.2) := by
  refine ⟨stAfterT (p, p) a, segStateAfter_moveTo p a, ?_⟩
  rw [List.cons_append, segs_moveTo, segs_moveTo, segsT_append, segsIdxFrom_some, Option.bind_some,
    Option.map_some, map_snd_segsIdxT]

/-- the iterator panics on a prefix exactly when its state is lost -/
theorem segsIdxFrom_eq_none_iff (st : SegSt K) (ix : Nat) (a : List (PathEl K)) :
    segsIdxFrom st ix a = none ↔ segStateAfter st a = none := by
  induction a generalizing st ix with
  | nil => simp [segsIdxFrom, segStateAfter]
  | cons el rest ih =>
    simp only [segsIdxFrom, segStateAfter]
    cases segStep st el with
    | none => simp
    | some r =>
      obtain ⟨st', out⟩ := r
      simp only
      rw [← ih st' (ix + 1)]
      cases segsIdxFrom st' (ix + 1) rest <;> simp

/-! ## 3  ClosePath -/

/-- In state `(start, last)` a `ClosePath` never panics, makes `start` the current point, and emits the closing
    line `Line(last, start)` exactly when `last ≠ start` (nothing otherwise). -/
theorem close_contributes_iff [LawfulPeq K] (start last : Point K) :
    ∃ out, segStep (some (start, last)) .ClosePath = some (some (start, start), out) ∧
      (out = some (.Line ⟨last, start⟩) ↔ last ≠ start) ∧ (out = none ↔ last = start) := by
  by_cases h : last = start
  · subst h
    refine ⟨none, ?_, by simp, by simp⟩
    simp [segStep]
  · refine ⟨some (.Line ⟨last, start⟩), ?_, by simp [h], by simp [h]⟩
    simp [segStep, (peq_false_iff last start).2 h]

/-! ## 4  random access by element index -/

/-- Invariant of the iterator: after consuming a non-empty prefix `MoveTo p0 :: t` of a path, the state is
    `(S, L)` where `S` is what `subpathStart` finds for the next index and `L` is the end point of the last
    consumed element, or `S` if that element is `ClosePath`. -/
theorem segState_invariant [LawfulPeq K] (p0 : Point K) (t post : List (PathEl K)) :
    ∃ S, subpathStart (.MoveTo p0 :: t ++ post) (t.length + 1) = some S ∧
      segStateAfter none (.MoveTo p0 :: t)
        = some (some (S, (((PathEl.MoveTo p0 :: t).getLast?.bind PathEl.end_point).getD S))) := by
  refine ⟨(stAfterT (p0, p0) t).1, ?_, ?_⟩
  · have ht : (PathEl.MoveTo p0 :: t ++ post).take (t.length + 1) = .MoveTo p0 :: t := by
      rw [List.take_left' (by simp)]
    rw [subpathStart_eq, ht, stAfterT_start, List.reverse_cons, List.findSome?_append]
    cases t.reverse.findSome? mvPt <;> rfl
  · have h0 : segStateAfter none (.MoveTo p0 :: t) = segStateAfter (some (p0, p0)) t := rfl
    rw [h0, segStateAfter_some]
    congr 2
    refine Prod.ext rfl ?_
    induction t using snoc_induction with
    | nil => rfl
    | snoc t' prev _ =>
      rw [← List.cons_append, List.getLast?_concat, stAfterT_snoc, stepT_last, stepT_start]
      cases prev <;> rfl

/-- **`get_seg` agrees with `segments`**: for a path starting with `MoveTo` and every `ix` (in or out of range),
    `getSeg els ix` is the segment that the iterator emits while consuming element `ix` – `none` if it emits
    none there (`MoveTo`, `ClosePath` on an already closed sub-path, `ix` out of range). -/
theorem getSeg_spec [LawfulPeq K] (p0 : Point K) (tl : List (PathEl K)) (ix : Nat) :
    getSeg (.MoveTo p0 :: tl) ix
      = (((segsIdx (.MoveTo p0 :: tl)).getD []).find? (fun q => decide (q.1 = ix))).map (·.2) := by
  rw [getSeg_spec_aux]
  congr 2
example : getSeg (K := Rat) [.MoveTo ⟨0,0⟩, .LineTo ⟨1,0⟩, .ClosePath, .LineTo ⟨1,1⟩] 3
    = some (.Line ⟨⟨0,0⟩,⟨1,1⟩⟩) := by decide +kernel
example : getSeg (K := Rat) [.MoveTo ⟨0,0⟩, .ClosePath, .MoveTo ⟨5,5⟩, .ClosePath] 3 = none := by decide +kernel

/-- **iterating = looking up every index**: the list produced by `segments` is the list of the `get_seg ix`
    that are `Some`, for `ix = 0, 1, …, len-1` in order -/
theorem segs_eq_filterMap_getSeg [LawfulPeq K] (p0 : Point K) (tl : List (PathEl K)) :
    segs (.MoveTo p0 :: tl)
      = some ((List.range (tl.length + 1)).filterMap (getSeg (.MoveTo p0 :: tl))) :=
  segs_eq_filterMap_getSeg_aux p0 tl

/-! ## 5  from_path_segments -/

/-- rebuilding a path from any list of segments yields exactly these segments (no segment is lost or altered) -/
theorem segs_fromPathSegments [LawfulPeq K] (ss : List (PathSeg K)) : segs (fromPathSegments ss) = some ss :=
  segs_fromPathSegments_aux ss

/-- … with the same connectivity: one `MoveTo` at the beginning and one per discontinuity
    (`adjacentPairs ss = ss.zip ss.tail`), no spurious breaks -/
theorem fromPathSegments_moves [LawfulPeq K] [DecidableEq K] (ss : List (PathSeg K)) :
    (fromPathSegments ss).countP PathEl.isMoveTo
      = if ss = [] then 0 else 1 + (adjacentPairs ss).countP (fun p => decide (p.1.end ≠ p.2.start)) := by
  cases ss with
  | nil => rfl
  | cons s rest =>
    rw [if_neg (List.cons_ne_nil _ _), ← countP_fromPathSegmentsAux]
    show (PathEl.MoveTo s.start :: s.as_path_el :: fromPathSegmentsAux (some s.end) rest).countP _ = _
    rw [List.countP_cons, List.countP_cons, isMoveTo_as_path_el]
    simp [PathEl.isMoveTo]; omega
example : (fromPathSegments (K := Rat) [.Line ⟨⟨0,0⟩,⟨1,0⟩⟩, .Line ⟨⟨1,0⟩,⟨1,1⟩⟩, .Line ⟨⟨2,2⟩,⟨0,0⟩⟩])
    = [.MoveTo ⟨0,0⟩, .LineTo ⟨1,0⟩, .LineTo ⟨1,1⟩, .MoveTo ⟨2,2⟩, .LineTo ⟨0,0⟩] := by decide +kernel

/-! ## 6a  reversal of one run of drawing elements (`reverse_subpath`) -/

/-- `reverse_subpath` panics exactly when the run contains a `MoveTo` or a `ClosePath` (any `Scalar`) -/
theorem reverseSubpath_isSome_iff (start_pt : Point K) (body : List (PathEl K)) :
    (reverseSubpath start_pt body).isSome = true ↔ AllDraw body := by
  constructor
  · intro h
    apply Classical.byContradiction
    intro hn
    rw [reverseSubpath_none _ _ hn] at h
    cases h
  · intro h
    rw [reverseSubpath_eq _ _ h]; rfl

/-- **Block level.**  For a run `body` of drawing elements (`LineTo/QuadTo/CurveTo`) drawn from `start_pt`
    (any `Scalar`, also `Float`: no point comparison is involved):
    `reverseSubpath start_pt body = MoveTo endp :: rev` where `endp` is where `body` ends, `rev` is again a run
    of drawing elements that, drawn from `endp`, ends at `start_pt` and yields exactly the reversed segments of
    `body` in reverse order; and reversing `rev` from `endp` gives back `MoveTo start_pt :: body`. -/
theorem reverseSubpath_block (start_pt : Point K) (body : List (PathEl K)) (h : AllDraw body) :
    ∃ endp rev, reverseSubpath start_pt body = some (.MoveTo endp :: rev) ∧ AllDraw rev ∧
      rev.length = body.length ∧
      segStateAfter none (.MoveTo start_pt :: body) = some (some (start_pt, endp)) ∧
      segStateAfter none (.MoveTo endp :: rev) = some (some (endp, start_pt)) ∧
      segs (.MoveTo endp :: rev)
        = (segs (.MoveTo start_pt :: body)).map (fun ss => ss.reverse.map PathSeg.reverse) ∧
      reverseSubpath endp rev = some (.MoveTo start_pt :: body) := by
  have hr := revBody_isDraw start_pt body h
  refine ⟨runEnd start_pt body, revBody start_pt body, reverseSubpath_eq _ _ h, hr, ?_, ?_, ?_, ?_, ?_⟩
  · clear hr h
    induction body generalizing start_pt with
    | nil => rfl
    | cons e es ih => simp only [revBody, List.length_append, ih, List.length_cons, List.length_nil]
  · rw [segStateAfter_moveTo, stAfterT_draw _ _ _ h]
  · rw [segStateAfter_moveTo, stAfterT_draw _ _ _ hr, runEnd_revBody _ _ h]
  · rw [segs_moveTo, segs_moveTo, segsT_revBody start_pt _ _ _ h, Option.map_some, List.map_reverse]
  · rw [reverseSubpath_eq _ _ hr, runEnd_revBody _ _ h, revBody_revBody _ _ h]
example : AllDraw (K := Rat) [.LineTo ⟨1,0⟩, .QuadTo ⟨1,1⟩ ⟨0,1⟩] := by
  intro e he; simp at he; rcases he with rfl | rfl <;> rfl
example : reverseSubpath (K := Rat) ⟨0,0⟩ [.LineTo ⟨1,0⟩, .QuadTo ⟨1,1⟩ ⟨0,1⟩, .CurveTo ⟨0,2⟩ ⟨0,3⟩ ⟨0,4⟩]
    = some [.MoveTo ⟨0,4⟩, .CurveTo ⟨0,3⟩ ⟨0,2⟩ ⟨0,1⟩, .QuadTo ⟨1,1⟩ ⟨1,0⟩, .LineTo ⟨0,0⟩] := by decide +kernel

/-! ## 6b  reversal of a whole path (`reverse_subpaths`)

`subpaths els` (Lemmas/C07Path.lean) cuts an element list that starts with `MoveTo` into sub-paths
`⟨start, body, closed⟩`: a sub-path starts at a `MoveTo`, or implicitly (at the previous start point) after a
`ClosePath`; it ends with `ClosePath` (closed) or at the next `MoveTo` / the end of the list (open).  An implicit
open sub-path without drawing elements is not recorded; a lone `MoveTo` is.
`Subpath.render b = MoveTo b.start :: b.body ++ [ClosePath if closed]`,
`Subpath.segs b` = the segments of `b.render`,
`Subpath.rev b = ⟨end point of the body, reversed body, same closed flag⟩`. -/

/-- the decomposition is faithful to `segments`: the segments of a path are those of its sub-paths, in order -/
theorem segs_subpaths [LawfulPeq K] (p0 : Point K) (tl : List (PathEl K)) :
    segs (.MoveTo p0 :: tl) = some ((subpaths (.MoveTo p0 :: tl)).flatMap Subpath.segs) :=
  segs_eq_subpaths p0 tl

/-- `Subpath.segs` is `segs` of the rendered sub-path (any `Scalar`) -/
theorem subpath_segs_render (b : Subpath K) : segs b.render = some b.segs := by
  simp only [Subpath.render, segs_moveTo, Subpath.segs]

/-- every body of the decomposition is a run of drawing elements -/
theorem subpaths_bodies (els : List (PathEl K)) : ∀ b ∈ subpaths els, AllDraw b.body := subpaths_allDraw els

/-- writing sub-paths out and decomposing again is the identity (so `subpaths` loses nothing but implicit starts) -/
theorem subpaths_render (bs : List (Subpath K)) (h : ∀ b ∈ bs, AllDraw b.body) :
    subpaths (bs.flatMap Subpath.render) = bs := subpaths_flatMap_render bs h

/-- **`reverse_subpaths` never panics on a path that starts with `MoveTo` and reverses it sub-path by sub-path**:
    same number and order of sub-paths, each one replaced by its reversal (start ↦ end point of its body, body ↦
    `reverse_subpath` of it, closed flag unchanged), every sub-path written with an explicit `MoveTo`.
    Any `Scalar` (also `Float`). -/
theorem reverseSubpaths_spec (p0 : Point K) (tl : List (PathEl K)) :
    reverseSubpaths (.MoveTo p0 :: tl)
        = some (((subpaths (.MoveTo p0 :: tl)).map Subpath.rev).flatMap Subpath.render) ∧
      ∀ r, reverseSubpaths (.MoveTo p0 :: tl) = some r →
        subpaths r = (subpaths (.MoveTo p0 :: tl)).map Subpath.rev := by
  refine ⟨reverseSubpaths_eq_revOut p0 tl, ?_⟩
  intro r hr
  rw [reverseSubpaths_eq_revOut] at hr
  cases hr
  exact subpaths_revOut _ (subpaths_allDraw _)

example : ∀ b ∈ subpaths (K := Rat) [.MoveTo ⟨0,0⟩, .LineTo ⟨1,0⟩, .ClosePath, .LineTo ⟨1,1⟩], AllDraw b.body :=
  subpaths_bodies _
example : (subpaths (K := Rat) [.MoveTo ⟨0,0⟩, .LineTo ⟨1,0⟩, .ClosePath, .LineTo ⟨1,1⟩, .MoveTo ⟨2,2⟩]).length = 3 := by
  decide +kernel

/-- closedness is preserved by construction -/
theorem subpath_rev_closed (b : Subpath K) : b.rev.closed = b.closed := rfl

/-- reversing a sub-path twice restores it exactly (elements, hence also segments) -/
theorem subpath_rev_rev (b : Subpath K) (h : AllDraw b.body) : b.rev.rev = b := b.rev_rev h

/-- open sub-path: the reversed sub-path has the reversed segments in reverse order -/
theorem subpath_rev_segs_open [LawfulPeq K] (b : Subpath K) (h : AllDraw b.body) (ho : b.closed = false) :
    b.rev.segs = b.segs.reverse.map PathSeg.reverse := by
  rw [Subpath.segs_rev b h, Subpath.segs_eq b h, ho]
  simp

/-- closed sub-path with body segments `d` (`segsT (start,start) body`, the payload of
    `segs (MoveTo start :: body)` by `segs_moveTo`) ending at `e` (`runEnd`, cf. `reverseSubpath_block`):
    its segments are `d ++ c` with `c` the closing line (`[Line(e,start)]` if `e ≠ start`, else `[]`);
    the reversed sub-path starts at `e` and has segments `reverse-of-d ++ reverse-of-c`: the reversed closing line
    is emitted LAST (by the `ClosePath` of the reversed sub-path), not first. -/
theorem subpath_rev_segs_closed [LawfulPeq K] (b : Subpath K) (h : AllDraw b.body) (hc : b.closed = true) :
    let d := segsT (b.start, b.start) b.body
    let e := runEnd b.start b.body
    let c := closingSeg b.start e
    b.segs = d ++ c ∧ b.rev.segs = d.reverse.map PathSeg.reverse ++ c.map PathSeg.reverse ∧
      b.rev.start = e ∧ (e = b.start → c = []) ∧ (e ≠ b.start → c = [.Line ⟨e, b.start⟩]) := by
  refine ⟨?_, ?_, rfl, ?_, ?_⟩
  · rw [Subpath.segs_eq b h, hc]; rfl
  · rw [Subpath.segs_rev b h, hc, List.map_reverse]; rfl
  · intro he; rw [he]; exact closingSeg_eq_nil _
  · intro he; exact closingSeg_ne _ _ he

/-- both cases in one formula: the reversed sub-path's segments are the reversed segments in reverse order,
    rotated left by the number of closing lines (0 or 1) – "up to the choice of the starting vertex" -/
theorem subpath_rev_segs_rotate [LawfulPeq K] (b : Subpath K) (h : AllDraw b.body) :
    b.rev.segs = (b.segs.reverse.map PathSeg.reverse).rotateLeft
      (if b.closed then (closingSeg b.start (runEnd b.start b.body)).length else 0) :=
  b.segs_rev_rotate h

/-- segments of the reversed path = concatenation, in the original sub-path order, of the segments of the
    reversed sub-paths (described by the three theorems above) -/
theorem reverse_segs [LawfulPeq K] (p0 : Point K) (tl : List (PathEl K)) :
    (reverseSubpaths (.MoveTo p0 :: tl)).bind segs
      = some ((subpaths (.MoveTo p0 :: tl)).flatMap fun b => b.rev.segs) :=
  reverse_segs_aux _ (Or.inr ⟨p0, tl, rfl⟩)

/-- reversing twice gives the path back in normal form: its sub-paths written out with explicit `MoveTo`s
    (element level; any `Scalar`, also `Float`) -/
theorem reverse_reverse_els (p0 : Point K) (tl : List (PathEl K)) :
    (reverseSubpaths (.MoveTo p0 :: tl)).bind reverseSubpaths
      = some ((subpaths (.MoveTo p0 :: tl)).flatMap Subpath.render) :=
  reverse_reverse_els_aux _ (Or.inr ⟨p0, tl, rfl⟩)

/-- **reversing twice restores the segment sequence exactly** -/
theorem reverse_reverse_segs [LawfulPeq K] (p0 : Point K) (tl : List (PathEl K)) :
    ((reverseSubpaths (.MoveTo p0 :: tl)).bind reverseSubpaths).bind segs = segs (.MoveTo p0 :: tl) :=
  reverse_reverse_segs_aux _ (Or.inr ⟨p0, tl, rfl⟩)

/-! ### single sub-path, stated with the model functions only -/

/-- a path that is a single open sub-path -/
theorem reverse_single_open (p : Point K) (body : List (PathEl K)) (h : AllDraw body) :
    reverseSubpaths (.MoveTo p :: body) = reverseSubpath p body ∧
    (reverseSubpaths (.MoveTo p :: body)).bind segs
      = (segs (.MoveTo p :: body)).map (fun ss => ss.reverse.map PathSeg.reverse) := by
  have hs : subpaths (.MoveTo p :: body) = [⟨p, body, false⟩] := by
    have := subpaths_single ⟨p, body, false⟩ h
    simpa [Subpath.render, closer] using this
  have h1 : reverseSubpaths (.MoveTo p :: body) = reverseSubpath p body := by
    rw [reverseSubpaths_eq_revOut, hs, reverseSubpath_eq _ _ h]
    simp [revOut, render_rev, closer]
  refine ⟨h1, ?_⟩
  obtain ⟨endp, rev, hr, _, _, _, _, hsegs, _⟩ := reverseSubpath_block p body h
  rw [h1, hr, Option.bind_some, hsegs]

/-- a path that is a single closed sub-path `MoveTo p :: body ++ [ClosePath]`: the reversed path starts at the
    end point `endp` of `body`; if `endp ≠ p` the closing line `Line(endp,p)` is the LAST segment of the path and
    its reverse `Line(p,endp)` is again the LAST segment of the reversed path (so the segment list of the
    reversed path is the reversed list rotated by one); if `endp = p` there is no closing line on either side. -/
theorem reverse_single_closed [LawfulPeq K] (p : Point K) (body : List (PathEl K)) (h : AllDraw body) :
    ∃ endp rev d, reverseSubpath p body = some (.MoveTo endp :: rev) ∧
      reverseSubpaths (.MoveTo p :: body ++ [.ClosePath]) = some (.MoveTo endp :: rev ++ [.ClosePath]) ∧
      segs (.MoveTo p :: body) = some d ∧
      (endp = p → segs (.MoveTo p :: body ++ [.ClosePath]) = some d ∧
        segs (.MoveTo endp :: rev ++ [.ClosePath]) = some (d.reverse.map PathSeg.reverse)) ∧
      (endp ≠ p → segs (.MoveTo p :: body ++ [.ClosePath]) = some (d ++ [.Line ⟨endp, p⟩]) ∧
        segs (.MoveTo endp :: rev ++ [.ClosePath])
          = some (d.reverse.map PathSeg.reverse ++ [.Line ⟨p, endp⟩])) := by
  have hr := revBody_isDraw p body h
  have hs : subpaths (.MoveTo p :: body ++ [.ClosePath]) = [⟨p, body, true⟩] := by
    have := subpaths_single ⟨p, body, true⟩ h
    simpa [Subpath.render, closer] using this
  have e1 : segs (.MoveTo p :: body ++ [.ClosePath])
      = some (segsT (p, p) body ++ closingSeg p (runEnd p body)) := by
    rw [List.cons_append, segs_moveTo, segsT_append, stAfterT_draw _ _ _ h]; rfl
  have e2 : segs (.MoveTo (runEnd p body) :: revBody p body ++ [.ClosePath])
      = some ((segsT (p, p) body).reverse.map PathSeg.reverse ++ closingSeg (runEnd p body) p) := by
    rw [List.cons_append, segs_moveTo, segsT_append, stAfterT_draw _ _ _ hr, runEnd_revBody _ _ h,
      segsT_revBody p _ _ _ h, List.map_reverse]; rfl
  refine ⟨runEnd p body, revBody p body, segsT (p, p) body, reverseSubpath_eq _ _ h, ?_, segs_moveTo _ _, ?_, ?_⟩
  · rw [List.cons_append, reverseSubpaths_eq_revOut, ← List.cons_append, hs]
    simp [revOut, render_rev, closer]
  · intro he
    rw [e1, e2, he, closingSeg_eq_nil, List.append_nil, List.append_nil]
    exact ⟨rfl, rfl⟩
  · intro he
    rw [e1, e2, closingSeg_ne _ _ he, closingSeg_ne _ _ (Ne.symm he)]
    exact ⟨rfl, rfl⟩

/-! concrete behaviour on a closed triangle whose last point differs from its start (`Rat`) -/
example : reverseSubpaths (K := Rat) [.MoveTo ⟨0,0⟩, .LineTo ⟨1,0⟩, .LineTo ⟨1,1⟩, .ClosePath]
    = some [.MoveTo ⟨1,1⟩, .LineTo ⟨1,0⟩, .LineTo ⟨0,0⟩, .ClosePath] := by decide +kernel
example : segs (K := Rat) [.MoveTo ⟨0,0⟩, .LineTo ⟨1,0⟩, .LineTo ⟨1,1⟩, .ClosePath]
    = some [.Line ⟨⟨0,0⟩,⟨1,0⟩⟩, .Line ⟨⟨1,0⟩,⟨1,1⟩⟩, .Line ⟨⟨1,1⟩,⟨0,0⟩⟩] := by decide +kernel
example : segs (K := Rat) [.MoveTo ⟨1,1⟩, .LineTo ⟨1,0⟩, .LineTo ⟨0,0⟩, .ClosePath]
    = some [.Line ⟨⟨1,1⟩,⟨1,0⟩⟩, .Line ⟨⟨1,0⟩,⟨0,0⟩⟩, .Line ⟨⟨0,0⟩,⟨1,1⟩⟩] := by decide +kernel
/-- implicit sub-path after `ClosePath`: reversing twice makes its `MoveTo` explicit, segments unchanged -/
example : ((reverseSubpaths (K := Rat) [.MoveTo ⟨0,0⟩, .LineTo ⟨1,0⟩, .ClosePath, .LineTo ⟨1,1⟩]).bind
      reverseSubpaths)
    = some [.MoveTo ⟨0,0⟩, .LineTo ⟨1,0⟩, .ClosePath, .MoveTo ⟨0,0⟩, .LineTo ⟨1,1⟩] := by decide +kernel

end Kurbo
