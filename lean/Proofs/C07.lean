import Kurbo.Path
namespace Kurbo
end Kurbo
