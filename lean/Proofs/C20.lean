import Proofs.Lemmas.C20
/-! C20 – Rect / Size / Insets / rounding algebra (kernel model `Kurbo/Kernel.lean`, arbitrary lawful scalar `K`:
    an ordered field with exact `⌊⌋ ⌈⌉`, e.g. ℚ or ℝ).  Vocabulary (`Rect.Nonneg`, `Rect.ContainsClosed`, `IsInt`,
    `Rect.IsIntegral`, `Point.Le` …) and helper lemmas: `Proofs/Lemmas/C20.lean`.

    PROVED (all statements are about the model functions exactly as translated):
    * containment: `containsRect_iff_closed_points` (`contains_rect` = inclusion of closed point sets),
      `contains_rect_order` (partial order), `contains_rect_iff_union_eq` (NO hypothesis on the operands).
    * union: `union_lub`, `union_closed_points`, `union_comm`, `union_assoc`, `union_self`, `union_pt_spec`.
    * intersect: `intersect_glb` (always non-negative extent; contained in both when they overlap; greatest such;
      zero width or height when disjoint), `intersect_disjoint_zero_area`, `intersect_closed_points`, `intersect_comm`.
    * `contains_half_open`, `contains_corners`, `overlaps_symm`, `overlaps_iff_closed_meet`,
      `not_overlaps_iff_separated`.
    * `abs_from_points`, `abs_spec`.
    * `expand_least` (ALL rectangles of non-negative extent, zero extent included), `expand_abs_least` (any corner
      order), `expand_of_integral`, `expand_idem`; `trunc_greatest` (ALL rectangles of non-negative extent),
      `trunc_nonneg_iff` (the extent of `trunc` is non-negative iff an integer rectangle fits), `trunc_of_integral`,
      `trunc_idem`, `trunc_le_expand` – for the repaired code that branches on `x0 <= x1`.
    * insets: `insets_add_comm`, `inset_cancel`, `inset_cancel_abs`, `inset_sub_add_cancel`, `add_insets_spec`,
      `inflate_spec`, `rect_sub_rect_spec` (`b + (a - b) = a`, only `b` of non-negative extent), `rect_sub_rect_unique`,
      `rect_sub_insets_sub_rect`.
    * rounding: `scalar_rounding`, `scalar_expand_away`, `scalar_trunc_toward`, `scalar_round_nearest`,
      `scalar_rounding_integral`, `point_rounding`, `vec2_rounding`, `size_rounding`, `rect_rounding`,
      `rounding_dispatch`.

    NOT PROVED / out of scope here:
    * nothing about IEEE doubles (NaN, ±inf, -0.0, overflow): `K` is an ordered field with exact floor/ceil.
    * `Rect.round`/`Rect.floor`/`Rect.ceil` are only related coordinate-wise (`rect_rounding`); no claim that
      `Rect.round` preserves containment or size.
    * the converse "`a.intersect b = b` ⇒ `a` contains `b`" is FALSE for zero-extent `b` (a = [0,½], b = [1,1]) and is
      not stated. -/
set_option linter.unusedSectionVars false
namespace Kurbo
variable {K : Type} [Field K] [LinearOrder K] [IsStrictOrderedRing K] [FloorRing K] [Scalar K] [LawfulScalar K]

/-! ### containment is inclusion of point sets -/

/-- `a.contains_rect b` ⇔ every point of the closed box `b` lies in the closed box `a` (for `b` of non-negative extent) -/
theorem containsRect_iff_closed_points (a b : Rect K) (hb : b.Nonneg) :
    a.contains_rect b = true ↔ ∀ p, b.ContainsClosed p → a.ContainsClosed p := by
  rw [Rect.contains_rect_iff]; exact Rect.containsRectP_iff_closed hb
example : (⟨1, 1, 2, 3⟩ : Rect ℚ).Nonneg := by norm_num [Rect.Nonneg]

/-! ### 1. union = least upper bound -/

/-- the union has non-negative extent, contains both operands, and is contained in every rectangle containing both.
    (Only the first conjunct needs a hypothesis, and only `ha`.) -/
theorem union_lub (a b c : Rect K) (ha : a.Nonneg) (_hb : b.Nonneg) :
    (a.union b).Nonneg ∧ (a.union b).contains_rect a = true ∧ (a.union b).contains_rect b = true ∧
    (c.contains_rect a = true → c.contains_rect b = true → c.contains_rect (a.union b) = true) := by
  simp only [Rect.contains_rect_iff, Rect.union_eq, Rect.ContainsRectP, Rect.Nonneg] at *
  refine ⟨⟨?_, ?_⟩, ⟨min_le_left _ _, min_le_left _ _, le_max_left _ _, le_max_left _ _⟩,
    ⟨min_le_right _ _, min_le_right _ _, le_max_right _ _, le_max_right _ _⟩, ?_⟩
  · exact (min_le_left _ _).trans (ha.1.trans (le_max_left _ _))
  · exact (min_le_left _ _).trans (ha.2.trans (le_max_left _ _))
  · rintro ⟨h1, h2, h3, h4⟩ ⟨g1, g2, g3, g4⟩
    exact ⟨le_min h1 g1, le_min h2 g2, max_le h3 g3, max_le h4 g4⟩
example : (⟨0, 0, 2, 2⟩ : Rect ℚ).Nonneg ∧ (⟨1, -1, 3, 1⟩ : Rect ℚ).Nonneg := by norm_num [Rect.Nonneg]
example : (⟨0, 0, 2, 2⟩ : Rect ℚ).union ⟨1, -1, 3, 1⟩ = ⟨0, -1, 3, 2⟩ := by decide +kernel

/-- every point of either operand is a point of the union -/
theorem union_closed_points (a b : Rect K) (p : Point K) (h : a.ContainsClosed p ∨ b.ContainsClosed p) :
    (a.union b).ContainsClosed p := by
  simp only [Rect.union_eq, Rect.ContainsClosed] at *
  rcases h with ⟨h1, h2, h3, h4⟩ | ⟨h1, h2, h3, h4⟩
  · exact ⟨(min_le_left _ _).trans h1, h2.trans (le_max_left _ _), (min_le_left _ _).trans h3, h4.trans (le_max_left _ _)⟩
  · exact ⟨(min_le_right _ _).trans h1, h2.trans (le_max_right _ _), (min_le_right _ _).trans h3,
      h4.trans (le_max_right _ _)⟩

example : (⟨1, -1, 3, 1⟩ : Rect ℚ).ContainsClosed ⟨3, 0⟩ := by norm_num [Rect.ContainsClosed]

theorem union_comm (a b : Rect K) : a.union b = b.union a := by
  simp only [Rect.union_eq, Rect.mk.injEq]
  exact ⟨min_comm _ _, min_comm _ _, max_comm _ _, max_comm _ _⟩
theorem union_assoc (a b c : Rect K) : (a.union b).union c = a.union (b.union c) := by
  simp only [Rect.union_eq, Rect.mk.injEq]
  exact ⟨min_assoc _ _ _, min_assoc _ _ _, max_assoc _ _ _, max_assoc _ _ _⟩
theorem union_self (a : Rect K) : a.union a = a := by
  simp only [Rect.union_eq, min_self, max_self]

/-- `union_pt` is the union with the degenerate rectangle at the point: it contains the rectangle and the point and is
    the least such -/
theorem union_pt_spec (a c : Rect K) (p : Point K) (ha : a.Nonneg) :
    a.union_pt p = a.union ⟨p.x, p.y, p.x, p.y⟩ ∧ (a.union_pt p).Nonneg ∧
    (a.union_pt p).contains_rect a = true ∧ (a.union_pt p).ContainsClosed p ∧
    (c.contains_rect a = true → c.ContainsClosed p → c.contains_rect (a.union_pt p) = true) := by
  simp only [Rect.contains_rect_iff, Rect.union_eq, Rect.union_pt_eq, Rect.ContainsRectP, Rect.Nonneg,
    Rect.ContainsClosed] at *
  refine ⟨trivial, ⟨?_, ?_⟩, ⟨min_le_left _ _, min_le_left _ _, le_max_left _ _, le_max_left _ _⟩,
    ⟨min_le_right _ _, le_max_right _ _, min_le_right _ _, le_max_right _ _⟩, ?_⟩
  · exact (min_le_left _ _).trans (ha.1.trans (le_max_left _ _))
  · exact (min_le_left _ _).trans (ha.2.trans (le_max_left _ _))
  · rintro ⟨h1, h2, h3, h4⟩ ⟨g1, g2, g3, g4⟩
    exact ⟨le_min h1 g1, le_min h2 g3, max_le h3 g2, max_le h4 g4⟩
example : (⟨0, 0, 2, 2⟩ : Rect ℚ).union_pt ⟨3, 1⟩ = ⟨0, 0, 3, 2⟩ := by decide +kernel
example : (⟨0, 0, 2, 2⟩ : Rect ℚ).Nonneg := by norm_num [Rect.Nonneg]

/-! ### 2. intersect = greatest lower bound (zero area when disjoint) -/

/-- * the intersection always has non-negative extent;
    * if the operands overlap it is contained in both;
    * every rectangle of non-negative extent contained in both is contained in it;
    * if the operands do not overlap it has zero width or zero height. -/
theorem intersect_glb (a b c : Rect K) (ha : a.Nonneg) (hb : b.Nonneg) :
    (a.intersect b).Nonneg ∧
    (a.overlaps b = true → a.contains_rect (a.intersect b) = true ∧ b.contains_rect (a.intersect b) = true) ∧
    (c.Nonneg → a.contains_rect c = true → b.contains_rect c = true → (a.intersect b).contains_rect c = true) ∧
    (a.overlaps b = false → (a.intersect b).width = 0 ∨ (a.intersect b).height = 0) := by
  simp only [Rect.contains_rect_iff, Rect.not_overlaps_iff, Rect.overlaps_iff, Rect.width_eq, Rect.height_eq,
    Rect.intersect_eq, Rect.ContainsRectP, Rect.Nonneg, Rect.Separated] at *
  obtain ⟨hax, hay⟩ := ha
  obtain ⟨hbx, hby⟩ := hb
  refine ⟨⟨le_max_right _ _, le_max_right _ _⟩, ?_, ?_, ?_⟩
  · rintro ⟨o1, o2, o3, o4⟩
    refine ⟨⟨le_max_left _ _, le_max_left _ _, ?_, ?_⟩, ⟨le_max_right _ _, le_max_right _ _, ?_, ?_⟩⟩
    · exact max_le (min_le_left _ _) (max_le hax o2)
    · exact max_le (min_le_left _ _) (max_le hay o4)
    · exact max_le (min_le_right _ _) (max_le o1 hbx)
    · exact max_le (min_le_right _ _) (max_le o3 hby)
  · rintro - ⟨h1, h2, h3, h4⟩ ⟨g1, g2, g3, g4⟩
    exact ⟨max_le h1 g1, max_le h2 g2, le_max_of_le_left (le_min h3 g3), le_max_of_le_left (le_min h4 g4)⟩
  · rintro (h | h | h | h)
    · left
      rw [sub_eq_zero]
      exact max_eq_right ((min_le_right _ _).trans (h.le.trans (le_max_left _ _)))
    · left
      rw [sub_eq_zero]
      exact max_eq_right ((min_le_left _ _).trans (h.le.trans (le_max_right _ _)))
    · right
      rw [sub_eq_zero]
      exact max_eq_right ((min_le_right _ _).trans (h.le.trans (le_max_left _ _)))
    · right
      rw [sub_eq_zero]
      exact max_eq_right ((min_le_left _ _).trans (h.le.trans (le_max_right _ _)))
example : (⟨0, 0, 2, 2⟩ : Rect ℚ).Nonneg ∧ (⟨1, -1, 3, 1⟩ : Rect ℚ).Nonneg ∧ (⟨1, 0, 2, 1⟩ : Rect ℚ).Nonneg ∧
    (⟨0, 0, 2, 2⟩ : Rect ℚ).overlaps ⟨1, -1, 3, 1⟩ = true ∧
    (⟨0, 0, 2, 2⟩ : Rect ℚ).intersect ⟨1, -1, 3, 1⟩ = ⟨1, 0, 2, 1⟩ := by
  refine ⟨by norm_num [Rect.Nonneg], by norm_num [Rect.Nonneg], by norm_num [Rect.Nonneg], by decide +kernel,
    by decide +kernel⟩
example : (⟨0, 0, 1, 1⟩ : Rect ℚ).overlaps ⟨2, 0, 3, 1⟩ = false ∧
    (⟨0, 0, 1, 1⟩ : Rect ℚ).intersect ⟨2, 0, 3, 1⟩ = ⟨2, 0, 2, 1⟩ := by
  constructor <;> decide +kernel

/-- disjoint operands (of any corner order) give `is_zero_area` and area `0` -/
theorem intersect_disjoint_zero_area (a b : Rect K) (h : a.overlaps b = false) :
    (a.intersect b).is_zero_area = true ∧ (a.intersect b).area = 0 := by
  have key : (a.intersect b).x1 = (a.intersect b).x0 ∨ (a.intersect b).y1 = (a.intersect b).y0 := by
    simp only [Rect.not_overlaps_iff, Rect.Separated, Rect.intersect_eq] at *
    rcases h with h | h | h | h
    · left; exact max_eq_right ((min_le_right _ _).trans (h.le.trans (le_max_left _ _)))
    · left; exact max_eq_right ((min_le_left _ _).trans (h.le.trans (le_max_right _ _)))
    · right; exact max_eq_right ((min_le_right _ _).trans (h.le.trans (le_max_left _ _)))
    · right; exact max_eq_right ((min_le_left _ _).trans (h.le.trans (le_max_right _ _)))
  refine ⟨(Rect.is_zero_area_iff _).mpr key, ?_⟩
  rw [Rect.area_eq]
  rcases key with k | k <;> rw [k] <;> ring
example : (⟨0, 0, 1, 1⟩ : Rect ℚ).overlaps ⟨2, 0, 3, 1⟩ = false := by decide +kernel

/-- when the operands meet, the closed point set of the intersection is the intersection of the point sets -/
theorem intersect_closed_points (a b : Rect K) (p : Point K) (ha : a.Nonneg) (hb : b.Nonneg)
    (ho : a.overlaps b = true) :
    (a.intersect b).ContainsClosed p ↔ a.ContainsClosed p ∧ b.ContainsClosed p := by
  simp only [Rect.overlaps_iff, Rect.intersect_eq, Rect.ContainsClosed, Rect.Nonneg] at *
  obtain ⟨o1, o2, o3, o4⟩ := ho
  have ex : max (min a.x1 b.x1) (max a.x0 b.x0) = min a.x1 b.x1 :=
    max_eq_left (max_le (le_min ha.1 o1) (le_min o2 hb.1))
  have ey : max (min a.y1 b.y1) (max a.y0 b.y0) = min a.y1 b.y1 :=
    max_eq_left (max_le (le_min ha.2 o3) (le_min o4 hb.2))
  rw [ex, ey]
  simp only [max_le_iff, le_min_iff]
  tauto
example : (⟨0, 0, 2, 2⟩ : Rect ℚ).Nonneg ∧ (⟨2, 2, 3, 3⟩ : Rect ℚ).Nonneg ∧
    (⟨0, 0, 2, 2⟩ : Rect ℚ).overlaps ⟨2, 2, 3, 3⟩ = true ∧
    (⟨0, 0, 2, 2⟩ : Rect ℚ).intersect ⟨2, 2, 3, 3⟩ = ⟨2, 2, 2, 2⟩ := by
  refine ⟨by norm_num [Rect.Nonneg], by norm_num [Rect.Nonneg], by decide +kernel, by decide +kernel⟩

theorem intersect_comm (a b : Rect K) : a.intersect b = b.intersect a := by
  simp only [Rect.intersect_eq, Rect.mk.injEq]
  refine ⟨max_comm _ _, max_comm _ _, ?_, ?_⟩
  · rw [min_comm a.x1, max_comm a.x0]
  · rw [min_comm a.y1, max_comm a.y0]

/-! ### 3. point containment is half-open -/

theorem contains_half_open (r : Rect K) (p : Point K) :
    r.contains p = true ↔ r.x0 ≤ p.x ∧ p.x < r.x1 ∧ r.y0 ≤ p.y ∧ p.y < r.y1 :=
  Rect.contains_iff r p
/-- in particular the low corner is inside and the high corner is outside (positive extent) -/
theorem contains_corners (r : Rect K) (h : r.x0 < r.x1 ∧ r.y0 < r.y1) :
    r.contains ⟨r.x0, r.y0⟩ = true ∧ r.contains ⟨r.x1, r.y1⟩ = false ∧
    r.contains ⟨r.x1, r.y0⟩ = false ∧ r.contains ⟨r.x0, r.y1⟩ = false := by
  refine ⟨?_, ?_, ?_, ?_⟩
  · rw [contains_half_open]; exact ⟨le_rfl, h.1, le_rfl, h.2⟩
  all_goals
    rw [← Bool.not_eq_true, contains_half_open]
    simp only [lt_self_iff_false, false_and, and_false, not_false_eq_true]
example : (⟨0, 0, 1, 2⟩ : Rect ℚ).x0 < (⟨0, 0, 1, 2⟩ : Rect ℚ).x1 ∧ (⟨0, 0, 1, 2⟩ : Rect ℚ).y0 < (⟨0, 0, 1, 2⟩ : Rect ℚ).y1 := by
  norm_num
example : (⟨0, 0, 1, 2⟩ : Rect ℚ).contains ⟨0, 0⟩ = true ∧ (⟨0, 0, 1, 2⟩ : Rect ℚ).contains ⟨1, 1⟩ = false := by
  decide +kernel

/-! ### 4. overlaps -/

theorem overlaps_symm (a b : Rect K) : a.overlaps b = b.overlaps a := by
  rw [Bool.eq_iff_iff, Rect.overlaps_iff, Rect.overlaps_iff]; tauto

/-- `overlaps` ⇔ the closed rectangles share a point (touching edges or corners count) -/
theorem overlaps_iff_closed_meet (a b : Rect K) (ha : a.Nonneg) (hb : b.Nonneg) :
    a.overlaps b = true ↔ ∃ p, a.ContainsClosed p ∧ b.ContainsClosed p := by
  rw [Rect.overlaps_iff]
  simp only [Rect.ContainsClosed, Rect.Nonneg] at *
  constructor
  · rintro ⟨o1, o2, o3, o4⟩
    exact ⟨⟨max a.x0 b.x0, max a.y0 b.y0⟩, ⟨le_max_left _ _, max_le ha.1 o2, le_max_left _ _, max_le ha.2 o4⟩,
      ⟨le_max_right _ _, max_le o1 hb.1, le_max_right _ _, max_le o3 hb.2⟩⟩
  · rintro ⟨p, ⟨h1, h2, h3, h4⟩, ⟨g1, g2, g3, g4⟩⟩
    exact ⟨h1.trans g2, g1.trans h2, h3.trans g4, g3.trans h4⟩
example : (⟨0, 0, 2, 2⟩ : Rect ℚ).Nonneg ∧ (⟨2, 2, 3, 3⟩ : Rect ℚ).Nonneg ∧
    (⟨0, 0, 2, 2⟩ : Rect ℚ).overlaps ⟨2, 2, 3, 3⟩ = true := by
  refine ⟨by norm_num [Rect.Nonneg], by norm_num [Rect.Nonneg], by decide +kernel⟩

/-- `overlaps` is false exactly when the rectangles are strictly separated along an axis -/
theorem not_overlaps_iff_separated (a b : Rect K) :
    a.overlaps b = false ↔ (b.x1 < a.x0 ∨ a.x1 < b.x0 ∨ b.y1 < a.y0 ∨ a.y1 < b.y0) :=
  Rect.not_overlaps_iff a b

/-! ### 5. containment is `union = container` -/

/-- no hypothesis on the operands is needed -/
theorem contains_rect_iff_union_eq (a b : Rect K) : a.contains_rect b = true ↔ a.union b = a := by
  cases a; cases b
  simp only [Rect.contains_rect_iff, Rect.union_eq, Rect.ContainsRectP, Rect.mk.injEq, min_eq_left_iff,
    max_eq_left_iff]

/-- containment is a partial order on rectangles -/
theorem contains_rect_order (a b c : Rect K) :
    a.contains_rect a = true ∧
    (a.contains_rect b = true → b.contains_rect c = true → a.contains_rect c = true) ∧
    (a.contains_rect b = true → b.contains_rect a = true → a = b) := by
  simp only [Rect.contains_rect_iff]
  exact ⟨Rect.ContainsRectP.refl a, Rect.ContainsRectP.trans, Rect.ContainsRectP.antisymm⟩

/-! ### 6. abs / from_points -/

theorem abs_from_points (p q : Point K) :
    Rect.from_points p q = (Rect.new p.x p.y q.x q.y).abs ∧
    (Rect.from_points p q).Nonneg ∧
    Rect.from_points p q = ⟨min p.x q.x, min p.y q.y, max p.x q.x, max p.y q.y⟩ ∧
    Rect.from_points p q = Rect.from_points q p ∧
    (Rect.from_points p q).width = |q.x - p.x| ∧ (Rect.from_points p q).height = |q.y - p.y| ∧
    (Rect.from_points p q).ContainsClosed p ∧ (Rect.from_points p q).ContainsClosed q := by
  refine ⟨rfl, ?_, Rect.from_points_eq p q, ?_, ?_, ?_, ?_, ?_⟩
  · simp only [Rect.from_points_eq, Rect.Nonneg]
    exact ⟨min_le_max, min_le_max⟩
  · simp only [Rect.from_points_eq, Rect.mk.injEq]
    exact ⟨min_comm _ _, min_comm _ _, max_comm _ _, max_comm _ _⟩
  · simp only [Rect.from_points_eq, Rect.width_eq]
    rw [max_sub_min_eq_abs', abs_sub_comm]
  · simp only [Rect.from_points_eq, Rect.height_eq]
    rw [max_sub_min_eq_abs', abs_sub_comm]
  · simp only [Rect.from_points_eq, Rect.ContainsClosed]
    exact ⟨min_le_left _ _, le_max_left _ _, min_le_left _ _, le_max_left _ _⟩
  · simp only [Rect.from_points_eq, Rect.ContainsClosed]
    exact ⟨min_le_right _ _, le_max_right _ _, min_le_right _ _, le_max_right _ _⟩
example : Rect.from_points (⟨3, 0⟩ : Point ℚ) ⟨1, 2⟩ = ⟨1, 0, 3, 2⟩ := by decide +kernel

/-- `abs` has non-negative extent, the same extents (`|width|`, `|height|`, `|area|`), is idempotent, fixes exactly the
    rectangles of non-negative extent, and agrees with `from_points` of the two stored corners -/
theorem abs_spec (r : Rect K) :
    r.abs.Nonneg ∧ r.abs.width = |r.width| ∧ r.abs.height = |r.height| ∧ r.abs.area = |r.area| ∧
    r.abs.abs = r.abs ∧ (r.abs = r ↔ r.Nonneg) ∧ r.abs = Rect.from_points ⟨r.x0, r.y0⟩ ⟨r.x1, r.y1⟩ := by
  have hn : r.abs.Nonneg := by
    simp only [Rect.abs_eq, Rect.Nonneg]; exact ⟨min_le_max, min_le_max⟩
  have hw : r.abs.width = |r.width| := by
    simp only [Rect.abs_eq, Rect.width_eq]; rw [max_sub_min_eq_abs', abs_sub_comm]
  have hh : r.abs.height = |r.height| := by
    simp only [Rect.abs_eq, Rect.height_eq]; rw [max_sub_min_eq_abs', abs_sub_comm]
  refine ⟨hn, hw, hh, ?_, hn.abs_eq_self, ?_, ?_⟩
  · have e1 : r.abs.area = r.abs.width * r.abs.height := by rw [Rect.area_eq, Rect.width_eq, Rect.height_eq]
    have e2 : r.area = r.width * r.height := by rw [Rect.area_eq, Rect.width_eq, Rect.height_eq]
    rw [e1, e2, hw, hh, abs_mul]
  · constructor
    · intro h; rw [← h]; exact hn
    · exact Rect.Nonneg.abs_eq_self
  · rw [Rect.from_points_eq, Rect.abs_eq]
example : (⟨3, 0, 1, 2⟩ : Rect ℚ).abs = ⟨1, 0, 3, 2⟩ := by decide +kernel

/-! ### 7. expand = least integer-cornered superset -/

/-- for every rectangle of non-negative extent (zero extent included) `expand` is integer-cornered, contains the
    rectangle, and is contained in every integer-cornered rectangle that contains it -/
theorem expand_least (r : Rect K) (h : r.Nonneg) :
    r.expand.IsIntegral ∧ r.expand.Nonneg ∧ r.expand.contains_rect r = true ∧
    ∀ q : Rect K, q.IsIntegral → q.contains_rect r = true → q.contains_rect r.expand = true := by
  simp only [Rect.contains_rect_iff, h.expand_eq, Rect.ContainsRectP, Rect.IsIntegral]
  refine ⟨⟨isInt_intCast _, isInt_intCast _, isInt_intCast _, isInt_intCast _⟩, ⟨?_, ?_⟩,
    ⟨Int.floor_le _, Int.floor_le _, Int.le_ceil _, Int.le_ceil _⟩, ?_⟩
  · exact (Int.floor_le _).trans (h.1.trans (Int.le_ceil _))
  · exact (Int.floor_le _).trans (h.2.trans (Int.le_ceil _))
  · rintro q ⟨i1, i2, i3, i4⟩ ⟨h1, h2, h3, h4⟩
    exact ⟨i1.le_floor h1, i2.le_floor h2, i3.ceil_le h3, i4.ceil_le h4⟩
example : (⟨1/2, 1/2, 1/2, 1/2⟩ : Rect ℚ).Nonneg := by norm_num [Rect.Nonneg]
/-- zero extent at a non-integer coordinate: the unit cell around the point -/
example : (⟨1/2, 1/2, 1/2, 1/2⟩ : Rect ℚ).expand = ⟨0, 0, 1, 1⟩ := by decide +kernel
example : (⟨1/2, -3/2, 5/2, 1⟩ : Rect ℚ).expand = ⟨0, -2, 3, 1⟩ := by decide +kernel

/-- any corner order: `expand` keeps the orientation of each axis, and its `abs` is the least integer-cornered
    rectangle containing `r.abs` -/
theorem expand_abs_least (r : Rect K) :
    r.expand.abs.IsIntegral ∧ r.expand.abs.contains_rect r.abs = true ∧
    (∀ q : Rect K, q.IsIntegral → q.contains_rect r.abs = true → q.contains_rect r.expand.abs = true) ∧
    r.expand.abs = r.abs.expand := by
  have key : r.expand.abs = r.abs.expand := by
    have hn : r.abs.Nonneg := by
      simp only [Rect.abs_eq, Rect.Nonneg]; exact ⟨min_le_max, min_le_max⟩
    rw [hn.expand_eq, Rect.abs_eq r.expand, Rect.expand_eq, Rect.abs_eq r]
    simp only [Rect.mk.injEq]
    have hx : ∀ a b : K, a ≤ b → (⌊a⌋ : K) ≤ (⌈b⌉ : K) := fun a b hab =>
      (Int.floor_le _).trans (hab.trans (Int.le_ceil _))
    refine ⟨?_, ?_, ?_, ?_⟩
    · rcases le_or_gt r.x0 r.x1 with hc | hc
      · rw [if_pos hc, if_pos hc, min_eq_left hc, min_eq_left (hx _ _ hc)]
      · rw [if_neg (not_le.mpr hc), if_neg (not_le.mpr hc), min_eq_right hc.le, min_eq_right (hx _ _ hc.le)]
    · rcases le_or_gt r.y0 r.y1 with hc | hc
      · rw [if_pos hc, if_pos hc, min_eq_left hc, min_eq_left (hx _ _ hc)]
      · rw [if_neg (not_le.mpr hc), if_neg (not_le.mpr hc), min_eq_right hc.le, min_eq_right (hx _ _ hc.le)]
    · rcases le_or_gt r.x0 r.x1 with hc | hc
      · rw [if_pos hc, if_pos hc, max_eq_right hc, max_eq_right (hx _ _ hc)]
      · rw [if_neg (not_le.mpr hc), if_neg (not_le.mpr hc), max_eq_left hc.le, max_eq_left (hx _ _ hc.le)]
    · rcases le_or_gt r.y0 r.y1 with hc | hc
      · rw [if_pos hc, if_pos hc, max_eq_right hc, max_eq_right (hx _ _ hc)]
      · rw [if_neg (not_le.mpr hc), if_neg (not_le.mpr hc), max_eq_left hc.le, max_eq_left (hx _ _ hc.le)]
  have hn : r.abs.Nonneg := by
    simp only [Rect.abs_eq, Rect.Nonneg]; exact ⟨min_le_max, min_le_max⟩
  obtain ⟨e1, -, e3, e4⟩ := expand_least r.abs hn
  rw [key]
  exact ⟨e1, e3, e4, rfl⟩
example : (⟨5/2, 1, 1/2, -3/2⟩ : Rect ℚ).expand = ⟨3, 1, 0, -2⟩ := by decide +kernel

/-- integer-cornered rectangles (any corner order) are fixed; hence `expand` is idempotent -/
theorem expand_of_integral (r : Rect K) (h : r.IsIntegral) : r.expand = r := by
  obtain ⟨i1, i2, i3, i4⟩ := h
  rw [Rect.expand_eq]; cases r
  simp only [i1.floor_eq, i1.ceil_eq, i2.floor_eq, i2.ceil_eq, i3.floor_eq, i3.ceil_eq,
    i4.floor_eq, i4.ceil_eq, ite_self]
theorem expand_idem (r : Rect K) : r.expand.expand = r.expand := by
  apply expand_of_integral
  rw [Rect.expand_eq]
  refine ⟨?_, ?_, ?_, ?_⟩ <;> (simp only; split_ifs <;> exact isInt_intCast _)
example : (⟨0, -2, 3, 1⟩ : Rect ℚ).IsIntegral := ⟨⟨0, by norm_num⟩, ⟨-2, by norm_num⟩, ⟨3, by norm_num⟩, ⟨1, by norm_num⟩⟩

/-! ### 8. trunc = greatest integer-cornered subset -/

/-- for every rectangle of non-negative extent: `trunc` is integer-cornered; when its extent is non-negative it is
    contained in the rectangle; and every integer-cornered rectangle of non-negative extent contained in `r` is
    contained in `r.trunc`.  (When no integer rectangle fits, e.g. `x0 = x1 = 1/2`, the result has negative extent.) -/
theorem trunc_greatest (r : Rect K) (h : r.Nonneg) :
    r.trunc.IsIntegral ∧ (r.trunc.Nonneg → r.contains_rect r.trunc = true) ∧
    ∀ q : Rect K, q.IsIntegral → q.Nonneg → r.contains_rect q = true → r.trunc.contains_rect q = true := by
  simp only [Rect.contains_rect_iff, h.trunc_eq, Rect.ContainsRectP, Rect.IsIntegral]
  refine ⟨⟨isInt_intCast _, isInt_intCast _, isInt_intCast _, isInt_intCast _⟩, fun _ =>
    ⟨Int.le_ceil _, Int.le_ceil _, Int.floor_le _, Int.floor_le _⟩, ?_⟩
  rintro q ⟨i1, i2, i3, i4⟩ - ⟨h1, h2, h3, h4⟩
  exact ⟨i1.ceil_le h1, i2.ceil_le h2, i3.le_floor h3, i4.le_floor h4⟩
example : (⟨1/2, 0, 1/2, 2⟩ : Rect ℚ).Nonneg := by norm_num [Rect.Nonneg]
/-- zero width at a non-integer `x`: no integer rectangle fits; the result is reversed on that axis -/
example : (⟨1/2, 0, 1/2, 2⟩ : Rect ℚ).trunc = ⟨1, 0, 0, 2⟩ := by decide +kernel
example : (⟨1/2, -3/2, 5/2, 1⟩ : Rect ℚ).trunc = ⟨1, -1, 2, 1⟩ := by decide +kernel

/-- `r.trunc` has non-negative extent exactly when some integer-cornered rectangle of non-negative extent fits in `r`
    (so the sign of the extent of `trunc` is the emptiness test) -/
theorem trunc_nonneg_iff (r : Rect K) (h : r.Nonneg) :
    r.trunc.Nonneg ↔ ∃ q : Rect K, q.IsIntegral ∧ q.Nonneg ∧ r.contains_rect q = true := by
  obtain ⟨t1, t2, t3⟩ := trunc_greatest r h
  constructor
  · intro hn; exact ⟨r.trunc, t1, hn, t2 hn⟩
  · rintro ⟨q, qi, qn, qc⟩
    have := (Rect.contains_rect_iff _ _).mp (t3 q qi qn qc)
    exact ⟨this.1.trans (qn.1.trans this.2.2.1), this.2.1.trans (qn.2.trans this.2.2.2)⟩

example : (⟨1/2, 0, 1/2, 2⟩ : Rect ℚ).Nonneg ∧ ¬ (⟨1/2, 0, 1/2, 2⟩ : Rect ℚ).trunc.Nonneg := by
  have : (⟨1/2, 0, 1/2, 2⟩ : Rect ℚ).trunc = ⟨1, 0, 0, 2⟩ := by decide +kernel
  rw [this]; norm_num [Rect.Nonneg]

/-- integer-cornered rectangles (any corner order) are fixed; hence `trunc` is idempotent -/
theorem trunc_of_integral (r : Rect K) (h : r.IsIntegral) : r.trunc = r := by
  obtain ⟨i1, i2, i3, i4⟩ := h
  rw [Rect.trunc_eq]; cases r
  simp only [i1.floor_eq, i1.ceil_eq, i2.floor_eq, i2.ceil_eq, i3.floor_eq, i3.ceil_eq,
    i4.floor_eq, i4.ceil_eq, ite_self]
theorem trunc_idem (r : Rect K) : r.trunc.trunc = r.trunc := by
  apply trunc_of_integral
  rw [Rect.trunc_eq]
  refine ⟨?_, ?_, ?_, ?_⟩ <;> (simp only; split_ifs <;> exact isInt_intCast _)

example : (⟨3, 1, 0, -2⟩ : Rect ℚ).IsIntegral := ⟨⟨3, by norm_num⟩, ⟨1, by norm_num⟩, ⟨0, by norm_num⟩, ⟨-2, by norm_num⟩⟩
example : (⟨3, 1, 0, -2⟩ : Rect ℚ).trunc = ⟨3, 1, 0, -2⟩ := by decide +kernel

/-- `trunc ⊆ r ⊆ expand` whenever `trunc` is non-degenerate -/
theorem trunc_le_expand (r : Rect K) (h : r.Nonneg) (ht : r.trunc.Nonneg) :
    r.expand.contains_rect r.trunc = true := by
  have h1 := (Rect.contains_rect_iff _ _).mp ((trunc_greatest r h).2.1 ht)
  have h2 := (Rect.contains_rect_iff _ _).mp (expand_least r h).2.2.1
  exact (Rect.contains_rect_iff _ _).mpr (h2.trans h1)
example : (⟨1/2, -3/2, 5/2, 1⟩ : Rect ℚ).Nonneg ∧ (⟨1/2, -3/2, 5/2, 1⟩ : Rect ℚ).trunc.Nonneg := by
  constructor
  · norm_num [Rect.Nonneg]
  · have : (⟨1/2, -3/2, 5/2, 1⟩ : Rect ℚ).trunc = ⟨1, -1, 2, 1⟩ := by decide +kernel
    rw [this]; norm_num [Rect.Nonneg]

/-! ### 9. insets: adding then subtracting is the identity while the extent stays non-negative -/

/-- the two operand orders are the same function (`Insets + Rect` is the primitive, with `abs()` inside) -/
theorem insets_add_comm (r : Rect K) (i : Insets K) : i + r = r + i ∧ i - r = r - i ∧ r - i = r + (-i) :=
  ⟨rfl, rfl, rfl⟩

/-- general form: only the intermediate result must have non-negative extent; the outcome is `r.abs` -/
theorem inset_cancel_abs (r : Rect K) (i : Insets K) (h' : (r + i).Nonneg) : (r + i) - i = r.abs := by
  rw [Rect.sub_Insets_eq, Rect.abs_eq]
  simp only [Rect.Nonneg] at h'
  rw [min_eq_left h'.1, min_eq_left h'.2, max_eq_right h'.1, max_eq_right h'.2]
  simp only [Rect.add_Insets_eq, Rect.mk.injEq]
  refine ⟨?_, ?_, ?_, ?_⟩ <;> ring

theorem inset_cancel (r : Rect K) (i : Insets K) (h : r.Nonneg) (h' : (r + i).Nonneg) : (r + i) - i = r := by
  rw [inset_cancel_abs r i h', h.abs_eq_self]
example : (⟨0, 0, 4, 4⟩ : Rect ℚ).Nonneg ∧ ((⟨0, 0, 4, 4⟩ : Rect ℚ) + (⟨-1, 2, -2, 1/2⟩ : Insets ℚ)).Nonneg := by
  constructor
  · norm_num [Rect.Nonneg]
  · have : ((⟨0, 0, 4, 4⟩ : Rect ℚ) + (⟨-1, 2, -2, 1/2⟩ : Insets ℚ)) = ⟨1, -2, 2, 9/2⟩ := by decide +kernel
    rw [this]; norm_num [Rect.Nonneg]
/-- the hypothesis is needed: shrinking past zero extent is not undone -/
example : ((⟨0, 0, 1, 1⟩ : Rect ℚ) + (⟨-1, 0, -1, 0⟩ : Insets ℚ)) - (⟨-1, 0, -1, 0⟩ : Insets ℚ) = ⟨-1, 0, 2, 1⟩ := by
  decide +kernel

/-- the other order: subtracting then adding -/
theorem inset_sub_add_cancel (r : Rect K) (i : Insets K) (h : r.Nonneg) (h' : (r - i).Nonneg) : (r - i) + i = r := by
  rw [Rect.add_Insets_eq]
  simp only [Rect.Nonneg] at h'
  rw [min_eq_left h'.1, min_eq_left h'.2, max_eq_right h'.1, max_eq_right h'.2]
  simp only [Rect.sub_Insets_eq]
  cases r
  simp only [Rect.Nonneg] at h
  simp only [Rect.mk.injEq, min_eq_left h.1, min_eq_left h.2, max_eq_right h.1, max_eq_right h.2]
  refine ⟨?_, ?_, ?_, ?_⟩ <;> ring
example : (⟨0, 0, 4, 4⟩ : Rect ℚ).Nonneg ∧ ((⟨0, 0, 4, 4⟩ : Rect ℚ) - (⟨1, 1, 1, 1⟩ : Insets ℚ)).Nonneg := by
  constructor
  · norm_num [Rect.Nonneg]
  · have : ((⟨0, 0, 4, 4⟩ : Rect ℚ) - (⟨1, 1, 1, 1⟩ : Insets ℚ)) = ⟨1, 1, 3, 3⟩ := by decide +kernel
    rw [this]; norm_num [Rect.Nonneg]

/-- adding insets to a rectangle of non-negative extent moves each edge outward by the inset; width and height grow by
    `x_value` / `y_value` -/
theorem add_insets_spec (r : Rect K) (i : Insets K) (h : r.Nonneg) :
    r + i = (⟨r.x0 - i.x0, r.y0 - i.y0, r.x1 + i.x1, r.y1 + i.y1⟩ : Rect K) ∧
    (r + i).width = r.width + i.x_value ∧ (r + i).height = r.height + i.y_value := by
  have e : r + i = (⟨r.x0 - i.x0, r.y0 - i.y0, r.x1 + i.x1, r.y1 + i.y1⟩ : Rect K) := by
    rw [Rect.add_Insets_eq]
    simp only [Rect.Nonneg] at h
    rw [min_eq_left h.1, min_eq_left h.2, max_eq_right h.1, max_eq_right h.2]
  refine ⟨e, ?_, ?_⟩
  · rw [e]; simp only [Rect.width_eq, Insets.x_value, scalar_norm]; ring
  · rw [e]; simp only [Rect.height_eq, Insets.y_value, scalar_norm]; ring

example : (⟨0, 0, 4, 4⟩ : Rect ℚ).Nonneg := by norm_num [Rect.Nonneg]
example : (⟨0, 0, 4, 4⟩ : Rect ℚ) + (⟨1, 2, 3, 1/2⟩ : Insets ℚ) = ⟨-1, -2, 7, 9/2⟩ := by decide +kernel

/-- `inflate` is adding uniform insets (for non-negative extent), and is undone by the opposite inflation (always) -/
theorem inflate_spec (r : Rect K) (w h : K) :
    (r.Nonneg → r.inflate w h = r + (⟨w, h, w, h⟩ : Insets K)) ∧ (r.inflate w h).inflate (-w) (-h) = r := by
  constructor
  · intro hn
    rw [(add_insets_spec r _ hn).1, Rect.inflate_eq]
  · cases r
    simp only [Rect.inflate_eq, Rect.mk.injEq]
    refine ⟨?_, ?_, ?_, ?_⟩ <;> ring

example : (⟨0, 0, 4, 4⟩ : Rect ℚ).inflate 1 (1/2) = ⟨-1, -1/2, 5, 9/2⟩ := by decide +kernel
/-- on a reversed rectangle `inflate` and `+ Insets` differ (the latter normalises with `abs()` first) -/
example : (⟨4, 0, 0, 4⟩ : Rect ℚ).inflate 1 1 = ⟨3, -1, 1, 5⟩ ∧
    (⟨4, 0, 0, 4⟩ : Rect ℚ) + (⟨1, 1, 1, 1⟩ : Insets ℚ) = ⟨-1, -1, 5, 5⟩ := by
  constructor <;> decide +kernel

/-! ### 10. the difference of two rectangles is the insets mapping one onto the other -/

/-- `a - b` (an `Insets`) added to `b` gives `a`.  Only `b` needs non-negative extent (it passes through `abs()`). -/
theorem rect_sub_rect_spec (a b : Rect K) (hb : b.Nonneg) : b + (a - b) = a := by
  rw [(add_insets_spec b _ hb).1, Rect.sub_Rect_eq]
  cases a
  simp only [Rect.mk.injEq]
  refine ⟨?_, ?_, ?_, ?_⟩ <;> ring
example : (⟨1, 1, 2, 3⟩ : Rect ℚ).Nonneg := by norm_num [Rect.Nonneg]
example : (⟨0, 0, 4, 4⟩ : Rect ℚ) - (⟨1, 1, 2, 3⟩ : Rect ℚ) = (⟨1, 1, 2, 1⟩ : Insets ℚ) := by decide +kernel

/-- … and these are the only insets doing so -/
theorem rect_sub_rect_unique (a b : Rect K) (i : Insets K) (hb : b.Nonneg) (h : b + i = a) : i = a - b := by
  rw [(add_insets_spec b _ hb).1] at h
  subst h
  rw [Rect.sub_Rect_eq]
  cases i
  simp only [Insets.mk.injEq]
  refine ⟨?_, ?_, ?_, ?_⟩ <;> ring

example : (⟨1, 1, 2, 3⟩ : Rect ℚ).Nonneg ∧ (⟨1, 1, 2, 3⟩ : Rect ℚ) + (⟨1, 1, 2, 1⟩ : Insets ℚ) = ⟨0, 0, 4, 4⟩ := by
  refine ⟨by norm_num [Rect.Nonneg], by decide +kernel⟩

/-- subtracting the difference goes back: `a - (a - b) = b` for `a` of non-negative extent -/
theorem rect_sub_insets_sub_rect (a b : Rect K) (ha : a.Nonneg) : a - (a - b) = b := by
  rw [Rect.sub_Insets_eq, Rect.sub_Rect_eq]
  simp only [Rect.Nonneg] at ha
  rw [min_eq_left ha.1, min_eq_left ha.2, max_eq_right ha.1, max_eq_right ha.2]
  cases b
  simp only [Rect.mk.injEq]
  refine ⟨?_, ?_, ?_, ?_⟩ <;> ring

example : (⟨0, 0, 4, 4⟩ : Rect ℚ).Nonneg ∧
    (⟨0, 0, 4, 4⟩ : Rect ℚ) - ((⟨0, 0, 4, 4⟩ : Rect ℚ) - (⟨1, 1, 2, 3⟩ : Rect ℚ)) = ⟨1, 1, 2, 3⟩ := by
  refine ⟨by norm_num [Rect.Nonneg], by decide +kernel⟩
/-- the hypothesis is needed: with `b` reversed, `b + (a - b)` is not `a` -/
example : (⟨2, 0, 1, 1⟩ : Rect ℚ) + ((⟨0, 0, 4, 4⟩ : Rect ℚ) - (⟨2, 0, 1, 1⟩ : Rect ℚ)) = ⟨-1, 0, 5, 4⟩ := by
  decide +kernel

/-! ### 11. rounding helpers -/

/-- `floor ≤ trunc ≤ ceil`, `floor ≤ round ≤ ceil`, `floor ≤ expand ≤ ceil` on scalars -/
theorem scalar_rounding (x : K) :
    Scalar.floor x ≤ Scalar.trunc x ∧ Scalar.trunc x ≤ Scalar.ceil x ∧
    Scalar.floor x ≤ Scalar.round x ∧ Scalar.round x ≤ Scalar.ceil x ∧
    Scalar.floor x ≤ fexpand x ∧ fexpand x ≤ Scalar.ceil x ∧
    Scalar.floor x ≤ x ∧ x ≤ Scalar.ceil x :=
  let ⟨h1, h2, h3, h4, h5, h6⟩ := scalar_round_facts x
  ⟨h1, h2, h3, h4, h5, h6, by rw [sn_floor]; exact Int.floor_le x, by rw [sn_ceil]; exact Int.le_ceil x⟩

/-- `expand` rounds away from zero: it is `floor` on negatives and `ceil` otherwise, so its magnitude is at least
    `|x|`, it keeps the sign, and it is the nearest such integer -/
theorem scalar_expand_away (x : K) :
    fexpand x = (if x < 0 then Scalar.floor x else Scalar.ceil x) ∧ |x| ≤ |fexpand x| ∧ |fexpand x| < |x| + 1 ∧
    (x < 0 → fexpand x < 0) ∧ (0 < x → 0 < fexpand x) ∧ (x = 0 → fexpand x = 0) := by
  obtain ⟨s1, s2, s3⟩ := fexpand_sign x
  refine ⟨by rw [sn_floor, sn_ceil]; exact fexpand_eq x, abs_le_abs_fexpand x, ?_, s1, s2, s3⟩
  rw [fexpand_eq]; split_ifs with h
  · have h1 : (⌊x⌋ : K) ≤ x := Int.floor_le x
    have h2 := Int.lt_floor_add_one x
    rw [abs_of_neg h, abs_of_neg (lt_of_le_of_lt h1 h)]; linarith
  · have hx : 0 ≤ x := not_lt.mp h
    have h1 : x ≤ (⌈x⌉ : K) := Int.le_ceil x
    have h2 := Int.ceil_lt_add_one x
    rw [abs_of_nonneg hx, abs_of_nonneg (hx.trans h1)]; exact h2

/-- `trunc` rounds toward zero -/
theorem scalar_trunc_toward (x : K) :
    Scalar.trunc x = (if x < 0 then Scalar.ceil x else Scalar.floor x) ∧ |Scalar.trunc x| ≤ |x| ∧
    |x| < |Scalar.trunc x| + 1 := by
  refine ⟨by rw [sn_floor, sn_ceil]; exact strunc_eq x, abs_strunc_le x, ?_⟩
  rw [sn_trunc]; split_ifs with h
  · have h1 : (⌈x⌉ : K) ≤ 0 := by
      have : ⌈x⌉ ≤ (0 : ℤ) := Int.ceil_le.mpr (by simpa using h.le)
      exact_mod_cast this
    have h2 := Int.ceil_lt_add_one x
    rw [abs_of_nonpos h1, abs_of_neg h]; linarith
  · have hx : 0 ≤ x := not_lt.mp h
    have h1 : (0 : K) ≤ (⌊x⌋ : K) := by
      have : (0 : ℤ) ≤ ⌊x⌋ := Int.floor_nonneg.mpr hx
      exact_mod_cast this
    rw [abs_of_nonneg h1, abs_of_nonneg hx]
    exact Int.lt_floor_add_one x

/-- `round` is within one half -/
theorem scalar_round_nearest (x : K) : |Scalar.round x - x| ≤ 1/2 := abs_sround_sub_le x

/-- all five helpers return integers -/
theorem scalar_rounding_integral (x : K) :
    IsInt (Scalar.floor x) ∧ IsInt (Scalar.ceil x) ∧ IsInt (Scalar.trunc x) ∧ IsInt (Scalar.round x) ∧
    IsInt (fexpand x) :=
  ⟨by rw [sn_floor]; exact isInt_intCast _, by rw [sn_ceil]; exact isInt_intCast _, isInt_strunc x, isInt_sround x,
    isInt_fexpand x⟩
example : Scalar.floor (-5/2 : ℚ) = -3 ∧ Scalar.trunc (-5/2 : ℚ) = -2 ∧ Scalar.round (-5/2 : ℚ) = -3 ∧
    Scalar.ceil (-5/2 : ℚ) = -2 ∧ fexpand (-5/2 : ℚ) = -3 ∧ Scalar.round (5/2 : ℚ) = 3 ∧ fexpand (1/4 : ℚ) = 1 := by
  decide +kernel

/-- component-wise on `Point` -/
theorem point_rounding (p : Point K) :
    p.floor.Le p.trunc ∧ p.trunc.Le p.ceil ∧ p.floor.Le p.round ∧ p.round.Le p.ceil ∧
    p.floor.Le p.expand ∧ p.expand.Le p.ceil ∧
    |p.x| ≤ |p.expand.x| ∧ |p.y| ≤ |p.expand.y| ∧ |p.trunc.x| ≤ |p.x| ∧ |p.trunc.y| ≤ |p.y| := by
  obtain ⟨x1, x2, x3, x4, x5, x6⟩ := scalar_round_facts p.x
  obtain ⟨y1, y2, y3, y4, y5, y6⟩ := scalar_round_facts p.y
  exact ⟨⟨x1, y1⟩, ⟨x2, y2⟩, ⟨x3, y3⟩, ⟨x4, y4⟩, ⟨x5, y5⟩, ⟨x6, y6⟩, abs_le_abs_fexpand _, abs_le_abs_fexpand _,
    abs_strunc_le _, abs_strunc_le _⟩
example : (⟨-5/2, 1/4⟩ : Point ℚ).expand = ⟨-3, 1⟩ ∧ (⟨-5/2, 1/4⟩ : Point ℚ).trunc = ⟨-2, 0⟩ ∧
    (⟨-5/2, 1/4⟩ : Point ℚ).round = ⟨-3, 0⟩ := by decide +kernel

/-- component-wise on `Vec2` -/
theorem vec2_rounding (p : Vec2 K) :
    p.floor.Le p.trunc ∧ p.trunc.Le p.ceil ∧ p.floor.Le p.round ∧ p.round.Le p.ceil ∧
    p.floor.Le p.expand ∧ p.expand.Le p.ceil ∧
    |p.x| ≤ |p.expand.x| ∧ |p.y| ≤ |p.expand.y| ∧ |p.trunc.x| ≤ |p.x| ∧ |p.trunc.y| ≤ |p.y| := by
  obtain ⟨x1, x2, x3, x4, x5, x6⟩ := scalar_round_facts p.x
  obtain ⟨y1, y2, y3, y4, y5, y6⟩ := scalar_round_facts p.y
  exact ⟨⟨x1, y1⟩, ⟨x2, y2⟩, ⟨x3, y3⟩, ⟨x4, y4⟩, ⟨x5, y5⟩, ⟨x6, y6⟩, abs_le_abs_fexpand _, abs_le_abs_fexpand _,
    abs_strunc_le _, abs_strunc_le _⟩

/-- component-wise on `Size` -/
theorem size_rounding (s : Size K) :
    s.floor.Le s.trunc ∧ s.trunc.Le s.ceil ∧ s.floor.Le s.round ∧ s.round.Le s.ceil ∧
    s.floor.Le s.expand ∧ s.expand.Le s.ceil ∧
    |s.width| ≤ |s.expand.width| ∧ |s.height| ≤ |s.expand.height| ∧
    |s.trunc.width| ≤ |s.width| ∧ |s.trunc.height| ≤ |s.height| := by
  obtain ⟨x1, x2, x3, x4, x5, x6⟩ := scalar_round_facts s.width
  obtain ⟨y1, y2, y3, y4, y5, y6⟩ := scalar_round_facts s.height
  exact ⟨⟨x1, y1⟩, ⟨x2, y2⟩, ⟨x3, y3⟩, ⟨x4, y4⟩, ⟨x5, y5⟩, ⟨x6, y6⟩, abs_le_abs_fexpand _, abs_le_abs_fexpand _,
    abs_strunc_le _, abs_strunc_le _⟩
example : (⟨-5/2, 1/4⟩ : Size ℚ).expand = ⟨-3, 1⟩ := by decide +kernel

/-- the methods dispatched through the `M…` classes are these functions -/
theorem rounding_dispatch (p : Point K) (v : Vec2 K) (s : Size K) (r : Rect K) :
    MFloor.floor p = p.floor ∧ MCeil.ceil p = p.ceil ∧ MRound.round p = p.round ∧ MTrunc.trunc p = p.trunc ∧
    MExpand.expand p = p.expand ∧
    MFloor.floor v = v.floor ∧ MCeil.ceil v = v.ceil ∧ MRound.round v = v.round ∧ MTrunc.trunc v = v.trunc ∧
    MExpand.expand v = v.expand ∧
    MFloor.floor s = s.floor ∧ MCeil.ceil s = s.ceil ∧ MRound.round s = s.round ∧ MTrunc.trunc s = s.trunc ∧
    MExpand.expand s = s.expand ∧
    MFloor.floor r = r.floor ∧ MCeil.ceil r = r.ceil ∧ MRound.round r = r.round ∧ MTrunc.trunc r = r.trunc ∧
    MExpand.expand r = r.expand ∧ MAbs.abs r = r.abs :=
  ⟨rfl, rfl, rfl, rfl, rfl, rfl, rfl, rfl, rfl, rfl, rfl, rfl, rfl, rfl, rfl, rfl, rfl, rfl, rfl, rfl, rfl⟩

/-- `Rect.floor ≤ Rect.round ≤ Rect.ceil` coordinate-wise; for non-negative extent
    `Rect.expand = (floor low corner, ceil high corner)` and `Rect.trunc = (ceil low corner, floor high corner)` -/
theorem rect_rounding (r : Rect K) :
    r.floor.CoordLe r.round ∧ r.round.CoordLe r.ceil ∧
    (r.Nonneg → r.expand = ⟨r.floor.x0, r.floor.y0, r.ceil.x1, r.ceil.y1⟩ ∧
      r.trunc = ⟨r.ceil.x0, r.ceil.y0, r.floor.x1, r.floor.y1⟩) := by
  obtain ⟨-, -, a3, a4, -, -⟩ := scalar_round_facts r.x0
  obtain ⟨-, -, b3, b4, -, -⟩ := scalar_round_facts r.y0
  obtain ⟨-, -, c3, c4, -, -⟩ := scalar_round_facts r.x1
  obtain ⟨-, -, d3, d4, -, -⟩ := scalar_round_facts r.y1
  refine ⟨⟨a3, b3, c3, d3⟩, ⟨a4, b4, c4, d4⟩, fun h => ?_⟩
  rw [h.expand_eq, h.trunc_eq, Rect.floor_eq, Rect.ceil_eq]
  simp only [sn_floor, sn_ceil, and_self]
example : (⟨1/2, -3/2, 5/2, 1⟩ : Rect ℚ).round = ⟨1, -2, 3, 1⟩ := by decide +kernel

end Kurbo
