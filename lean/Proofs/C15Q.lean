import Proofs.C15
import Proofs.Lemmas.C15QRoots
/-! C15Q – the GENERAL path of `solve_quartic` (extension of C15).

    All theorems are about the hand-written model `Kurbo/Quartic.lean` (`epsRel`, `calcEpsQ/T`, `resolventGH`, `quarticPhi`,
    `ldlSelect`, `ldlInit`, `quarticNewton`, `factorQuarticInner`, `solveQuarticInner`, `solveQuarticGeneral`,
    `solveQuartic`) exactly as it is, read in EXACT arithmetic (a lawful scalar: `is_finite()` is always true, a quotient is
    "not finite" iff its divisor is 0).  The `Float` instantiation of the same definitions is compared bit-for-bit with the
    crate by `gen/c15.py` (ops `solve.quartic_full`, `solve.factor_quartic`).

    What is proved.
    A. `eps_rel`: `epsRel_eq_zero_iff` (`epsRel raw a = 0 ↔ raw = a`, both branches `a = 0` / `a ≠ 0`), `epsRel_nonneg`;
       `calcEpsT_eq_zero_iff`: `eps_t = 0` iff the four coefficient identities of
       `(x² + α₁x + β₁)(x² + α₂x + β₂) = x⁴ + a x³ + b x² + c x + d` hold.
    B. factorisation soundness.
       * `resolventGH_shift_invariant`: `(g', h')` computed from the shifted quartic are the invariants `g = ac − 4d − b²/3`,
         `h = (ac + 8d − 2b²/9)·b/3 − c² − a²d` of the ORIGINAL quartic, whatever the shift `s` is (the shift is purely numerical);
         `resolventGH_rescaled`: with `rescale` they are `g/K_C²`, `h/K_C³`; `quarticPhi_exact`: if the value
         `depressed_cubic_dominant` returns is a root of the cubic it was given, then `phi` (multiplied back by `K_C`) is a
         root of `φ³ + gφ + h`, in both modes.
       * `ldlSelect_exact`: for an exact root `phi` whose `d_2_cand_1 = 2b/3 − φ − a²/4` lies above the noise threshold
         `64ε(|b| + |φ| + a²/4)`, the candidate loop selects candidate 1 and the selected `(l_1, l_3, d_2, l_2)` satisfies the
         LDLᵀ identities `d_2 + l_1² + 2l_3 = b`, `2(d_2 l_2 + l_1 l_3) = c`, `d_2 l_2² + l_3² = d` (and `2 l_1 = a`);
         `ldlSelect_exact_zero`: if `d_2_cand_1 = 0` then `d_2 = 0`, `l_1² + 2l_3 = b`, `2 l_1 l_3 = c`.
       * `ldlInit_neg_exact` (branch `d_2 < 0`) and `ldlInit_zero_exact` (branch `d_2 = 0`): from the LDLᵀ identities the
         pair computed BEFORE the Newton loop satisfies the four coefficient identities.  The `beta` replacement
         (`beta_2 = d / beta_1` …) returns the value it replaces, and every finite alpha candidate equals the alpha it
         replaces, so the selection changes nothing (lemmas `betaFixNeg_exact`, `betaFixZero_exact`, `alphaSelect_exact`).
       * `factorQuarticInner_exact_neg`, `factorQuarticInner_exact_zero`: the composition – with an exact resolvent root,
         `factor_quartic_inner` returns `Some` of an exact factorisation (the Newton loop sees `eps_t = 0` and returns at once).
    C. Newton loop: `quarticNewton_fixed_of_exact` (zero residuals: input returned unchanged, any iteration count),
       `quarticNewton_monotone` (`eps_t` of the result ≤ `eps_t` of the input), `quarticNewton_eq_or_lt` (the result is the
       input or strictly better).
    D. roots: `solveQuarticInner_roots` – when `factor_quartic_inner` returns a pair, `solve_quartic_inner` returns exactly
       the real roots of the product of the two quadratics, at most 4 values; `solveQuarticInner_exact`: if the pair is an
       exact factorisation these are exactly the real roots of the quartic; `solveQuartic_general_exact` (lawful `K`, square
       roots exact where taken) and `solveQuartic_general_exact_real` (ℝ, no square-root hypothesis): in the general case
       (`c4 ≠ 0`, `c0 ≠ 0`, not biquadratic), with an exact resolvent root and `d_2 < 0` above the noise threshold or
       `d_2 = 0`, `solve_quartic` returns exactly the real roots of `c0 + c1 x + c2 x² + c3 x³ + c4 x⁴`.
    E. `d_2 > 0`: `ldlInit_isSome_iff` (`None` iff `d_2 > 0`); `quartic_roots_of_pos_d2`: then the quartic is
       `(x² + l_1 x + l_3)² + d_2 (x + l_2)²`, so it has NO real root unless `x = −l_2` happens to be a root of
       `x² + l_1 x + l_3` (a real double root of the quartic), in which case that is its only real root;
       `factorQuarticInner_none_of_pos`: the composition with an exact resolvent root.

    What is NOT proved.
    * Nothing about `Float` (rounding, overflow, the purpose of the shift, of `K_Q`/`K_C`, of the candidate selections).
    * `depressed_cubic_dominant` itself: that it returns a root of `x³ + gx + h` (let alone the dominant one) is a HYPOTHESIS
      (`hphi`) of the composite theorems.  Statement left open (over ℝ with `LawfulReal` + laws for `acos`):
      `theorem depressedCubicDominant_root (g h : ℝ) : (depressedCubicDominant g h)^3 + g * depressedCubicDominant g h + h = 0`.
    * The noise test is part of the model: when `0 < |d_2_cand_1| ≤ 64ε(…)` the code sets `d_2 = 0` and the pair before the
      Newton loop is NOT exact; only `quarticNewton_monotone` speaks about that case.
    * In case E with the degenerate double root, and when `d_3 = d − l_3² > 0` in the `d_2 = 0` branch (square root of a
      negative number; the quartic then has no real root), nothing is proved about the returned list.
    * The rescaling retries (`K_Q`): only `quarticKQpow_eq` (helper: the divisors are the powers of one constant); that the
      retried attempts return the roots multiplied back is not proved – in exact arithmetic they are reached only when the
      first attempt returned `None`.
    * Completeness/soundness of `solve_quartic` when the first attempt returns `None` (`d_2 > 0`).
    Helper lemmas: `Proofs/Lemmas/C15QBasic.lean`, `C15QFactor.lean`, `C15QSelect.lean`, `C15QRoots.lean`. -/
set_option linter.unusedSectionVars false

namespace Kurbo
variable {K : Type} [Field K] [LinearOrder K] [IsStrictOrderedRing K] [FloorRing K] [Scalar K] [LawfulScalar K]

/-! ## A. `eps_rel` -/

theorem epsRel_eq_zero_iff (raw a : K) : epsRel raw a = 0 ↔ raw = a := epsRel_eq_zero_iff' raw a

theorem epsRel_nonneg (raw a : K) : 0 ≤ epsRel raw a := epsRel_nonneg' raw a

example : epsRel (3 : Rat) 0 = 3 ∧ epsRel (3 : Rat) 2 = 1 / 2 ∧ epsRel (2 : Rat) 2 = 0 := by decide +kernel

theorem calcEpsT_eq_zero_iff (a b c d a1 b1 a2 b2 : K) :
    calcEpsT a b c d a1 b1 a2 b2 = 0 ↔
      a1 + a2 = a ∧ b1 + a1 * a2 + b2 = b ∧ b1 * a2 + a1 * b2 = c ∧ b1 * b2 = d :=
  calcEpsT_eq_zero_iff' a b c d a1 b1 a2 b2

-- (x² − x + 1)(x² − 3x + 2) = x⁴ − 4x³ + 6x² − 5x + 2
example : calcEpsT (-4 : Rat) 6 (-5) 2 (-1) 1 (-3) 2 = 0 := by decide +kernel

/-! ## B. factorisation soundness -/

theorem resolventGH_shift_invariant (a b c d : K) :
    resolventGH a b c d false = (resolventG a b c d, resolventH a b c d) := resolventGH_false a b c d

theorem resolventGH_rescaled (a b c d : K) :
    resolventGH a b c d true = (resolventG a b c d / (quarticKC : K) ^ 2, resolventH a b c d / (quarticKC : K) ^ 3) :=
  resolventGH_true a b c d

example : resolventGH (-4 : Rat) 6 (-5) 2 false = (0, -1) := by decide +kernel

/-- if `depressed_cubic_dominant` returns a root of the cubic it is given, `phi` is a root of the resolvent of the quartic -/
theorem quarticPhi_exact (a b c d : K) (rescale : Bool)
    (hd : (depressedCubicDominant (resolventGH a b c d rescale).1 (resolventGH a b c d rescale).2) ^ 3 +
      (resolventGH a b c d rescale).1 * depressedCubicDominant (resolventGH a b c d rescale).1 (resolventGH a b c d rescale).2 +
      (resolventGH a b c d rescale).2 = 0) :
    ∃ phi, quarticPhi a b c d rescale = some phi ∧ phi ^ 3 + resolventG a b c d * phi + resolventH a b c d = 0 := by
  cases rescale with
  | false =>
    rw [resolventGH_false] at hd
    exact ⟨_, quarticPhi_false a b c d, hd⟩
  | true =>
    rw [resolventGH_true] at hd
    exact ⟨_, quarticPhi_true a b c d, resolvent_root_rescale quarticKC_pos.ne' hd⟩

-- over `Rat` the model's cube root is the identity, which is right at ±1: here g = 0, h = −1, phi = 1
example : quarticPhi (-4 : Rat) 6 (-5) 2 false = some 1 := by decide +kernel
example : (1 : Rat) ^ 3 + resolventG (-4 : Rat) 6 (-5) 2 * 1 + resolventH (-4 : Rat) 6 (-5) 2 = 0 := by
  unfold resolventG resolventH; norm_num

theorem ldlSelect_exact {a b c d phi : K} (hphi : phi ^ 3 + resolventG a b c d * phi + resolventH a b c d = 0)
    (hthr : ldlNoise a b phi < |ldlD1 a b phi|) :
    (ldlSelect a b c d phi).2.2.1 = ldlD1 a b phi ∧
    2 * (ldlSelect a b c d phi).1 = a ∧
    (ldlSelect a b c d phi).2.2.1 + (ldlSelect a b c d phi).1 * (ldlSelect a b c d phi).1 + 2 * (ldlSelect a b c d phi).2.1 = b ∧
    2 * ((ldlSelect a b c d phi).2.2.1 * (ldlSelect a b c d phi).2.2.2 + (ldlSelect a b c d phi).1 * (ldlSelect a b c d phi).2.1) = c ∧
    (ldlSelect a b c d phi).2.2.1 * (ldlSelect a b c d phi).2.2.2 * (ldlSelect a b c d phi).2.2.2 +
      (ldlSelect a b c d phi).2.1 * (ldlSelect a b c d phi).2.1 = d :=
  ldlSelect_exact_ne hphi hthr

example : ldlNoise (-4 : Rat) 6 1 < |ldlD1 (-4 : Rat) 6 1| ∧ ldlD1 (-4 : Rat) 6 1 = -1 := by
  unfold ldlNoise ldlD1; norm_num
example : ldlSelect (-4 : Rat) 6 (-5) 2 1 = (-2, 3 / 2, -1, -1 / 2) := by decide +kernel

theorem ldlSelect_exact_d2_zero {a b c d phi : K} (hphi : phi ^ 3 + resolventG a b c d * phi + resolventH a b c d = 0)
    (hD : ldlD1 a b phi = 0) :
    (ldlSelect a b c d phi).2.2.1 = 0 ∧
    2 * (ldlSelect a b c d phi).1 = a ∧
    (ldlSelect a b c d phi).1 * (ldlSelect a b c d phi).1 + 2 * (ldlSelect a b c d phi).2.1 = b ∧
    2 * ((ldlSelect a b c d phi).1 * (ldlSelect a b c d phi).2.1) = c :=
  ldlSelect_exact_zero hphi hD

-- (x² + 2x + 1)(x² + 2x + 3) = x⁴ + 4x³ + 8x² + 8x + 3, phi = 4/3
example : (4 / 3 : Rat) ^ 3 + resolventG (4 : Rat) 8 8 3 * (4 / 3) + resolventH (4 : Rat) 8 8 3 = 0 ∧ ldlD1 (4 : Rat) 8 (4 / 3) = 0 := by
  unfold resolventG resolventH ldlD1; norm_num

/-- branch `d_2 < 0`: an exact LDLᵀ decomposition gives an exact pair of quadratics before the Newton loop -/
theorem ldlInit_neg_exact {a b c d l_1 l_3 d_2 l_2 : K} (ha : 2 * l_1 = a) (h1 : d_2 + l_1 * l_1 + 2 * l_3 = b)
    (h2 : 2 * (d_2 * l_2 + l_1 * l_3) = c) (h3 : d_2 * l_2 * l_2 + l_3 * l_3 = d) (hd : d_2 < 0)
    (hs : SqrtExact (-d_2)) :
    ∃ z0, ldlInit a b c d l_1 l_3 d_2 l_2 = some z0 ∧
      z0.1 + z0.2.2.1 = a ∧ z0.2.1 + z0.1 * z0.2.2.1 + z0.2.2.2 = b ∧ z0.2.1 * z0.2.2.1 + z0.1 * z0.2.2.2 = c ∧
      z0.2.1 * z0.2.2.2 = d := by
  have hss := hs.2
  refine ⟨_, ldlInit_neg_eq ha h1 h2 h3 hd hs, ?_, ?_, ?_, ?_⟩ <;> dsimp only
  · linear_combination ha
  · linear_combination h1 - hss
  · linear_combination h2 - 2 * l_2 * hss
  · linear_combination h3 - l_2 * l_2 * hss

example : (2 * (-2 : Rat) = -4 ∧ (-1 : Rat) + (-2) * (-2) + 2 * (3 / 2) = 6 ∧ 2 * ((-1 : Rat) * (-1 / 2) + (-2) * (3 / 2)) = -5 ∧
    (-1 : Rat) * (-1 / 2) * (-1 / 2) + 3 / 2 * (3 / 2) = 2 ∧ (-1 : Rat) < 0) ∧ SqrtExact (-(-1 : Rat)) :=
  ⟨by norm_num, by unfold SqrtExact; decide +kernel⟩
example : ldlInit (-4 : Rat) 6 (-5) 2 (-2) (3 / 2) (-1) (-1 / 2) = some (-1, 1, -3, 2) := by decide +kernel

/-- branch `d_2 = 0`: the quartic is `(x² + l_1 x + l_3)² + d_3` and the pair `x² + l_1 x + l_3 ± √−d_3` is exact -/
theorem ldlInit_zero_exact {a b c d l_1 l_3 l_2 : K} (ha : 2 * l_1 = a) (h1 : l_1 * l_1 + 2 * l_3 = b)
    (h2 : 2 * (l_1 * l_3) = c) (hs : SqrtExact (-(d - l_3 * l_3))) :
    ∃ z0, ldlInit a b c d l_1 l_3 0 l_2 = some z0 ∧
      z0.1 + z0.2.2.1 = a ∧ z0.2.1 + z0.1 * z0.2.2.1 + z0.2.2.2 = b ∧ z0.2.1 * z0.2.2.1 + z0.1 * z0.2.2.2 = c ∧
      z0.2.1 * z0.2.2.2 = d := by
  have hss := hs.2
  refine ⟨_, ldlInit_zero_eq hs, ?_, ?_, ?_, ?_⟩ <;> dsimp only
  · linear_combination ha
  · linear_combination h1
  · linear_combination h2
  · linear_combination (-1 : K) * hss

example : SqrtExact (-((3 : Rat) - 2 * 2)) := by unfold SqrtExact; decide +kernel
example : ldlInit (4 : Rat) 8 8 3 2 2 0 0 = some (2, 3, 2, 1) := by decide +kernel

/-- `factor_quartic_inner` with an exact resolvent root, `d_2 < 0` above the noise threshold: an exact factorisation -/
theorem factorQuarticInner_exact_neg {a b c d : K} {rescale : Bool} {phi : K}
    (hq : quarticPhi a b c d rescale = some phi)
    (hphi : phi ^ 3 + resolventG a b c d * phi + resolventH a b c d = 0)
    (hneg : ldlD1 a b phi < 0) (hthr : ldlNoise a b phi < |ldlD1 a b phi|) (hs : SqrtExact (-(ldlD1 a b phi))) :
    ∃ a1 b1 a2 b2, factorQuarticInner a b c d rescale = some ((a1, b1), (a2, b2)) ∧
      a1 + a2 = a ∧ b1 + a1 * a2 + b2 = b ∧ b1 * a2 + a1 * b2 = c ∧ b1 * b2 = d := by
  obtain ⟨e1, ha, h1, h2, h3⟩ := ldlSelect_exact_ne hphi hthr
  obtain ⟨z0, hi, hex⟩ := ldlInit_neg_exact ha h1 h2 h3 (by rw [e1]; exact hneg) (by rw [e1]; exact hs)
  exact ⟨_, _, _, _, factorQuarticInner_of_exact_init hq hi hex, hex⟩

example : factorQuarticInner (-4 : Rat) 6 (-5) 2 false = some ((-1, 1), (-3, 2)) := by decide +kernel
example : ldlD1 (-4 : Rat) 6 1 < 0 ∧ SqrtExact (-(ldlD1 (-4 : Rat) 6 1)) :=
  ⟨by unfold ldlD1; norm_num, by unfold SqrtExact ldlD1; decide +kernel⟩

/-- the same in the branch `d_2 = 0` (the two quadratic factors have the same linear coefficient) -/
theorem factorQuarticInner_exact_zero {a b c d : K} {rescale : Bool} {phi : K}
    (hq : quarticPhi a b c d rescale = some phi)
    (hphi : phi ^ 3 + resolventG a b c d * phi + resolventH a b c d = 0)
    (hD : ldlD1 a b phi = 0)
    (hs : SqrtExact (-(d - (ldlSelect a b c d phi).2.1 * (ldlSelect a b c d phi).2.1))) :
    ∃ a1 b1 a2 b2, factorQuarticInner a b c d rescale = some ((a1, b1), (a2, b2)) ∧
      a1 + a2 = a ∧ b1 + a1 * a2 + b2 = b ∧ b1 * a2 + a1 * b2 = c ∧ b1 * b2 = d := by
  obtain ⟨e1, ha, h1, h2⟩ := ldlSelect_exact_zero hphi hD
  obtain ⟨z0, hi, hex⟩ := ldlInit_zero_exact (l_2 := (ldlSelect a b c d phi).2.2.2) (d := d) ha h1 h2 hs
  rw [← e1] at hi
  exact ⟨_, _, _, _, factorQuarticInner_of_exact_init hq hi hex, hex⟩

/-! ## C. Newton loop -/

/-- zero residuals: the loop returns its input unchanged (whatever the iteration count) -/
theorem quarticNewton_fixed_of_exact (a b c d : K) (n : Nat) (z : K × K × K × K)
    (hex : z.1 + z.2.2.1 = a ∧ z.2.1 + z.1 * z.2.2.1 + z.2.2.2 = b ∧ z.2.1 * z.2.2.1 + z.1 * z.2.2.2 = c ∧
      z.2.1 * z.2.2.2 = d) :
    quarticNewton a b c d n z (calcEpsT a b c d z.1 z.2.1 z.2.2.1 z.2.2.2) = z := by
  rw [(calcEpsT_eq_zero_iff' a b c d _ _ _ _).mpr hex]; exact quarticNewton_zero' a b c d n z

/-- the loop only accepts strict improvements: `calc_eps_t` of the result is at most that of the input -/
theorem quarticNewton_monotone (a b c d : K) (n : Nat) (z : K × K × K × K) :
    newtonEps a b c d (quarticNewton a b c d n z (newtonEps a b c d z)) ≤ newtonEps a b c d z :=
  quarticNewton_le' a b c d n z

theorem quarticNewton_eq_or_lt (a b c d : K) (n : Nat) (z : K × K × K × K) :
    quarticNewton a b c d n z (newtonEps a b c d z) = z ∨
      newtonEps a b c d (quarticNewton a b c d n z (newtonEps a b c d z)) < newtonEps a b c d z :=
  quarticNewton_eq_or_lt' a b c d n z

-- an inexact start over `Rat`: x⁴ − 4x³ + 6x² − 5x + 2 from (−1, 1, −3, 21/10): eps_t = 13/150; one Newton step is accepted
-- (the residual is linear in beta_2 here, so the step lands on the exact pair)
example : newtonEps (-4 : Rat) 6 (-5) 2 (-1, 1, -3, 21 / 10) = 13 / 150 := by decide +kernel
example : quarticNewton (-4 : Rat) 6 (-5) 2 1 (-1, 1, -3, 21 / 10) (13 / 150) = (-1, 1, -3, 2) := by decide +kernel

/-! ## D. the roots `solve_quartic_inner` returns -/

theorem solveQuarticInner_roots {a b c d : K} {rescale : Bool} {a1 b1 a2 b2 : K}
    (hf : factorQuarticInner a b c d rescale = some ((a1, b1), (a2, b2)))
    (hs1 : 0 < quadArg b1 a1 1 → SqrtExact (quadArg b1 a1 1)) (hs2 : 0 < quadArg b2 a2 1 → SqrtExact (quadArg b2 a2 1)) :
    ∃ r, solveQuarticInner a b c d rescale = some r ∧ r.length ≤ 4 ∧
      ∀ x, x ∈ r ↔ (x ^ 2 + a1 * x + b1) * (x ^ 2 + a2 * x + b2) = 0 :=
  solveQuarticInner_of_factor hf hs1 hs2

example : (0 < quadArg (1 : Rat) (-1) 1 → SqrtExact (quadArg (1 : Rat) (-1) 1)) ∧
    (0 < quadArg (2 : Rat) (-3) 1 → SqrtExact (quadArg (2 : Rat) (-3) 1)) :=
  ⟨fun h => absurd h (by unfold quadArg; norm_num), fun _ => by unfold SqrtExact quadArg; decide +kernel⟩
example : solveQuarticInner (-4 : Rat) 6 (-5) 2 false = some [1, 2] := by decide +kernel

/-- an exact factorisation: exactly the real roots of the quartic -/
theorem solveQuarticInner_exact {a b c d : K} {rescale : Bool} {a1 b1 a2 b2 : K}
    (hf : factorQuarticInner a b c d rescale = some ((a1, b1), (a2, b2)))
    (hex : a1 + a2 = a ∧ b1 + a1 * a2 + b2 = b ∧ b1 * a2 + a1 * b2 = c ∧ b1 * b2 = d)
    (hs1 : 0 < quadArg b1 a1 1 → SqrtExact (quadArg b1 a1 1)) (hs2 : 0 < quadArg b2 a2 1 → SqrtExact (quadArg b2 a2 1)) :
    ∃ r, solveQuarticInner a b c d rescale = some r ∧ r.length ≤ 4 ∧
      ∀ x, x ∈ r ↔ x ^ 4 + a * x ^ 3 + b * x ^ 2 + c * x + d = 0 := by
  obtain ⟨r, hr, hl, hm⟩ := solveQuarticInner_of_factor hf hs1 hs2
  refine ⟨r, hr, hl, fun x => ?_⟩
  rw [hm x, factor_identity hex.1 hex.2.1 hex.2.2.1 hex.2.2.2 x]

/-- the general case of `solve_quartic` (lawful `K`; `hsq`: the square roots the code takes are exact): with an exact
    resolvent root and `d_2 < 0` above the noise threshold, or `d_2 = 0` and `d ≤ l_3²`, exactly the real roots -/
theorem solveQuartic_general_exact (c0 c1 c2 c3 c4 : K) (h4 : c4 ≠ 0) (h0 : c0 ≠ 0) (h31 : ¬ (c3 = 0 ∧ c1 = 0)) (phi : K)
    (hsq : ∀ y : K, 0 ≤ y → SqrtExact y)
    (hq : quarticPhi (c3 / c4) (c2 / c4) (c1 / c4) (c0 / c4) false = some phi)
    (hphi : phi ^ 3 + resolventG (c3 / c4) (c2 / c4) (c1 / c4) (c0 / c4) * phi + resolventH (c3 / c4) (c2 / c4) (c1 / c4) (c0 / c4) = 0)
    (hcase : (ldlD1 (c3 / c4) (c2 / c4) phi < 0 ∧ ldlNoise (c3 / c4) (c2 / c4) phi < |ldlD1 (c3 / c4) (c2 / c4) phi|) ∨
      (ldlD1 (c3 / c4) (c2 / c4) phi = 0 ∧
        c0 / c4 ≤ (ldlSelect (c3 / c4) (c2 / c4) (c1 / c4) (c0 / c4) phi).2.1 * (ldlSelect (c3 / c4) (c2 / c4) (c1 / c4) (c0 / c4) phi).2.1)) :
    (solveQuartic c0 c1 c2 c3 c4).length ≤ 4 ∧
    ∀ x, x ∈ solveQuartic c0 c1 c2 c3 c4 ↔ c0 + c1 * x + c2 * x ^ 2 + c3 * x ^ 3 + c4 * x ^ 4 = 0 := by
  have hf : ∃ a1 b1 a2 b2, factorQuarticInner (c3 / c4) (c2 / c4) (c1 / c4) (c0 / c4) false = some ((a1, b1), (a2, b2)) ∧
      a1 + a2 = c3 / c4 ∧ b1 + a1 * a2 + b2 = c2 / c4 ∧ b1 * a2 + a1 * b2 = c1 / c4 ∧ b1 * b2 = c0 / c4 := by
    rcases hcase with ⟨hneg, hthr⟩ | ⟨hD, hd3⟩
    · exact factorQuarticInner_exact_neg hq hphi hneg hthr (hsq _ (by linarith))
    · exact factorQuarticInner_exact_zero hq hphi hD (hsq _ (by linarith))
  obtain ⟨a1, b1, a2, b2, hf, hex⟩ := hf
  obtain ⟨r, hr, hl, hm⟩ := solveQuarticInner_exact hf hex (fun h => hsq _ h.le) (fun h => hsq _ h.le)
  rw [solveQuartic_general_eq c0 c1 c2 c3 c4 h4 h0 h31, solveQuarticGeneral_of_some hr]
  refine ⟨hl, fun x => ?_⟩
  rw [hm x, monic_quartic_scaled c0 c1 c2 c3 c4 x h4, mul_eq_zero, or_iff_right h4]

-- the model runs the whole general path over `Rat` on x⁴ − 4x³ + 6x² − 5x + 2 = (x² − x + 1)(x − 1)(x − 2)
example : solveQuartic (K := Rat) 2 (-5) 6 (-4) 1 = [1, 2] := by decide +kernel
example : (1 : Rat) ≠ 0 ∧ (2 : Rat) ≠ 0 ∧ ¬ ((-4 : Rat) = 0 ∧ (-5 : Rat) = 0) := by norm_num

end Kurbo

namespace Kurbo
section real
variable [Scalar ℝ] [LawfulScalar ℝ] [LawfulReal]

/-- over ℝ (`Scalar.sqrt = Real.sqrt`) no hypothesis on the square roots is needed -/
theorem solveQuartic_general_exact_real (c0 c1 c2 c3 c4 : ℝ) (h4 : c4 ≠ 0) (h0 : c0 ≠ 0) (h31 : ¬ (c3 = 0 ∧ c1 = 0)) (phi : ℝ)
    (hq : quarticPhi (c3 / c4) (c2 / c4) (c1 / c4) (c0 / c4) false = some phi)
    (hphi : phi ^ 3 + resolventG (c3 / c4) (c2 / c4) (c1 / c4) (c0 / c4) * phi + resolventH (c3 / c4) (c2 / c4) (c1 / c4) (c0 / c4) = 0)
    (hcase : (ldlD1 (c3 / c4) (c2 / c4) phi < 0 ∧ ldlNoise (c3 / c4) (c2 / c4) phi < |ldlD1 (c3 / c4) (c2 / c4) phi|) ∨
      (ldlD1 (c3 / c4) (c2 / c4) phi = 0 ∧
        c0 / c4 ≤ (ldlSelect (c3 / c4) (c2 / c4) (c1 / c4) (c0 / c4) phi).2.1 * (ldlSelect (c3 / c4) (c2 / c4) (c1 / c4) (c0 / c4) phi).2.1)) :
    (solveQuartic c0 c1 c2 c3 c4).length ≤ 4 ∧
    ∀ x, x ∈ solveQuartic c0 c1 c2 c3 c4 ↔ c0 + c1 * x + c2 * x ^ 2 + c3 * x ^ 3 + c4 * x ^ 4 = 0 :=
  solveQuartic_general_exact c0 c1 c2 c3 c4 h4 h0 h31 phi (fun y hy => sqrtExact_real y hy) hq hphi hcase

end real
-- the class assumptions are satisfiable: ℝ with Mathlib's functions
example : @LawfulScalar ℝ _ _ _ _ realScalar ∧ @LawfulReal realScalar := ⟨realScalar_lawful, realScalar_lawfulReal⟩
end Kurbo

/-! ## E. `d_2 > 0` -/
namespace Kurbo
variable {K : Type} [Field K] [LinearOrder K] [IsStrictOrderedRing K] [FloorRing K] [Scalar K] [LawfulScalar K]

/-- `None` is returned exactly when `d_2 > 0` -/
theorem ldlInit_isSome_iff_nonpos (a b c d l_1 l_3 d_2 l_2 : K) : (ldlInit a b c d l_1 l_3 d_2 l_2).isSome ↔ d_2 ≤ 0 :=
  ldlInit_isSome_iff a b c d l_1 l_3 d_2 l_2

/-- `d_2 > 0` with exact LDLᵀ identities: `quartic = (x² + l_1 x + l_3)² + d_2 (x + l_2)²`; a real root exists only in the
    degenerate case that `−l_2` is a root of `x² + l_1 x + l_3`, and then it is the only one -/
theorem quartic_roots_of_pos_d2 {a b c d l_1 l_3 d_2 l_2 : K} (ha : 2 * l_1 = a) (h1 : d_2 + l_1 * l_1 + 2 * l_3 = b)
    (h2 : 2 * (d_2 * l_2 + l_1 * l_3) = c) (h3 : d_2 * l_2 * l_2 + l_3 * l_3 = d) (hd : 0 < d_2) (x : K) :
    x ^ 4 + a * x ^ 3 + b * x ^ 2 + c * x + d = 0 ↔ x = -l_2 ∧ l_2 ^ 2 - l_1 * l_2 + l_3 = 0 :=
  ldl_pos_root_iff ha h1 h2 h3 hd x

-- (x² + 1)² + 2 (x + 1)² = x⁴ + 4x² + 4x + 3: l_1 = 0, l_3 = 1, d_2 = 2, l_2 = 1
example : 2 * (0 : Rat) = 0 ∧ (2 : Rat) + 0 * 0 + 2 * 1 = 4 ∧ 2 * ((2 : Rat) * 1 + 0 * 1) = 4 ∧ (2 : Rat) * 1 * 1 + 1 * 1 = 3 ∧
    (0 : Rat) < 2 := by norm_num

/-- no real root at all when `−l_2` is not a root of `x² + l_1 x + l_3` -/
theorem quartic_no_root_of_pos_d2 {a b c d l_1 l_3 d_2 l_2 : K} (ha : 2 * l_1 = a) (h1 : d_2 + l_1 * l_1 + 2 * l_3 = b)
    (h2 : 2 * (d_2 * l_2 + l_1 * l_3) = c) (h3 : d_2 * l_2 * l_2 + l_3 * l_3 = d) (hd : 0 < d_2)
    (hne : l_2 ^ 2 - l_1 * l_2 + l_3 ≠ 0) (x : K) : x ^ 4 + a * x ^ 3 + b * x ^ 2 + c * x + d ≠ 0 :=
  fun h => hne ((ldl_pos_root_iff ha h1 h2 h3 hd x).mp h).2
example : (1 : Rat) ^ 2 - 0 * 1 + 1 ≠ 0 := by norm_num

/-- the composition: exact resolvent root, `d_2_cand_1 > 0` above the noise threshold: `factor_quartic_inner` returns `None`
    and the quartic has no real root other than possibly `−l_2` -/
theorem factorQuarticInner_none_of_pos {a b c d : K} {rescale : Bool} {phi : K}
    (hq : quarticPhi a b c d rescale = some phi)
    (hphi : phi ^ 3 + resolventG a b c d * phi + resolventH a b c d = 0)
    (hpos : 0 < ldlD1 a b phi) (hthr : ldlNoise a b phi < |ldlD1 a b phi|) :
    factorQuarticInner a b c d rescale = none ∧ solveQuarticInner a b c d rescale = none ∧
    ∀ x, x ^ 4 + a * x ^ 3 + b * x ^ 2 + c * x + d = 0 →
      x = -(ldlSelect a b c d phi).2.2.2 := by
  obtain ⟨e1, ha, h1, h2, h3⟩ := ldlSelect_exact_ne hphi hthr
  have hd : 0 < (ldlSelect a b c d phi).2.2.1 := by rw [e1]; exact hpos
  have hn := factorQuarticInner_none_of_init hq (ldlInit_pos_eq (a := a) (b := b) (c := c) (d := d)
    (l_1 := (ldlSelect a b c d phi).1) (l_3 := (ldlSelect a b c d phi).2.1) (l_2 := (ldlSelect a b c d phi).2.2.2) hd)
  exact ⟨hn, solveQuarticInner_none hn, fun x hx => ((ldl_pos_root_iff ha h1 h2 h3 hd x).mp hx).1⟩

-- x⁴ + 4x² + 4x + 3 with phi = 2/3·4 − 2 = 2/3 (d_2_cand_1 = 2): hypotheses hold over `Rat`
example : (2 / 3 : Rat) ^ 3 + resolventG (0 : Rat) 4 4 3 * (2 / 3) + resolventH (0 : Rat) 4 4 3 = 0 ∧
    0 < ldlD1 (0 : Rat) 4 (2 / 3) ∧ ldlNoise (0 : Rat) 4 (2 / 3) < |ldlD1 (0 : Rat) 4 (2 / 3)| := by
  unfold resolventG resolventH ldlD1 ldlNoise; norm_num

end Kurbo
