import Proofs.Lemmas.C11ELoop
/-! # C11E – `Ellipse::perimeter`: the Kummer series, the AGM loop, bounded work (extension of C11 and C14)

The model is `Kurbo/EllipsePerimeter.lean` (`kummerEllipticPerimeter`, `kummerEllipticPerimeterRange`, `agmState`, `agmStep`,
`agmExit`, `agmLoop` (fuelled, counts its passes), `agmEllipticPerimeterFuel`, `Ellipse.perimeterFuel`, `Ellipse.perimeter`);
the crate agrees with its `Float` instantiation bit for bit, including the number of passes (see gen/c11.py `ellperim_model`,
gen/c14.py `ellperim_work`).  Everything below is over ℝ with the exact laws (`LawfulScalar ℝ`, `LawfulReal`: `Scalar.sqrt = √`,
`LawfulRealAngle`: `Scalar.pi = π`; all inhabited by `realScalar`, last example), or over an arbitrary lawful ordered field
where no square root is involved.  `agmSeq s n` (Lemmas/C11EAgm) is the state at the head of pass `n` (`agmStep` iterated).

## Proved
(a) AGM invariants (`0 < y ≤ x`, `a₀ = 1`, `g₀ = y/x`, `c₀ = √(1 − g₀²)`):
    `agm_invariant_init`, `agm_invariant_step` (one pass keeps `0 < g ≤ a ≤ 1`, `0 ≤ c`, `c² = a² − g²`, `mul = 2ⁿ/2`; `g` does not
    decrease, `a` does not increase, `c' = (a − g)/2`, **`c' ≤ c/2`** – the claim of the source comment is correct as stated –
    and `term' ≤ term/2`), `agm_sequence` (all of it along the whole sequence, `term_n ≤ c₀²/2^(n+1)`, `g_m ≤ g_n ≤ a_n ≤ a_m`
    for `m ≤ n`).
(b) Bounded work (C14): `agmLoop_bounded_work` (from an invariant state with `c₀² ≤ 2^N·acc·g₀`, `acc > 0`: with any fuel
    `≥ max N 1` the loop returns the same state after the same number `≤ max N 1` of passes, and it left by the stopping rule),
    `agmEllipticPerimeter_bounded_work` (for radii `> 0` and EVERY `accuracy > 0`: the explicit `agmPassBound`
    `= max(1, ⌈log₂⌈c₀²/(acc'·g₀)⌉⌉)`, `acc' = accuracy/(2πx)`), `ellipse_perimeter_bounded_work` (the same for
    `Ellipse::perimeter` of ANY ellipse: value and pass count do not depend on the fuel once it is `≥ agmPassBound`;
    in particular for the model's `agmFuel = 4096` whenever the bound is below it: `ellipse_perimeter_eq_of_bound`).
(c) What the stopping rule guarantees: `agmLoop_exit_guarantee` (at exit `term_n ≤ acc'·g_n`; the returned `sum` is
    `1 − Σ_{i≤n} term_i − term_n`; EVERY longer partial sum `S_m = 1 − Σ_{i<m} term_i`, `m > n`, lies in
    `[sum, sum + term_n] ⊆ [sum, sum + acc'·g_n]`; all terms are `≥ 0`), `agm_tail_bound` (`Σ_{i=n+1}^{n+m} term_i ≤ term_n`),
    `agmEllipticPerimeter_value_bracket` (in terms of the returned value `P = 2πx/a_{n+1}·sum` – since the repair 93c0fd9 the loop
    sets `a = (a + g)/2` at the `break`, so the divisor is the NEXT arithmetic mean: `P ≤ 2πx/a_{n+1}·S_m ≤ P + accuracy·g_n/a_{n+1}
    ≤ P + accuracy` for every `m > n`).
(c') What the repair gains: `agm_exit_divisor` (the exit state's `a` is `a_{n+1}`; `g_n ≤ g_{n+1} ≤ a_{n+2} ≤ a_{n+1} ≤ a_n`;
    `a_{n+1} − g_{n+1} = c_{n+1}²/(a_{n+1} + g_{n+1}) ≤ c_{n+1}²/(2g_{n+1})`; every later `g_m ≤ a_m`, `m ≥ n + 1`, lies in
    `[g_{n+1}, a_{n+1}]`, so `0 ≤ a_{n+1} − a_m ≤ c_{n+1}²/(a_{n+1} + g_{n+1})`: SECOND order in `c_{n+1}`; the divisor used before the
    repair satisfies `a_n − a_m ≥ c_{n+1}`: FIRST order), `agmEllipticPerimeter_later_approximants` (both defects together, at every
    finite stage: for every later approximant `T = 2πx/a_m·S_k`, `m ≥ n + 1`, `k ≥ n + 1`:
    `P ≤ T ≤ (P + accuracy·g_n/a_{n+1})·(1 + c_{n+1}²/((a_{n+1} + g_{n+1})·g_{n+1}))`; uses that all partial sums `S_k` are positive).
(d) Kummer: `kummer_symm`, `kummer_circle` (`= 2πr`, exactly), `kummerRange_nonneg`, `kummerRange_circle` (`= 0`),
    `kummer_le_upper`, `kummer_scale` and `kummerRange_scale` (both scale linearly with the radii: comparing the range with an
    ABSOLUTE accuracy is right), `kummer_is_truncated_series` (the value is `π(x+y)·Σ_{n<7} binom(1/2,n)² hⁿ`),
    `kummer_longer_series_le_upper` (for `x, y ≥ 0`: every longer truncation whose coefficient sum is `≤ 4/π` [Jolley 274, taken
    as a hypothesis for that `m`] is `≤ kummer + range`: uses `hⁿ ≤ h⁷` for `n ≥ 7`, `0 ≤ h ≤ 1`, and
    `0.00101416479131503 ≥ 4/π − Σ_{n<7} binom(1/2,n)²` (true by a margin of 1e-20, checked with π to 20 digits)).
(+) `Ellipse::perimeter` branches: `ellipse_perimeter_degenerate` (a zero radius: `4·max`), `ellipse_perimeter_kummer`,
    `ellipse_perimeter_agm` (which function is called when), `ellipse_perimeter_circle` (equal radii: exactly `2πr`, the doc claim).

## NOT proved
* That `2π·x/M·(1 − Σ_{n≥0} 2^(n−1) c_n²)` (`M` the common limit of `a_n`, `g_n`) IS the perimeter of the ellipse (DLMF 19.8.6), and
  that Kummer's series sums to it: the perimeter integral is not defined here; Jolley's `Σ binom(1/2,n)² = 4/π` is a hypothesis of
  `kummer_longer_series_le_upper`, for the single `m` used.
* An error bound `|result − true perimeter| ≤ accuracy` for the AGM branch.  The limit `M` of the `a_n`, `g_n` is not defined here, so
  the statement stops at the finite stages: (c') bounds the distance of `P` from EVERY later approximant by `accuracy·g_n/a_{n+1}` plus
  a relative `c_{n+1}²/((a_{n+1}+g_{n+1})·g_{n+1})`; that this sum is `≤ accuracy` is NOT proved; it was
  evaluated in exact 90-digit arithmetic over aspect ratios 2..1e6 and every exit pass: worst `|true − P|/accuracy` is below 1
  (supremum 1, approached as `c_n → 0`; `P` never exceeds the true value), against 1.09 before the repair (former known finding
  C11-ellipse-perimeter-high-aspect, fixed by 93c0fd9).
* Anything about binary64 rounding: in `Float` the loop does NOT terminate for every positive accuracy (`a` and `g` can stay one
  ulp apart, then `term` grows; seen for accuracy below 1e-30 × size) – the pass bound is a theorem about exact arithmetic; for
  `Float` the pass counts are compared with the crate and with `agmPassBound + 1` on sampled inputs. -/
set_option linter.unusedSectionVars false
namespace Kurbo
open Real

/-! ## (d) Kummer series: any lawful ordered field -/
section kummer
variable {K : Type} [Field K] [LinearOrder K] [IsStrictOrderedRing K] [FloorRing K] [Scalar K] [LawfulScalar K]

/-- symmetric in the radii -/
theorem kummer_symm (x y : K) :
    kummerEllipticPerimeter (⟨x, y⟩ : Vec2 K) = kummerEllipticPerimeter (⟨y, x⟩ : Vec2 K) ∧
      kummerEllipticPerimeterRange (⟨x, y⟩ : Vec2 K) = kummerEllipticPerimeterRange (⟨y, x⟩ : Vec2 K) := by
  rw [kummer_eq, kummer_eq, kummerRange_eq, kummerRange_eq, kummerH_symm x y, add_comm x y]
  exact ⟨rfl, rfl⟩

/-- on a circle the truncated series is exactly `2·π·r` -/
theorem kummer_circle (r : K) : kummerEllipticPerimeter (⟨r, r⟩ : Vec2 K) = 2 * (Scalar.pi : K) * r := by
  rw [kummer_eq, kummerH_self]; ring

/-- on a circle the remainder bound is 0 (so `perimeter` never enters the loop for a circle and `accuracy ≥ 0`) -/
theorem kummerRange_circle (r : K) : kummerEllipticPerimeterRange (⟨r, r⟩ : Vec2 K) = 0 := by
  rw [kummerRange_eq, kummerH_self]; ring

/-- the remainder bound is non-negative -/
theorem kummerRange_nonneg {x y : K} (hpi : 0 ≤ (Scalar.pi : K)) (hxy : 0 ≤ x + y) :
    0 ≤ kummerEllipticPerimeterRange (⟨x, y⟩ : Vec2 K) := by
  rw [kummerRange_eq]
  have := kummerH_nonneg x y
  positivity
example : (0 : ℚ) ≤ 3 + 1 / 2 := by norm_num

/-- lower value ≤ upper value -/
theorem kummer_le_upper {x y : K} (hpi : 0 ≤ (Scalar.pi : K)) (hxy : 0 ≤ x + y) :
    kummerEllipticPerimeter (⟨x, y⟩ : Vec2 K) ≤
      kummerEllipticPerimeter (⟨x, y⟩ : Vec2 K) + kummerEllipticPerimeterRange (⟨x, y⟩ : Vec2 K) :=
  le_add_of_nonneg_right (kummerRange_nonneg hpi hxy)

/-- the series value scales linearly with the radii -/
theorem kummer_scale (t x y : K) :
    kummerEllipticPerimeter (⟨t * x, t * y⟩ : Vec2 K) = t * kummerEllipticPerimeter (⟨x, y⟩ : Vec2 K) := by
  rcases eq_or_ne t 0 with rfl | ht
  · rw [kummer_eq]; simp
  · rw [kummer_eq, kummer_eq, kummerH_scale t x y ht]; ring

/-- the remainder bound scales linearly with the radii: it is an ABSOLUTE error bound, rightly compared with `accuracy` -/
theorem kummerRange_scale (t x y : K) :
    kummerEllipticPerimeterRange (⟨t * x, t * y⟩ : Vec2 K) = t * kummerEllipticPerimeterRange (⟨x, y⟩ : Vec2 K) := by
  rcases eq_or_ne t 0 with rfl | ht
  · rw [kummerRange_eq]; simp
  · rw [kummerRange_eq, kummerRange_eq, kummerH_scale t x y ht]; ring

end kummer

section real
variable [Scalar ℝ] [LawfulScalar ℝ] [LawfulReal] [LawfulRealAngle]

/-- the value is Kummer's series `π(x+y)·Σ binom(1/2,n)² hⁿ` truncated after the term `h⁶` -/
theorem kummer_is_truncated_series (x y : ℝ) :
    kummerEllipticPerimeter (⟨x, y⟩ : Vec2 ℝ) = (x + y) * (π * kummerPartial (kummerH x y) 7) := by
  rw [kummer_eq, kummerPartial_seven, LawfulRealAngle.pi_eq]

/-- every longer truncation of the series whose coefficients sum to at most `4/π` lies below `kummer + range` -/
theorem kummer_longer_series_le_upper {x y : ℝ} (hx : 0 ≤ x) (hy : 0 ≤ y) (m : ℕ)
    (hJ : kummerPartial 1 (7 + m) ≤ 4 / π) :
    (x + y) * (π * kummerPartial (kummerH x y) (7 + m)) ≤
      kummerEllipticPerimeter (⟨x, y⟩ : Vec2 ℝ) + kummerEllipticPerimeterRange (⟨x, y⟩ : Vec2 ℝ) := by
  rw [kummer_is_truncated_series, kummerRange_eq, LawfulRealAngle.pi_eq]
  have h0 := kummerH_nonneg x y
  have h1 := kummerH_le_one hx hy
  have ht := kummerPartial_tail_le h0 h1 m
  have hc := binomSquaredRemainder_ge
  have h7 : 0 ≤ kummerH x y ^ 7 := pow_nonneg h0 7
  have hxy : 0 ≤ x + y := add_nonneg hx hy
  have key : kummerPartial (kummerH x y) (7 + m) ≤
      kummerPartial (kummerH x y) 7 + kummerH x y ^ 7 * (101416479131503 / 100000000000000000) := by
    have : kummerH x y ^ 7 * (kummerPartial 1 (7 + m) - kummerPartial 1 7) ≤
        kummerH x y ^ 7 * (101416479131503 / 100000000000000000) :=
      mul_le_mul_of_nonneg_left (by linarith) h7
    linarith
  have hpi := Real.pi_pos
  calc (x + y) * (π * kummerPartial (kummerH x y) (7 + m))
      ≤ (x + y) * (π * (kummerPartial (kummerH x y) 7 + kummerH x y ^ 7 * (101416479131503 / 100000000000000000))) :=
        mul_le_mul_of_nonneg_left (mul_le_mul_of_nonneg_left key hpi.le) hxy
    _ = _ := by ring
/-- the hypothesis holds e.g. for `m = 1` (8 terms: `Σ = 1.272485… ≤ 4/π = 1.273239…`) -/
example : kummerPartial 1 (7 + 1) ≤ 4 / π := by
  have h7 := kummerPartial_seven 1
  have e : kummerPartial 1 (7 + 1) = kummerPartial 1 7 + (kummerCoeff 7 : ℝ) * 1 ^ 7 := by
    unfold kummerPartial; rw [Finset.sum_range_succ]
  have c7 : (kummerCoeff 7 : ℝ) = 1089 / 4194304 := by
    have : kummerCoeff 7 = 1089 / 4194304 := by simp only [kummerCoeff, halfChoose]; norm_num
    rw [this]; norm_num
  rw [e, h7, c7, le_div_iff₀ Real.pi_pos]
  have := Real.pi_lt_d4
  norm_num at this ⊢
  linarith

/-! ## (a) the AGM invariants -/

/-- the state before the first pass satisfies the invariant -/
theorem agm_invariant_init {x y : ℝ} (hy : 0 < y) (hyx : y ≤ x) :
    AgmInv (agmState x y) 0 ∧ (agmState x y).a = 1 ∧ (agmState x y).g = y / x ∧ (agmState x y).c = √(1 - (y / x) ^ 2) ∧
      (agmState x y).sum = 1 :=
  ⟨agmInv_init hy hyx, (agmState_fields x y).2.1, (agmState_fields x y).2.2.1, (agmState_fields x y).2.2.2.1, (agmState_fields x y).1⟩
example : (0 : ℝ) < 1 ∧ (1 : ℝ) ≤ 300 := by norm_num

/-- one pass: the invariant is kept, `g ≤ g'`, `a' ≤ a`, `c' = (a − g)/2`, `c' ≤ c/2`, `term' ≤ term/2` -/
theorem agm_invariant_step {s : AgmState ℝ} {n : ℕ} (h : AgmInv s n) :
    AgmInv (agmStep s) (n + 1) ∧ s.g ≤ (agmStep s).g ∧ (agmStep s).a ≤ s.a ∧ (agmStep s).c = (s.a - s.g) / 2 ∧
      (agmStep s).c ≤ s.c / 2 ∧ (agmStep s).term ≤ s.term / 2 :=
  agmInv_step h

/-- along the whole sequence -/
theorem agm_sequence {x y : ℝ} (hy : 0 < y) (hyx : y ≤ x) (n : ℕ) :
    AgmInv (agmSeq (agmState x y) n) n ∧
      (agmSeq (agmState x y) (n + 1)).c = ((agmSeq (agmState x y) n).a - (agmSeq (agmState x y) n).g) / 2 ∧
      (agmSeq (agmState x y) (n + 1)).c ≤ (agmSeq (agmState x y) n).c / 2 ∧
      (agmSeq (agmState x y) (n + 1)).term ≤ (agmSeq (agmState x y) n).term / 2 ∧
      (agmSeq (agmState x y) n).term ≤ (1 - (y / x) ^ 2) / 2 ^ (n + 1) ∧
      ∀ m ≤ n, (agmSeq (agmState x y) m).g ≤ (agmSeq (agmState x y) n).g ∧
        (agmSeq (agmState x y) n).a ≤ (agmSeq (agmState x y) m).a := by
  have h0 := agmInv_init hy hyx
  have hs := agmInv_step (agmInv_seq h0 n)
  refine ⟨agmInv_seq h0 n, hs.2.2.2.1, hs.2.2.2.2.1, hs.2.2.2.2.2, ?_, fun m hm => ⟨agmSeq_g_mono h0 hm, agmSeq_a_anti h0 hm⟩⟩
  have h1 := agmSeq_term_le h0 n
  obtain ⟨_, _, _, hc, hm⟩ := agmState_fields x y
  have hx : 0 < x := lt_of_lt_of_le hy hyx
  have hq1 : y / x ≤ 1 := (div_le_one hx).2 hyx
  have hq0 : 0 < y / x := div_pos hy hx
  have hnn : 0 ≤ 1 - (y / x) ^ 2 := by nlinarith
  have e : (agmState x y).term = (1 - (y / x) ^ 2) / 2 := by
    rw [agm_term_eq, hc, hm, Real.sq_sqrt hnn]; ring
  rw [e] at h1
  calc _ ≤ (1 - (y / x) ^ 2) / 2 / 2 ^ n := h1
    _ = (1 - (y / x) ^ 2) / 2 ^ (n + 1) := by rw [div_div, show (2 : ℝ) * 2 ^ n = 2 ^ (n + 1) by ring]

/-! ## (c) the tail bound and what the stopping rule guarantees -/

/-- `Σ_{i=n+1}^{n+m} 2^(i−1) c_i² ≤ 2^(n−1) c_n²`: the remainder of the series is at most the last term -/
theorem agm_tail_bound {x y : ℝ} (hy : 0 < y) (hyx : y ≤ x) (n m : ℕ) :
    ∑ i ∈ Finset.range m, (agmSeq (agmState x y) (n + 1 + i)).term ≤ (agmSeq (agmState x y) n).term := by
  have h0 := agmInv_init hy hyx
  have := agmSeq_tail h0 n m
  have hnn := agm_term_nonneg (agmInv_seq h0 (n + m))
  linarith

/-! ## (b) bounded work -/

/-- from an invariant state, with `acc > 0` and `c² ≤ 2^N·acc·g`: the loop with any fuel `≥ max N 1` returns what it returns
    with fuel `max N 1`; it made at most `max N 1` passes and left by the stopping rule -/
theorem agmLoop_bounded_work {s : AgmState ℝ} (h : AgmInv s 0) {acc : ℝ} (hacc : 0 < acc) {N : ℕ}
    (hb : s.c ^ 2 ≤ 2 ^ N * (acc * s.g)) :
    (∀ fuel, max N 1 ≤ fuel → agmLoop acc fuel 0 s = agmLoop acc (max N 1) 0 s) ∧
      (agmLoop acc (max N 1) 0 s).2 ≤ max N 1 ∧ 1 ≤ (agmLoop acc (max N 1) 0 s).2 ∧
      (agmLoop acc (max N 1) 0 s).1.term ≤ acc * (agmLoop acc (max N 1) 0 s).1.g := by
  obtain ⟨n, hn, hstop, _, hloop⟩ := agmLoop_exit h hacc hb
  have e := hloop (max N 1) hn
  refine ⟨fun fuel hf => by rw [hloop fuel (lt_of_lt_of_le hn hf), e], by rw [e]; exact hn, by rw [e]; exact Nat.succ_pos n, ?_⟩
  rw [e]
  have := (agm_stops_iff acc (agmSeq s n)).1 hstop
  rw [agm_term_eq] at this ⊢
  obtain ⟨_, _, hg, hc, hm⟩ := agmExit_fields (agmSeq s n)
  show (agmExit (agmSeq s n)).mul * (agmExit (agmSeq s n)).c ^ 2 ≤ acc * (agmExit (agmSeq s n)).g
  rw [hg, hc, hm]; exact this
/-- e.g. `s = agmState 2 1`, `acc = 3/8`, `N = 2`: `c² = 3/4 ≤ 4·(3/8)·(1/2)` -/
example : (3 / 4 : ℝ) ≤ 2 ^ 2 * (3 / 8 * (1 / 2)) := by norm_num

/-- the state and the number of passes at exit, and what they guarantee: with `n + 1` passes,
    * the test held: `term_n ≤ acc·g_n`;
    * returned `sum = 1 − Σ_{i≤n} term_i − term_n`;
    * every longer partial sum `S_m = 1 − Σ_{i<n+1+m} term_i` of the series lies in `[sum, sum + term_n]`. -/
theorem agmLoop_exit_guarantee {x y : ℝ} (hy : 0 < y) (hyx : y ≤ x) {acc : ℝ} (hacc : 0 < acc) {fuel : ℕ}
    (hf : agmPassBound (acc * (2 * π * x)) x y ≤ fuel) :
    ∃ n, n < agmPassBound (acc * (2 * π * x)) x y ∧
      agmLoop acc fuel 0 (agmState x y) = (agmExit (agmSeq (agmState x y) n), n + 1) ∧
      (agmSeq (agmState x y) n).term ≤ acc * (agmSeq (agmState x y) n).g ∧
      (∀ i < n, acc * (agmSeq (agmState x y) i).g < (agmSeq (agmState x y) i).term) ∧
      (agmExit (agmSeq (agmState x y) n)).sum =
        1 - ∑ i ∈ Finset.range (n + 1), (agmSeq (agmState x y) i).term - (agmSeq (agmState x y) n).term ∧
      ∀ m, (agmExit (agmSeq (agmState x y) n)).sum ≤ 1 - ∑ i ∈ Finset.range (n + 1 + m), (agmSeq (agmState x y) i).term ∧
        1 - ∑ i ∈ Finset.range (n + 1 + m), (agmSeq (agmState x y) i).term ≤
          (agmExit (agmSeq (agmState x y) n)).sum + (agmSeq (agmState x y) n).term := by
  have h0 := agmInv_init hy hyx
  have hx : 0 < x := lt_of_lt_of_le hy hyx
  have h2px : 0 < 2 * π * x := by have := Real.pi_pos; positivity
  have hacc' : 0 < acc * (2 * π * x) := mul_pos hacc h2px
  have hb := agmPassBound_spec hacc' hy hyx
  rw [mul_div_assoc, div_self h2px.ne', mul_one] at hb
  obtain ⟨n, hn, hstop, hno, hloop⟩ := agmLoop_exit h0 hacc hb
  have hN : agmPassBound (acc * (2 * π * x)) x y =
      max (Nat.clog 2 ⌈(1 - (y / x) ^ 2) / (acc * (y / x))⌉₊) 1 := by
    unfold agmPassBound; rw [mul_div_assoc, div_self h2px.ne', mul_one]
  rw [hN] at hf ⊢
  refine ⟨n, hn, hloop fuel (lt_of_lt_of_le hn hf), (agm_stops_iff _ _).1 hstop, ?_, ?_, ?_⟩
  · intro i hi
    have := hno i hi
    by_contra hcon
    rw [not_lt] at hcon
    rw [(agm_stops_iff _ _).2 hcon] at this
    exact Bool.noConfusion this
  · rw [(agmExit_fields _).1, agmSeq_sum, (agmState_fields x y).1, Finset.sum_range_succ]; ring
  · intro m
    have hsum : (agmExit (agmSeq (agmState x y) n)).sum =
        1 - ∑ i ∈ Finset.range (n + 1), (agmSeq (agmState x y) i).term - (agmSeq (agmState x y) n).term := by
      rw [(agmExit_fields _).1, agmSeq_sum, (agmState_fields x y).1, Finset.sum_range_succ]; ring
    have hsplit : ∑ i ∈ Finset.range (n + 1 + m), (agmSeq (agmState x y) i).term =
        ∑ i ∈ Finset.range (n + 1), (agmSeq (agmState x y) i).term +
          ∑ i ∈ Finset.range m, (agmSeq (agmState x y) (n + 1 + i)).term := Finset.sum_range_add _ _ _
    have htail := agmSeq_tail h0 n m
    have hnn := agm_term_nonneg (agmInv_seq h0 (n + m))
    have hpos : 0 ≤ ∑ i ∈ Finset.range m, (agmSeq (agmState x y) (n + 1 + i)).term :=
      Finset.sum_nonneg fun i _ => agm_term_nonneg (agmInv_seq h0 (n + 1 + i))
    rw [hsum, hsplit]
    constructor <;> linarith
example : (0 : ℝ) < 1 ∧ (1 : ℝ) ≤ 300 ∧ (0 : ℝ) < 1 / 1000 := by norm_num

/-- `agm_elliptic_perimeter(accuracy, radii)` for radii `> 0` and every `accuracy > 0`: value and number of passes do not depend on
    the fuel once `fuel ≥ agmPassBound accuracy (max rx ry) (min rx ry)`, and the number of passes is at most that bound -/
theorem agmEllipticPerimeter_bounded_work {r : Vec2 ℝ} (hx : 0 < r.x) (hy : 0 < r.y) {accuracy : ℝ} (hacc : 0 < accuracy)
    {fuel : ℕ} (hf : agmPassBound accuracy (max r.x r.y) (min r.x r.y) ≤ fuel) :
    agmEllipticPerimeterFuel fuel accuracy r =
        agmEllipticPerimeterFuel (agmPassBound accuracy (max r.x r.y) (min r.x r.y)) accuracy r ∧
      (agmEllipticPerimeterFuel fuel accuracy r).2 ≤ agmPassBound accuracy (max r.x r.y) (min r.x r.y) ∧
      1 ≤ (agmEllipticPerimeterFuel fuel accuracy r).2 := by
  have hmin : 0 < min r.x r.y := lt_min hx hy
  have hle : min r.x r.y ≤ max r.x r.y := min_le_max
  have hmax : 0 < max r.x r.y := lt_of_lt_of_le hmin hle
  have h0 := agmInv_init hmin hle
  have h2px : 0 < 2 * π * max r.x r.y := by have := Real.pi_pos; positivity
  have hacc' : 0 < accuracy / (2 * π * max r.x r.y) := div_pos hacc h2px
  have hb := agmPassBound_spec hacc hmin hle
  obtain ⟨hind, hcnt, hpos, _⟩ := agmLoop_bounded_work h0 hacc' hb
  have e := hind fuel hf
  rw [agmEllipticPerimeterFuel_eq, agmEllipticPerimeterFuel_eq]
  have eN : agmPassBound accuracy (max r.x r.y) (min r.x r.y) =
      max (Nat.clog 2 ⌈(1 - (min r.x r.y / max r.x r.y) ^ 2) /
        (accuracy / (2 * π * max r.x r.y) * (min r.x r.y / max r.x r.y))⌉₊) 1 := rfl
  rw [eN, e]
  exact ⟨rfl, hcnt, hpos⟩
example : (0 : ℝ) < 261 ∧ (0 : ℝ) < 9 / 10 ∧ (0 : ℝ) < 7 / 10 := by norm_num

/-! ## `Ellipse::perimeter` -/

/-- a zero radius: four times the other one -/
theorem ellipse_perimeter_degenerate (fuel : ℕ) (e : Ellipse ℝ) (accuracy : ℝ) (h : e.radii.x = 0 ∨ e.radii.y = 0) :
    e.perimeterFuel fuel accuracy = (4 * max e.radii.x e.radii.y, 0) := by
  unfold Ellipse.perimeterFuel
  simp only [scalar_norm, Vec2.is_finite, MIsFinite.is_finite, Bool.and_self, Bool.not_true, Bool.false_eq_true, if_false]
  rcases h with h | h <;> simp [h]

/-- non-zero radii and `range ≤ accuracy`: the Kummer value, no pass of the loop -/
theorem ellipse_perimeter_kummer (fuel : ℕ) (e : Ellipse ℝ) (accuracy : ℝ) (hx : e.radii.x ≠ 0) (hy : e.radii.y ≠ 0)
    (hr : kummerEllipticPerimeterRange e.radii ≤ accuracy) :
    e.perimeterFuel fuel accuracy = (kummerEllipticPerimeter e.radii, 0) := by
  unfold Ellipse.perimeterFuel
  simp only [scalar_norm, Vec2.is_finite, MIsFinite.is_finite, Bool.and_self, Bool.not_true, Bool.false_eq_true, if_false]
  simp [hx, hy, hr]

/-- equal non-zero radii `r` and `accuracy ≥ 0`: exactly `2·π·r`, without a pass of the loop -/
theorem ellipse_perimeter_circle (fuel : ℕ) (e : Ellipse ℝ) {accuracy : ℝ} (hacc : 0 ≤ accuracy) (hr : e.radii.x = e.radii.y)
    (h0 : e.radii.x ≠ 0) : e.perimeterFuel fuel accuracy = (2 * π * e.radii.x, 0) := by
  have e1 : e.radii = ⟨e.radii.x, e.radii.x⟩ := by
    cases hv : e.radii with
    | mk a b => rw [hv] at hr; simp only at hr; rw [hr]
  have hrange : kummerEllipticPerimeterRange e.radii ≤ accuracy := by rw [e1, kummerRange_circle]; exact hacc
  rw [ellipse_perimeter_kummer fuel e accuracy h0 (hr ▸ h0) hrange, e1, kummer_circle, LawfulRealAngle.pi_eq]

/-- non-zero radii and `accuracy < range`: the AGM iteration -/
theorem ellipse_perimeter_agm (fuel : ℕ) (e : Ellipse ℝ) (accuracy : ℝ) (hx : e.radii.x ≠ 0) (hy : e.radii.y ≠ 0)
    (hr : accuracy < kummerEllipticPerimeterRange e.radii) :
    e.perimeterFuel fuel accuracy = agmEllipticPerimeterFuel fuel accuracy e.radii := by
  unfold Ellipse.perimeterFuel
  simp only [scalar_norm, Vec2.is_finite, MIsFinite.is_finite, Bool.and_self, Bool.not_true, Bool.false_eq_true, if_false]
  simp [hx, hy, not_le.2 hr]

/-- bounded work of `Ellipse::perimeter` (C14), for EVERY ellipse and every `accuracy > 0`: value and number of loop passes do not
    depend on the fuel once `fuel ≥ agmPassBound accuracy (max rx ry) (min rx ry)`, and the passes are at most that many -/
theorem ellipse_perimeter_bounded_work (e : Ellipse ℝ) {accuracy : ℝ} (hacc : 0 < accuracy) {fuel : ℕ}
    (hf : agmPassBound accuracy (max e.radii.x e.radii.y) (min e.radii.x e.radii.y) ≤ fuel) :
    e.perimeterFuel fuel accuracy =
        e.perimeterFuel (agmPassBound accuracy (max e.radii.x e.radii.y) (min e.radii.x e.radii.y)) accuracy ∧
      (e.perimeterFuel fuel accuracy).2 ≤ agmPassBound accuracy (max e.radii.x e.radii.y) (min e.radii.x e.radii.y) := by
  obtain ⟨hx0, hy0⟩ := ellipse_radii_nonneg e
  by_cases hz : e.radii.x = 0 ∨ e.radii.y = 0
  · rw [ellipse_perimeter_degenerate _ _ _ hz, ellipse_perimeter_degenerate _ _ _ hz]
    exact ⟨rfl, Nat.zero_le _⟩
  · rw [not_or] at hz
    rcases le_or_gt (kummerEllipticPerimeterRange e.radii) accuracy with hr | hr
    · rw [ellipse_perimeter_kummer _ _ _ hz.1 hz.2 hr, ellipse_perimeter_kummer _ _ _ hz.1 hz.2 hr]
      exact ⟨rfl, Nat.zero_le _⟩
    · rw [ellipse_perimeter_agm _ _ _ hz.1 hz.2 hr, ellipse_perimeter_agm _ _ _ hz.1 hz.2 hr]
      have := agmEllipticPerimeter_bounded_work (lt_of_le_of_ne hx0 (Ne.symm hz.1)) (lt_of_le_of_ne hy0 (Ne.symm hz.2)) hacc hf
      exact ⟨this.1, this.2.1⟩
example : (0 : ℝ) < 1 / 1000000 := by norm_num

/-- hence the executable model's fixed fuel `agmFuel = 4096` is enough whenever the bound is below it -/
theorem ellipse_perimeter_eq_of_bound (e : Ellipse ℝ) {accuracy : ℝ} (hacc : 0 < accuracy) {fuel : ℕ}
    (hb : agmPassBound accuracy (max e.radii.x e.radii.y) (min e.radii.x e.radii.y) ≤ agmFuel)
    (hf : agmPassBound accuracy (max e.radii.x e.radii.y) (min e.radii.x e.radii.y) ≤ fuel) :
    e.perimeter accuracy = (e.perimeterFuel fuel accuracy).1 := by
  unfold Ellipse.perimeter
  rw [(ellipse_perimeter_bounded_work e hacc hb).1, (ellipse_perimeter_bounded_work e hacc hf).1]

/-- the divisor of the returned value since 93c0fd9: at exit of pass `n` the state's `a` is the NEXT arithmetic mean
    `A = a_{n+1}` (`G = g_{n+1}`, `c = c_{n+1}`), and
    * `g_n ≤ G ≤ a_{n+2} ≤ A ≤ a_n`;
    * `A − G = c²/(A + G) ≤ c²/(2G)`: every later `g_m`, `a_m` (`m ≥ n + 1`; their common limit is what the formula wants) lies in
      `[G, A]`, hence within `c²/(A + G)` of the divisor used – SECOND order in `c_{n+1}`;
    * whereas the divisor used before the repair, `a_n`, is at least `c_{n+1}` above every later `a_m` – FIRST order. -/
theorem agm_exit_divisor {x y : ℝ} (hy : 0 < y) (hyx : y ≤ x) (n : ℕ) :
    (agmExit (agmSeq (agmState x y) n)).a = (agmSeq (agmState x y) (n + 1)).a ∧
      (agmSeq (agmState x y) n).g ≤ (agmSeq (agmState x y) (n + 1)).g ∧
      (agmSeq (agmState x y) (n + 1)).g ≤ (agmSeq (agmState x y) (n + 2)).a ∧
      (agmSeq (agmState x y) (n + 2)).a ≤ (agmSeq (agmState x y) (n + 1)).a ∧
      (agmSeq (agmState x y) (n + 1)).a ≤ (agmSeq (agmState x y) n).a ∧
      (agmSeq (agmState x y) (n + 1)).a - (agmSeq (agmState x y) (n + 1)).g =
        (agmSeq (agmState x y) (n + 1)).c ^ 2 / ((agmSeq (agmState x y) (n + 1)).a + (agmSeq (agmState x y) (n + 1)).g) ∧
      (agmSeq (agmState x y) (n + 1)).c ^ 2 / ((agmSeq (agmState x y) (n + 1)).a + (agmSeq (agmState x y) (n + 1)).g) ≤
        (agmSeq (agmState x y) (n + 1)).c ^ 2 / (2 * (agmSeq (agmState x y) (n + 1)).g) ∧
      ∀ m, n + 1 ≤ m →
        (agmSeq (agmState x y) (n + 1)).g ≤ (agmSeq (agmState x y) m).g ∧
        (agmSeq (agmState x y) m).g ≤ (agmSeq (agmState x y) m).a ∧
        (agmSeq (agmState x y) m).a ≤ (agmSeq (agmState x y) (n + 1)).a ∧
        (agmSeq (agmState x y) (n + 1)).a - (agmSeq (agmState x y) m).a ≤
          (agmSeq (agmState x y) (n + 1)).c ^ 2 / ((agmSeq (agmState x y) (n + 1)).a + (agmSeq (agmState x y) (n + 1)).g) ∧
        (agmSeq (agmState x y) (n + 1)).c ≤ (agmSeq (agmState x y) n).a - (agmSeq (agmState x y) m).a := by
  have h0 := agmInv_init hy hyx
  have hgap := agmInv_gap (agmInv_seq h0 (n + 1))
  have hdrop : (agmSeq (agmState x y) n).a - (agmSeq (agmState x y) (n + 1)).a = (agmSeq (agmState x y) (n + 1)).c :=
    agmStep_a_drop (agmSeq (agmState x y) n)
  have b1 := agmSeq_between h0 (Nat.le_succ n)
  have b2 := agmSeq_between h0 (Nat.le_succ (n + 1))
  refine ⟨agmExit_a_eq_step _, b1.1, le_trans b2.1 b2.2.1, b2.2.2, b1.2.2, hgap.1, hgap.2, fun m hm => ?_⟩
  obtain ⟨c1, c2, c3⟩ := agmSeq_between h0 hm
  refine ⟨c1, c2, c3, ?_, ?_⟩
  · rw [← hgap.1]; linarith
  · linarith
example : (0 : ℝ) < 1 ∧ (1 : ℝ) ≤ 300 := by norm_num

/-- the guarantee of the stopping rule in terms of the returned value `P = 2πx/a_{n+1}·sum` (`x ≥ y > 0` the radii; `n + 1` passes;
    the divisor is the next arithmetic mean `a_{n+1}`, which 93c0fd9 made the code use): for every longer partial sum `S_m` of the
    series, `P ≤ 2πx/a_{n+1}·S_m ≤ P + accuracy·g_n/a_{n+1} ≤ P + accuracy`.  (`a_{n+1}` is not yet the limit of the `a`'s: how far it
    can be from every later `a_m` is `agm_exit_divisor`; both together: `agmEllipticPerimeter_later_approximants`.) -/
theorem agmEllipticPerimeter_value_bracket {x y : ℝ} (hy : 0 < y) (hyx : y ≤ x) {accuracy : ℝ} (hacc : 0 < accuracy) {fuel : ℕ}
    (hf : agmPassBound accuracy x y ≤ fuel) :
    ∃ n, (agmEllipticPerimeterFuel fuel accuracy ⟨x, y⟩).2 = n + 1 ∧
      ∀ m, (agmEllipticPerimeterFuel fuel accuracy ⟨x, y⟩).1 ≤
          2 * π * x / (agmSeq (agmState x y) (n + 1)).a * (1 - ∑ i ∈ Finset.range (n + 1 + m), (agmSeq (agmState x y) i).term) ∧
        2 * π * x / (agmSeq (agmState x y) (n + 1)).a * (1 - ∑ i ∈ Finset.range (n + 1 + m), (agmSeq (agmState x y) i).term) ≤
          (agmEllipticPerimeterFuel fuel accuracy ⟨x, y⟩).1
            + accuracy * ((agmSeq (agmState x y) n).g / (agmSeq (agmState x y) (n + 1)).a) ∧
        accuracy * ((agmSeq (agmState x y) n).g / (agmSeq (agmState x y) (n + 1)).a) ≤ accuracy := by
  have hx : 0 < x := lt_of_lt_of_le hy hyx
  have h2px : 0 < 2 * π * x := by have := Real.pi_pos; positivity
  have hacc' : 0 < accuracy / (2 * π * x) := div_pos hacc h2px
  have hN : accuracy / (2 * π * x) * (2 * π * x) = accuracy := div_mul_cancel₀ _ h2px.ne'
  have hf' : agmPassBound (accuracy / (2 * π * x) * (2 * π * x)) x y ≤ fuel := by rw [hN]; exact hf
  obtain ⟨n, _, hloop, hstop, _, _, hbr⟩ := agmLoop_exit_guarantee hy hyx hacc' hf'
  have h0 := agmInv_init hy hyx
  have hinv := agmInv_seq h0 (n + 1)
  have ha : 0 < (agmSeq (agmState x y) (n + 1)).a := lt_of_lt_of_le hinv.g_pos hinv.g_le_a
  have hga : (agmSeq (agmState x y) n).g ≤ (agmSeq (agmState x y) (n + 1)).a :=
    le_trans (agmSeq_g_mono h0 (Nat.le_succ n)) hinv.g_le_a
  refine ⟨n, ?_, fun m => ?_⟩
  · rw [agmEllipticPerimeterFuel_eq]
    simp only [max_eq_left hyx, min_eq_right hyx, hloop]
  · have hval : (agmEllipticPerimeterFuel fuel accuracy ⟨x, y⟩).1 =
        2 * π * x / (agmSeq (agmState x y) (n + 1)).a * (agmExit (agmSeq (agmState x y) n)).sum := by
      rw [agmEllipticPerimeterFuel_eq]
      simp only [max_eq_left hyx, min_eq_right hyx, hloop, agmExit_a_eq_step]
      rfl
    have hk : 0 < 2 * π * x / (agmSeq (agmState x y) (n + 1)).a := div_pos h2px ha
    obtain ⟨b1, b2⟩ := hbr m
    rw [hval]
    refine ⟨mul_le_mul_of_nonneg_left b1 hk.le, ?_, ?_⟩
    · have h3 : 2 * π * x / (agmSeq (agmState x y) (n + 1)).a * (agmSeq (agmState x y) n).term ≤
          accuracy * ((agmSeq (agmState x y) n).g / (agmSeq (agmState x y) (n + 1)).a) := by
        have := mul_le_mul_of_nonneg_left hstop hk.le
        calc _ ≤ 2 * π * x / (agmSeq (agmState x y) (n + 1)).a * (accuracy / (2 * π * x) * (agmSeq (agmState x y) n).g) := this
          _ = accuracy * ((agmSeq (agmState x y) n).g / (agmSeq (agmState x y) (n + 1)).a) := by field_simp
      have := mul_le_mul_of_nonneg_left b2 hk.le
      rw [mul_add] at this
      linarith
    · have : (agmSeq (agmState x y) n).g / (agmSeq (agmState x y) (n + 1)).a ≤ 1 := (div_le_one ha).2 hga
      calc accuracy * _ ≤ accuracy * 1 := mul_le_mul_of_nonneg_left this hacc.le
        _ = accuracy := mul_one _
example : (0 : ℝ) < 1 ∧ (1 : ℝ) ≤ 300 ∧ (0 : ℝ) < 1 / 1000 := by norm_num

/-- both defects together, at every finite stage: let `T = 2πx/a_m·S_k` be ANY later approximant of the formula – divisor `a_m`,
    `m ≥ n + 1`, partial sum `S_k` of at least the `n + 1` terms the loop summed (they all tend to the same limit, the quantity the
    function is documented to return; that the limit is the perimeter is not proved here).  Then
    `P ≤ T ≤ (P + accuracy·g_n/a_{n+1})·(1 + c_{n+1}²/((a_{n+1} + g_{n+1})·g_{n+1}))`:
    the result never exceeds a later approximant, and falls short by the budgeted `accuracy` plus a relative error of SECOND order in
    `c_{n+1}` (before the repair the corresponding factor was `a_n/a_m ≥ 1 + c_{n+1}/a_m`, first order: `agm_exit_divisor`). -/
theorem agmEllipticPerimeter_later_approximants {x y : ℝ} (hy : 0 < y) (hyx : y ≤ x) {accuracy : ℝ} (hacc : 0 < accuracy)
    {fuel : ℕ} (hf : agmPassBound accuracy x y ≤ fuel) :
    ∃ n, (agmEllipticPerimeterFuel fuel accuracy ⟨x, y⟩).2 = n + 1 ∧
      ∀ m k, n + 1 ≤ m →
        (agmEllipticPerimeterFuel fuel accuracy ⟨x, y⟩).1 ≤
          2 * π * x / (agmSeq (agmState x y) m).a * (1 - ∑ i ∈ Finset.range (n + 1 + k), (agmSeq (agmState x y) i).term) ∧
        2 * π * x / (agmSeq (agmState x y) m).a * (1 - ∑ i ∈ Finset.range (n + 1 + k), (agmSeq (agmState x y) i).term) ≤
          ((agmEllipticPerimeterFuel fuel accuracy ⟨x, y⟩).1
            + accuracy * ((agmSeq (agmState x y) n).g / (agmSeq (agmState x y) (n + 1)).a)) *
          (1 + (agmSeq (agmState x y) (n + 1)).c ^ 2 /
            (((agmSeq (agmState x y) (n + 1)).a + (agmSeq (agmState x y) (n + 1)).g) * (agmSeq (agmState x y) (n + 1)).g)) := by
  obtain ⟨n, hcnt, hbr⟩ := agmEllipticPerimeter_value_bracket hy hyx hacc hf
  refine ⟨n, hcnt, fun m k hm => ?_⟩
  obtain ⟨b1, b2, _⟩ := hbr k
  obtain ⟨_, _, _, _, _, _, _, hlater⟩ := agm_exit_divisor hy hyx n
  obtain ⟨l1, l2, l3, l4, _⟩ := hlater m hm
  have h0 := agmInv_init hy hyx
  have hx : 0 < x := lt_of_lt_of_le hy hyx
  have h2px : 0 < 2 * π * x := by have := Real.pi_pos; positivity
  have hG : 0 < (agmSeq (agmState x y) (n + 1)).g := (agmInv_seq h0 (n + 1)).g_pos
  have hA : 0 < (agmSeq (agmState x y) (n + 1)).a := lt_of_lt_of_le hG (agmInv_seq h0 (n + 1)).g_le_a
  have ham : 0 < (agmSeq (agmState x y) m).a := lt_of_lt_of_le (lt_of_lt_of_le hG l1) l2
  have hS : 0 ≤ 1 - ∑ i ∈ Finset.range (n + 1 + k), (agmSeq (agmState x y) i).term := by
    have := agmSeq_partial_le h0 (n + 1 + k)
    linarith [this.1, this.2]
  rw [← div_div]
  generalize (agmEllipticPerimeterFuel fuel accuracy ⟨x, y⟩).1 = P at b1 b2 ⊢
  generalize 1 - ∑ i ∈ Finset.range (n + 1 + k), (agmSeq (agmState x y) i).term = S at b1 b2 hS ⊢
  generalize accuracy * ((agmSeq (agmState x y) n).g / (agmSeq (agmState x y) (n + 1)).a) = E at b2 ⊢
  generalize (agmSeq (agmState x y) (n + 1)).c ^ 2 /
    ((agmSeq (agmState x y) (n + 1)).a + (agmSeq (agmState x y) (n + 1)).g) = d at l4 ⊢
  generalize (agmSeq (agmState x y) (n + 1)).a = A at *
  generalize (agmSeq (agmState x y) (n + 1)).g = G at *
  generalize (agmSeq (agmState x y) m).a = am at *
  generalize (agmSeq (agmState x y) m).g = gm at *
  -- U = 2πx/A·S, T = 2πx/am·S = U·(A/am), 1 ≤ A/am ≤ 1 + d/G
  have hU : 0 ≤ 2 * π * x / A * S := mul_nonneg (div_pos h2px hA).le hS
  have hT : 2 * π * x / am * S = 2 * π * x / A * S * (A / am) := by field_simp
  have hr1 : 1 ≤ A / am := (one_le_div ham).2 l3
  have hr2 : A / am ≤ 1 + d / G := by
    rw [div_le_iff₀ ham]
    have hd : 0 ≤ d := by linarith
    have : d / G * am ≥ d := by
      rw [ge_iff_le, div_mul_eq_mul_div, le_div_iff₀ hG]
      exact mul_le_mul_of_nonneg_left (le_trans l1 l2) hd
    nlinarith
  rw [hT]
  constructor
  · calc P ≤ 2 * π * x / A * S := b1
      _ = 2 * π * x / A * S * 1 := (mul_one _).symm
      _ ≤ 2 * π * x / A * S * (A / am) := mul_le_mul_of_nonneg_left hr1 hU
  · calc 2 * π * x / A * S * (A / am) ≤ 2 * π * x / A * S * (1 + d / G) := mul_le_mul_of_nonneg_left hr2 hU
      _ ≤ (P + E) * (1 + d / G) := mul_le_mul_of_nonneg_right b2 (by linarith)
example : (0 : ℝ) < 1 ∧ (1 : ℝ) ≤ 300 ∧ (0 : ℝ) < 1 / 1000 := by norm_num

end real

/-- the law classes used above are inhabited -/
example : ∃ _ : Scalar ℝ, LawfulScalar ℝ ∧ LawfulReal ∧ LawfulRealAngle :=
  ⟨realScalar, realScalar_lawful, realScalar_lawfulReal, realScalar_lawfulRealAngle⟩

end Kurbo
