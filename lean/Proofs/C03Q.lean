import Proofs.Lemmas.C03QEx
import Proofs.Lemmas.C03QKink
/-! C03 (quadratic part) – the closed form of `QuadBez::arclen` is the arc length integral.

    Notation (defined in `Proofs/Lemmas/C03Q.lean`, plain Mathlib arithmetic on the control points):
      `c03q_A q = |p0 − 2 p1 + p2|²`, `c03q_B q = 2 (p0 − 2 p1 + p2)·(p1 − p0)`, `c03q_C q = |p1 − p0|²`   (the model's `a b c`),
    and (in `Proofs/Lemmas/C03QReal.lean`, functions of three reals)
      `c03q_bac2 A B C = B (√A)⁻¹ + 2 √C`                                                             (the model's `ba_c2`),
      `c03q_v0 A B C = ¼ (√A)⁻¹ (√A)⁻¹ B (2 √(A+B+C) − 2 √C) + √(A+B+C)`                             (the model's `v0`),
      `c03q_logpart A B C = ¼ ((√A)⁻¹)³ (4 C A − B B) log (((2A+B)(√A)⁻¹ + 2 √(A+B+C)) / c03q_bac2 A B C)`,
      `c03q_gauss q` = the three `hypot`s of the 3-point Gauss–Legendre branch.

    PROVED here:
    * `quad_speed_sq` (any lawful field): `|q.deriv.eval t|² = 4 (A t² + B t + C)` for the model's own `deriv`/`eval`.
    * `quad_arclen_branches` (ℝ, `Scalar.sqrt/hypot/ln/powf` = the real functions): `QuadBez.arclen` written out in Mathlib
      arithmetic with its three branches; this pins down what "the model takes branch (k)" means in the theorems below.
    * `quad_arclen_closed_form`: whenever the model takes branch (2) (`¬ A ≤ 5e-4 C` and `¬ ba_c2 ≤ 1e-13 · 2√C`), the returned value
      IS `∫₀¹ ‖q′(t)‖ dt`.  NO further hypothesis: the regularity of the curve on `[0,1]` that the fundamental theorem needs is a
      consequence of the two branch conditions (`quad_arclen_branch2_regular`), and so are `0 < A` and `0 < ba_c2`.
    * `quad_arclen_kink_branch`: in branch (3) the value is `v0 = √(A+B+C) + B/(2A) (√(A+B+C) − √C)`, which is twice the
      non-logarithmic part `[(2At+B)/(4A) √Q(t)]₀¹` of the antiderivative.
    * `quad_arclen_integral_formula`: for EVERY quadratic with `A > 0`: `∫₀¹ ‖q′(t)‖ dt = v0 + logpart` (regular or with a cusp).
    * `quad_arclen_kink_branch_error`: in branch (3) `∫₀¹ ‖q′(t)‖ dt − q.arclen = logpart ∈ [0, 2.5e-10 · √C]`, `√C = |p1 − p0|`
      (the constant: `2e-13 · (1/0.0223) · log(1 + 4.46e11)`, from the two thresholds `5e-4` and `1e-13` of the model; not sharp:
      numerically the supremum is about `5.3e-12 · √C`, near `|p0 − 2p1 + p2| ≈ 1.05 |p1 − p0|`).
    * `quad_arclen_kink_branch_error_attained`: a concrete near-cusp (rational control points, `|p1 − p0| = 1`, length ≈ 0.955) on which
      branch (3) is taken and the returned value is too small by at least `4e-12` (> the documented 1e-13).
    * `quad_arclen_kink_branch_collinear`: if moreover `4AC = B²` (control points collinear: the exact cusp/kink, where the dropped
      logarithmic term has coefficient 0) the value of branch (3) is again exactly `∫₀¹ ‖q′(t)‖ dt` (cusp inside `[0,1]` included).
    * `quad_arclen_gauss_branch_on_lines` (stretch item): for `p1 = (p0+p2)/2` (constant speed; then `A = 0` and branch (1) is taken)
      the value is `|β p2 − α p0| + γ |p2 − p0| + |α p2 − β p0|` with `α = 0.2777777777777775, β = 0.2777777777777777,
      γ = 0.4444444444444444`: NOT exactly `|p2 − p0|`; `quad_arclen_gauss_branch_defect` bounds the difference by
      `6e-16 |p2 − p0| + 2e-16 (|p0| + |p2|)` and `quad_arclen_gauss_branch_from_origin` gives the exact factor
      `0.9999999999999996` for `p0 = 0`.

    That `q.deriv.eval t` is the derivative of `q.eval` at `t` is `quad_deriv_hasDerivAt` in `Proofs/C06.lean`.

    NOT PROVED: anything about branch (1) for a curved quadratic (the accuracy of the 3-point rule when `0 < A ≤ 5e-4 C`); anything
    about Float rounding/cancellation (all statements are over ℝ with exact `√ log rpow`).  The `_accuracy` argument is ignored by the
    model (as by the crate): the error in branch (3) (≤ 2.5e-10 |p1 − p0|) and in branch (1) does not depend on it. -/
namespace Kurbo
open intervalIntegral

section field
variable {K : Type} [Field K] [LinearOrder K] [IsStrictOrderedRing K] [FloorRing K] [Scalar K] [LawfulScalar K]

/-- item 1: the squared speed of the model's own derivative curve is `4 (A t² + B t + C)` -/
theorem quad_speed_sq (q : QuadBez K) (t : K) :
    (q.deriv.eval t).x ^ 2 + (q.deriv.eval t).y ^ 2 = 4 * (c03q_A q * t ^ 2 + c03q_B q * t + c03q_C q) := by
  unfold c03q_A c03q_B c03q_C
  kring

/-- the same with the model's `Vec2.hypot2` -/
theorem quad_speed_hypot2 (q : QuadBez K) (t : K) :
    (q.deriv.eval t).to_vec2.hypot2 = 4 * (c03q_A q * t ^ 2 + c03q_B q * t + c03q_C q) := by
  unfold c03q_A c03q_B c03q_C
  kring

end field

section real
variable [Scalar ℝ] [LawfulScalar ℝ] [C03QRealLaws]

/-- the model in Mathlib arithmetic: branch (1) Gauss–Legendre, branch (3) `v0`, branch (2) `v0 +` logarithmic part -/
theorem quad_arclen_branches (q : QuadBez ℝ) (acc : ℝ) :
    q.arclen acc =
      if c03q_A q ≤ 5 / 10000 * c03q_C q then c03q_gauss q
      else if c03q_bac2 (c03q_A q) (c03q_B q) (c03q_C q) ≤ 1 / 10000000000000 * (2 * √(c03q_C q)) then
        c03q_v0 (c03q_A q) (c03q_B q) (c03q_C q)
      else c03q_v0 (c03q_A q) (c03q_B q) (c03q_C q) + c03q_logpart (c03q_A q) (c03q_B q) (c03q_C q) :=
  c03q_arclen_eq q acc

/-- in branch (2) the curve is regular on `[0, ∞)`, in particular on `[0, 1]`: the hypothesis
    `∀ t ∈ [0,1], 0 < A t² + B t + C` of the fundamental theorem is implied by the branch conditions -/
theorem quad_arclen_branch2_regular (q : QuadBez ℝ)
    (h1 : ¬ c03q_A q ≤ 5 / 10000 * c03q_C q)
    (h2 : ¬ c03q_bac2 (c03q_A q) (c03q_B q) (c03q_C q) ≤ 1 / 10000000000000 * (2 * √(c03q_C q)))
    {t : ℝ} (ht : 0 ≤ t) : 0 < c03q_A q * t ^ 2 + c03q_B q * t + c03q_C q :=
  c03q_branch2_Q_pos q h1 h2 ht

/-- item 2: in branch (2) the model returns the arc length `∫₀¹ ‖q′(t)‖ dt`, `‖q′(t)‖ = √(x′(t)² + y′(t)²)` -/
theorem quad_arclen_closed_form (q : QuadBez ℝ) (acc : ℝ)
    (h1 : ¬ c03q_A q ≤ 5 / 10000 * c03q_C q)
    (h2 : ¬ c03q_bac2 (c03q_A q) (c03q_B q) (c03q_C q) ≤ 1 / 10000000000000 * (2 * √(c03q_C q))) :
    q.arclen acc = ∫ t in (0:ℝ)..1, √((q.deriv.eval t).x ^ 2 + (q.deriv.eval t).y ^ 2) := by
  rw [c03q_arclen_eq, if_neg h1, if_neg h2,
    c03q_closed_form_eq (c03q_A_pos h1) (c03q_disc_nonneg q) (c03q_bac2_pos q h2),
    ← c03q_integral_sqrt_Q (c03q_A_pos h1) (c03q_disc_nonneg q)
      (c03q_L_zero_pos (c03q_A_pos h1) (c03q_bac2_pos q h2)),
    ← integral_const_mul]
  refine integral_congr fun t _ => ?_
  simp only [quad_speed_sq]
  exact (c03q_sqrt_four_mul _).symm

/-- item 3: in branch (3) the model returns `v0`, twice the non-logarithmic part of `F 1 − F 0` -/
theorem quad_arclen_kink_branch (q : QuadBez ℝ) (acc : ℝ)
    (h1 : ¬ c03q_A q ≤ 5 / 10000 * c03q_C q)
    (h2 : c03q_bac2 (c03q_A q) (c03q_B q) (c03q_C q) ≤ 1 / 10000000000000 * (2 * √(c03q_C q))) :
    q.arclen acc = √(c03q_A q + c03q_B q + c03q_C q)
        + c03q_B q / (2 * c03q_A q) * (√(c03q_A q + c03q_B q + c03q_C q) - √(c03q_C q)) ∧
    q.arclen acc = 2 * ((2 * c03q_A q * 1 + c03q_B q) / (4 * c03q_A q) * √(c03q_Q (c03q_A q) (c03q_B q) (c03q_C q) 1)
        - (2 * c03q_A q * 0 + c03q_B q) / (4 * c03q_A q) * √(c03q_Q (c03q_A q) (c03q_B q) (c03q_C q) 0)) := by
  have hA : c03q_A q ≠ 0 := ne_of_gt (c03q_A_pos h1)
  rw [c03q_arclen_eq, if_neg h1, if_pos h2, c03q_v0_eq (c03q_A_pos h1), c03q_Q_one, c03q_Q_zero]
  constructor
  · field_simp; ring
  · ring

/-- item 3, exact case: when moreover the control points are collinear (`4AC = B²`, the exact kink: a cusp of the curve at
    `t = −B/(2A)`, possibly inside `[0,1]`) the value of branch (3) is again the arc length -/
theorem quad_arclen_kink_branch_collinear (q : QuadBez ℝ) (acc : ℝ)
    (h1 : ¬ c03q_A q ≤ 5 / 10000 * c03q_C q)
    (h2 : c03q_bac2 (c03q_A q) (c03q_B q) (c03q_C q) ≤ 1 / 10000000000000 * (2 * √(c03q_C q)))
    (hcol : 4 * c03q_A q * c03q_C q = c03q_B q ^ 2) :
    q.arclen acc = ∫ t in (0:ℝ)..1, √((q.deriv.eval t).x ^ 2 + (q.deriv.eval t).y ^ 2) := by
  rw [c03q_arclen_eq, if_neg h1, if_pos h2, c03q_v0_eq_Fnl (c03q_A_pos h1),
    ← c03q_integral_sqrt_Q_collinear (c03q_A_pos h1) (by linarith), ← integral_const_mul]
  refine integral_congr fun t _ => ?_
  simp only [quad_speed_sq]
  exact (c03q_sqrt_four_mul _).symm

/-- both non-Gauss branches at once: for every quadratic with `A > 0` (`p1` not the midpoint of `p0 p2`) the arc length is
    `v0 + logpart` – the formula is right even where the model does not use it (if `ba_c2 = 0` then `4AC = B²` and `logpart = 0`) -/
theorem quad_arclen_integral_formula (q : QuadBez ℝ) (hA : 0 < c03q_A q) :
    ∫ t in (0:ℝ)..1, √((q.deriv.eval t).x ^ 2 + (q.deriv.eval t).y ^ 2)
      = c03q_v0 (c03q_A q) (c03q_B q) (c03q_C q) + c03q_logpart (c03q_A q) (c03q_B q) (c03q_C q) := by
  rw [← c03q_two_integral_eq hA (c03q_disc_nonneg q), ← integral_const_mul]
  refine integral_congr fun t _ => ?_
  simp only [quad_speed_sq]
  exact c03q_sqrt_four_mul _

/-- item 3, error of branch (3): the model drops exactly the logarithmic term, which lies in `[0, 2.5e-10 · |p1 − p0|]`
    (so branch (3) under-estimates the arc length by at most `2.5e-10 √C`) -/
theorem quad_arclen_kink_branch_error (q : QuadBez ℝ) (acc : ℝ)
    (h1 : ¬ c03q_A q ≤ 5 / 10000 * c03q_C q)
    (h2 : c03q_bac2 (c03q_A q) (c03q_B q) (c03q_C q) ≤ 1 / 10000000000000 * (2 * √(c03q_C q))) :
    (∫ t in (0:ℝ)..1, √((q.deriv.eval t).x ^ 2 + (q.deriv.eval t).y ^ 2)) - q.arclen acc
        = c03q_logpart (c03q_A q) (c03q_B q) (c03q_C q) ∧
    0 ≤ (∫ t in (0:ℝ)..1, √((q.deriv.eval t).x ^ 2 + (q.deriv.eval t).y ^ 2)) - q.arclen acc ∧
    (∫ t in (0:ℝ)..1, √((q.deriv.eval t).x ^ 2 + (q.deriv.eval t).y ^ 2)) - q.arclen acc
        ≤ 25 / 100000000000 * √(c03q_C q) := by
  have hb := c03q_logpart_bound (c03q_C_nonneg q) (not_le.mp h1) (c03q_disc_nonneg q) h2
  have he : (∫ t in (0:ℝ)..1, √((q.deriv.eval t).x ^ 2 + (q.deriv.eval t).y ^ 2)) - q.arclen acc
      = c03q_logpart (c03q_A q) (c03q_B q) (c03q_C q) := by
    rw [quad_arclen_integral_formula q (c03q_A_pos h1), c03q_arclen_eq, if_neg h1, if_pos h2]; ring
  rw [he]
  exact ⟨rfl, hb.1, hb.2⟩

/-- the error of branch (3) is really there: on `c03q_exNearCusp = ⟨(0,0), (1,0), (2,0) + d2⟩`, `d2` of length 21/20 at an angle
    `≈ 4e-7` from `−(p1 − p0)` (rational control points, `|p1 − p0| = 1`, length `≈ 0.9548`), the model takes branch (3) and returns a
    value that is too small by at least `4e-12` – the crate documents "accuracy should be better than 1e-13 over the entire range" -/
theorem quad_arclen_kink_branch_error_attained (acc : ℝ) :
    (4 : ℝ) / 1000000000000
      ≤ (∫ t in (0:ℝ)..1, √((c03q_exNearCusp.deriv.eval t).x ^ 2 + (c03q_exNearCusp.deriv.eval t).y ^ 2))
          - c03q_exNearCusp.arclen acc := by
  obtain ⟨h1, h2, _, h4⟩ := c03q_exNearCusp_branch3
  rw [(quad_arclen_kink_branch_error c03q_exNearCusp acc h1 h2).1]
  exact h4

/-- item 4 (stretch): on a uniformly parametrised straight segment (`p0 − 2 p1 + p2 = 0`, i.e. `A = 0`, constant speed) the model takes
    branch (1) and returns `|β p2 − α p0| + γ |p2 − p0| + |α p2 − β p0|` (`c03q_hyp x y = √(x² + y²)`) with
    `α = 0.2777777777777775`, `β = 0.2777777777777777`, `γ = 0.4444444444444444` – not exactly `|p2 − p0|` -/
theorem quad_arclen_gauss_branch_on_lines (q : QuadBez ℝ) (acc : ℝ)
    (hx : q.p0.x - 2 * q.p1.x + q.p2.x = 0) (hy : q.p0.y - 2 * q.p1.y + q.p2.y = 0) :
    q.arclen acc =
      c03q_hyp (2777777777777777 / 10000000000000000 * q.p2.x - 2777777777777775 / 10000000000000000 * q.p0.x)
               (2777777777777777 / 10000000000000000 * q.p2.y - 2777777777777775 / 10000000000000000 * q.p0.y)
      + 4444444444444444 / 10000000000000000 * c03q_hyp (q.p2.x - q.p0.x) (q.p2.y - q.p0.y)
      + c03q_hyp (2777777777777775 / 10000000000000000 * q.p2.x - 2777777777777777 / 10000000000000000 * q.p0.x)
                 (2777777777777775 / 10000000000000000 * q.p2.y - 2777777777777777 / 10000000000000000 * q.p0.y) := by
  have hA : c03q_A q = 0 := by unfold c03q_A; rw [hx, hy]; ring
  have hb : c03q_A q ≤ 5 / 10000 * c03q_C q := by
    rw [hA]; have := c03q_C_nonneg q; positivity
  rw [c03q_arclen_eq, if_pos hb, c03q_gauss_midpoint q hx hy]

/-- the true relative defect when the segment starts at the origin: the three weights sum to `0.9999999999999996` -/
theorem quad_arclen_gauss_branch_from_origin (q : QuadBez ℝ) (acc : ℝ)
    (h0x : q.p0.x = 0) (h0y : q.p0.y = 0)
    (hx : q.p0.x - 2 * q.p1.x + q.p2.x = 0) (hy : q.p0.y - 2 * q.p1.y + q.p2.y = 0) :
    q.arclen acc = 9999999999999996 / 10000000000000000 * c03q_hyp (q.p2.x - q.p0.x) (q.p2.y - q.p0.y) := by
  rw [quad_arclen_gauss_branch_on_lines q acc hx hy, h0x, h0y]
  simp only [mul_zero, sub_zero]
  rw [c03q_hyp_scale (by norm_num), c03q_hyp_scale (by norm_num)]
  ring

/-- in general the defect on a uniformly parametrised segment is at most `6e-16 |p2 − p0| + 2e-16 (|p0| + |p2|)`
    (the second term: the coefficients of `v0`/`v2` sum to `±2e-16`, not 0, so the rule is not translation invariant) -/
theorem quad_arclen_gauss_branch_defect (q : QuadBez ℝ) (acc : ℝ)
    (hx : q.p0.x - 2 * q.p1.x + q.p2.x = 0) (hy : q.p0.y - 2 * q.p1.y + q.p2.y = 0) :
    |q.arclen acc - c03q_hyp (q.p2.x - q.p0.x) (q.p2.y - q.p0.y)|
      ≤ 6 / 10000000000000000 * c03q_hyp (q.p2.x - q.p0.x) (q.p2.y - q.p0.y)
        + 2 / 10000000000000000 * (c03q_hyp q.p0.x q.p0.y + c03q_hyp q.p2.x q.p2.y) := by
  rw [quad_arclen_gauss_branch_on_lines q acc hx hy]
  exact c03q_gauss_defect _ _ _ _

end real

/-! ### non-vacuity -/
section C03QExamples

-- the class assumptions are satisfiable (ℝ with Mathlib's `√`, `log`, `rpow`)
example : ∃ (S : Scalar ℝ) (_ : @LawfulScalar ℝ _ _ _ _ S), @C03QRealLaws S :=
  ⟨c03q_realScalar, c03q_realScalar_lawful, c03q_realScalar_laws⟩

-- example data (`Proofs/Lemmas/C03QEx.lean`): `c03q_exArch = ⟨(0,0), (1,2), (3,0)⟩` has `A = 17, B = −14, C = 5`
example : c03q_A c03q_exArch = 17 ∧ c03q_B c03q_exArch = -14 ∧ c03q_C c03q_exArch = 5 := c03q_exArch_coeffs
-- … the hypothesis of `quad_arclen_integral_formula`
example : 0 < c03q_A c03q_exArch := by rw [c03q_exArch_coeffs.1]; norm_num
-- … and meets the hypotheses of `quad_arclen_closed_form` / `quad_arclen_branch2_regular` (branch (2))
example : ¬ c03q_A c03q_exArch ≤ 5 / 10000 * c03q_C c03q_exArch ∧
    ¬ c03q_bac2 (c03q_A c03q_exArch) (c03q_B c03q_exArch) (c03q_C c03q_exArch)
        ≤ 1 / 10000000000000 * (2 * √(c03q_C c03q_exArch)) := c03q_exArch_branch2

-- `c03q_exCusp = ⟨(0,0), (2,0), (1,0)⟩` (`A = 9, B = −12, C = 4`, cusp at `t = 2/3`) meets the hypotheses of
-- `quad_arclen_kink_branch` and `quad_arclen_kink_branch_collinear` (branch (3))
example : ¬ c03q_A c03q_exCusp ≤ 5 / 10000 * c03q_C c03q_exCusp ∧
    c03q_bac2 (c03q_A c03q_exCusp) (c03q_B c03q_exCusp) (c03q_C c03q_exCusp)
        ≤ 1 / 10000000000000 * (2 * √(c03q_C c03q_exCusp)) ∧
    4 * c03q_A c03q_exCusp * c03q_C c03q_exCusp = c03q_B c03q_exCusp ^ 2 := c03q_exCusp_branch3
-- … and the model returns 5/3 on it: the point runs from 0 up to 4/3 and back to 1
example : @QuadBez.arclen ℝ c03q_realScalar c03q_exCusp 0 = 5 / 3 := by
  let _ := c03q_realScalar
  have := c03q_realScalar_lawful
  have := c03q_realScalar_laws
  obtain ⟨h1, h2, _⟩ := c03q_exCusp_branch3
  rw [(quad_arclen_kink_branch c03q_exCusp 0 h1 h2).1]
  obtain ⟨hA, hB, hC⟩ := c03q_exCusp_coeffs
  rw [hA, hB, hC, c03q_sqrt_four, show (9:ℝ) + -12 + 4 = 1 by norm_num, Real.sqrt_one]
  norm_num

-- `c03q_exNearCusp` meets the hypotheses of `quad_arclen_kink_branch` / `_error` with `4AC ≠ B²` (the logarithmic term is `≥ 4e-12`)
example : ¬ c03q_A c03q_exNearCusp ≤ 5 / 10000 * c03q_C c03q_exNearCusp ∧
    c03q_bac2 (c03q_A c03q_exNearCusp) (c03q_B c03q_exNearCusp) (c03q_C c03q_exNearCusp)
        ≤ 1 / 10000000000000 * (2 * √(c03q_C c03q_exNearCusp)) :=
  ⟨c03q_exNearCusp_branch3.1, c03q_exNearCusp_branch3.2.1⟩

-- `c03q_exLine = ⟨(1,1), (2,3), (3,5)⟩` meets the hypotheses of `quad_arclen_gauss_branch_on_lines` / `_defect`,
-- `c03q_exLine0 = ⟨(0,0), (1,2), (2,4)⟩` those of `quad_arclen_gauss_branch_from_origin`
example : c03q_exLine.p0.x - 2 * c03q_exLine.p1.x + c03q_exLine.p2.x = 0 ∧
    c03q_exLine.p0.y - 2 * c03q_exLine.p1.y + c03q_exLine.p2.y = 0 := by
  unfold c03q_exLine; norm_num
example : c03q_exLine0.p0.x = 0 ∧ c03q_exLine0.p0.y = 0 ∧
    c03q_exLine0.p0.x - 2 * c03q_exLine0.p1.x + c03q_exLine0.p2.x = 0 ∧
    c03q_exLine0.p0.y - 2 * c03q_exLine0.p1.y + c03q_exLine0.p2.y = 0 := by
  unfold c03q_exLine0; norm_num

end C03QExamples
end Kurbo
