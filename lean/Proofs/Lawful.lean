import Kurbo.Kernel
import Proofs.Attr
import Mathlib.Algebra.Order.Field.Basic
import Mathlib.Algebra.Order.Floor.Defs
import Mathlib.Algebra.Order.Floor.Ring
import Mathlib.Algebra.Order.AbsoluteValue.Basic
import Mathlib.Tactic.Ring
import Mathlib.Tactic.Linarith
import Mathlib.Tactic.FieldSimp
import Mathlib.Tactic.Positivity
import Mathlib.Tactic.NormNum
import Mathlib.Tactic.SplitIfs
import Mathlib.Data.Rat.Cast.Order
import Mathlib.Data.Rat.Floor

/-! `LawfulScalar K`: the `Scalar` operations of `K` *are* the ordered-field operations.  All algebraic
    property theorems are stated for an arbitrary lawful `K`; `Rat` (the type the driver executes) is an instance. -/
namespace Kurbo

class LawfulScalar (K : Type) [Field K] [LinearOrder K] [IsStrictOrderedRing K] [FloorRing K] [Scalar K] : Prop where
  add_eq : ∀ a b : K, Scalar.add a b = a + b
  sub_eq : ∀ a b : K, Scalar.sub a b = a - b
  mul_eq : ∀ a b : K, Scalar.mul a b = a * b
  div_eq : ∀ a b : K, Scalar.div a b = a / b
  neg_eq : ∀ a : K, Scalar.neg a = -a
  abs_eq : ∀ a : K, Scalar.abs a = |a|
  lt_eq : ∀ a b : K, Scalar.lt a b = decide (a < b)
  le_eq : ∀ a b : K, Scalar.le a b = decide (a ≤ b)
  beq_eq : ∀ a b : K, Scalar.beq a b = decide (a = b)
  ofRat_eq : ∀ r : Rat, (Scalar.ofRat r : K) = (r : K)
  min_eq : ∀ a b : K, Scalar.min a b = min a b
  max_eq : ∀ a b : K, Scalar.max a b = max a b
  floor_eq : ∀ a : K, Scalar.floor a = (⌊a⌋ : K)
  ceil_eq : ∀ a : K, Scalar.ceil a = (⌈a⌉ : K)
  trunc_eq : ∀ a : K, Scalar.trunc a = if a < 0 then (⌈a⌉ : K) else (⌊a⌋ : K)
  round_eq : ∀ a : K, Scalar.round a = if a < 0 then (⌈a - 1/2⌉ : K) else (⌊a + 1/2⌋ : K)
  copysign_eq : ∀ a b : K, Scalar.copysign a b = if b < 0 then -|a| else |a|
  signum_eq : ∀ a : K, Scalar.signum a = if a < 0 then -1 else 1
  fin_eq : ∀ a : K, Scalar.fin a = true
  finQuot_eq : ∀ d r : K, Scalar.finQuot d r = decide (d ≠ 0)
  isNan_eq : ∀ a : K, Scalar.isNan a = false
  fma_eq : ∀ a b c : K, Scalar.fma a b c = a * b + c

variable {K : Type} [Field K] [LinearOrder K] [IsStrictOrderedRing K] [FloorRing K] [Scalar K] [LawfulScalar K]

open LawfulScalar

@[scalar_norm] theorem sn_add (a b : K) : @HAdd.hAdd K K K (@instHAdd K Ops.instAdd) a b = a + b := add_eq a b
@[scalar_norm] theorem sn_sub (a b : K) : @HSub.hSub K K K (@instHSub K Ops.instSub) a b = a - b := sub_eq a b
@[scalar_norm] theorem sn_mul (a b : K) : @HMul.hMul K K K (@instHMul K Ops.instMul) a b = a * b := mul_eq a b
@[scalar_norm] theorem sn_div (a b : K) : @HDiv.hDiv K K K (@instHDiv K Ops.instDiv) a b = a / b := div_eq a b
@[scalar_norm] theorem sn_neg (a : K) : @Neg.neg K Ops.instNeg a = -a := neg_eq a
@[scalar_norm] theorem sn_ofNat (n : Nat) : (@OfNat.ofNat K n Ops.instOfNat) = (n : K) := by
  show Scalar.ofRat (n : Rat) = _
  rw [ofRat_eq]; simp
@[scalar_norm] theorem sn_ofSci (m : Nat) (s : Bool) (e : Nat) :
    (@OfScientific.ofScientific K Ops.instOfSci m s e) = ((sciRat m s e : Rat) : K) := by
  show Scalar.ofRat _ = _
  rw [ofRat_eq]
@[scalar_norm] theorem sn_ofRat (r : Rat) : (Scalar.ofRat r : K) = (r : K) := ofRat_eq r
@[scalar_norm] theorem sn_lt (a b : K) : Scalar.lt a b = decide (a < b) := lt_eq a b
@[scalar_norm] theorem sn_le (a b : K) : Scalar.le a b = decide (a ≤ b) := le_eq a b
@[scalar_norm] theorem sn_beq (a b : K) : Scalar.beq a b = decide (a = b) := beq_eq a b
@[scalar_norm] theorem sn_abs (a : K) : Scalar.abs a = |a| := abs_eq a
@[scalar_norm] theorem sn_min (a b : K) : Scalar.min a b = min a b := min_eq a b
@[scalar_norm] theorem sn_max (a b : K) : Scalar.max a b = max a b := max_eq a b
@[scalar_norm] theorem sn_smin (a b : K) : smin a b = min a b := min_eq a b
@[scalar_norm] theorem sn_smax (a b : K) : smax a b = max a b := max_eq a b
@[scalar_norm] theorem sn_sabs (a : K) : sabs a = |a| := abs_eq a
@[scalar_norm] theorem sn_floor (a : K) : Scalar.floor a = (⌊a⌋ : K) := floor_eq a
@[scalar_norm] theorem sn_ceil (a : K) : Scalar.ceil a = (⌈a⌉ : K) := ceil_eq a
@[scalar_norm] theorem sn_trunc (a : K) : Scalar.trunc a = if a < 0 then (⌈a⌉ : K) else (⌊a⌋ : K) := trunc_eq a
@[scalar_norm] theorem sn_round (a : K) : Scalar.round a = if a < 0 then (⌈a - 1/2⌉ : K) else (⌊a + 1/2⌋ : K) := round_eq a
@[scalar_norm] theorem sn_copysign (a b : K) : Scalar.copysign a b = if b < 0 then -|a| else |a| := copysign_eq a b
@[scalar_norm] theorem sn_signum (a : K) : Scalar.signum a = if a < 0 then -1 else 1 := signum_eq a
@[scalar_norm] theorem sn_fin (a : K) : Scalar.fin a = true := fin_eq a
@[scalar_norm] theorem sn_finQuot (d r : K) : Scalar.finQuot d r = decide (d ≠ 0) := finQuot_eq d r
@[scalar_norm] theorem sn_isNan (a : K) : Scalar.isNan a = false := isNan_eq a
@[scalar_norm] theorem sn_srecip (a : K) : srecip a = 1 / a := by
  unfold srecip; rw [sn_div, sn_ofNat]; simp
@[scalar_norm] theorem sn_fma (a b c : K) : Scalar.fma a b c = a * b + c := fma_eq a b c
@[scalar_norm] theorem sn_smulAdd (a b c : K) : smulAdd a b c = a * b + c := fma_eq a b c
@[scalar_norm] theorem sn_sgt (a b : K) : sgt a b = decide (b < a) := by unfold sgt; rw [sn_lt]
@[scalar_norm] theorem sn_sge (a b : K) : sge a b = decide (b ≤ a) := by unfold sge; rw [sn_le]
@[scalar_norm] theorem sn_spowi (a : K) (n : Nat) : spowi a n = a ^ n := by
  induction n with
  | zero => simp [spowi, sn_ofNat]
  | succ n ih =>
    cases n with
    | zero => simp [spowi]
    | succ m => rw [spowi, sn_mul, ih]
                · ring
                · omega
@[scalar_norm] theorem sn_fexpand (a : K) : fexpand a = if a < 0 then -|(⌈|a|⌉ : K)| else |(⌈|a|⌉ : K)| := by
  unfold fexpand; rw [sn_copysign, sn_ceil, sn_abs]
@[scalar_norm] theorem sn_MAbs (a : K) : MAbs.abs a = |a| := abs_eq a
@[scalar_norm] theorem sn_MFloor (a : K) : MFloor.floor a = (⌊a⌋ : K) := floor_eq a
@[scalar_norm] theorem sn_MCeil (a : K) : MCeil.ceil a = (⌈a⌉ : K) := ceil_eq a
@[scalar_norm] theorem sn_MRound (a : K) : MRound.round a = if a < 0 then (⌈a - 1/2⌉ : K) else (⌊a + 1/2⌋ : K) := round_eq a
@[scalar_norm] theorem sn_MTrunc (a : K) : MTrunc.trunc a = if a < 0 then (⌈a⌉ : K) else (⌊a⌋ : K) := trunc_eq a
@[scalar_norm] theorem sn_MExpand (a : K) : MExpand.expand a = if a < 0 then -|(⌈|a|⌉ : K)| else |(⌈|a|⌉ : K)| := sn_fexpand a
@[scalar_norm] theorem sn_MIsFinite (a : K) : MIsFinite.is_finite a = true := fin_eq a
@[scalar_norm] theorem sn_MIsNan (a : K) : MIsNan.is_nan a = false := isNan_eq a

end Kurbo

namespace Kurbo
theorem ratCeil_eq (a : Rat) : ratCeil a = ((⌈a⌉ : Int) : Rat) := by
  unfold ratCeil
  congr 1
  rw [Rat.ceil_eq_neg_floor_neg]
  have : (-a).floor = ⌊-a⌋ := rfl
  rw [this, Int.floor_neg, neg_neg]

instance : LawfulScalar Rat where
  add_eq _ _ := rfl
  sub_eq _ _ := rfl
  mul_eq _ _ := rfl
  div_eq _ _ := rfl
  neg_eq _ := rfl
  abs_eq a := by
    show ratAbs a = |a|
    unfold ratAbs; split_ifs with h
    · rw [abs_of_neg h]
    · rw [abs_of_nonneg (not_lt.mp h)]
  lt_eq _ _ := rfl
  le_eq _ _ := rfl
  beq_eq _ _ := rfl
  ofRat_eq r := by simp [Scalar.ofRat]
  min_eq a b := by
    show (if b < a then b else a) = min a b
    split_ifs with h
    · rw [min_eq_right h.le]
    · rw [min_eq_left (not_lt.mp h)]
  max_eq a b := by
    show (if a < b then b else a) = max a b
    split_ifs with h
    · rw [max_eq_right h.le]
    · rw [max_eq_left (not_lt.mp h)]
  floor_eq a := by show ratFloor a = _; unfold ratFloor; rfl
  ceil_eq a := ratCeil_eq a
  trunc_eq a := by
    show ratTrunc a = _
    unfold ratTrunc; rw [ratCeil_eq]; rfl
  round_eq a := by
    show ratRound a = _
    unfold ratRound; rw [ratCeil_eq]; rfl
  copysign_eq a b := by
    show (if b < 0 then -(ratAbs a) else ratAbs a) = _
    have : ratAbs a = |a| := by
      unfold ratAbs; split_ifs with h
      · rw [abs_of_neg h]
      · rw [abs_of_nonneg (not_lt.mp h)]
    rw [this]
  signum_eq _ := rfl
  fin_eq _ := rfl
  finQuot_eq _ _ := rfl
  isNan_eq _ := rfl
  fma_eq _ _ _ := rfl
end Kurbo
