import Proofs.KDefs
import Proofs.Lemmas.C18S
import Proofs.Lemmas.C18T
/-! C18T – `PathSeg::tangents` (bezpath.rs) after the repair of its zero-chord fall-back (crate commit f4732a0), as transcribed in
    `Kurbo/Simplify.lean` (`PathSeg.tangents`, `Vec2.isZero`).  It is the function through which `simplify_bezpath` (corner test,
    `simpCorner`) and the stroker (`do_join`, `do_cap`) see the direction of a curve at its ends.

    Before the repair a quadratic/cubic whose end points coincide and whose control arms are shorter than `1e-6` (squared length
    `<= EPS = 1e-12`) got the chord as its tangent, i.e. the zero vector (`Q (0,0) (1e-7,0) (0,0)`); the stroker then divided by
    its length.  Now the control arm is returned.

    What is proved (sections 1–3 over a lawful ordered field, i.e. exact arithmetic; no hypothesis on the size of the segment –
    the `EPS` thresholds do not weaken the statement):
    1. `line_tangents_eq_zero_iff`, `quad_tangent_start_eq_zero_iff`, `quad_tangent_end_eq_zero_iff`,
       `cubic_tangent_start_eq_zero_iff`, `cubic_tangent_end_eq_zero_iff`: a returned tangent is the zero vector IF AND ONLY IF
       all control points of the segment are the same point.
    2. `tangents_eq_zero_iff_isPoint` (the same for a `PathSeg`, `PathSeg.IsPoint` = all control points equal) and the motivating
       form `tangents_ne_zero`: a segment that is not a single point has BOTH tangents non-zero.
    3. `simplify_kept_segment_tangents_ne_zero`, `simplify_head_segments_tangents_ne_zero`: every segment the loop of
       `simplify_bezpath` keeps (it skips exactly those whose points all equal the current point) has non-zero tangents, so the
       corner test `simpCorner` never sees a zero vector.
    4. `tangents_eq_before_repair_of_open` (EVERY `[Scalar K]`, also `Float`): on a segment whose end points differ (`==` of the
       chord with `Vec2::ZERO` is false) the function returns exactly what it returned before the repair
       (`PathSeg.tangentsOld`, the old text kept in `Proofs/Lemmas/C18T.lean` for this statement only).

    What is NOT proved / limits:
    * Nothing here is about binary64: over `Float` the squared length of a non-zero arm can underflow to `0.0` – this does not
      matter for the zero test (the comparisons with `Vec2::ZERO` are on the components, not on the squared length), but a
      tangent shorter than about `0.5·width/f64::MAX` still overflows the division in the stroker (fix_3.md, "Not covered").
      The comparison crate = `Float` model is by replay (C18 `skeleton-closed-tiny`, C14 `tiny-closed`).
    * The tangent of a tiny closed curve is the control ARM, which is the true tangent direction of the curve at that end only
      if the arm is non-zero; for `C p0 p0 p2 p0` the start tangent returned is `p2 − p0` (the true limit direction), for
      `C p0 p1 p0 p0` the end tangent returned is `p0 − p1` (also the limit direction).  That the returned vectors are the limit
      tangent directions in general is not shown. -/
namespace Kurbo
section lawful
variable {K : Type} [Field K] [LinearOrder K] [IsStrictOrderedRing K] [FloorRing K] [Scalar K] [LawfulScalar K]

/-! ### 1. a zero tangent means a single point -/

theorem line_tangents_eq_zero_iff (l : Line K) :
    ((PathSeg.Line l).tangents.1 = ⟨0, 0⟩ ↔ l.p1 = l.p0) ∧ ((PathSeg.Line l).tangents.2 = ⟨0, 0⟩ ↔ l.p1 = l.p0) := by
  simp only [PathSeg.tangents, c18t_point_sub_eq_zero, and_self]

theorem quad_tangent_start_eq_zero_iff (q : QuadBez K) :
    (PathSeg.Quad q).tangents.1 = ⟨0, 0⟩ ↔ q.p1 = q.p0 ∧ q.p2 = q.p0 := by
  simp only [PathSeg.tangents]
  rw [c18t_quadPick, c18t_point_sub_eq_zero, c18t_point_sub_eq_zero]

theorem quad_tangent_end_eq_zero_iff (q : QuadBez K) :
    (PathSeg.Quad q).tangents.2 = ⟨0, 0⟩ ↔ q.p1 = q.p0 ∧ q.p2 = q.p0 := by
  simp only [PathSeg.tangents]
  rw [c18t_quadPick, c18t_point_sub_eq_zero, c18t_point_sub_eq_zero]
  constructor
  · rintro ⟨h1, h2⟩; exact ⟨h1.symm.trans h2, h2⟩
  · rintro ⟨h1, h2⟩; exact ⟨h2.trans h1.symm, h2⟩

theorem cubic_tangent_start_eq_zero_iff (c : CubicBez K) :
    (PathSeg.Cubic c).tangents.1 = ⟨0, 0⟩ ↔ c.p1 = c.p0 ∧ c.p2 = c.p0 ∧ c.p3 = c.p0 := by
  simp only [PathSeg.tangents]
  rw [c18t_cubicPick, c18t_point_sub_eq_zero, c18t_point_sub_eq_zero, c18t_point_sub_eq_zero]

theorem cubic_tangent_end_eq_zero_iff (c : CubicBez K) :
    (PathSeg.Cubic c).tangents.2 = ⟨0, 0⟩ ↔ c.p1 = c.p0 ∧ c.p2 = c.p0 ∧ c.p3 = c.p0 := by
  simp only [PathSeg.tangents]
  rw [c18t_cubicPick, c18t_point_sub_eq_zero, c18t_point_sub_eq_zero, c18t_point_sub_eq_zero]
  constructor
  · rintro ⟨h32, h31, h30⟩; exact ⟨h31.symm.trans h30, h32.symm.trans h30, h30⟩
  · rintro ⟨h1, h2, h3⟩; exact ⟨h3.trans h2.symm, h3.trans h1.symm, h3⟩

/-! ### 2. the motivating statement -/

theorem tangents_eq_zero_iff_isPoint (s : PathSeg K) :
    (s.tangents.1 = ⟨0, 0⟩ ↔ s.IsPoint) ∧ (s.tangents.2 = ⟨0, 0⟩ ↔ s.IsPoint) := by
  cases s with
  | Line l => exact line_tangents_eq_zero_iff l
  | Quad q => exact ⟨quad_tangent_start_eq_zero_iff q, quad_tangent_end_eq_zero_iff q⟩
  | Cubic c => exact ⟨cubic_tangent_start_eq_zero_iff c, cubic_tangent_end_eq_zero_iff c⟩

/-- **A segment that is not a single point has two non-zero tangents** (what the repair is for). -/
theorem tangents_ne_zero (s : PathSeg K) (h : ¬ s.IsPoint) : s.tangents.1 ≠ ⟨0, 0⟩ ∧ s.tangents.2 ≠ ⟨0, 0⟩ :=
  ⟨fun h0 => h ((tangents_eq_zero_iff_isPoint s).1.mp h0), fun h0 => h ((tangents_eq_zero_iff_isPoint s).2.mp h0)⟩

/-- the formerly failing input: `Q (0,0) (1e-7,0) (0,0)` is not a point … -/
example : ¬ (PathSeg.Quad (K := Rat) ⟨⟨0,0⟩,⟨1/10000000,0⟩,⟨0,0⟩⟩).IsPoint := by
  simp [PathSeg.IsPoint]
/-- … and its tangents are now the control arms (before the repair: both `(0,0)`, see the `tangentsOld` example) -/
example : (PathSeg.Quad (K := Rat) ⟨⟨0,0⟩,⟨1/10000000,0⟩,⟨0,0⟩⟩).tangents = (⟨1/10000000,0⟩, ⟨-1/10000000,0⟩) := by
  decide +kernel
example : (PathSeg.Quad (K := Rat) ⟨⟨0,0⟩,⟨1/10000000,0⟩,⟨0,0⟩⟩).tangentsOld = (⟨0,0⟩, ⟨0,0⟩) := by
  decide +kernel
/-- `C (0,0) (1e-7,0) (0,1e-7) (0,0)` (fix_3.md) -/
example : (PathSeg.Cubic (K := Rat) ⟨⟨0,0⟩,⟨1/10000000,0⟩,⟨0,1/10000000⟩,⟨0,0⟩⟩).tangents = (⟨1/10000000,0⟩, ⟨0,-1/10000000⟩) := by
  decide +kernel
/-- a closed cubic whose first arm is zero: the second control point gives the start tangent -/
example : (PathSeg.Cubic (K := Rat) ⟨⟨0,0⟩,⟨0,0⟩,⟨0,1/10000000⟩,⟨0,0⟩⟩).tangents = (⟨0,1/10000000⟩, ⟨0,-1/10000000⟩) := by
  decide +kernel
/-- tiny but open: the chord is used, as before -/
example : (PathSeg.Quad (K := Rat) ⟨⟨0,0⟩,⟨1/10000000,0⟩,⟨0,1/10000000⟩⟩).tangents = (⟨0,1/10000000⟩, ⟨0,1/10000000⟩) := by
  decide +kernel
/-- the only segments with a zero tangent -/
example : (PathSeg.Cubic (K := Rat) ⟨⟨3,4⟩,⟨3,4⟩,⟨3,4⟩,⟨3,4⟩⟩).tangents = (⟨0,0⟩, ⟨0,0⟩) := by decide +kernel

/-! ### 3. the segments `simplify_bezpath` keeps -/

/-- a drawing element that the loop does not skip (current point `last`) becomes a segment with non-zero tangents -/
theorem simplify_kept_segment_tangents_ne_zero (last : Point K) (el : PathEl K) (s : PathSeg K)
    (h : simpElSeg last el = some s) : s.tangents.1 ≠ ⟨0, 0⟩ ∧ s.tangents.2 ≠ ⟨0, 0⟩ := by
  apply tangents_ne_zero
  have peq_iff : ∀ a b : Point K, a.peq b = true ↔ a = b := by
    intro a b; cases a; cases b
    simp only [Point.peq, scalar_norm, Bool.and_eq_true, decide_eq_true_eq, Point.mk.injEq]
  cases el with
  | MoveTo p => simp [simpElSeg] at h
  | ClosePath => simp [simpElSeg] at h
  | LineTo p =>
    simp only [simpElSeg] at h
    by_cases hp : last.peq p = true
    · simp [hp] at h
    · rw [if_neg hp] at h
      cases h
      intro hpt
      exact hp ((peq_iff _ _).mpr hpt.symm)
  | QuadTo p1 p2 =>
    simp only [simpElSeg] at h
    by_cases hp : (last.peq p1 && last.peq p2) = true
    · simp [hp] at h
    · rw [if_neg hp] at h
      cases h
      rintro ⟨h1, h2⟩
      apply hp
      rw [Bool.and_eq_true]
      exact ⟨(peq_iff _ _).mpr h1.symm, (peq_iff _ _).mpr h2.symm⟩
  | CurveTo p1 p2 p3 =>
    simp only [simpElSeg] at h
    by_cases hp : (last.peq p1 && last.peq p2 && last.peq p3) = true
    · simp [hp] at h
    · rw [if_neg hp] at h
      cases h
      rintro ⟨h1, h2, h3⟩
      apply hp
      rw [Bool.and_eq_true, Bool.and_eq_true]
      exact ⟨⟨(peq_iff _ _).mpr h1.symm, (peq_iff _ _).mpr h2.symm⟩, (peq_iff _ _).mpr h3.symm⟩

/-- all segments of a sub-path as the loop sees them (`simpHeadSegs`, the lists the corner test runs over) have non-zero tangents -/
theorem simplify_head_segments_tangents_ne_zero (els : List (PathEl K)) (last : Point K) :
    ∀ s ∈ simpHeadSegs last els, s.tangents.1 ≠ ⟨0, 0⟩ ∧ s.tangents.2 ≠ ⟨0, 0⟩ := by
  induction els generalizing last with
  | nil => intro s hs; simp [simpHeadSegs] at hs
  | cons el r ih =>
    intro s hs
    unfold simpHeadSegs at hs
    by_cases hd : el.simpDraw = true
    · rw [if_pos hd] at hs
      cases hseg : simpElSeg last el with
      | none => rw [hseg] at hs; exact ih last s hs
      | some s' =>
        rw [hseg] at hs
        rcases List.mem_cons.mp hs with rfl | hs'
        · exact simplify_kept_segment_tangents_ne_zero last el _ hseg
        · exact ih _ s hs'
    · rw [if_neg hd] at hs; simp at hs

/-- the tiny closed quadratic after a line is kept, and is now a corner against the line before it (before the repair its zero
    tangent made `0 < 0` false: no corner, the loop was fitted together with the line) -/
example : simpElSeg (K := Rat) ⟨0,0⟩ (.QuadTo ⟨1/10000000,0⟩ ⟨0,0⟩) = some (.Quad ⟨⟨0,0⟩,⟨1/10000000,0⟩,⟨0,0⟩⟩) := by
  decide +kernel
example : simpCorner (K := Rat) (Scalar.ofRat (1/1000)) (.Line ⟨⟨0,1⟩,⟨0,0⟩⟩) (.Quad ⟨⟨0,0⟩,⟨1/10000000,0⟩,⟨0,0⟩⟩) = true := by
  decide +kernel

end lawful

/-! ### 4. nothing changes when the end points differ (any scalar type) -/
section structural
variable {K : Type} [Scalar K]

theorem tangents_eq_before_repair_of_open (s : PathSeg K) (h : (s.end - s.start : Vec2 K).isZero = false) :
    s.tangents = s.tangentsOld := by
  cases s with
  | Line l => rfl
  | Quad q =>
    have h' : (q.p2 - q.p0 : Vec2 K).isZero = false := h
    simp only [PathSeg.tangents, PathSeg.tangentsOld, h', Bool.or_false]
  | Cubic c =>
    have h' : (c.p3 - c.p0 : Vec2 K).isZero = false := h
    simp only [PathSeg.tangents, PathSeg.tangentsOld, h', Bool.not_false, if_true]

example : ((PathSeg.Quad (K := Rat) ⟨⟨0,0⟩,⟨1/10000000,0⟩,⟨0,1/10000000⟩⟩).end
    - (PathSeg.Quad (K := Rat) ⟨⟨0,0⟩,⟨1/10000000,0⟩,⟨0,1/10000000⟩⟩).start : Vec2 Rat).isZero = false := by decide +kernel

end structural
end Kurbo
