import Proofs.Lemmas.C04CBevel
import Proofs.Lemmas.C04Real
/-! C04C – stroke outline = offset region: COVERAGE theorems connecting the stroker model (`Kurbo/Stroke.lean`,
    `strokeUndashed`) with the winding model (`Kurbo/Curve.lean`, `pathWinding`).  (C04 proves structure and bounds the VERTICES
    of the outline; nothing there is about winding numbers.)

    Scalars: lawful ordered field with a lawful `hypot` (`C04HypotLaw`, inhabited by ℝ – `c04_exReal`); exact arithmetic.
    Notation: `t = p1 − p0`, `n = c04_norm w t = (w/2)/|t| · (−t.y, t.x)` the model's offset vector (left-hand normal of
    length `w/2`), `c04c_InRect p0 p1 w q`: `0 < (q − p0)·t < t·t` and `(t × (q − p0))² < (w/2)²·(t·t)`, i.e. the orthogonal
    projection of `q` on the supporting line is interior to the segment and `q` is closer than `w/2` to the line.

    PROVED
    1. One segment `[MoveTo p0, LineTo p1]`, `p0 ≠ p1`, `w > 0`, butt caps, any join, any tolerance:
       * `c04c_one_segment_butt_outline` – the model returns the single closed contour
         `MoveTo (p0 − n), LineTo (p1 − n), LineTo (p1 + n), LineTo (p0 + n), ClosePath` (counter-clockwise in y-up axes:
         right-hand side forward, end cap, left-hand side backward, `ClosePath` is the start cap).
       * `c04c_one_segment_butt_coverage` – every `q` with `c04c_InRect` has winding number exactly `1` (≠ 0).
       * `c04c_one_segment_butt_exclusion` – every `q` farther than `w/2` from every point of the segment has winding `0`.
       * `c04c_one_segment_butt_winding` – for every `q` on none of the four edges of the outline the winding number is
         `1` if `c04c_InRect` and `0` otherwise (the full "iff"); `c04c_one_segment_butt_nonzero_iff` restates it as `≠ 0 ↔`.
       * `c04c_one_segment_butt_nonneg` – at EVERY point (also on the outline) the winding number is `≥ 0`.
       * `c04c_inRect_of_params` – `q = p0 + s·t + u·n`, `0 < s < 1`, `−1 < u < 1` satisfies `c04c_InRect` (the parametrised form
         `{p0 + s(p1 − p0) + u'·n̂ : 0 < s < 1, |u'| < w/2}`).

    2. One segment, SQUARE caps (`start_cap = end_cap = 1`):
       * `c04c_one_segment_square_outline` – eight vertices `p0 − n, p1 − n, p1 − n + e, p1 + n + e, p1 + n, p0 + n, p0 + n − e,
         p0 − n − e` (`e = (n.y, −n.x)`, the tangent direction scaled to `w/2`); `p0 ∓ n`, `p1 ∓ n` are collinear with their
         neighbours (degenerate vertices on the long sides of the extended rectangle).
       * `c04c_one_segment_square_coverage` (winding `1` on the open rectangle extended by `w/2` at both ends, `c04c_InRectSq`),
         `c04c_one_segment_square_exclusion` (winding `0` farther than `√2·w/2` from the segment, stated with squares),
         `c04c_one_segment_square_winding` (indicator of the open extended rectangle off its four edges),
         `c04c_one_segment_square_nonneg`.
    3. Two segments `[MoveTo p0, LineTo p1, LineTo p2]`, non-collinear, BEVEL join made (`c04c_joinTest2 = true`;
       `c04c_two_segments_join_test_iff`: `dot ≤ 0 ∨ hypot(cross, dot)·(2·tol/w) ≤ |cross|`; always true for tolerance 0:
       `c04c_two_segments_join_test_zero_tolerance`), butt caps:
       * `c04c_two_segments_bevel_outline_left` / `_right` – the nine-vertex outline; the INNER side passes through the join point
         `p1` itself (`inner_join_pivot`), so the outline is non-convex and the two inner offset edges overlap the other rectangle.
       * `c04c_two_segments_bevel_coverage` – every point of the open swept rectangle of EITHER segment has winding number `≥ 1`
         (so non-zero; it is `2` where the two rectangles overlap – example below).  Proof: at EVERY query point the crossing
         sum of the outline is `R1 + R2 + T` (rectangle 1, rectangle 2, bevel triangle `p1 ∓ n1, p1 ∓ n2, p1`), each `≥ 0`
         everywhere (also ON edges), and `Ri = 1` on the open rectangle.
       * `c04c_two_segments_bevel_nonneg` – winding `≥ 0` everywhere.
    4. Closedness: nothing new beyond C04 part A (`c04_stroke_contours_closed`); the outline theorems above exhibit the single
       closed contour explicitly (`MoveTo … ClosePath`; the closing edge `p0 + n → p0 − n` is the butt start cap).
    Helper lemmas: `Proofs/Lemmas/C04CConvex.lean` (crossing sums of positively oriented triangles and parallelograms, pure
    `kcr` arithmetic – reusable), `C04COutline.lean` (what `strokeUndashed` returns, any `Scalar`), `C04CGeom.lean`,
    `C04CSquare.lean`, `C04CBevel.lean`.

    NOT PROVED
    * Exclusion for the two-segment outline (no point farther than `w/2` from the polyline is covered): by `R1 + R2 + T` it needs
      "outside both closed rectangles and the closed triangle ⇒ 0" (`para_out` gives the rectangles; the triangle part and the
      distance bound for the triangle are not done).  Exact winding value (1 or 2) on the two-segment outline.
    * Anything for three or more segments, closed sub-paths, miter or round joins, round caps, mixed caps, `QuadTo`/`CurveTo`.
    * The case where the join-skip test fails: then coverage is FALSE as stated (example at the end of this file: tolerance 1/2,
      a 22.6° turn: a point of the open rectangle of the second segment with winding number 0); the crate accepts this within
      its tolerance.  Also the collinear case `cross = 0` (straight on or U-turn) is not covered by the theorems of part 3.
    * In `c04c_one_segment_square_winding` the "off the outline" hypothesis is stated for the four edges of the extended
      rectangle (equal as a point set to the union of the eight outline edges; that equality is not proved here).
    * Everything is exact arithmetic (`LawfulScalar` + `C04HypotLaw`); nothing about `Float` rounding (e.g. `n` is then only
      approximately of length `w/2`).
    Only property theorems live here. -/
set_option linter.unusedSectionVars false
set_option linter.unusedVariables false
namespace Kurbo
open PathEl
section
variable {K : Type} [Field K] [LinearOrder K] [IsStrictOrderedRing K] [FloorRing K] [Scalar K] [LawfulScalar K]
  [C04HypotLaw K]

/-- the hypotheses on the scalar are satisfiable (ℝ with `hypot x y = √(x²+y²)`) -/
example : ∃ (_ : Scalar ℝ) (_ : LawfulScalar ℝ), C04HypotLaw ℝ := c04_exReal

/-! ## 1. one segment, butt caps -/

/-- **The outline of one butt-capped segment** is the rectangle `p0 − n, p1 − n, p1 + n, p0 + n` (this order), one closed
    contour, whatever the join style and the tolerance. -/
theorem c04c_one_segment_butt_outline (p0 p1 : Point K) (style : StrokeStyle K) (tol : K) (hne : p0 ≠ p1)
    (hs : style.start_cap = 0) (he : style.end_cap = 0) :
    strokeUndashed [MoveTo p0, LineTo p1] style tol =
      .ok [MoveTo (p0 - c04_norm style.width (p1 - p0)), LineTo (p1 - c04_norm style.width (p1 - p0)),
           LineTo (p1 + c04_norm style.width (p1 - p0)), LineTo (p0 + c04_norm style.width (p1 - p0)), ClosePath] := by
  rw [c04c_strokeOne p0 p1 style tol (Bool.eq_false_iff.mpr fun h => hne (c04_peqSound _ _ h).symm)]
  simp only [c04_endCap, c04_startCap, he, hs, List.cons_append, List.nil_append]
example : (⟨0, 0⟩ : Point Rat) ≠ ⟨4, 3⟩ := by decide
/-- the same outline computed by the model over `Rat` (3-4-5 segment, width 10: `n = (−3, 4)`) -/
example : c04c_okOut (strokeUndashed ([MoveTo ⟨0, 0⟩, LineTo ⟨4, 3⟩] : List (PathEl Rat)) ⟨10, 0, 4, 0, 0⟩ (1/10)) =
    some [MoveTo ⟨3, -4⟩, LineTo ⟨7, -1⟩, LineTo ⟨1, 7⟩, LineTo ⟨-3, 4⟩, ClosePath] := by decide +kernel

/-- **Coverage.** Every point whose projection on the segment is interior and whose distance from it is `< w/2` has winding
    number `1` (in particular non-zero) with respect to the outline the model returns. -/
theorem c04c_one_segment_butt_coverage (p0 p1 : Point K) (style : StrokeStyle K) (tol : K) (hne : p0 ≠ p1)
    (hw : 0 < style.width) (hs : style.start_cap = 0) (he : style.end_cap = 0) (q : Point K)
    (hq : c04c_InRect p0 p1 style.width q) :
    ∃ out, strokeUndashed [MoveTo p0, LineTo p1] style tol = .ok out ∧ pathWinding out q = some 1 :=
  ⟨_, c04c_one_segment_butt_outline p0 p1 style tol hne hs he, c04c_rect_cover style.width p0 p1 q hw hne hq⟩
example : c04c_InRect (⟨0, 0⟩ : Point Rat) ⟨4, 3⟩ 10 ⟨1, 3⟩ := by
  simp only [c04c_InRect, Vec2.dot, Vec2.cross, Vec2.hypot2, scalar_norm, vsub_x, vsub_y]; norm_num
example : pathWinding ([MoveTo ⟨3, -4⟩, LineTo ⟨7, -1⟩, LineTo ⟨1, 7⟩, LineTo ⟨-3, 4⟩, ClosePath] : List (PathEl Rat)) ⟨1, 3⟩
    = some 1 := by decide +kernel

/-- the parametrised form of the open rectangle: `q = p0 + s·(p1 − p0) + u·n` with `0 < s < 1`, `−1 < u < 1`
    (`n` has length `w/2`, so `u·n = u'·n̂` with `|u'| < w/2`) -/
theorem c04c_inRect_of_params (p0 p1 q : Point K) (w s u : K) (hne : p0 ≠ p1) (hw : 0 < w)
    (hs0 : 0 < s) (hs1 : s < 1) (hu0 : -1 < u) (hu1 : u < 1)
    (hx : q.x = p0.x + s * (p1.x - p0.x) + u * (c04_norm w (p1 - p0)).x)
    (hy : q.y = p0.y + s * (p1.y - p0.y) + u * (c04_norm w (p1 - p0)).y) : c04c_InRect p0 p1 w q := by
  obtain ⟨nx, ny⟩ := c04c_norm_coords w p0 p1
  rw [nx] at hx; rw [ny] at hy
  have hT := c04c_T2_pos p0 p1 hne
  have hkT := mul_pos (c04c_k_pos w p0 p1 hw hne) hT
  rw [c04c_inRect_iff w p0 p1 q hw hne]
  have e1 : (q.x - p0.x) * (p1.x - p0.x) + (q.y - p0.y) * (p1.y - p0.y)
      = s * ((p1.x - p0.x) * (p1.x - p0.x) + (p1.y - p0.y) * (p1.y - p0.y)) := by rw [hx, hy]; ring
  have e2 : (p1.x - p0.x) * (q.y - p0.y) - (p1.y - p0.y) * (q.x - p0.x)
      = u * (c04c_k w p0 p1 * ((p1.x - p0.x) * (p1.x - p0.x) + (p1.y - p0.y) * (p1.y - p0.y))) := by rw [hx, hy]; ring
  rw [e1, e2]
  refine ⟨mul_pos hs0 hT, ?_, ?_, ?_⟩
  · have := mul_lt_mul_of_pos_right hs1 hT; linarith
  · have := mul_lt_mul_of_pos_right hu0 hkT; linarith
  · have := mul_lt_mul_of_pos_right hu1 hkT; linarith
example : (0 : Rat) < 1/2 ∧ (1/2 : Rat) < 1 ∧ (-1 : Rat) < 1/3 ∧ (1/3 : Rat) < 1 := by norm_num

/-- **Exclusion.** A point farther than `w/2` from every point `p0 + s·(p1 − p0)`, `0 ≤ s ≤ 1`, of the segment has winding
    number `0` (no hypothesis "off the outline" is needed: the outline is within `w/2` of the segment). -/
theorem c04c_one_segment_butt_exclusion (p0 p1 : Point K) (style : StrokeStyle K) (tol : K) (hne : p0 ≠ p1)
    (hw : 0 < style.width) (hs : style.start_cap = 0) (he : style.end_cap = 0) (q : Point K)
    (hfar : ∀ s : K, 0 ≤ s → s ≤ 1 → (style.width / 2) ^ 2 < (p0.lerp p1 s).distance_squared q) :
    ∃ out, strokeUndashed [MoveTo p0, LineTo p1] style tol = .ok out ∧ pathWinding out q = some 0 :=
  ⟨_, c04c_one_segment_butt_outline p0 p1 style tol hne hs he, c04c_rect_far style.width p0 p1 q hw hne hfar⟩
/-- `(9, 9)` is farther than `w/2 = 5` from the segment `(0,0)–(4,3)`: squared distance `(9−4s)² + (9−3s)² ≥ 61` on `[0,1]` -/
example : ∀ s : Rat, 0 ≤ s → s ≤ 1 →
    ((10 : Rat) / 2) ^ 2 < ((⟨0, 0⟩ : Point Rat).lerp ⟨4, 3⟩ s).distance_squared ⟨9, 9⟩ := by
  intro s h0 h1
  simp only [kdefs, scalar_norm]
  nlinarith
example : pathWinding ([MoveTo ⟨3, -4⟩, LineTo ⟨7, -1⟩, LineTo ⟨1, 7⟩, LineTo ⟨-3, 4⟩, ClosePath] : List (PathEl Rat)) ⟨9, 9⟩
    = some 0 := by decide +kernel

/-- **Winding number of the outline = indicator of the open swept rectangle**, at every point on none of the four edges. -/
theorem c04c_one_segment_butt_winding (p0 p1 : Point K) (style : StrokeStyle K) (tol : K) (hne : p0 ≠ p1)
    (hw : 0 < style.width) (hs : style.start_cap = 0) (he : style.end_cap = 0) (q : Point K) :
    ∃ out ss, strokeUndashed [MoveTo p0, LineTo p1] style tol = .ok out ∧ segs out = some ss ∧
      ((∀ e ∈ ss, ¬ OnSeg e q) →
        pathWinding out q = some (if c04c_InRect p0 p1 style.width q then 1 else 0)) := by
  refine ⟨_, _, c04c_one_segment_butt_outline p0 p1 style tol hne hs he, segs_quadrilateral _ _ _ _, fun hoff => ?_⟩
  have h1 := hoff _ (List.mem_append_left _ (List.mem_cons_self))
  have h2 := hoff _ (List.mem_append_left _ (List.mem_cons_of_mem _ List.mem_cons_self))
  have h3 := hoff _ (List.mem_append_left _ (List.mem_cons_of_mem _ (List.mem_cons_of_mem _ List.mem_cons_self)))
  have h4 : ¬ OnSeg (.Line ⟨p0 + c04_norm style.width (p1 - p0), p0 - c04_norm style.width (p1 - p0)⟩) q := by
    by_cases hd : p0 + c04_norm style.width (p1 - p0) = p0 - c04_norm style.width (p1 - p0)
    · -- cannot happen (n ≠ 0), but then the edge is the single point `p0 − n`, which is on the first edge
      intro ⟨t, ht0, ht1, hev⟩
      apply h1
      refine ⟨0, le_refl _, zero_le_one, ?_⟩
      rw [← hev, hd]
      simp only [PathSeg.eval]
      cases p0; kring
    · exact hoff _ (List.mem_append_right _ (by rw [if_neg hd]; exact List.mem_cons_self))
  exact c04c_rect_winding style.width p0 p1 q hw hne h1 h2 h3 h4

/-- the same as an equivalence: off the outline, `winding ≠ 0 ↔ q` is in the open swept rectangle -/
theorem c04c_one_segment_butt_nonzero_iff (p0 p1 : Point K) (style : StrokeStyle K) (tol : K) (hne : p0 ≠ p1)
    (hw : 0 < style.width) (hs : style.start_cap = 0) (he : style.end_cap = 0) (q : Point K) :
    ∃ out ss, strokeUndashed [MoveTo p0, LineTo p1] style tol = .ok out ∧ segs out = some ss ∧
      ((∀ e ∈ ss, ¬ OnSeg e q) →
        ∃ wn : Int, pathWinding out q = some wn ∧ (wn ≠ 0 ↔ c04c_InRect p0 p1 style.width q)) := by
  obtain ⟨out, ss, h1, h2, h3⟩ := c04c_one_segment_butt_winding p0 p1 style tol hne hw hs he q
  refine ⟨out, ss, h1, h2, fun hoff => ⟨_, h3 hoff, ?_⟩⟩
  by_cases hin : c04c_InRect p0 p1 style.width q
  · rw [if_pos hin]; exact ⟨fun _ => hin, fun _ => by decide⟩
  · rw [if_neg hin]; exact ⟨fun h => absurd rfl h, fun h => absurd h hin⟩
/-- `(1, 3)` is on none of the four edges of the 3-4-5 outline (each edge: the point is strictly on one side of its line) -/
example : ∀ e ∈ ([.Line ⟨⟨3, -4⟩, ⟨7, -1⟩⟩, .Line ⟨⟨7, -1⟩, ⟨1, 7⟩⟩, .Line ⟨⟨1, 7⟩, ⟨-3, 4⟩⟩, .Line ⟨⟨-3, 4⟩, ⟨3, -4⟩⟩] :
    List (PathSeg Rat)), ¬ OnSeg e ⟨1, 3⟩ := by
  intro e he
  simp only [List.mem_cons, List.not_mem_nil, or_false] at he
  rcases he with rfl | rfl | rfl | rfl <;> rw [onSeg_line_iff] <;> rintro ⟨t, _, _, hx, hy⟩ <;> simp only at hx hy <;> linarith

/-- at EVERY point – also on the outline – the winding number is `≥ 0` (the outline is positively oriented) -/
theorem c04c_one_segment_butt_nonneg (p0 p1 : Point K) (style : StrokeStyle K) (tol : K) (hne : p0 ≠ p1)
    (hw : 0 < style.width) (hs : style.start_cap = 0) (he : style.end_cap = 0) (q : Point K) :
    ∃ (out : List (PathEl K)) (wn : Int), strokeUndashed [MoveTo p0, LineTo p1] style tol = .ok out ∧ pathWinding out q = some wn ∧ 0 ≤ wn := by
  obtain ⟨wn, h1, h2⟩ := c04c_rect_nonneg style.width p0 p1 q hw hne
  exact ⟨_, wn, c04c_one_segment_butt_outline p0 p1 style tol hne hs he, h1, h2⟩

/-! ## 2. one segment, square caps -/

/-- **The outline of one square-capped segment**: eight vertices, `e = (n.y, −n.x)` is the tangent direction scaled to `w/2`:
    `p0 − n, p1 − n, p1 − n + e, p1 + n + e, p1 + n, p0 + n, p0 + n − e, p0 − n − e`.  The vertices `p1 ∓ n` and `p0 ∓ n` lie
    in the interior of edges of the extended rectangle (collinear triples – degenerate vertices of the polygon). -/
theorem c04c_one_segment_square_outline (p0 p1 : Point K) (style : StrokeStyle K) (tol : K) (hne : p0 ≠ p1)
    (hs : style.start_cap = 1) (he : style.end_cap = 1) :
    let n := c04_norm style.width (p1 - p0)
    strokeUndashed [MoveTo p0, LineTo p1] style tol =
      .ok [MoveTo (p0 - n), LineTo (p1 - n), LineTo ⟨p1.x - n.x + n.y, p1.y - n.y - n.x⟩,
           LineTo ⟨p1.x + n.x + n.y, p1.y + n.y - n.x⟩, LineTo ⟨p1.x + n.x, p1.y + n.y⟩, LineTo (p0 + n),
           LineTo ⟨p0.x + n.x - n.y, p0.y + n.y + n.x⟩, LineTo ⟨p0.x - n.x - n.y, p0.y - n.y + n.x⟩, ClosePath] :=
  c04c_strokeOne_square p0 p1 style tol hne hs he
example : c04c_okOut (strokeUndashed ([MoveTo ⟨0, 0⟩, LineTo ⟨4, 3⟩] : List (PathEl Rat)) ⟨10, 0, 4, 1, 1⟩ (1/10)) =
    some [MoveTo ⟨3, -4⟩, LineTo ⟨7, -1⟩, LineTo ⟨11, 2⟩, LineTo ⟨5, 10⟩, LineTo ⟨1, 7⟩, LineTo ⟨-3, 4⟩, LineTo ⟨-7, 1⟩,
      LineTo ⟨-1, -7⟩, ClosePath] := by decide +kernel

/-- **Coverage, square caps.** `c04c_InRectSq`: projection parameter strictly between `−(w/2)/|t|` and `1 + (w/2)/|t|`, distance
    from the supporting line `< w/2` – the open rectangle extended by `w/2` at both ends.  Winding number `1`. -/
theorem c04c_one_segment_square_coverage (p0 p1 : Point K) (style : StrokeStyle K) (tol : K) (hne : p0 ≠ p1)
    (hw : 0 < style.width) (hs : style.start_cap = 1) (he : style.end_cap = 1) (q : Point K)
    (hq : c04c_InRectSq p0 p1 style.width q) :
    ∃ out, strokeUndashed [MoveTo p0, LineTo p1] style tol = .ok out ∧ pathWinding out q = some 1 :=
  ⟨_, c04c_strokeOne_square p0 p1 style tol hne hs he, c04c_sq_cover style.width p0 p1 q hw hne hq⟩
/-- `(−2, −2)` is beyond the start point `(0,0)` of the 3-4-5 segment but inside the square start cap -/
example : c04c_InRectSq (⟨0, 0⟩ : Point Rat) ⟨4, 3⟩ 10 ⟨-2, -2⟩ ∧ ¬ c04c_InRect (⟨0, 0⟩ : Point Rat) ⟨4, 3⟩ 10 ⟨-2, -2⟩ := by
  decide +kernel
example : pathWinding ([MoveTo ⟨3, -4⟩, LineTo ⟨7, -1⟩, LineTo ⟨11, 2⟩, LineTo ⟨5, 10⟩, LineTo ⟨1, 7⟩, LineTo ⟨-3, 4⟩,
    LineTo ⟨-7, 1⟩, LineTo ⟨-1, -7⟩, ClosePath] : List (PathEl Rat)) ⟨-2, -2⟩ = some 1 := by decide +kernel

/-- **Exclusion, square caps.** Farther than `√2·w/2` from every point of the segment (squared: `2·(w/2)²`): winding `0`. -/
theorem c04c_one_segment_square_exclusion (p0 p1 : Point K) (style : StrokeStyle K) (tol : K) (hne : p0 ≠ p1)
    (hw : 0 < style.width) (hs : style.start_cap = 1) (he : style.end_cap = 1) (q : Point K)
    (hfar : ∀ s : K, 0 ≤ s → s ≤ 1 → 2 * (style.width / 2) ^ 2 < (p0.lerp p1 s).distance_squared q) :
    ∃ out, strokeUndashed [MoveTo p0, LineTo p1] style tol = .ok out ∧ pathWinding out q = some 0 :=
  ⟨_, c04c_strokeOne_square p0 p1 style tol hne hs he, c04c_sq_far style.width p0 p1 q hw hne hfar⟩
example : ∀ s : Rat, 0 ≤ s → s ≤ 1 →
    2 * ((10 : Rat) / 2) ^ 2 < ((⟨0, 0⟩ : Point Rat).lerp ⟨4, 3⟩ s).distance_squared ⟨9, 9⟩ := by
  intro s h0 h1
  simp only [kdefs, scalar_norm]
  nlinarith
example : pathWinding ([MoveTo ⟨3, -4⟩, LineTo ⟨7, -1⟩, LineTo ⟨11, 2⟩, LineTo ⟨5, 10⟩, LineTo ⟨1, 7⟩, LineTo ⟨-3, 4⟩,
    LineTo ⟨-7, 1⟩, LineTo ⟨-1, -7⟩, ClosePath] : List (PathEl Rat)) ⟨9, 9⟩ = some 0 := by decide +kernel

/-- **Winding number, square caps** = indicator of the open extended rectangle, at every point on none of the four edges of
    the extended rectangle `A B C D` (`A = p0 − n − e`, `B = p1 − n + e`, `C = p1 + n + e`, `D = p0 + n − e`; `AB` is the union
    of the outline edges `A (p0−n)`, `(p0−n)(p1−n)`, `(p1−n) B`, likewise `CD`; `BC`, `DA` are outline edges). -/
theorem c04c_one_segment_square_winding (p0 p1 : Point K) (style : StrokeStyle K) (tol : K) (hne : p0 ≠ p1)
    (hw : 0 < style.width) (hs : style.start_cap = 1) (he : style.end_cap = 1) (q : Point K) :
    let n := c04_norm style.width (p1 - p0)
    let A : Point K := ⟨p0.x - n.x - n.y, p0.y - n.y + n.x⟩
    let B : Point K := ⟨p1.x - n.x + n.y, p1.y - n.y - n.x⟩
    let C : Point K := ⟨p1.x + n.x + n.y, p1.y + n.y - n.x⟩
    let D : Point K := ⟨p0.x + n.x - n.y, p0.y + n.y + n.x⟩
    ¬ OnSeg (.Line ⟨A, B⟩) q → ¬ OnSeg (.Line ⟨B, C⟩) q → ¬ OnSeg (.Line ⟨C, D⟩) q → ¬ OnSeg (.Line ⟨D, A⟩) q →
    ∃ out, strokeUndashed [MoveTo p0, LineTo p1] style tol = .ok out ∧
      pathWinding out q = some (if c04c_InRectSq p0 p1 style.width q then 1 else 0) := by
  intro n A B C D h1 h2 h3 h4
  exact ⟨_, c04c_strokeOne_square p0 p1 style tol hne hs he, c04c_sq_winding style.width p0 p1 q hw hne h1 h2 h3 h4⟩

/-- at EVERY point the winding number of the square-capped outline is `≥ 0` -/
theorem c04c_one_segment_square_nonneg (p0 p1 : Point K) (style : StrokeStyle K) (tol : K) (hne : p0 ≠ p1)
    (hw : 0 < style.width) (hs : style.start_cap = 1) (he : style.end_cap = 1) (q : Point K) :
    ∃ (out : List (PathEl K)) (wn : Int), strokeUndashed [MoveTo p0, LineTo p1] style tol = .ok out ∧ pathWinding out q = some wn ∧ 0 ≤ wn := by
  obtain ⟨wn, h1, h2⟩ := c04c_sq_nonneg style.width p0 p1 q hw hne
  exact ⟨_, wn, c04c_strokeOne_square p0 p1 style tol hne hs he, h1, h2⟩

/-! ## 3. two segments, bevel join, butt caps -/

/-- **Outline, left turn** (`(p1 − p0) × (p2 − p1) > 0`), join made (`c04c_joinTest2`, in ordinary arithmetic:
    `c04c_two_segments_join_test_iff`): nine vertices; the inner (left) side passes through the join point `p1` itself. -/
theorem c04c_two_segments_bevel_outline_left (p0 p1 p2 : Point K) (style : StrokeStyle K) (tol : K) (h01 : p0 ≠ p1)
    (h12 : p1 ≠ p2) (hj : style.join = 0) (hs : style.start_cap = 0) (he : style.end_cap = 0)
    (ht : c04c_joinTest2 p0 p1 p2 style.width tol = true) (hc : 0 < (p1 - p0).cross (p2 - p1)) :
    let n1 := c04_norm style.width (p1 - p0); let n2 := c04_norm style.width (p2 - p1)
    strokeUndashed [MoveTo p0, LineTo p1, LineTo p2] style tol =
      .ok [MoveTo (p0 - n1), LineTo (p1 - n1), LineTo (p1 - n2), LineTo (p2 - n2), LineTo (p2 + n2), LineTo (p1 + n2),
           LineTo p1, LineTo (p1 + n1), LineTo (p0 + n1), ClosePath] :=
  c04c_strokeTwo_left' p0 p1 p2 style tol h01 h12 hj hs he ht hc
example : c04c_okOut (strokeUndashed ([MoveTo ⟨0, 0⟩, LineTo ⟨4, 0⟩, LineTo ⟨4, 3⟩] : List (PathEl Rat)) ⟨2, 0, 4, 0, 0⟩ (1/10)) =
    some [MoveTo ⟨0, -1⟩, LineTo ⟨4, -1⟩, LineTo ⟨5, 0⟩, LineTo ⟨5, 3⟩, LineTo ⟨3, 3⟩, LineTo ⟨3, 0⟩, LineTo ⟨4, 0⟩,
      LineTo ⟨4, 1⟩, LineTo ⟨0, 1⟩, ClosePath] := by decide +kernel

/-- **Outline, right turn** (`cross < 0`): the pivot `p1` is on the right-hand (forward) side. -/
theorem c04c_two_segments_bevel_outline_right (p0 p1 p2 : Point K) (style : StrokeStyle K) (tol : K) (h01 : p0 ≠ p1)
    (h12 : p1 ≠ p2) (hj : style.join = 0) (hs : style.start_cap = 0) (he : style.end_cap = 0)
    (ht : c04c_joinTest2 p0 p1 p2 style.width tol = true) (hc : (p1 - p0).cross (p2 - p1) < 0) :
    let n1 := c04_norm style.width (p1 - p0); let n2 := c04_norm style.width (p2 - p1)
    strokeUndashed [MoveTo p0, LineTo p1, LineTo p2] style tol =
      .ok [MoveTo (p0 - n1), LineTo (p1 - n1), LineTo p1, LineTo (p1 - n2), LineTo (p2 - n2), LineTo (p2 + n2),
           LineTo (p1 + n2), LineTo (p1 + n1), LineTo (p0 + n1), ClosePath] :=
  c04c_strokeTwo_right' p0 p1 p2 style tol h01 h12 hj hs he ht hc
example : c04c_okOut (strokeUndashed ([MoveTo ⟨0, 0⟩, LineTo ⟨4, 0⟩, LineTo ⟨4, -3⟩] : List (PathEl Rat)) ⟨2, 0, 4, 0, 0⟩ (1/10)) =
    some [MoveTo ⟨0, -1⟩, LineTo ⟨4, -1⟩, LineTo ⟨4, 0⟩, LineTo ⟨3, 0⟩, LineTo ⟨3, -3⟩, LineTo ⟨5, -3⟩, LineTo ⟨5, 0⟩,
      LineTo ⟨4, 1⟩, LineTo ⟨0, 1⟩, ClosePath] := by decide +kernel

/-- the join-skip test in ordinary arithmetic; with tolerance `0` a join is always made -/
theorem c04c_two_segments_join_test_iff (p0 p1 p2 : Point K) (w tol : K) :
    c04c_joinTest2 p0 p1 p2 w tol = true ↔
      ((p1 - p0).dot (p2 - p1) ≤ 0 ∨
        Scalar.hypot ((p1 - p0).cross (p2 - p1)) ((p1 - p0).dot (p2 - p1)) * (2 * tol / w) ≤ |(p1 - p0).cross (p2 - p1)|) :=
  c04c_joinTest2_iff p0 p1 p2 w tol
theorem c04c_two_segments_join_test_zero_tolerance (p0 p1 p2 : Point K) (w : K) :
    c04c_joinTest2 p0 p1 p2 w 0 = true := by
  rw [c04c_joinTest2_iff]
  right
  rw [mul_zero, zero_div, mul_zero]
  exact abs_nonneg _

/-- **Coverage, two segments with a bevel join** (non-collinear, join made): every point of the open swept rectangle of either
    segment has winding number `≥ 1`, in particular NON-ZERO, with respect to the outline the model returns.  (The outline is a
    non-convex nonagon through the join point; its winding number is `R1 + R2 + T`, the crossing sums of the two rectangles and
    of the bevel triangle, each `≥ 0` everywhere – so it is `2` where the rectangles overlap.)  No "off the outline" hypothesis. -/
theorem c04c_two_segments_bevel_coverage (p0 p1 p2 : Point K) (style : StrokeStyle K) (tol : K) (h01 : p0 ≠ p1)
    (h12 : p1 ≠ p2) (hw : 0 < style.width) (hj : style.join = 0) (hs : style.start_cap = 0) (he : style.end_cap = 0)
    (ht : c04c_joinTest2 p0 p1 p2 style.width tol = true) (hc : (p1 - p0).cross (p2 - p1) ≠ 0) (q : Point K)
    (hq : c04c_InRect p0 p1 style.width q ∨ c04c_InRect p1 p2 style.width q) :
    ∃ (out : List (PathEl K)) (wn : Int), strokeUndashed [MoveTo p0, LineTo p1, LineTo p2] style tol = .ok out ∧
      pathWinding out q = some wn ∧ 1 ≤ wn ∧ wn ≠ 0 := by
  rcases lt_or_gt_of_ne hc with hneg | hpos
  · obtain ⟨wn, h1, h2⟩ := c04c_bevelR_cover style.width p0 p1 p2 q hw h01 h12 hneg hq
    exact ⟨_, wn, c04c_strokeTwo_right' p0 p1 p2 style tol h01 h12 hj hs he ht hneg, h1, h2, by omega⟩
  · obtain ⟨wn, h1, h2⟩ := c04c_bevelL_cover style.width p0 p1 p2 q hw h01 h12 hpos hq
    exact ⟨_, wn, c04c_strokeTwo_left' p0 p1 p2 style tol h01 h12 hj hs he ht hpos, h1, h2, by omega⟩
/-- hypotheses: right-angle left turn, width 2, tolerance 1/10; `(7/2, 1/2)` is in both rectangles (winding number 2),
    `(9/2, 2)` only in the second -/
example : (⟨0, 0⟩ : Point Rat) ≠ ⟨4, 0⟩ ∧ (⟨4, 0⟩ : Point Rat) ≠ ⟨4, 3⟩ ∧
    c04c_joinTest2 (⟨0, 0⟩ : Point Rat) ⟨4, 0⟩ ⟨4, 3⟩ 2 (1/10) = true ∧
    ((⟨4, 0⟩ : Point Rat) - (⟨0, 0⟩ : Point Rat)).cross ((⟨4, 3⟩ : Point Rat) - (⟨4, 0⟩ : Point Rat)) ≠ 0 ∧
    c04c_InRect (⟨0, 0⟩ : Point Rat) ⟨4, 0⟩ 2 ⟨7/2, 1/2⟩ ∧ c04c_InRect (⟨4, 0⟩ : Point Rat) ⟨4, 3⟩ 2 ⟨7/2, 1/2⟩ ∧
    c04c_InRect (⟨4, 0⟩ : Point Rat) ⟨4, 3⟩ 2 ⟨9/2, 2⟩ := by decide +kernel
example : pathWinding ([MoveTo ⟨0, -1⟩, LineTo ⟨4, -1⟩, LineTo ⟨5, 0⟩, LineTo ⟨5, 3⟩, LineTo ⟨3, 3⟩, LineTo ⟨3, 0⟩, LineTo ⟨4, 0⟩,
      LineTo ⟨4, 1⟩, LineTo ⟨0, 1⟩, ClosePath] : List (PathEl Rat)) ⟨7/2, 1/2⟩ = some 2 ∧
    pathWinding ([MoveTo ⟨0, -1⟩, LineTo ⟨4, -1⟩, LineTo ⟨5, 0⟩, LineTo ⟨5, 3⟩, LineTo ⟨3, 3⟩, LineTo ⟨3, 0⟩, LineTo ⟨4, 0⟩,
      LineTo ⟨4, 1⟩, LineTo ⟨0, 1⟩, ClosePath] : List (PathEl Rat)) ⟨9/2, 2⟩ = some 1 := by decide +kernel

/-- at EVERY point the winding number of the bevel-join outline is `≥ 0` -/
theorem c04c_two_segments_bevel_nonneg (p0 p1 p2 : Point K) (style : StrokeStyle K) (tol : K) (h01 : p0 ≠ p1)
    (h12 : p1 ≠ p2) (hw : 0 < style.width) (hj : style.join = 0) (hs : style.start_cap = 0) (he : style.end_cap = 0)
    (ht : c04c_joinTest2 p0 p1 p2 style.width tol = true) (hc : (p1 - p0).cross (p2 - p1) ≠ 0) (q : Point K) :
    ∃ (out : List (PathEl K)) (wn : Int), strokeUndashed [MoveTo p0, LineTo p1, LineTo p2] style tol = .ok out ∧
      pathWinding out q = some wn ∧ 0 ≤ wn := by
  rcases lt_or_gt_of_ne hc with hneg | hpos
  · obtain ⟨wn, h1, h2⟩ := c04c_bevelR_nonneg style.width p0 p1 p2 q hw h01 h12 hneg
    exact ⟨_, wn, c04c_strokeTwo_right' p0 p1 p2 style tol h01 h12 hj hs he ht hneg, h1, h2⟩
  · obtain ⟨wn, h1, h2⟩ := c04c_bevelL_nonneg style.width p0 p1 p2 q hw h01 h12 hpos
    exact ⟨_, wn, c04c_strokeTwo_left' p0 p1 p2 style tol h01 h12 hj hs he ht hpos, h1, h2⟩

end

/-! ## the join-test hypothesis cannot be dropped -/

/-- **Finding (by design of the crate, within its tolerance): with a positive tolerance a small forward turn gets NO join**
    (`c04c_strokeTwo_skipped`: the outline is the hexagon `p0 − n1, p1 − n1, p2 − n2, p2 + n2, p1 + n1, p0 + n1`), and then
    coverage FAILS near the outer corner: for `(0,0) → (4,0) → (16,5)`, width 2, tolerance 1/2 the point
    `q = (4 + 651/1300, −1123/1300)` is in the open swept rectangle of the second segment (distance `< 1` from it, projection
    interior) but has winding number `0`. -/
example :
    c04c_joinTest2 (⟨0, 0⟩ : Point Rat) ⟨4, 0⟩ ⟨16, 5⟩ 2 (1/2) = false ∧
    c04c_okOut (strokeUndashed ([MoveTo ⟨0, 0⟩, LineTo ⟨4, 0⟩, LineTo ⟨16, 5⟩] : List (PathEl Rat)) ⟨2, 0, 4, 0, 0⟩ (1/2)) =
      some [MoveTo ⟨0, -1⟩, LineTo ⟨4, -1⟩, LineTo ⟨16 + 5/13, 5 - 12/13⟩, LineTo ⟨16 - 5/13, 5 + 12/13⟩, LineTo ⟨4, 1⟩,
        LineTo ⟨0, 1⟩, ClosePath] ∧
    c04c_InRect (⟨4, 0⟩ : Point Rat) ⟨16, 5⟩ 2 ⟨4 + 651/1300, -1123/1300⟩ ∧
    pathWinding ([MoveTo ⟨0, -1⟩, LineTo ⟨4, -1⟩, LineTo ⟨16 + 5/13, 5 - 12/13⟩, LineTo ⟨16 - 5/13, 5 + 12/13⟩, LineTo ⟨4, 1⟩,
        LineTo ⟨0, 1⟩, ClosePath] : List (PathEl Rat)) ⟨4 + 651/1300, -1123/1300⟩ = some 0 := by decide +kernel

end Kurbo
