import Proofs.Lemmas.C15Quad
import Proofs.Lemmas.C15Cubic
import Proofs.Lemmas.C15Real
import Proofs.Lemmas.C15Itp
import Proofs.Lemmas.C15ItpReal
/-! C15 – polynomial solvers.

    "For every quadratic, cubic and quartic with finite coefficients, each returned value is a root, no more values
    are returned than the degree, and every real root that is separated from the others is returned once.  A
    vanishing leading coefficient gives the roots of the lower-degree polynomial, and the bracketing solver returns
    a point within epsilon of the sign change of a monotone function."

    All theorems are about the hand-written model `Kurbo/Solve.lean` (`solveQuadratic`, `solveCubic`,
    `solveQuarticWith`, `itpStep`, `itpLoop`, `solveItp`) exactly as it is, read in exact arithmetic: in a lawful
    scalar `Scalar.fin x = true` and `Scalar.finQuot d r = decide (d ≠ 0)`, i.e. "not finite" means "divisor = 0".

    What is proved.

    A. Quadratic (any lawful scalar `K`; the only fact about the uninterpreted `Scalar.sqrt` that is used is
       `SqrtExact` – non-negative and squaring back – at the ONE discriminant `quadArg c0 c1 c2 = (c1/c2)² − 4·c0/c2`
       the call computes, and only when that discriminant is positive; so the theorem also applies to `Rat` inputs
       with a rational square root).
       * `solveQuadratic_spec_quadratic` (`c2 ≠ 0`): the list is exactly the set of roots, strictly increasing
         (hence without repetition; a double root is returned once), length ≤ 2.  Reachable branches in a lawful
         field: `arg < 0` ↦ `[]`, `arg = 0` ↦ one value, `arg > 0` ↦ two values; `root1 ≠ 0` is PROVED there (so the
         `[root1]` fallback and the `!fin arg` branch are unreachable in exact arithmetic).
       * `solveQuadratic_linear`, `solveQuadratic_all_zero`, `solveQuadratic_const`: `c2 = 0` gives `[−c0/c1]`,
         `[0]` (all coefficients zero), `[]`.
       * `solveQuadratic_spec`: unless all three coefficients vanish: exactly the roots, strictly increasing.
       * `solveQuadratic_spec_real`: the same over ℝ under `LawfulReal` without any hypothesis on `sqrt`.
       * `solveQuadratic_length_le`: length ≤ 2 for EVERY `Scalar` (also `Float`; structural).
    B. Cubic.
       * `solveCubic_of_c3_zero` (lawful `K`): `c3 = 0` ↦ `solveQuadratic c0 c1 c2`.
       * `solveCubic_length_le`: length ≤ 3 for every `Scalar` (structural).
       * over ℝ with `LawfulReal` (`Scalar.sqrt/cbrt/sin/cos/atan2` are `Real.sqrt`, the sign-aware real cube root,
         `Real.sin`, `Real.cos`, `Complex.arg ⟨x, y⟩`) and `c3 ≠ 0`:
         `solveCubic_sound` – every returned value is a root, in all three discriminant branches (Cardano `d < 0`,
         double root `d = 0`, trigonometric `d > 0`); `solveCubic_complete` – EVERY real root is returned (all three
         branches: for `d < 0` the cubic has one real root, for `d = 0` the roots are `t1` (double) and `−2·t1`, for
         `d > 0` the three returned values are pairwise distinct); `solveCubic_mem_iff` combines both;
         `solveCubic_nodup` – no value is returned twice unless the cubic has a triple root
         (hypothesis: discriminant ≠ 0 or `c2² ≠ 3·c1·c3`); `solveCubic_length_of_disc` – 3 / 2 / 1 values according
         to the sign of the discriminant.  In the `d = 0` branch `d0 ≤ 0` is DERIVED from `d = 0`
         (`de² = −4·d0³`), so `√(−d0)` is never the square root of a negative number there.
    C. Quartic reductions (`solveQuarticWith inner`, the LDLᵀ part is the parameter `inner`).
       * `solveQuarticWith_reduce` (lawful `K`) – the three cases in one statement; separately:
       * `solveQuarticWith_c4_zero` (lawful `K`): `c4 = 0` ↦ `solveCubic c0 c1 c2 c3`.
       * `solveQuarticWith_c0_zero` (lawful `K`): `c4 ≠ 0`, `c0 = 0` ↦ `solveCubic c1 c2 c3 c4 ++ [0]`.
       * `solveQuarticWith_c0_zero_mem_iff` (ℝ): in that case the result is exactly the set of roots of the quartic
         (`0` included); `solveQuarticWith_reduce_length_le` (lawful `K`): at most 4 values in both
         reductions.
    D. ITP (any lawful `K`, arbitrary `f : K → K`, no continuity needed).
       * `itpStep_bracket`: from the invariant `ItpInv` (`a ≤ b`, `ya = f a < 0 < f b = yb`, `0 ≤ scaled_epsilon`) and
         `0 ≤ k1`, a step either returns `x ∈ [a, b]` with `f x = 0`, or a state that satisfies the invariant again,
         whose bracket is contained in the old one, whose `scaled_epsilon` is halved, and whose width is at most
         `2·scaled_epsilon'` if the old width was at most `2·scaled_epsilon` (i.e. `r ≥ 0`: the ITP projection).
         `xitp ∈ [a, b]` holds WITHOUT `r ≤ (b−a)/2`: `xt` lies between the regula-falsi point and the midpoint, and
         the projection `x½ ∓ |r|` is only taken when `r < |xt − x½| ≤ (b−a)/2` or `r < 0 ≤ scaled_epsilon`.
       * `itpLoop_done` (narrow bracket ↦ midpoint), `itpLoop_result_in_bracket` (any fuel),
         `itpLoop_spec` (with `scaled_epsilon = ε·2ⁿ`, width ≤ `2·scaled_epsilon`, fuel > n: the loop never runs out of
         fuel and the result is an `ItpResult`: it lies in a sub-bracket `[a′, b′]` with `f a′ < 0 < f b′`, and is an
         exact zero of `f` or the midpoint of a sub-bracket of width ≤ 2ε).
       * `itp_iterations`: under the same hypotheses fuel beyond `n + 1` is never used.
       * `solveItp_in_bracket`, `solveItp_spec`, `solveItp_monotone` (monotone `f`, any zero `z` of `f` in `[a,b]`:
         `f x = 0 ∨ |x − z| ≤ ε`), `solveItp_strictMono` (`|x − z| ≤ ε`).
       * over ℝ: `solveItp_spec_real` (continuous `f`: the result is within ε of a zero of `f`, by the intermediate
         value theorem on the final sub-bracket), `solveItp_monotone_real`.

    What is NOT proved.
    * Nothing about `Float`: overflow of a quotient with a non-zero divisor ("negligible leading coefficient") is
      invisible to a lawful scalar, where `1e-16` is simply a non-zero coefficient (DESIGN.md finding 5.f).
    * The general quartic (`solve_quartic_inner`, LDLᵀ factorisation, rescaling, Newton polishing): `solveQuarticWith` takes it
      as the parameter `inner`, and no statement is made about `inner` HERE; it is transcribed in `Kurbo/Quartic.lean` and its
      theorems (exact arithmetic, exact resolvent root assumed) are in `Proofs/C15Q.lean`.
    * The cubic theorems are for ℝ only (they need `sqrt`, `cbrt`, `sin`, `cos`, `atan2`); the returned list of
      `solveCubic` is not sorted (kurbo does not sort it) and, for a triple root, contains the root twice.
    * `solveItp_spec` assumes `b − a ≤ 2·ε·2^nmax` for the `nmax` the model computes (`itpNmax`); this is what the
      law of `log2`/`ceil`/`as usize` would give (`Scalar.log2`, `Scalar.toUSize` are uninterpreted in `LawfulScalar`);
      without it only `solveItp_in_bracket` is available.  The classical ITP bound "at most `nmax` iterations" is
      `itp_iterations` under the same hypothesis.  Over ℝ with the laws `LawfulRealLog` of `log2` and `as usize` the
      hypothesis is PROVED (`solveItp_budget_real`) and `solveItp_spec_real` / `solveItp_monotone_real` need none.
    Helper lemmas: `Proofs/Lemmas/C15Quad.lean`, `C15Cubic.lean`, `C15Real.lean`, `C15Itp.lean`, `C15ItpReal.lean`. -/
set_option linter.unusedSectionVars false

/-! ## lengths: structural, every `Scalar` -/
namespace Kurbo
section structural
variable {K : Type} [Scalar K]

/-- every `Scalar`, also `Float` -/
theorem solveQuadratic_length_le (c0 c1 c2 : K) : (solveQuadratic c0 c1 c2).length ≤ 2 :=
  solveQuadratic_length_le' c0 c1 c2

/-- every `Scalar`, also `Float` -/
theorem solveCubic_length_le (c0 c1 c2 c3 : K) : (solveCubic c0 c1 c2 c3).length ≤ 3 :=
  solveCubic_length_le' c0 c1 c2 c3
end structural

/-! ## A. quadratic -/
variable {K : Type} [Field K] [LinearOrder K] [IsStrictOrderedRing K] [FloorRing K] [Scalar K] [LawfulScalar K]

theorem solveQuadratic_spec_quadratic (c0 c1 c2 : K) (h2 : c2 ≠ 0)
    (hs : 0 < quadArg c0 c1 c2 → SqrtExact (quadArg c0 c1 c2)) :
    (∀ x, x ∈ solveQuadratic c0 c1 c2 ↔ c0 + c1 * x + c2 * x ^ 2 = 0) ∧
    (solveQuadratic c0 c1 c2).Pairwise (· < ·) ∧ (solveQuadratic c0 c1 c2).length ≤ 2 :=
  solveQuadratic_quadratic c0 c1 c2 h2 hs

-- the hypotheses are satisfiable over `Rat` (x² − 3x + 2, discriminant 1), and the model runs there
example : (1 : Rat) ≠ 0 ∧ (0 < quadArg (2 : Rat) (-3) 1 → SqrtExact (quadArg (2 : Rat) (-3) 1)) :=
  ⟨by norm_num, fun _ => by unfold SqrtExact quadArg; decide +kernel⟩
example : solveQuadratic (K := Rat) 2 (-3) 1 = [1, 2] := by decide +kernel
example : solveQuadratic (K := Rat) 1 (-2) 1 = [1] := by decide +kernel      -- double root, once
example : solveQuadratic (K := Rat) 1 0 1 = [] := by decide +kernel
example : solveQuadratic (K := Rat) 0 (-1) 1 = [0, 1] := by decide +kernel   -- sc0 = 0: root2 = 0/root1

theorem solveQuadratic_linear (c0 c1 : K) (h1 : c1 ≠ 0) :
    solveQuadratic c0 c1 0 = [-c0 / c1] ∧ ∀ x, x ∈ solveQuadratic c0 c1 0 ↔ c0 + c1 * x + 0 * x ^ 2 = 0 := by
  rw [solveQuadratic_linear_eq c0 c1 h1]
  refine ⟨rfl, fun x => ?_⟩
  simp only [List.mem_singleton]
  constructor
  · rintro rfl; field_simp; ring
  · intro h; field_simp; linear_combination h
example : solveQuadratic (K := Rat) 3 (-2) 0 = [3 / 2] := by decide +kernel

theorem solveQuadratic_all_zero : solveQuadratic (0 : K) 0 0 = [0] := by
  rw [solveQuadratic_zero]; simp

theorem solveQuadratic_const (c0 : K) (h0 : c0 ≠ 0) : solveQuadratic c0 0 0 = [] := by
  rw [solveQuadratic_zero]; simp [h0]
example : solveQuadratic (K := Rat) 5 0 0 = [] := by decide +kernel

/-- unless the polynomial is identically zero: exactly the real roots, strictly increasing -/
theorem solveQuadratic_spec (c0 c1 c2 : K) (h : ¬ (c0 = 0 ∧ c1 = 0 ∧ c2 = 0))
    (hs : c2 ≠ 0 → 0 < quadArg c0 c1 c2 → SqrtExact (quadArg c0 c1 c2)) :
    (∀ x, x ∈ solveQuadratic c0 c1 c2 ↔ c0 + c1 * x + c2 * x ^ 2 = 0) ∧
    (solveQuadratic c0 c1 c2).Pairwise (· < ·) := by
  by_cases h2 : c2 = 0
  · subst h2
    by_cases h1 : c1 = 0
    · subst h1
      have h0 : c0 ≠ 0 := fun h0 => h ⟨h0, rfl, rfl⟩
      rw [solveQuadratic_const c0 h0]
      refine ⟨fun x => ?_, List.Pairwise.nil⟩
      simp [h0]
    · obtain ⟨e, hiff⟩ := solveQuadratic_linear c0 c1 h1
      refine ⟨hiff, ?_⟩
      rw [e]; exact List.pairwise_singleton _ _
  · obtain ⟨h1, h2', -⟩ := solveQuadratic_quadratic c0 c1 c2 h2 (hs h2)
    exact ⟨h1, h2'⟩
example : ¬ ((2 : Rat) = 0 ∧ (-3 : Rat) = 0 ∧ (1 : Rat) = 0) := by norm_num

end Kurbo

namespace Kurbo
section real
variable [Scalar ℝ] [LawfulScalar ℝ] [LawfulReal]

theorem sqrtExact_real (a : ℝ) (h : 0 ≤ a) : SqrtExact a := by
  unfold SqrtExact; rw [LawfulReal.sqrt_eq]
  exact ⟨Real.sqrt_nonneg a, Real.mul_self_sqrt h⟩

theorem solveQuadratic_spec_real (c0 c1 c2 : ℝ) (h : ¬ (c0 = 0 ∧ c1 = 0 ∧ c2 = 0)) :
    (∀ x, x ∈ solveQuadratic c0 c1 c2 ↔ c0 + c1 * x + c2 * x ^ 2 = 0) ∧
    (solveQuadratic c0 c1 c2).Pairwise (· < ·) ∧ (solveQuadratic c0 c1 c2).length ≤ 2 :=
  ⟨(solveQuadratic_spec c0 c1 c2 h (fun _ hd => sqrtExact_real _ hd.le)).1,
   (solveQuadratic_spec c0 c1 c2 h (fun _ hd => sqrtExact_real _ hd.le)).2,
   solveQuadratic_length_le c0 c1 c2⟩

end real

-- the biquadratic branch on x⁴ − 5x² + 4 = (x² − 1)(x² − 4), over `Rat` (perfect squares: the `Rat` square root is exact here)
example : solveQuarticWith (K := Rat) (fun _ _ _ _ _ => []) 4 0 (-5) 0 1 = [-1, 1, -2, 2] := by decide +kernel

-- the class assumptions of the ℝ theorems are satisfiable: ℝ with Mathlib's functions
example : @LawfulScalar ℝ _ _ _ _ realScalar ∧ @LawfulReal realScalar := ⟨realScalar_lawful, realScalar_lawfulReal⟩
example : ¬ ((-2 : ℝ) = 0 ∧ (0 : ℝ) = 0 ∧ (1 : ℝ) = 0) := by norm_num   -- x² − 2: irrational roots
end Kurbo

/-! ## B. cubic -/
namespace Kurbo
section lawful
variable {K : Type} [Field K] [LinearOrder K] [IsStrictOrderedRing K] [FloorRing K] [Scalar K] [LawfulScalar K]

theorem solveCubic_of_c3_zero (c0 c1 c2 : K) : solveCubic c0 c1 c2 0 = solveQuadratic c0 c1 c2 :=
  solveCubic_c3_zero c0 c1 c2
example : solveCubic (K := Rat) 2 (-3) 1 0 = [1, 2] := by decide +kernel
end lawful

section real
variable [Scalar ℝ] [LawfulScalar ℝ] [LawfulReal]

/-- exactly the real roots (soundness and completeness in one statement) -/
theorem solveCubic_mem_iff (c0 c1 c2 c3 : ℝ) (h3 : c3 ≠ 0) (x : ℝ) :
    x ∈ solveCubic c0 c1 c2 c3 ↔ c0 + c1 * x + c2 * x ^ 2 + c3 * x ^ 3 = 0 := by
  rw [solveCubic_eq_core c0 c1 c2 c3 h3, cubicCore_mem_iff, cubic_eq_scaled c0 c1 c2 c3 x h3, mul_eq_zero,
    or_iff_right h3]

theorem solveCubic_sound (c0 c1 c2 c3 : ℝ) (h3 : c3 ≠ 0) :
    ∀ x ∈ solveCubic c0 c1 c2 c3, c0 + c1 * x + c2 * x ^ 2 + c3 * x ^ 3 = 0 :=
  fun x hx => (solveCubic_mem_iff c0 c1 c2 c3 h3 x).mp hx

/-- every real root is returned – whatever the discriminant -/
theorem solveCubic_complete (c0 c1 c2 c3 : ℝ) (h3 : c3 ≠ 0) :
    ∀ x, c0 + c1 * x + c2 * x ^ 2 + c3 * x ^ 3 = 0 → x ∈ solveCubic c0 c1 c2 c3 :=
  fun x hx => (solveCubic_mem_iff c0 c1 c2 c3 h3 x).mpr hx

/-- each root is returned once, unless the cubic is `c3·(x − r)³` -/
theorem solveCubic_nodup (c0 c1 c2 c3 : ℝ) (h3 : c3 ≠ 0)
    (h : cubicDisc c0 c1 c2 c3 ≠ 0 ∨ c2 ^ 2 ≠ 3 * c1 * c3) : (solveCubic c0 c1 c2 c3).Nodup := by
  rw [solveCubic_eq_core c0 c1 c2 c3 h3]
  apply cubicCore_nodup
  rw [cubD_scaled c0 c1 c2 c3 h3, cubD0_scaled c1 c2 c3 h3]
  have h27 : (27 * c3 ^ 4 : ℝ) ≠ 0 := by positivity
  have h9 : (9 * c3 ^ 2 : ℝ) ≠ 0 := by positivity
  rcases h with h | h
  · left; exact div_ne_zero h h27
  · right; apply div_ne_zero _ h9
    intro h0; apply h; linear_combination (-1 : ℝ) * h0

/-- three values for positive discriminant, two for zero discriminant, one for negative discriminant -/
theorem solveCubic_length_of_disc (c0 c1 c2 c3 : ℝ) (h3 : c3 ≠ 0) :
    (0 < cubicDisc c0 c1 c2 c3 → (solveCubic c0 c1 c2 c3).length = 3) ∧
    (cubicDisc c0 c1 c2 c3 = 0 → (solveCubic c0 c1 c2 c3).length = 2) ∧
    (cubicDisc c0 c1 c2 c3 < 0 → (solveCubic c0 c1 c2 c3).length = 1) := by
  rw [solveCubic_eq_core c0 c1 c2 c3 h3]
  unfold cubicCore
  rw [cubD_scaled c0 c1 c2 c3 h3]
  have h27 : (0 : ℝ) < 27 * c3 ^ 4 := by positivity
  refine ⟨fun h => ?_, fun h => ?_, fun h => ?_⟩
  · have hd : 0 < cubicDisc c0 c1 c2 c3 / (27 * c3 ^ 4) := div_pos h h27
    rw [if_neg (not_lt.mpr hd.le), if_neg (ne_of_gt hd)]; rfl
  · rw [h, zero_div, if_neg (lt_irrefl _), if_pos rfl]; rfl
  · have hd : cubicDisc c0 c1 c2 c3 / (27 * c3 ^ 4) < 0 := div_neg_of_neg_of_pos h h27
    rw [if_pos hd]; rfl

end real

-- hypotheses of the cubic theorems on concrete inputs: x³ − 6x² + 11x − 6 (roots 1,2,3; discriminant 4),
-- x³ − 3x + 2 = (x−1)²(x+2) (discriminant 0, not a triple root), x³ + x + 1 (discriminant −31)
example : (1 : ℝ) ≠ 0 ∧ cubicDisc (-6 : ℝ) 11 (-6) 1 = 4 := by unfold cubicDisc; norm_num
example : cubicDisc (2 : ℝ) (-3) 0 1 = 0 ∧ (0 : ℝ) ^ 2 ≠ 3 * (-3) * 1 := by unfold cubicDisc; norm_num
example : cubicDisc (1 : ℝ) 1 0 1 = -31 := by unfold cubicDisc; norm_num
-- the double-root branch needs `sqrt` only and runs over `Rat`: (x−1)²(x+2)
example : solveCubic (K := Rat) 2 (-3) 0 1 = [1, -2] := by decide +kernel
end Kurbo

/-! ## C. quartic reductions -/
namespace Kurbo
section lawful
variable {K : Type} [Field K] [LinearOrder K] [IsStrictOrderedRing K] [FloorRing K] [Scalar K] [LawfulScalar K]

theorem solveQuarticWith_c4_zero (inner : K → K → K → K → K → List K) (c0 c1 c2 c3 : K) :
    solveQuarticWith inner c0 c1 c2 c3 0 = solveCubic c0 c1 c2 c3 := by
  unfold solveQuarticWith
  simp only [scalar_norm]
  simp

theorem solveQuarticWith_c0_zero (inner : K → K → K → K → K → List K) (c1 c2 c3 c4 : K) (h4 : c4 ≠ 0) :
    solveQuarticWith inner 0 c1 c2 c3 c4 = solveCubic c1 c2 c3 c4 ++ [0] := by
  unfold solveQuarticWith
  simp only [scalar_norm]
  simp [h4]

/-- both reductions at the head of `solve_quartic` in one statement -/
theorem solveQuarticWith_reduce (inner : K → K → K → K → K → List K) (c0 c1 c2 c3 c4 : K) :
    (c4 = 0 → solveQuarticWith inner c0 c1 c2 c3 c4 = solveCubic c0 c1 c2 c3) ∧
    (c4 ≠ 0 → c0 = 0 → solveQuarticWith inner c0 c1 c2 c3 c4 = solveCubic c1 c2 c3 c4 ++ [0]) ∧
    (c4 ≠ 0 → c0 ≠ 0 → ¬ (c3 = 0 ∧ c1 = 0) → solveQuarticWith inner c0 c1 c2 c3 c4 = inner c0 c1 c2 c3 c4) := by
  refine ⟨fun h => ?_, fun h4 h0 => ?_, fun h4 h0 h31 => ?_⟩
  · subst h; exact solveQuarticWith_c4_zero inner c0 c1 c2 c3
  · subst h0; exact solveQuarticWith_c0_zero inner c1 c2 c3 c4 h4
  · unfold solveQuarticWith
    simp only [scalar_norm]
    simp [h4, h0]
    intro h3 h1
    exact absurd ⟨h3, h1⟩ h31

theorem solveQuarticWith_general (inner : K → K → K → K → K → List K) (c0 c1 c2 c3 c4 : K) (h4 : c4 ≠ 0)
    (h0 : c0 ≠ 0) (h31 : ¬ (c3 = 0 ∧ c1 = 0)) : solveQuarticWith inner c0 c1 c2 c3 c4 = inner c0 c1 c2 c3 c4 :=
  (solveQuarticWith_reduce inner c0 c1 c2 c3 c4).2.2 h4 h0 h31

/-- the biquadratic reduction: both odd coefficients vanish -/
theorem solveQuarticWith_biquadratic (inner : K → K → K → K → K → List K) (c0 c2 c4 : K) (h4 : c4 ≠ 0) (h0 : c0 ≠ 0) :
    solveQuarticWith inner c0 0 c2 0 c4 = solveBiquadratic (c2 / c4) (c0 / c4) := by
  unfold solveQuarticWith
  simp only [scalar_norm]
  simp [h4, h0]

theorem solveQuarticWith_reduce_length_le (inner : K → K → K → K → K → List K) (c0 c1 c2 c3 c4 : K)
    (h : c4 = 0 ∨ c0 = 0) : (solveQuarticWith inner c0 c1 c2 c3 c4).length ≤ 4 := by
  by_cases h4 : c4 = 0
  · subst h4; rw [solveQuarticWith_c4_zero]
    exact (solveCubic_length_le c0 c1 c2 c3).trans (by norm_num)
  · have h0 : c0 = 0 := h.resolve_left h4
    subst h0; rw [solveQuarticWith_c0_zero inner c1 c2 c3 c4 h4, List.length_append]
    have := solveCubic_length_le c1 c2 c3 c4
    simp only [List.length_singleton]; omega

example : solveQuarticWith (K := Rat) (fun _ _ _ _ _ => []) 2 (-3) 1 0 0 = [1, 2] := by decide +kernel
example : solveQuarticWith (K := Rat) (fun _ _ _ _ _ => []) 0 2 (-3) 0 1 = [1, -2, 0] := by decide +kernel
end lawful

section real
variable [Scalar ℝ] [LawfulScalar ℝ] [LawfulReal]

/-- `c0 = 0`, `c4 ≠ 0`: exactly the real roots of the quartic, `0` included -/
theorem solveQuarticWith_c0_zero_mem_iff (inner : ℝ → ℝ → ℝ → ℝ → ℝ → List ℝ) (c1 c2 c3 c4 : ℝ) (h4 : c4 ≠ 0)
    (x : ℝ) :
    x ∈ solveQuarticWith inner 0 c1 c2 c3 c4 ↔ 0 + c1 * x + c2 * x ^ 2 + c3 * x ^ 3 + c4 * x ^ 4 = 0 := by
  rw [solveQuarticWith_c0_zero inner c1 c2 c3 c4 h4, List.mem_append, solveCubic_mem_iff c1 c2 c3 c4 h4,
    List.mem_singleton]
  have e : 0 + c1 * x + c2 * x ^ 2 + c3 * x ^ 3 + c4 * x ^ 4 = x * (c1 + c2 * x + c3 * x ^ 2 + c4 * x ^ 3) := by ring
  rw [e, mul_eq_zero]
  exact or_comm

/-- `c4 = 0`, `c3 ≠ 0`: exactly the real roots of the cubic -/
theorem solveQuarticWith_c4_zero_mem_iff (inner : ℝ → ℝ → ℝ → ℝ → ℝ → List ℝ) (c0 c1 c2 c3 : ℝ) (h3 : c3 ≠ 0)
    (x : ℝ) :
    x ∈ solveQuarticWith inner c0 c1 c2 c3 0 ↔ c0 + c1 * x + c2 * x ^ 2 + c3 * x ^ 3 + 0 * x ^ 4 = 0 := by
  rw [solveQuarticWith_c4_zero, solveCubic_mem_iff c0 c1 c2 c3 h3]
  simp
/-- the biquadratic branch returns exactly the real roots of `x⁴ + b x² + d` (for `d ≠ 0`, which the caller guarantees: `c0 ≠ 0`) -/
theorem solveBiquadratic_mem_iff (b d : ℝ) (hd : d ≠ 0) (x : ℝ) :
    x ∈ solveBiquadratic b d ↔ d + b * x ^ 2 + x ^ 4 = 0 := by
  have hq := (solveQuadratic_spec_real d b 1 (by simp)).1
  unfold solveBiquadratic
  simp only [List.mem_flatMap, scalar_norm, LawfulReal.sqrt_eq, Nat.cast_one, Nat.cast_zero]
  constructor
  · rintro ⟨y, hy, hx⟩
    have hy' := (hq y).mp hy
    by_cases hpos : 0 < y
    · simp only [hpos, decide_true, if_true, List.mem_cons, List.mem_nil_iff, or_false] at hx
      have hsq : x ^ 2 = y := by
        rcases hx with hx | hx <;> rw [hx] <;> simp [Real.sq_sqrt hpos.le]
      have : x ^ 4 = y ^ 2 := by rw [← hsq]; ring
      rw [this, hsq]; linarith [hy']
    · simp [hpos] at hx
  · intro h
    have hy0 : 0 ≤ x ^ 2 := sq_nonneg x
    have hne : x ^ 2 ≠ 0 := by
      intro h0
      have hx0 : x = 0 := by simpa using h0
      rw [hx0] at h; simp at h; exact hd h
    have hpos : 0 < x ^ 2 := lt_of_le_of_ne hy0 (Ne.symm hne)
    refine ⟨x ^ 2, (hq (x ^ 2)).mpr (by rw [one_mul]; linarith [show (x ^ 2) ^ 2 = x ^ 4 by ring]), ?_⟩
    simp only [hpos, decide_true, if_true, List.mem_cons, List.mem_nil_iff, or_false]
    rw [Real.sqrt_sq_eq_abs]
    rcases le_total 0 x with hx | hx
    · right; rw [abs_of_nonneg hx]
    · left; rw [abs_of_nonpos hx]; ring

/-- both odd coefficients zero, `c4 ≠ 0`, `c0 ≠ 0`: `solve_quartic` returns exactly the real roots of the quartic -/
theorem solveQuarticWith_biquadratic_mem_iff (inner : ℝ → ℝ → ℝ → ℝ → ℝ → List ℝ) (c0 c2 c4 : ℝ) (h4 : c4 ≠ 0) (h0 : c0 ≠ 0)
    (x : ℝ) : x ∈ solveQuarticWith inner c0 0 c2 0 c4 ↔ c0 + 0 * x + c2 * x ^ 2 + 0 * x ^ 3 + c4 * x ^ 4 = 0 := by
  rw [solveQuarticWith_biquadratic inner c0 c2 c4 h4 h0, solveBiquadratic_mem_iff _ _ (div_ne_zero h0 h4)]
  constructor
  · intro h
    have : c4 * (c0 / c4 + c2 / c4 * x ^ 2 + x ^ 4) = 0 := by rw [h, mul_zero]
    field_simp at this; linarith
  · intro h
    have : c0 + c2 * x ^ 2 + c4 * x ^ 4 = 0 := by linarith
    field_simp; linarith

end real
end Kurbo

/-! ## D. ITP -/
namespace Kurbo
variable {K : Type} [Field K] [LinearOrder K] [IsStrictOrderedRing K] [FloorRing K] [Scalar K] [LawfulScalar K]

theorem itpStep_bracket (f : K → K) (ε k1 : K) (st : ItpSt K) (hk : 0 ≤ k1) (hI : ItpInv f st) :
    match itpStep f ε k1 st with
    | .inl x => st.a ≤ x ∧ x ≤ st.b ∧ f x = 0
    | .inr st' => ItpInv f st' ∧ st.a ≤ st'.a ∧ st'.b ≤ st.b ∧ st'.scaled_epsilon = st.scaled_epsilon * (1 / 2) ∧
        (st.b - st.a ≤ 2 * st.scaled_epsilon → st'.b - st'.a ≤ 2 * st'.scaled_epsilon) :=
  itpStep_spec f ε k1 st hk hI

-- the invariant is satisfiable: f x = x − 1/3 on [0, 1]
example : ItpInv (fun x : Rat => x - 1 / 3) ⟨0, 1, -1 / 3, 2 / 3, 1 / 50⟩ :=
  ⟨by norm_num, by norm_num, by norm_num, by norm_num, by norm_num, by norm_num⟩

theorem itpLoop_done (f : K → K) (ε k1 : K) (fuel : Nat) (st : ItpSt K) (h : st.b - st.a ≤ 2 * ε) :
    itpLoop f ε k1 fuel st = 1 / 2 * (st.a + st.b) :=
  itpLoop_done' f ε k1 fuel st h

theorem itpLoop_result_in_bracket (f : K → K) (ε k1 : K) (hk : 0 ≤ k1) (fuel : Nat) (st : ItpSt K)
    (hI : ItpInv f st) : st.a ≤ itpLoop f ε k1 fuel st ∧ itpLoop f ε k1 fuel st ≤ st.b :=
  itpLoop_mem' f ε k1 hk fuel st hI

theorem itpLoop_spec (f : K → K) (ε k1 : K) (hk : 0 ≤ k1) (fuel n : Nat) (st : ItpSt K) (hI : ItpInv f st)
    (hse : st.scaled_epsilon = ε * 2 ^ n) (hw : st.b - st.a ≤ 2 * st.scaled_epsilon) (hn : n < fuel) :
    ItpResult f ε st.a st.b (itpLoop f ε k1 fuel st) :=
  itpLoop_spec' f ε k1 hk fuel n st hI hse hw hn

/-- `itp_iterations`: under the hypotheses of `itpLoop_spec`, fuel beyond `n + 1` is never used – the loop body runs at
    most `n` times before `2ε < b − a` fails (`n = nmax` in `solve_itp`, whose fuel is `nmax + 64`) -/
theorem itp_iterations (f : K → K) (ε k1 : K) (hk : 0 ≤ k1) (fuel n : Nat) (st : ItpSt K) (hI : ItpInv f st)
    (hse : st.scaled_epsilon = ε * 2 ^ n) (hw : st.b - st.a ≤ 2 * st.scaled_epsilon) (hn : n < fuel) :
    itpLoop f ε k1 fuel st = itpLoop f ε k1 (n + 1) st :=
  itpLoop_fuel' f ε k1 hk fuel n st hI hse hw hn

example : (⟨0, 1, -1 / 3, 2 / 3, 1 / 100 * 2 ^ 6⟩ : ItpSt Rat).scaled_epsilon = 1 / 100 * 2 ^ 6 ∧
    (1 : Rat) - 0 ≤ 2 * (1 / 100 * 2 ^ 6) ∧ 6 < 70 := by norm_num

theorem solveItp_in_bracket (f : K → K) (a b ε : K) (n0 : Nat) (k1 : K) (hab : a ≤ b) (hε : 0 ≤ ε) (hk : 0 ≤ k1)
    (ha : f a < 0) (hb : 0 < f b) :
    a ≤ solveItp f a b ε n0 k1 (f a) (f b) ∧ solveItp f a b ε n0 k1 (f a) (f b) ≤ b := by
  rw [solveItp_eq]
  have h2 : (0 : K) ≤ 2 ^ itpNmax a b ε n0 := pow_nonneg (by norm_num) _
  have hI : ItpInv f ⟨a, b, f a, f b, ε * 2 ^ itpNmax a b ε n0⟩ := ⟨hab, rfl, rfl, ha, hb, mul_nonneg hε h2⟩
  exact itpLoop_mem' f ε k1 hk _ _ hI

/-- the result lies in a sub-bracket `[a′, b′] ⊆ [a, b]` with `f a′ < 0 < f b′` and is an exact zero of `f` or the
    midpoint of such a sub-bracket of width ≤ 2ε -/
theorem solveItp_spec (f : K → K) (a b ε : K) (n0 : Nat) (k1 : K) (hab : a ≤ b) (hk : 0 ≤ k1)
    (ha : f a < 0) (hb : 0 < f b) (hn : b - a ≤ 2 * (ε * 2 ^ itpNmax a b ε n0)) :
    ItpResult f ε a b (solveItp f a b ε n0 k1 (f a) (f b)) := by
  rw [solveItp_eq]
  have hse : 0 ≤ ε * 2 ^ itpNmax a b ε n0 := by linarith
  have hI : ItpInv f ⟨a, b, f a, f b, ε * 2 ^ itpNmax a b ε n0⟩ := ⟨hab, rfl, rfl, ha, hb, hse⟩
  exact itpLoop_spec' f ε k1 hk (itpNmax a b ε n0 + 64) (itpNmax a b ε n0) _ hI rfl hn
    (Nat.lt_add_of_pos_right (by norm_num))

/-- within ε of every zero of a monotone function (or itself an exact zero) -/
theorem solveItp_monotone (f : K → K) (a b ε : K) (n0 : Nat) (k1 : K) (hab : a ≤ b) (hk : 0 ≤ k1)
    (ha : f a < 0) (hb : 0 < f b) (hn : b - a ≤ 2 * (ε * 2 ^ itpNmax a b ε n0))
    (hf : MonotoneOn f (Set.Icc a b)) (z : K) (hz : z ∈ Set.Icc a b) (hfz : f z = 0) :
    f (solveItp f a b ε n0 k1 (f a) (f b)) = 0 ∨ |solveItp f a b ε n0 k1 (f a) (f b) - z| ≤ ε :=
  (solveItp_spec f a b ε n0 k1 hab hk ha hb hn).near_zero hf hz hfz

/-- within ε of the zero of a strictly monotone function -/
theorem solveItp_strictMono (f : K → K) (a b ε : K) (n0 : Nat) (k1 : K) (hab : a ≤ b) (hε : 0 ≤ ε) (hk : 0 ≤ k1)
    (ha : f a < 0) (hb : 0 < f b) (hn : b - a ≤ 2 * (ε * 2 ^ itpNmax a b ε n0))
    (hf : StrictMonoOn f (Set.Icc a b)) (z : K) (hz : z ∈ Set.Icc a b) (hfz : f z = 0) :
    |solveItp f a b ε n0 k1 (f a) (f b) - z| ≤ ε :=
  (solveItp_spec f a b ε n0 k1 hab hk ha hb hn).near_zero_strict hε hf hz hfz

-- the hypotheses hold and the model runs over `Rat`: f x = x − 1/3 on [0,1], ε = 1/100, n0 = 8, k1 = 1/5
example : itpNmax (0 : Rat) 1 (1 / 100) 8 = 8 := by decide +kernel
example : (1 : Rat) - 0 ≤ 2 * (1 / 100 * 2 ^ itpNmax (0 : Rat) 1 (1 / 100) 8) := by decide +kernel
example : |solveItp (fun x : Rat => x - 1 / 3) 0 1 (1 / 100) 8 (1 / 5) (-1 / 3) (2 / 3) - 1 / 3| ≤ 1 / 100 := by
  decide +kernel

end Kurbo

namespace Kurbo
section real
variable [Scalar ℝ] [LawfulScalar ℝ] [LawfulRealLog]

/-- over ℝ, with the laws of `log2` and `as usize` (`LawfulRealLog`), the budget hypothesis of `solveItp_spec` holds -/
theorem solveItp_budget_real (a b ε : ℝ) (n0 : Nat) (hab : a < b) (hε : 0 < ε) :
    b - a ≤ 2 * (ε * 2 ^ itpNmax a b ε n0) :=
  itpNmax_ok a b ε n0 hab hε

/-- continuous `f` with `f a < 0 < f b`: the result lies in `[a, b]` and within `ε` of a zero of `f` -/
theorem solveItp_spec_real (f : ℝ → ℝ) (a b ε : ℝ) (n0 : Nat) (k1 : ℝ) (hab : a < b) (hε : 0 < ε) (hk : 0 ≤ k1)
    (ha : f a < 0) (hb : 0 < f b) (hf : ContinuousOn f (Set.Icc a b)) :
    solveItp f a b ε n0 k1 (f a) (f b) ∈ Set.Icc a b ∧
    ∃ z ∈ Set.Icc a b, f z = 0 ∧ |solveItp f a b ε n0 k1 (f a) (f b) - z| ≤ ε :=
  ⟨solveItp_in_bracket f a b ε n0 k1 hab.le hε.le hk ha hb,
   (solveItp_spec f a b ε n0 k1 hab.le hk ha hb (itpNmax_ok a b ε n0 hab hε)).exists_zero_near hε.le hf⟩

/-- monotone `f` (not necessarily continuous): within `ε` of every zero of `f`, or itself an exact zero -/
theorem solveItp_monotone_real (f : ℝ → ℝ) (a b ε : ℝ) (n0 : Nat) (k1 : ℝ) (hab : a < b) (hε : 0 < ε) (hk : 0 ≤ k1)
    (ha : f a < 0) (hb : 0 < f b) (hf : MonotoneOn f (Set.Icc a b)) (z : ℝ) (hz : z ∈ Set.Icc a b) (hfz : f z = 0) :
    f (solveItp f a b ε n0 k1 (f a) (f b)) = 0 ∨ |solveItp f a b ε n0 k1 (f a) (f b) - z| ≤ ε :=
  solveItp_monotone f a b ε n0 k1 hab.le hk ha hb (itpNmax_ok a b ε n0 hab hε) hf z hz hfz

end real

-- the class assumption is satisfiable, and so are the hypotheses: f x = x³ − 2 on [0, 2]
example : @LawfulRealLog realScalar := realScalar_lawfulRealLog
example : (0 : ℝ) < 2 ∧ (0 : ℝ) < 1 / 100 ∧ (0 : ℝ) ≤ 1 / 5 ∧ (fun x : ℝ => x ^ 3 - 2) 0 < 0 ∧
    0 < (fun x : ℝ => x ^ 3 - 2) 2 ∧ ContinuousOn (fun x : ℝ => x ^ 3 - 2) (Set.Icc 0 2) :=
  ⟨by norm_num, by norm_num, by norm_num, by norm_num, by norm_num, by fun_prop⟩
end Kurbo
