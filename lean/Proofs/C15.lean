import Kurbo.Solve
namespace Kurbo
end Kurbo
