import Proofs.Lemmas.C01PSpec
import Proofs.Lemmas.C01PSeg
/-! C01P – winding number of CURVED segments and paths: the reported number is the signed ray-crossing count.

    Continues `Proofs/C01.lean` (which has the complete story for polylines, and for curves only ONE y-monotone
    piece at a time) and uses `Proofs/Glue.lean` (no solver hypothesis is left), `Proofs/C08.lean` (extrema are complete,
    the ranges between them tile `[0,1]`) and `Proofs/C06.lean` (sub-segments, reversal and degree raising trace the same
    points).  Everything here is over ℝ, for any `Scalar ℝ` structure with `LawfulScalar ℝ` (the scalar operations are
    the field operations) and `LawfulReal` (C15: `sqrt`, `cbrt`, … are the real functions – needed for the solvers inside
    `winding_inner` and `CubicBez.extrema`); the classes are inhabited (`realScalar`, example at the end).  The theorems
    are about the model functions `PathSeg.winding_inner`, `PathSeg.winding`, `pathWinding`, `PathSeg.extrema_ranges`,
    `PathSeg.subsegment`, `PathSeg.reverse`, `QuadBez.raise` exactly as they are.

    THE SPECIFICATION (`Proofs/Lemmas/C01PSpec.lean`, namespace `Kurbo.Ray`; it mentions neither the solver nor
    `winding_inner` nor any model function except the structure `Point`): for a curve `f : ℝ → Point ℝ`,
    `rayCross f p a b` is the signed number of crossings of `f|[a,b]` with the closed leftward ray
    `{(x, p.y) | x ≤ p.x}`.  A parameter `t ∈ [a,b]` with `y(t) = p.y`, `x(t) ≤ p.x` (NON-strict, as in the code:
    `eval(t).x <= p.x`) contributes minus its local index `[y > p.y just after t] − [y > p.y just before t]`, where
    beyond the ends of `[a,b]` counts as "not above".  So an upward crossing counts `−1`, a downward one `+1` (the
    sign convention of `winding_inner`), a tangential touch `0`, and a point ON the row counts as not above (the
    half-open rule).  `pieceCross f p a b` is the closed form for one piece: row sign (`−1` for
    `y(a) ≤ p.y < y(b)`, `+1` for `y(b) ≤ p.y < y(a)`) times "some parameter of the piece is on the ray".

    What is proved:
    1. `pieceCross_def` (the closed form written out), `rayCross_monotone_piece` (meaning of the spec): on a piece where `y` is strictly increasing, strictly
       decreasing or constant, `rayCross = pieceCross`; `rayCross_additive`: the count over `[a,c]` is the sum of the
       counts over `[a,b]` and `[b,c]`.
    2. `seg_pieces_monotone`: on every range of `extrema_ranges` of every segment (line, quadratic, cubic) the
       ordinate is strictly increasing, strictly decreasing or constant – the pieces that `winding` hands to
       `winding_inner` ARE y-monotone (from C08's completeness of `extrema`; cubics through C15's solver theorem).
    3. `windingInner_piece`: for every segment `s` of any kind and every y-monotone parameter range `[a,b]`,
       `(s.subsegment ⟨a,b⟩).winding_inner p = pieceCross s.eval p a b` – for EVERY point `p` (also on the curve, also on
       the rows of the end points).
    4. `winding_eq_rayCross`: `s.winding p = rayCross s.eval p 0 1` for every line, quadratic and cubic segment and every
       point; `seg_crossings_finite`; `rayCross_line_eq_kc` (on a line the count is C01's crossing indicator `kc`).
    5. `pathWinding_eq_crossings`: for EVERY element list (lines, quadratics, cubics; open or closed; any number of
       sub-paths) `pathWinding els p` is the sum over `segs els` of the ray-crossing counts (and `none` exactly when
       `segs` is).
    6. corollaries – the invariances C01 lists, for every point `p`:
       `winding_congr_eval` (segments with the same `eval` have the same winding), `winding_split` (splitting a segment
       of any kind at `t ∈ (0,1)` into its two sub-segments), `winding_split_quad` (the quadratic instance),
       `winding_raise_quad` (degree-raising a quadratic to a cubic), `winding_reverse_seg` (reversal negates),
       `windingSum_split`, `windingSum_reverse` (the same inside a list of segments).
    7. `winding_join` ("shares a coordinate with a vertex / extremum"): two non-degenerate y-injective pieces (of the
       same or of two consecutive segments) meeting in a point on the row of `p`: their `winding_inner` contributions
       add up to exactly one crossing if the curve passes through the row there and the point is on the ray, and to
       zero if it only touches the row (local extremum) or the point is right of `p`.

    What is NOT proved:
    * That the crossing count of a CLOSED curved path equals its topological winding number (degree / angle integral)
      for `p` off the path – C01 proves this for closed polylines only; for curves the remaining step is the homotopy
      invariance of the crossing count, not attempted.  What IS established for curves is that the model computes the
      ray-crossing count with the half-open rule, which is invariant under splitting, degree raising and (up to sign)
      reversal.
    * Element-level versions of the corollaries (replacing a `QuadTo` by two `QuadTo`s inside an element list,
      `reverse_subpaths` of a curved path): only the segment-list forms `windingSum_split`/`windingSum_reverse` are
      given.
    * Nothing about `Float`, and nothing over ℚ beyond the examples (the solvers need real square/cube roots).
    Helper lemmas: `Proofs/Lemmas/C01PSpec.lean` (the spec and its calculus, pure analysis),
    `Proofs/Lemmas/C01PSeg.lean` (model against spec). -/
set_option linter.unusedSectionVars false
set_option linter.unusedVariables false
namespace Kurbo
open Set Ray
section real
variable [Scalar ℝ] [LawfulScalar ℝ]

/-! ## 1. what the specification means -/

/-- on a y-monotone piece the crossing count is the closed form `pieceCross`: `−1` if `y(a) ≤ p.y < y(b)` and some
    parameter of `[a,b]` is on the ray, `+1` if `y(b) ≤ p.y < y(a)` and some parameter is on the ray, else `0` -/
theorem rayCross_monotone_piece (f : ℝ → Point ℝ) (p : Point ℝ) (a b : ℝ) (hab : a ≤ b)
    (hc : ContinuousOn (fun t => (f t).y) (Icc a b))
    (hm : StrictMonoOn (fun t => (f t).y) (Icc a b) ∨ StrictAntiOn (fun t => (f t).y) (Icc a b) ∨
      ∀ t ∈ Icc a b, (f t).y = (f a).y) :
    rayCross f p a b = pieceCross f p a b :=
  (rayCross_piece hab hc hm).2

open Classical in
/-- the closed form written out -/
theorem pieceCross_def (f : ℝ → Point ℝ) (p : Point ℝ) (a b : ℝ) :
    pieceCross f p a b =
      if (f a).y ≤ p.y ∧ p.y < (f b).y then
        (if ∃ t, a ≤ t ∧ t ≤ b ∧ (f t).y = p.y ∧ (f t).x ≤ p.x then -1 else 0)
      else if (f b).y ≤ p.y ∧ p.y < (f a).y then
        (if ∃ t, a ≤ t ∧ t ≤ b ∧ (f t).y = p.y ∧ (f t).x ≤ p.x then 1 else 0)
      else 0 := rfl

/-- additivity of the specification (finitely many crossings on each part) -/
theorem rayCross_additive (f : ℝ → Point ℝ) (p : Point ℝ) (a b c : ℝ) (hab : a ≤ b) (hbc : b ≤ c)
    (h1 : FinCross f p a b) (h2 : FinCross f p b c) :
    rayCross f p a c = rayCross f p a b + rayCross f p b c :=
  (rayCross_add hab hbc h1 h2).2

variable [LawfulReal]

/-! ## 2, 3. the pieces -/

/-- the ranges between consecutive extrema are ordered and y-monotone (strictly, or `y` is constant) -/
theorem seg_pieces_monotone (s : PathSeg ℝ) :
    ∀ r ∈ s.extrema_ranges, r.start ≤ r.«end» ∧
      (StrictMonoOn (fun t => (s.eval t).y) (Icc r.start r.«end») ∨
       StrictAntiOn (fun t => (s.eval t).y) (Icc r.start r.«end») ∨
       ∀ t ∈ Icc r.start r.«end», (s.eval t).y = (s.eval r.start).y) :=
  seg_ranges_strict s

/-- **one piece**: `winding_inner` of the sub-segment over a y-monotone range is the closed form, for every point -/
theorem windingInner_piece (s : PathSeg ℝ) (p : Point ℝ) (a b : ℝ) (hab : a ≤ b)
    (hm : StrictMonoOn (fun t => (s.eval t).y) (Icc a b) ∨ StrictAntiOn (fun t => (s.eval t).y) (Icc a b) ∨
      ∀ t ∈ Icc a b, (s.eval t).y = (s.eval a).y) :
    (s.subsegment ⟨a, b⟩).winding_inner p = pieceCross (fun t => s.eval t) p a b :=
  windingInner_sub_eq_pieceCross s p a b hab hm

/-! ## 4. whole segments -/

/-- **`winding` of a segment is the signed ray-crossing count of its `eval`**, every kind of segment, every point -/
theorem winding_eq_rayCross (s : PathSeg ℝ) (p : Point ℝ) :
    s.winding p = rayCross (fun t => s.eval t) p 0 1 :=
  (winding_eq_segCross_aux s p).2

/-- for a line the count is the crossing indicator `kc` of `Proofs/C01.lean` (whose sum over a closed polyline C01 proves
    equal to the topological winding number) -/
theorem rayCross_line_eq_kc (l : Line ℝ) (p : Point ℝ) :
    rayCross (fun t => l.eval t) p 0 1 = kc (l.p0 - p) (l.p1 - p) := by
  rw [← windingInner_line_eq_kc, ← winding_line]
  exact (winding_eq_rayCross (.Line l) p).symm

/-- the parameters that contribute are finitely many -/
theorem seg_crossings_finite (s : PathSeg ℝ) (p : Point ℝ) : FinCross (fun t => s.eval t) p 0 1 :=
  (winding_eq_segCross_aux s p).1

/-! ## 5. whole paths -/

/-- **`pathWinding` is the sum of the ray-crossing counts of the segments**, for every element list -/
theorem pathWinding_eq_crossings (els : List (PathEl ℝ)) (p : Point ℝ) :
    pathWinding els p = (segs els).map fun ss => (ss.map fun s => rayCross (fun t => s.eval t) p 0 1).sum := by
  rw [pathWinding_eq_sum]
  cases segs els with
  | none => rfl
  | some ss =>
    simp only [Option.map_some]
    exact congrArg some (congrArg List.sum (List.map_congr_left fun s _ => winding_eq_rayCross s p))

/-! ## 6. invariances -/

/-- segments that trace the same parametrised curve have the same winding number about every point -/
theorem winding_congr_eval (s s' : PathSeg ℝ) (h : ∀ t, s.eval t = s'.eval t) (p : Point ℝ) :
    s.winding p = s'.winding p := by
  rw [winding_eq_rayCross, winding_eq_rayCross, funext h]

/-- **splitting** a segment of any kind at `t ∈ (0,1)` into its two sub-segments leaves the winding number unchanged -/
theorem winding_split (s : PathSeg ℝ) (t : ℝ) (h0 : 0 < t) (h1 : t < 1) (p : Point ℝ) :
    (s.subsegment ⟨0, t⟩).winding p + (s.subsegment ⟨t, 1⟩).winding p = s.winding p := by
  have hfin := seg_crossings_finite s p
  rw [winding_eq_rayCross, winding_eq_rayCross, winding_eq_rayCross]
  have e1 : (fun u => (s.subsegment ⟨0, t⟩).eval u) = fun u => (fun v => s.eval v) (0 + u * t) := by
    funext u; rw [pathSeg_subsegment_eval]; simp only [sub_zero]
  have e2 : (fun u => (s.subsegment ⟨t, 1⟩).eval u) = fun u => (fun v => s.eval v) (t + u * (1 - t)) := by
    funext u; rw [pathSeg_subsegment_eval]
  have r1 := rayCross_comp_affine (f := fun v => s.eval v) (p := p) 0 t h0 0 1
  have r2 := rayCross_comp_affine (f := fun v => s.eval v) (p := p) t (1 - t) (by linarith) 0 1
  have c1 : (0 : ℝ) + 0 * t = 0 := by ring
  have c2 : (0 : ℝ) + 1 * t = t := by ring
  have c3 : t + 0 * (1 - t) = t := by ring
  have c4 : t + 1 * (1 - t) = 1 := by ring
  rw [c1, c2] at r1
  rw [c3, c4] at r2
  rw [e1, e2, r1, r2]
  exact ((rayCross_add h0.le h1.le (finCross_sub hfin le_rfl h1.le) (finCross_sub hfin h0.le le_rfl)).2).symm

/-- the quadratic instance -/
theorem winding_split_quad (q : QuadBez ℝ) (t : ℝ) (h0 : 0 < t) (h1 : t < 1) (p : Point ℝ) :
    PathSeg.winding (.Quad (q.subsegment ⟨0, t⟩)) p + PathSeg.winding (.Quad (q.subsegment ⟨t, 1⟩)) p
      = PathSeg.winding (.Quad q) p :=
  winding_split (.Quad q) t h0 h1 p

/-- **degree raising** a quadratic to a cubic leaves the winding number unchanged -/
theorem winding_raise_quad (q : QuadBez ℝ) (p : Point ℝ) :
    PathSeg.winding (.Cubic q.raise) p = PathSeg.winding (.Quad q) p :=
  winding_congr_eval (.Cubic q.raise) (.Quad q) (fun t => quad_raise_eval q t) p

/-- **reversal** of a segment negates its contribution -/
theorem winding_reverse_seg (s : PathSeg ℝ) (p : Point ℝ) : s.reverse.winding p = - s.winding p := by
  rw [winding_eq_rayCross, winding_eq_rayCross]
  have e : (fun u => s.reverse.eval u) = fun u => (fun v => s.eval v) (1 - u) := by
    funext u; exact pathSeg_reverse_eval s u
  have r := rayCross_comp_neg (f := fun v => s.eval v) (p := p) 1 0 1
  rw [sub_self, sub_zero] at r
  rw [e, r]

/-- splitting one segment inside a list of segments -/
theorem windingSum_split (ss₁ ss₂ : List (PathSeg ℝ)) (s : PathSeg ℝ) (t : ℝ) (h0 : 0 < t) (h1 : t < 1)
    (p : Point ℝ) :
    ((ss₁ ++ s.subsegment ⟨0, t⟩ :: s.subsegment ⟨t, 1⟩ :: ss₂).map fun s => s.winding p).sum
      = ((ss₁ ++ s :: ss₂).map fun s => s.winding p).sum := by
  simp only [List.map_append, List.map_cons, List.sum_append, List.sum_cons]
  rw [← winding_split s t h0 h1 p]; ring

/-- reversing a list of segments (order and each segment) negates the sum -/
theorem windingSum_reverse (ss : List (PathSeg ℝ)) (p : Point ℝ) :
    ((ss.reverse.map PathSeg.reverse).map fun s => s.winding p).sum = - (ss.map fun s => s.winding p).sum := by
  induction ss with
  | nil => simp
  | cons s r ih =>
    simp only [List.reverse_cons, List.map_append, List.map_cons, List.map_nil, List.sum_append, List.sum_cons,
      List.sum_nil, add_zero] at ih ⊢
    rw [ih, winding_reverse_seg]; ring

/-! ## 7. rows through a vertex or an extremum -/

/-- two non-degenerate y-injective pieces `s₁|[a,b]`, `s₂|[c,d]` (of one segment, `b = c` an extremum; or of two
    consecutive segments, `b = 1`, `c = 0`, the shared point a vertex) that meet in a point on the row of `p`: counted
    ONCE if the curve passes through the row there and the point is on the ray, ZERO if it only touches the row or the
    point is right of `p` -/
theorem winding_join (s₁ s₂ : PathSeg ℝ) (p : Point ℝ) (a b c d : ℝ) (hab : a < b) (hcd : c < d)
    (hv : s₁.eval b = s₂.eval c) (hy : (s₁.eval b).y = p.y)
    (h1 : StrictMonoOn (fun t => (s₁.eval t).y) (Icc a b) ∨ StrictAntiOn (fun t => (s₁.eval t).y) (Icc a b))
    (h2 : StrictMonoOn (fun t => (s₂.eval t).y) (Icc c d) ∨ StrictAntiOn (fun t => (s₂.eval t).y) (Icc c d)) :
    (s₁.subsegment ⟨a, b⟩).winding_inner p + (s₂.subsegment ⟨c, d⟩).winding_inner p =
      if (s₁.eval b).x ≤ p.x then
        (if (s₁.eval a).y < p.y ∧ p.y < (s₂.eval d).y then -1
         else if (s₂.eval d).y < p.y ∧ p.y < (s₁.eval a).y then 1 else 0)
      else 0 := by
  rw [windingInner_piece s₁ p a b hab.le (by rcases h1 with h | h; exact Or.inl h; exact Or.inr (Or.inl h)),
    windingInner_piece s₂ p c d hcd.le (by rcases h2 with h | h; exact Or.inl h; exact Or.inr (Or.inl h))]
  exact pieceCross_join (f := fun t => s₁.eval t) (g := fun t => s₂.eval t) hab hcd hv hy
    (by rcases h1 with h | h; exact h.injOn; exact h.injOn) (by rcases h2 with h | h; exact h.injOn; exact h.injOn)

end real
end Kurbo

/-! ## non-vacuity -/
namespace Kurbo
namespace C01PExamples
open PathEl Set

/-- a parabola arc `x = 2t`, `y = 4t(1−t)` (apex `(1,1)` at the extremum `t = 1/2`) closed by the chord -/
def par : List (PathEl Rat) := [MoveTo ⟨0, 0⟩, QuadTo ⟨1, 2⟩ ⟨2, 0⟩, ClosePath]
def qq : QuadBez Rat := ⟨⟨0, 0⟩, ⟨1, 2⟩, ⟨2, 0⟩⟩
/-- a parabola arc with a minimum: `y = 2 − 4t + 4t²`, lowest point `(1,1)` at `t = 1/2` -/
def qv : QuadBez Rat := ⟨⟨0, 2⟩, ⟨1, 0⟩, ⟨2, 2⟩⟩

-- the model splits the arc at its extremum; a point inside, two outside on the same row (left of both crossings,
-- right of both crossings), a point on the row of the apex
example : qq.extrema = [1/2] ∧ segs par = some [.Quad qq, .Line ⟨⟨2, 0⟩, ⟨0, 0⟩⟩] := by decide +kernel
example : pathWinding par ⟨1, 3/4⟩ = some (-1) ∧ pathWinding par ⟨1/4, 3/4⟩ = some 0 ∧
    pathWinding par ⟨3, 3/4⟩ = some 0 ∧ pathWinding par ⟨2, 1⟩ = some 0 := by decide +kernel
-- one crossing of the arc left of `(1, 3/4)` (at `t = 1/4`, `x = 1/2`), two left of `(3, 3/4)` (they cancel)
example : PathSeg.winding (.Quad qq) ⟨1, 3/4⟩ = -1 ∧ PathSeg.winding (.Quad qq) ⟨3, 3/4⟩ = 0 ∧
    (qq.eval (1/4)).y = 3/4 ∧ (qq.eval (1/4)).x = 1/2 ∧ (qq.eval (3/4)).y = 3/4 ∧ (qq.eval (3/4)).x = 3/2 := by
  decide +kernel
-- splitting at the crossing parameter itself, degree raising, reversal
example : PathSeg.winding (.Quad (qq.subsegment ⟨0, 1/4⟩)) ⟨1, 3/4⟩ = 0 ∧
    PathSeg.winding (.Quad (qq.subsegment ⟨1/4, 1⟩)) ⟨1, 3/4⟩ = -1 ∧
    PathSeg.winding (.Cubic qq.raise) ⟨1, 3/4⟩ = -1 ∧ PathSeg.winding (PathSeg.Quad qq).reverse ⟨1, 3/4⟩ = 1 := by
  decide +kernel
-- `winding_join`, tangential touch at an extremum on the row of `p = (2,1)`: from below both pieces give 0, from above
-- they give `+1` and `−1`
example : PathSeg.winding_inner (.Quad (qq.subsegment ⟨0, 1/2⟩)) ⟨2, 1⟩ = 0 ∧
    PathSeg.winding_inner (.Quad (qq.subsegment ⟨1/2, 1⟩)) ⟨2, 1⟩ = 0 ∧
    PathSeg.winding_inner (.Quad (qv.subsegment ⟨0, 1/2⟩)) ⟨2, 1⟩ = 1 ∧
    PathSeg.winding_inner (.Quad (qv.subsegment ⟨1/2, 1⟩)) ⟨2, 1⟩ = -1 := by decide +kernel

section real
variable [Scalar ℝ] [LawfulScalar ℝ]

/-- the arc over ℝ -/
def qr : QuadBez ℝ := ⟨⟨0, 0⟩, ⟨1, 2⟩, ⟨2, 0⟩⟩

lemma qr_y (t : ℝ) : (qr.eval t).y = 4 * t - 4 * t ^ 2 := by
  rw [quad_eval_y_poly]; simp only [qr]; ring

-- hypotheses of `windingInner_piece`, `rayCross_monotone_piece`, `winding_join`: the two halves of the arc are strictly
-- monotone in `y`, they meet at the apex `(1,1)`, which is on the row of `p = (2,1)`
example : StrictMonoOn (fun t => ((PathSeg.Quad qr).eval t).y) (Icc 0 (1/2)) := by
  intro s hs t ht hst
  show (qr.eval s).y < (qr.eval t).y
  rw [qr_y, qr_y]
  nlinarith [hs.1, ht.2, mul_pos (sub_pos.mpr hst) (show (0 : ℝ) < 1 - s - t by linarith [ht.2])]
example : StrictAntiOn (fun t => ((PathSeg.Quad qr).eval t).y) (Icc (1/2) 1) := by
  intro s hs t ht hst
  show (qr.eval t).y < (qr.eval s).y
  rw [qr_y, qr_y]
  nlinarith [hs.1, ht.2, mul_pos (sub_pos.mpr hst) (show (0 : ℝ) < s + t - 1 by linarith [hs.1])]
example : ((PathSeg.Quad qr).eval (1/2)).y = (⟨2, 1⟩ : Point ℝ).y ∧ (0 : ℝ) < 1/2 ∧ (1/2 : ℝ) < 1 := by
  refine ⟨?_, by norm_num, by norm_num⟩
  show (qr.eval (1/2)).y = 1
  rw [qr_y]; norm_num
example : ContinuousOn (fun t => ((PathSeg.Quad qr).eval t).y) (Icc 0 (1/2)) := seg_y_continuousOn _ _ _

end real

/-- the law classes are inhabited (ℝ with the Mathlib functions) -/
example : ∃ (_ : Scalar ℝ) (_ : LawfulScalar ℝ), LawfulReal := ⟨realScalar, realScalar_lawful, realScalar_lawfulReal⟩

end C01PExamples
end Kurbo
