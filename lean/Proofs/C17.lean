import Proofs.Lemmas.C17
import Proofs.Lemmas.C17Fit
import Proofs.Lemmas.C17Split
import Proofs.Lemmas.C17Spline
import Proofs.Lemmas.C17Loop
import Proofs.Lemmas.C17Sound
import Proofs.Lemmas.C17Real
/-! C17 – cubic → quadratics: `to_quads`, `fit_inside`, `split_into_n`, `try_approx_quadratic`, `approx_spline_n`,
    `approx_spline`, `cubics_to_quadratic_splines`, `QuadSpline::to_quads` (hand-written model `Kurbo/Quads.lean` +
    the kernel functions it calls).  Helper lemmas: `Proofs/Lemmas/C17*.lean`
    (`C17` to_quads algebra, `C17Fit` fit_inside, `C17Split` split_into_n, `C17Spline` result shapes,
    `C17Loop` closed form of the approx_spline_n loop, `C17Sound` accuracy, `C17Real` ℝ instance / piece count).

    PROVED.  Part A needs no arithmetic law (any `Scalar`, also `Float`); Part B is for an arbitrary lawful scalar
    (ordered field with exact floor/ceil: ℚ, ℝ …); distances are squared Euclidean distances (`dx² + dy² ≤ a²`),
    so no square root is needed.
    * `toQuads_length` (length = `toQuadsN`, ≥ 1), `toQuads_getElem`, `toQuads_tiles` (piece i covers `[i/n,(i+1)/n]`),
      `toQuads_tiles_shared` (t1 of piece i and t0 of piece i+1 are the same term), `toQuads_tiles_ends` (first 0, last 1),
      `toQuads_endpoints_on_cubic(_terms)` (end points of each quadratic are on the cubic).
    * `toQuads_error_identity`: `quadᵢ(s) − cubic(t0 + s·(t1−t0)) = −D·(t1−t0)³·s(s−½)(s−1)`, `D = p3 − 3p2 + 3p1 − p0`
      (note the sign); `cubic_s_bound_sq` (`(s(s−½)(s−1))² ≤ 1/432` on [0,1]) and `cubic_s_bound_sq_tight` (1/432 is
      attained, the constant 432 is optimal); `toQuads_error_bound(')`: every piece is within `a` of the cubic at
      corresponding parameters PROVIDED the piece count satisfies `|D|² ≤ n⁶·432·a²`.
      Part C (ℝ): `toQuadsN_sufficient` – under the laws `powf x y = x^y`, `x as usize = min ⌊x⌋₊ (2⁶⁴−1)` (`LawfulPowf`) the
      count computed by `toQuadsN` does satisfy that inequality when `a ≠ 0` and the count does not saturate;
      `toQuads_error_real` – the resulting unconditional statement with `Real.sqrt`.
    * `fitInside_sound(_hypot)`: for every fuel, if both end points are within `d ≥ 0` of the origin (the callers'
      invariant) and `fit_inside d fuel = true`, then the whole curve is within `d` on [0,1].  Needs the one law
      `LawfulHypot` (`hypot x y ≤ d ↔ x²+y² ≤ d²` for `d ≥ 0`; holds for ℝ with `hypot = √(x²+y²)`: `lawfulHypot_real`).
      `fitInside_fuel_mono`: more fuel never turns `true` into `false` (any `Scalar`).
    * `splitIntoN_spec`: ALL branches (1, 2, 3, 4, 6 and the generic one): `split_into_n n` is the list of the
      sub-segments `[i/n,(i+1)/n]`, equality of control points; `splitIntoN_length`, `splitIntoN_eval`.
    * result shapes (any `Scalar`): `tryApproxQuadratic_endpoints`, `approxSplineN_endpoints` (first = p0, last = p3,
      `n + 2` control points), `approxSpline_endpoints`, `cubicsToQuadraticSplines_same_length` (one spline per cubic, in
      order, all from the same `order ≤ 101`, all with `order + 2` control points, each with its cubic's end points).
    * `quadSpline_implied_points`, `quadSpline_continuous` (any `Scalar`): `QuadSpline::to_quads` on ANY control point
      list – count, control point, on-curve points as midpoints, consecutive quadratics join.
    * accuracy (`LawfulHypot`, `a ≥ 0`): `errorCubic_is_difference` (the tested cubic is the difference curve),
      `tryApproxQuadratic_sound`, `approxSplineN_sound` (the spline has `n` implied quadratics – the model of
      `QuadSpline::to_quads` – and quadratic `idx` at `t` is within `a` of the cubic at `(idx+t)/n`),
      `approxSpline_sound`, `cubicsToQuadraticSplines_sound`.
    * the law classes are jointly satisfiable (ℝ with the mathematical operations: last `example` of Part C).

    NOT PROVED / out of scope.
    * Nothing about IEEE doubles (rounding, NaN, overflow).  `Rat`'s executable `hypot` (a 2⁻¹⁰⁰ approximation of the
      square root) is NOT a `LawfulHypot`; the accuracy theorems speak about ℝ-like scalars.
    * For a general lawful `K` the error bound of `to_quads` is conditional on the inequality for `n` (`powf`, `as usize`
      are uninterpreted there); it is discharged only for ℝ under `LawfulPowf` and only when
      `(|D|²/(432a²))^(1/6) ≤ 2⁶⁴−1` (otherwise `as usize` saturates and the bound is really lost) and `a ≠ 0`.
    * No completeness: `fit_inside` may answer `false` for curves that are inside (finite fuel, conservative test),
      `approx_spline` need not find the smallest `n`; no claim when the functions return `none`.
    * `fitInside_sound` needs both end points inside: without that hypothesis the test is NOT sound (it never looks
      at `p0`, `p3`); the callers establish it (`Point.ZERO`, resp. the `d1` check of the loop) – used that way here.
    * nothing is said about G¹ continuity of the returned splines or about their distance to the cubic other than
      at corresponding parameters (which bounds the Hausdorff/Fréchet distance from above). -/
set_option linter.unusedSectionVars false
namespace Kurbo

/-! ## Part A – statements that use no arithmetic law (every `Scalar`, also `Float`) -/
section structural
variable {K : Type} [Scalar K]

/-- `to_quads` yields exactly `toQuadsN` pieces, and at least one -/
theorem toQuads_length (c : CubicBez K) (a : K) :
    (c.to_quads a).length = toQuadsN c a ∧ 1 ≤ toQuadsN c a :=
  ⟨by simp [CubicBez.to_quads], toQuadsN_pos c a⟩

/-- piece `i` is `ToQuads::next` at index `i` -/
theorem toQuads_getElem (c : CubicBez K) (a : K) (i : Nat) (hi : i < toQuadsN c a) :
    (c.to_quads a)[i]? = some (toQuadsPiece c (toQuadsN c a) i) := toQuads_getElem? c a i hi

/-- consecutive pieces share their parameter: `t1` of piece `i` and `t0` of piece `i+1` are the same term
    (so also the same double) -/
theorem toQuads_tiles_shared (c : CubicBez K) (a : K) (i : Nat) (p q : K × K × QuadBez K)
    (hp : (c.to_quads a)[i]? = some p) (hq : (c.to_quads a)[i + 1]? = some q) : p.2.1 = q.1 := by
  have hi1 : i + 1 < toQuadsN c a := by
    have := (List.getElem?_eq_some_iff.mp hq).1
    rwa [(toQuads_length c a).1] at this
  rw [toQuads_getElem c a i (by omega)] at hp
  rw [toQuads_getElem c a (i + 1) hi1] at hq
  cases hp; cases hq; rfl

/-- the end points of each quadratic are the cubic evaluated at the piece's own parameters (same terms) -/
theorem toQuads_endpoints_on_cubic_terms (c : CubicBez K) (a : K) (i : Nat) (p : K × K × QuadBez K)
    (hp : (c.to_quads a)[i]? = some p) : p.2.2.p0 = c.eval p.1 ∧ p.2.2.p2 = c.eval p.2.1 := by
  have hi : i < toQuadsN c a := by
    have := (List.getElem?_eq_some_iff.mp hp).1
    rwa [(toQuads_length c a).1] at this
  rw [toQuads_getElem c a i hi] at hp
  cases hp; exact ⟨rfl, rfl⟩

/-- more fuel never turns `true` into `false` -/
theorem fitInside_fuel_mono (c : CubicBez K) (d : K) (fuel fuel' : Nat) (hle : fuel ≤ fuel')
    (h : c.fit_inside d fuel = true) : c.fit_inside d fuel' = true := fit_inside_mono d c fuel fuel' hle h

/-- `try_approx_quadratic` keeps the end points -/
theorem tryApproxQuadratic_endpoints (c : CubicBez K) (a : K) (q : QuadBez K)
    (h : c.try_approx_quadratic a = some q) : q.p0 = c.p0 ∧ q.p2 = c.p3 := try_approx_quadratic_ends c a q h

/-- a spline returned by `approx_spline_n` starts and ends at the cubic's end points and has `n + 2` control points -/
theorem approxSplineN_endpoints (c : CubicBez K) (n : Nat) (a : K) (pts : List (Point K))
    (h : c.approx_spline_n n a = some pts) :
    pts.head? = some c.p0 ∧ pts.getLast? = some c.p3 ∧ pts.length = n + 2 := approx_spline_n_shape c n a pts h

/-- a spline returned by `approx_spline` starts and ends at the cubic's end points; it is the result of
    `approx_spline_n` for some `1 ≤ n ≤ 100` and has `n + 2` control points -/
theorem approxSpline_endpoints (c : CubicBez K) (a : K) (pts : List (Point K)) (h : c.approx_spline a = some pts) :
    pts.head? = some c.p0 ∧ pts.getLast? = some c.p3 ∧
    ∃ n, 1 ≤ n ∧ n ≤ 100 ∧ c.approx_spline_n n a = some pts ∧ pts.length = n + 2 := by
  obtain ⟨n, h1, h2, hn⟩ := approx_spline_some c a pts h
  obtain ⟨e0, e1, e2⟩ := approx_spline_n_shape c n a pts hn
  exact ⟨e0, e1, n, h1, h2, hn, e2⟩

/-- `cubics_to_quadratic_splines`: one spline per cubic, in order; all of them come from `approx_spline_n` with the
    same `order ≤ 101`, so each starts/ends at its cubic's end points and all have `order + 2` control points -/
theorem cubicsToQuadraticSplines_same_length (curves : List (CubicBez K)) (a : K) (splines : List (List (Point K)))
    (h : cubicsToQuadraticSplines curves a = some splines) :
    ∃ order, 1 ≤ order ∧ order ≤ 101 ∧ splines.length = curves.length ∧
      (∀ sp ∈ splines, sp.length = order + 2) ∧
      List.Forall₂ (fun c sp => c.approx_spline_n order a = some sp ∧ sp.head? = some c.p0 ∧ sp.getLast? = some c.p3)
        curves splines := by
  obtain ⟨order, h1, h2, hf⟩ := cubicsToQuadraticSplines_some curves a splines h
  refine ⟨order, h1, h2, hf.length_eq.symm, ?_, ?_⟩
  · exact forall₂_right_all (fun c sp hc => (approx_spline_n_shape c order a sp hc).2.2) hf
  · exact hf.imp fun c sp hc => ⟨hc, (approx_spline_n_shape c order a sp hc).1, (approx_spline_n_shape c order a sp hc).2.1⟩

/-- `QuadSpline::to_quads` on ANY control point list of length `n + 2`: `n` quadratics; quadratic `idx` has the control
    point `pts[idx+1]`, starts at `pts[0]` (`idx = 0`) or at the midpoint of `pts[idx], pts[idx+1]`, and ends at the
    midpoint of `pts[idx+1], pts[idx+2]` or (last one) at the last point – so consecutive quadratics join (same term) -/
theorem quadSpline_implied_points (pts : List (Point K)) (n : Nat) (h : pts.length = n + 2) :
    (quadSplineToQuads pts).length = n ∧
    ∀ idx, idx < n → ∃ p0 p1 p2, pts[idx]? = some p0 ∧ pts[idx + 1]? = some p1 ∧ pts[idx + 2]? = some p2 ∧
      (quadSplineToQuads pts)[idx]? = some ⟨if idx = 0 then p0 else p0.midpoint p1, p1,
        if idx + 1 < n then p1.midpoint p2 else p2⟩ := quadSplineToQuads_general pts n h

/-- consecutive implied quadratics share their end point (as terms) -/
theorem quadSpline_continuous (pts : List (Point K)) (idx : Nat) (q q' : QuadBez K)
    (hq : (quadSplineToQuads pts)[idx]? = some q) (hq' : (quadSplineToQuads pts)[idx + 1]? = some q') :
    q.p2 = q'.p0 := by
  have hlen : idx + 1 < (quadSplineToQuads pts).length := (List.getElem?_eq_some_iff.mp hq').1
  have hl : (quadSplineToQuads pts).length ≤ pts.length - 2 := by
    unfold quadSplineToQuads
    exact (List.length_filterMap_le _ _).trans (by simp)
  obtain ⟨n, hn⟩ : ∃ n, pts.length = n + 2 := ⟨pts.length - 2, by omega⟩
  obtain ⟨hlen', hspec⟩ := quadSplineToQuads_general pts n hn
  rw [hlen'] at hlen
  obtain ⟨a0, a1, a2, _, ha1, ha2, hqa⟩ := hspec idx (by omega)
  obtain ⟨b0, b1, b2, hb0, hb1, _, hqb⟩ := hspec (idx + 1) hlen
  rw [hqa] at hq; rw [hqb] at hq'
  cases hq; cases hq'
  rw [ha1] at hb0; rw [ha2] at hb1
  cases hb0; cases hb1
  simp [hlen]

end structural

/-! ## Part B – arithmetic statements, arbitrary lawful scalar (ℚ, ℝ, …) -/
variable {K : Type} [Field K] [LinearOrder K] [IsStrictOrderedRing K] [FloorRing K] [Scalar K] [LawfulScalar K]

/-! ### `to_quads`: tiling -/

/-- piece `i` of `n` covers the parameter range `[i/n, (i+1)/n]` -/
theorem toQuads_tiles (c : CubicBez K) (a : K) (i : Nat) (p : K × K × QuadBez K)
    (hp : (c.to_quads a)[i]? = some p) :
    p.1 = (i : K) / (toQuadsN c a : K) ∧ p.2.1 = ((i : K) + 1) / (toQuadsN c a : K) := by
  have hi : i < toQuadsN c a := by
    have := (List.getElem?_eq_some_iff.mp hp).1
    rwa [(toQuads_length c a).1] at this
  rw [toQuads_getElem c a i hi] at hp
  cases hp
  exact ⟨toQuadsPiece_t0 c _ i, toQuadsPiece_t1 c _ i⟩

/-- the first range starts at 0 and the last one ends at 1 (together with `toQuads_tiles_shared`: the ranges tile
    `[0,1]` without gaps or overlaps) -/
theorem toQuads_tiles_ends (c : CubicBez K) (a : K) :
    (∀ p, (c.to_quads a)[0]? = some p → p.1 = 0) ∧
    (∀ p, (c.to_quads a)[toQuadsN c a - 1]? = some p → p.2.1 = 1) := by
  have hn := toQuadsN_pos c a
  constructor
  · intro p hp
    rw [(toQuads_tiles c a 0 p hp).1]; simp
  · intro p hp
    rw [(toQuads_tiles c a _ p hp).2]
    have hne : ((toQuadsN c a : Nat) : K) ≠ 0 := by
      have : (0 : K) < (toQuadsN c a : K) := by exact_mod_cast hn
      exact ne_of_gt this
    rw [div_eq_one_iff_eq hne]
    have : ((toQuadsN c a - 1 : Nat) : K) = (toQuadsN c a : K) - 1 := by
      rw [Nat.cast_sub hn]; simp
    rw [this]; ring

/-- the end points of quadratic `i` lie on the cubic, at `i/n` and `(i+1)/n` -/
theorem toQuads_endpoints_on_cubic (c : CubicBez K) (a : K) (i : Nat) (p : K × K × QuadBez K)
    (hp : (c.to_quads a)[i]? = some p) :
    p.2.2.p0 = c.eval ((i : K) / (toQuadsN c a : K)) ∧ p.2.2.p2 = c.eval (((i : K) + 1) / (toQuadsN c a : K)) := by
  obtain ⟨h0, h2⟩ := toQuads_endpoints_on_cubic_terms c a i p hp
  obtain ⟨e0, e1⟩ := toQuads_tiles c a i p hp
  rw [h0, h2, e0, e1]; exact ⟨rfl, rfl⟩

/-! ### `to_quads`: error -/

/-- exact error of piece `(t0, t1, quad)` at corresponding parameters: with `D = p3 − 3p2 + 3p1 − p0` the third
    difference of the cubic, `quad(s) − cubic(t0 + s·(t1−t0)) = −D·(t1−t0)³·s(s−½)(s−1)` -/
theorem toQuads_error_identity (c : CubicBez K) (a : K) (i : Nat) (p : K × K × QuadBez K)
    (hp : (c.to_quads a)[i]? = some p) (s : K) :
    (p.2.2.eval s).x - (c.eval (p.1 + s * (p.2.1 - p.1))).x
      = -(c.p3.x - 3 * c.p2.x + 3 * c.p1.x - c.p0.x) * (p.2.1 - p.1) ^ 3 * (s * (s - 1 / 2) * (s - 1)) ∧
    (p.2.2.eval s).y - (c.eval (p.1 + s * (p.2.1 - p.1))).y
      = -(c.p3.y - 3 * c.p2.y + 3 * c.p1.y - c.p0.y) * (p.2.1 - p.1) ^ 3 * (s * (s - 1 / 2) * (s - 1)) := by
  have hi : i < toQuadsN c a := by
    have := (List.getElem?_eq_some_iff.mp hp).1
    rwa [(toQuads_length c a).1] at this
  rw [toQuads_getElem c a i hi] at hp
  cases hp
  exact toQuadsPiece_error c _ i s

/-- `|s(s−½)(s−1)| ≤ 1/(12√3)` on `[0,1]`, squared -/
theorem cubic_s_bound_sq (s : K) (h0 : 0 ≤ s) (h1 : s ≤ 1) : (s * (s - 1 / 2) * (s - 1)) ^ 2 ≤ 1 / 432 :=
  cubic_s_bound s h0 h1

/-- … and `1/432` is the maximum (attained where `s(1−s) = 1/6`, i.e. `s = ½ ± √3/6`): the constant `432` of
    `to_quads` cannot be lowered -/
theorem cubic_s_bound_sq_tight (s : K) (h : s * (1 - s) = 1 / 6) : (s * (s - 1 / 2) * (s - 1)) ^ 2 = 1 / 432 :=
  cubic_s_bound_tight_sq s h

/-- **error bound of `to_quads`**: whenever the chosen piece count `n` satisfies the inequality the formula
    `n = ⌈(|D|²/(432 a²))^(1/6)⌉` is meant to guarantee, every quadratic stays within `a` of the cubic at corresponding
    parameters (squared Euclidean distance ≤ a²) -/
theorem toQuads_error_bound (c : CubicBez K) (a : K)
    (hn : (c.p3.x - 3 * c.p2.x + 3 * c.p1.x - c.p0.x) ^ 2 + (c.p3.y - 3 * c.p2.y + 3 * c.p1.y - c.p0.y) ^ 2
        ≤ (toQuadsN c a : K) ^ 6 * (432 * a ^ 2))
    (i : Nat) (p : K × K × QuadBez K) (hp : (c.to_quads a)[i]? = some p) (s : K) (hs0 : 0 ≤ s) (hs1 : s ≤ 1) :
    ((p.2.2.eval s).x - (c.eval (p.1 + s * (p.2.1 - p.1))).x) ^ 2
      + ((p.2.2.eval s).y - (c.eval (p.1 + s * (p.2.1 - p.1))).y) ^ 2 ≤ a ^ 2 := by
  have hi : i < toQuadsN c a := by
    have := (List.getElem?_eq_some_iff.mp hp).1
    rwa [(toQuads_length c a).1] at this
  rw [toQuads_getElem c a i hi] at hp
  cases hp
  exact toQuadsPiece_error_bound c _ i (toQuadsN_pos c a) a hn s hs0 hs1

/-- the same with the parameter of the cubic written out: quadratic `i` at `s` against the cubic at `(i+s)/n` -/
theorem toQuads_error_bound' (c : CubicBez K) (a : K)
    (hn : (c.p3.x - 3 * c.p2.x + 3 * c.p1.x - c.p0.x) ^ 2 + (c.p3.y - 3 * c.p2.y + 3 * c.p1.y - c.p0.y) ^ 2
        ≤ (toQuadsN c a : K) ^ 6 * (432 * a ^ 2))
    (i : Nat) (p : K × K × QuadBez K) (hp : (c.to_quads a)[i]? = some p) (s : K) (hs0 : 0 ≤ s) (hs1 : s ≤ 1) :
    ((p.2.2.eval s).x - (c.eval (((i : K) + s) / (toQuadsN c a : K))).x) ^ 2
      + ((p.2.2.eval s).y - (c.eval (((i : K) + s) / (toQuadsN c a : K))).y) ^ 2 ≤ a ^ 2 := by
  have h := toQuads_error_bound c a hn i p hp s hs0 hs1
  obtain ⟨e0, e1⟩ := toQuads_tiles c a i p hp
  have e : p.1 + s * (p.2.1 - p.1) = ((i : K) + s) / (toQuadsN c a : K) := by rw [e0, e1]; ring
  rwa [e] at h

/-! ### `fit_inside` -/

/-- **soundness of `fit_inside`** (squared form, any lawful scalar whose `hypot` compares like `√(x²+y²)`): under
    the callers' invariant that both end points are within `d` of the origin, a `true` answer – for any fuel – means
    the whole curve is within `d` of the origin -/
theorem fitInside_sound [LawfulHypot K] (c : CubicBez K) (d : K) (hd : 0 ≤ d) (fuel : Nat)
    (h0 : c.p0.x ^ 2 + c.p0.y ^ 2 ≤ d ^ 2) (h3 : c.p3.x ^ 2 + c.p3.y ^ 2 ≤ d ^ 2)
    (h : c.fit_inside d fuel = true) (t : K) (ht0 : 0 ≤ t) (ht1 : t ≤ 1) :
    (c.eval t).x ^ 2 + (c.eval t).y ^ 2 ≤ d ^ 2 :=
  fit_inside_sound d hd fuel c h0 h3 h t ht0 ht1

/-- the same statement in terms of the model's own `Vec2.hypot` -/
theorem fitInside_sound_hypot [LawfulHypot K] (c : CubicBez K) (d : K) (hd : 0 ≤ d) (fuel : Nat)
    (h0 : c.p0.to_vec2.hypot ≤ d) (h3 : c.p3.to_vec2.hypot ≤ d) (h : c.fit_inside d fuel = true)
    (t : K) (ht0 : 0 ≤ t) (ht1 : t ≤ 1) : (c.eval t).to_vec2.hypot ≤ d :=
  fit_inside_sound_hypot d hd fuel c h0 h3 h t ht0 ht1

/-! ### `split_into_n` -/

/-- all five precomputed cases (1, 2, 3, 4, 6) and the generic branch: the `i`-th cubic is the sub-segment
    `[i/n, (i+1)/n]` (equality of control points) -/
theorem splitIntoN_spec (c : CubicBez K) (n : Nat) :
    c.split_into_n n = (List.range n).map fun i : Nat => c.subsegment ⟨(i : K) / n, ((i : K) + 1) / n⟩ :=
  split_into_n_eq c n

theorem splitIntoN_length (c : CubicBez K) (n : Nat) : (c.split_into_n n).length = n := by
  rw [split_into_n_eq]; simp

/-- evaluation form: piece `i` at `s` is the cubic at `(i+s)/n` -/
theorem splitIntoN_eval (c : CubicBez K) (n i : Nat) (hi : i < n) :
    ∃ piece, (c.split_into_n n)[i]? = some piece ∧ ∀ s : K, piece.eval s = c.eval (((i : K) + s) / n) := by
  refine ⟨c.subsegment ⟨(i : K) / n, ((i : K) + 1) / n⟩, ?_, ?_⟩
  · rw [split_into_n_eq]; simp [hi]
  · intro s
    rw [cubic_subsegment_eval]; congr 1; ring

/-! ### `try_approx_quadratic`, `approx_spline_n`, `approx_spline`, `cubics_to_quadratic_splines`: accuracy -/

/-- **difference-curve identity**: the cubic that `try_approx_quadratic` and the loop of `approx_spline_n` hand to
    `fit_inside` – control points `(e0, lerp(q0,q1,⅔) − cur.p1, lerp(q2,q1,⅔) − cur.p2, e3)` with
    `e0 = q0 − cur.p0`, `e3 = q2 − cur.p3` – evaluates to `quad(q0,q1,q2)(t) − cur(t)` for every `t` -/
theorem errorCubic_is_difference (q0 q1 q2 e0 e3 : Point K) (cur : CubicBez K)
    (h0x : e0.x = q0.x - cur.p0.x) (h0y : e0.y = q0.y - cur.p0.y)
    (h3x : e3.x = q2.x - cur.p3.x) (h3y : e3.y = q2.y - cur.p3.y) (t : K) :
    ((CubicBez.new e0 (q0.lerp q1 (2 / 3) - cur.p1.to_vec2) (q2.lerp q1 (2 / 3) - cur.p2.to_vec2) e3).eval t).x
        = ((QuadBez.mk q0 q1 q2).eval t).x - (cur.eval t).x ∧
    ((CubicBez.new e0 (q0.lerp q1 (2 / 3) - cur.p1.to_vec2) (q2.lerp q1 (2 / 3) - cur.p2.to_vec2) e3).eval t).y
        = ((QuadBez.mk q0 q1 q2).eval t).y - (cur.eval t).y :=
  diff_curve q0 q1 q2 e0 e3 cur (2 / 3) rfl h0x h0y h3x h3y t

/-- a quadratic returned by `try_approx_quadratic` is within `a` of the cubic at equal parameters -/
theorem tryApproxQuadratic_sound [LawfulHypot K] (c : CubicBez K) (a : K) (ha : 0 ≤ a) (q : QuadBez K)
    (h : c.try_approx_quadratic a = some q) (t : K) (ht0 : 0 ≤ t) (ht1 : t ≤ 1) :
    ((q.eval t).x - (c.eval t).x) ^ 2 + ((q.eval t).y - (c.eval t).y) ^ 2 ≤ a ^ 2 :=
  try_approx_quadratic_sound c a ha q h t ht0 ht1

/-- **soundness of `approx_spline_n`**: the returned spline has `n` implied quadratics (`QuadSpline::to_quads`), and
    quadratic `idx` at `t` is within `a` of the cubic at `(idx + t)/n` -/
theorem approxSplineN_sound [LawfulHypot K] (c : CubicBez K) (n : Nat) (a : K) (ha : 0 ≤ a) (pts : List (Point K))
    (h : c.approx_spline_n n a = some pts) :
    (quadSplineToQuads pts).length = n ∧
    ∀ (idx : Nat) (q : QuadBez K), (quadSplineToQuads pts)[idx]? = some q → ∀ t : K, 0 ≤ t → t ≤ 1 →
      ((q.eval t).x - (c.eval (((idx : K) + t) / n)).x) ^ 2
        + ((q.eval t).y - (c.eval (((idx : K) + t) / n)).y) ^ 2 ≤ a ^ 2 :=
  approx_spline_n_sound c n a ha pts h

/-- **soundness of `approx_spline`** -/
theorem approxSpline_sound [LawfulHypot K] (c : CubicBez K) (a : K) (ha : 0 ≤ a) (pts : List (Point K))
    (h : c.approx_spline a = some pts) :
    pts.head? = some c.p0 ∧ pts.getLast? = some c.p3 ∧
    ∀ (idx : Nat) (q : QuadBez K), (quadSplineToQuads pts)[idx]? = some q → ∀ t : K, 0 ≤ t → t ≤ 1 →
      ((q.eval t).x - (c.eval (((idx : K) + t) / ((quadSplineToQuads pts).length : K))).x) ^ 2
        + ((q.eval t).y - (c.eval (((idx : K) + t) / ((quadSplineToQuads pts).length : K))).y) ^ 2 ≤ a ^ 2 := by
  obtain ⟨n, _, _, hn⟩ := approx_spline_some c a pts h
  obtain ⟨e0, e1, _⟩ := approx_spline_n_shape c n a pts hn
  obtain ⟨hl, hs⟩ := approx_spline_n_sound c n a ha pts hn
  rw [hl]
  exact ⟨e0, e1, hs⟩

/-- **soundness of `cubics_to_quadratic_splines`**: every returned spline starts/ends at its cubic's end points, has
    `order + 2` control points (the same `order` for all), and each of its `order` implied quadratics is within `a`
    of the corresponding piece of its cubic -/
theorem cubicsToQuadraticSplines_sound [LawfulHypot K] (curves : List (CubicBez K)) (a : K) (ha : 0 ≤ a)
    (splines : List (List (Point K))) (h : cubicsToQuadraticSplines curves a = some splines) :
    ∃ order, 1 ≤ order ∧ order ≤ 101 ∧
      List.Forall₂ (fun (c : CubicBez K) (pts : List (Point K)) =>
        pts.head? = some c.p0 ∧ pts.getLast? = some c.p3 ∧ pts.length = order + 2 ∧
        (quadSplineToQuads pts).length = order ∧
        ∀ (idx : Nat) (q : QuadBez K), (quadSplineToQuads pts)[idx]? = some q → ∀ t : K, 0 ≤ t → t ≤ 1 →
          ((q.eval t).x - (c.eval (((idx : K) + t) / order)).x) ^ 2
            + ((q.eval t).y - (c.eval (((idx : K) + t) / order)).y) ^ 2 ≤ a ^ 2) curves splines := by
  obtain ⟨order, h1, h2, hf⟩ := cubicsToQuadraticSplines_some curves a splines h
  refine ⟨order, h1, h2, hf.imp ?_⟩
  intro c pts hc
  obtain ⟨e0, e1, e2⟩ := approx_spline_n_shape c order a pts hc
  obtain ⟨hl, hs⟩ := approx_spline_n_sound c order a ha pts hc
  exact ⟨e0, e1, e2, hl, hs⟩

end Kurbo

/-! ## Part C – ℝ: the piece count of `to_quads`, distances with square roots; the law classes are satisfiable -/
namespace Kurbo
section real
variable [Scalar ℝ] [LawfulScalar ℝ]

/-- with `powf x y = x ^ y` and `x as usize = min ⌊x⌋₊ (2⁶⁴−1)` the piece count of `to_quads` satisfies the
    hypothesis of `toQuads_error_bound` (for `a ≠ 0` and as long as the count does not saturate) -/
theorem toQuadsN_sufficient [LawfulPowf] (c : CubicBez ℝ) (a : ℝ) (ha : a ≠ 0)
    (hsat : (((c.p3.x - 3 * c.p2.x + 3 * c.p1.x - c.p0.x) ^ 2
        + (c.p3.y - 3 * c.p2.y + 3 * c.p1.y - c.p0.y) ^ 2) / (432 * a ^ 2)) ^ ((1 : ℝ) / 6) ≤ 2 ^ 64 - 1) :
    (c.p3.x - 3 * c.p2.x + 3 * c.p1.x - c.p0.x) ^ 2 + (c.p3.y - 3 * c.p2.y + 3 * c.p1.y - c.p0.y) ^ 2
      ≤ (toQuadsN c a : ℝ) ^ 6 * (432 * a ^ 2) := toQuadsN_meets c a ha hsat

/-- **`to_quads` is within the accuracy** (ℝ, Euclidean distance): quadratic `i` at `s` against the cubic at `(i+s)/n` -/
theorem toQuads_error_real [LawfulPowf] (c : CubicBez ℝ) (a : ℝ) (ha : 0 < a)
    (hsat : (((c.p3.x - 3 * c.p2.x + 3 * c.p1.x - c.p0.x) ^ 2
        + (c.p3.y - 3 * c.p2.y + 3 * c.p1.y - c.p0.y) ^ 2) / (432 * a ^ 2)) ^ ((1 : ℝ) / 6) ≤ 2 ^ 64 - 1)
    (i : Nat) (p : ℝ × ℝ × QuadBez ℝ) (hp : (c.to_quads a)[i]? = some p) (s : ℝ) (hs0 : 0 ≤ s) (hs1 : s ≤ 1) :
    Real.sqrt (((p.2.2.eval s).x - (c.eval (((i : ℝ) + s) / (toQuadsN c a : ℝ))).x) ^ 2
      + ((p.2.2.eval s).y - (c.eval (((i : ℝ) + s) / (toQuadsN c a : ℝ))).y) ^ 2) ≤ a := by
  rw [Real.sqrt_le_left ha.le]
  exact toQuads_error_bound' c a (toQuadsN_meets c a (ne_of_gt ha) hsat) i p hp s hs0 hs1

/-- `LawfulHypot ℝ` is what `hypot x y = √(x² + y²)` gives -/
theorem lawfulHypot_real (h : ∀ x y : ℝ, Scalar.hypot x y = Real.sqrt (x ^ 2 + y ^ 2)) : LawfulHypot ℝ :=
  lawfulHypot_of_sqrt h

end real

/-- the law classes used above are satisfiable together: ℝ with the mathematical operations -/
example : ∃ inst : Scalar ℝ, @LawfulScalar ℝ _ _ _ _ inst ∧ @LawfulHypot ℝ _ _ inst ∧ @LawfulPowf inst :=
  ⟨realScalar17, realScalar17_lawful, realScalar_hypot, realScalar_powf⟩

end Kurbo

/-! ## Examples: the hypotheses are satisfiable, the functions return results on non-trivial inputs (`Rat`) -/
namespace Kurbo
namespace C17Examples

def cE : CubicBez Rat := ⟨⟨0, 0⟩, ⟨1, 2⟩, ⟨3, 2⟩, ⟨4, 0⟩⟩
/-- an exactly representable quadratic (degree-raised) -/
def cQ : CubicBez Rat := ⟨⟨0, 0⟩, ⟨2 / 3, 4 / 3⟩, ⟨4 / 3, 4 / 3⟩, ⟨2, 0⟩⟩
def cF : CubicBez Rat := ⟨⟨0, 0⟩, ⟨0, 6 / 5⟩, ⟨0, 6 / 5⟩, ⟨0, 0⟩⟩

-- `to_quads`: four pieces, their ranges; the hypothesis of `toQuads_error_bound` holds for this input
example : toQuadsN cE (1 / 20) = 4 := by decide +kernel
example : (cE.to_quads (1 / 20)).map (fun p => (p.1, p.2.1)) = [(0, 1 / 4), (1 / 4, 1 / 2), (1 / 2, 3 / 4), (3 / 4, 1)] := by
  decide +kernel
example : (cE.p3.x - 3 * cE.p2.x + 3 * cE.p1.x - cE.p0.x) ^ 2 + (cE.p3.y - 3 * cE.p2.y + 3 * cE.p1.y - cE.p0.y) ^ 2
    ≤ ((toQuadsN cE (1 / 20) : Nat) : Rat) ^ 6 * (432 * (1 / 20) ^ 2) := by decide +kernel
-- … and the conclusion, at s = 1/3 of piece 2 (squared distance against a² = 1/400)
example : (cE.to_quads (1 / 20))[2]? = some (toQuadsPiece cE 4 2) ∧
    (((toQuadsPiece cE 4 2).2.2.eval (1 / 3)).x - (cE.eval ((2 + 1 / 3) / 4)).x) ^ 2
      + (((toQuadsPiece cE 4 2).2.2.eval (1 / 3)).y - (cE.eval ((2 + 1 / 3) / 4)).y) ^ 2 = 1 / 746496 := by
  decide +kernel
-- the bound 1/432 is attained over ℝ at s = 1/2 − √3/6 (`cubic_s_bound_sq_tight`)
example : ((1 : ℝ) / 2 - Real.sqrt 3 / 6) * (1 - (1 / 2 - Real.sqrt 3 / 6)) = 1 / 6 := by
  have h : Real.sqrt 3 * Real.sqrt 3 = 3 := Real.mul_self_sqrt (by norm_num)
  ring_nf; rw [show Real.sqrt 3 ^ 2 = 3 by rw [pow_two]; exact h]; norm_num
-- `fit_inside`: a curve that needs one subdivision (`true` with fuel 2, not with fuel 1)
example : cF.fit_inside 1 1 = false ∧ cF.fit_inside 1 2 = true := by decide +kernel
-- the hypotheses of `fitInside_sound` are satisfiable over ℝ (end points inside, answer `true`)
example : letI := realScalar17
    (⟨⟨0, 0⟩, ⟨1 / 2, 0⟩, ⟨0, 1 / 2⟩, ⟨0, 0⟩⟩ : CubicBez ℝ).fit_inside 1 1 = true := by
  let _ := realScalar17
  have := realScalar17_lawful
  have := realScalar_hypot
  rw [CubicBez.fit_inside, if_pos]
  simp only [scalar_norm, Bool.and_eq_true, decide_eq_true_eq]
  rw [vec2_hypot_le_iff _ _ zero_le_one, vec2_hypot_le_iff _ _ zero_le_one]
  simp only [Point.to_vec2]
  norm_num
-- without the end-point hypothesis `fit_inside` is not a containment test: it never looks at `p0`, `p3`
example : (⟨⟨100, 0⟩, ⟨0, 0⟩, ⟨0, 0⟩, ⟨0, 0⟩⟩ : CubicBez Rat).fit_inside 1 1 = true := by decide +kernel
-- `split_into_n`: a precomputed case and the generic branch
example : (cE.split_into_n 3).length = 3 ∧ (cE.split_into_n 5).length = 5 := by decide +kernel
example : (cE.split_into_n 5)[2]? = some (cE.subsegment ⟨2 / 5, 3 / 5⟩) := by decide +kernel
-- `try_approx_quadratic`, `approx_spline_n`, `approx_spline`, `cubics_to_quadratic_splines` return results
example : cQ.try_approx_quadratic (1 / 100) = some ⟨⟨0, 0⟩, ⟨1, 2⟩, ⟨2, 0⟩⟩ := by decide +kernel
example : cE.try_approx_quadratic (1 / 20) = none := by decide +kernel
example : cE.approx_spline_n 2 (1 / 20) = some [⟨0, 0⟩, ⟨3 / 4, 3 / 2⟩, ⟨13 / 4, 3 / 2⟩, ⟨4, 0⟩] := by decide +kernel
example : (cE.approx_spline (1 / 200)).map List.length = some 7 := by decide +kernel
example : ((cE.approx_spline (1 / 200)).map quadSplineToQuads).map List.length = some 5 := by decide +kernel
example : quadSplineToQuads [(⟨0, 0⟩ : Point Rat), ⟨1, 2⟩, ⟨3, 2⟩, ⟨4, 0⟩]
    = [⟨⟨0, 0⟩, ⟨1, 2⟩, ⟨2, 2⟩⟩, ⟨⟨2, 2⟩, ⟨3, 2⟩, ⟨4, 0⟩⟩] := by decide +kernel
example : (cubicsToQuadraticSplines [cE, cQ] (1 / 20)).map (List.map List.length) = some [4, 4] := by decide +kernel

end C17Examples
end Kurbo
