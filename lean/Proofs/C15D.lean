import Proofs.C15Q
import Proofs.Lemmas.C15D
/-! C15D – `depressed_cubic_dominant` (kurbo/src/common.rs), the resolvent-root finder of `solve_quartic`: discharge of the
    hypothesis `hphi` of C15Q over ℝ.

    All theorems are about the model `Kurbo/Quartic.lean` (`dcdK`, `dcdPhi0`, `dcdNewton`, `depressedCubicDominant`) exactly
    as it is, read over ℝ with the transcendental `Scalar` fields being the real functions they are named after
    (`LawfulReal` of C15: `sqrt`, `cbrt`, `cos`; plus `LawfulAcos` stated in `Lemmas/C15D.lean`: `acos = Real.arccos`; both are
    inhabited by `realScalar`, so nothing is postulated).  `q = −g/3`, `r = h/2`, the cubic is `x³ − 3q·x + 2r`.

    What is proved.
    A. start value.
       * `phi0_trig_root` (branch `r² < q³`: `−2√q·cos(acos|t|/3)·sign t`, `t = r/√(q³)`, triple-angle identity),
         `phi0_cardano_root` (branch `r² ≥ q³`: `a = cbrt(−r − sign(r)√(r² − q³))`, `b = q/a` or 0, incl. the case `a = 0`):
         the plain formulas (`k = None`) give a root of `x³ − 3q x + 2r`, for ALL real `q`, `r` of the branch.
       * `dcdPhi0_formula`: whenever `k = None` or `r ≠ 0` the model's `phi_0` IS the plain formula – i.e. the two
         overflow-guarded rewritings (`k = Some(1 − q(q/r)²)` for `|q| < |r|`, `k = Some(sign q·((r/q)²/q − 1))` otherwise;
         `t = r/q/√q`; radicands `−r(1 + √k)` and `−r − copysign(√|q|·q·√k, r)`) are equal in ℝ to the plain ones, and the
         branch test `k < 0` is equivalent to `r² < q³`.  The thresholds `1e102`, `1e154` play no role in ℝ.
       * `dcdPhi0_r_zero`: `k = Some …` and `r = 0`: `phi_0 = 0` (`g > 0`) or `√(−g)`.
       * `dcdPhi0_root`: in every case `phi_0³ + g·phi_0 + h = 0`.
    B. Newton refinement (any lawful scalar).
       * `dcdNewton_root`: an exact root (state `f = 0`) is a fixed point of the loop for every iteration count (either
         `delt_f = 0` → break, or `new_x = x`, `new_f = 0` → return `new_x`).
       * `dcdNewton_residual_le`: the loop never increases `|f|`; `depressedCubicDominant_residual_le`: the value returned by
         `depressed_cubic_dominant` has a residual no larger than that of `phi_0` (whether or not the early-return test fires).
    C. `depressedCubicDominant_root` (ℝ): the returned value is a root of `x³ + g x + h`;
       `depressedCubicDominant_eq_phi0`: it is `phi_0` itself;
       `depressedCubicDominant_dominant`: every real root `y` satisfies `|y| ≤ |returned value|` (from `phi_0² ≥ −g`,
       `dcdPhi0_sq_ge`).
    D. C15Q without `hphi`: `quarticPhi_root` (both modes: the `phi` of `factor_quartic_inner` is a root of the resolvent of
       the quartic), `factorQuarticInner_exact_neg_unconditional`, `factorQuarticInner_exact_zero_unconditional`,
       `factorQuarticInner_none_of_pos_unconditional`, `solveQuartic_general_exact_real_unconditional` – the statements of
       C15Q with the hypothesis on the resolvent root removed; the other hypotheses (`d_2` above the noise threshold or `= 0`,
       general case `c4 ≠ 0`, `c0 ≠ 0`, not biquadratic) are kept.

    What is NOT proved.
    * Nothing about `Float`: rounding, the purpose of the overflow guards, of the early-return test `|f| < EPS_M·max(…)`, the
      convergence of the Newton loop from an inexact start (only: it never makes the residual worse).
    * Over ℝ the early-return test is irrelevant (`f = 0`); that it is a sensible test for doubles is not addressed.
    * Which root is returned when several have the same largest magnitude is not characterised (only `|y| ≤ |phi|`).
    Helper lemmas: `Proofs/Lemmas/C15D.lean`. -/
set_option linter.unusedSectionVars false

namespace Kurbo

/-! ## A. the start value `phi_0` -/

/-- trigonometric branch of the plain formulas -/
theorem phi0_trig_root {q r : ℝ} (h : r * r < q ^ 3) : phi0Trig q r ^ 3 - 3 * q * phi0Trig q r + 2 * r = 0 :=
  phi0Trig_root h
example : (3 : ℝ) * 3 < (7 / 3) ^ 3 := by norm_num

/-- Cardano branch of the plain formulas -/
theorem phi0_cardano_root {q r : ℝ} (h : q ^ 3 ≤ r * r) : phi0Card q r ^ 3 - 3 * q * phi0Card q r + 2 * r = 0 :=
  phi0Card_root h
example : (-1 / 3 : ℝ) ^ 3 ≤ (-1) * (-1) := by norm_num

section real
variable [Scalar ℝ] [LawfulScalar ℝ] [LawfulReal] [LawfulAcos]

/-- unless `k = Some …` and `r = 0`, the model's `phi_0` is the plain formula (the overflow-guarded formulas are the
    plain ones rewritten) -/
theorem dcdPhi0_formula (g h : ℝ) (hcase : dcdK (-1 / 3 * g) (1 / 2 * h) = none ∨ 1 / 2 * h ≠ 0) :
    dcdPhi0 g h = if 1 / 2 * h * (1 / 2 * h) < (-1 / 3 * g) ^ 3 then phi0Trig (-1 / 3 * g) (1 / 2 * h)
      else phi0Card (-1 / 3 * g) (1 / 2 * h) :=
  dcdPhi0_eq_plain g h hcase
example : (1 / 2 * (6 : ℝ) ≠ 0) := by norm_num

/-- `k = Some …`, `r = 0` -/
theorem dcdPhi0_r_zero (g h kv : ℝ) (hk : dcdK (-1 / 3 * g) (1 / 2 * h) = some kv) (hr : 1 / 2 * h = 0) :
    dcdPhi0 g h = if 0 < g then 0 else √(-g) :=
  dcdPhi0_some_zero g h kv hk hr

-- the guarded regime with `r = 0` is reachable: g = −3·10¹⁰³, h = 0 (q = 10¹⁰³ ≥ 1e102)
example : ∃ kv, dcdK (-1 / 3 * (-3 * 10 ^ 103 : ℝ)) (1 / 2 * 0) = some kv ∧ 1 / 2 * (0 : ℝ) = 0 := by
  unfold dcdK dcdQBig dcdRBig
  simp only [scalar_norm, Nat.cast_one, Bool.and_eq_true, decide_eq_true_eq]
  push_cast
  have e : (-1 / 3 * (-3 * 10 ^ 103) : ℝ) = 10 ^ 103 := by ring
  rw [e, abs_of_pos (by positivity), if_neg (by norm_num)]
  split_ifs <;> exact ⟨_, rfl, by norm_num⟩

/-- the start value is a root, in every branch -/
theorem dcdPhi0_root (g h : ℝ) : dcdPhi0 g h ^ 3 + g * dcdPhi0 g h + h = 0 := dcdPhi0_root' g h

theorem dcdPhi0_sq_ge (g h : ℝ) : -g ≤ dcdPhi0 g h ^ 2 := dcdPhi0_sq_ge' g h

end real

/-! ## B. the Newton refinement -/
section newton
variable {K : Type} [Field K] [LinearOrder K] [IsStrictOrderedRing K] [FloorRing K] [Scalar K] [LawfulScalar K]

/-- an exact root is a fixed point of the whole loop -/
theorem dcdNewton_root {g h x : K} (hroot : (x * x + g) * x + h = 0) (n : Nat) : dcdNewton g h n x 0 = x :=
  dcdNewton_fixed hroot n
example : ((1 : Rat) * 1 + 1) * 1 + (-2) = 0 := by norm_num
example : dcdNewton (1 : Rat) (-2) 8 1 0 = 1 := by decide +kernel
-- `delt_f = 0` at a root (x = 0 is a triple root of x³): the loop breaks and returns x
example : dcdNewton (0 : Rat) 0 8 0 0 = 0 := by decide +kernel

/-- the loop never increases the residual -/
theorem dcdNewton_residual_le (g h : K) (n : Nat) (x : K) :
    |(dcdNewton g h n x ((x * x + g) * x + h) * dcdNewton g h n x ((x * x + g) * x + h) + g) *
        dcdNewton g h n x ((x * x + g) * x + h) + h| ≤ |(x * x + g) * x + h| :=
  dcdNewton_res_le g h n x _ rfl
-- an inexact start over `Rat`: x³ + x − 2 from x = 2 (f = 8): the loop moves and ends with a smaller residual
example : dcdNewton (1 : Rat) (-2) 2 2 8 ≠ 2 ∧
    |(dcdNewton (1 : Rat) (-2) 2 2 8 * dcdNewton (1 : Rat) (-2) 2 2 8 + 1) * dcdNewton (1 : Rat) (-2) 2 2 8 + (-2)| < 1 := by
  decide +kernel

theorem depressedCubicDominant_residual_le (g h : K) :
    |(depressedCubicDominant g h * depressedCubicDominant g h + g) * depressedCubicDominant g h + h| ≤
      |(dcdPhi0 g h * dcdPhi0 g h + g) * dcdPhi0 g h + h| :=
  depressedCubicDominant_res_le' g h

end newton

/-! ## C. `depressed_cubic_dominant` -/
section real
variable [Scalar ℝ] [LawfulScalar ℝ] [LawfulReal] [LawfulAcos]

/-- the statement C15Q left open -/
theorem depressedCubicDominant_root (g h : ℝ) :
    depressedCubicDominant g h ^ 3 + g * depressedCubicDominant g h + h = 0 :=
  depressedCubicDominant_root' g h

theorem depressedCubicDominant_eq_phi0 (g h : ℝ) : depressedCubicDominant g h = dcdPhi0 g h :=
  depressedCubicDominant_of_root (by linear_combination dcdPhi0_root' g h)

/-- "dominant": no real root of the cubic is larger in magnitude than the returned one -/
theorem depressedCubicDominant_dominant (g h y : ℝ) (hy : y ^ 3 + g * y + h = 0) :
    |y| ≤ |depressedCubicDominant g h| := by
  rw [depressedCubicDominant_eq_phi0]
  exact dominant_of_sq_ge (dcdPhi0_root' g h) hy (dcdPhi0_sq_ge' g h)

/-- x³ − 7x + 6 = (x − 1)(x − 2)(x + 3), trigonometric branch: the root of largest magnitude, −3, is returned -/
example : depressedCubicDominant (-7 : ℝ) 6 = -3 := by
  have hr := depressedCubicDominant_root (-7) 6
  have hd := depressedCubicDominant_dominant (-7) 6 (-3) (by norm_num)
  generalize depressedCubicDominant (-7 : ℝ) 6 = x at hr hd
  have hfac : (x - 1) * ((x - 2) * (x + 3)) = 0 := by linear_combination hr
  rw [show |(-3 : ℝ)| = 3 by norm_num] at hd
  rcases mul_eq_zero.mp hfac with h1 | h1
  · have : x = 1 := by linarith
    rw [this] at hd; norm_num at hd
  · rcases mul_eq_zero.mp h1 with h2 | h2
    · have : x = 2 := by linarith
      rw [this] at hd; norm_num at hd
    · linarith

/-- x³ + x − 2 = (x − 1)(x² + x + 2), Cardano branch: the only real root, 1, is returned -/
example : depressedCubicDominant (1 : ℝ) (-2) = 1 := by
  have hr := depressedCubicDominant_root 1 (-2)
  generalize depressedCubicDominant (1 : ℝ) (-2) = x at hr
  have hfac : (x - 1) * (x ^ 2 + x + 2) = 0 := by linear_combination hr
  rcases mul_eq_zero.mp hfac with h1 | h1
  · linarith
  · nlinarith [sq_nonneg (2 * x + 1)]

/-! ## D. C15Q without the hypothesis on the resolvent root -/

/-- the `phi` of `factor_quartic_inner` is a root of the resolvent cubic of the quartic (both modes) -/
theorem quarticPhi_root {a b c d : ℝ} {rescale : Bool} {phi : ℝ} (hq : quarticPhi a b c d rescale = some phi) :
    phi ^ 3 + resolventG a b c d * phi + resolventH a b c d = 0 := by
  obtain ⟨phi', hq', hroot⟩ := quarticPhi_exact a b c d rescale (depressedCubicDominant_root _ _)
  rw [hq] at hq'
  rw [Option.some.inj hq']; exact hroot

theorem quarticPhi_isSome (a b c d : ℝ) (rescale : Bool) : ∃ phi, quarticPhi a b c d rescale = some phi := by
  obtain ⟨phi', hq', -⟩ := quarticPhi_exact a b c d rescale (depressedCubicDominant_root _ _)
  exact ⟨phi', hq'⟩

theorem factorQuarticInner_exact_neg_unconditional {a b c d : ℝ} {rescale : Bool} {phi : ℝ}
    (hq : quarticPhi a b c d rescale = some phi)
    (hneg : ldlD1 a b phi < 0) (hthr : ldlNoise a b phi < |ldlD1 a b phi|) :
    ∃ a1 b1 a2 b2, factorQuarticInner a b c d rescale = some ((a1, b1), (a2, b2)) ∧
      a1 + a2 = a ∧ b1 + a1 * a2 + b2 = b ∧ b1 * a2 + a1 * b2 = c ∧ b1 * b2 = d :=
  factorQuarticInner_exact_neg hq (quarticPhi_root hq) hneg hthr (sqrtExact_real _ (by linarith))

theorem factorQuarticInner_exact_zero_unconditional {a b c d : ℝ} {rescale : Bool} {phi : ℝ}
    (hq : quarticPhi a b c d rescale = some phi) (hD : ldlD1 a b phi = 0)
    (hd3 : d ≤ (ldlSelect a b c d phi).2.1 * (ldlSelect a b c d phi).2.1) :
    ∃ a1 b1 a2 b2, factorQuarticInner a b c d rescale = some ((a1, b1), (a2, b2)) ∧
      a1 + a2 = a ∧ b1 + a1 * a2 + b2 = b ∧ b1 * a2 + a1 * b2 = c ∧ b1 * b2 = d :=
  factorQuarticInner_exact_zero hq (quarticPhi_root hq) hD (sqrtExact_real _ (by linarith))

theorem factorQuarticInner_none_of_pos_unconditional {a b c d : ℝ} {rescale : Bool} {phi : ℝ}
    (hq : quarticPhi a b c d rescale = some phi)
    (hpos : 0 < ldlD1 a b phi) (hthr : ldlNoise a b phi < |ldlD1 a b phi|) :
    factorQuarticInner a b c d rescale = none ∧ solveQuarticInner a b c d rescale = none ∧
    ∀ x, x ^ 4 + a * x ^ 3 + b * x ^ 2 + c * x + d = 0 → x = -(ldlSelect a b c d phi).2.2.2 :=
  factorQuarticInner_none_of_pos hq (quarticPhi_root hq) hpos hthr

/-- the general case of `solve_quartic` over ℝ: `phi` is the value the code computes; with `d_2 < 0` above the noise threshold,
    or `d_2 = 0` and `d ≤ l_3²`, exactly the real roots are returned – no hypothesis on `depressed_cubic_dominant` -/
theorem solveQuartic_general_exact_real_unconditional (c0 c1 c2 c3 c4 : ℝ) (h4 : c4 ≠ 0) (h0 : c0 ≠ 0)
    (h31 : ¬ (c3 = 0 ∧ c1 = 0)) (phi : ℝ)
    (hq : quarticPhi (c3 / c4) (c2 / c4) (c1 / c4) (c0 / c4) false = some phi)
    (hcase : (ldlD1 (c3 / c4) (c2 / c4) phi < 0 ∧ ldlNoise (c3 / c4) (c2 / c4) phi < |ldlD1 (c3 / c4) (c2 / c4) phi|) ∨
      (ldlD1 (c3 / c4) (c2 / c4) phi = 0 ∧
        c0 / c4 ≤ (ldlSelect (c3 / c4) (c2 / c4) (c1 / c4) (c0 / c4) phi).2.1 * (ldlSelect (c3 / c4) (c2 / c4) (c1 / c4) (c0 / c4) phi).2.1)) :
    (solveQuartic c0 c1 c2 c3 c4).length ≤ 4 ∧
    ∀ x, x ∈ solveQuartic c0 c1 c2 c3 c4 ↔ c0 + c1 * x + c2 * x ^ 2 + c3 * x ^ 3 + c4 * x ^ 4 = 0 :=
  solveQuartic_general_exact_real c0 c1 c2 c3 c4 h4 h0 h31 phi hq (quarticPhi_root hq) hcase

/-- non-vacuity of the hypotheses: x⁴ − 4x³ + 6x² − 5x + 2 = (x² − x + 1)(x − 1)(x − 2); the resolvent is φ³ − 1, the code
    computes `phi = 1`, `d_2 = −1` -/
example : quarticPhi ((-4 : ℝ) / 1) (6 / 1) (-5 / 1) (2 / 1) false = some 1 ∧
    ldlD1 ((-4 : ℝ) / 1) (6 / 1) 1 < 0 ∧ ldlNoise ((-4 : ℝ) / 1) (6 / 1) 1 < |ldlD1 ((-4 : ℝ) / 1) (6 / 1) 1| := by
  refine ⟨?_, by unfold ldlD1; norm_num, by unfold ldlNoise ldlD1; norm_num⟩
  rw [quarticPhi_false]
  have hG : resolventG ((-4 : ℝ) / 1) (6 / 1) (-5 / 1) (2 / 1) = 0 := by unfold resolventG; norm_num
  have hH : resolventH ((-4 : ℝ) / 1) (6 / 1) (-5 / 1) (2 / 1) = -1 := by unfold resolventH; norm_num
  rw [hG, hH]
  have hr := depressedCubicDominant_root 0 (-1)
  generalize depressedCubicDominant (0 : ℝ) (-1) = x at hr
  have hfac : (x - 1) * (x ^ 2 + x + 1) = 0 := by linear_combination hr
  rcases mul_eq_zero.mp hfac with h1 | h1
  · rw [show x = 1 by linarith]
  · nlinarith [sq_nonneg (2 * x + 1)]

end real

-- the class assumptions are satisfiable: ℝ with Mathlib's functions
example : @LawfulScalar ℝ _ _ _ _ realScalar ∧ @LawfulReal realScalar ∧ @LawfulAcos realScalar :=
  ⟨realScalar_lawful, realScalar_lawfulReal, realScalar_lawfulAcos⟩

end Kurbo
