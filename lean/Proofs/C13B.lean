import Proofs.C13
import Proofs.Lemmas.C13BFrame
import Proofs.Lemmas.C13BClose
import Proofs.Lemmas.C13BTotal
import Proofs.Lemmas.C13BReal
/-! C13B – Dashing a CLOSED polyline sub-path `M p0 L q L q₁ … L qₖ Z`, end to end (extends `Proofs/C13.lean`, which does
    one OPEN sub-path).  Same setting: lawful `K`, `LawfulHypotSq K`, non-negative / positive pattern entries; everything is
    about the model `Kurbo/Dash.lean` as it is and conditional on `dash … = .ok out` (no fuel bound), except
    `dash_closed_short_returns`.  Specification side: `DashSpec.walk`/`walkList` of C13 over the PERIMETER
    `polyLens p0 (q :: (pts ++ [p0]))` = `|p0 q|, |q q₁|, …, |qₖ p0|`; when `qₖ = p0` the model adds no closing line and the
    last entry of that list is `0`, so both cases (`qₖ ≠ p0`, `qₖ = p0`) are covered by the same statements.
    `ph'` = the specification's pattern position at the closing point (`ph'.act` = "on at the closing point").
    Helper lemmas: `Proofs/Lemmas/C13BFrame.lean` (the `ClosePath` arm of `get_input`, frame lemmas for chains of `step`s,
    playback with a pending `ClosePath`), `C13BClose.lean` (the iterator followed to `handle_closepath`, from `Working` and
    from `ToStash`), `C13BTotal.lean` (one closed sub-path from "ready" to "ready": `c13b_closed_subpath`),
    `C13BReal.lean` (forward execution, witness over ℝ).

    PROVED
    * `dash_closed_conserves`, `dash_closed_spec_onlength`: the total stroke length of `out` (`drawnLen`: sum of the
      lengths of the `LineTo` strokes; `MoveTo` moves the pen; `ClosePath` counts as nothing) equals the on-length of the
      pattern, started at the position of the offset, over ONE straight stretch of the length of the perimeter; it lies in
      `[0, perimeter]`.
    * `dash_closed_join`: pattern on at the offset, first dash shorter than the perimeter: `out = E ++ N` if the pattern is
      on at the closing point – `E` ends with `LineTo p0`, `N` (the stashed first dash without its `MoveTo`) consists of
      `LineTo`s only, of total length `it.dash_remaining` from `p0` (the first dash): no `MoveTo` between the last dash and
      the first, one contour – and `out = E ++ MoveTo p0 :: N` if it is off there.  Pattern off at the offset and on at
      the closing point: `out` ends with `LineTo p0`.
    * `dash_closed_whole`: the whole sub-path inside the first dash: `out` is the whole sub-path, in order, `ClosePath` last:
      `M p0, L q, …, L qₖ, L p0, Z` when `qₖ ≠ p0` (the closing line is made explicit) and `M p0, L q, …, L qₖ, Z` – the
      input itself – when `qₖ = p0`; `dash_closed_whole_closePath_last`: in both cases `out = MoveTo p0 :: ls ++ [ClosePath]`
      with `ls` consisting of `LineTo`s only.  (Model of the crate after the repair 7127469 of `DashIterator::step`: the
      last piece of a segment is pushed to the stash BEFORE `get_input` appends the `ClosePath`; before that repair the
      `ClosePath` came before the last `LineTo`.  Checked on the model over `Rat` below.)
    * `dash_closed_phase_reset`: with arbitrary further input `rest` after the `ClosePath`, `collect()` passes through a
      state that is `NeedInput`, has `rest` as input, an empty stash, nothing pending, and the phase
      (`dash_ix`, `dash_remaining`, `is_active`) and `init_*` fields of the iterator that `dash_impl` built – having
      collected strokes of total length = the on-length so far.
    * `dash_two_closed_conserves`: consequence: two closed sub-paths in one path – the second is dashed like a first one
      (its on-length is computed from the SAME start position).
    * `dash_closed_short_returns`: `M p0 L q Z` inside the first dash: `dash` returns (unconditionally) `M p0 L q L p0 Z`.

    NOT PROVED
    * the arc-length interval of every single piece (as in C13): of `N` it is proved that it consists of `LineTo`s of total
      length `it.dash_remaining` starting at `p0`, of `E` its total length and its last element, not that the points of
      `N`/`E` are the path's vertices and switch points in order (per `step` this is `dash_step_line_switch` of C13);
    * that `dash` returns (`next_terminates`, a fuel/budget bound) beyond `dash_closed_short_returns`;
    * a closed sub-path preceded by an OPEN one, or followed by an open one (C13's open-path theorem needs the end of the
      input); only closed ∘ closed is assembled (`dash_two_closed_conserves`; `c13b_closed_subpath` is the reusable step);
    * curves; patterns with entries `≤ 0`; `Rat` is not a `LawfulHypotSq` instance, so the join cases are witnessed by
      evaluating the model over `Rat` (axis-parallel squares, `hypot` exact) and the hypotheses of the theorems over ℝ
      only by the short closed path `M (0,0) L (1,0) Z`, pattern [4] (`c13b_exReal_closed_ok`). -/
set_option linter.unusedSectionVars false
namespace Kurbo
open DashSpec
variable {K : Type} [Field K] [LinearOrder K] [IsStrictOrderedRing K] [FloorRing K] [Scalar K] [LawfulScalar K]

/-! ## 1. Conservation of on-length -/

/-- **`dash` on `M p0 L q L q₁ … L qₖ Z` conserves the on-length.**  `it` = the iterator `dash_impl` builds
    (`0 ≤ it.dash_remaining`: its `while` loop ended, `dash_impl_phase`), pattern non-negative; the specification walks the
    segment lengths of the perimeter (closing line included; its length is 0 when `qₖ = p0`) from the start position `it.ph`
    and covers the on-length `o`.  If `dash` returns `out`, the strokes of `out` have total length `o` (from whatever pen
    position), and `o` is the on-length of ONE straight stretch of the length of the perimeter. -/
theorem dash_closed_conserves [LawfulHypotSq K] (p0 q : Point K) (pts : List (Point K)) (off : K) (dashes : Array K)
    (budget : Nat) (it : DashIt K)
    (hit : dashImpl (.MoveTo p0 :: .LineTo q :: (pts.map .LineTo ++ [.ClosePath])) off dashes = some it)
    (hn : 0 < dashes.size) (h0 : 0 ≤ it.dash_remaining) (hpat : ∀ i, 0 ≤ cyc dashes i)
    (f : Nat) (o : K) (ph' : Ph K)
    (hw : walkList dashes.size (cyc dashes) f it.ph (polyLens p0 (q :: (pts ++ [p0]))) = some (o, ph'))
    (out : List (PathEl K))
    (hout : dash (.MoveTo p0 :: .LineTo q :: (pts.map .LineTo ++ [.ClosePath])) off dashes budget = .ok out) :
    (∀ pen, drawnLen pen out = o) ∧
    walk dashes.size (cyc dashes) (f * (pts.length + 2)) it.ph (polyLens p0 (q :: (pts ++ [p0]))).sum = some (o, ph') := by
  refine ⟨(c13b_dash_closed_out p0 q pts off dashes budget it hit hn h0 hpat f o ph' hw out hout).1, ?_⟩
  have := walkList_eq_walk dashes.size (cyc dashes) f (polyLens q (pts ++ [p0])) ((Line.mk p0 q).arclen 0) it.ph ph' o
    (polyLens_nonneg _ _) hw
  rw [polyLens_length, List.length_append, List.length_singleton] at this
  simpa [polyLens] using this

/-- **The same with the natural hypotheses only**: a non-empty pattern of positive entries, `steps` = the first entry of the
    repeated pattern that ends at or after the offset (`dash_impl_phase_exists`), and `dash` returned `out`: the strokes of
    `out` have total length = the on-length, over one straight stretch of the length of the perimeter, of the pattern started
    at the position of the offset; it lies between `0` and the perimeter. -/
theorem dash_closed_spec_onlength [LawfulHypotSq K] (p0 q : Point K) (pts : List (Point K)) (off : K)
    (dashes : Array K) (budget : Nat) (hn : 0 < dashes.size) (hpos : ∀ i, (h : i < dashes.size) → 0 < dashes[i])
    (steps : Nat) (hf : steps ≤ 100000) (hmin : ∀ k < steps, prefixSum dashes k < off)
    (hlast : off ≤ prefixSum dashes steps) (out : List (PathEl K))
    (hout : dash (.MoveTo p0 :: .LineTo q :: (pts.map .LineTo ++ [.ClosePath])) off dashes budget = .ok out) :
    ∃ (f : Nat) (o : K) (ph' : Ph K),
      walk dashes.size (cyc dashes) f ⟨steps % dashes.size, prefixSum dashes steps - off, decide (steps % 2 = 0)⟩
        (polyLens p0 (q :: (pts ++ [p0]))).sum = some (o, ph') ∧
      (∀ pen, drawnLen pen out = o) ∧ 0 ≤ o ∧ o ≤ (polyLens p0 (q :: (pts ++ [p0]))).sum := by
  obtain ⟨it, hit, e1, e2, e3, e4, -, -⟩ :=
    dash_impl_phase (.MoveTo p0 :: .LineTo q :: (pts.map .LineTo ++ [.ClosePath])) dashes hn off steps 100000 hf hmin hlast
  obtain ⟨m, hm0, hm⟩ := exists_pos_lower_bound dashes hn hpos
  have hpat : ∀ i, 0 ≤ cyc dashes i := fun i => le_trans hm0.le (hm i)
  have hnn := polyLens_nonneg p0 (q :: (pts ++ [p0]))
  obtain ⟨k, hk⟩ := Archimedean.arch (polyLens p0 (q :: (pts ++ [p0]))).sum hm0
  have hlen : ∀ l ∈ polyLens p0 (q :: (pts ++ [p0])), 0 ≤ l ∧ l ≤ ((k + 1 : Nat) : K) * m := by
    intro l hl
    refine ⟨hnn l hl, ?_⟩
    have h1 := List.single_le_sum hnn l hl
    rw [nsmul_eq_mul] at hk
    push_cast
    nlinarith
  obtain ⟨⟨o, ph'⟩, hw⟩ := walkList_terminates dashes.size (cyc dashes) m hm0.le hm k (polyLens p0 (q :: (pts ++ [p0])))
    it.ph e3 hlen
  obtain ⟨c1, c2⟩ := dash_closed_conserves p0 q pts off dashes budget it hit hn e3 hpat (k + 2) o ph' hw out hout
  have hph : it.ph = ⟨steps % dashes.size, prefixSum dashes steps - off, decide (steps % 2 = 0)⟩ := by
    unfold DashIt.ph; rw [e1, e2, e4]
  rw [hph] at c2
  have hb := walk_bounds dashes.size (cyc dashes) hpat _ _ ph' _ o
    (by show 0 ≤ prefixSum dashes steps - off; rw [← e2]; exact e3) (List.sum_nonneg hnn) c2
  exact ⟨_, o, ph', c2, c1, hb.1, hb.2.1⟩
/-- the hypotheses are satisfiable over ℝ (`c13b_exReal_closed_ok`: `M (0,0) L (1,0) Z`, pattern [4], offset 0, `steps = 0`;
    `dash` does return there, `dash_closed_short_returns`); the extra hypotheses of `dash_closed_conserves`,
    `dash_closed_join`, `dash_closed_whole` (`dashImpl … = some it`, `0 ≤ it.dash_remaining`, the specification's walk) are
    derived from these inside the proof above -/
example : ∃ (_ : Scalar ℝ) (_ : LawfulScalar ℝ) (_ : LawfulHypotSq ℝ) (p0 q : Point ℝ) (pts : List (Point ℝ)) (off : ℝ)
    (dashes : Array ℝ) (budget steps : Nat) (out : List (PathEl ℝ)),
    0 < dashes.size ∧ (∀ i, (h : i < dashes.size) → 0 < dashes[i]) ∧ steps ≤ 100000 ∧
    (∀ k < steps, prefixSum dashes k < off) ∧ off ≤ prefixSum dashes steps ∧
    dash (.MoveTo p0 :: .LineTo q :: (pts.map .LineTo ++ [.ClosePath])) off dashes budget = .ok out := by
  obtain ⟨i1, i2, i3, h1, h2, h3, h4⟩ := c13b_exReal_closed_ok
  exact ⟨i1, i2, i3, ⟨0, 0⟩, ⟨1, 0⟩, [], 0, #[4], 10, 0, _, by decide, h2, by omega, h3, h4, h1⟩
/-- the model on such input over `Rat`: unit square, pattern [3,1], offset 0 (`steps = 0`, on-length 3 of perimeter 4; the
    dash ends exactly at the corner (0,1), which yields a zero-length `LineTo`) -/
example : (∀ i, (h : i < (#[3, 1] : Array Rat).size) → 0 < (#[3, 1] : Array Rat)[i]) ∧
    (0 : Rat) ≤ prefixSum #[3, 1] 0 ∧
    walk 2 (cyc (#[3, 1] : Array Rat)) 3 ⟨0, 3, true⟩ 4 = some (3, ⟨1, 0, false⟩) ∧
    (dash [.MoveTo ⟨0, 0⟩, .LineTo ⟨1, 0⟩, .LineTo ⟨1, 1⟩, .LineTo ⟨0, 1⟩, .ClosePath] (0 : Rat) #[3, 1]).okList =
      some [.MoveTo ⟨0, 0⟩, .LineTo ⟨1, 0⟩, .LineTo ⟨1, 1⟩, .LineTo ⟨0, 1⟩, .LineTo ⟨0, 1⟩] := by
  decide +kernel

/-! ## 2. The join at the closing point -/

/-- **Join.**  Hypotheses as in `dash_closed_conserves`.
    * Pattern ON at the offset (`it.is_active`): there are `N` (what the first dash put on the stash after its `MoveTo p0`)
      and `E` (what was emitted after the first dash) with `length(N from p0) + length(E) = o`; if the first dash is shorter
      than the perimeter, `N` consists of `LineTo`s only, of total length `it.dash_remaining` (the first dash), and
      - pattern ON at the closing point: `out = E ++ N` and `E` ends with `LineTo p0`: the last dash runs through `p0` into
        the first dash, NO `MoveTo` in between (the stash is replayed from index 1);
      - pattern OFF at the closing point: `out = E ++ MoveTo p0 :: N` (the stash is replayed with its `MoveTo`).
    * Pattern OFF at the offset and ON at the closing point: `out` ends with `LineTo p0`. -/
theorem dash_closed_join [LawfulHypotSq K] (p0 q : Point K) (pts : List (Point K)) (off : K) (dashes : Array K)
    (budget : Nat) (it : DashIt K)
    (hit : dashImpl (.MoveTo p0 :: .LineTo q :: (pts.map .LineTo ++ [.ClosePath])) off dashes = some it)
    (hn : 0 < dashes.size) (h0 : 0 ≤ it.dash_remaining) (hpat : ∀ i, 0 ≤ cyc dashes i)
    (f : Nat) (o : K) (ph' : Ph K)
    (hw : walkList dashes.size (cyc dashes) f it.ph (polyLens p0 (q :: (pts ++ [p0]))) = some (o, ph'))
    (out : List (PathEl K))
    (hout : dash (.MoveTo p0 :: .LineTo q :: (pts.map .LineTo ++ [.ClosePath])) off dashes budget = .ok out) :
    (it.is_active = true → ∃ N E, (∀ pen, drawnLen p0 N + drawnLen pen E = o) ∧
      (it.dash_remaining < (polyLens p0 (q :: (pts ++ [p0]))).sum →
        (∀ el ∈ N, ∃ p, el = PathEl.LineTo p) ∧
        (ph'.act = true → out = E ++ N ∧ ∃ E', E = E' ++ [.LineTo p0]) ∧
        (ph'.act = false → out = E ++ .MoveTo p0 :: N) ∧ drawnLen p0 N = it.dash_remaining)) ∧
    (it.is_active = false → ph'.act = true → ∃ E', out = E' ++ [.LineTo p0]) := by
  obtain ⟨-, c2, c3⟩ := c13b_dash_closed_out p0 q pts off dashes budget it hit hn h0 hpat f o ph' hw out hout
  refine ⟨fun ha => ?_, c2⟩
  obtain ⟨N, E, d1, d2, -⟩ := c3 ha
  refine ⟨N, E, d1, fun hlt => ?_⟩
  obtain ⟨e1, e2, e3, e4⟩ := d2 hlt
  exact ⟨e1, fun hp => ⟨(e2 hp).1, (e2 hp).2.2⟩, e3, e4⟩
/-- the model over `Rat`, unit square.  Pattern [1,2], offset 0: on [0,1] and [3,4]: ON at the offset and at the closing
    point – joined: one contour (0,1)–(0,0)–(1,0), no `MoveTo` at (0,0).  Offset 1/2: on [0,1/2] and [5/2,7/2], OFF at the
    closing point: the first dash comes back with its `MoveTo (0,0)`.  Offset 3/2 (`steps = 1`): OFF at the offset. -/
example : (dash [.MoveTo ⟨0, 0⟩, .LineTo ⟨1, 0⟩, .LineTo ⟨1, 1⟩, .LineTo ⟨0, 1⟩, .ClosePath] (0 : Rat) #[1, 2]).okList =
      some [.MoveTo ⟨0, 1⟩, .LineTo ⟨0, 0⟩, .LineTo ⟨1, 0⟩, .LineTo ⟨1, 0⟩] ∧
    (dash [.MoveTo ⟨0, 0⟩, .LineTo ⟨1, 0⟩, .LineTo ⟨1, 1⟩, .LineTo ⟨0, 1⟩, .ClosePath] (1 / 2 : Rat) #[1, 2]).okList =
      some [.MoveTo ⟨1 / 2, 1⟩, .LineTo ⟨0, 1⟩, .LineTo ⟨0, 1 / 2⟩, .MoveTo ⟨0, 0⟩, .LineTo ⟨1 / 2, 0⟩] ∧
    (dash [.MoveTo ⟨0, 0⟩, .LineTo ⟨1, 0⟩, .LineTo ⟨1, 1⟩, .LineTo ⟨0, 1⟩, .ClosePath] (3 / 2 : Rat) #[1, 2]).okList =
      some [.MoveTo ⟨1, 1 / 2⟩, .LineTo ⟨1, 1⟩, .LineTo ⟨1 / 2, 1⟩] ∧
    (dashImpl ([] : List (PathEl Rat)) 0 #[1, 2]).map (fun it => (it.is_active, decide (it.dash_remaining < 4)))
      = some (true, true) ∧
    walk 2 (cyc (#[1, 2] : Array Rat)) 3 ⟨0, 1, true⟩ 4 = some (2, ⟨0, 0, true⟩) ∧
    walk 2 (cyc (#[1, 2] : Array Rat)) 4 ⟨0, 1 / 2, true⟩ 4 = some (3 / 2, ⟨1, 3 / 2, false⟩) := by
  decide +kernel

/-- **The whole sub-path inside the first dash** (pattern on at the offset, first dash not shorter than the perimeter): the
    output is the whole closed contour in order, `ClosePath` last:
    `M p0, L q, …, L qₖ, L p0, Z` if `qₖ ≠ p0` (with the closing line), and `M p0, L q, …, L qₖ, Z` (the input) if `qₖ = p0`. -/
theorem dash_closed_whole [LawfulHypotSq K] (p0 q : Point K) (pts : List (Point K)) (off : K) (dashes : Array K)
    (budget : Nat) (it : DashIt K)
    (hit : dashImpl (.MoveTo p0 :: .LineTo q :: (pts.map .LineTo ++ [.ClosePath])) off dashes = some it)
    (hn : 0 < dashes.size) (h0 : 0 ≤ it.dash_remaining) (hpat : ∀ i, 0 ≤ cyc dashes i)
    (f : Nat) (o : K) (ph' : Ph K)
    (hw : walkList dashes.size (cyc dashes) f it.ph (polyLens p0 (q :: (pts ++ [p0]))) = some (o, ph'))
    (out : List (PathEl K))
    (hout : dash (.MoveTo p0 :: .LineTo q :: (pts.map .LineTo ++ [.ClosePath])) off dashes budget = .ok out)
    (hact : it.is_active = true) (hge : ¬ it.dash_remaining < (polyLens p0 (q :: (pts ++ [p0]))).sum) :
    ((q :: pts).getLast (List.cons_ne_nil q pts) ≠ p0 →
      out = .MoveTo p0 :: ((q :: pts).map .LineTo ++ [.LineTo p0, .ClosePath])) ∧
    ((q :: pts).getLast (List.cons_ne_nil q pts) = p0 →
      out = .MoveTo p0 :: ((q :: pts).map .LineTo ++ [.ClosePath])) := by
  obtain ⟨-, -, c3⟩ := c13b_dash_closed_out p0 q pts off dashes budget it hit hn h0 hpat f o ph' hw out hout
  obtain ⟨N, E, -, -, d3⟩ := c3 hact
  obtain ⟨-, e2, e3⟩ := d3 hge
  rw [e3, e2]
  constructor
  · intro h
    rw [c13b_wholeN_ne p0 q pts (by rw [c13b_lastPt_eq_getLast]; exact h)]
  · intro h
    rw [c13b_wholeN_eq p0 q pts (by rw [c13b_lastPt_eq_getLast]; exact h)]
/-- the model over `Rat`: unit square inside the dash of pattern [5,1] (also with the perimeter exactly: [4,1]); the same
    with an explicit last `LineTo (0,0)` (`qₖ = p0`): the output is the input -/
example : (dash [.MoveTo ⟨0, 0⟩, .LineTo ⟨1, 0⟩, .LineTo ⟨1, 1⟩, .LineTo ⟨0, 1⟩, .ClosePath] (0 : Rat) #[5, 1]).okList =
      some [.MoveTo ⟨0, 0⟩, .LineTo ⟨1, 0⟩, .LineTo ⟨1, 1⟩, .LineTo ⟨0, 1⟩, .LineTo ⟨0, 0⟩, .ClosePath] ∧
    (dash [.MoveTo ⟨0, 0⟩, .LineTo ⟨1, 0⟩, .LineTo ⟨1, 1⟩, .LineTo ⟨0, 1⟩, .ClosePath] (0 : Rat) #[4, 1]).okList =
      some [.MoveTo ⟨0, 0⟩, .LineTo ⟨1, 0⟩, .LineTo ⟨1, 1⟩, .LineTo ⟨0, 1⟩, .LineTo ⟨0, 0⟩, .ClosePath] ∧
    (dash [.MoveTo ⟨0, 0⟩, .LineTo ⟨1, 0⟩, .LineTo ⟨1, 1⟩, .LineTo ⟨0, 1⟩, .LineTo ⟨0, 0⟩, .ClosePath] (0 : Rat)
        #[5, 1]).okList =
      some [.MoveTo ⟨0, 0⟩, .LineTo ⟨1, 0⟩, .LineTo ⟨1, 1⟩, .LineTo ⟨0, 1⟩, .LineTo ⟨0, 0⟩, .ClosePath] ∧
    (dashImpl ([] : List (PathEl Rat)) 0 #[5, 1]).map (fun it => (it.is_active, decide (it.dash_remaining < 4)))
      = some (true, false) := by
  decide +kernel

/-- **… without case distinction**: the output is `MoveTo p0`, then `LineTo`s only, then the `ClosePath` – one closed
    contour, `ClosePath` LAST (so a consumer draws every stroke from the end of the previous one); the strokes have the total
    length `o` of `dash_closed_conserves`. -/
theorem dash_closed_whole_closePath_last [LawfulHypotSq K] (p0 q : Point K) (pts : List (Point K)) (off : K)
    (dashes : Array K) (budget : Nat) (it : DashIt K)
    (hit : dashImpl (.MoveTo p0 :: .LineTo q :: (pts.map .LineTo ++ [.ClosePath])) off dashes = some it)
    (hn : 0 < dashes.size) (h0 : 0 ≤ it.dash_remaining) (hpat : ∀ i, 0 ≤ cyc dashes i)
    (f : Nat) (o : K) (ph' : Ph K)
    (hw : walkList dashes.size (cyc dashes) f it.ph (polyLens p0 (q :: (pts ++ [p0]))) = some (o, ph'))
    (out : List (PathEl K))
    (hout : dash (.MoveTo p0 :: .LineTo q :: (pts.map .LineTo ++ [.ClosePath])) off dashes budget = .ok out)
    (hact : it.is_active = true) (hge : ¬ it.dash_remaining < (polyLens p0 (q :: (pts ++ [p0]))).sum) :
    ∃ ls : List (Point K), out = .MoveTo p0 :: (ls.map .LineTo ++ [.ClosePath]) ∧
      (∀ pen, drawnLen pen out = o) ∧
      (ls = q :: pts ∨ ls = (q :: pts) ++ [p0]) := by
  obtain ⟨h1, h2⟩ := dash_closed_whole p0 q pts off dashes budget it hit hn h0 hpat f o ph' hw out hout hact hge
  have hlen := (dash_closed_conserves p0 q pts off dashes budget it hit hn h0 hpat f o ph' hw out hout).1
  by_cases h : (q :: pts).getLast (List.cons_ne_nil q pts) = p0
  · exact ⟨q :: pts, h2 h, hlen, Or.inl rfl⟩
  · refine ⟨(q :: pts) ++ [p0], ?_, hlen, Or.inr rfl⟩
    rw [h1 h]
    simp
-- (hypotheses: those of `dash_closed_whole`; the witnesses above – `c13b_exReal_closed_ok` over ℝ and the `Rat` evaluations – apply)
/-- `M p0 L q Z` (`q ≠ p0`) inside the first dash: `dash` does return, for every lawful scalar (no fuel or budget
    problem), namely `M p0, L q, L p0, Z`. -/
theorem dash_closed_short_returns (p0 q : Point K) (off : K) (dashes : Array K) (budget : Nat) (it : DashIt K)
    (hit : dashImpl [.MoveTo p0, .LineTo q, .ClosePath] off dashes = some it) (hn : 0 < dashes.size) (hne : q ≠ p0)
    (hact : it.is_active = true) (hge1 : ¬ it.dash_remaining < (Line.mk p0 q).arclen 0)
    (hge2 : ¬ it.dash_remaining - (Line.mk p0 q).arclen 0 < (Line.mk q p0).arclen 0) (hb : 5 ≤ budget) :
    dash [.MoveTo p0, .LineTo q, .ClosePath] off dashes budget = .ok [.MoveTo p0, .LineTo q, .LineTo p0, .ClosePath] :=
  c13b_dash_closed_short p0 q off dashes budget it hit hn hne hact hge1 hge2 hb
example : (dashImpl [.MoveTo ⟨0, 0⟩, .LineTo ⟨1, 0⟩, .ClosePath] (0 : Rat) #[4]).map
      (fun it => (it.is_active, decide (it.dash_remaining < (Line.mk (⟨0, 0⟩ : Point Rat) ⟨1, 0⟩).arclen 0),
        decide (it.dash_remaining - (Line.mk (⟨0, 0⟩ : Point Rat) ⟨1, 0⟩).arclen 0
          < (Line.mk (⟨1, 0⟩ : Point Rat) ⟨0, 0⟩).arclen 0)))
    = some (true, false, false) ∧ (⟨1, 0⟩ : Point Rat) ≠ ⟨0, 0⟩ := by decide +kernel

/-! ## 3. The phase after a closed sub-path -/

/-- **Phase reset.**  Input `M p0 L q … L qₖ Z` followed by arbitrary `rest`.  If `dash` returns `out`, then `collect()`
    (`collectFrom`: `collect()` seen from inside a `next` call, `Proofs/Lemmas/C13Open.lean`) passes through a state `sE`,
    having collected `O` (strokes of total length `o`), such that `sE` is in state `NeedInput` with `rest` as remaining
    input, an empty stash, no pending `ClosePath`, and the SAME phase and `init_*` fields as the iterator `it` that
    `dash_impl` built: `sE` differs from `{ it with inner := rest }` only in `current_seg`, `t`, `seg_remaining`,
    `start_pt`, `last_pt`, which the next `MoveTo`/segment overwrites – a following sub-path is dashed like a first one. -/
theorem dash_closed_phase_reset [LawfulHypotSq K] (p0 q : Point K) (pts : List (Point K)) (rest : List (PathEl K))
    (off : K) (dashes : Array K) (budget : Nat) (it : DashIt K)
    (hit : dashImpl (.MoveTo p0 :: .LineTo q :: (pts.map .LineTo ++ .ClosePath :: rest)) off dashes = some it)
    (hn : 0 < dashes.size) (h0 : 0 ≤ it.dash_remaining) (hpat : ∀ i, 0 ≤ cyc dashes i)
    (f : Nat) (o : K) (ph' : Ph K)
    (hw : walkList dashes.size (cyc dashes) f it.ph (polyLens p0 (q :: (pts ++ [p0]))) = some (o, ph'))
    (out : List (PathEl K))
    (hout : dash (.MoveTo p0 :: .LineTo q :: (pts.map .LineTo ++ .ClosePath :: rest)) off dashes budget = .ok out) :
    ∃ n fuel sE O, collectFrom n fuel sE O.reverse = .ok out ∧ (∀ pen, drawnLen pen O = o) ∧
      sE.inner = rest ∧ sE.state = .NeedInput ∧ sE.stash = #[] ∧ sE.stash_ix = 0 ∧ sE.closepath_pending = false ∧
      sE.input_done = false ∧
      sE.dash_ix = it.dash_ix ∧ sE.dash_remaining = it.dash_remaining ∧ sE.is_active = it.is_active ∧
      sE.dashes = it.dashes ∧ sE.init_dash_ix = it.init_dash_ix ∧ sE.init_dash_remaining = it.init_dash_remaining ∧
      sE.init_is_active = it.init_is_active := by
  obtain ⟨n, fuel, sE, O, c1, c2, c3, c4, c5, c6, -, -⟩ :=
    c13b_dash_closed_reach p0 q pts rest off dashes budget it hit hn h0 hpat f o ph' hw out hout
  obtain ⟨-, -, -, -, r5⟩ := c13b_dashImpl_ready _ off dashes it hit hn h0
  exact ⟨n, fuel, sE, O, c1, c6, c3, c2.state, c2.stash, c2.stash_ix, c2.cp, c2.done,
    c5.1.trans (c4.2.1.trans r5.1.symm), c5.2.1.trans (c4.2.2.1.trans r5.2.1.symm),
    c5.2.2.trans (c4.2.2.2.trans r5.2.2.symm), c4.1, c4.2.1, c4.2.2.1, c4.2.2.2⟩

/-- **Two closed sub-paths in one path.**  The second one is dashed like a first one: the total stroke length of `out` is
    the on-length of the first perimeter plus the on-length of the second, BOTH computed from the same start position
    `it.ph` (the pattern restarts after the `ClosePath`). -/
theorem dash_two_closed_conserves [LawfulHypotSq K] (p0 q : Point K) (pts : List (Point K)) (p0' q' : Point K)
    (pts' : List (Point K)) (off : K) (dashes : Array K) (budget : Nat) (it : DashIt K)
    (hit : dashImpl (.MoveTo p0 :: .LineTo q :: (pts.map .LineTo ++ .ClosePath ::
      (.MoveTo p0' :: .LineTo q' :: (pts'.map .LineTo ++ [.ClosePath])))) off dashes = some it)
    (hn : 0 < dashes.size) (h0 : 0 ≤ it.dash_remaining) (hpat : ∀ i, 0 ≤ cyc dashes i)
    (f : Nat) (o : K) (ph' : Ph K)
    (hw : walkList dashes.size (cyc dashes) f it.ph (polyLens p0 (q :: (pts ++ [p0]))) = some (o, ph'))
    (f₂ : Nat) (o₂ : K) (ph₂ : Ph K)
    (hw₂ : walkList dashes.size (cyc dashes) f₂ it.ph (polyLens p0' (q' :: (pts' ++ [p0']))) = some (o₂, ph₂))
    (out : List (PathEl K))
    (hout : dash (.MoveTo p0 :: .LineTo q :: (pts.map .LineTo ++ .ClosePath ::
      (.MoveTo p0' :: .LineTo q' :: (pts'.map .LineTo ++ [.ClosePath])))) off dashes budget = .ok out) :
    ∀ pen, drawnLen pen out = o + o₂ := by
  obtain ⟨n, fuel, sE, O, c1, c2, c3, c4, -, c6, -, -⟩ :=
    c13b_dash_closed_reach p0 q pts _ off dashes budget it hit hn h0 hpat f o ph' hw out hout
  obtain ⟨-, -, r3, r4, -⟩ := c13b_dashImpl_ready _ off dashes it hit hn h0
  have hd : sE.dashes = dashes := c4.1.trans r3
  have hph : sE.c13b_initPh = it.ph := by
    rw [← r4]
    unfold DashIt.c13b_initPh
    rw [c4.2.1, c4.2.2.1, c4.2.2.2]
  obtain ⟨n₂, fuel₂, sE₂, O₂, d1, d2, d3, -, -, d6, -, -⟩ := c13b_closed_subpath p0' q' pts' [] sE c2 c3
    (by rw [hd]; exact hpat) f₂ o₂ ph₂ (by rw [hd, hph]; exact hw₂) n fuel O.reverse out c1
  have := c13b_collect_end sE₂ n₂ fuel₂ _ out d2.state d2.done d2.cp d3 d1
  rw [List.reverse_append, List.reverse_reverse, List.reverse_reverse] at this
  intro pen
  rw [this, drawnLen_append, c6, d6]
/-- the model over `Rat`: two unit squares, pattern [1,2]: the second square comes out exactly like the first
    (on-length 2 + 2; each joined at its start point) -/
example : (dash [.MoveTo ⟨0, 0⟩, .LineTo ⟨1, 0⟩, .LineTo ⟨1, 1⟩, .LineTo ⟨0, 1⟩, .ClosePath,
      .MoveTo ⟨2, 0⟩, .LineTo ⟨3, 0⟩, .LineTo ⟨3, 1⟩, .LineTo ⟨2, 1⟩, .ClosePath] (0 : Rat) #[1, 2]).okList =
    some [.MoveTo ⟨0, 1⟩, .LineTo ⟨0, 0⟩, .LineTo ⟨1, 0⟩, .LineTo ⟨1, 0⟩,
          .MoveTo ⟨2, 1⟩, .LineTo ⟨2, 0⟩, .LineTo ⟨3, 0⟩, .LineTo ⟨3, 0⟩] := by decide +kernel

end Kurbo
