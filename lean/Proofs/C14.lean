import Kurbo.Arclen
import Kurbo.Dash
import Proofs.C15
import Proofs.C17
import Proofs.C16
/-! # C14 – core algorithms terminate after a bounded amount of work

What a theorem can carry for this property is the *bookkeeping* of the loops: how often a loop body runs, how deep a recursion
goes, how long an output is, and that the fuel arguments of the hand-written models are never what ends a loop (so that the fuel
cannot hide non-termination of the Rust loop).  NaN freedom of the stroker and the termination of `fit_to_bezpath_rec`, which
uses floating-point granularity (`t == start || t == end`), are decided by the budgeted replay on the crate built with the work
counters (`--cfg kurbo_verif`), see DESIGN.md; the cost model `arclenRecCalls` below is tied to that counter by correspondence
(op `cubic.arclen_work`). -/
set_option linter.unusedSectionVars false
namespace Kurbo

section structural
open Ops
variable {K : Type} [Scalar K]

/-- `arclen_rec` is activated at most `2^(fuel+1) − 1` times: the `depth >= 20` guard bounds the binary recursion, whatever the
    error estimates are (also NaN: every comparison is then false and the recursion goes to full depth – but not further) -/
theorem arclenRecCalls_le (fuel : Nat) (c : CubicBez K) (acc : K) : arclenRecCalls fuel c acc + 1 ≤ 2 ^ (fuel + 1) := by
  induction fuel generalizing c acc with
  | zero => unfold arclenRecCalls; simp only []; split_ifs <;> simp
  | succ n ih =>
    unfold arclenRecCalls; simp only []
    have h2 : 2 ≤ 2 ^ (n + 1 + 1) := by
      calc 2 = 2 ^ 1 := rfl
        _ ≤ 2 ^ (n + 1 + 1) := Nat.pow_le_pow_right (by norm_num) (by omega)
    split_ifs
    · omega
    · omega
    · omega
    · have h1 := ih c.subdivide.1 (acc * (Scalar.ofRat (1/2) : K))
      have h3 := ih c.subdivide.2 (acc * (Scalar.ofRat (1/2) : K))
      have : 2 ^ (n + 1 + 1) = 2 * 2 ^ (n + 1) := by rw [pow_succ]; ring
      omega

/-- `CubicBez::arclen`: at most `2^21 − 1 = 2097151` activations – below the replay budget of `10^7` -/
theorem cubic_arclen_work_bounded (c : CubicBez K) (acc : K) : c.arclenCalls acc ≤ 2097151 := by
  have := arclenRecCalls_le 20 c acc
  unfold CubicBez.arclenCalls; norm_num at this; omega

/-- the first two quadrature rules end the recursion at once -/
theorem arclenRecCalls_leaf (fuel : Nat) (c : CubicBez K) (acc : K)
    (h : ((smin (spowi (arclenEst c).2.2.2.1 3 * (Scalar.ofRat (25/10000000) : K)) (Scalar.ofRat (3/100) : K) * (arclenEst c).2.2.2.2) <. acc) = true) :
    arclenRecCalls fuel c acc = 1 := by
  unfold arclenRecCalls; simp only []; rw [if_pos h]

/-- bounded output of the solvers (re-export of the C15 theorems): at most 2 / 3 roots -/
theorem solvers_output_bounded (c0 c1 c2 c3 : K) :
    (solveQuadratic c0 c1 c2).length ≤ 2 ∧ (solveCubic c0 c1 c2 c3).length ≤ 3 :=
  ⟨solveQuadratic_length_le c0 c1 c2, solveCubic_length_le c0 c1 c2 c3⟩

/-- `to_quads` yields exactly `toQuadsN` pieces (the iterator is finite by construction; `toQuadsN` is a `usize`) -/
theorem toQuads_output_bounded (c : CubicBez K) (a : K) : (c.to_quads a).length = toQuadsN c a := (toQuads_length c a).1

/-- `dash_impl` panics exactly on the empty pattern (index `dashes[0]`), never elsewhere in the initial phase loop -/
theorem dashInitLoop_no_panic (dashes : Array K) (h : 0 < dashes.size) (fuel ix : Nat) (rem : K) (act : Bool) :
    dashInitLoop dashes fuel ix rem act ≠ none := by
  induction fuel generalizing ix rem act with
  | zero => simp [dashInitLoop]
  | succ n ih =>
    unfold dashInitLoop
    split_ifs
    · have hlt : (ix + 1) % dashes.size < dashes.size := Nat.mod_lt _ h
      simp only [dashAt, Array.getElem?_eq_getElem hlt]
      exact ih _ _ _
    · simp

theorem dashImpl_panics_iff_empty (inner : List (PathEl K)) (off : K) (dashes : Array K) (fuel : Nat) :
    dashImpl inner off dashes fuel = none ↔ dashes.size = 0 := by
  unfold dashImpl
  constructor
  · intro h
    by_contra hne
    have hpos : 0 < dashes.size := Nat.pos_of_ne_zero hne
    simp only [dashAt, Array.getElem?_eq_getElem hpos] at h
    have := dashInitLoop_no_panic dashes hpos fuel 0 (dashes[0] - off) true
    split at h
    · exact this (by assumption)
    · cases h
  · intro h
    have : dashes[0]? = none := by simp [h]
    simp [dashAt, this]

/-- `BezPath::from_svg` never panics and its loop always ends: the model parser (bit-identical to the crate on every corpus
    string) never reaches the `panic` outcome, which also stands for fuel exhaustion of `svgLoop` (fuel `len + 1`) – every loop
    iteration consumes at least one byte (C16 `loop_iteration_progress`) -/
theorem svg_parse_total (data : ByteArray) : fromSvgBytes (K := K) data ≠ .panic := from_svg_total data

/-- more fuel than `len + 1` changes nothing: the fuel is not what ends the parser loop -/
theorem svg_parse_fuel_irrelevant (f1 f2 : Nat) (st : SvgSt K) (l : Lx) (hwf : l.ix ≤ l.data.size) (hinv : st.Inv)
    (h1 : l.data.size - l.ix < f1) (h2 : l.data.size - l.ix < f2) : svgLoop f1 st l = svgLoop f2 st l :=
  svgLoop_fuel_irrelevant f1 f2 st l hwf hinv h1 h2

end structural

section lawful
variable {K : Type} [Field K] [LinearOrder K] [IsStrictOrderedRing K] [FloorRing K] [Scalar K] [LawfulScalar K]

/-- the ITP loop body runs at most `n + 1` times (re-export of C15 `itp_iterations`; `n = nmax` in `solve_itp`): fuel beyond
    that is never consumed, so the fuel of the model is not what ends the loop -/
theorem itp_work_bounded (f : K → K) (ε k1 : K) (hk : 0 ≤ k1) (fuel n : Nat) (st : ItpSt K) (hI : ItpInv f st)
    (hse : st.scaled_epsilon = ε * 2 ^ n) (hw : st.b - st.a ≤ 2 * st.scaled_epsilon) (hn : n < fuel) :
    itpLoop f ε k1 fuel st = itpLoop f ε k1 (n + 1) st := itp_iterations f ε k1 hk fuel n st hI hse hw hn

/-- `fit_inside` (cubic → quadratic spline containment test): more fuel never changes a positive answer -/
theorem fitInside_fuel_irrelevant (c : CubicBez K) (d : K) (fuel fuel' : Nat) (hle : fuel ≤ fuel')
    (h : c.fit_inside d fuel = true) : c.fit_inside d fuel' = true := fitInside_fuel_mono c d fuel fuel' hle h

end lawful

-- non-vacuity: a cubic whose arc length needs subdivision, evaluated in exact rationals
example : (⟨⟨0, 0⟩, ⟨0, 100⟩, ⟨100, -100⟩, ⟨100, 0⟩⟩ : CubicBez Rat).arclenCalls (1 / 1000000000) > 1 := by decide +kernel

end Kurbo
