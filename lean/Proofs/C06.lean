import Proofs.KDefs
import Proofs.Lemmas.Calc
/-! C06 – evaluation, sub-segments, subdivision, derivative, reversal and degree raising agree.
    Every statement is a polynomial identity over an arbitrary lawful scalar `K` (ℚ, ℝ, …): it holds for
    all control points and all parameters, with no ordering assumption on `t0, t1`.
    Only property theorems live here (helper lemmas: `Proofs/KDefs.lean`). -/
set_option linter.unusedSectionVars false
namespace Kurbo
variable {K : Type} [Field K] [LinearOrder K] [IsStrictOrderedRing K] [FloorRing K] [Scalar K] [LawfulScalar K]

/-! ### start / end are the stored points; eval 0 / eval 1 agree with them -/

theorem line_start_end (l : Line K) : l.start = l.p0 ∧ l.end = l.p1 := ⟨rfl, rfl⟩
theorem quad_start_end (q : QuadBez K) : q.start = q.p0 ∧ q.end = q.p2 := ⟨rfl, rfl⟩
theorem cubic_start_end (c : CubicBez K) : c.start = c.p0 ∧ c.end = c.p3 := ⟨rfl, rfl⟩

/-- holds for *every* `Scalar` (also `Float`): the accessors do no arithmetic -/
theorem pathSeg_start_end_stored {K' : Type} [Scalar K'] (s : PathSeg K') :
    s.start = (match s with | .Line l => l.p0 | .Quad q => q.p0 | .Cubic c => c.p0) ∧
    s.end = (match s with | .Line l => l.p1 | .Quad q => q.p2 | .Cubic c => c.p3) := by
  cases s <;> exact ⟨rfl, rfl⟩

theorem line_eval_zero_one (l : Line K) : l.eval 0 = l.p0 ∧ l.eval 1 = l.p1 := by
  constructor <;> (cases l; rename_i p0 p1; cases p0; cases p1; kring)
theorem quad_eval_zero_one (q : QuadBez K) : q.eval 0 = q.p0 ∧ q.eval 1 = q.p2 := by
  constructor <;> (cases q; rename_i p0 p1 p2; cases p0; cases p1; cases p2; kring)
theorem cubic_eval_zero_one (c : CubicBez K) : c.eval 0 = c.p0 ∧ c.eval 1 = c.p3 := by
  constructor <;> (cases c; rename_i p0 p1 p2 p3; cases p0; cases p1; cases p2; cases p3; kring)

/-! ### sub-segments trace the original restricted to the range (any `t0 t1`, also `t0 > t1`, `t0 = t1`) -/

theorem line_subsegment_eval (c : Line K) (t0 t1 u : K) :
    (c.subsegment ⟨t0, t1⟩).eval u = c.eval (t0 + u * (t1 - t0)) := by kring
theorem quad_subsegment_eval (c : QuadBez K) (t0 t1 u : K) :
    (c.subsegment ⟨t0, t1⟩).eval u = c.eval (t0 + u * (t1 - t0)) := by kring
theorem cubic_subsegment_eval (c : CubicBez K) (t0 t1 u : K) :
    (c.subsegment ⟨t0, t1⟩).eval u = c.eval (t0 + u * (t1 - t0)) := by kring
theorem pathSeg_subsegment_eval (s : PathSeg K) (t0 t1 u : K) :
    (s.subsegment ⟨t0, t1⟩).eval u = s.eval (t0 + u * (t1 - t0)) := by
  cases s with
  | Line l => exact line_subsegment_eval l t0 t1 u
  | Quad q => exact quad_subsegment_eval q t0 t1 u
  | Cubic c => exact cubic_subsegment_eval c t0 t1 u

/-! ### subdivision = the two sub-segments at one half -/

theorem quad_subdivide (q : QuadBez K) :
    q.subdivide = (q.subsegment ⟨0, 1/2⟩, q.subsegment ⟨1/2, 1⟩) := by
  cases q; rename_i p0 p1 p2; cases p0; cases p1; cases p2; kring
theorem cubic_subdivide (c : CubicBez K) :
    c.subdivide = (c.subsegment ⟨0, 1/2⟩, c.subsegment ⟨1/2, 1⟩) := by
  cases c; rename_i p0 p1 p2 p3; cases p0; cases p1; cases p2; cases p3; kring

/-! ### the derivative curve is the derivative of evaluation -/

/-- algebraic form (any lawful field): the difference quotient of `eval` is `deriv.eval` up to a term that
    vanishes with `h` -/
theorem cubic_deriv_diffquot (c : CubicBez K) (t h : K) :
    ((c.eval (t + h)).x - (c.eval t).x = h * ((c.deriv.eval t).x
        + h * (3 * ((c.p2.x - 2 * c.p1.x + c.p0.x) * (1 - t) + (c.p3.x - 2 * c.p2.x + c.p1.x) * t)
        + h * (c.p3.x - 3 * c.p2.x + 3 * c.p1.x - c.p0.x)))) ∧
    ((c.eval (t + h)).y - (c.eval t).y = h * ((c.deriv.eval t).y
        + h * (3 * ((c.p2.y - 2 * c.p1.y + c.p0.y) * (1 - t) + (c.p3.y - 2 * c.p2.y + c.p1.y) * t)
        + h * (c.p3.y - 3 * c.p2.y + 3 * c.p1.y - c.p0.y)))) := by
  constructor <;> kring
theorem quad_deriv_diffquot (q : QuadBez K) (t h : K) :
    ((q.eval (t + h)).x - (q.eval t).x = h * ((q.deriv.eval t).x + h * (q.p2.x - 2 * q.p1.x + q.p0.x))) ∧
    ((q.eval (t + h)).y - (q.eval t).y = h * ((q.deriv.eval t).y + h * (q.p2.y - 2 * q.p1.y + q.p0.y))) := by
  constructor <;> kring

end Kurbo

namespace Kurbo
/-! over ℝ the same as a statement of analysis -/
section real
variable [Scalar ℝ] [LawfulScalar ℝ]

theorem cubic_deriv_hasDerivAt (c : CubicBez ℝ) (t : ℝ) :
    HasDerivAt (fun t => (c.eval t).x) (c.deriv.eval t).x t ∧
    HasDerivAt (fun t => (c.eval t).y) (c.deriv.eval t).y t := by
  constructor
  · have h := hasDerivAt_poly3 c.p0.x (3 * (c.p1.x - c.p0.x)) (3 * (c.p2.x - 2 * c.p1.x + c.p0.x))
      (c.p3.x - 3 * c.p2.x + 3 * c.p1.x - c.p0.x) t
    have e1 : (fun t => (c.eval t).x) = fun x : ℝ => c.p0.x + 3 * (c.p1.x - c.p0.x) * x
        + 3 * (c.p2.x - 2 * c.p1.x + c.p0.x) * x ^ 2 + (c.p3.x - 3 * c.p2.x + 3 * c.p1.x - c.p0.x) * x ^ 3 := by
      funext x; kring
    have e2 : (c.deriv.eval t).x = 3 * (c.p1.x - c.p0.x) + 3 * (c.p2.x - 2 * c.p1.x + c.p0.x) * (2 * t)
        + (c.p3.x - 3 * c.p2.x + 3 * c.p1.x - c.p0.x) * (3 * t ^ 2) := by kring
    rw [e1, e2]; exact h
  · have h := hasDerivAt_poly3 c.p0.y (3 * (c.p1.y - c.p0.y)) (3 * (c.p2.y - 2 * c.p1.y + c.p0.y))
      (c.p3.y - 3 * c.p2.y + 3 * c.p1.y - c.p0.y) t
    have e1 : (fun t => (c.eval t).y) = fun x : ℝ => c.p0.y + 3 * (c.p1.y - c.p0.y) * x
        + 3 * (c.p2.y - 2 * c.p1.y + c.p0.y) * x ^ 2 + (c.p3.y - 3 * c.p2.y + 3 * c.p1.y - c.p0.y) * x ^ 3 := by
      funext x; kring
    have e2 : (c.deriv.eval t).y = 3 * (c.p1.y - c.p0.y) + 3 * (c.p2.y - 2 * c.p1.y + c.p0.y) * (2 * t)
        + (c.p3.y - 3 * c.p2.y + 3 * c.p1.y - c.p0.y) * (3 * t ^ 2) := by kring
    rw [e1, e2]; exact h

theorem quad_deriv_hasDerivAt (q : QuadBez ℝ) (t : ℝ) :
    HasDerivAt (fun t => (q.eval t).x) (q.deriv.eval t).x t ∧
    HasDerivAt (fun t => (q.eval t).y) (q.deriv.eval t).y t := by
  constructor
  · have h := hasDerivAt_poly3 q.p0.x (2 * (q.p1.x - q.p0.x)) (q.p2.x - 2 * q.p1.x + q.p0.x) 0 t
    have e1 : (fun t => (q.eval t).x) = fun x : ℝ => q.p0.x + 2 * (q.p1.x - q.p0.x) * x
        + (q.p2.x - 2 * q.p1.x + q.p0.x) * x ^ 2 + 0 * x ^ 3 := by
      funext x; kring
    have e2 : (q.deriv.eval t).x = 2 * (q.p1.x - q.p0.x) + (q.p2.x - 2 * q.p1.x + q.p0.x) * (2 * t)
        + 0 * (3 * t ^ 2) := by kring
    rw [e1, e2]; exact h
  · have h := hasDerivAt_poly3 q.p0.y (2 * (q.p1.y - q.p0.y)) (q.p2.y - 2 * q.p1.y + q.p0.y) 0 t
    have e1 : (fun t => (q.eval t).y) = fun x : ℝ => q.p0.y + 2 * (q.p1.y - q.p0.y) * x
        + (q.p2.y - 2 * q.p1.y + q.p0.y) * x ^ 2 + 0 * x ^ 3 := by
      funext x; kring
    have e2 : (q.deriv.eval t).y = 2 * (q.p1.y - q.p0.y) + (q.p2.y - 2 * q.p1.y + q.p0.y) * (2 * t)
        + 0 * (3 * t ^ 2) := by kring
    rw [e1, e2]; exact h

end real
end Kurbo

namespace Kurbo
variable {K : Type} [Field K] [LinearOrder K] [IsStrictOrderedRing K] [FloorRing K] [Scalar K] [LawfulScalar K]

/-! ### reversal traces the same curve backwards -/

theorem pathSeg_reverse_eval (s : PathSeg K) (t : K) : s.reverse.eval t = s.eval (1 - t) := by
  cases s with
  | Line l => cases l; simp only [PathSeg.reverse, PathSeg.eval]; kring
  | Quad q => simp only [PathSeg.reverse, PathSeg.eval]; kring
  | Cubic c => simp only [PathSeg.reverse, PathSeg.eval]; kring

theorem line_reversed_eval (l : Line K) (t : K) : l.reversed.eval t = l.eval (1 - t) := by kring

/-! ### raising the degree moves no point -/

theorem quad_raise_eval (q : QuadBez K) (t : K) : q.raise.eval t = q.eval t := by kring

theorem pathSeg_toCubic_quad_eval (q : QuadBez K) (t : K) : (PathSeg.Quad q).to_cubic.eval t = q.eval t := by
  simp only [PathSeg.to_cubic]; kring

theorem pathSeg_toCubic_cubic (c : CubicBez K) : (PathSeg.Cubic c).to_cubic = c := rfl

/-- `PathSeg::Line(l).to_cubic()` is `(p0,p0,p1,p1)`: the same *points* in the same order, re-parametrised by the
    smoothstep `3t² − 2t³` (which is a monotone bijection of [0,1], next theorem) -/
theorem line_toCubic_eval (l : Line K) (t : K) :
    (PathSeg.Line l).to_cubic.eval t = l.eval (3 * t ^ 2 - 2 * t ^ 3) := by
  cases l; simp only [PathSeg.to_cubic]; kring

theorem smoothstep_mono (s t : K) (hs : 0 ≤ s) (hst : s ≤ t) (ht : t ≤ 1) :
    3 * s ^ 2 - 2 * s ^ 3 ≤ 3 * t ^ 2 - 2 * t ^ 3 ∧ (3 * (0:K) ^ 2 - 2 * 0 ^ 3 = 0) ∧ (3 * (1:K) ^ 2 - 2 * 1 ^ 3 = 1) := by
  refine ⟨?_, by norm_num, by norm_num⟩
  have h1 : 0 ≤ t - s := by linarith
  -- (3t²−2t³) − (3s²−2s³) = (t−s)·(3(t+s) − 2(t²+ts+s²))
  have key : 3 * t ^ 2 - 2 * t ^ 3 - (3 * s ^ 2 - 2 * s ^ 3) = (t - s) * (3 * (t + s) - 2 * (t ^ 2 + t * s + s ^ 2)) := by ring
  have h2 : 0 ≤ 3 * (t + s) - 2 * (t ^ 2 + t * s + s ^ 2) := by
    nlinarith [mul_nonneg hs (sub_nonneg.mpr ht), mul_nonneg (le_trans hs hst) (sub_nonneg.mpr ht),
      mul_nonneg hs (sub_nonneg.mpr (le_trans hst ht)), mul_nonneg hs (le_trans hs hst)]
  nlinarith [mul_nonneg h1 h2]

end Kurbo
