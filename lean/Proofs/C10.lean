import Kurbo.Shapes
namespace Kurbo
end Kurbo
