import Proofs.KDefs
import Proofs.Lemmas.C10Struct
import Proofs.Lemmas.C10Real
import Proofs.Lemmas.C10Quarter
import Proofs.Lemmas.C10CircleTol
import Proofs.Lemmas.C10ArcTol
import Proofs.Lemmas.C10Ellipse
/-! C10 – shape outlines.

    "For circles, ellipses, elliptical arcs, rounded rectangles and circle segments, every point of the Bezier
    outline produced for tolerance T lies within T of the ideal shape, and the outline traverses the whole shape
    exactly once, with consecutive pieces joined end to end and closed shapes producing contours that return to
    their starting point.  Shapes that are already polygons or Beziers (line, rect, triangle, segments) are
    reproduced exactly."

    All statements are about the model functions of `Kurbo/Shapes.lean` exactly as they are.

    What is proved

    A. Structure, for EVERY `Scalar` (also `Float`); the arithmetic in these statements is the model's own
       (`Scalar.add …`), hidden in the named point functions of `Proofs/Lemmas/C10Struct.lean`:
       1. exact shapes: `segs` of the outline of a line / quadratic / cubic is that one segment; `Rect` and
          `Triangle` give the literal corner lists, whose segments are the sides in order plus the closing side
          (omitted exactly when `Point.peq` says that the last corner is the first; for a scalar with lawful
          equality: when the two corners are equal).
       2. arcs: `append_iter` has exactly `n = (appendParams tol).1` elements, all `CurveTo`; `path_elements` is
          `MoveTo` + these; piece `k` is `CurveTo (c + (S θ_k + arm·S(θ_k + π/2))) (c + (S θ_{k+1} − arm·S(θ_{k+1} + π/2)))
          (c + S θ_{k+1})` with `S = sampleEllipse radii rot` and `θ_k = accAngle start step k` the angle accumulated by
          repeated addition; `segs` of the outline are the `n` cubics, piece `k` from `c + S θ_k` to `c + S θ_{k+1}`
          (consecutive pieces joined end to end; never panics).
       3. circles: `MoveTo (x + r, y)`, `n = (pathParams tol).1` `CurveTo`s, `ClosePath`; the last `CurveTo` ends at
          the literal `(x + r·1, y + r·0)`, every other piece `k` at `(x + r·cos θ_{k+1}, y + r·sin θ_{k+1})`,
          `θ_k = delta_th·k`; for a lawful scalar the contour therefore returns EXACTLY to its `MoveTo` point, `segs`
          is the `n` cubics with no closing line, and the start angle `θ_{k+1} − delta_th` of piece `k` is `θ_k`.
       4. rounded rectangles: `interleaveRounded` for arbitrary element lists, the outline
          `[MoveTo] ++ arc₀ ++ [LineTo] ++ arc₁ ++ [LineTo] ++ arc₂ ++ [LineTo] ++ arc₃ ++ [ClosePath]`, all arc
          elements `CurveTo`.
       5. circle segments: `[MoveTo, LineTo] ++ outer arc ++ [LineTo] ++ inner arc`; ellipses: the outline of the
          full-turn arc with the `svd` radii and rotation.  `segs` of the rounded-rectangle and circle-segment outlines:
          cubics and lines alternate, each starting where the piece before ends (`roundedRect_segs`, `cseg_segs`).
    B. Over ℝ, for a `Scalar ℝ` whose `sin cos tan pi` are the real ones (`LawfulTrig`) and, where piece counts
       matter, whose `as usize`/`powf` are `⌊·⌋₊`/`rpow` (`LawfulCount`):
       6. `sampleEllipse` lies on the ideal ellipse (turned back by `−rot` it is `(rx cos θ, ry sin θ)`); every element
          end point of an arc / ellipse outline lies on the ideal ellipse, of a circle outline, of the four corner
          arcs of a rounded rectangle and of the two arcs of a circle segment on the ideal circle.
       7. the control arms `p1 − p0`, `p3 − p2` of every arc piece are `arm_len` times the derivative of
          `θ ↦ sampleEllipse θ` at the piece's end angles (`HasDerivAt`); same for circle pieces.
       8. one traversal: the accumulated angle after the `n` pieces is `start + sweep` (for every arc, also
          `sweep = 0`, `n = 0`), `θ_k = start + k·sweep/n`, each piece spans at most `2π/3.999999`;
          circles: `delta_th·n = 2π`, `n = 4` or `n ≥ 5` according to the branch, the pieces are the standard
          circular-arc cubics between `2πk/n` and `2π(k+1)/n`.
          Closedness: ellipse outline ends where it starts; circle-segment outline: each arc starts where the
          element before ends, the radial lines join them, and the last piece returns to the `MoveTo` point;
          rounded rectangle: each corner arc starts at the end of the straight piece before it and ends on the
          next side (so the following `LineTo`/`ClosePath` line is axis-parallel).
       9. radial error and THE TOLERANCE CLAIM FOR CIRCLES (and for circular arcs of large radius):
          * `circle_piece_radial_identity`: for one circular piece of half-angle `φ` and arm `a·r`
            (`s, c = sin φ, cos φ`, `σ = t(1−t)`): `|B(t) − c|² − r² = r²(σ²(9a² − 12s² + 12acs) − 4σ³(2s − 3ac)²)`;
            with the arm `4/3·tan(φ/2)` this is `r²·16·S⁶/C²·(σ² − 4σ³)`, `S, C = sin, cos (φ/2)`: the piece never enters
            the circle and leaves it by at most `|r|·(2/27)·S⁶/C²`.
          * fixed branch (`|r|/T < 1/1.9608e-4`: `n = 4`, `a = 0.551915024494`): every point `B(t)`, `t ∈ [0,1]`, of each
            of the four cubics is within `1.9608e-4·|r| < T` of the ideal circle (exact rational certificates for the
            degree-6 polynomial; the margins are ≈ 7e-9).
          * formula branch (`n = ⌈(1.1163·|r|/T)^(1/6)⌉ ≥ 5`): every point is within `1.1163·|r|/n⁶ ≤ T`; the analytic core
            is `(2/27)·sin⁶(π/2n)·n⁶ ≤ 1.1163·cos²(π/2n)` for `n ≥ 5` (`circle_constant_bound`; at `n = 5` the quotient is 1.11422, its limit `(2/27)(π/2)⁶ = 1.11272`).
          * `circle_within_tolerance`: for EVERY circle and EVERY `T > 0` every point of the outline is within `T` of
            the ideal circle.
          * circular arcs (radii `(R, R)`, no rotation – the corner arcs of rounded rectangles and the arcs of circle
            segments): each piece is the standard circular-arc cubic with arm `4/3·tan(step/4)`, and when
            `1.1163·R/T ≥ 5⁶` (`R/T ≥ 13997.2`, so that `n_err ≥ 5`) every point of every piece is within `T`.

      10. (with `LawfulReal`: `sqrt`, `atan2` are the real ones) `Affine::svd` diagonalises `M·Mᵀ`, `rx·ry = |det|`, and every
          element end point of an ellipse outline lies on the image of the unit circle under `e.inner`
          (`|e.inner⁻¹·p|² = 1`, the quantity `Ellipse::winding` compares with 1).

    What is NOT proved
    * "every point of the outline lies within T of the ideal shape" for
        – circular arcs (rounded-rectangle corners, circle segments) with `R/T < 13997.2`: there `n_err ∈ [3.999999, 5)`
          and, by the measurements made while designing, the claim holds only with relative margins of about 1e-4 and
          less (the estimates used here – `sin x ≤ x − x³/6 + x⁵/100`, `cos x ≥ 1 − x²/2`, `√(1+u) ≤ 1 + u/2` – are too
          coarse for that); the error formula `|r|·(√(1 + 16·S⁶/C²·(σ²−4σ³)) − 1)` is proved
          (`circle_piece_radial_identity_tan`), the final numeric inequality is not;
        – genuinely elliptical arcs and ellipses (`rx ≠ ry`): the error is not radial and the count formula uses
          `max(rx, ry)`; only the end points and tangent directions of the pieces are shown to be exact.
      These cases are decided per instance by the exact certificates of the oracle.
    * anything about `Float` beyond part A (no arithmetic law holds there: e.g. `θ_{k+1} − delta_th = θ_k` and
      `x + r·1 = x + r` need exact arithmetic).  `as usize` saturation is not modelled in `LawfulCount`. -/
set_option linter.unusedSectionVars false

/-! ## A. structure (every `Scalar`, also `Float`) -/
namespace Kurbo
section anyScalar
variable {K : Type} [Scalar K]

/-! ### 1. exact shapes -/

theorem line_path_segs (l : Line K) : segs l.path_elements = some [.Line l] := rfl
theorem quad_path_segs (q : QuadBez K) : segs q.path_elements = some [.Quad q] := rfl
theorem cubic_path_segs (c : CubicBez K) : segs c.path_elements = some [.Cubic c] := rfl

/-- all five at once -/
theorem exact_shapes (l : Line K) (q : QuadBez K) (c : CubicBez K) (r : Rect K) (t : Triangle K) :
    segs l.path_elements = some [.Line l] ∧ segs q.path_elements = some [.Quad q] ∧
    segs c.path_elements = some [.Cubic c] ∧
    r.path_elements = [.MoveTo ⟨r.x0, r.y0⟩, .LineTo ⟨r.x1, r.y0⟩, .LineTo ⟨r.x1, r.y1⟩, .LineTo ⟨r.x0, r.y1⟩, .ClosePath] ∧
    t.path_elements = [.MoveTo t.a, .LineTo t.b, .LineTo t.c, .ClosePath] := ⟨rfl, rfl, rfl, rfl, rfl⟩

/-- the literal corner list -/
theorem rect_path_elements (r : Rect K) :
    r.path_elements = [.MoveTo ⟨r.x0, r.y0⟩, .LineTo ⟨r.x1, r.y0⟩, .LineTo ⟨r.x1, r.y1⟩, .LineTo ⟨r.x0, r.y1⟩, .ClosePath] := rfl

theorem triangle_path_elements (t : Triangle K) :
    t.path_elements = [.MoveTo t.a, .LineTo t.b, .LineTo t.c, .ClosePath] := rfl

/-- three sides, and the fourth unless `Point.peq` (Rust `==`) identifies the last corner with the first -/
theorem rect_path_segs_peq (r : Rect K) :
    segs r.path_elements = some ([.Line ⟨⟨r.x0, r.y0⟩, ⟨r.x1, r.y0⟩⟩, .Line ⟨⟨r.x1, r.y0⟩, ⟨r.x1, r.y1⟩⟩,
        .Line ⟨⟨r.x1, r.y1⟩, ⟨r.x0, r.y1⟩⟩]
      ++ if (⟨r.x0, r.y1⟩ : Point K).peq ⟨r.x0, r.y0⟩ then [] else [.Line ⟨⟨r.x0, r.y1⟩, ⟨r.x0, r.y0⟩⟩]) := by
  rw [rect_path_elements, segs_moveTo]
  simp only [segsT, stepT, Option.toList, List.cons_append, List.nil_append]
  by_cases h : (⟨r.x0, r.y1⟩ : Point K).peq ⟨r.x0, r.y0⟩ = true <;> simp [h]

theorem triangle_path_segs_peq (t : Triangle K) :
    segs t.path_elements = some ([.Line ⟨t.a, t.b⟩, .Line ⟨t.b, t.c⟩]
      ++ if t.c.peq t.a then [] else [.Line ⟨t.c, t.a⟩]) := by
  rw [triangle_path_elements, segs_moveTo]
  simp only [segsT, stepT, Option.toList, List.cons_append, List.nil_append]
  by_cases h : t.c.peq t.a = true <;> simp [h]

/-- lawful equality (ℚ, ℝ, …; not `Float`): a non-degenerate rectangle gives its four sides in order -/
theorem rect_path_segs [LawfulPeq K] (r : Rect K) (h : r.y1 ≠ r.y0) :
    segs r.path_elements = some [.Line ⟨⟨r.x0, r.y0⟩, ⟨r.x1, r.y0⟩⟩, .Line ⟨⟨r.x1, r.y0⟩, ⟨r.x1, r.y1⟩⟩,
      .Line ⟨⟨r.x1, r.y1⟩, ⟨r.x0, r.y1⟩⟩, .Line ⟨⟨r.x0, r.y1⟩, ⟨r.x0, r.y0⟩⟩] := by
  rw [rect_path_segs_peq, (peq_false_iff _ _).2 (fun e => h (Point.mk.inj e).2)]
  rfl

/-- … and a rectangle of height zero only three (no closing side) -/
theorem rect_path_segs_flat [LawfulPeq K] (r : Rect K) (h : r.y1 = r.y0) :
    segs r.path_elements = some [.Line ⟨⟨r.x0, r.y0⟩, ⟨r.x1, r.y0⟩⟩, .Line ⟨⟨r.x1, r.y0⟩, ⟨r.x1, r.y1⟩⟩,
      .Line ⟨⟨r.x1, r.y1⟩, ⟨r.x0, r.y1⟩⟩] := by
  rw [rect_path_segs_peq, (peq_iff _ _).2 (by rw [h])]
  rfl

/-- lawful equality: a triangle gives its three sides in order (two when `c = a`) -/
theorem triangle_path_segs [LawfulPeq K] (t : Triangle K) (h : t.c ≠ t.a) :
    segs t.path_elements = some [.Line ⟨t.a, t.b⟩, .Line ⟨t.b, t.c⟩, .Line ⟨t.c, t.a⟩] := by
  rw [triangle_path_segs_peq, (peq_false_iff _ _).2 h]
  rfl

theorem triangle_path_segs_degenerate [LawfulPeq K] (t : Triangle K) (h : t.c = t.a) :
    segs t.path_elements = some [.Line ⟨t.a, t.b⟩, .Line ⟨t.b, t.c⟩] := by
  rw [triangle_path_segs_peq, (peq_iff _ _).2 h]
  rfl

example : (⟨0, 0, 2, 1⟩ : Rect ℚ).y1 ≠ (⟨0, 0, 2, 1⟩ : Rect ℚ).y0 := by decide
example : (⟨⟨0, 0⟩, ⟨1, 0⟩, ⟨0, 1⟩⟩ : Triangle ℚ).c ≠ (⟨⟨0, 0⟩, ⟨1, 0⟩, ⟨0, 1⟩⟩ : Triangle ℚ).a := by decide

/-! ### 2. elliptical arcs

    `accAngle start step k` is the angle after `k` steps, accumulated by repeated addition as `ArcAppendIter` does;
    `arcPt c radii rot step start k = c + sampleEllipse radii rot (accAngle start step k)`. -/

theorem accAngle_zero (start step : K) : accAngle start step 0 = start := rfl
theorem accAngle_succ (start step : K) (k : Nat) :
    accAngle start step (k + 1) = Scalar.add (accAngle start step k) step := rfl

theorem arc_append_length (a : Arc K) (tol : K) : (a.append_iter tol).length = (a.appendParams tol).1 := by
  rw [append_iter_eq, curveEls_length]

theorem arc_append_all_curveTo (a : Arc K) (tol : K) : ∀ el ∈ a.append_iter tol, el.isCurveTo = true := by
  rw [append_iter_eq]; exact curveEls_isCurveTo _ _ _ _

theorem arc_path_structure (a : Arc K) (tol : K) :
    a.path_elements tol = PathEl.MoveTo (arcPt a.center a.radii a.x_rotation (a.appendParams tol).2.2 a.start_angle 0)
      :: a.append_iter tol := rfl

/-- piece `k` in closed form -/
theorem arc_pieces_chain (a : Arc K) (tol : K) (k : Nat) (hk : k < (a.appendParams tol).1) :
    (a.append_iter tol)[k]? = some (PathEl.CurveTo
      (arcC1 a.center a.radii a.x_rotation (a.appendParams tol).2.1 (a.appendParams tol).2.2 a.start_angle k)
      (arcC2 a.center a.radii a.x_rotation (a.appendParams tol).2.1 (a.appendParams tol).2.2 a.start_angle k)
      (arcEnd a.center a.radii a.x_rotation (a.appendParams tol).2.2 a.start_angle k)) := by
  rw [append_iter_eq]; exact curveEls_getElem? _ _ _ _ _ hk

/-- … where the end point `p3` of piece `k` is the ellipse point at the accumulated angle number `k + 1`, -/
theorem arc_piece_p3 (c : Point K) (radii : Vec2 K) (rot step start : K) (k : Nat) :
    arcEnd c radii rot step start k = c + sampleEllipse radii rot (accAngle start step (k + 1)) := rfl

/-- `p1 = c + (S θ_k + arm · S(θ_k + π/2))` and -/
theorem arc_piece_p1 (c : Point K) (radii : Vec2 K) (rot arm step start : K) (k : Nat) :
    arcC1 c radii rot arm step start k
      = c + (sampleEllipse radii rot (accAngle start step k)
          + arm * sampleEllipse radii rot (Scalar.add (accAngle start step k) fracPi2)) := rfl

/-- `p2 = c + (S θ_{k+1} − arm · S(θ_{k+1} + π/2))` -/
theorem arc_piece_p2 (c : Point K) (radii : Vec2 K) (rot arm step start : K) (k : Nat) :
    arcC2 c radii rot arm step start k
      = c + (sampleEllipse radii rot (accAngle start step (k + 1))
          - arm * sampleEllipse radii rot (Scalar.add (accAngle start step (k + 1)) fracPi2)) := rfl

theorem arcPt_def (c : Point K) (radii : Vec2 K) (rot step start : K) (k : Nat) :
    arcPt c radii rot step start k = c + sampleEllipse radii rot (accAngle start step k) := rfl

/-- the segments of an arc outline: `n` cubics, piece `k` from ellipse point `k` to ellipse point `k + 1`
    (consecutive pieces joined end to end); the `Segments` iterator never panics on it -/
theorem arc_segs (a : Arc K) (tol : K) :
    segs (a.path_elements tol) = some ((List.range (a.appendParams tol).1).map fun k => PathSeg.Cubic
      ⟨arcPt a.center a.radii a.x_rotation (a.appendParams tol).2.2 a.start_angle k,
       arcC1 a.center a.radii a.x_rotation (a.appendParams tol).2.1 (a.appendParams tol).2.2 a.start_angle k,
       arcC2 a.center a.radii a.x_rotation (a.appendParams tol).2.1 (a.appendParams tol).2.2 a.start_angle k,
       arcPt a.center a.radii a.x_rotation (a.appendParams tol).2.2 a.start_angle (k + 1)⟩) := by
  rw [arc_path_structure, append_iter_eq, segs_moveTo_curveEls, curveSegs_arc]

/-- an ellipse is outlined as the full-turn arc (`start = 0`, `sweep = 2π`) with the `svd` radii and rotation -/
theorem ellipse_path_structure (e : Ellipse K) (tol : K) :
    e.path_elements tol = e.arc.path_elements tol ∧
    e.arc.center = e.center ∧ e.arc.radii = e.inner.svd.1 ∧ e.arc.x_rotation = e.inner.svd.2 ∧
    e.arc.sweep_angle = twoPi := ⟨rfl, rfl, rfl, rfl, rfl⟩

-- non-vacuity: an arc over ℚ with two pieces (the ℚ instance has `sin x = x`, `cos x = 1`, `powf x _ = x`)
example : ((⟨⟨0, 0⟩, ⟨1, 1⟩, 0, 2, 0⟩ : Arc ℚ).appendParams 1).1 = 2 := by decide +kernel

/-! ### 3. circles

    `circleStart c = (x + r, y)`; `circleTheta n k = delta_th · k` with `delta_th = 2π / n`;
    `circleC1/C2/End c a n k` are the three points of piece `k` exactly as the iterator computes them. -/

theorem circle_path_structure (c : Circle K) (tol : K) :
    c.path_elements tol = PathEl.MoveTo (circleStart c) ::
      (curveEls (circleC1 c (c.pathParams tol).2 (c.pathParams tol).1) (circleC2 c (c.pathParams tol).2 (c.pathParams tol).1)
        (circleEnd c (c.pathParams tol).1) (c.pathParams tol).1 ++ [PathEl.ClosePath]) ∧
    (curveEls (circleC1 c (c.pathParams tol).2 (c.pathParams tol).1) (circleC2 c (c.pathParams tol).2 (c.pathParams tol).1)
        (circleEnd c (c.pathParams tol).1) (c.pathParams tol).1).length = (c.pathParams tol).1 :=
  ⟨circle_path_elements_eq c tol, curveEls_length _ _ _ _⟩

theorem circleStart_def (c : Circle K) : circleStart c = ⟨Scalar.add c.center.x c.radius, c.center.y⟩ := rfl

/-- the last piece ends at the literal `(x + r·1, y + r·0)`: the `(0, 1)` substituted for the last `(sin, cos)` -/
theorem circle_last_piece_literal (c : Circle K) (n : Nat) :
    circleEnd c (n + 1) n = ⟨Scalar.add c.center.x (Scalar.mul c.radius (Scalar.ofRat 1)),
      Scalar.add c.center.y (Scalar.mul c.radius (Scalar.ofRat 0))⟩ := by
  rw [circleEnd_last]; rfl

/-- every other piece `k` ends at `(x + r·cos θ_{k+1}, y + r·sin θ_{k+1})` -/
theorem circle_piece_end (c : Circle K) (n k : Nat) (h : k + 1 ≠ n) :
    circleEnd c n k = ⟨Scalar.add c.center.x (Scalar.mul c.radius (Scalar.cos (circleTheta n (k + 1) : K))),
      Scalar.add c.center.y (Scalar.mul c.radius (Scalar.sin (circleTheta n (k + 1) : K)))⟩ := by
  rw [circleEnd_inner c n k h]; rfl

/-- the segments of a circle outline: the `n` cubics, each starting at the end point of the one before (the first at
    `(x + r, y)`), and a closing line exactly when `Point.peq` does not identify the last end point with `(x + r, y)` -/
theorem circle_segs_peq (c : Circle K) (tol : K) :
    segs (c.path_elements tol)
      = some (curveSegs (circleStart c) (circleC1 c (c.pathParams tol).2 (c.pathParams tol).1)
          (circleC2 c (c.pathParams tol).2 (c.pathParams tol).1) (circleEnd c (c.pathParams tol).1) (c.pathParams tol).1
        ++ (if (chainStart (circleStart c) (circleEnd c (c.pathParams tol).1) (c.pathParams tol).1).peq (circleStart c)
            then [] else [PathSeg.Line ⟨chainStart (circleStart c) (circleEnd c (c.pathParams tol).1) (c.pathParams tol).1,
              circleStart c⟩])) := by
  rw [circle_path_elements_eq, segs_moveTo_curveEls_close]

/-! ### 4. rounded rectangles -/

theorem roundedRect_interleave (r0 r1 r2 r3 r4 : PathEl K) (a0 a1 a2 a3 : List (PathEl K)) :
    interleaveRounded [r0, r1, r2, r3, r4] [a0, a1, a2, a3]
      = [r0] ++ a0 ++ [r1] ++ a1 ++ [r2] ++ a2 ++ [r3] ++ a3 ++ [r4] :=
  interleaveRounded_eq r0 r1 r2 r3 r4 a0 a1 a2 a3

/-- `s.p0 … s.p3` are the four points of the inner rectangle iterator, `s.arcTL …` the four corner arcs
    (quarter turns starting at `2, 3, 0, 1` times `π/2`) -/
theorem roundedRect_path_structure (s : RoundedRect K) (tol : K) :
    s.path_elements tol = [PathEl.MoveTo s.p0] ++ s.arcTL.append_iter tol ++ [PathEl.LineTo s.p1] ++ s.arcTR.append_iter tol
      ++ [PathEl.LineTo s.p2] ++ s.arcBR.append_iter tol ++ [PathEl.LineTo s.p3] ++ s.arcBL.append_iter tol
      ++ [PathEl.ClosePath] ∧
    s.arcs = [s.arcTL, s.arcTR, s.arcBR, s.arcBL] ∧
    s.rectEls = [.MoveTo s.p0, .LineTo s.p1, .LineTo s.p2, .LineTo s.p3, .ClosePath] :=
  ⟨roundedRect_path_elements_eq s tol, rfl, rfl⟩

theorem roundedRect_arcs_all_curveTo (s : RoundedRect K) (tol : K) :
    ∀ a ∈ s.arcs, ∀ el ∈ a.append_iter tol, el.isCurveTo = true :=
  fun a _ => arc_append_all_curveTo a tol

/-! ### 5. circle segments -/

theorem cseg_path_structure (s : CircleSegment K) (tol : K) :
    s.path_elements tol
      = [PathEl.MoveTo (pointOnCircle s.center s.inner_radius s.start_angle),
         PathEl.LineTo (pointOnCircle s.center s.outer_radius s.start_angle)]
        ++ s.outer_arc.append_iter tol
        ++ [PathEl.LineTo (pointOnCircle s.center s.inner_radius s.inner_arc.start_angle)]
        ++ s.inner_arc.append_iter tol := rfl

/-! ### segments of the composite outlines

    `arcSegsFrom p a tol`: the cubics of the pieces of arc `a` when the pen starts at `p` (the first starts at `p`, each
    further one at the end point of the one before); `penAfter p els`: where the pen is after drawing `els` from `p`. -/

/-- rounded rectangle: corner cubics, side, corner cubics, side, … each starting where the piece before ends; the
    closing side is emitted unless `Point.peq` identifies the end of the last corner with the start point.
    `segs` never panics on it. -/
theorem roundedRect_segs (s : RoundedRect K) (tol : K) :
    segs (s.path_elements tol) = some (
      arcSegsFrom s.p0 s.arcTL tol ++ PathSeg.Line ⟨penAfter s.p0 (s.arcTL.append_iter tol), s.p1⟩ ::
      (arcSegsFrom s.p1 s.arcTR tol ++ PathSeg.Line ⟨penAfter s.p1 (s.arcTR.append_iter tol), s.p2⟩ ::
      (arcSegsFrom s.p2 s.arcBR tol ++ PathSeg.Line ⟨penAfter s.p2 (s.arcBR.append_iter tol), s.p3⟩ ::
      (arcSegsFrom s.p3 s.arcBL tol ++
        (if (penAfter s.p3 (s.arcBL.append_iter tol)).peq s.p0 then []
         else [PathSeg.Line ⟨penAfter s.p3 (s.arcBL.append_iter tol), s.p0⟩]))))) :=
  roundedRect_segs_eq s tol

/-- circle segment: radial line, outer cubics, radial line, inner cubics -/
theorem cseg_segs (s : CircleSegment K) (tol : K) :
    segs (s.path_elements tol) = some (
      PathSeg.Line ⟨pointOnCircle s.center s.inner_radius s.start_angle, pointOnCircle s.center s.outer_radius s.start_angle⟩ ::
      (arcSegsFrom (pointOnCircle s.center s.outer_radius s.start_angle) s.outer_arc tol ++
       PathSeg.Line ⟨penAfter (pointOnCircle s.center s.outer_radius s.start_angle) (s.outer_arc.append_iter tol),
          pointOnCircle s.center s.inner_radius s.inner_arc.start_angle⟩ ::
       arcSegsFrom (pointOnCircle s.center s.inner_radius s.inner_arc.start_angle) s.inner_arc tol)) :=
  cseg_segs_eq s tol

/-- an arc's own outline is `arcSegsFrom` its start point; it has `n` segments -/
theorem arc_segs_from (a : Arc K) (tol : K) :
    segs (a.path_elements tol)
      = some (arcSegsFrom (arcPt a.center a.radii a.x_rotation (a.appendParams tol).2.2 a.start_angle 0) a tol) ∧
    ∀ p, (arcSegsFrom p a tol).length = (a.appendParams tol).1 := by
  refine ⟨?_, fun p => arcSegsFrom_length p a tol⟩
  rw [arc_path_structure, append_iter_eq, segs_moveTo_curveEls]; rfl

end anyScalar
end Kurbo

/-! ## A′. the same structure with field arithmetic (any lawful scalar: ℚ, ℝ, …) -/
namespace Kurbo
section lawful
variable {K : Type} [Field K] [LinearOrder K] [IsStrictOrderedRing K] [FloorRing K] [Scalar K] [LawfulScalar K]

/-- the accumulated angle in closed form -/
theorem accAngle_closed_form (start step : K) (k : Nat) : accAngle start step k = start + k * step :=
  accAngle_eq start step k

theorem circle_start_point (c : Circle K) : circleStart c = ⟨c.center.x + c.radius, c.center.y⟩ := circleStart_eq c

/-- `θ_k = delta_th · k`, and the start angle `θ_{k+1} − delta_th` that the iterator uses for piece `k` is `θ_k` -/
theorem circle_piece_angles (n k : Nat) :
    (circleTheta n k : K) = 2 * Scalar.pi / n * k ∧ (circleTh0 n k : K) = circleTheta n k := by
  rw [circleTh0_eq, circleTheta_eq]; exact ⟨rfl, rfl⟩

/-- the pieces cover one full turn: `delta_th · n = 2π` -/
theorem circle_total_angle (n : Nat) (hn : n ≠ 0) : (circleTheta n n : K) = 2 * Scalar.pi := by
  have : (n : K) ≠ 0 := by exact_mod_cast hn
  rw [circleTheta_eq]; field_simp

example : (4 : Nat) ≠ 0 := by decide

/-- the last piece ends at `(x + r·1, y + r·0) = (x + r, y)`: the contour returns EXACTLY to its `MoveTo` point
    (`chainStart p0 e n` is the end point of piece `n − 1`, and `p0` when `n = 0`) -/
theorem circle_returns_to_start (c : Circle K) (n : Nat) :
    circleEnd c (n + 1) n = circleStart c ∧ chainStart (circleStart c) (circleEnd c n) n = circleStart c :=
  ⟨circle_chain_closed c (n + 1), circle_chain_closed c n⟩

/-- hence `segs` of a circle outline is the `n` cubics, piece `k` starting at the end point of piece `k − 1`, and no
    closing line; the `Segments` iterator never panics on it -/
theorem circle_segs (c : Circle K) (tol : K) :
    segs (c.path_elements tol)
      = some ((List.range (c.pathParams tol).1).map fun k => PathSeg.Cubic
          ⟨chainStart (circleStart c) (circleEnd c (c.pathParams tol).1) k,
           circleC1 c (c.pathParams tol).2 (c.pathParams tol).1 k, circleC2 c (c.pathParams tol).2 (c.pathParams tol).1 k,
           circleEnd c (c.pathParams tol).1 k⟩) :=
  circle_segs_lawful c tol

-- non-vacuity: a circle over ℚ in the fixed branch has four pieces
example : ((⟨⟨0, 0⟩, 1⟩ : Circle ℚ).pathParams (1/10)).1 = 4 := by decide +kernel

/-- control arms of an arc piece (algebraic part of `arc_arms_tangent`):
    `p1 − p0 = arm · S(θ_k + π/2)` and `p3 − p2 = arm · S(θ_{k+1} + π/2)` -/
theorem arc_arms_formula (c : Point K) (radii : Vec2 K) (rot arm step start : K) (k : Nat) :
    arcC1 c radii rot arm step start k - arcPt c radii rot step start k
      = (⟨arm * (sampleEllipse radii rot (accAngle start step k + fracPi2)).x,
          arm * (sampleEllipse radii rot (accAngle start step k + fracPi2)).y⟩ : Vec2 K) ∧
    arcPt c radii rot step start (k + 1) - arcC2 c radii rot arm step start k
      = (⟨arm * (sampleEllipse radii rot (accAngle start step (k + 1) + fracPi2)).x,
          arm * (sampleEllipse radii rot (accAngle start step (k + 1) + fracPi2)).y⟩ : Vec2 K) :=
  arc_arms c radii rot arm step start k

end lawful
end Kurbo

/-! ## B. the real numbers with the trigonometric laws -/
namespace Kurbo

-- the class assumptions are satisfiable: ℝ with Mathlib's functions
example : @LawfulScalar ℝ _ _ _ _ realScalar ∧ @LawfulTrig realScalar ∧ @LawfulCount realScalar :=
  ⟨realScalar_lawful, realScalar_lawfulTrig, realScalar_lawfulCount⟩

section real
variable [Scalar ℝ] [LawfulScalar ℝ] [LawfulTrig]

/-! ### 6. end points on the ideal curve

    `OnEllipse c rx ry rot p`: in the frame of the axes (`p − c` turned by `−rot`) `(u/rx)² + (v/ry)² = 1`;
    `OnCircle c r p`: `(p.x − c.x)² + (p.y − c.y)² = r²`. -/

/-- turned back by `−rot`, the sample is `(rx·cos θ, ry·sin θ)`; hence it satisfies the implicit equation -/
theorem sampleEllipse_on_ellipse (c : Point ℝ) (radii : Vec2 ℝ) (rot θ : ℝ) :
    ((sampleEllipse radii rot θ).x * Real.cos rot + (sampleEllipse radii rot θ).y * Real.sin rot = radii.x * Real.cos θ ∧
     -(sampleEllipse radii rot θ).x * Real.sin rot + (sampleEllipse radii rot θ).y * Real.cos rot = radii.y * Real.sin θ) ∧
    (radii.x ≠ 0 → radii.y ≠ 0 → OnEllipse c radii.x radii.y rot (c + sampleEllipse radii rot θ)) :=
  ⟨sampleEllipse_unrotate radii rot θ, center_add_onEllipse c radii rot θ⟩

/-- every element of an arc outline (the `MoveTo` and each `CurveTo`) ends exactly on the ideal ellipse -/
theorem arc_endpoints_on_ellipse (a : Arc ℝ) (tol : ℝ) (hx : a.radii.x ≠ 0) (hy : a.radii.y ≠ 0) :
    ∀ el ∈ a.path_elements tol, ∃ p, el.end_point = some p ∧ OnEllipse a.center a.radii.x a.radii.y a.x_rotation p := by
  intro el h
  rcases List.mem_cons.mp h with rfl | h
  · exact ⟨_, rfl, center_add_onEllipse _ _ _ _ hx hy⟩
  · exact append_iter_onEllipse a tol hx hy el h

example : (⟨⟨0, 0⟩, ⟨2, 1⟩, 0, 1, 0⟩ : Arc ℝ).radii.x ≠ 0 ∧ (⟨⟨0, 0⟩, ⟨2, 1⟩, 0, 1, 0⟩ : Arc ℝ).radii.y ≠ 0 := by
  constructor <;> norm_num

/-- ellipse outline: on the ellipse with the `svd` radii and rotation about `e.center` -/
theorem ellipse_endpoints_on_ellipse (e : Ellipse ℝ) (tol : ℝ) (hx : e.inner.svd.1.x ≠ 0) (hy : e.inner.svd.1.y ≠ 0) :
    ∀ el ∈ e.path_elements tol, ∃ p, el.end_point = some p ∧
      OnEllipse e.center e.inner.svd.1.x e.inner.svd.1.y e.inner.svd.2 p :=
  arc_endpoints_on_ellipse e.arc tol hx hy

/-- circle outline: every element other than `ClosePath` ends exactly on the ideal circle -/
theorem circle_endpoints_on_circle (c : Circle ℝ) (tol : ℝ) :
    ∀ el ∈ c.path_elements tol, el = PathEl.ClosePath ∨
      ∃ p, el.end_point = some p ∧ (p.x - c.center.x) ^ 2 + (p.y - c.center.y) ^ 2 = c.radius ^ 2 :=
  circle_elements_onCircle c tol

/-- the corner arcs of a rounded rectangle end on the corner circles (also for radius `0`) -/
theorem roundedRect_arc_endpoints_on_circle (s : RoundedRect ℝ) (tol : ℝ) :
    ∀ a ∈ s.arcs, ∀ el ∈ a.append_iter tol, ∃ p, el.end_point = some p ∧ OnCircle a.center a.radii.x p := by
  intro a ha
  rw [RoundedRect.arcs_eq] at ha
  simp only [List.mem_cons, List.not_mem_nil, or_false] at ha
  rcases ha with rfl | rfl | rfl | rfl <;> exact append_iter_onCircle _ tol _ rfl ofNat_zero_eq

/-- the two arcs of a circle segment end on the outer and on the inner circle -/
theorem cseg_arc_endpoints_on_circle (s : CircleSegment ℝ) (tol : ℝ) :
    (∀ el ∈ s.outer_arc.append_iter tol, ∃ p, el.end_point = some p ∧ OnCircle s.center s.outer_radius p) ∧
    (∀ el ∈ s.inner_arc.append_iter tol, ∃ p, el.end_point = some p ∧ OnCircle s.center s.inner_radius p) :=
  ⟨append_iter_onCircle _ tol _ rfl ofNat_zero_eq, append_iter_onCircle _ tol _ rfl ofNat_zero_eq⟩

/-! ### 7. tangent control arms -/

/-- the control arms `p1 − p0` and `p3 − p2` of piece `k` are `arm_len` times the derivative of
    `θ ↦ sampleEllipse radii rot θ` at the piece's start angle `θ_k` resp. end angle `θ_{k+1}` -/
theorem arc_arms_tangent (c : Point ℝ) (radii : Vec2 ℝ) (rot arm step start : ℝ) (k : Nat) :
    ∃ d0 d1 : Vec2 ℝ,
      (HasDerivAt (fun t => (sampleEllipse radii rot t).x) d0.x (accAngle start step k) ∧
       HasDerivAt (fun t => (sampleEllipse radii rot t).y) d0.y (accAngle start step k)) ∧
      (HasDerivAt (fun t => (sampleEllipse radii rot t).x) d1.x (accAngle start step (k + 1)) ∧
       HasDerivAt (fun t => (sampleEllipse radii rot t).y) d1.y (accAngle start step (k + 1))) ∧
      arcC1 c radii rot arm step start k - arcPt c radii rot step start k = (⟨arm * d0.x, arm * d0.y⟩ : Vec2 ℝ) ∧
      arcPt c radii rot step start (k + 1) - arcC2 c radii rot arm step start k = (⟨arm * d1.x, arm * d1.y⟩ : Vec2 ℝ) :=
  ⟨sampleEllipse radii rot (accAngle start step k + fracPi2), sampleEllipse radii rot (accAngle start step (k + 1) + fracPi2),
    sampleEllipse_hasDerivAt radii rot _, sampleEllipse_hasDerivAt radii rot _,
    (arc_arms c radii rot arm step start k).1, (arc_arms c radii rot arm step start k).2⟩

/-- same for the cubic `circleArcCubic ctr r a α β` (the pieces of a circle outline, see `circle_pieces_real`):
    `p0, p3` are the circle points at `α, β` and the arms are `a` times the derivative of `θ ↦ circlePt ctr r θ` -/
theorem circle_arms_tangent (ctr : Point ℝ) (r a α β : ℝ) :
    (circleArcCubic ctr r a α β).p0 = circlePt ctr r α ∧ (circleArcCubic ctr r a α β).p3 = circlePt ctr r β ∧
    ∃ d0 d1 : Vec2 ℝ,
      (HasDerivAt (fun t => (circlePt ctr r t).x) d0.x α ∧ HasDerivAt (fun t => (circlePt ctr r t).y) d0.y α) ∧
      (HasDerivAt (fun t => (circlePt ctr r t).x) d1.x β ∧ HasDerivAt (fun t => (circlePt ctr r t).y) d1.y β) ∧
      (circleArcCubic ctr r a α β).p1 - (circleArcCubic ctr r a α β).p0 = (⟨a * d0.x, a * d0.y⟩ : Vec2 ℝ) ∧
      (circleArcCubic ctr r a α β).p3 - (circleArcCubic ctr r a α β).p2 = (⟨a * d1.x, a * d1.y⟩ : Vec2 ℝ) :=
  ⟨rfl, rfl, ⟨-(r * Real.sin α), r * Real.cos α⟩, ⟨-(r * Real.sin β), r * Real.cos β⟩,
    circlePt_hasDerivAt ctr r α, circlePt_hasDerivAt ctr r β,
    (circleArcCubic_arms ctr r a α β).1, (circleArcCubic_arms ctr r a α β).2⟩

/-! ### 8. one traversal, closedness -/

/-- circle outline over ℝ: the pieces are the standard circular-arc cubics between `2πk/n` and `2π(k+1)/n`,
    `k = 0 … n − 1` (`circleAngle n k = 2π/n·k`), each starting where the one before ends; no closing line -/
theorem circle_pieces_real (c : Circle ℝ) (tol : ℝ) (hn : (c.pathParams tol).1 ≠ 0) :
    segs (c.path_elements tol)
      = some ((List.range (c.pathParams tol).1).map fun k => PathSeg.Cubic
          (circleArcCubic c.center c.radius (c.pathParams tol).2
            (circleAngle (c.pathParams tol).1 k) (circleAngle (c.pathParams tol).1 (k + 1)))) ∧
    circleAngle (c.pathParams tol).1 0 = 0 ∧ circleAngle (c.pathParams tol).1 (c.pathParams tol).1 = 2 * Real.pi :=
  ⟨circle_segs_real c tol hn, circleAngle_zero _, circleAngle_full _ hn⟩

end real

section count
variable [Scalar ℝ] [LawfulScalar ℝ] [LawfulTrig] [LawfulCount]

/-- the parameters of an arc outline over ℝ: `angle_step = sweep / n`, `arm_len = 4/3·tan|step/4|·sign`; there is no
    piece only when `sweep = 0`; every piece spans at most `2π/3.999999` (a hair more than a quarter turn) -/
theorem arc_params (a : Arc ℝ) (tol : ℝ) :
    (a.appendParams tol).2.2 = a.sweep_angle / ((a.appendParams tol).1 : ℝ)
      ∧ (a.appendParams tol).2.1
          = 4 / 3 * Real.tan |1 / 4 * (a.sweep_angle / ((a.appendParams tol).1 : ℝ))| * (if a.sweep_angle < 0 then -1 else 1)
      ∧ ((a.appendParams tol).1 = 0 → a.sweep_angle = 0)
      ∧ 3999999 / 1000000 * |a.sweep_angle| ≤ 2 * Real.pi * ((a.appendParams tol).1 : ℝ) :=
  appendParams_real a tol

/-- exactly one traversal: the accumulated angles are `θ_k = start + k·sweep/n` and the last one is `start + sweep`
    (for every arc and tolerance, also when `sweep = 0` and there is no piece) -/
theorem arc_total_angle (a : Arc ℝ) (tol : ℝ) :
    (∀ k, accAngle a.start_angle (a.appendParams tol).2.2 k
        = a.start_angle + k * (a.sweep_angle / ((a.appendParams tol).1 : ℝ))) ∧
    accAngle a.start_angle (a.appendParams tol).2.2 (a.appendParams tol).1 = a.start_angle + a.sweep_angle :=
  ⟨fun k => by rw [accAngle_eq, (appendParams_real a tol).1], arc_accAngle_total a tol⟩

/-- `n • angle_step = sweep` whenever there is a piece -/
theorem arc_steps_sum (a : Arc ℝ) (tol : ℝ) (hn : (a.appendParams tol).1 ≠ 0) :
    ((a.appendParams tol).1 : ℝ) * (a.appendParams tol).2.2 = a.sweep_angle := by
  have : ((a.appendParams tol).1 : ℝ) ≠ 0 := by exact_mod_cast hn
  rw [(appendParams_real a tol).1]; field_simp

/-- drawing the pieces from the arc's start point `c + S(start)` leaves the pen on `c + S(start + sweep)` -/
theorem arc_end_point (a : Arc ℝ) (tol : ℝ) :
    penAfter (a.center + sampleEllipse a.radii a.x_rotation a.start_angle) (a.append_iter tol)
      = a.center + sampleEllipse a.radii a.x_rotation (a.start_angle + a.sweep_angle) :=
  penAfter_arc_real a tol

/-- the two branches of the circle outline: `n = 4` with the fixed arm `0.551915024494` when `|r|/T < 1/1.9608e-4`,
    otherwise `n ≥ 5` with arm `4/3·tan(π/(2n))`; in particular `n ≠ 0` -/
theorem circle_piece_count (c : Circle ℝ) (tol : ℝ) :
    (|c.radius| / tol < 100000000 / 19608 ∧ c.pathParams tol = (4, 551915024494 / 1000000000000)) ∨
    (100000000 / 19608 ≤ |c.radius| / tol ∧ 5 ≤ (c.pathParams tol).1 ∧
      (c.pathParams tol).2 = 4 / 3 * Real.tan (Real.pi / 2 / ((c.pathParams tol).1 : ℝ))) :=
  pathParams_real c tol

theorem circle_piece_count_ne_zero (c : Circle ℝ) (tol : ℝ) : (c.pathParams tol).1 ≠ 0 := by
  rcases pathParams_real c tol with ⟨-, h⟩ | ⟨-, h, -⟩
  · rw [h]; decide
  · omega

/-- an ellipse outline returns to its starting point (`sin`, `cos` have period `2π`) -/
theorem ellipse_closed (e : Ellipse ℝ) (tol : ℝ) :
    ∃ p0, e.path_elements tol = PathEl.MoveTo p0 :: e.arc.append_iter tol ∧ penAfter p0 (e.arc.append_iter tol) = p0 :=
  ⟨_, rfl, (penAfter_arc_real e.arc tol).trans (ellipse_arc_closed_real e)⟩

/-- circle segment: `MoveTo A, LineTo B, outer arc, LineTo D, inner arc` where the outer arc starts on `B`
    (`= pointOnCircle outer start`) and ends on `pointOnCircle outer (start + sweep)`, `D = pointOnCircle inner
    (start + sweep)` is where the inner arc starts, and the inner arc ends on `A`: the outline returns to its start -/
theorem cseg_closed (s : CircleSegment ℝ) (tol : ℝ) :
    s.outer_arc.startPt = pointOnCircle s.center s.outer_radius s.start_angle ∧
    penAfter s.outer_arc.startPt (s.outer_arc.append_iter tol)
      = pointOnCircle s.center s.outer_radius (s.start_angle + s.sweep_angle) ∧
    s.inner_arc.startPt = pointOnCircle s.center s.inner_radius s.inner_arc.start_angle ∧
    s.inner_arc.startPt = pointOnCircle s.center s.inner_radius (s.start_angle + s.sweep_angle) ∧
    penAfter s.inner_arc.startPt (s.inner_arc.append_iter tol) = pointOnCircle s.center s.inner_radius s.start_angle := by
  obtain ⟨h1, h2, h3, h4⟩ := cseg_arc_points_real s
  refine ⟨h1, (penAfter_arc_real _ tol).trans h2, ?_, h3, (penAfter_arc_real _ tol).trans h4⟩
  rw [h3]; simp only [CircleSegment.inner_arc, scalar_norm]

/-- rounded rectangle: each corner arc starts exactly on the point where the straight piece before it ends
    (`p0 … p3`), and ends on the next side: at `(x0 + r_tl, y0)`, `(x1, y0 + r_tr)`, `(x1 − r_br, y1)`, `(x0, y1 − r_bl)`;
    the following `LineTo p1 / p2 / p3` and the closing line to `p0` are therefore axis-parallel -/
theorem roundedRect_joints (s : RoundedRect ℝ) (tol : ℝ) :
    (s.arcTL.startPt = s.p0 ∧ s.arcTR.startPt = s.p1 ∧ s.arcBR.startPt = s.p2 ∧ s.arcBL.startPt = s.p3) ∧
    (penAfter s.p0 (s.arcTL.append_iter tol) = ⟨s.rect.x0 + s.radii.top_left, s.rect.y0⟩ ∧
     penAfter s.p1 (s.arcTR.append_iter tol) = ⟨s.rect.x1, s.rect.y0 + s.radii.top_right⟩ ∧
     penAfter s.p2 (s.arcBR.append_iter tol) = ⟨s.rect.x1 - s.radii.bottom_right, s.rect.y1⟩ ∧
     penAfter s.p3 (s.arcBL.append_iter tol) = ⟨s.rect.x0, s.rect.y1 - s.radii.bottom_left⟩) ∧
    (s.p1.y = s.rect.y0 ∧ s.p2.x = s.rect.x1 ∧ s.p3.y = s.rect.y1 ∧ s.p0.x = s.rect.x0) := by
  obtain ⟨a0, a1, a2, a3⟩ := roundedRect_arc_starts_real s
  obtain ⟨e0, e1, e2, e3⟩ := roundedRect_arc_ends_real s
  refine ⟨⟨a0, a1, a2, a3⟩, ⟨?_, ?_, ?_, ?_⟩, rfl, rfl, rfl, rfl⟩
  · rw [← a0, penAfter_arc_real, e0]
  · rw [← a1, penAfter_arc_real, e1]
  · rw [← a2, penAfter_arc_real, e2]
  · rw [← a3, penAfter_arc_real, e3]

end count
end Kurbo

/-! ## 9. radial error of a circular piece; the tolerance claim for the fixed branch of circles -/
namespace Kurbo
section radial
variable [Scalar ℝ] [LawfulScalar ℝ]

/-- radial identity of one circular-arc cubic (arm `a·r`, between the angles `μ − φ` and `μ + φ`): with `σ = t(1 − t)`,
    `s = sin φ`, `c = cos φ`:  `|B(t) − ctr|² − r² = r²·(σ²·(9a² − 12s² + 12acs) − 4σ³·(2s − 3ac)²)`.
    (`B` is the model's `CubicBez.eval`; with `a = 4/3·tan(φ/2)` the `σ²` coefficient vanishes to fourth order in `φ`.) -/
theorem circle_piece_radial_identity (ctr : Point ℝ) (r a μ φ t : ℝ) :
    (((circleArcCubic ctr r a (μ - φ) (μ + φ)).eval t).x - ctr.x) ^ 2
      + (((circleArcCubic ctr r a (μ - φ) (μ + φ)).eval t).y - ctr.y) ^ 2 - r ^ 2
      = r ^ 2 * ((t * (1 - t)) ^ 2 * (9 * a ^ 2 - 12 * Real.sin φ ^ 2 + 12 * a * Real.cos φ * Real.sin φ)
          - 4 * (t * (1 - t)) ^ 3 * (2 * Real.sin φ - 3 * a * Real.cos φ) ^ 2) :=
  circleArcCubic_radial_identity ctr r a μ φ t

/-- the quarter-circle cubic `(1,0), (1,a), (a,1), (0,1)` with `a = 0.551915024494`
    (`qX a t, qY a t` are its Bernstein coordinates): `| |B(t)| − 1 | ≤ 1.9608e-4` on `[0, 1]` -/
theorem quarter_circle_radial_error {t : ℝ} (h0 : 0 ≤ t) (h1 : t ≤ 1) :
    |Real.sqrt (qX (551915024494 / 1000000000000) t ^ 2 + qY (551915024494 / 1000000000000) t ^ 2) - 1|
      ≤ 19608 / 100000000 :=
  quarter_radial_bound h0 h1

theorem quarter_circle_coords (a t : ℝ) :
    qX a t = (1 - t) ^ 3 * 1 + 3 * (1 - t) ^ 2 * t * 1 + 3 * (1 - t) * t ^ 2 * a + t ^ 3 * 0 ∧
    qY a t = (1 - t) ^ 3 * 0 + 3 * (1 - t) ^ 2 * t * a + 3 * (1 - t) * t ^ 2 * 1 + t ^ 3 * 1 := by
  unfold qX qY; constructor <;> ring

variable [LawfulTrig]

/-- THE TOLERANCE CLAIM FOR THE FIXED BRANCH OF CIRCLES: if `|r|/T < 1/1.9608e-4` (and `T > 0`), the outline is the four
    quarter cubics with arm `0.551915024494`, and EVERY point `B(t)`, `t ∈ [0,1]`, of every one of them is at a distance
    from the centre that differs from `|r|` by at most `1.9608e-4·|r| < T` -/
theorem circle_fixed_branch_within_tolerance (c : Circle ℝ) (tol : ℝ) (htol : 0 < tol)
    (hb : |c.radius| / tol < 100000000 / 19608) :
    segs (c.path_elements tol) = some ((List.range 4).map fun k => PathSeg.Cubic
        (circleArcCubic c.center c.radius (551915024494 / 1000000000000) (circleAngle 4 k) (circleAngle 4 (k + 1)))) ∧
    (∀ k : Nat, ∀ t : ℝ, 0 ≤ t → t ≤ 1 →
      abs (Real.sqrt ((((circleArcCubic c.center c.radius (551915024494 / 1000000000000)
              (circleAngle 4 k) (circleAngle 4 (k + 1))).eval t).x - c.center.x) ^ 2
          + (((circleArcCubic c.center c.radius (551915024494 / 1000000000000)
              (circleAngle 4 k) (circleAngle 4 (k + 1))).eval t).y - c.center.y) ^ 2) - abs c.radius)
        ≤ 19608 / 100000000 * abs c.radius) ∧
    19608 / 100000000 * abs c.radius < tol := by
  have hp := pathParams_fixed c tol hb
  refine ⟨?_, ?_, eps_radius_lt_tol htol hb⟩
  · have h := circle_segs_real c tol (by rw [hp]; decide)
    rw [hp] at h
    exact h
  · intro k t h0 h1
    rw [circleAngle_four_succ]
    exact circleArcCubic_quarter_radial c.center c.radius (circleAngle 4 k) h0 h1

-- non-vacuity: radius 1, tolerance 1/10
example : (0 : ℝ) < 1 / 10 ∧ |(1 : ℝ)| / (1 / 10) < 100000000 / 19608 := by
  constructor <;> norm_num

variable [LawfulCount]

/-- with the arm `4/3·tan(φ/2)` of the formula branch the squared distance is
    `r²·(1 + 16·S⁶/C²·(σ² − 4σ³))`, `S, C = sin, cos (φ/2)`, `σ = t(1−t)`: the piece never enters the circle and leaves
    it by the relative amount `≤ (2/27)·S⁶/C²` -/
theorem circle_piece_radial_identity_tan (ctr : Point ℝ) (r μ φ t : ℝ) (hC : Real.cos (φ / 2) ≠ 0) :
    (((circleArcCubic ctr r (4 / 3 * Real.tan (φ / 2)) (μ - φ) (μ + φ)).eval t).x - ctr.x) ^ 2
      + (((circleArcCubic ctr r (4 / 3 * Real.tan (φ / 2)) (μ - φ) (μ + φ)).eval t).y - ctr.y) ^ 2
      = r ^ 2 * (1 + 16 * Real.sin (φ / 2) ^ 6 / Real.cos (φ / 2) ^ 2 * ((t * (1 - t)) ^ 2 - 4 * (t * (1 - t)) ^ 3)) :=
  circleArcCubic_tan_dist_sq ctr r μ φ t hC

example : Real.cos ((Real.pi / 5) / 2) ≠ 0 :=
  (Real.cos_pos_of_mem_Ioo ⟨by linarith [Real.pi_pos], by linarith [Real.pi_pos]⟩).ne'

/-- the analytic core of the constant `1.1163`: for `n ≥ 5`, `(2/27)·sin⁶(π/2n)·n⁶ ≤ 1.1163·cos²(π/2n)`
    (the limit of the quotient is `(2/27)(π/2)⁶ = 1.11272`) -/
theorem circle_constant_bound (n : ℕ) (hn : 5 ≤ n) :
    2 / 27 * Real.sin (Real.pi / 2 / n) ^ 6 * (n : ℝ) ^ 6 ≤ 11163 / 10000 * Real.cos (Real.pi / 2 / n) ^ 2 :=
  trig_bound n hn

/-- THE TOLERANCE CLAIM FOR THE FORMULA BRANCH OF CIRCLES: if `|r|/T ≥ 1/1.9608e-4` (and `T > 0`), the outline is
    `n = ⌈(1.1163·|r|/T)^(1/6)⌉ ≥ 5` cubics with arm `4/3·tan(π/2n)`, and EVERY point `B(t)`, `t ∈ [0,1]`, of every one of
    them is at a distance from the centre that differs from `|r|` by at most `1.1163·|r|/n⁶ ≤ T` -/
theorem circle_formula_branch_within_tolerance (c : Circle ℝ) (tol : ℝ) (htol : 0 < tol)
    (hb : 100000000 / 19608 ≤ |c.radius| / tol) :
    5 ≤ (c.pathParams tol).1 ∧
    segs (c.path_elements tol) = some ((List.range (c.pathParams tol).1).map fun k => PathSeg.Cubic
        (circleArcCubic c.center c.radius (4 / 3 * Real.tan (Real.pi / 2 / ((c.pathParams tol).1 : ℝ)))
          (circleAngle (c.pathParams tol).1 k) (circleAngle (c.pathParams tol).1 (k + 1)))) ∧
    (∀ k : Nat, ∀ t : ℝ, 0 ≤ t → t ≤ 1 →
      abs (Real.sqrt ((((circleArcCubic c.center c.radius (4 / 3 * Real.tan (Real.pi / 2 / ((c.pathParams tol).1 : ℝ)))
              (circleAngle (c.pathParams tol).1 k) (circleAngle (c.pathParams tol).1 (k + 1))).eval t).x - c.center.x) ^ 2
          + (((circleArcCubic c.center c.radius (4 / 3 * Real.tan (Real.pi / 2 / ((c.pathParams tol).1 : ℝ)))
              (circleAngle (c.pathParams tol).1 k) (circleAngle (c.pathParams tol).1 (k + 1))).eval t).y - c.center.y) ^ 2)
          - abs c.radius) ≤ tol) := by
  rcases pathParams_real c tol with ⟨h, -⟩ | ⟨-, hn, ha⟩
  · exact absurd hb (not_le.mpr h)
  · refine ⟨hn, ?_, ?_⟩
    · have h := circle_segs_real c tol (by omega)
      rw [ha] at h
      exact h
    · intro k t h0 h1
      exact (circleArcCubic_formula_radial c.center c.radius _ k hn h0 h1).trans
        (radius_bound_le_tol htol hn (pathParams_pow c tol hb))

-- non-vacuity: radius 1000, tolerance 1/10
example : (0 : ℝ) < 1 / 10 ∧ (100000000 / 19608 : ℝ) ≤ |(1000 : ℝ)| / (1 / 10) := by
  constructor <;> norm_num

/-- THE TOLERANCE CLAIM FOR CIRCLES (both branches): for every circle and every tolerance `T > 0`, the outline is a
    list of cubics (`segs` does not panic), and every point `B(t)`, `t ∈ [0, 1]`, of every one of them is within `T`
    of the ideal circle: `| |B(t) − centre| − |r| | ≤ T` -/
theorem circle_within_tolerance (c : Circle ℝ) (tol : ℝ) (htol : 0 < tol) :
    ∃ ss, segs (c.path_elements tol) = some ss ∧ ∀ s ∈ ss, ∃ q, s = PathSeg.Cubic q ∧
      ∀ t : ℝ, 0 ≤ t → t ≤ 1 →
        abs (Real.sqrt (((q.eval t).x - c.center.x) ^ 2 + ((q.eval t).y - c.center.y) ^ 2) - abs c.radius) ≤ tol := by
  rcases lt_or_ge (|c.radius| / tol) (100000000 / 19608) with hb | hb
  · obtain ⟨h1, h2, h3⟩ := circle_fixed_branch_within_tolerance c tol htol hb
    refine ⟨_, h1, ?_⟩
    intro s hs
    obtain ⟨k, -, rfl⟩ := List.mem_map.mp hs
    exact ⟨_, rfl, fun t h0 h1' => ((h2 k t h0 h1').trans h3.le)⟩
  · obtain ⟨-, h1, h2⟩ := circle_formula_branch_within_tolerance c tol htol hb
    refine ⟨_, h1, ?_⟩
    intro s hs
    obtain ⟨k, -, rfl⟩ := List.mem_map.mp hs
    exact ⟨_, rfl, fun t h0 h1' => h2 k t h0 h1'⟩

/-! ### circular arcs (corner arcs of rounded rectangles, arcs of circle segments) -/

/-- piece `k` of an arc with radii `(R, R)` and no rotation is the standard circular-arc cubic between its two
    accumulated angles, and the arc's `arm_len` is `4/3·tan(step/4)` (the sign factor and `abs` of the source cancel) -/
theorem circular_arc_pieces (a : Arc ℝ) (tol R : ℝ) (k : Nat) :
    (⟨arcPt a.center ⟨R, R⟩ 0 (a.appendParams tol).2.2 a.start_angle k,
      arcC1 a.center ⟨R, R⟩ 0 (a.appendParams tol).2.1 (a.appendParams tol).2.2 a.start_angle k,
      arcC2 a.center ⟨R, R⟩ 0 (a.appendParams tol).2.1 (a.appendParams tol).2.2 a.start_angle k,
      arcPt a.center ⟨R, R⟩ 0 (a.appendParams tol).2.2 a.start_angle (k + 1)⟩ : CubicBez ℝ)
      = circleArcCubic a.center R (a.appendParams tol).2.1 (accAngle a.start_angle (a.appendParams tol).2.2 k)
          (accAngle a.start_angle (a.appendParams tol).2.2 (k + 1)) ∧
    (a.appendParams tol).2.1 = 4 / 3 * Real.tan ((a.appendParams tol).2.2 / 2 / 2) :=
  ⟨arc_piece_circular _ _ _ _ _ _, arc_arm_eq_tan a tol⟩

/-- THE TOLERANCE CLAIM FOR CIRCULAR ARCS, in the regime where the count formula works with `n_err ≥ 5`
    (`1.1163·R/T ≥ 5⁶`, i.e. `R/T ≥ 13997.2`): radii `(R, R)`, `R ≥ 0`, no rotation, `T > 0`: the outline's segments are
    `n` cubics and every point `B(t)`, `t ∈ [0,1]`, of every one of them is within `T` of the ideal circle -/
theorem circular_arc_within_tolerance (a : Arc ℝ) (tol R : ℝ) (hr : a.radii = ⟨R, R⟩) (hrot : a.x_rotation = 0)
    (hR : 0 ≤ R) (htol : 0 < tol) (hbig : 15625 ≤ 11163 / 10000 * (R / tol)) :
    ∃ ss, segs (a.path_elements tol) = some ss ∧ ss.length = (a.appendParams tol).1 ∧ ∀ s ∈ ss, ∃ q, s = PathSeg.Cubic q ∧
      ∀ t : ℝ, 0 ≤ t → t ≤ 1 →
        abs (Real.sqrt (((q.eval t).x - a.center.x) ^ 2 + ((q.eval t).y - a.center.y) ^ 2) - abs R) ≤ tol :=
  circular_arc_segs_within a tol R hr hrot hR htol hbig

-- non-vacuity: a quarter turn of radius 2000 at tolerance 1/10
example : (⟨⟨0, 0⟩, ⟨2000, 2000⟩, 0, 1, 0⟩ : Arc ℝ).radii = ⟨2000, 2000⟩ ∧ (0 : ℝ) ≤ 2000 ∧ (0 : ℝ) < 1 / 10 ∧
    (15625 : ℝ) ≤ 11163 / 10000 * (2000 / (1 / 10)) := by
  refine ⟨rfl, ?_, ?_, ?_⟩ <;> norm_num

/-- the corner arcs of a rounded rectangle (as outlined on their own from their start points, which by
    `roundedRect_joints` is where the pen is when they are drawn) stay within `T` of the corner circles when the
    corner radius `ρ ≥ 0` satisfies `1.1163·ρ/T ≥ 5⁶` -/
theorem roundedRect_corner_within_tolerance (s : RoundedRect ℝ) (tol : ℝ) (htol : 0 < tol) :
    ∀ a ∈ s.arcs, 0 ≤ a.radii.x → 15625 ≤ 11163 / 10000 * (a.radii.x / tol) →
      ∃ ss, segs (a.path_elements tol) = some ss ∧ ss.length = (a.appendParams tol).1 ∧ ∀ sg ∈ ss, ∃ q, sg = PathSeg.Cubic q ∧
        ∀ t : ℝ, 0 ≤ t → t ≤ 1 →
          abs (Real.sqrt (((q.eval t).x - a.center.x) ^ 2 + ((q.eval t).y - a.center.y) ^ 2) - abs a.radii.x) ≤ tol := by
  intro a ha
  rw [RoundedRect.arcs_eq] at ha
  simp only [List.mem_cons, List.not_mem_nil, or_false] at ha
  rcases ha with rfl | rfl | rfl | rfl <;>
    exact fun hR hbig => circular_arc_segs_within _ tol _ rfl ofNat_zero_eq hR htol hbig

/-- the two arcs of a circle segment, same regime -/
theorem cseg_arcs_within_tolerance (s : CircleSegment ℝ) (tol : ℝ) (htol : 0 < tol) :
    (0 ≤ s.outer_radius → 15625 ≤ 11163 / 10000 * (s.outer_radius / tol) →
      ∃ ss, segs (s.outer_arc.path_elements tol) = some ss ∧ ss.length = (s.outer_arc.appendParams tol).1 ∧
        ∀ sg ∈ ss, ∃ q, sg = PathSeg.Cubic q ∧ ∀ t : ℝ, 0 ≤ t → t ≤ 1 →
          abs (Real.sqrt (((q.eval t).x - s.center.x) ^ 2 + ((q.eval t).y - s.center.y) ^ 2) - abs s.outer_radius) ≤ tol) ∧
    (0 ≤ s.inner_radius → 15625 ≤ 11163 / 10000 * (s.inner_radius / tol) →
      ∃ ss, segs (s.inner_arc.path_elements tol) = some ss ∧ ss.length = (s.inner_arc.appendParams tol).1 ∧
        ∀ sg ∈ ss, ∃ q, sg = PathSeg.Cubic q ∧ ∀ t : ℝ, 0 ≤ t → t ≤ 1 →
          abs (Real.sqrt (((q.eval t).x - s.center.x) ^ 2 + ((q.eval t).y - s.center.y) ^ 2) - abs s.inner_radius) ≤ tol) :=
  ⟨fun hR hbig => circular_arc_segs_within s.outer_arc tol _ rfl ofNat_zero_eq hR htol hbig,
   fun hR hbig => circular_arc_segs_within s.inner_arc tol _ rfl ofNat_zero_eq hR htol hbig⟩

end radial
end Kurbo

/-! ## 10. the `svd` ellipse is the affine image of the unit circle -/
namespace Kurbo
section ellipse
variable [Scalar ℝ] [LawfulScalar ℝ] [LawfulTrig] [LawfulReal]

-- the additional class assumption (`Scalar.sqrt = Real.sqrt`, `atan2 y x = arg (x + iy)`, …) is satisfiable
example : @LawfulReal realScalar := realScalar_lawfulReal

/-- `Affine::svd` over ℝ: the radii are nonnegative and, with the returned angle `φ`, diagonalise the Gram matrix of the
    linear part `M = [[c0, c2], [c1, c3]]`:  `M·Mᵀ = R(φ)·diag(rx², ry²)·R(φ)ᵀ`;  and `rx·ry = |det M|` -/
theorem ellipse_svd_gram (A : Affine ℝ) :
    (0 ≤ A.svd.1.x ∧ 0 ≤ A.svd.1.y) ∧
    (A.svd.1.x ^ 2 * Real.cos A.svd.2 ^ 2 + A.svd.1.y ^ 2 * Real.sin A.svd.2 ^ 2 = A.c0 ^ 2 + A.c2 ^ 2 ∧
     (A.svd.1.x ^ 2 - A.svd.1.y ^ 2) * (Real.sin A.svd.2 * Real.cos A.svd.2) = A.c0 * A.c1 + A.c2 * A.c3 ∧
     A.svd.1.x ^ 2 * Real.sin A.svd.2 ^ 2 + A.svd.1.y ^ 2 * Real.cos A.svd.2 ^ 2 = A.c1 ^ 2 + A.c3 ^ 2) ∧
    A.svd.1.x * A.svd.1.y = |A.c0 * A.c3 - A.c1 * A.c2| := by
  obtain ⟨h1, h2, g⟩ := svd_gram A
  refine ⟨⟨h1, h2⟩, g, ?_⟩
  have := svd_radii_prod_sq A
  rw [← abs_of_nonneg (mul_nonneg h1 h2)]
  exact (sq_eq_sq_iff_abs_eq_abs _ _).mp this

-- non-vacuity of the determinant hypothesis: the ellipse with semi-axes 2 and 1
example : letI := realScalar; (⟨⟨2, 0, 0, 1, 0, 0⟩⟩ : Ellipse ℝ).inner.determinant ≠ 0 := by
  show ((2 : ℝ) * 1 - 0 * 0 ≠ 0)
  norm_num

/-- every element of an ellipse outline (the `MoveTo` and each `CurveTo`) ends on the image of the unit circle under
    the ellipse's affine map `e.inner` (non-singular): pulled back by `e.inner.inverse` it has squared length exactly `1`
    – the quantity that `Ellipse::winding` compares with `1` (C11) -/
theorem ellipse_endpoints_on_affine_image (e : Ellipse ℝ) (tol : ℝ) (hdet : e.inner.determinant ≠ 0) :
    ∀ el ∈ e.path_elements tol, ∃ p, el.end_point = some p ∧ (e.inner.inverse * p).to_vec2.hypot2 = 1 := by
  intro el h
  rw [ellipse_path_elements_eq, arc_path_structure, append_iter_eq] at h
  rcases List.mem_cons.mp h with rfl | h
  · exact ⟨_, rfl, svd_sample_on_image e.inner hdet _⟩
  · obtain ⟨k, -, rfl⟩ := mem_curveEls h
    exact ⟨_, rfl, svd_sample_on_image e.inner hdet _⟩

end ellipse
end Kurbo
