import Proofs.Lemmas.C19
/-! C19 – results do not depend on the floating-point back end.
    PROVED (finite table, decided by the kernel): for every row of `define_float_funcs!` – re-extracted from kurbo/src/common.rs on every run
    and proved equal to the pinned table in `Proofs/GenEquivFF.lean` – the `libm` function has the same meaning as the `std` method
    (`ln ↦ log`, `abs ↦ fabs`, `mul_add(a, b) ↦ fma(self, a, b)`, `powi ↦ pow` with the integer cast, `sin_cos ↦ sincos`), the same argument
    list in the same order, the same result type, the f32 name is the f64 name + `f`; all 19 non-core float methods the crate calls have a row,
    none twice; the hand-written `signum` is `1.0.copysign(self)` with NaN passed through.
    NOT PROVED: numerical closeness of the two back ends – compared op by op on a seeded corpus by gen/c19.py. -/
namespace Kurbo
open Kurbo.FF

theorem float_funcs_table_correct : floatFuncRows.all rowOk = true := by decide +kernel
theorem float_funcs_coverage : coverageOk floatFuncRows = true := by decide +kernel
theorem float_funcs_count : floatFuncRows.length = 20 := by decide
theorem signum_body : floatSignumBody = signumBodyPinned := by decide +kernel

/-- swapped mappings are rejected by `rowOk` (the check is not vacuous) -/
example : rowOk { method := [102, 108, 111, 111, 114], args := [], ret := [83, 101, 108, 102], libm64 := [99, 101, 105, 108], libm32 := [99, 101, 105, 108, 102] } = false := by
  decide +kernel

end Kurbo
