import Proofs.Lemmas.C08Path
import Proofs.Lemmas.C08Mono
import Proofs.Lemmas.Discharge
/-! C08 – bounding boxes and extrema.

    PROVED (about the model definitions of `Kurbo/Curve.lean` exactly as they are):

    * extrema of a quadratic (`QuadBez.extrema`), any lawful scalar, unconditional:
      `quad_extrema_sound`, `quad_extrema_complete`, `quad_extrema_iff` (exact characterisation),
      `quad_extrema_sorted_le2`;
    * extrema of a cubic (`CubicBez.extrema`), any lawful scalar, under the solver specification
      `QuadSolverSpec K` (an explicit hypothesis `S`, to be discharged by C15): `cubic_extrema_sound`,
      `cubic_extrema_complete`, `cubic_extrema_iff`, `cubic_extrema_sorted_le4`; without the hypothesis: `cubic_extrema_unit_sorted`
      (inside (0,1), increasing – the filter and the sort do not depend on the solver), `sortList_spec`;
    * `extremaRanges_tile_struct` (any `Scalar`, also `Float`), `extremaRanges_tile` (lawful),
      `seg_extrema_ranges_tile`: the ranges are the consecutive pairs of `0, t₁, …, tₙ, 1`;
    * `controlBox_contains_point` (convex hull property, any lawful scalar), `seg_bbox_subset_of_control`,
      `controlBox_contains_path_bbox` (path level, for paths with at least one segment);
    * `seg_bbox_tight`, `path_bbox_tight` (any lawful scalar, unconditional, cubics included);
    * `line_bbox_contains` (any lawful scalar), `quad_bbox_contains` (ℝ, unconditional),
      `seg_bbox_contains` (ℝ, all three kinds, cubics under `S`), `path_bbox_contains_boxes` (lawful),
      `path_bbox_contains` (ℝ, under `S`);
    * `quad_ranges_monotone`, `seg_ranges_monotone` (ℝ; cubics under `S`): on every range of `extrema_ranges`
      each coordinate is monotone or antitone.

    NOT PROVED / caveats:

    * `QuadSolverSpec` itself (that `solveQuadratic` meets it) is not proved here – it is C15's theorem and needs
      an exact square root (`Scalar.sqrt`), so it is not true for `K = ℚ`; every theorem that takes `S` is
      conditional on it.  The theorems without `S` are unconditional.
    * The lists are increasing in the weak sense (`≤`): a common root of x′ and y′ is listed twice (as in the crate).
    * `controlBox_contains_path_bbox` needs "the path has a segment": for `[MoveTo p]` the model (like the crate)
      returns the zero rectangle as bounding box but `(p,p)` as control box (example at the end).
    * Nothing here is about `Float`: containment/tightness up to rounding is only supported by the tests. -/
set_option linter.unusedSectionVars false
namespace Kurbo

/-- the model's literals `0` and `1` of an arbitrary (not necessarily lawful) scalar -/
local notation "𝟘" => (@OfNat.ofNat _ 0 Kurbo.Ops.instOfNat)
local notation "𝟙" => (@OfNat.ofNat _ 1 Kurbo.Ops.instOfNat)

/-! ## 3a. the ranges tile: structural part, every `Scalar` (also `Float`) -/
section anyScalar
variable {K : Type} [Scalar K]

/-- `extremaRangesFrom t0 [t₁,…,tₙ]` is `[t0,t₁], [t₁,t₂], …, [tₙ,1]`: it starts at `t0`, ends at `1`, consecutive
    ranges share their end point, and there are `n + 1` of them -/
theorem extremaRanges_tile_struct (t0 : K) (ts : List K) :
    extremaRangesFrom t0 ts = List.zipWith Range.mk (t0 :: ts) (ts ++ [𝟙]) ∧
    (extremaRangesFrom t0 ts).length = ts.length + 1 ∧
    (∃ h, ((extremaRangesFrom t0 ts).head h).start = t0) ∧
    (∃ h, ((extremaRangesFrom t0 ts).getLast h).«end» = 𝟙) ∧
    (extremaRangesFrom t0 ts).IsChain (fun r s => r.«end» = s.start) :=
  ⟨extremaRangesFrom_eq_zipWith t0 ts, length_extremaRangesFrom t0 ts,
    ⟨extremaRangesFrom_ne_nil t0 ts, head_extremaRangesFrom t0 ts⟩,
    ⟨extremaRangesFrom_ne_nil t0 ts, getLast_extremaRangesFrom t0 ts⟩, chain_extremaRangesFrom t0 ts⟩

/-- `extrema_ranges` of a segment starts at the model's `0` -/
theorem seg_extrema_ranges_struct (s : PathSeg K) :
    s.extrema_ranges = List.zipWith Range.mk (𝟘 :: s.extrema) (s.extrema ++ [𝟙]) ∧
    s.extrema_ranges.length = s.extrema.length + 1 :=
  ⟨extremaRangesFrom_eq_zipWith _ _, length_extremaRangesFrom _ _⟩

end anyScalar

/-! ## lawful scalars (ℚ, ℝ, …) -/
section lawful
variable {K : Type} [Field K] [LinearOrder K] [IsStrictOrderedRing K] [FloorRing K] [Scalar K] [LawfulScalar K]

/-! ### 1. extrema of a quadratic (no solver involved: unconditional) -/

/-- every listed parameter is interior and a zero of x′ or of y′ -/
theorem quad_extrema_sound (q : QuadBez K) (t : K) (h : t ∈ q.extrema) :
    0 < t ∧ t < 1 ∧ ((q.deriv.eval t).x = 0 ∨ (q.deriv.eval t).y = 0) := by
  rw [(quad_extrema_facts q).1] at h
  rcases h with h | h <;> rw [mem_unitRoot] at h <;> refine ⟨h.2.1, h.2.2.1, ?_⟩
  · left
    rw [(quad_deriv_eval q t).1, (affine_root_iff _ _ t h.1).mpr h.2.2.2, mul_zero]
  · right
    rw [(quad_deriv_eval q t).2, (affine_root_iff _ _ t h.1).mpr h.2.2.2, mul_zero]

/-- every interior zero of x′ (resp. y′) is listed, unless x′ (resp. y′) vanishes identically -/
theorem quad_extrema_complete (q : QuadBez K) (t : K) (h0 : 0 < t) (h1 : t < 1)
    (h : ((q.deriv.eval t).x = 0 ∧ ∃ u, (q.deriv.eval u).x ≠ 0) ∨
         ((q.deriv.eval t).y = 0 ∧ ∃ u, (q.deriv.eval u).y ≠ 0)) : t ∈ q.extrema := by
  rcases h with ⟨hz, u, hu⟩ | ⟨hz, u, hu⟩
  · rcases quad_crit_x q t h0 h1 hz with h | h
    · exact h
    · exact absurd (h u) hu
  · rcases quad_crit_y q t h0 h1 hz with h | h
    · exact h
    · exact absurd (h u) hu

example : let q : QuadBez Rat := ⟨⟨0, 0⟩, ⟨1, 1⟩, ⟨0, 2⟩⟩
    (0 : Rat) < 1 / 2 ∧ (1 / 2 : Rat) < 1 ∧ (q.deriv.eval (1 / 2)).x = 0 ∧ (q.deriv.eval 0).x ≠ 0 ∧
      q.extrema = [1 / 2] := by decide +kernel

/-- exact characterisation of the list as a set -/
theorem quad_extrema_iff (q : QuadBez K) (t : K) :
    t ∈ q.extrema ↔ 0 < t ∧ t < 1 ∧
      (((q.deriv.eval t).x = 0 ∧ ∃ u, (q.deriv.eval u).x ≠ 0) ∨
       ((q.deriv.eval t).y = 0 ∧ ∃ u, (q.deriv.eval u).y ≠ 0)) := by
  constructor
  · intro h
    have hs := quad_extrema_sound q t h
    refine ⟨hs.1, hs.2.1, ?_⟩
    rw [(quad_extrema_facts q).1] at h
    rcases h with h | h <;> rw [mem_unitRoot] at h
    · left
      refine ⟨?_, ?_⟩
      · rw [(quad_deriv_eval q t).1, (affine_root_iff _ _ t h.1).mpr h.2.2.2, mul_zero]
      · by_contra hall
        simp only [not_exists, not_not] at hall
        have a0 := hall 0
        have a1 := hall 1
        rw [(quad_deriv_eval q _).1] at a0 a1
        exact h.1 (by linear_combination (1 / 2 : K) * a1 - (1 / 2 : K) * a0)
    · right
      refine ⟨?_, ?_⟩
      · rw [(quad_deriv_eval q t).2, (affine_root_iff _ _ t h.1).mpr h.2.2.2, mul_zero]
      · by_contra hall
        simp only [not_exists, not_not] at hall
        have a0 := hall 0
        have a1 := hall 1
        rw [(quad_deriv_eval q _).2] at a0 a1
        exact h.1 (by linear_combination (1 / 2 : K) * a1 - (1 / 2 : K) * a0)
  · rintro ⟨h0, h1, h⟩
    exact quad_extrema_complete q t h0 h1 h

/-- increasing order, at most two -/
theorem quad_extrema_sorted_le2 (q : QuadBez K) : q.extrema.Pairwise (· ≤ ·) ∧ q.extrema.length ≤ 2 :=
  (quad_extrema_facts q).2

-- both coordinates contribute, the y-root is smaller and is moved to the front
example : (⟨⟨0, 0⟩, ⟨3, 1⟩, ⟨2, -2⟩⟩ : QuadBez Rat).extrema = [1 / 4, 3 / 4] := by decide +kernel

/-! ### 2. extrema of a cubic (through `solveQuadratic`: under `QuadSolverSpec`) -/

/-- the sort used by `CubicBez.extrema` is a sort: it permutes its input into increasing order -/
theorem sortList_spec (l : List K) : (sortList l).Perm l ∧ (sortList l).Pairwise (· ≤ ·) :=
  ⟨sortList_perm l, sortList_sorted l⟩

/-- independent of the solver: every listed parameter is interior, and the list is increasing -/
theorem cubic_extrema_unit_sorted (c : CubicBez K) :
    (∀ t ∈ c.extrema, 0 < t ∧ t < 1) ∧ c.extrema.Pairwise (· ≤ ·) :=
  ⟨fun t h => seg_extrema_unit (.Cubic c) t h, seg_extrema_sorted (.Cubic c)⟩

/-- every listed parameter is interior and a zero of x′ or of y′ -/
theorem cubic_extrema_sound (S : QuadSolverSpec K) (c : CubicBez K) (t : K) (h : t ∈ c.extrema) :
    0 < t ∧ t < 1 ∧ ((c.deriv.eval t).x = 0 ∨ (c.deriv.eval t).y = 0) := by
  rw [mem_cubic_extrema] at h
  rcases h with h | h
  · obtain ⟨h0, h1, hz⟩ := cubicOneCoord_sound S _ _ _ t h
    exact ⟨h0, h1, Or.inl (by rw [(cubic_deriv_eval c t).1, hz, mul_zero])⟩
  · obtain ⟨h0, h1, hz⟩ := cubicOneCoord_sound S _ _ _ t h
    exact ⟨h0, h1, Or.inr (by rw [(cubic_deriv_eval c t).2, hz, mul_zero])⟩

/-- every interior zero of x′ (resp. y′) is listed, unless x′ (resp. y′) vanishes identically -/
theorem cubic_extrema_complete (S : QuadSolverSpec K) (c : CubicBez K) (t : K) (h0 : 0 < t) (h1 : t < 1)
    (h : ((c.deriv.eval t).x = 0 ∧ ∃ u, (c.deriv.eval u).x ≠ 0) ∨
         ((c.deriv.eval t).y = 0 ∧ ∃ u, (c.deriv.eval u).y ≠ 0)) : t ∈ c.extrema := by
  rcases h with ⟨hz, u, hu⟩ | ⟨hz, u, hu⟩
  · rcases cubic_crit_x S c t h0 h1 hz with h | h
    · exact h
    · exact absurd (h u) hu
  · rcases cubic_crit_y S c t h0 h1 hz with h | h
    · exact h
    · exact absurd (h u) hu

/-- exact characterisation of the list as a set -/
theorem cubic_extrema_iff (S : QuadSolverSpec K) (c : CubicBez K) (t : K) :
    t ∈ c.extrema ↔ 0 < t ∧ t < 1 ∧
      (((c.deriv.eval t).x = 0 ∧ ∃ u, (c.deriv.eval u).x ≠ 0) ∨
       ((c.deriv.eval t).y = 0 ∧ ∃ u, (c.deriv.eval u).y ≠ 0)) := by
  constructor
  · intro h
    rw [mem_cubic_extrema] at h
    rcases h with h | h
    · obtain ⟨h0, h1, hz⟩ := cubicOneCoord_sound S _ _ _ t h
      refine ⟨h0, h1, Or.inl ⟨by rw [(cubic_deriv_eval c t).1, hz, mul_zero], ?_⟩⟩
      by_contra hall
      simp only [not_exists, not_not] at hall
      have hz := quadpoly_zero _ _ _ (fun u => by rw [← (cubic_deriv_eval c u).1]; exact hall u)
      rcases cubicOneCoord_nonzero S _ _ _ t h with e | e | e
      · exact e hz.1
      · exact e hz.2.1
      · exact e hz.2.2
    · obtain ⟨h0, h1, hz⟩ := cubicOneCoord_sound S _ _ _ t h
      refine ⟨h0, h1, Or.inr ⟨by rw [(cubic_deriv_eval c t).2, hz, mul_zero], ?_⟩⟩
      by_contra hall
      simp only [not_exists, not_not] at hall
      have hz := quadpoly_zero _ _ _ (fun u => by rw [← (cubic_deriv_eval c u).2]; exact hall u)
      rcases cubicOneCoord_nonzero S _ _ _ t h with e | e | e
      · exact e hz.1
      · exact e hz.2.1
      · exact e hz.2.2
  · rintro ⟨h0, h1, h⟩
    exact cubic_extrema_complete S c t h0 h1 h

/-- increasing order, at most four -/
theorem cubic_extrema_sorted_le4 (S : QuadSolverSpec K) (c : CubicBez K) :
    c.extrema.Pairwise (· ≤ ·) ∧ c.extrema.length ≤ 4 := by
  refine ⟨(cubic_extrema_unit_sorted c).2, ?_⟩
  rw [cubic_extrema_eq, length_sortList, List.length_append]
  have h1 := cubicOneCoord_length S (c.p1.x - c.p0.x) (c.p2.x - c.p1.x) (c.p3.x - c.p2.x)
  have h2 := cubicOneCoord_length S (c.p1.y - c.p0.y) (c.p2.y - c.p1.y) (c.p3.y - c.p2.y)
  omega

-- `QuadSolverSpec` is C15's theorem about `solveQuadratic` (it needs an exact `Scalar.sqrt`, so it is a statement
-- about ℝ-like scalars, not about ℚ); on inputs where the rational square root is exact the model over ℚ agrees
-- with each of its clauses:
example : solveQuadratic (3 : Rat) (-16) 16 = [1 / 4, 3 / 4] ∧ solveQuadratic (2 : Rat) (-4) 0 = [-2 / -4] ∧
    solveQuadratic (0 : Rat) 0 0 = [0] ∧ solveQuadratic (1 : Rat) 0 0 = [] := by decide +kernel

-- a cubic over ℚ on which the model's solver is exact: x′ is linear (root 1/2), y′ has the roots 1/4 and 3/4
example : let c : CubicBez Rat := ⟨⟨0, 0⟩, ⟨2, 3⟩, ⟨2, -2⟩, ⟨0, 1⟩⟩
    c.extrema = [1 / 4, 1 / 2, 3 / 4] ∧ (c.deriv.eval (1 / 2)).x = 0 ∧ (c.deriv.eval (1 / 4)).y = 0 ∧
      (c.deriv.eval (3 / 4)).y = 0 ∧ (c.deriv.eval 0).x ≠ 0 ∧ (c.deriv.eval 0).y ≠ 0 := by decide +kernel

/-! ### 3b. the ranges tile `[0,1]` -/

/-- for an increasing list inside `(0,1)`: the ranges are the consecutive pairs of `0, t₁, …, tₙ, 1`, each range is
    ordered and inside `[0,1]`, and no listed parameter lies strictly inside a range -/
theorem extremaRanges_tile (ts : List K) (hunit : ∀ t ∈ ts, 0 < t ∧ t < 1) (hs : ts.Pairwise (· ≤ ·)) :
    extremaRangesFrom 0 ts = List.zipWith Range.mk (0 :: ts) (ts ++ [1]) ∧
    (extremaRangesFrom 0 ts).length = ts.length + 1 ∧
    (extremaRangesFrom 0 ts).IsChain (fun r s => r.«end» = s.start) ∧
    (∀ r ∈ extremaRangesFrom 0 ts, 0 ≤ r.start ∧ r.start ≤ r.«end» ∧ r.«end» ≤ 1) ∧
    (∀ r ∈ extremaRangesFrom 0 ts, ∀ t ∈ ts, ¬ (r.start < t ∧ t < r.«end»)) := by
  refine ⟨?_, length_extremaRangesFrom _ _, chain_extremaRangesFrom _ _, ?_, ?_⟩
  · have h := extremaRangesFrom_eq_zipWith (0 : K) ts
    simp only [scalar_norm] at h; push_cast at h; exact h
  · exact extremaRangesFrom_ordered 0 ts (fun t ht => (hunit t ht).1.le) zero_le_one hs
      (fun t ht => (hunit t ht).2.le)
  · intro r hr
    exact (extremaRangesFrom_gap 0 ts (fun t ht => (hunit t ht).1.le) hs r hr).2

example : (∀ t ∈ ([1 / 4, 1 / 2] : List Rat), 0 < t ∧ t < 1) ∧ ([1 / 4, 1 / 2] : List Rat).Pairwise (· ≤ ·) := by
  constructor
  · intro t ht; simp only [List.mem_cons, List.not_mem_nil, or_false] at ht
    rcases ht with rfl | rfl <;> norm_num
  · simp; norm_num

/-- the same for the ranges of a segment; needs no hypothesis (the extrema of every segment are increasing and
    interior, also for cubics, whatever the solver returns) -/
theorem seg_extrema_ranges_tile (s : PathSeg K) :
    s.extrema_ranges = List.zipWith Range.mk (0 :: s.extrema) (s.extrema ++ [1]) ∧
    s.extrema_ranges.length = s.extrema.length + 1 ∧
    s.extrema_ranges.IsChain (fun r s => r.«end» = s.start) ∧
    (∀ r ∈ s.extrema_ranges, 0 ≤ r.start ∧ r.start ≤ r.«end» ∧ r.«end» ≤ 1) ∧
    (∀ r ∈ s.extrema_ranges, ∀ t ∈ s.extrema, ¬ (r.start < t ∧ t < r.«end»)) := by
  rw [seg_extrema_ranges_eq]
  exact extremaRanges_tile s.extrema (seg_extrema_unit s) (seg_extrema_sorted s)

/-! ### 6. the control polygon's box contains the curve -/

/-- every point of a segment whose control points all lie in a closed box lies in that box -/
theorem controlBox_contains_point (r : Rect K) (s : PathSeg K) (h : ∀ p ∈ s.controlPoints, r.ContainsClosed p)
    (t : K) (ht0 : 0 ≤ t) (ht1 : t ≤ 1) : r.ContainsClosed (s.eval t) :=
  seg_eval_in_box r s h t ht0 ht1

example : let r : Rect Rat := ⟨0, -2, 2, 3⟩
    ∀ p ∈ (PathSeg.Cubic (⟨⟨0, 0⟩, ⟨2, 3⟩, ⟨2, -2⟩, ⟨0, 1⟩⟩ : CubicBez Rat)).controlPoints, r.ContainsClosed p := by
  intro r p hp
  simp only [PathSeg.controlPoints, List.mem_cons, List.not_mem_nil, or_false] at hp
  rcases hp with rfl | rfl | rfl | rfl <;> (unfold Rect.ContainsClosed; norm_num)

/-! ### 5. the box of a segment is tight (unconditional, cubics included) -/

/-- each of the four sides of `bounding_box` is touched by the curve at some parameter of `[0,1]` -/
theorem seg_bbox_tight (s : PathSeg K) :
    (∃ t, 0 ≤ t ∧ t ≤ 1 ∧ (s.eval t).x = s.bounding_box.x0) ∧
    (∃ t, 0 ≤ t ∧ t ≤ 1 ∧ (s.eval t).y = s.bounding_box.y0) ∧
    (∃ t, 0 ≤ t ∧ t ≤ 1 ∧ (s.eval t).x = s.bounding_box.x1) ∧
    (∃ t, 0 ≤ t ∧ t ≤ 1 ∧ (s.eval t).y = s.bounding_box.y1) := by
  rw [seg_bounding_box_eq]
  exact fold_box_tight (fun t => s.eval t) s.extrema (seg_extrema_unit s)

/-- hence the box of a segment lies inside every closed box that contains its control points -/
theorem seg_bbox_subset_of_control (r : Rect K) (s : PathSeg K) (h : ∀ p ∈ s.controlPoints, r.ContainsClosed p) :
    r.ContainsRectP s.bounding_box := by
  obtain ⟨⟨t1, a1, b1, e1⟩, ⟨t2, a2, b2, e2⟩, ⟨t3, a3, b3, e3⟩, ⟨t4, a4, b4, e4⟩⟩ := seg_bbox_tight s
  have c1 := seg_eval_in_box r s h t1 a1 b1
  have c2 := seg_eval_in_box r s h t2 a2 b2
  have c3 := seg_eval_in_box r s h t3 a3 b3
  have c4 := seg_eval_in_box r s h t4 a4 b4
  exact ⟨e1 ▸ c1.1, e2 ▸ c2.2.2.1, e3 ▸ c3.2.1, e4 ▸ c4.2.2.2⟩

/-! ### 4a. containment for lines (convexity; any lawful scalar) -/

theorem line_bbox_contains (l : Line K) (t : K) (ht0 : 0 ≤ t) (ht1 : t ≤ 1) :
    (PathSeg.Line l).bounding_box.ContainsClosed ((PathSeg.Line l).eval t) :=
  line_bbox_contains_aux l t ht0 ht1

/-! ### 7a. path level, algebraic part -/

/-- the box of a path contains the box of each of its segments -/
theorem path_bbox_contains_boxes (els : List (PathEl K)) (ss : List (PathSeg K)) (bb : Rect K)
    (hs : segs els = some ss) (hb : pathBoundingBox els = some bb) :
    ∀ s ∈ ss, bb.ContainsRectP s.bounding_box := by
  unfold pathBoundingBox at hb
  rw [hs] at hb
  simp only [Option.map_some, Option.some.injEq] at hb
  cases ss with
  | nil => simp
  | cons s0 rest =>
    simp only at hb
    subst hb
    obtain ⟨h1, h2⟩ := foldl_union_contains (fun t : PathSeg K => t.bounding_box) rest s0.bounding_box
    intro s hs
    rcases List.mem_cons.mp hs with rfl | hs
    · exact h1
    · exact h2 s hs

/-- the box of a path with at least one segment is tight: each side is touched by one of its segments -/
theorem path_bbox_tight (els : List (PathEl K)) (ss : List (PathSeg K)) (bb : Rect K)
    (hs : segs els = some ss) (hne : ss ≠ []) (hb : pathBoundingBox els = some bb) :
    (∃ s ∈ ss, ∃ t, 0 ≤ t ∧ t ≤ 1 ∧ (s.eval t).x = bb.x0) ∧
    (∃ s ∈ ss, ∃ t, 0 ≤ t ∧ t ≤ 1 ∧ (s.eval t).y = bb.y0) ∧
    (∃ s ∈ ss, ∃ t, 0 ≤ t ∧ t ≤ 1 ∧ (s.eval t).x = bb.x1) ∧
    (∃ s ∈ ss, ∃ t, 0 ≤ t ∧ t ≤ 1 ∧ (s.eval t).y = bb.y1) := by
  unfold pathBoundingBox at hb
  rw [hs] at hb
  simp only [Option.map_some, Option.some.injEq] at hb
  cases ss with
  | nil => exact absurd rfl hne
  | cons s0 rest =>
    simp only at hb
    subst hb
    obtain ⟨h1, h2, h3, h4⟩ := foldl_union_attained (fun t : PathSeg K => t.bounding_box) rest s0.bounding_box
    refine ⟨?_, ?_, ?_, ?_⟩
    · rcases h1 with h | ⟨s, hs, h⟩
      · obtain ⟨t, a, b, e⟩ := (seg_bbox_tight s0).1
        exact ⟨s0, by simp, t, a, b, e.trans h.symm⟩
      · obtain ⟨t, a, b, e⟩ := (seg_bbox_tight s).1
        exact ⟨s, by simp [hs], t, a, b, e.trans h.symm⟩
    · rcases h2 with h | ⟨s, hs, h⟩
      · obtain ⟨t, a, b, e⟩ := (seg_bbox_tight s0).2.1
        exact ⟨s0, by simp, t, a, b, e.trans h.symm⟩
      · obtain ⟨t, a, b, e⟩ := (seg_bbox_tight s).2.1
        exact ⟨s, by simp [hs], t, a, b, e.trans h.symm⟩
    · rcases h3 with h | ⟨s, hs, h⟩
      · obtain ⟨t, a, b, e⟩ := (seg_bbox_tight s0).2.2.1
        exact ⟨s0, by simp, t, a, b, e.trans h.symm⟩
      · obtain ⟨t, a, b, e⟩ := (seg_bbox_tight s).2.2.1
        exact ⟨s, by simp [hs], t, a, b, e.trans h.symm⟩
    · rcases h4 with h | ⟨s, hs, h⟩
      · obtain ⟨t, a, b, e⟩ := (seg_bbox_tight s0).2.2.2
        exact ⟨s0, by simp, t, a, b, e.trans h.symm⟩
      · obtain ⟨t, a, b, e⟩ := (seg_bbox_tight s).2.2.2
        exact ⟨s, by simp [hs], t, a, b, e.trans h.symm⟩

/-- `control_box` contains every control point of every segment of the path … -/
theorem controlBox_contains_control_points (els : List (PathEl K)) (ss : List (PathSeg K)) (hs : segs els = some ss) :
    ∀ s ∈ ss, ∀ p ∈ s.controlPoints, (controlBox els).ContainsClosed p :=
  segs_pts (fun p => (controlBox els).ContainsClosed p) els ss hs (controlBox_contains_elPoints els)

/-- … hence every point of the path … -/
theorem controlBox_contains_path_point (els : List (PathEl K)) (ss : List (PathSeg K)) (hs : segs els = some ss)
    (s : PathSeg K) (hmem : s ∈ ss) (t : K) (ht0 : 0 ≤ t) (ht1 : t ≤ 1) :
    (controlBox els).ContainsClosed (s.eval t) :=
  seg_eval_in_box _ s (controlBox_contains_control_points els ss hs s hmem) t ht0 ht1

/-- … and the bounding box of the path, provided the path has a segment -/
theorem controlBox_contains_path_bbox (els : List (PathEl K)) (ss : List (PathSeg K)) (bb : Rect K)
    (hs : segs els = some ss) (hne : ss ≠ []) (hb : pathBoundingBox els = some bb) :
    (controlBox els).ContainsRectP bb := by
  have hseg : ∀ s ∈ ss, (controlBox els).ContainsRectP s.bounding_box := fun s hmem =>
    seg_bbox_subset_of_control _ s (controlBox_contains_control_points els ss hs s hmem)
  unfold pathBoundingBox at hb
  rw [hs] at hb
  simp only [Option.map_some, Option.some.injEq] at hb
  cases ss with
  | nil => exact absurd rfl hne
  | cons s0 rest =>
    simp only at hb
    subst hb
    exact foldl_union_least (fun t : PathSeg K => t.bounding_box) rest s0.bounding_box _
      (hseg s0 (by simp)) (fun s hmem => hseg s (by simp [hmem]))

-- hypotheses are satisfiable …
example : let els : List (PathEl Rat) := [.MoveTo ⟨0, 0⟩, .QuadTo ⟨1, 1⟩ ⟨0, 2⟩, .LineTo ⟨3, 3⟩]
    segs els = some [.Quad ⟨⟨0, 0⟩, ⟨1, 1⟩, ⟨0, 2⟩⟩, .Line ⟨⟨0, 2⟩, ⟨3, 3⟩⟩] ∧
    pathBoundingBox els = some ⟨0, 0, 3, 3⟩ ∧ controlBox els = ⟨0, 0, 3, 3⟩ := by decide +kernel
-- … and `ss ≠ []` cannot be dropped: a lone `MoveTo` has the zero rectangle as bounding box
example : let els : List (PathEl Rat) := [.MoveTo ⟨5, 5⟩]
    segs els = some [] ∧ pathBoundingBox els = some ⟨0, 0, 0, 0⟩ ∧ controlBox els = ⟨5, 5, 5, 5⟩ := by decide +kernel

end lawful

/-! ## ℝ: containment and monotone ranges (analysis) -/
section real
variable [Scalar ℝ] [LawfulScalar ℝ]

/-! ### 4b. the box contains the curve -/

/-- quadratics: unconditional -/
theorem quad_bbox_contains (q : QuadBez ℝ) (t : ℝ) (ht : t ∈ Set.Icc (0:ℝ) 1) :
    (PathSeg.Quad q).bounding_box.ContainsClosed ((PathSeg.Quad q).eval t) :=
  quad_bbox_contains_aux q t ht

/-- every segment; only the cubic case uses the solver specification -/
theorem seg_bbox_contains (S : QuadSolverSpec ℝ) (s : PathSeg ℝ) (t : ℝ) (ht : t ∈ Set.Icc (0:ℝ) 1) :
    s.bounding_box.ContainsClosed (s.eval t) := by
  cases s with
  | Line l => exact line_bbox_contains_aux l t ht.1 ht.2
  | Quad q => exact quad_bbox_contains_aux q t ht
  | Cubic c => exact cubic_bbox_contains_aux S c t ht

/-- segments that are not cubics: unconditional -/
theorem seg_bbox_contains_noncubic (s : PathSeg ℝ) (hs : ∀ c, s ≠ .Cubic c) (t : ℝ) (ht : t ∈ Set.Icc (0:ℝ) 1) :
    s.bounding_box.ContainsClosed (s.eval t) := by
  cases s with
  | Line l => exact line_bbox_contains_aux l t ht.1 ht.2
  | Quad q => exact quad_bbox_contains_aux q t ht
  | Cubic c => exact absurd rfl (hs c)

/-! ### 7b. the box of a path contains every point of every segment -/

theorem path_bbox_contains (S : QuadSolverSpec ℝ) (els : List (PathEl ℝ)) (ss : List (PathSeg ℝ)) (bb : Rect ℝ)
    (hs : segs els = some ss) (hb : pathBoundingBox els = some bb) (s : PathSeg ℝ) (hmem : s ∈ ss)
    (t : ℝ) (ht : t ∈ Set.Icc (0:ℝ) 1) : bb.ContainsClosed (s.eval t) :=
  (path_bbox_contains_boxes els ss bb hs hb s hmem).closed (seg_bbox_contains S s t ht)

/-! ### the ranges between extrema are monotone in both coordinates -/

theorem quad_ranges_monotone (q : QuadBez ℝ) :
    ∀ r ∈ (PathSeg.Quad q).extrema_ranges,
      (MonotoneOn (fun t => (q.eval t).x) (Set.Icc r.start r.«end») ∨
        AntitoneOn (fun t => (q.eval t).x) (Set.Icc r.start r.«end»)) ∧
      (MonotoneOn (fun t => (q.eval t).y) (Set.Icc r.start r.«end») ∨
        AntitoneOn (fun t => (q.eval t).y) (Set.Icc r.start r.«end»)) := by
  intro r hr
  rw [seg_extrema_ranges_eq] at hr
  exact ⟨ranges_mono_aux (fun t => (quad_deriv_hasDerivAt q t).1) (quad_deriv_continuous q).1 q.extrema
      (seg_extrema_unit (.Quad q)) (seg_extrema_sorted (.Quad q)) (quad_crit_x q) r hr,
    ranges_mono_aux (fun t => (quad_deriv_hasDerivAt q t).2) (quad_deriv_continuous q).2 q.extrema
      (seg_extrema_unit (.Quad q)) (seg_extrema_sorted (.Quad q)) (quad_crit_y q) r hr⟩

theorem seg_ranges_monotone (S : QuadSolverSpec ℝ) (s : PathSeg ℝ) :
    ∀ r ∈ s.extrema_ranges,
      (MonotoneOn (fun t => (s.eval t).x) (Set.Icc r.start r.«end») ∨
        AntitoneOn (fun t => (s.eval t).x) (Set.Icc r.start r.«end»)) ∧
      (MonotoneOn (fun t => (s.eval t).y) (Set.Icc r.start r.«end») ∨
        AntitoneOn (fun t => (s.eval t).y) (Set.Icc r.start r.«end»)) := by
  cases s with
  | Line l =>
    intro r hr
    rw [seg_extrema_ranges_eq] at hr
    exact ⟨monoOn_or_antiOn (f' := fun _ => l.p1.x - l.p0.x) (fun t => (line_hasDerivAt l t).1) continuous_const _ _
        (by by_cases h : l.p1.x - l.p0.x = 0
            · exact Or.inl fun _ => h
            · exact Or.inr fun _ _ _ => h),
      monoOn_or_antiOn (f' := fun _ => l.p1.y - l.p0.y) (fun t => (line_hasDerivAt l t).2) continuous_const _ _
        (by by_cases h : l.p1.y - l.p0.y = 0
            · exact Or.inl fun _ => h
            · exact Or.inr fun _ _ _ => h)⟩
  | Quad q => exact quad_ranges_monotone q
  | Cubic c =>
    intro r hr
    rw [seg_extrema_ranges_eq] at hr
    exact ⟨ranges_mono_aux (fun t => (cubic_deriv_hasDerivAt c t).1) (cubic_deriv_continuous c).1 c.extrema
        (seg_extrema_unit (.Cubic c)) (seg_extrema_sorted (.Cubic c)) (cubic_crit_x S c) r hr,
      ranges_mono_aux (fun t => (cubic_deriv_hasDerivAt c t).2) (cubic_deriv_continuous c).2 c.extrema
        (seg_extrema_unit (.Cubic c)) (seg_extrema_sorted (.Cubic c)) (cubic_crit_y S c) r hr⟩

end real
end Kurbo

/-! ### unconditional forms over ℝ: `QuadSolverSpec ℝ` is the C15 theorem `solveQuadratic_spec_real`
    (`Proofs/Lemmas/Discharge.lean`), so with the real square-root law no hypothesis is left -/
namespace Kurbo
section discharged
variable [Scalar ℝ] [LawfulScalar ℝ] [LawfulReal]

theorem cubic_extrema_iff_real (c : CubicBez ℝ) (t : ℝ) :
    t ∈ c.extrema ↔ 0 < t ∧ t < 1 ∧
      (((c.deriv.eval t).x = 0 ∧ ∃ u, (c.deriv.eval u).x ≠ 0) ∨
       ((c.deriv.eval t).y = 0 ∧ ∃ u, (c.deriv.eval u).y ≠ 0)) :=
  cubic_extrema_iff quadSolverSpec_real c t

theorem cubic_extrema_sorted_le4_real (c : CubicBez ℝ) : c.extrema.Pairwise (· ≤ ·) ∧ c.extrema.length ≤ 4 :=
  cubic_extrema_sorted_le4 quadSolverSpec_real c

/-- the bounding box of every segment contains every point of it -/
theorem seg_bbox_contains_real (s : PathSeg ℝ) (t : ℝ) (ht : t ∈ Set.Icc (0:ℝ) 1) :
    s.bounding_box.ContainsClosed (s.eval t) :=
  seg_bbox_contains quadSolverSpec_real s t ht

/-- the bounding box of a path contains every point of every segment -/
theorem path_bbox_contains_real (els : List (PathEl ℝ)) (ss : List (PathSeg ℝ)) (bb : Rect ℝ)
    (hs : segs els = some ss) (hb : pathBoundingBox els = some bb) (s : PathSeg ℝ) (hmem : s ∈ ss)
    (t : ℝ) (ht : t ∈ Set.Icc (0:ℝ) 1) : bb.ContainsClosed (s.eval t) :=
  path_bbox_contains quadSolverSpec_real els ss bb hs hb s hmem t ht

/-- on every range between reported extrema both coordinates are monotone or antitone -/
theorem seg_ranges_monotone_real (s : PathSeg ℝ) :
    ∀ r ∈ s.extrema_ranges,
      (MonotoneOn (fun t => (s.eval t).x) (Set.Icc r.start r.«end») ∨
        AntitoneOn (fun t => (s.eval t).x) (Set.Icc r.start r.«end»)) ∧
      (MonotoneOn (fun t => (s.eval t).y) (Set.Icc r.start r.«end») ∨
        AntitoneOn (fun t => (s.eval t).y) (Set.Icc r.start r.«end»)) :=
  seg_ranges_monotone quadSolverSpec_real s

/-- the hypotheses are satisfiable: ℝ with the Mathlib functions -/
example : ∃ (_ : Scalar ℝ) (_ : LawfulScalar ℝ), LawfulReal := ⟨realScalar, realScalar_lawful, realScalar_lawfulReal⟩

end discharged
end Kurbo
