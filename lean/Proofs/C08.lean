import Kurbo.Curve
namespace Kurbo
end Kurbo
