import Proofs.C04
import Proofs.Lemmas.C04RStruct
import Proofs.Lemmas.C04RReal
import Proofs.Lemmas.C04RJoin
import Proofs.Lemmas.C04RCap
/-! C04R – the geometry of ROUND joins and caps of the polyline stroker (`round_join`, `round_join_rev`, `round_cap` of
    stroke.rs; model `roundJoin`, `roundJoinRev`, `roundCap`, `roundJoinWith` of `Kurbo/Stroke.lean`, exactly as they are),
    for the crate AFTER the repair e67c0c1: the tolerance of the unit arc is `join_thresh = 2·tolerance/width` (before: the
    literal `1e-3`, which made the deviation `w/2000` whatever the stroke tolerance).

    What the code does.  `round_join(T, center, norm, angle)` outlines the UNIT circle about the origin from the angle `π − angle`
    through the sweep `angle` (so every such arc ENDS at the angle `π`, the point `(−1, 0)`) with `Arc::to_cubic_beziers` at the
    tolerance `T`, and maps each `CurveTo` by the affine map `[norm.x, norm.y, −norm.y, norm.x, center]`, i.e.
    `(x, y) ↦ center + x·norm + y·rot90(norm)` (`c04rAff`).  `round_join_rev` uses `[norm.x, norm.y, norm.y, −norm.x, center]`, i.e.
    `(x, y) ↦ center + x·norm − y·rot90(norm)` (`c04rAffRev`); `round_cap(T, center, norm) = round_join(T, center, norm, π)`.
    `do_join` and `finish` pass `T = self.join_thresh`.  `c04rN T angle`, `c04rPiece T angle k`, `c04rPt T angle k` are the number of
    pieces, piece `k` (a cubic) and the `k`-th division point of that unit arc (`Lemmas/C04RStruct.lean`).

    PROVED, part A (any `[Scalar K]`, also `Float`): structure.
    * `roundJoin_structure`, `roundJoinRev_structure`, `roundCap_structure`: the element list is `c04rN T angle` `CurveTo`s, element
      `k` is the image of the three points of piece `k` of the unit arc; drawn with the pen on the image of the arc's start point
      its segments are the images `A * c04rPiece T angle k`, joined end to end (`segs` does not panic).
    * `single_segment_round_caps_outline`: the outline of `MoveTo p0, LineTo p1` (`p1 != p0`) with round caps is
      `M(p0−n) L(p1−n) round_cap(T, p1, p1−(p1+n)) L(p0+n) round_cap(T, p0, n)`, `n = c04_norm w (p1−p0)`, `T = 2·tol/w`; no `ClosePath`.
    PROVED, part B (lawful scalars; ℝ with `LawfulTrig`, `LawfulCount`, the law classes of C10/C10A; where `atan2`/`hypot` enter
    also `LawfulReal`, `C04HypotLaw`).
    * `round_maps_similarity`: both affine maps multiply distances from `center` by `|norm|` (any lawful scalar).
    * `round_unit_arc`: for `T > 0` the unit arc's pieces are in the band `1 ≤ |B(t)| ≤ 1 + T` (C10A with `R = 1`), it starts at
      `(−cos angle, sin angle)`, ends at `(−1, 0)`, has no piece only for `angle = 0`.
    * `roundJoin_pieces_within`, `roundJoinRev_pieces_within`, `roundCap_pieces_within` (task item 1): for `T > 0` every point `B(t)`,
      `t ∈ [0,1]`, of every cubic piece satisfies `|norm| ≤ |B(t) − center| ≤ |norm|·(1 + T)`.
      `round_pieces_within_stroke`: with `T = 2τ/w` (what the stroker passes; `w > 0` the width, `τ > 0` the stroke tolerance) and
      `|norm|² = (w/2)²` this is `w/2 ≤ d ≤ w/2 + τ`: THE PROPERTY'S OWN BOUND – a round join/cap never enters the disc of radius
      `w/2` about the join point and leaves it by at most the tolerance.
    * `round_start_points`, `roundJoin_ends`, `roundJoinRev_ends`, `roundCap_ends` (task item 2; every `T`): the start point of the
      image arc is `center − R(−angle)·norm` for `round_join`, `center − R(angle)·norm` for `round_join_rev`, `center + norm` for
      `round_cap` (`R(φ)` the rotation by `φ`); ALL THREE END EXACTLY AT `center − norm`.  In `do_join` the calls are
      `round_join(p0, norm, angle)` on the forward path (ends at `p0 − norm`, where `do_line` continues) and
      `round_join_rev(p0, −norm, −angle)` on the backward path (ends at `p0 + norm`).
    * `c04_do_join_round`, `roundJoin_starts_at_previous_offset`: the round branch of `do_join` written out (tolerance
      `c.join_thresh`); for `angle = atan2(ab × cd, ab · cd)` and `norm = c04_norm w cd`, the start point of `round_join(p0, norm, angle)`
      is `p0 − c04_norm w ab` and that of `round_join_rev(p0, −norm, −angle)` is `p0 + c04_norm w ab`: where the previous offset
      segment ended.
    * `roundCap_end_cap_returns`: the end cap `round_cap(last_pt, last_pt − return_p)` of `finish` ends exactly at `return_p`.
    * `c04_round_start_contour_returns`, `c04_finish_round_contour_returns` (independent of the tolerance): A CONTOUR OF A POLYLINE
      STROKE WITH A ROUND START CAP RETURNS TO ITS `MoveTo` POINT (the item that C04 lists as not proved): in the contour
      `MoveTo q, mid, round_cap T s n` the last element is a `CurveTo` whose end point is exactly `q`.
    * `round_cap_pieces`: a round cap has `n = c04rN T π ≥ 2` pieces of `π/n ≤ π/2` each, arm `4/3·tan(π/4n)` (replaces the former
      `round_cap_two_pieces`: with the literal `1e-3` it was always exactly 2; now `n` follows the tolerance).
    * `roundCap_beyond_end` (`T > 0`): every point `X` of a round cap satisfies `(X − center)·rot90(norm) ≥ 0` (control polygon of
      each piece): the cap stays on the far side of the line through `center ± norm`.
    * `single_segment_round_caps_band` (task item 3, the modest version): for `p1 ≠ p0`, `w > 0`, `τ > 0` the outline of
      `MoveTo p0, LineTo p1` with round caps has `2 + 2n` segments and every point `X` of every one of them is at distance
      `≤ w/2 + τ` from SOME point of the source segment and at distance `≥ w/2` from EVERY point of the source segment (squared
      distances): the outline lies in the band `w/2 ≤ dist(·, segment) ≤ w/2 + τ`.

    NOT PROVED
    * the coverage claim proper for round joins/caps (non-zero winding number for every point closer than `w/2`; with round joins and
      caps the filled region being exactly the `w/2`-neighbourhood): only the band statement above, for ONE segment; nothing about
      winding numbers of the curved outline, and for polylines with round JOINS only the per-join statements.
    * that the polar angle of `B(t)` stays between the end angles of its piece for a general `angle` (as in C10A: "within T of the
      circle", not "of the arc"); for the round CAP the half-plane statement `roundCap_beyond_end` is proved.
    * that in a full `stroke_undashed` run the pen is on the start point of each round join / end cap when it is drawn: this needs
      the invariant "the forward/backward paths end at `last_pt ∓ c04_norm w last_tan`", which is not part of `C04Inv`; it is shown
      for the calls themselves (`roundJoin_starts_at_previous_offset`, `roundCap_end_cap_returns`) and, completely, for the
      one-segment path.  (The closure statement `c04_round_start_contour_returns` does not depend on it.)
    * `T ≤ 0` (zero/negative tolerance or width: `Arc::append_iter` divides by the tolerance), negative widths (`w < 0` makes `norm`
      point to the other side and the caps point inwards); anything about `Float` beyond part A. -/
set_option linter.unusedSectionVars false
set_option linter.unusedVariables false
namespace Kurbo

/-! ## Part A: structure (any scalar) -/
section structure_
variable {K : Type} [Scalar K]

/-- **`round_join` is the image of the unit arc.**  `A = c04rAff center norm`. -/
theorem roundJoin_structure (T : K) (center : Point K) (norm : Vec2 K) (angle : K) :
    (roundJoin T center norm angle).length = c04rN T angle ∧
    (∀ k, k < c04rN T angle → (roundJoin T center norm angle)[k]? = some (PathEl.CurveTo (c04rAff center norm * c04rC1 T angle k)
        (c04rAff center norm * c04rC2 T angle k) (c04rAff center norm * c04rPt T angle (k + 1)))) ∧
    segs (PathEl.MoveTo (c04rAff center norm * c04rPt T angle 0) :: roundJoin T center norm angle)
      = some ((List.range (c04rN T angle)).map fun k => PathSeg.Cubic (c04rAff center norm * c04rPiece T angle k)) :=
  ⟨roundJoinWith_length _ _ _, roundJoinWith_getElem? _ _ _, roundJoinWith_segs _ _ _⟩

/-- **`round_join_rev`**, `A = c04rAffRev center norm`. -/
theorem roundJoinRev_structure (T : K) (center : Point K) (norm : Vec2 K) (angle : K) :
    (roundJoinRev T center norm angle).length = c04rN T angle ∧
    (∀ k, k < c04rN T angle → (roundJoinRev T center norm angle)[k]? = some (PathEl.CurveTo (c04rAffRev center norm * c04rC1 T angle k)
        (c04rAffRev center norm * c04rC2 T angle k) (c04rAffRev center norm * c04rPt T angle (k + 1)))) ∧
    segs (PathEl.MoveTo (c04rAffRev center norm * c04rPt T angle 0) :: roundJoinRev T center norm angle)
      = some ((List.range (c04rN T angle)).map fun k => PathSeg.Cubic (c04rAffRev center norm * c04rPiece T angle k)) :=
  ⟨roundJoinWith_length _ _ _, roundJoinWith_getElem? _ _ _, roundJoinWith_segs _ _ _⟩

/-- **`round_cap`** is `round_join` with `angle = π`. -/
theorem roundCap_structure (T : K) (center : Point K) (norm : Vec2 K) :
    roundCap T center norm = roundJoin T center norm (Scalar.pi : K) ∧
    (roundCap T center norm).length = c04rN T (Scalar.pi : K) ∧
    segs (PathEl.MoveTo (c04rAff center norm * c04rPt T (Scalar.pi : K) 0) :: roundCap T center norm)
      = some ((List.range (c04rN T (Scalar.pi : K))).map fun k =>
          PathSeg.Cubic (c04rAff center norm * c04rPiece T (Scalar.pi : K) k)) :=
  ⟨rfl, roundJoinWith_length _ _ _, roundJoinWith_segs _ _ _⟩

-- non-vacuity: over ℚ (whose `sin x = x`, `cos x = 1`, `powf x _ = x`) a join of angle 1 has pieces
example : c04rN (1 / 100 : ℚ) (1 : ℚ) ≠ 0 := by decide +kernel

end structure_

/-! ## Part B: geometry over ℝ -/
section similarity
variable {K : Type} [Field K] [LinearOrder K] [IsStrictOrderedRing K] [FloorRing K] [Scalar K] [LawfulScalar K]

/-- **Both maps are similarities with factor `|norm|` about `center`** (squared form, any lawful scalar), and act as
    `(x, y) ↦ center + x·norm ± y·rot90(norm)`. -/
theorem round_maps_similarity (c : Point K) (n : Vec2 K) (p : Point K) :
    c04rAff c n * p = ⟨c.x + (n.x * p.x - n.y * p.y), c.y + (n.y * p.x + n.x * p.y)⟩ ∧
    c04rAffRev c n * p = ⟨c.x + (n.x * p.x + n.y * p.y), c.y + (n.y * p.x - n.x * p.y)⟩ ∧
    ((c04rAff c n * p).x - c.x) ^ 2 + ((c04rAff c n * p).y - c.y) ^ 2 = (n.x ^ 2 + n.y ^ 2) * (p.x ^ 2 + p.y ^ 2) ∧
    ((c04rAffRev c n * p).x - c.x) ^ 2 + ((c04rAffRev c n * p).y - c.y) ^ 2 = (n.x ^ 2 + n.y ^ 2) * (p.x ^ 2 + p.y ^ 2) :=
  ⟨c04rAff_act c n p, c04rAffRev_act c n p, c04rAff_dist_sq c n p, c04rAffRev_dist_sq c n p⟩

end similarity

section real
variable [Scalar ℝ] [LawfulScalar ℝ] [LawfulTrig] [LawfulCount]

-- the class assumptions are satisfiable
example : @LawfulScalar ℝ _ _ _ _ realScalar ∧ @LawfulTrig realScalar ∧ @LawfulCount realScalar :=
  ⟨realScalar_lawful, realScalar_lawfulTrig, realScalar_lawfulCount⟩

/-- the unit arc at tolerance `T > 0`: every point of every piece is in the band `1 ≤ |B(t)| ≤ 1 + T`; it starts at
    `(−cos angle, sin angle)`, ends at `(−1, 0)`, and has no piece only for `angle = 0` -/
theorem round_unit_arc (T : ℝ) (hT : 0 < T) (angle : ℝ) :
    (∀ k t, 0 ≤ t → t ≤ 1 →
      1 ≤ Real.sqrt (((c04rPiece T angle k).eval t).x ^ 2 + ((c04rPiece T angle k).eval t).y ^ 2) ∧
      Real.sqrt (((c04rPiece T angle k).eval t).x ^ 2 + ((c04rPiece T angle k).eval t).y ^ 2) ≤ 1 + T) ∧
    c04rPt T angle 0 = ⟨-Real.cos angle, Real.sin angle⟩ ∧ c04rPt T angle (c04rN T angle) = ⟨-1, 0⟩ ∧
    (c04rN T angle = 0 → angle = 0) :=
  ⟨fun k t h0 h1 => c04rPiece_band T hT angle k t h0 h1, c04rPt_zero T angle, c04rPt_last T angle, c04rN_eq_zero T angle⟩
example : (0 : ℝ) < 1 / 100 := by norm_num

/-- **Round join within the band (task item 1).**  Drawn from its start point `center − R(−angle)·norm`, `round_join(center, norm,
    angle)` is `c04rN T angle` cubics and every point of every one of them is at a distance between `|norm|` and
    `|norm|·(1 + 1/1000)` from `center`. -/
theorem roundJoin_pieces_within (T : ℝ) (hT : 0 < T) (c : Point ℝ) (n : Vec2 ℝ) (angle : ℝ) :
    ∃ ss, segs (PathEl.MoveTo ⟨c.x - (n.x * Real.cos angle + n.y * Real.sin angle),
          c.y - (n.y * Real.cos angle - n.x * Real.sin angle)⟩ :: roundJoin T c n angle) = some ss ∧
      ss.length = c04rN T angle ∧ ∀ s ∈ ss, ∃ q, s = PathSeg.Cubic q ∧ ∀ t : ℝ, 0 ≤ t → t ≤ 1 →
        Real.sqrt (n.x ^ 2 + n.y ^ 2) ≤ Real.sqrt (((q.eval t).x - c.x) ^ 2 + ((q.eval t).y - c.y) ^ 2) ∧
        Real.sqrt (((q.eval t).x - c.x) ^ 2 + ((q.eval t).y - c.y) ^ 2) ≤ Real.sqrt (n.x ^ 2 + n.y ^ 2) * (1 + T) := by
  have hs : (⟨c.x - (n.x * Real.cos angle + n.y * Real.sin angle), c.y - (n.y * Real.cos angle - n.x * Real.sin angle)⟩ : Point ℝ)
      = c04rAff c n * c04rPt T angle 0 := by
    rw [c04rPt_zero, c04rAff_act]; simp only [Point.mk.injEq]; constructor <;> ring
  rw [hs]
  refine ⟨_, (roundJoin_structure T c n angle).2.2, by simp, ?_⟩
  intro s hs'
  obtain ⟨k, -, rfl⟩ := List.mem_map.mp hs'
  exact ⟨_, rfl, fun t h0 h1 => c04r_image_band T hT c n _ (c04rAff_dist_sq c n) angle k t h0 h1⟩

/-- **… `round_join_rev`**, drawn from its start point `center − R(angle)·norm`. -/
theorem roundJoinRev_pieces_within (T : ℝ) (hT : 0 < T) (c : Point ℝ) (n : Vec2 ℝ) (angle : ℝ) :
    ∃ ss, segs (PathEl.MoveTo ⟨c.x - (n.x * Real.cos angle - n.y * Real.sin angle),
          c.y - (n.y * Real.cos angle + n.x * Real.sin angle)⟩ :: roundJoinRev T c n angle) = some ss ∧
      ss.length = c04rN T angle ∧ ∀ s ∈ ss, ∃ q, s = PathSeg.Cubic q ∧ ∀ t : ℝ, 0 ≤ t → t ≤ 1 →
        Real.sqrt (n.x ^ 2 + n.y ^ 2) ≤ Real.sqrt (((q.eval t).x - c.x) ^ 2 + ((q.eval t).y - c.y) ^ 2) ∧
        Real.sqrt (((q.eval t).x - c.x) ^ 2 + ((q.eval t).y - c.y) ^ 2) ≤ Real.sqrt (n.x ^ 2 + n.y ^ 2) * (1 + T) := by
  have hs : (⟨c.x - (n.x * Real.cos angle - n.y * Real.sin angle), c.y - (n.y * Real.cos angle + n.x * Real.sin angle)⟩ : Point ℝ)
      = c04rAffRev c n * c04rPt T angle 0 := by
    rw [c04rPt_zero, c04rAffRev_act]; simp only [Point.mk.injEq]; constructor <;> ring
  rw [hs]
  refine ⟨_, (roundJoinRev_structure T c n angle).2.2, by simp, ?_⟩
  intro s hs'
  obtain ⟨k, -, rfl⟩ := List.mem_map.mp hs'
  exact ⟨_, rfl, fun t h0 h1 => c04r_image_band T hT c n _ (c04rAffRev_dist_sq c n) angle k t h0 h1⟩

/-- **… `round_cap`**, drawn from its start point `center + norm`; it has at least one piece. -/
theorem roundCap_pieces_within (T : ℝ) (hT : 0 < T) (c : Point ℝ) (n : Vec2 ℝ) :
    ∃ ss, segs (PathEl.MoveTo (c + n) :: roundCap T c n) = some ss ∧ ss ≠ [] ∧
      ∀ s ∈ ss, ∃ q, s = PathSeg.Cubic q ∧ ∀ t : ℝ, 0 ≤ t → t ≤ 1 →
        Real.sqrt (n.x ^ 2 + n.y ^ 2) ≤ Real.sqrt (((q.eval t).x - c.x) ^ 2 + ((q.eval t).y - c.y) ^ 2) ∧
        Real.sqrt (((q.eval t).x - c.x) ^ 2 + ((q.eval t).y - c.y) ^ 2) ≤ Real.sqrt (n.x ^ 2 + n.y ^ 2) * (1 + T) := by
  have hs : c + n = c04rAff c n * c04rPt T (Scalar.pi : ℝ) 0 := by
    rw [c04rPt_zero, LawfulTrig.pi_eq, Real.cos_pi, Real.sin_pi, neg_neg, c04rAff_one]
  rw [hs]
  refine ⟨_, (roundCap_structure T c n).2.2, ?_, ?_⟩
  · intro h0
    have := congrArg List.length h0
    simp only [List.length_map, List.length_range, List.length_nil] at this
    exact c04rN_pi_ne_zero T this
  · intro s hs'
    obtain ⟨k, -, rfl⟩ := List.mem_map.mp hs'
    exact ⟨_, rfl, fun t h0 h1 => c04r_image_band T hT c n _ (c04rAff_dist_sq c n) _ k t h0 h1⟩

/-- **In terms of the stroke width and the stroke tolerance: THE PROPERTY'S OWN BOUND.**  The stroker passes
    `T = join_thresh = 2·τ/w` (`τ` the tolerance given to `stroke`, `w` the width) for the unit arc, and `|norm|² = (w/2)²`
    (`c04_norm_spec`).  The band `|norm| ≤ d ≤ |norm|·(1 + T)` is then `w/2 ≤ d ≤ w/2 + τ`: a round join/cap never enters the disc
    of radius `w/2` about the join point and leaves it by at most the stroke tolerance. -/
theorem round_pieces_within_stroke (n : Vec2 ℝ) (w τ d : ℝ) (hw : 0 < w) (hτ : 0 < τ) (hn : n.x ^ 2 + n.y ^ 2 = (w / 2) ^ 2)
    (h : Real.sqrt (n.x ^ 2 + n.y ^ 2) ≤ d ∧ d ≤ Real.sqrt (n.x ^ 2 + n.y ^ 2) * (1 + 2 * τ / w)) :
    0 < 2 * τ / w ∧ w / 2 ≤ d ∧ d ≤ w / 2 + τ := by
  rw [hn, Real.sqrt_sq (by positivity)] at h
  refine ⟨by positivity, h.1, ?_⟩
  have e : w / 2 * (1 + 2 * τ / w) = w / 2 + τ := by field_simp
  rw [e] at h
  exact h.2
example : (0 : ℝ) < 10 ∧ (0 : ℝ) < 1 / 10 ∧ (⟨3, 4⟩ : Vec2 ℝ).x ^ 2 + (⟨3, 4⟩ : Vec2 ℝ).y ^ 2 = ((10 : ℝ) / 2) ^ 2 := by
  norm_num

/-- **Start points (task item 2).**  The image of the unit arc's start point `(−cos angle, sin angle)`:
    `center − R(−angle)·norm` for `round_join`, `center − R(angle)·norm` for `round_join_rev`, `center + norm` for `round_cap`. -/
theorem round_start_points (T : ℝ) (c : Point ℝ) (n : Vec2 ℝ) (angle : ℝ) :
    c04rAff c n * c04rPt T angle 0
      = ⟨c.x - (n.x * Real.cos angle + n.y * Real.sin angle), c.y - (n.y * Real.cos angle - n.x * Real.sin angle)⟩ ∧
    c04rAffRev c n * c04rPt T angle 0
      = ⟨c.x - (n.x * Real.cos angle - n.y * Real.sin angle), c.y - (n.y * Real.cos angle + n.x * Real.sin angle)⟩ ∧
    c04rAff c n * c04rPt T (Scalar.pi : ℝ) 0 = c + n := by
  refine ⟨?_, ?_, ?_⟩
  · rw [c04rPt_zero, c04rAff_act]; simp only [Point.mk.injEq]; constructor <;> ring
  · rw [c04rPt_zero, c04rAffRev_act]; simp only [Point.mk.injEq]; constructor <;> ring
  · rw [c04rPt_zero, LawfulTrig.pi_eq, Real.cos_pi, Real.sin_pi, neg_neg, c04rAff_one]

/-- **`round_join` ends exactly at `center − norm`** (task item 2): drawn from its start point (also when `angle = 0` and there
    is no piece: then start and end coincide); and, when `angle ≠ 0`, wherever the pen was and whatever was drawn before, the
    last element is a `CurveTo` ending at `center − norm`.  In `do_join` this is `p0 − norm`, the point from which `do_line`
    continues the forward path. -/
theorem roundJoin_ends (T : ℝ) (c : Point ℝ) (n : Vec2 ℝ) (angle : ℝ) :
    penAfter (c04rAff c n * c04rPt T angle 0) (roundJoin T c n angle) = c - n ∧
    (angle ≠ 0 → ∀ p mid, penAfter p (mid ++ roundJoin T c n angle) = c - n) ∧
    (angle ≠ 0 → ∃ e, (roundJoin T c n angle).getLast? = some e ∧ e.end_point = some (c - n)) := by
  refine ⟨?_, fun ha p mid => ?_, fun ha => ?_⟩
  · rw [roundJoin_eq_with, penAfter_roundJoinWith]
    split
    · rename_i h0
      have := c04rPt_last T angle
      rw [h0] at this
      rw [this, c04rAff_end]
    · rw [c04rPt_last, c04rAff_end]
  · rw [roundJoin_eq_with, penAfter_append_roundJoinWith _ _ _ _ _ (fun h => ha (c04rN_eq_zero T angle h)), c04rPt_last, c04rAff_end]
  · obtain ⟨e, h1, h2⟩ := roundJoinWith_getLast T (c04rAff c n) angle (fun h => ha (c04rN_eq_zero T angle h))
    rw [c04rPt_last, c04rAff_end] at h2
    exact ⟨e, h1, h2⟩
example : (1 : ℝ) ≠ 0 := one_ne_zero

/-- **`round_join_rev` ends exactly at `center − norm`** too; `do_join` calls it as `round_join_rev(p0, −norm, −angle)` on the
    backward path, so that it ends at `p0 + norm`, the point from which `do_line` continues the backward path. -/
theorem roundJoinRev_ends (T : ℝ) (c : Point ℝ) (n : Vec2 ℝ) (angle : ℝ) :
    penAfter (c04rAffRev c n * c04rPt T angle 0) (roundJoinRev T c n angle) = c - n ∧
    (angle ≠ 0 → ∀ p mid, penAfter p (mid ++ roundJoinRev T c n angle) = c - n) ∧
    (angle ≠ 0 → ∀ p mid, penAfter p (mid ++ roundJoinRev T c (-n) angle) = c + n) := by
  have key : ∀ m : Vec2 ℝ, angle ≠ 0 → ∀ p mid, penAfter p (mid ++ roundJoinRev T c m angle) = c - m := by
    intro m ha p mid
    rw [roundJoinRev_eq_with, penAfter_append_roundJoinWith _ _ _ _ _ (fun h => ha (c04rN_eq_zero T angle h)), c04rPt_last,
      c04rAffRev_end]
  refine ⟨?_, key n, fun ha p mid => ?_⟩
  · rw [roundJoinRev_eq_with, penAfter_roundJoinWith]
    split
    · rename_i h0
      have := c04rPt_last T angle
      rw [h0] at this
      rw [this, c04rAffRev_end]
    · rw [c04rPt_last, c04rAffRev_end]
  · rw [key (-n) ha]
    cases c; cases n; kring

/-- **`round_cap` goes from `center + norm` to `center − norm`**: it always has a piece, and wherever the pen was and whatever
    was drawn before, its last element is a `CurveTo` ending exactly at `center − norm`. -/
theorem roundCap_ends (T : ℝ) (c : Point ℝ) (n : Vec2 ℝ) :
    (∀ p mid, penAfter p (mid ++ roundCap T c n) = c - n) ∧
    (∃ e, (roundCap T c n).getLast? = some e ∧ e.end_point = some (c - n)) ∧ roundCap T c n ≠ [] := by
  refine ⟨fun p mid => ?_, ?_, ?_⟩
  · rw [roundCap_eq_with, penAfter_append_roundJoinWith _ _ _ _ _ (c04rN_pi_ne_zero T), c04rPt_last, c04rAff_end]
  · obtain ⟨e, h1, h2⟩ := roundJoinWith_getLast T (c04rAff c n) (Scalar.pi : ℝ) (c04rN_pi_ne_zero T)
    rw [c04rPt_last, c04rAff_end] at h2
    exact ⟨e, h1, h2⟩
  · intro h0
    have := roundJoinWith_length T (c04rAff c n) (Scalar.pi : ℝ)
    rw [← roundCap_eq_with, h0] at this
    exact c04rN_pi_ne_zero T this.symm

/-- **The end cap of `finish`** is `round_cap(last_pt, last_pt − return_p)`, `return_p` the end of the backward path: it starts
    at `last_pt + (last_pt − return_p)` (the mirror image of `return_p`, which is where the forward path ends when both paths end
    at `last_pt ∓ norm`) and ENDS EXACTLY AT `return_p`, where the reversed backward path starts. -/
theorem roundCap_end_cap_returns (T : ℝ) (lp rp : Point ℝ) :
    (∀ p mid, penAfter p (mid ++ roundCap T lp (lp - rp)) = rp) ∧
    c04rAff lp (lp - rp) * c04rPt T (Scalar.pi : ℝ) 0 = lp + (lp - rp) := by
  refine ⟨fun p mid => ?_, (round_start_points T lp (lp - rp) 0).2.2⟩
  rw [(roundCap_ends T lp (lp - rp)).1]
  cases lp; cases rp; kring

/-- **A contour that `finish` closes with a round START cap returns to its `MoveTo` point.**  Under the context invariant of C04
    with a sub-path in progress and `start_cap = Round`, the contour appended by `finish` is `MoveTo q :: (mid ++ round_cap …)`,
    not empty after the `MoveTo`, and the pen ends exactly on `q`. -/
theorem c04_finish_round_contour_returns (style : StrokeStyle ℝ) (c : StrokeCtx ℝ) (h : C04Inv c) (hne : c.forward_path ≠ [])
    (h2 : style.start_cap = 2) :
    ∃ q rest, c.finish style = some { c with output := c.output ++ PathEl.MoveTo q :: rest, forward_path := [], backward_path := [] } ∧
      (∀ e ∈ rest, c04_isSeg e = true) ∧ penAfter q rest = q ∧
      ∃ e, rest.getLast? = some e ∧ e.end_point = some q := by
  obtain ⟨x, hx, -, hr⟩ := c04_finish_one_contour style c h hne
  obtain ⟨q, mid, rfl, hmid, hq⟩ := hr h2
  have hq' := hq c04_peqSound
  refine ⟨q, _, hx, ?_, ?_, ?_⟩
  · exact c04_Segs_append hmid (c04_Segs_of_curves (c04_roundCap_curves _ _ _))
  · rw [(roundCap_ends _ _ _).1, hq']
  · obtain ⟨e, h1, h3⟩ := (roundCap_ends c.join_thresh c.start_pt c.start_norm).2.1
    refine ⟨e, ?_, by rw [h3, hq']⟩
    rw [List.getLast?_append, h1]; rfl

/-- the hypotheses are satisfiable: the context after `MoveTo (0,0), LineTo (4,0)` with round joins and caps -/
example : ∃ (style : StrokeStyle ℝ) (c : StrokeCtx ℝ), C04Inv c ∧ c.forward_path ≠ [] ∧ style.start_cap = 2 := by
  let c0 : StrokeCtx ℝ :=
    { start_pt := ⟨0, 0⟩, start_norm := ⟨0, 0⟩, start_tan := ⟨0, 0⟩, last_pt := ⟨0, 0⟩, last_tan := ⟨0, 0⟩, join_thresh := 1 }
  have h0 : C04Inv c0 :=
    ⟨Or.inl ⟨rfl, rfl⟩, fun _ _ => rfl, fun _ q t h => (nomatch h), fun _ q t h => (nomatch h)⟩
  have := c04_stepLine_inv ⟨2, 2, 4, 2, 2⟩ c0 ⟨4, 0⟩ h0
  exact ⟨⟨2, 2, 4, 2, 2⟩, _, this.1, this.2.1, rfl⟩

/-- **EVERY CONTOUR OF A POLYLINE STROKE RETURNS TO ITS START, ALSO WITH A ROUND START CAP** (the item C04 lists as not
    proved).  The output of a polyline source is a concatenation of contours; each is `MoveTo p, LineTo/CurveTo…, ClosePath`
    or (round start cap, open sub-path) `MoveTo q, LineTo/CurveTo…` with NO `ClosePath`, whose last element is a `CurveTo` of
    the start cap ending EXACTLY on `q` (`penAfter q rest = q`). -/
theorem c04_round_start_contour_returns (els : List (PathEl ℝ)) (style : StrokeStyle ℝ) (tolerance : ℝ)
    (hp : ∀ e ∈ els, c04_isPoly e = true) :
    ∃ cs : List (List (PathEl ℝ)), strokeUndashed els style tolerance = .ok cs.flatten ∧
      ∀ x ∈ cs, (∃ p mid, x = .MoveTo p :: (mid ++ [.ClosePath]) ∧ ∀ e ∈ mid, c04_isSeg e = true) ∨
        (style.start_cap = 2 ∧ ∃ q rest, x = .MoveTo q :: rest ∧ (∀ e ∈ rest, c04_isSeg e = true) ∧ penAfter q rest = q ∧
          ∃ e p1 p2, rest.getLast? = some e ∧ e = .CurveTo p1 p2 q) := by
  obtain ⟨cs, h, hg⟩ := c04_stroke_contours_round_start els style tolerance hp
  refine ⟨cs, h, fun x hx => ?_⟩
  rcases hg x hx with hc | ⟨h2, q, tl, s, n, mid, rfl, hm, hcv, hq⟩
  · exact Or.inl hc
  · have hq' := hq c04_peqSound
    refine Or.inr ⟨h2, q, _, rfl, c04_Segs_append hm (c04_Segs_of_curves hcv), ?_, ?_⟩
    · rw [(roundCap_ends _ _ _).1, hq']
    · obtain ⟨e, h1, h3⟩ := (roundCap_ends tl s n).2.1
      have hl : (mid ++ roundCap tl s n).getLast? = some e := by rw [List.getLast?_append, h1]; rfl
      have hc := hcv e (List.mem_of_getLast? h1)
      cases e with
      | CurveTo p1 p2 p3 =>
        simp only [PathEl.end_point, Option.some.injEq] at h3
        exact ⟨_, p1, p2, hl, by rw [h3, hq']⟩
      | MoveTo _ => cases hc
      | LineTo _ => cases hc
      | QuadTo _ _ => cases hc
      | ClosePath => cases hc
-- non-vacuity: an open polyline with a round start cap (style: width 2, round joins, round caps)
example : ∀ e ∈ ([.MoveTo ⟨0, 0⟩, .LineTo ⟨4, 0⟩, .LineTo ⟨4, 3⟩] : List (PathEl ℝ)), c04_isPoly e = true := by
  intro e he
  simp only [List.mem_cons, List.not_mem_nil, or_false] at he
  rcases he with rfl | rfl | rfl <;> rfl

end real

/-! ### the round branch of `do_join`: the join starts where the previous offset segment ended -/
section turning
variable [Scalar ℝ] [LawfulScalar ℝ] [LawfulTrig] [LawfulCount] [LawfulReal] [C04HypotLaw ℝ]

-- the class assumptions are satisfiable together
example : @LawfulScalar ℝ _ _ _ _ realScalar ∧ @LawfulTrig realScalar ∧ @LawfulCount realScalar ∧ @LawfulReal realScalar ∧
    @C04HypotLaw ℝ _ _ realScalar :=
  ⟨realScalar_lawful, realScalar_lawfulTrig, realScalar_lawfulCount, realScalar_lawfulReal, c04_realScalar_hypotLaw⟩

/-- **The round join starts exactly where the previous offset segment ended.**  `ab`, `cd` the (non-zero) tangents before and
    after the join point `p0`, `angle = atan2(ab × cd, ab · cd)` the turning angle that `do_join` computes, `norm = c04_norm w cd`
    the new offset vector: `round_join(p0, norm, angle)` starts at `p0 − c04_norm w ab` (the end of the previous forward offset
    segment) and `round_join_rev(p0, −norm, −angle)` at `p0 + c04_norm w ab` (the end of the previous backward one); by
    `roundJoin_ends`, `roundJoinRev_ends` they end at `p0 − norm`, `p0 + norm`, where `do_line` continues. -/
theorem roundJoin_starts_at_previous_offset (T w : ℝ) (p0 : Point ℝ) (ab cd : Vec2 ℝ) (hab : ab.x ≠ 0 ∨ ab.y ≠ 0)
    (hcd : cd.x ≠ 0 ∨ cd.y ≠ 0) :
    c04rAff p0 (c04_norm w cd) * c04rPt T (Scalar.atan2 (ab.cross cd) (ab.dot cd)) 0 = p0 - c04_norm w ab ∧
    c04rAffRev p0 (-(c04_norm w cd)) * c04rPt T (-(Scalar.atan2 (ab.cross cd) (ab.dot cd))) 0 = p0 + c04_norm w ab := by
  obtain ⟨r1, r2⟩ := c04r_rotate_norm w ab cd hab hcd
  generalize Scalar.atan2 (ab.cross cd) (ab.dot cd) = φ at r1 r2 ⊢
  constructor
  · rw [(round_start_points T p0 (c04_norm w cd) _).1, r1, r2]
    cases p0; kring
  · rw [(round_start_points T p0 (-(c04_norm w cd)) _).2.1, Real.cos_neg, Real.sin_neg]
    have ex : (-(c04_norm w cd)).x = -(c04_norm w cd).x := by simp only [kdefs, scalar_norm]
    have ey : (-(c04_norm w cd)).y = -(c04_norm w cd).y := by simp only [kdefs, scalar_norm]
    rw [ex, ey]
    cases p0
    simp only [kdefs, scalar_norm, Point.mk.injEq]
    constructor
    · rw [← r1]; ring
    · rw [← r2]; ring
example : ((⟨4, 0⟩ : Vec2 ℝ).x ≠ 0 ∨ (⟨4, 0⟩ : Vec2 ℝ).y ≠ 0) ∧ ((⟨0, 3⟩ : Vec2 ℝ).x ≠ 0 ∨ (⟨0, 3⟩ : Vec2 ℝ).y ≠ 0) :=
  ⟨Or.inl (by norm_num), Or.inr (by norm_num)⟩

/-- **`do_join` with round joins** (sub-path in progress, join not skipped, `angle = atan2(cross, dot)`): for `angle > 0` (then
    `cross ≥ 0`: a left turn or a reversal) the FORWARD path gets exactly the `CurveTo`s of `round_join(last_pt, norm, angle)`
    (no pivot there) and the backward path the pivot (if `cross > 0`) and the new offset point; otherwise (`cross ≤ 0`) the
    BACKWARD path gets exactly `round_join_rev(last_pt, −norm, −angle)` and the forward path the pivot (if `cross < 0`) and the
    new offset point. -/
theorem c04_do_join_round (c : StrokeCtx ℝ) (style : StrokeStyle ℝ) (tan0 : Vec2 ℝ) (hne : c.forward_path ≠ [])
    (hj0 : style.join ≠ 0) (hj1 : style.join ≠ 1) (ht : c04_joinTest c tan0 = true) :
    (0 < Scalar.atan2 (c.last_tan.cross tan0) (c.last_tan.dot tan0) →
      0 ≤ c.last_tan.cross tan0 ∧
      c.do_join style tan0 = { c with
        forward_path := c.forward_path ++
          roundJoin c.join_thresh c.last_pt (c04_norm style.width tan0) (Scalar.atan2 (c.last_tan.cross tan0) (c.last_tan.dot tan0)),
        backward_path := c.backward_path ++
          (c04_pivotB c.last_pt (c.last_tan.cross tan0) ++ [.LineTo (c.last_pt + c04_norm style.width tan0)]) }) ∧
    (¬ 0 < Scalar.atan2 (c.last_tan.cross tan0) (c.last_tan.dot tan0) →
      c.last_tan.cross tan0 ≤ 0 ∧
      c.do_join style tan0 = { c with
        forward_path := c.forward_path ++
          (c04_pivotF c.last_pt (c.last_tan.cross tan0) ++ [.LineTo (c.last_pt - c04_norm style.width tan0)]),
        backward_path := c.backward_path ++
          roundJoinRev c.join_thresh c.last_pt (-(c04_norm style.width tan0))
            (-(Scalar.atan2 (c.last_tan.cross tan0) (c.last_tan.dot tan0))) }) := by
  obtain ⟨s1, s2⟩ := c04r_turn_sign c.last_tan tan0
  rw [c04_do_join_nonempty c style tan0 hne, c04r_joinApp_round c style tan0 hj0 hj1 ht]
  refine ⟨fun h => ⟨s1 h, ?_⟩, fun h => ⟨s2 h, ?_⟩⟩
  · rw [if_pos h]
    have hp : c04_pivotF c.last_pt (c.last_tan.cross tan0) = [] := by
      rcases (s1 h).eq_or_lt with h0 | h0
      · rw [← h0]; exact (c04_pivot_zero _).1
      · exact (c04_pivot_pos _ _ h0).1
    rw [hp]; rfl
  · rw [if_neg h]
    have hp : c04_pivotB c.last_pt (c.last_tan.cross tan0) = [] := by
      rcases (s2 h).eq_or_lt with h0 | h0
      · rw [h0]; exact (c04_pivot_zero _).2
      · exact (c04_pivot_neg _ _ h0).2
    rw [hp]; rfl
-- non-vacuity: round joins; after `(0,0) → (4,0)`, going on to `(4,3)`: dot = 0 ≤ 0, so the join is made (`c04_join_test_iff`)
example : (⟨2, 2, 4, 2, 2⟩ : StrokeStyle ℝ).join ≠ 0 ∧ (⟨2, 2, 4, 2, 2⟩ : StrokeStyle ℝ).join ≠ 1 ∧
    (⟨4, 0⟩ : Vec2 ℝ).dot ⟨0, 3⟩ ≤ 0 := by
  refine ⟨by decide, by decide, ?_⟩
  simp only [Vec2.dot, scalar_norm]; norm_num

end turning

/-! ### the round cap: pieces of at most a quarter turn, beyond the end; one segment with round caps -/
section cap
variable [Scalar ℝ] [LawfulScalar ℝ] [LawfulTrig] [LawfulCount]

/-- **The pieces of a round cap.**  For every unit tolerance `T` a round cap has `n = c04rN T π ≥ 2` cubics (`n_err ≥ 3.999999`
    in `Arc::append_iter`), each spanning `π/n ≤ π/2`, with arm `4/3·tan(π/(4n))`.  (`n` now grows as `join_thresh = 2τ/w`
    shrinks; with the former literal `1e-3` it was always 2.) -/
theorem round_cap_pieces (T : ℝ) (c : Point ℝ) (n : Vec2 ℝ) :
    (roundCap T c n).length = c04rN T (Scalar.pi : ℝ) ∧ 2 ≤ c04rN T (Scalar.pi : ℝ) ∧
    c04rStep T (Scalar.pi : ℝ) = Real.pi / (c04rN T (Scalar.pi : ℝ) : ℝ) ∧ 0 < c04rStep T (Scalar.pi : ℝ) ∧
    c04rStep T (Scalar.pi : ℝ) ≤ Real.pi / 2 ∧
    c04rArm T (Scalar.pi : ℝ) = 4 / 3 * Real.tan (c04rStep T (Scalar.pi : ℝ) / 2 / 2) :=
  ⟨(roundCap_structure T c n).2.1, (c04r_cap_params T).1, (c04r_cap_params T).2.1, (c04r_cap_params T).2.2.1,
    (c04r_cap_params T).2.2.2, arc_arm_eq_tan (c04rArc (Scalar.pi : ℝ)) T⟩

/-- **The round cap stays beyond the end of the segment.**  Every point `X` of the cubics of `round_cap(T, c, n)`, `T > 0` (drawn
    from `c + n`) satisfies `|n|² ≤ |X − c|² ≤ |n|²·(1 + T)²` and `(X − c)·rot90(n) ≥ 0`, `rot90(n) = (−n.y, n.x)` – which for the
    END cap `round_cap(p1, −norm)` is the forward tangent direction and for the START cap `round_cap(p0, norm)` the backward
    one (`norm = (w/2)/|T|·rot90(T)`, `w ≥ 0`).  (Control polygon of each piece: it spans at most a quarter turn inside `[0, π]`.) -/
theorem roundCap_beyond_end (T : ℝ) (hT : 0 < T) (c : Point ℝ) (n : Vec2 ℝ) :
    ∃ ss, segs (PathEl.MoveTo (c + n) :: roundCap T c n) = some ss ∧ ss.length = c04rN T (Scalar.pi : ℝ) ∧
      ∀ s ∈ ss, ∃ q, s = PathSeg.Cubic q ∧ ∀ t : ℝ, 0 ≤ t → t ≤ 1 →
        (n.x ^ 2 + n.y ^ 2 ≤ ((q.eval t).x - c.x) ^ 2 + ((q.eval t).y - c.y) ^ 2 ∧
          ((q.eval t).x - c.x) ^ 2 + ((q.eval t).y - c.y) ^ 2 ≤ (n.x ^ 2 + n.y ^ 2) * (1 + T) ^ 2) ∧
        0 ≤ -((q.eval t).x - c.x) * n.y + ((q.eval t).y - c.y) * n.x := by
  rw [← (round_start_points T c n 0).2.2]
  refine ⟨_, (roundCap_structure T c n).2.2, by simp, ?_⟩
  intro s hs
  obtain ⟨k, hk, rfl⟩ := List.mem_map.mp hs
  rw [List.mem_range] at hk
  exact ⟨_, rfl, fun t h0 h1 => c04r_cap_point T hT c n k hk t h0 h1⟩
example : (0 : ℝ) < 1 / 100 := by norm_num

/-- **The outline of one segment with round caps** (any scalar; `p1 != p0` in the crate's sense): forward offset edge, end cap
    about `p1` with the vector `p1 − (p1 + n)`, backward offset edge reversed, start cap about `p0` with `n`; no `ClosePath`.
    Both caps are drawn with the unit tolerance `c04rJt w tol = 2·tol/w` (= `join_thresh`). -/
theorem single_segment_round_caps_outline {K : Type} [Scalar K] (p0 p1 : Point K) (style : StrokeStyle K) (tol : K)
    (h : p1.peq p0 = false) (hs : style.start_cap = 2) (he : style.end_cap = 2) :
    strokeUndashed [.MoveTo p0, .LineTo p1] style tol
      = .ok ([.MoveTo (p0 - c04_norm style.width (p1 - p0)), .LineTo (p1 - c04_norm style.width (p1 - p0))]
          ++ roundCap (c04rJt style.width tol) p1 (p1 - (p1 + c04_norm style.width (p1 - p0)))
          ++ [.LineTo (p0 + c04_norm style.width (p1 - p0))]
          ++ roundCap (c04rJt style.width tol) p0 (c04_norm style.width (p1 - p0))) :=
  c04r_single_outline p0 p1 style tol h hs he
example : (⟨4, 3⟩ : Point ℚ).peq ⟨0, 0⟩ = false := by decide

/-- **One segment, round caps: the outline lies within the tolerance of the ideal outline (task item 3, modest version) – THE
    PROPERTY'S OWN BOUND.**  For `p1 ≠ p0`, width `w > 0` and stroke tolerance `τ > 0` the outline of `MoveTo p0, LineTo p1` with
    round caps has `2 + 2n` segments (offset edge, `n` cap cubics, offset edge, `n` cap cubics; `n = c04rN (2τ/w) π ≥ 2`), and
    EVERY point `X` of every one of them satisfies, with `Y(s) = p0 + s·(p1 − p0)` the points of the source segment:
    `|X − Y(s)|² ≤ (w/2 + τ)²` for SOME `s ∈ [0,1]` (no point of the outline is farther from the segment than `w/2 + τ`), and
    `(w/2)² ≤ |X − Y(s)|²` for EVERY `s ∈ [0,1]` (no point of the outline is closer than `w/2`). -/
theorem single_segment_round_caps_band [C04HypotLaw ℝ] (p0 p1 : Point ℝ) (style : StrokeStyle ℝ) (τ : ℝ) (hne : p1 ≠ p0)
    (hs : style.start_cap = 2) (he : style.end_cap = 2) (hw : 0 < style.width) (hτ : 0 < τ) :
    ∃ out ss, strokeUndashed [.MoveTo p0, .LineTo p1] style τ = .ok out ∧ segs out = some ss ∧
      ss.length = 2 + 2 * c04rN (2 * τ / style.width) (Scalar.pi : ℝ) ∧
      ∀ sg ∈ ss, ∀ t : ℝ, 0 ≤ t → t ≤ 1 →
        (∃ s : ℝ, 0 ≤ s ∧ s ≤ 1 ∧
          ((sg.eval t).x - (p0.x + s * (p1.x - p0.x))) ^ 2 + ((sg.eval t).y - (p0.y + s * (p1.y - p0.y))) ^ 2
            ≤ (style.width / 2 + τ) ^ 2) ∧
        (∀ s : ℝ, 0 ≤ s → s ≤ 1 → (style.width / 2) ^ 2
            ≤ ((sg.eval t).x - (p0.x + s * (p1.x - p0.x))) ^ 2 + ((sg.eval t).y - (p0.y + s * (p1.y - p0.y))) ^ 2) := by
  have hpeq : p1.peq p0 = false := (peq_false_iff _ _).2 hne
  have hT := c04_sub_ne_zero hne
  set T := 2 * τ / style.width with hTdef
  have hT0 : 0 < T := by positivity
  have hJ : c04rJt style.width τ = T := c04rJt_eq _ _
  have hU : (style.width / 2) ^ 2 * (1 + T) ^ 2 = (style.width / 2 + τ) ^ 2 := by
    rw [hTdef]; field_simp
  set n := c04_norm style.width (p1 - p0) with hn
  have hTx : (p1 - p0).x = p1.x - p0.x := by simp only [kdefs, scalar_norm]
  have hTy : (p1 - p0).y = p1.y - p0.y := by simp only [kdefs, scalar_norm]
  set k := 1 / 2 * style.width / Scalar.hypot (p1 - p0).x (p1 - p0).y with hk
  have hk0 : 0 ≤ k := div_nonneg (by linarith) (c04_hypot_pos _ _ hT).le
  have hnx : n.x = -(p1.y - p0.y) * k := by rw [hn, c04_norm_x, ← hk, hTy]
  have hny : n.y = (p1.x - p0.x) * k := by rw [hn, c04_norm_y, ← hk, hTx]
  have hR : n.x ^ 2 + n.y ^ 2 = (style.width / 2) ^ 2 := by
    have := c04_norm_hypot2 style.width (p1 - p0) hT
    simp only [Vec2.hypot2, Vec2.dot, scalar_norm] at this
    rw [← this]; ring
  have hR0 : k = 0 → (style.width / 2) ^ 2 = 0 := by
    intro h0; rw [← hR, hnx, hny, h0]; ring
  -- the vector of the end cap
  set d := p1 - (p1 + n) with hd
  have hdx : d.x = -n.x := by rw [hd]; simp only [kdefs, scalar_norm]; ring
  have hdy : d.y = -n.y := by rw [hd]; simp only [kdefs, scalar_norm]; ring
  have hRd : d.x ^ 2 + d.y ^ 2 = (style.width / 2) ^ 2 := by rw [hdx, hdy, ← hR]; ring
  -- the two line ends are the images of the unit arc's start point
  have h1 : p1 - n = c04rAff p1 d * c04rPt T (Scalar.pi : ℝ) 0 := by
    rw [(round_start_points T p1 d 0).2.2]
    cases p1
    simp only [kdefs, scalar_norm, Point.mk.injEq] at hdx hdy ⊢
    constructor <;> linarith
  have h2 : p0 + n = c04rAff p0 n * c04rPt T (Scalar.pi : ℝ) 0 := ((round_start_points T p0 n 0).2.2).symm
  have hpen : penAfter (c04rAff p1 d * c04rPt T (Scalar.pi : ℝ) 0) (roundJoinWith T (c04rAff p1 d) (Scalar.pi : ℝ)) = p1 + n := by
    have := (roundCap_ends T p1 d).1 (c04rAff p1 d * c04rPt T (Scalar.pi : ℝ) 0) []
    rw [List.nil_append, roundCap_eq_with] at this
    rw [this]
    cases p1
    simp only [kdefs, scalar_norm, Point.mk.injEq] at hdx hdy ⊢
    constructor <;> linarith
  have hout := c04r_single_outline p0 p1 style τ hpeq hs he
  rw [hJ] at hout
  have hsegs : segs ([PathEl.MoveTo (p0 - n), PathEl.LineTo (p1 - n)] ++ roundCap T p1 d ++ [PathEl.LineTo (p0 + n)]
        ++ roundCap T p0 n)
      = some (PathSeg.Line ⟨p0 - n, p1 - n⟩ ::
          (((List.range (c04rN T (Scalar.pi : ℝ))).map fun j => PathSeg.Cubic (c04rAff p1 d * c04rPiece T (Scalar.pi : ℝ) j)) ++
            PathSeg.Line ⟨p1 + n, p0 + n⟩ ::
              ((List.range (c04rN T (Scalar.pi : ℝ))).map fun j => PathSeg.Cubic (c04rAff p0 n * c04rPiece T (Scalar.pi : ℝ) j)))) := by
    have := c04r_outline_segs T (p0 - n) (c04rAff p1 d) (c04rAff p0 n) (Scalar.pi : ℝ)
    rw [hpen, ← h1, ← h2] at this
    simp only [List.cons_append, List.nil_append, List.append_assoc, roundCap_eq_with]
    exact this
  refine ⟨_, _, hout, hsegs, ?_, ?_⟩
  · simp only [List.length_cons, List.length_append, List.length_map, List.length_range]; omega
  · intro sg hsg t h0 h1'
    simp only [List.mem_cons, List.mem_append, List.mem_map, List.mem_range] at hsg
    rw [← hU]
    rcases hsg with rfl | ⟨j, hj, rfl⟩ | rfl | ⟨j, hj, rfl⟩
    · -- forward offset edge
      have := c04r_band_edge p0 p1 ((PathSeg.Line ⟨p0 - n, p1 - n⟩).eval t) k (-1) t T (by norm_num) h0 h1'
        hT0.le
        (by rw [c04r_line_eval]; simp only [kdefs, scalar_norm]; rw [hnx]; ring)
        (by rw [c04r_line_eval]; simp only [kdefs, scalar_norm]; rw [hny]; ring)
      rw [← hnx, ← hny, hR] at this
      exact this
    · -- end cap
      obtain ⟨⟨b1, b2⟩, b3⟩ := c04r_cap_point T hT0 p1 d j hj t h0 h1'
      have e : (PathSeg.Cubic (c04rAff p1 d * c04rPiece T (Scalar.pi : ℝ) j)).eval t
          = (c04rAff p1 d * c04rPiece T (Scalar.pi : ℝ) j).eval t := rfl
      rw [e]
      rw [hRd] at b1 b2
      refine c04r_band_cap_end p0 p1 _ k _ _ hk0 hR0 b1 b2 ?_
      rw [hdx, hdy, hnx, hny] at b3
      linarith
    · -- backward offset edge, reversed
      have := c04r_band_edge p0 p1 ((PathSeg.Line ⟨p1 + n, p0 + n⟩).eval t) k 1 (1 - t) T (by norm_num)
        (by linarith) (by linarith) hT0.le
        (by rw [c04r_line_eval]; simp only [kdefs, scalar_norm]; rw [hnx]; ring)
        (by rw [c04r_line_eval]; simp only [kdefs, scalar_norm]; rw [hny]; ring)
      rw [← hnx, ← hny, hR] at this
      exact this
    · -- start cap
      obtain ⟨⟨b1, b2⟩, b3⟩ := c04r_cap_point T hT0 p0 n j hj t h0 h1'
      have e : (PathSeg.Cubic (c04rAff p0 n * c04rPiece T (Scalar.pi : ℝ) j)).eval t
          = (c04rAff p0 n * c04rPiece T (Scalar.pi : ℝ) j).eval t := rfl
      rw [e]
      rw [hR] at b1 b2
      refine c04r_band_cap_start p0 p1 _ k _ _ hk0 hR0 b1 b2 ?_
      rw [hnx, hny] at b3
      linarith
-- non-vacuity: the segment (0,0) → (4,3), width 2, round caps, tolerance 1/10
example : (⟨4, 3⟩ : Point ℝ) ≠ ⟨0, 0⟩ ∧ (⟨2, 2, 4, 2, 2⟩ : StrokeStyle ℝ).start_cap = 2 ∧
    (⟨2, 2, 4, 2, 2⟩ : StrokeStyle ℝ).end_cap = 2 ∧ (0 : ℝ) < (⟨2, 2, 4, 2, 2⟩ : StrokeStyle ℝ).width ∧ (0 : ℝ) < 1 / 10 := by
  refine ⟨?_, rfl, rfl, by norm_num, by norm_num⟩
  intro h
  have := congrArg Point.x h
  norm_num at this

end cap
end Kurbo
