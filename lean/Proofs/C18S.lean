import Proofs.KDefs
import Proofs.Lemmas.C18SOut
/-! C18S – structure clause of C18: "Simplifying a path keeps sub-path structure, closedness, corners and end points".

    Subject: the hand-written model `Kurbo/Simplify.lean` of the control skeleton of `simplify::simplify_bezpath`
    (element loop, corner test through `PathSeg::tangents`, `SimplifyState::{add_seg, flush}`), exactly as it is.  The curve
    fitter is the PARAMETER `fit`; what is assumed of it is the explicit specification `C18FitSpec fit`
    (`Proofs/Lemmas/C18S.lean`): on a queue `MoveTo a :: ds` of at least two drawing elements it returns `MoveTo a`
    followed by one or more `CurveTo`s ending where `ds` ends.  `fitSkeleton_meets_spec`: the stand-in of the model file
    meets it, so the specification is satisfiable.  `flush_calls_fit_within_spec`: the loop calls `fit` only on such queues.

    Everything in sections 1–7 holds for EVERY `[Scalar K]` (also `Float`): points are copied, never computed; the only
    scalar operations are the `==` of the degenerate-segment test and the corner test `simpCorner`, both used as opaque
    Boolean functions.  Only the two stretch theorems of section 8 use a lawful ordered field.

    The vocabulary of the statements (definitions in `Proofs/Lemmas/C18S*.lean`, all by structural recursion):
    * `simpLead els` – number of `ClosePath`s at the head of the input; `els.drop (simpLead els)` is the rest.
    * `simpChunks rest : List (SimpChunk K)` – the input sub-paths as the loop sees them: `start` point, the non-degenerate
      segments `segs`, `closed`.  A sub-path begins at every `MoveTo p` (start `p`) and after every `ClosePath` (start = start
      of the sub-path just closed).  `simpChunks_*` below are its defining equations on `M p ds… (M|Z|end)`.
    * `simpSplitGo th [] segs` – the split of the segments into smooth stretches at the corners (`simpCorner`).
    * `simpStretchOut fit g` – a one-segment stretch verbatim, otherwise `fit` of the queue without its `MoveTo`.
    * `simpChunkOut fit th c` – the output of one input sub-path; `simpSpec fit th els` – the whole specification.

    What is proved:
    0. `simplify_eq_spec` (master equation): under `C18FitSpec fit`, `simplifyBezpath fit els th = simpSpec fit th els`, i.e.
       leading `ClosePath`s are copied, then the outputs of the input sub-paths in order; `.panic` iff the first element that
       is not `ClosePath` is a drawing element.  `simplify_eq_chunks`, `simpChunkOut_empty/_nonempty` spell it out.
    1. `simplify_total` (any `fit`): a path beginning with `MoveTo` never panics; `simplify_leading_draw_panics`;
       `simplify_panic_iff` (any `fit`): the exact panic condition; leading `ClosePath`: `simplify_closepaths_only`,
       `simplify_closepaths_then_moveTo`, `simplify_closepaths_then_draw`.
    2. `flush_spec_empty/_single/_fit`, `flush_post`, `add_seg_spec` (any `fit`); queue invariant `SimpQueueInv`:
       `queue_inv_init/_add_seg/_flush/_push`, and as a LOOP invariant `simplifyLoop_cons` + `queue_inv_step` (the loop is
       the iteration of `simpStep`, every pass keeps the invariant); the master lemma `c18s_loop_spec` carries the
       stronger form `queue = simpQueue pend`.  `flush_calls_fit_within_spec`.
    3. `simplify_closepath_count`; `simplify_closed_flags`: the closed flags of the output sub-paths are those of the input
       sub-paths that emit something, in order.
    4. `simplify_output_wellformed`: output = the input's leading `ClosePath`s, then sub-paths `MoveTo p, drawing elements…,
       [ClosePath]` with at least one drawing element unless it is the closed point `M p Z`.
       `simplify_starts_with_closepath_iff`: the output begins with `ClosePath` iff the input does (the exact truth: leading
       `ClosePath`s of the INPUT are copied; nothing else can put a `ClosePath` first).
       `simplify_no_draw_after_closepath`: a drawing element never directly follows a `ClosePath`.
    5. `simplify_start_points`: the `MoveTo` points of the output are, in order, the start points of the input sub-paths that
       emit something (every one with a non-degenerate segment or closed), bit for bit.
    6. `simplify_corner_is_vertex`, `simplify_end_points` (`simpChunkOut_nonempty`).
    7. `single_segment_verbatim` (any `fit`), `single_segment_in_output`.
    8. `simpCorner_reversal` (threshold `> 0`), `simpCorner_collinear_same_direction` (threshold `≥ 0`).
       Also `stretch_is_smooth`: no corner inside a stretch (with `c18s_split_append_corner`: every corner separates
       two stretches – the split is exactly at the corners).

    What is NOT proved / limits:
    * Nothing about the real fitter (`fit_to_bezpath(_opt)`): that it meets `C18FitSpec` is an assumption here (its accuracy
      is the subject of the oracle part of C18).  The spec demands `MoveTo a` with the SAME point `a` and an end point equal
      bit for bit; a fitter that recomputes them would fall outside.
    * `simpCorner_reversal` needs `0 < angle_thresh`: for `angle_thresh = 0` an exact reversal (cross = 0, dot < 0) is NOT a
      corner in the model (`0 < 0` is false) – see the `example` below it.  The default threshold is `1e-3`.
    * The model's `.panic` stands for `last_pt.unwrap()` only.  For an input that begins with `ClosePath` the crate calls
      `BezPath::close_path` on an empty result, which hits `debug_assert!(!self.0.is_empty())` in DEBUG builds; the model
      (and `simplify_closepaths_only/_then_moveTo`) describe the release behaviour: the `ClosePath`s are copied and the output
      begins with `ClosePath`.
    * An OPEN input sub-path without any non-degenerate segment (`M p` alone, or `M p L p`) emits nothing: that sub-path
      disappears from the output (`SimpChunk.emits`, `simpChunkOut_empty`); a closed one becomes the closed point `M p Z`.
    * Item 6 speaks about consecutive NON-DEGENERATE segments of one sub-path (`c.segs = A ++ s :: s' :: B`); degenerate
      elements in between are skipped by the model and `last_seg` survives them, which the parse `simpHeadSegs` mirrors.
      `subpath_segs_chain` / `subpath_segs_sublist` tie `segs` to the input elements. -/
set_option linter.unusedSectionVars false
set_option linter.unusedSimpArgs false
namespace Kurbo

section structural
variable {K : Type} [Scalar K]

/-! ### 0. the fit specification is satisfiable; the master equation -/

theorem fitSkeleton_meets_spec : C18FitSpec (fitSkeleton (K := K)) := by
  constructor
  intro a ds hds hlen
  cases ds with
  | nil => simp at hlen
  | cons d r =>
    have hl : (PathEl.MoveTo a :: d :: r).getLast? = (d :: r).getLast? := List.getLast?_cons_cons
    obtain ⟨e, he⟩ : ∃ e, (d :: r).getLast? = some e := ⟨_, List.getLast?_cons⟩
    have hem : e ∈ d :: r := List.mem_of_getLast? he
    have hed : e.simpDraw = true := hds e hem
    obtain ⟨b, hb⟩ : ∃ b, e.end_point = some b := by
      cases e <;> first | exact ⟨_, rfl⟩ | cases hed
    refine ⟨[.CurveTo a b b], ?_, by simp, ?_, ?_⟩
    · unfold fitSkeleton
      rw [hl, he]
      simp only [List.head?_cons, hb]
    · intro x hx; simp at hx; subst hx; rfl
    · unfold simpLastEnd
      rw [he]
      exact hb.symm

/-- non-vacuity of the spec on a concrete queue -/
example : fitSkeleton (K := Rat) [.MoveTo ⟨0,0⟩, .LineTo ⟨1,0⟩, .QuadTo ⟨2,0⟩ ⟨3,1⟩]
    = [.MoveTo ⟨0,0⟩, .CurveTo ⟨0,0⟩ ⟨3,1⟩ ⟨3,1⟩] := by decide +kernel

/-- MASTER EQUATION: the model computes exactly the specification `simpSpec` -/
theorem simplify_eq_spec {fit : List (PathEl K) → List (PathEl K)} (hfit : C18FitSpec fit) (th : K)
    (els : List (PathEl K)) : simplifyBezpath fit els th = simpSpec fit th els :=
  c18s_simplify_eq hfit th els

/-- … spelled out for a successful run: leading `ClosePath`s, then the outputs of the input sub-paths in order -/
theorem simplify_eq_chunks {fit : List (PathEl K) → List (PathEl K)} (hfit : C18FitSpec fit) (th : K)
    (els out : List (PathEl K)) (h : simplifyBezpath fit els th = .ok out) :
    out = List.replicate (simpLead els) .ClosePath ++
      ((simpChunks (els.drop (simpLead els))).map (simpChunkOut fit th)).flatten := by
  rw [simplify_eq_spec hfit, simpSpec] at h
  split at h
  · rename_i hd; cases h; simp [hd, simpChunks]
  · rename_i p r hd; cases h; rw [hd]
  · cases h

/-- an input sub-path without non-degenerate segment: the closed point `M p Z` if closed, nothing otherwise -/
theorem simpChunkOut_empty (fit : List (PathEl K) → List (PathEl K)) (th : K) (start : Point K) (closed : Bool) :
    simpChunkOut fit th ⟨start, [], closed⟩ = if closed then [.MoveTo start, .ClosePath] else [] :=
  c18s_chunkOut_nil fit th start closed

/-- an input sub-path with segments: `MoveTo start`, a non-empty run of drawing elements that ends (bit for bit) at the end
    point of the last non-degenerate segment (`simplify_end_points`), `ClosePath` iff closed -/
theorem simpChunkOut_nonempty {fit : List (PathEl K) → List (PathEl K)} (hfit : C18FitSpec fit) (th : K)
    (c : SimpChunk K) (hne : c.segs ≠ []) :
    ∃ draws, simpChunkOut fit th c = .MoveTo c.start :: draws ++ (if c.closed then [.ClosePath] else []) ∧
      draws ≠ [] ∧ (∀ e ∈ draws, e.simpDraw = true) ∧ simpLastEnd draws = c.segs.getLast?.map PathSeg.end := by
  obtain ⟨start, segs, closed⟩ := c
  cases segs with
  | nil => exact absurd rfl hne
  | cons a r =>
    obtain ⟨h1, h2, h3⟩ := c18s_chunkDraws_spec hfit th (a :: r) (by simp)
    exact ⟨simpChunkDraws fit th (a :: r), c18s_chunkOut_cons fit th start a r closed, h1, h2, h3⟩

/-- the defining equations of the parse `simpChunks` (`ds` = drawing elements) -/
theorem simpChunks_moveTo (p : Point K) (r : List (PathEl K)) : simpChunks (.MoveTo p :: r) = simpChunksFrom p p r := rfl
theorem simpChunksFrom_end (start last : Point K) (ds : List (PathEl K)) (hds : ∀ e ∈ ds, e.simpDraw = true) :
    simpChunksFrom start last ds = [⟨start, simpHeadSegs last ds, false⟩] :=
  c18s_chunksFrom_draws start ds last hds
theorem simpChunksFrom_moveTo (start last q : Point K) (ds r : List (PathEl K)) (hds : ∀ e ∈ ds, e.simpDraw = true) :
    simpChunksFrom start last (ds ++ .MoveTo q :: r) = ⟨start, simpHeadSegs last ds, false⟩ :: simpChunksFrom q q r := by
  obtain ⟨h1, h2⟩ := c18s_chunksFrom_append start (.MoveTo q :: r) ds last hds
  have h3 := c18s_headSegs_append_stop (.MoveTo q :: r) (by intro e he; simp at he; subst he; rfl) ds last hds
  simp only [simpChunksFrom, h1, h2, h3, simpHeadClosed, simpTailChunks, PathEl.simpDraw, PathEl.simpClose]
  simp
/-- after `ClosePath` the next sub-path starts, without `MoveTo`, at the start of the one just closed -/
theorem simpChunksFrom_closePath (start last : Point K) (ds r : List (PathEl K)) (hds : ∀ e ∈ ds, e.simpDraw = true) :
    simpChunksFrom start last (ds ++ .ClosePath :: r) = ⟨start, simpHeadSegs last ds, true⟩ :: simpChunksFrom start start r := by
  obtain ⟨h1, h2⟩ := c18s_chunksFrom_append start (.ClosePath :: r) ds last hds
  have h3 := c18s_headSegs_append_stop (.ClosePath :: r) (by intro e he; simp at he; subst he; rfl) ds last hds
  simp only [simpChunksFrom, h1, h2, h3, simpHeadClosed, simpTailChunks, PathEl.simpDraw, PathEl.simpClose]
  simp
/-- the segments of a sub-path are a connected chain from its current point (each start IS the previous end) … -/
theorem subpath_segs_chain (last : Point K) (ds : List (PathEl K)) : simpChain last (simpHeadSegs last ds) :=
  c18s_headSegs_chain ds last
/-- … and their drawing elements are the input's own (a sub-list: the degenerate ones are dropped, nothing is altered) -/
theorem subpath_segs_sublist (last : Point K) (ds : List (PathEl K)) :
    ((simpHeadSegs last ds).map PathSeg.drawEl).Sublist ds :=
  c18s_headSegs_sublist ds last

/-! ### 1. totality and the exact panic condition (any `fit`) -/

theorem simplify_total (fit : List (PathEl K) → List (PathEl K)) (th : K) (p : Point K) (r : List (PathEl K)) :
    ∃ out, simplifyBezpath fit (.MoveTo p :: r) th = .ok out := by
  unfold simplifyBezpath
  simp only [simplifyLoop]
  exact c18s_loop_total fit th r _ rfl rfl

/-- panics exactly when the first element that is not a `ClosePath` is a drawing element -/
theorem simplify_panic_iff (fit : List (PathEl K) → List (PathEl K)) (th : K) (els : List (PathEl K)) :
    simplifyBezpath fit els th = .panic ↔ ∃ e r, els.drop (simpLead els) = e :: r ∧ e.simpDraw = true := by
  have h := c18s_loop_pre fit th els [] false
  simp only [List.nil_append] at h
  unfold simplifyBezpath
  rw [show ({} : SimpLoop K) = ⟨none, none, none, ⟨[], [], false⟩⟩ from rfl, h]
  have hz := c18s_lead_drop_head els
  cases hd : els.drop (simpLead els) with
  | nil => simp
  | cons e r =>
    rw [hd] at hz
    cases e with
    | MoveTo p =>
      obtain ⟨out, ho⟩ := c18s_loop_total fit th r
        ⟨some p, some p, none, ⟨[], List.replicate (simpLead els) .ClosePath, true⟩⟩ rfl rfl
      simp [ho, PathEl.simpDraw]
    | ClosePath => exact absurd (hz _ rfl) (by simp [PathEl.simpClose])
    | LineTo p => simp [PathEl.simpDraw]
    | QuadTo p1 p2 => simp [PathEl.simpDraw]
    | CurveTo p1 p2 p3 => simp [PathEl.simpDraw]

theorem simplify_leading_draw_panics (fit : List (PathEl K) → List (PathEl K)) (th : K) (el : PathEl K)
    (r : List (PathEl K)) (h : el.simpDraw = true) : simplifyBezpath fit (el :: r) th = .panic := by
  rw [simplify_panic_iff]
  refine ⟨el, r, ?_, h⟩
  cases el <;> first | rfl | cases h

/-- leading `ClosePath`, case 1: nothing but `ClosePath`s – they are returned as they are -/
theorem simplify_closepaths_only (fit : List (PathEl K) → List (PathEl K)) (th : K) (k : Nat) :
    simplifyBezpath fit (List.replicate k .ClosePath) th = .ok (List.replicate k .ClosePath) := by
  have h := c18s_loop_pre fit th (List.replicate k .ClosePath) [] false
  obtain ⟨h1, h2⟩ := c18s_lead_replicate ([] : List (PathEl K)) rfl k
  simp only [List.append_nil] at h1 h2
  unfold simplifyBezpath
  rw [show ({} : SimpLoop K) = ⟨none, none, none, ⟨[], [], false⟩⟩ from rfl, h, h1, h2]
  simp

/-- leading `ClosePath`, case 2: then a drawing element – panic -/
theorem simplify_closepaths_then_draw (fit : List (PathEl K) → List (PathEl K)) (th : K) (k : Nat) (e : PathEl K)
    (r : List (PathEl K)) (he : e.simpDraw = true) :
    simplifyBezpath fit (List.replicate k .ClosePath ++ e :: r) th = .panic := by
  rw [simplify_panic_iff]
  have h0 : simpLead (e :: r) = 0 := by cases e <;> first | rfl | cases he
  obtain ⟨h1, h2⟩ := c18s_lead_replicate (e :: r) h0 k
  exact ⟨e, r, by rw [h1, h2], he⟩

/-- leading `ClosePath`, case 3: then a `MoveTo` – the `ClosePath`s are copied in front of the output of the rest
    (so the OUTPUT begins with `ClosePath`: the model, like the crate, does not repair such input) -/
theorem simplify_closepaths_then_moveTo {fit : List (PathEl K) → List (PathEl K)} (hfit : C18FitSpec fit) (th : K)
    (k : Nat) (p : Point K) (r out : List (PathEl K)) (h : simplifyBezpath fit (.MoveTo p :: r) th = .ok out) :
    simplifyBezpath fit (List.replicate k .ClosePath ++ .MoveTo p :: r) th = .ok (List.replicate k .ClosePath ++ out) := by
  obtain ⟨h1, h2⟩ := c18s_lead_replicate (.MoveTo p :: r) rfl k
  rw [simplify_eq_spec hfit, simpSpec] at h ⊢
  rw [h1, h2]
  simp only [simpLead, List.drop_zero, List.replicate_zero, List.nil_append] at h
  cases h
  rfl

/-! ### 2. `flush`, `add_seg` and the queue invariant (any `fit`) -/

theorem flush_spec_empty (fit : List (PathEl K) → List (PathEl K)) (s : SimpSt K) (h : s.queue = []) :
    s.flush fit = s := by
  simp [SimpSt.flush, h]

/-- one queued segment (`MoveTo` + one element): emitted verbatim, with its `MoveTo` iff `needs_moveto` -/
theorem flush_spec_single (fit : List (PathEl K) → List (PathEl K)) (s : SimpSt K) (a d : PathEl K)
    (h : s.queue = [a, d]) :
    s.flush fit = ⟨[], s.result ++ (if s.needs_moveto then [a, d] else [d]), false⟩ := by
  cases hn : s.needs_moveto <;> simp [SimpSt.flush, h, hn]

/-- otherwise: `fit queue`, minus its first element unless `needs_moveto` -/
theorem flush_spec_fit (fit : List (PathEl K) → List (PathEl K)) (s : SimpSt K) (h0 : s.queue ≠ [])
    (h2 : s.queue.length ≠ 2) :
    s.flush fit = ⟨[], s.result ++ (if s.needs_moveto then fit s.queue else (fit s.queue).drop 1), false⟩ := by
  cases hn : s.needs_moveto <;> simp [SimpSt.flush, h0, h2, hn]

/-- after `flush` the queue is empty; `needs_moveto` is cleared whenever something was queued (an empty queue leaves the
    state untouched, `needs_moveto` included) -/
theorem flush_post (fit : List (PathEl K) → List (PathEl K)) (s : SimpSt K) :
    (s.flush fit).queue = [] ∧ (s.queue ≠ [] → (s.flush fit).needs_moveto = false) := by
  refine ⟨c18s_flush_queue fit s, fun h => ?_⟩
  simp [SimpSt.flush, h]

theorem add_seg_spec (s : SimpSt K) (seg : PathSeg K) :
    s.add_seg seg =
      ⟨(if s.queue.isEmpty then [.MoveTo seg.start] else s.queue) ++ [seg.drawEl], s.result, s.needs_moveto⟩ := rfl

theorem queue_inv_init : SimpQueueInv ({} : SimpSt K).queue := Or.inl rfl
theorem queue_inv_add_seg (s : SimpSt K) (seg : PathSeg K) (h : SimpQueueInv s.queue) :
    SimpQueueInv (s.add_seg seg).queue := c18s_queueInv_add_seg s seg h
theorem queue_inv_flush (fit : List (PathEl K) → List (PathEl K)) (s : SimpSt K) : SimpQueueInv (s.flush fit).queue :=
  Or.inl (c18s_flush_queue fit s)
theorem queue_inv_push (fit : List (PathEl K) → List (PathEl K)) (th : K) (l : SimpLoop K) (seg : PathSeg K)
    (h : SimpQueueInv l.st.queue) : SimpQueueInv (l.push fit th seg).st.queue := by
  unfold SimpLoop.push
  simp only []
  apply c18s_queueInv_add_seg
  cases l.last_seg with
  | none => exact h
  | some last =>
    simp only []
    split
    · exact queue_inv_flush fit _
    · exact h

/-- the loop is the iteration of `simpStep` (one pass of the loop body as a state transformer, `none` = panic) … -/
theorem simplifyLoop_cons (fit : List (PathEl K) → List (PathEl K)) (th : K) (l : SimpLoop K) (el : PathEl K)
    (r : List (PathEl K)) :
    simplifyLoop fit th (el :: r) l =
      match simpStep fit th l el with
      | none => .panic
      | some l' => simplifyLoop fit th r l' :=
  c18s_loop_cons fit th l el r

/-- … and every pass keeps the queue invariant: LOOP INVARIANT (it holds initially by `queue_inv_init`) -/
theorem queue_inv_step (fit : List (PathEl K) → List (PathEl K)) (th : K) (l l' : SimpLoop K) (el : PathEl K)
    (h : SimpQueueInv l.st.queue) (hs : simpStep fit th l el = some l') : SimpQueueInv l'.st.queue := by
  have hdraw : el.simpDraw = true →
      (match l.last_pt with
        | none => none
        | some last => match simpElSeg last el with
          | none => some l
          | some s => some (l.push fit th s)) = some l' → SimpQueueInv l'.st.queue := by
    intro _ hs
    cases hl : l.last_pt with
    | none => rw [hl] at hs; cases hs
    | some last =>
      rw [hl] at hs
      simp only [] at hs
      cases he : simpElSeg last el with
      | none => rw [he] at hs; cases hs; exact h
      | some s => rw [he] at hs; cases hs; exact queue_inv_push fit th l s h
  cases el with
  | MoveTo p => simp only [simpStep] at hs; cases hs; exact Or.inl (c18s_flush_queue fit _)
  | ClosePath =>
    simp only [simpStep] at hs
    cases hs
    left
    simp only []
    split
    · split
      · exact c18s_flush_queue fit _
      · exact c18s_flush_queue fit _
    · exact c18s_flush_queue fit _
  | LineTo p => exact hdraw rfl hs
  | QuadTo p1 p2 => exact hdraw rfl hs
  | CurveTo p1 p2 p3 => exact hdraw rfl hs

/-- under the invariant, `flush` hands `fit` only queues inside the precondition of `C18FitSpec` -/
theorem flush_calls_fit_within_spec (s : SimpSt K) (h : SimpQueueInv s.queue) (h0 : s.queue ≠ [])
    (h2 : s.queue.length ≠ 2) :
    ∃ a ds, s.queue = .MoveTo a :: ds ∧ (∀ e ∈ ds, e.simpDraw = true) ∧ 2 ≤ ds.length := by
  rcases h with h | ⟨p, ds, h, hne, hd⟩
  · exact absurd h h0
  · refine ⟨p, ds, h, hd, ?_⟩
    rw [h] at h2
    cases ds with
    | nil => exact absurd rfl hne
    | cons d r => cases r with
      | nil => simp at h2
      | cons d' r' => simp

example : SimpQueueInv (K := Rat) [.MoveTo ⟨0,0⟩, .LineTo ⟨1,0⟩] :=
  Or.inr ⟨⟨0,0⟩, [.LineTo ⟨1,0⟩], rfl, by simp, by intro e he; simp at he; subst he; rfl⟩

/-! ### 4. shape of the output -/

/-- the output is: the input's leading `ClosePath`s, then well-formed sub-paths (`MoveTo`, drawing elements, optional
    `ClosePath`; at least one drawing element unless it is a closed point `M p Z`).  The sub-paths are those of the input
    sub-paths that emit something (`simpChunkSub`), in order. -/
theorem simplify_output_subpaths {fit : List (PathEl K) → List (PathEl K)} (hfit : C18FitSpec fit) (th : K)
    (els out : List (PathEl K)) (h : simplifyBezpath fit els th = .ok out) :
    out = List.replicate (simpLead els) .ClosePath ++
        (((simpChunks (els.drop (simpLead els))).filterMap (simpChunkSub fit th)).map SimpSub.els).flatten ∧
      ∀ s ∈ (simpChunks (els.drop (simpLead els))).filterMap (simpChunkSub fit th), s.WF := by
  refine ⟨?_, ?_⟩
  · rw [← c18s_chunks_out_subs]; exact simplify_eq_chunks hfit th els out h
  · intro s hs
    obtain ⟨c, -, hc⟩ := List.mem_filterMap.1 hs
    exact c18s_chunkSub_wf hfit th c s hc

theorem simplify_output_wellformed {fit : List (PathEl K) → List (PathEl K)} (hfit : C18FitSpec fit) (th : K)
    (els out : List (PathEl K)) (h : simplifyBezpath fit els th = .ok out) :
    ∃ subs : List (SimpSub K),
      out = List.replicate (simpLead els) .ClosePath ++ (subs.map SimpSub.els).flatten ∧ ∀ s ∈ subs, s.WF :=
  ⟨_, simplify_output_subpaths hfit th els out h⟩

/-- the output begins with `ClosePath` iff the input does -/
theorem simplify_starts_with_closepath_iff {fit : List (PathEl K) → List (PathEl K)} (hfit : C18FitSpec fit) (th : K)
    (els out : List (PathEl K)) (h : simplifyBezpath fit els th = .ok out) :
    out.head? = some .ClosePath ↔ els.head? = some .ClosePath := by
  obtain ⟨subs, ho, -⟩ := simplify_output_wellformed hfit th els out h
  have hsub : ((subs.map SimpSub.els).flatten).head? ≠ some (PathEl.ClosePath : PathEl K) := by
    cases subs with
    | nil => simp
    | cons s r => simp [SimpSub.els]
  cases els with
  | nil => simp [simpLead] at ho; subst ho; simpa using hsub
  | cons e r =>
    cases e with
    | ClosePath => simp [simpLead, List.replicate_succ] at ho; subst ho; simp
    | MoveTo p => simp [simpLead] at ho; subst ho; simpa using hsub
    | LineTo p => simp [simpLead] at ho; subst ho; simpa using hsub
    | QuadTo p1 p2 => simp [simpLead] at ho; subst ho; simpa using hsub
    | CurveTo p1 p2 p3 => simp [simpLead] at ho; subst ho; simpa using hsub

/-- a drawing element never follows a `ClosePath` directly (a `MoveTo` is always put in between) -/
theorem simplify_no_draw_after_closepath {fit : List (PathEl K) → List (PathEl K)} (hfit : C18FitSpec fit) (th : K)
    (els out : List (PathEl K)) (h : simplifyBezpath fit els th = .ok out) :
    ∀ A e B, out = A ++ PathEl.ClosePath :: e :: B → e.simpDraw = false := by
  obtain ⟨subs, ho, hwf⟩ := simplify_output_wellformed hfit th els out h
  intro A e B hA
  refine c18s_followOK_sound A false out ?_ e B hA
  rw [ho]
  exact c18s_followOK_replicate _ (c18s_followOK_subs subs hwf) _ _

/-! ### 3. closedness -/

theorem simplify_closepath_count {fit : List (PathEl K) → List (PathEl K)} (hfit : C18FitSpec fit) (th : K)
    (els out : List (PathEl K)) (h : simplifyBezpath fit els th = .ok out) :
    out.countP PathEl.simpClose = els.countP PathEl.simpClose := by
  obtain ⟨ho, hwf⟩ := simplify_output_subpaths hfit th els out h
  have hsplit := c18s_lead_split els
  have hin : els.countP PathEl.simpClose =
      simpLead els + (els.drop (simpLead els)).countP PathEl.simpClose := by
    conv_lhs => rw [hsplit]
    rw [List.countP_append, c18s_replicate_close_count]
  rw [hin, ho, List.countP_append, c18s_replicate_close_count, c18s_subs_closeCount _ hwf, c18s_filterMap_sub_closed]
  congr 1
  cases hd : els.drop (simpLead els) with
  | nil => rfl
  | cons e r =>
    cases e with
    | MoveTo p =>
      rw [simpChunks_moveTo, c18s_closed_count]
      simp [PathEl.simpClose]
    | ClosePath => exact absurd (c18s_lead_drop_head els _ (by rw [hd]; rfl)) (by simp [PathEl.simpClose])
    | LineTo p =>
      exfalso
      have := (simplify_panic_iff fit th els).2 ⟨_, _, hd, rfl⟩
      rw [this] at h; cases h
    | QuadTo p1 p2 =>
      exfalso
      have := (simplify_panic_iff fit th els).2 ⟨_, _, hd, rfl⟩
      rw [this] at h; cases h
    | CurveTo p1 p2 p3 =>
      exfalso
      have := (simplify_panic_iff fit th els).2 ⟨_, _, hd, rfl⟩
      rw [this] at h; cases h

/-- sub-path by sub-path: the output sub-paths are those of the input sub-paths that emit something, in order, each with
    the closed flag (and the start point, section 5) of its input sub-path -/
theorem simplify_closed_flags (fit : List (PathEl K) → List (PathEl K)) (th : K) (cs : List (SimpChunk K)) :
    (cs.filterMap (simpChunkSub fit th)).map (fun s => (s.start, s.closed)) =
      (cs.filter SimpChunk.emits).map (fun c => (c.start, c.closed)) := by
  induction cs with
  | nil => rfl
  | cons c r ih =>
    have e : simpChunkSub fit th c =
        if c.emits then some ⟨c.start, simpChunkDraws fit th c.segs, c.closed⟩ else none := rfl
    rw [List.filterMap_cons, List.filter_cons, e]
    cases c.emits with
    | true => simp only [if_true, List.map_cons]; rw [← ih]
    | false => simpa using ih

/-! ### 5. start points -/

/-- the `MoveTo` points of the output are, in order and bit for bit, the start points of the input sub-paths that emit
    something: the point of the input `MoveTo`, or, for a sub-path that follows a `ClosePath` without `MoveTo`, the start
    of the sub-path just closed (see `simpChunksFrom_closePath`) -/
theorem simplify_start_points {fit : List (PathEl K) → List (PathEl K)} (hfit : C18FitSpec fit) (th : K)
    (els out : List (PathEl K)) (h : simplifyBezpath fit els th = .ok out) :
    out.filterMap PathEl.simpMovePt =
      ((simpChunks (els.drop (simpLead els))).filter SimpChunk.emits).map SimpChunk.start := by
  obtain ⟨ho, hwf⟩ := simplify_output_subpaths hfit th els out h
  rw [ho, List.filterMap_append, c18s_replicate_movePts, List.nil_append, c18s_subs_movePts _ hwf,
    c18s_filterMap_sub_start]

/-! ### 6. corners are vertices; end points -/

/-- a corner between two consecutive non-degenerate segments of an input sub-path is the end point of an output element -/
theorem simplify_corner_is_vertex {fit : List (PathEl K) → List (PathEl K)} (hfit : C18FitSpec fit) (th : K)
    (els out : List (PathEl K)) (h : simplifyBezpath fit els th = .ok out)
    (c : SimpChunk K) (hc : c ∈ simpChunks (els.drop (simpLead els)))
    (A : List (PathSeg K)) (s s' : PathSeg K) (B : List (PathSeg K)) (hsegs : c.segs = A ++ s :: s' :: B)
    (hcorner : simpCorner th s s' = true) :
    ∃ e ∈ out, e.end_point = some s.end := by
  obtain ⟨e, he, hend⟩ := c18s_corner_vertex_chunk hfit th c.segs A s s' B hsegs hcorner
  refine ⟨e, ?_, hend⟩
  rw [simplify_eq_chunks hfit th els out h]
  refine List.mem_append_right _ (List.mem_flatten.2 ⟨simpChunkOut fit th c, List.mem_map.2 ⟨c, hc, rfl⟩, ?_⟩)
  exact c18s_chunkDraws_mem_out fit th c e he

/-- the last drawing element of the output of an input sub-path ends where its last non-degenerate segment ends -/
theorem simplify_end_points {fit : List (PathEl K) → List (PathEl K)} (hfit : C18FitSpec fit) (th : K)
    (els out : List (PathEl K)) (h : simplifyBezpath fit els th = .ok out)
    (c : SimpChunk K) (hc : c ∈ simpChunks (els.drop (simpLead els))) (hne : c.segs ≠ []) :
    ∃ pre post draws, out = pre ++ (.MoveTo c.start :: draws ++ (if c.closed then [.ClosePath] else [])) ++ post ∧
      draws ≠ [] ∧ (∀ e ∈ draws, e.simpDraw = true) ∧ simpLastEnd draws = c.segs.getLast?.map PathSeg.end := by
  obtain ⟨draws, h1, h2, h3, h4⟩ := simpChunkOut_nonempty hfit th c hne
  obtain ⟨X, Y, hXY⟩ := c18s_flatten_map_mem (simpChunkOut fit th) _ c hc
  refine ⟨List.replicate (simpLead els) .ClosePath ++ X, Y, draws, ?_, h2, h3, h4⟩
  rw [simplify_eq_chunks hfit th els out h, hXY, h1]
  simp

/-! ### 7. a one-segment stretch is emitted verbatim (any `fit`) -/

/-- a segment `s` with a corner (or the sub-path's beginning) before it and a corner (or the sub-path's end) after it is
    emitted as its own drawing element, between the outputs of what precedes and what follows -/
theorem single_segment_verbatim (fit : List (PathEl K) → List (PathEl K)) (th : K) (c : SimpChunk K)
    (A : List (PathSeg K)) (s : PathSeg K) (B : List (PathSeg K)) (hsegs : c.segs = A ++ s :: B)
    (hA : ∀ a, A.getLast? = some a → simpCorner th a s = true)
    (hB : ∀ b, B.head? = some b → simpCorner th s b = true) :
    simpChunkOut fit th c =
      .MoveTo c.start :: (simpChunkDraws fit th A ++ s.drawEl :: simpChunkDraws fit th B) ++
        (if c.closed then [.ClosePath] else []) := by
  obtain ⟨start, segs, closed⟩ := c
  simp only at hsegs
  subst hsegs
  have hne : A ++ s :: B ≠ [] := by simp
  cases hAB : A ++ s :: B with
  | nil => exact absurd hAB hne
  | cons x r =>
    rw [c18s_chunkOut_cons, ← hAB]
    simp only [simpChunkDraws, c18s_split_single th A s B hA hB, List.map_append, List.map_cons,
      List.flatten_append, List.flatten_cons, c18s_stretchOut_single, List.singleton_append]

theorem single_segment_in_output {fit : List (PathEl K) → List (PathEl K)} (hfit : C18FitSpec fit) (th : K)
    (els out : List (PathEl K)) (h : simplifyBezpath fit els th = .ok out)
    (c : SimpChunk K) (hc : c ∈ simpChunks (els.drop (simpLead els)))
    (A : List (PathSeg K)) (s : PathSeg K) (B : List (PathSeg K)) (hsegs : c.segs = A ++ s :: B)
    (hA : ∀ a, A.getLast? = some a → simpCorner th a s = true)
    (hB : ∀ b, B.head? = some b → simpCorner th s b = true) :
    ∃ pre post, out = pre ++ s.drawEl :: post := by
  obtain ⟨X, Y, hXY⟩ := c18s_flatten_map_mem (simpChunkOut fit th) _ c hc
  rw [simplify_eq_chunks hfit th els out h, hXY, single_segment_verbatim fit th c A s B hsegs hA hB]
  exact ⟨List.replicate (simpLead els) .ClosePath ++ X ++ .MoveTo c.start :: simpChunkDraws fit th A,
    simpChunkDraws fit th B ++ (if c.closed then [.ClosePath] else []) ++ Y, by simp⟩

/-- the split is exact: no corner inside a stretch (and by `c18s_split_append_corner` every corner separates stretches) -/
theorem stretch_is_smooth (th : K) (segs : List (PathSeg K)) (g : List (PathSeg K)) (hg : g ∈ simpSplitGo th [] segs)
    (X : List (PathSeg K)) (s s' : PathSeg K) (Y : List (PathSeg K)) (h : g = X ++ s :: s' :: Y) :
    simpCorner th s s' = false :=
  c18s_split_smooth th segs [] (by intro X s s' Y h; simp at h) g hg X s s' Y h

/-- the stretches are a partition of the segments, none empty -/
theorem stretches_partition (th : K) (segs : List (PathSeg K)) :
    (simpSplitGo th [] segs).flatten = segs ∧ ∀ g ∈ simpSplitGo th [] segs, g ≠ [] :=
  ⟨by simpa using c18s_split_flatten th segs [], c18s_split_ne th segs []⟩

/-! ### concrete runs (`Rat`, the stand-in fitter, default threshold 1e-3) -/

/-- a corner: two one-segment stretches, both verbatim -/
example : simplifyBezpath (K := Rat) fitSkeleton [.MoveTo ⟨0,0⟩, .LineTo ⟨1,0⟩, .LineTo ⟨1,1⟩]
    = .ok [.MoveTo ⟨0,0⟩, .LineTo ⟨1,0⟩, .LineTo ⟨1,1⟩] := by decide +kernel
/-- a smooth stretch of two segments is fitted, the corner after it is kept as a vertex, the single segment is verbatim -/
example : simplifyBezpath (K := Rat) fitSkeleton [.MoveTo ⟨0,0⟩, .LineTo ⟨1,0⟩, .LineTo ⟨2,0⟩, .LineTo ⟨2,1⟩]
    = .ok [.MoveTo ⟨0,0⟩, .CurveTo ⟨0,0⟩ ⟨2,0⟩ ⟨2,0⟩, .LineTo ⟨2,1⟩] := by decide +kernel
/-- a closed sub-path followed by drawing without `MoveTo`: a `MoveTo` to the start of the closed sub-path is supplied -/
example : simplifyBezpath (K := Rat) fitSkeleton
      [.MoveTo ⟨0,0⟩, .LineTo ⟨1,0⟩, .LineTo ⟨1,1⟩, .ClosePath, .LineTo ⟨5,5⟩]
    = .ok [.MoveTo ⟨0,0⟩, .LineTo ⟨1,0⟩, .LineTo ⟨1,1⟩, .ClosePath, .MoveTo ⟨0,0⟩, .LineTo ⟨5,5⟩] := by decide +kernel
/-- an empty closed sub-path `M p Z` is kept as a closed point; an empty open one (`M p` alone) emits nothing -/
example : simplifyBezpath (K := Rat) fitSkeleton [.MoveTo ⟨3,4⟩, .ClosePath, .MoveTo ⟨7,7⟩, .MoveTo ⟨1,1⟩, .LineTo ⟨2,1⟩]
    = .ok [.MoveTo ⟨3,4⟩, .ClosePath, .MoveTo ⟨1,1⟩, .LineTo ⟨2,1⟩] := by decide +kernel
/-- a degenerate element is skipped; `ClosePath ClosePath` gives a second closed point -/
example : simplifyBezpath (K := Rat) fitSkeleton [.MoveTo ⟨0,0⟩, .LineTo ⟨0,0⟩, .LineTo ⟨1,0⟩, .ClosePath, .ClosePath]
    = .ok [.MoveTo ⟨0,0⟩, .LineTo ⟨1,0⟩, .ClosePath, .MoveTo ⟨0,0⟩, .ClosePath] := by decide +kernel
/-- leading `ClosePath`s are copied -/
example : simplifyBezpath (K := Rat) fitSkeleton [.ClosePath, .MoveTo ⟨0,0⟩, .LineTo ⟨1,0⟩]
    = .ok [.ClosePath, .MoveTo ⟨0,0⟩, .LineTo ⟨1,0⟩] := by decide +kernel
example : simplifyBezpath (K := Rat) fitSkeleton [.ClosePath, .LineTo ⟨1,0⟩] = .panic := by decide +kernel
/-- the parse of the third example: two sub-paths, the second starting at the start of the first -/
example : simpChunks (K := Rat) [.MoveTo ⟨0,0⟩, .LineTo ⟨1,0⟩, .LineTo ⟨1,1⟩, .ClosePath, .LineTo ⟨5,5⟩]
    = [⟨⟨0,0⟩, [.Line ⟨⟨0,0⟩,⟨1,0⟩⟩, .Line ⟨⟨1,0⟩,⟨1,1⟩⟩], true⟩, ⟨⟨0,0⟩, [.Line ⟨⟨0,0⟩,⟨5,5⟩⟩], false⟩] := by
  decide +kernel
/-- `simplify_corner_is_vertex` applied to the second example: the corner point (2,0) is a vertex of the output -/
example : ∃ e ∈ ([.MoveTo ⟨0,0⟩, .CurveTo ⟨0,0⟩ ⟨2,0⟩ ⟨2,0⟩, .LineTo ⟨2,1⟩] : List (PathEl Rat)),
    e.end_point = some ⟨2,0⟩ :=
  simplify_corner_is_vertex (K := Rat) fitSkeleton_meets_spec (Scalar.ofRat (1/1000))
    [.MoveTo ⟨0,0⟩, .LineTo ⟨1,0⟩, .LineTo ⟨2,0⟩, .LineTo ⟨2,1⟩] _ (by decide +kernel)
    ⟨⟨0,0⟩, [.Line ⟨⟨0,0⟩,⟨1,0⟩⟩, .Line ⟨⟨1,0⟩,⟨2,0⟩⟩, .Line ⟨⟨2,0⟩,⟨2,1⟩⟩], false⟩ (by decide +kernel)
    [.Line ⟨⟨0,0⟩,⟨1,0⟩⟩] (.Line ⟨⟨1,0⟩,⟨2,0⟩⟩) (.Line ⟨⟨2,0⟩,⟨2,1⟩⟩) [] rfl (by decide +kernel)
/-- hypotheses of `simplify_corner_is_vertex` / `single_segment_verbatim` are satisfiable -/
example : simpCorner (K := Rat) (Scalar.ofRat (1/1000)) (.Line ⟨⟨0,0⟩,⟨1,0⟩⟩) (.Line ⟨⟨1,0⟩,⟨1,1⟩⟩) = true := by
  decide +kernel

end structural

/-! ### 8. the corner test over a lawful ordered field -/
section lawful
variable {K : Type} [Field K] [LinearOrder K] [IsStrictOrderedRing K] [FloorRing K] [Scalar K] [LawfulScalar K]

/-- a reversal of direction (negative dot product of the tangents) is a corner for every positive threshold -/
theorem simpCorner_reversal (th : K) (hth : 0 < th) (last seg : PathSeg K)
    (h : last.tangents.2.dot seg.tangents.1 < 0) : simpCorner th last seg = true := by
  simp only [simpCorner, scalar_norm, decide_eq_true_eq]
  have : last.tangents.2.dot seg.tangents.1 * th < 0 := mul_neg_of_neg_of_pos h hth
  exact lt_of_lt_of_le this (abs_nonneg _)

/-- parallel tangents pointing the same way (zero cross product, non-negative dot product) are not a corner -/
theorem simpCorner_collinear_same_direction (th : K) (hth : 0 ≤ th) (last seg : PathSeg K)
    (hcross : last.tangents.2.cross seg.tangents.1 = 0) (hdot : 0 ≤ last.tangents.2.dot seg.tangents.1) :
    simpCorner th last seg = false := by
  simp only [simpCorner, scalar_norm, decide_eq_false_iff_not, hcross, abs_zero, not_lt]
  exact mul_nonneg hdot hth

example : (PathSeg.Line (K := Rat) ⟨⟨0,0⟩,⟨1,0⟩⟩).tangents.2.dot (PathSeg.Line (K := Rat) ⟨⟨1,0⟩,⟨0,0⟩⟩).tangents.1 < 0 := by
  decide +kernel
/-- with threshold 0 an exact reversal is NOT a corner (why `simpCorner_reversal` asks `0 < th`) -/
example : simpCorner (K := Rat) 0 (.Line ⟨⟨0,0⟩,⟨1,0⟩⟩) (.Line ⟨⟨1,0⟩,⟨0,0⟩⟩) = false := by decide +kernel
example : simpCorner (K := Rat) (Scalar.ofRat (1/1000)) (.Line ⟨⟨0,0⟩,⟨1,0⟩⟩) (.Line ⟨⟨1,0⟩,⟨0,0⟩⟩) = true := by
  decide +kernel
example : (PathSeg.Line (K := Rat) ⟨⟨0,0⟩,⟨1,0⟩⟩).tangents.2.cross (PathSeg.Line (K := Rat) ⟨⟨1,0⟩,⟨3,0⟩⟩).tangents.1 = 0
    ∧ 0 ≤ (PathSeg.Line (K := Rat) ⟨⟨0,0⟩,⟨1,0⟩⟩).tangents.2.dot (PathSeg.Line (K := Rat) ⟨⟨1,0⟩,⟨3,0⟩⟩).tangents.1 := by
  decide +kernel

end lawful
end Kurbo
