import Proofs.C10
import Proofs.Lemmas.C10ATaylor
import Proofs.Lemmas.C10ACore
import Proofs.Lemmas.C10AArc
/-! C10A – the tolerance claim of C10 for CIRCULAR ARCS, for every radius and EVERY tolerance.

    C10 ("every point of the Bezier outline produced for tolerance T lies within T of the ideal shape") was proved for
    circles for every `T`, but for circular arcs (`Arc` with radii `(R, R)`, no rotation: the corner arcs of rounded
    rectangles and the two arcs of circle segments) only when `1.1163·R/T ≥ 5⁶` (`R/T ≥ 13997.2`).  This file closes
    that gap.  All statements are about the model functions of `Kurbo/Shapes.lean` exactly as they are
    (`Arc.appendParams`, `Arc.append_iter`, `Arc.path_elements`, `RoundedRect.arcs`, `CircleSegment.outer_arc/inner_arc`),
    over ℝ with `LawfulTrig` (`sin cos tan pi` are the real ones) and `LawfulCount` (`as usize`/`powf` are `⌊·⌋₊`/`rpow`).

    `Arc::append_iter`:  `n_err = max((1.1163·R/T)^(1/6), 3.999999)`, `n = ⌈n_err·|sweep|/2π⌉`, `step = sweep/n`, arm
    `4/3·tan(step/4)`.  Hence `|step| ≤ 2π/n_err`, and with `x = |step|/4`, `m = n_err`: `x ≤ π/(2m)`, `m ≥ 3.999999`,
    `1.1163·R/T ≤ m⁶`.  The maximal relative radial deviation of a piece is `√(1 + (4/27)·sin⁶x/cos²x) − 1`
    (`circle_piece_radial_identity_tan`, maximum of `σ² − 4σ³` is `1/108`).

    What is proved
    1. `arc_error_constant_bound` (the analytic core; explains the two constants of the source):
       for every REAL `m ≥ 3.999999` and `0 ≤ x ≤ π/(2m)`:  `√(1 + (4/27)·sin⁶x/cos²x) − 1 ≤ 1.1163/m⁶`.
       `arc_error_sixth_power_bound`: the same as an upper bound `err(θ) ≤ 1.1163·(θ/2π)⁶` for the standard cubic of an arc
       of angle `0 ≤ θ ≤ 2π/3.999999` (radius 1).
       At the corner `m = 3.999999`, `x = π/(2m)` (a piece of a hair more than a quarter turn at `R/T = 3669.259`) the two
       sides are `2.7253042e-4` and `2.7253459e-4`: the claim is TRUE there with relative margin `1.53e-5`
       (`err(2π/m)·m⁶ = 1.1162829` against `1.1163`; it decreases to `1.11417` at `m = 5` and to `(2/27)(π/2)⁶ = 1.11272` as
       `m → ∞`; it would exceed `1.1163` for `m < 3.9953`).  The proof removes the square root exactly, uses
       `sin x ≤ x − x³/6 + x⁵/120`, `cos x ≥ 1 − x²/2 + x⁴/24 − x⁶/720` (proved in `Lemmas/C10ATaylor.lean`), `π < 3.141593`,
       and a degree-12 polynomial inequality on `[0, 0.154213]` with margin `1.93e-5` of `2.2326`.
    2. `arc_piece_within_tolerance`, `arc_within_tolerance`: for every arc with radii `(R, R)`, `R ≥ 0`, no rotation, ANY centre,
       start angle and sweep (also negative, also more than a full turn, also `0` – then there is no piece), and EVERY
       `T > 0`: the segments of the outline are `n = (appendParams T).1` cubics and every point `B(t)`, `t ∈ [0, 1]`, of every
       one of them satisfies `|R| ≤ |B(t) − centre| ≤ |R| + T` (within `T` of the circle, and never inside it).
    3. `roundedRect_corners_within_tolerance_all`, `cseg_arcs_within_tolerance_all`: the same for the four corner arcs of a
       rounded rectangle (any corner radius `≥ 0`, in particular after `RoundedRect::from_rect`, which makes them `≥ 0`) and
       for the outer and inner arc of a circle segment, without any lower bound on `radius/T`.

    What is NOT proved
    * "within `T` of the ARC" as opposed to "within `T` of the circle that carries the arc": that the polar angle of `B(t)`
      stays between the piece's end angles is not shown here (the end points and end tangents are exact: C10 items 6, 7).
    * genuinely elliptical arcs and ellipses (`rx ≠ ry`) – unchanged from C10.
    * `R < 0`: `Arc::append_iter` then takes a sixth root of a negative number (NaN in the crate, an arbitrary real in
      `Real.rpow`); rounded rectangles and circle segments built through their constructors have nonnegative radii
      (circle segments: whatever the caller passes).
    * anything about `Float`; `as usize` saturation is not modelled in `LawfulCount`. -/
set_option linter.unusedSectionVars false

namespace Kurbo

/-! ## 1. the analytic core -/

/-- for every real `m ≥ 3.999999` and `0 ≤ x ≤ π/(2m)`: `(4/27)·sin⁶x·m⁶ ≤ cos²x·(2·1.1163 + 1.1163²/m⁶)`
    (the square root of the error formula removed exactly: `1 + u ≤ (1 + k)²` with `k = 1.1163/m⁶`) -/
theorem arc_constant_bound (m x : ℝ) (hm : 3999999 / 1000000 ≤ m) (hx0 : 0 ≤ x) (hxm : x * m ≤ Real.pi / 2) :
    4 / 27 * Real.sin x ^ 6 * m ^ 6
      ≤ Real.cos x ^ 2 * (2 * (11163 / 10000) + (11163 / 10000) ^ 2 / m ^ 6) :=
  c10a_trig_core m x hm hx0 hxm

/-- the maximal relative radial deviation of the standard cubic of a circular arc of angle `4x` is at most `1.1163/m⁶`
    for every real `m ≥ 3.999999` with `x ≤ π/(2m)` -/
theorem arc_error_constant_bound (m x : ℝ) (hm : 3999999 / 1000000 ≤ m) (hx0 : 0 ≤ x) (hxm : x * m ≤ Real.pi / 2) :
    Real.sqrt (1 + 4 / 27 * Real.sin x ^ 6 / Real.cos x ^ 2) - 1 ≤ 11163 / 10000 / m ^ 6 :=
  c10a_radial_error_bound m x hm hx0 hxm

-- non-vacuity: `m = 4`, `x = 1/3 < π/8`
example : (3999999 / 1000000 : ℝ) ≤ 4 ∧ (0 : ℝ) ≤ 1 / 3 ∧ (1 / 3 : ℝ) * 4 ≤ Real.pi / 2 := by
  refine ⟨by norm_num, by norm_num, ?_⟩
  linarith [Real.pi_gt_three]

/-- … as a sixth-power bound in the angle: for `0 < θ ≤ 2π/3.999999` the standard cubic (arm `4/3·tan(θ/4)`) of an arc of
    angle `θ` and radius 1 deviates from the circle by at most `1.1163·(θ/2π)⁶` -/
theorem arc_error_sixth_power_bound (θ : ℝ) (h0 : 0 < θ) (h1 : 3999999 / 1000000 * θ ≤ 2 * Real.pi) :
    Real.sqrt (1 + 4 / 27 * Real.sin (θ / 4) ^ 6 / Real.cos (θ / 4) ^ 2) - 1
      ≤ 11163 / 10000 * (θ / (2 * Real.pi)) ^ 6 := by
  have hpi := Real.pi_pos
  have hm : 3999999 / 1000000 ≤ 2 * Real.pi / θ := by rw [le_div_iff₀ h0]; exact h1
  have hxm : θ / 4 * (2 * Real.pi / θ) ≤ Real.pi / 2 := le_of_eq (by field_simp; ring)
  have h := c10a_radial_error_bound (2 * Real.pi / θ) (θ / 4) hm (by positivity) hxm
  have e : 11163 / 10000 / (2 * Real.pi / θ) ^ 6 = 11163 / 10000 * (θ / (2 * Real.pi)) ^ 6 := by
    field_simp
  rw [e] at h
  exact h

-- non-vacuity: a quarter turn
example : (0 : ℝ) < Real.pi / 2 ∧ 3999999 / 1000000 * (Real.pi / 2) ≤ 2 * Real.pi := by
  constructor <;> nlinarith [Real.pi_pos]

section count
variable [Scalar ℝ] [LawfulScalar ℝ] [LawfulTrig] [LawfulCount]

/-! ## 2. circular arcs, every tolerance -/

/-- piece `k` of an arc with radii `(R, R)`, `R ≥ 0`, no rotation, for EVERY tolerance `T > 0` (it is the circular-arc cubic
    `circleArcCubic centre R arm θ_k θ_{k+1}`, see `circular_arc_pieces`): every point `B(t)`, `t ∈ [0, 1]`, is within `T` of
    the circle, and not inside it -/
theorem arc_piece_within_tolerance (a : Arc ℝ) (tol R : ℝ) (hr : a.radii = ⟨R, R⟩) (hR : 0 ≤ R) (htol : 0 < tol)
    (k : Nat) (t : ℝ) (h0 : 0 ≤ t) (h1 : t ≤ 1) :
    let q : CubicBez ℝ := circleArcCubic a.center R (a.appendParams tol).2.1
      (accAngle a.start_angle (a.appendParams tol).2.2 k) (accAngle a.start_angle (a.appendParams tol).2.2 (k + 1))
    abs R ≤ Real.sqrt (((q.eval t).x - a.center.x) ^ 2 + ((q.eval t).y - a.center.y) ^ 2) ∧
    Real.sqrt (((q.eval t).x - a.center.x) ^ 2 + ((q.eval t).y - a.center.y) ^ 2) ≤ abs R + tol := by
  intro q
  have hin := c10a_circular_arc_outside a tol R k t h0 h1
  have hout := c10a_circular_arc_within a tol R hr hR htol k h0 h1
  exact ⟨hin, by have := (abs_le.mp hout).2; linarith⟩

/-- THE TOLERANCE CLAIM FOR CIRCULAR ARCS, EVERY TOLERANCE: radii `(R, R)`, `R ≥ 0`, no rotation, any centre, start angle
    and sweep, `T > 0`: the outline's segments are `n = (appendParams T).1` cubics and every point `B(t)`, `t ∈ [0,1]`, of
    every one of them is within `T` of the ideal circle -/
theorem arc_within_tolerance (a : Arc ℝ) (tol R : ℝ) (hr : a.radii = ⟨R, R⟩) (hrot : a.x_rotation = 0)
    (hR : 0 ≤ R) (htol : 0 < tol) :
    ∃ ss, segs (a.path_elements tol) = some ss ∧ ss.length = (a.appendParams tol).1 ∧ ∀ s ∈ ss, ∃ q, s = PathSeg.Cubic q ∧
      ∀ t : ℝ, 0 ≤ t → t ≤ 1 →
        abs (Real.sqrt (((q.eval t).x - a.center.x) ^ 2 + ((q.eval t).y - a.center.y) ^ 2) - abs R) ≤ tol :=
  c10a_circular_arc_segs_within a tol R hr hrot hR htol

-- non-vacuity: a quarter turn of radius 1 at tolerance 1/10 (`R/T = 10`, far below the old threshold 13997.2), and the
-- corner case `R/T = 3669` (one piece per quarter turn, deviation `0.99991·T`)
example : (⟨⟨0, 0⟩, ⟨1, 1⟩, 0, 1, 0⟩ : Arc ℝ).radii = ⟨1, 1⟩ ∧ (⟨⟨0, 0⟩, ⟨1, 1⟩, 0, 1, 0⟩ : Arc ℝ).x_rotation = 0 ∧
    (0 : ℝ) ≤ 1 ∧ (0 : ℝ) < 1 / 10 := by
  refine ⟨rfl, rfl, ?_, ?_⟩ <;> norm_num
example : (⟨⟨2, 3⟩, ⟨3669, 3669⟩, 0, 1, 0⟩ : Arc ℝ).radii = ⟨3669, 3669⟩ ∧ (0 : ℝ) ≤ 3669 ∧ (0 : ℝ) < 1 := by
  refine ⟨rfl, ?_, ?_⟩ <;> norm_num

/-! ## 3. rounded rectangles and circle segments -/

/-- the corner arcs of a rounded rectangle (as outlined on their own from their start points, which by
    `roundedRect_joints` is where the pen is when they are drawn) stay within `T` of the corner circles, for every corner
    radius `ρ ≥ 0` and every `T > 0` -/
theorem roundedRect_corners_within_tolerance_all (s : RoundedRect ℝ) (tol : ℝ) (htol : 0 < tol) :
    ∀ a ∈ s.arcs, 0 ≤ a.radii.x →
      ∃ ss, segs (a.path_elements tol) = some ss ∧ ss.length = (a.appendParams tol).1 ∧ ∀ sg ∈ ss, ∃ q, sg = PathSeg.Cubic q ∧
        ∀ t : ℝ, 0 ≤ t → t ≤ 1 →
          abs (Real.sqrt (((q.eval t).x - a.center.x) ^ 2 + ((q.eval t).y - a.center.y) ^ 2) - abs a.radii.x) ≤ tol := by
  intro a ha
  rw [RoundedRect.arcs_eq] at ha
  simp only [List.mem_cons, List.not_mem_nil, or_false] at ha
  rcases ha with rfl | rfl | rfl | rfl <;>
    exact fun hR => c10a_circular_arc_segs_within _ tol _ rfl ofNat_zero_eq hR htol

/-- … all four at once for a rounded rectangle whose four radii are nonnegative (as `RoundedRect::from_rect` makes them) -/
theorem roundedRect_within_tolerance (s : RoundedRect ℝ) (tol : ℝ) (htol : 0 < tol)
    (h1 : 0 ≤ s.radii.top_left) (h2 : 0 ≤ s.radii.top_right) (h3 : 0 ≤ s.radii.bottom_right) (h4 : 0 ≤ s.radii.bottom_left) :
    ∀ a ∈ s.arcs,
      ∃ ss, segs (a.path_elements tol) = some ss ∧ ss.length = (a.appendParams tol).1 ∧ ∀ sg ∈ ss, ∃ q, sg = PathSeg.Cubic q ∧
        ∀ t : ℝ, 0 ≤ t → t ≤ 1 →
          abs (Real.sqrt (((q.eval t).x - a.center.x) ^ 2 + ((q.eval t).y - a.center.y) ^ 2) - abs a.radii.x) ≤ tol := by
  intro a ha
  refine roundedRect_corners_within_tolerance_all s tol htol a ha ?_
  rw [RoundedRect.arcs_eq] at ha
  simp only [List.mem_cons, List.not_mem_nil, or_false] at ha
  rcases ha with rfl | rfl | rfl | rfl
  · exact h1
  · exact h2
  · exact h3
  · exact h4

-- non-vacuity: corner radii 1, 2, 0, 1/2
example : (0 : ℝ) ≤ (⟨⟨0, 0, 10, 8⟩, ⟨1, 2, 0, 1 / 2⟩⟩ : RoundedRect ℝ).radii.top_left ∧
    (0 : ℝ) ≤ (⟨⟨0, 0, 10, 8⟩, ⟨1, 2, 0, 1 / 2⟩⟩ : RoundedRect ℝ).radii.top_right ∧
    (0 : ℝ) ≤ (⟨⟨0, 0, 10, 8⟩, ⟨1, 2, 0, 1 / 2⟩⟩ : RoundedRect ℝ).radii.bottom_right ∧
    (0 : ℝ) ≤ (⟨⟨0, 0, 10, 8⟩, ⟨1, 2, 0, 1 / 2⟩⟩ : RoundedRect ℝ).radii.bottom_left := by
  refine ⟨?_, ?_, ?_, ?_⟩ <;> norm_num

/-- the two arcs of a circle segment, every `T > 0`, any start angle and sweep -/
theorem cseg_arcs_within_tolerance_all (s : CircleSegment ℝ) (tol : ℝ) (htol : 0 < tol) :
    (0 ≤ s.outer_radius →
      ∃ ss, segs (s.outer_arc.path_elements tol) = some ss ∧ ss.length = (s.outer_arc.appendParams tol).1 ∧
        ∀ sg ∈ ss, ∃ q, sg = PathSeg.Cubic q ∧ ∀ t : ℝ, 0 ≤ t → t ≤ 1 →
          abs (Real.sqrt (((q.eval t).x - s.center.x) ^ 2 + ((q.eval t).y - s.center.y) ^ 2) - abs s.outer_radius) ≤ tol) ∧
    (0 ≤ s.inner_radius →
      ∃ ss, segs (s.inner_arc.path_elements tol) = some ss ∧ ss.length = (s.inner_arc.appendParams tol).1 ∧
        ∀ sg ∈ ss, ∃ q, sg = PathSeg.Cubic q ∧ ∀ t : ℝ, 0 ≤ t → t ≤ 1 →
          abs (Real.sqrt (((q.eval t).x - s.center.x) ^ 2 + ((q.eval t).y - s.center.y) ^ 2) - abs s.inner_radius) ≤ tol) :=
  ⟨fun hR => c10a_circular_arc_segs_within s.outer_arc tol _ rfl ofNat_zero_eq hR htol,
   fun hR => c10a_circular_arc_segs_within s.inner_arc tol _ rfl ofNat_zero_eq hR htol⟩

-- non-vacuity: outer radius 5, inner radius 2
example : (0 : ℝ) ≤ (⟨⟨0, 0⟩, 5, 2, 0, 1⟩ : CircleSegment ℝ).outer_radius ∧
    (0 : ℝ) ≤ (⟨⟨0, 0⟩, 5, 2, 0, 1⟩ : CircleSegment ℝ).inner_radius := by
  constructor <;> norm_num

end count
end Kurbo
