import Proofs.Lemmas.C16BCanon
import Proofs.Lemmas.C16BMeaning
import Proofs.Lemmas.C16BExamples
/-! # C16B – `parse_render`: the SVG path parser reads back every spelled / rendered command list

Continuation of `Proofs/C16.lean` (same model `Kurbo/Svg.lean`, arbitrary `[Scalar K]`, no arithmetic law used, hence verbatim for
the `Float` instantiation).  Definitions and helper lemmas: `Proofs/Lemmas/C16B.lean` (commands, meaning, spelling, one command),
`C16BLoop` (one loop iteration, the induction), `C16BCanon` (canonical rendering), `C16BMeaning` (element count, absolute / normal
forms), `C16BWriter` (the format of `write_to`), `C16BDecide` (the hypotheses are decidable), `C16BExamples` (example data).

## Vocabulary
* `C16Cmd α` – abstract path command over a type of "numbers" `α`: `moveTo lineTo horiz vert quadTo smoothQuadTo curveTo
  smoothCurveTo close`, each with a flag `rel` (lower-case letter).  `C16Cmd K` = arguments as scalars, `C16Cmd NumChunk` =
  arguments as they are spelled (a `NumChunk` is `ws* number ws* ','?`, C16).  **Arcs are left out.**
* `c16b_interp st c` – meaning of one command = exactly the state update of the `step_*` lemma of C16 (path element appended after
  flushing a pending implicit `MoveTo`, `last_pt`, `first_pt`, `last_ctrl` / reflection rule `smoothQuadCtrl`, `smoothCubicCtrl`,
  `last_cmd`); `c16b_run st cs` = left fold.
* `C16Spelled` – `ws*`, the letter *or nothing* (`explicit = false`: implicit repetition), the spelled arguments; `s.value : C16Cmd K`
  replaces every chunk by `tokValue (parseTok number)`.  `c16b_spell ss tail` = the bytes of all of them, then `tail`.
* `c16b_SpelledOk lc ss tail` – every chunk is well formed *in front of the bytes that follow it* (`NumChunk.Ok`: valid number
  token, cannot be continued by the next byte, the separator is all `optComma` eats), white space is white space, and a letter is
  only omitted where the parser remembers exactly that letter (`lc` = `last_cmd` before the list, threaded by `c16b_nextCmd`:
  `M`/`m` leave `L`/`l`, **`Z`/`z` leave `last_cmd` untouched**) and the command is neither `M` nor `Z`.
* `c16b_render spell cs` – ONE canonical rendering: letter, then every number spelled by `spell : K → NumParts` followed by one
  space (`M1 2 L3 4 C1 2 3 4 5 6 Z`).

## Proved
1. `parse_spelled_cmd`, `parse_spelled_step`: one spelled command (any of the nine, absolute or relative, letter explicit or
   implied) = one loop iteration = `c16b_interp`.  State invariant used: `st.path ≠ []` unless the command is `M` (re-established by
   every command: `c16b_interp_path_ne`); the C16 invariant `SvgSt.Inv` (`last_cmd` is not `z`) is needed only by the implicit
   step and follows there from "`last_cmd` = the letter of a command that is not `Z`"; it is preserved anyway (`parse_run_inv`).
2. **`parse_spelled`** (the general `parse_render`: every mix of absolute/relative, `H V S T`, implicit repetition, every legal
   choice of white space / comma / no separator, every valid spelling of every number): for a well-formed spelled list that is
   empty or starts with `M`/`m`, `fromSvgBytes` returns `Ok` with the path of the folded meaning – no panic, no error.
   `parse_spelled_loop` / `parse_spelled_run`: the same from any state (induction over the list; fuel: any fuel larger than the
   number of commands suffices, and `data.size + 1` is larger because every command occupies at least one byte –
   `svgLoop_fuel_irrelevant` is not needed).
3. **`parse_render`**: the canonical rendering of any command list that starts with a `moveTo` parses to its meaning, provided
   `spell x` is a valid token with value `x` for the numbers `x` that occur.
4. Corollaries: `parse_spelled_same_value` (two spellings of the same abstract list parse to the same result);
   `parse_render_elements_count` (number of elements = one per command + one per non-move command directly after a `Z`; equal to the
   number of commands if every `Z` is followed by `M` or the end; always between `n` and `2n`);
   `parse_render_relative_absolute` (a list and its absolute form `c16b_absolutize` parse to the same path);
   `parse_render_normal_form` (… and so does the normal form `c16b_normalize`, which uses absolute `M L Q C Z` only);
   `parse_render_same_normal_form` (lists with equal normal forms parse to the same path).
5. **The output format of `BezPath::write_to`** (`c16b_write spell els`: `M{},{}`, `L{},{}`, `Q{},{} {},{}`, `C{},{} {},{} {},{}`, `Z`,
   one space between elements – transcribed from svg.rs into `Proofs/Lemmas/C16BWriter.lean`, number printer = parameter `spell`):
   `parse_write_format` (it parses to the meaning of its `M L Q C Z` commands), `parse_write_format_roundtrip` (read back
   *identically* if the list starts with `MoveTo` and every `ClosePath` is followed by `MoveTo` or the end),
   `parse_write_format_count` (otherwise one extra `MoveTo` per `ClosePath` followed by a drawing element).
6. Non-vacuity: concrete lists over `Rat`; every hypothesis is decidable (`Proofs/Lemmas/C16BDecide.lean`) and checked by
   `decide`, the conclusions are cross-checked by direct kernel evaluation of the model.

## NOT proved
* Arcs (`A`/`a`) are not part of `C16Cmd` (C16 has `cmd_arc` for one arc command).
* Nothing about a number *printer*: `spell` is a parameter with the hypothesis "valid token whose `tokValue ∘ parseTok` is `x`" for
  the numbers that occur (it cannot hold for NaN / infinities; for `Float` it is Rust's `Display`/`FromStr` round trip, validated
  only by the correspondence runs).  `c16b_write` is a definition in the proof tree; the MODEL of `write_to` is `svgWrite`
  (`Kurbo/SvgWrite.lean`, tied to the crate by the stratum `writer`), and `Proofs/C16W.lean` proves `c16b_write = svgWrite` and
  restates the theorems of section 5 for the model writer.
* "Same segments" for paths in which a `ClosePath` is followed by a drawing element is only stated as an element count, not as
  equality of `segments()`.
* The converse (every byte string the parser accepts is `c16b_spell` of some well-formed list) is not proved.
-/
set_option linter.unusedSectionVars false
namespace Kurbo
variable {K : Type} [Scalar K]

/-! ## 1. One spelled command -/

/-- `svgCommand` on the spelled arguments of any of the nine commands (letter already read or implied) is `c16b_interp` -/
theorem parse_spelled_cmd (st : SvgSt K) (l : Lx) (c : C16Cmd NumChunk) (r : List UInt8) (hrem : l.rem = c.argBytes ++ r)
    (hok : c.ArgsOk r) (hp : st.path ≠ [] ∨ c.isMove = true) :
    svgCommand c.letter st l = .ok (c16b_interp st (c.map NumChunk.value)) (l.adv c.argBytes.length) :=
  c16b_cmd st l c r hrem hok hp

/-- one loop iteration = one spelled command (letter spelled out, or omitted where it repeats `last_cmd`) -/
theorem parse_spelled_step (fuel : Nat) (st : SvgSt K) (l : Lx) (s : C16Spelled) (r : List UInt8)
    (hrem : l.rem = s.bytes ++ r) (hok : s.Ok st.last_cmd r) (hp : st.path ≠ [] ∨ s.cmd.isMove = true) :
    svgLoop (fuel + 1) st l = svgLoop fuel (c16b_interp st s.value) (l.adv s.bytes.length) :=
  c16b_step fuel st l s r hrem hok hp

/-- what the step re-establishes: the path is non-empty, `last_cmd` is `c16b_nextCmd` (untouched by `close`), `SvgSt.Inv` is kept -/
theorem parse_step_invariants (st : SvgSt K) (c : C16Cmd K) :
    (c16b_interp st c).path ≠ [] ∧ (c16b_interp st c).last_cmd = c16b_nextCmd st.last_cmd c ∧
    (st.Inv → (c16b_interp st c).Inv) := by
  refine ⟨c16b_interp_path_ne st c, c16b_interp_last_cmd st c, ?_⟩
  intro hinv
  unfold SvgSt.Inv at *
  rw [c16b_interp_last_cmd]
  cases c with
  | close rel => exact hinv
  | moveTo rel p => cases rel <;> simp only [c16b_nextCmd, if_true, Bool.false_eq_true, if_false] <;> decide
  | lineTo rel p => cases rel <;> simp only [c16b_nextCmd, C16Cmd.letter, if_true, Bool.false_eq_true, if_false] <;> decide
  | horiz rel x => cases rel <;> simp only [c16b_nextCmd, C16Cmd.letter, if_true, Bool.false_eq_true, if_false] <;> decide
  | vert rel x => cases rel <;> simp only [c16b_nextCmd, C16Cmd.letter, if_true, Bool.false_eq_true, if_false] <;> decide
  | quadTo rel p1 p2 => cases rel <;> simp only [c16b_nextCmd, C16Cmd.letter, if_true, Bool.false_eq_true, if_false] <;> decide
  | smoothQuadTo rel p => cases rel <;> simp only [c16b_nextCmd, C16Cmd.letter, if_true, Bool.false_eq_true, if_false] <;> decide
  | curveTo rel p1 p2 p3 => cases rel <;> simp only [c16b_nextCmd, C16Cmd.letter, if_true, Bool.false_eq_true, if_false] <;> decide
  | smoothCurveTo rel p2 p3 => cases rel <;> simp only [c16b_nextCmd, C16Cmd.letter, if_true, Bool.false_eq_true, if_false] <;> decide

theorem parse_run_inv (st : SvgSt K) (cs : List (C16Cmd K)) (hinv : st.Inv) : (c16b_run st cs).Inv := by
  induction cs generalizing st with
  | nil => exact hinv
  | cons c cs ih => exact ih _ ((parse_step_invariants st c).2.2 hinv)

/-! ## 2. The induction over the command list -/

/-- from any state (non-empty path, or the list starts with `M`) and any fuel larger than the number of commands -/
theorem parse_spelled_loop (ss : List C16Spelled) (tail : List UInt8) (fuel : Nat) (st : SvgSt K) (l : Lx)
    (hf : ss.length < fuel) (hrem : l.rem = c16b_spell ss tail) (hok : c16b_SpelledOk st.last_cmd ss tail)
    (hp : st.path ≠ [] ∨ c16b_startsWithMove (ss.map (·.cmd))) :
    svgLoop fuel st l = .ok (c16b_run st (ss.map C16Spelled.value)).path :=
  c16b_loop ss tail fuel st l hf hrem hok hp

/-- fuel-free form (`svgRun` = the loop with the fuel `fromSvgBytes` provides for the bytes left) -/
theorem parse_spelled_run (ss : List C16Spelled) (tail : List UInt8) (st : SvgSt K) (l : Lx)
    (hrem : l.rem = c16b_spell ss tail) (hok : c16b_SpelledOk st.last_cmd ss tail)
    (hp : st.path ≠ [] ∨ c16b_startsWithMove (ss.map (·.cmd))) :
    svgRun st l = .ok (c16b_run st (ss.map C16Spelled.value)).path := by
  unfold svgRun
  apply c16b_loop ss tail _ st l _ hrem hok hp
  have h1 := c16b_spell_length ss tail _ hok
  have h2 : l.rem.length = l.data.size - l.ix := by simp [Lx.rem]
  rw [← hrem] at h1; omega

/-- **`parse_render`, general form**: the bytes of a well-formed spelled command list that is empty or starts with `M`/`m` parse –
    without panic or error – to the path of the meaning of the list -/
theorem parse_spelled (data : ByteArray) (ss : List C16Spelled) (tail : List UInt8)
    (hdata : data.data.toList = c16b_spell ss tail) (hok : c16b_SpelledOk 0 ss tail)
    (hm : c16b_startsWithMove (ss.map (·.cmd))) :
    fromSvgBytes (K := K) data = .ok (c16b_run svgInit (ss.map C16Spelled.value)).path :=
  c16b_fromSvgBytes data ss tail hdata hok hm

/-- two spellings of the same abstract command list (other letters omitted, other separators, other spellings of the numbers)
    parse to the same result -/
theorem parse_spelled_same_value (data data' : ByteArray) (ss ss' : List C16Spelled) (tail tail' : List UInt8)
    (hdata : data.data.toList = c16b_spell ss tail) (hdata' : data'.data.toList = c16b_spell ss' tail')
    (hok : c16b_SpelledOk 0 ss tail) (hok' : c16b_SpelledOk 0 ss' tail')
    (hm : c16b_startsWithMove (ss.map (·.cmd)))
    (hv : ss.map (C16Spelled.value (K := K)) = ss'.map (C16Spelled.value (K := K))) :
    fromSvgBytes (K := K) data = fromSvgBytes (K := K) data' := by
  have hm' : c16b_startsWithMove (ss'.map (·.cmd)) := by
    have h1 : c16b_startsWithMove (ss.map (C16Spelled.value (K := K))) := by
      cases ss with
      | nil => trivial
      | cons s ss => simpa [c16b_startsWithMove, C16Spelled.value] using hm
    rw [hv] at h1
    cases ss' with
    | nil => trivial
    | cons s ss' => simpa [c16b_startsWithMove, C16Spelled.value] using h1
  rw [parse_spelled data ss tail hdata hok hm, parse_spelled data' ss' tail' hdata' hok' hm', hv]

/-! ## 3. The canonical rendering -/

/-- **`parse_render`**: for every command list that starts with a `moveTo` (or is empty), the canonical rendering
    `letter number␣number␣… letter …` – every number `x` spelled by any valid token `spell x` whose value is `x` – parses to the
    path of the meaning of the list -/
theorem parse_render (spell : K → NumParts) (cs : List (C16Cmd K)) (hm : c16b_startsWithMove cs)
    (hspell : ∀ c ∈ cs, ∀ x ∈ c.scalars, (spell x).Valid ∧ tokValue (parseTok (spell x).bytes) = x) :
    fromSvgBytes (K := K) ⟨(c16b_render spell cs).toArray⟩ = .ok (c16b_run svgInit cs).path := by
  have h := parse_spelled (K := K) ⟨(c16b_render spell cs).toArray⟩ (cs.map (c16b_canon spell)) [] rfl
    (c16b_canon_ok spell cs 0 (fun c hc x hx => (hspell c hc x hx).1)) (c16b_canon_startsWithMove spell cs hm)
  rw [h, c16b_canon_values spell cs (fun c hc x hx => (hspell c hc x hx).2)]

/-- the number of path elements: one per command, plus one implicit `MoveTo` for every non-move command directly after a `Z`;
    so between `n` and `2n`, and exactly `n` if every `Z` is followed by an `M` or the end -/
theorem parse_render_elements_count (spell : K → NumParts) (cs : List (C16Cmd K)) (hm : c16b_startsWithMove cs)
    (hspell : ∀ c ∈ cs, ∀ x ∈ c.scalars, (spell x).Valid ∧ tokValue (parseTok (spell x).bytes) = x) :
    ∃ els, fromSvgBytes (K := K) ⟨(c16b_render spell cs).toArray⟩ = .ok els ∧
      els.length = c16b_elemCount false cs ∧ cs.length ≤ els.length ∧ els.length ≤ 2 * cs.length ∧
      (c16b_closeThenMove cs → els.length = cs.length) := by
  refine ⟨_, parse_render spell cs hm hspell, ?_⟩
  have hlen : (c16b_run (svgInit (K := K)) cs).path.length = c16b_elemCount false cs := by
    rw [c16b_run_length]; simp [svgInit]
  have hb := c16b_elemCount_bounds false cs
  refine ⟨hlen, by omega, by omega, fun h => ?_⟩
  rw [hlen, c16b_elemCount_of_closeThenMove false cs h (by intro h; cases h)]

/-- the same count for any spelling -/
theorem parse_spelled_elements_count (data : ByteArray) (ss : List C16Spelled) (tail : List UInt8)
    (hdata : data.data.toList = c16b_spell ss tail) (hok : c16b_SpelledOk 0 ss tail)
    (hm : c16b_startsWithMove (ss.map (·.cmd))) :
    ∃ els, fromSvgBytes (K := K) data = .ok els ∧ els.length = c16b_elemCount false (ss.map (·.cmd)) := by
  refine ⟨_, parse_spelled data ss tail hdata hok hm, ?_⟩
  rw [c16b_run_length]
  have : ∀ (b : Bool) (ss : List C16Spelled),
      c16b_elemCount b (ss.map (C16Spelled.value (K := K))) = c16b_elemCount b (ss.map (·.cmd)) := by
    intro b ss
    induction ss generalizing b with
    | nil => rfl
    | cons s ss ih => simp [c16b_elemCount, C16Spelled.value, ih]
  rw [this]; simp [svgInit]

/-! ## 4. Relative / absolute, normal forms -/

/-- the meaning of a list and of its absolute form (every command replaced by the upper-case command with the absolute
    coordinates the parser computes) have the same path; more precisely the final states agree on everything but `last_cmd` -/
theorem run_absolutize (st : SvgSt K) (cs : List (C16Cmd K)) :
    (c16b_run st (c16b_absolutize st cs)).path = (c16b_run st cs).path ∧
    (c16b_run st (c16b_absolutize st cs)).last_pt = (c16b_run st cs).last_pt ∧
    (c16b_run st (c16b_absolutize st cs)).first_pt = (c16b_run st cs).first_pt ∧
    (c16b_run st (c16b_absolutize st cs)).last_ctrl = (c16b_run st cs).last_ctrl := by
  have h := c16b_run_absolutize (c16b_StEq.refl st) cs
  exact ⟨h.path.symm, h.last_pt.symm, h.first_pt.symm, h.last_ctrl.symm⟩

/-- … and of its normal form (absolute `M L Q C Z` only: `H`/`V` ↦ `L`, `T` ↦ `Q`, `S` ↦ `C` with the reflected control point) -/
theorem run_normalize (st : SvgSt K) (cs : List (C16Cmd K)) :
    (c16b_run st (c16b_normalize st cs)).path = (c16b_run st cs).path ∧
    (∀ c ∈ c16b_normalize st cs, c.isNormal = true) :=
  ⟨(c16b_run_normalize (c16b_StEq.refl st) cs).path.symm, c16b_normalize_isNormal st cs⟩

/-- **relative vs absolute**: a command list and its absolute form – each rendered canonically, possibly with different number
    spellings – parse to the same path -/
theorem parse_render_relative_absolute (spell spell' : K → NumParts) (cs : List (C16Cmd K)) (hm : c16b_startsWithMove cs)
    (hspell : ∀ c ∈ cs, ∀ x ∈ c.scalars, (spell x).Valid ∧ tokValue (parseTok (spell x).bytes) = x)
    (hspell' : ∀ c ∈ c16b_absolutize svgInit cs, ∀ x ∈ c.scalars,
      (spell' x).Valid ∧ tokValue (parseTok (spell' x).bytes) = x) :
    fromSvgBytes (K := K) ⟨(c16b_render spell' (c16b_absolutize svgInit cs)).toArray⟩ =
      fromSvgBytes (K := K) ⟨(c16b_render spell cs).toArray⟩ := by
  rw [parse_render spell cs hm hspell,
    parse_render spell' _ (c16b_absolutize_startsWithMove _ cs hm) hspell', (run_absolutize svgInit cs).1]

/-- the same for the normal form -/
theorem parse_render_normal_form (spell spell' : K → NumParts) (cs : List (C16Cmd K)) (hm : c16b_startsWithMove cs)
    (hspell : ∀ c ∈ cs, ∀ x ∈ c.scalars, (spell x).Valid ∧ tokValue (parseTok (spell x).bytes) = x)
    (hspell' : ∀ c ∈ c16b_normalize svgInit cs, ∀ x ∈ c.scalars,
      (spell' x).Valid ∧ tokValue (parseTok (spell' x).bytes) = x) :
    fromSvgBytes (K := K) ⟨(c16b_render spell' (c16b_normalize svgInit cs)).toArray⟩ =
      fromSvgBytes (K := K) ⟨(c16b_render spell cs).toArray⟩ := by
  rw [parse_render spell cs hm hspell,
    parse_render spell' _ (c16b_normalize_startsWithMove _ cs hm) hspell', (run_normalize svgInit cs).1]

/-- two command lists with the same meaning – equal normal forms (or, a fortiori, equal absolute forms) – parse to the same path -/
theorem parse_render_same_normal_form (spell spell' : K → NumParts) (cs cs' : List (C16Cmd K))
    (hm : c16b_startsWithMove cs) (hm' : c16b_startsWithMove cs')
    (hspell : ∀ c ∈ cs, ∀ x ∈ c.scalars, (spell x).Valid ∧ tokValue (parseTok (spell x).bytes) = x)
    (hspell' : ∀ c ∈ cs', ∀ x ∈ c.scalars, (spell' x).Valid ∧ tokValue (parseTok (spell' x).bytes) = x)
    (hn : c16b_normalize svgInit cs = c16b_normalize svgInit cs') :
    fromSvgBytes (K := K) ⟨(c16b_render spell cs).toArray⟩ = fromSvgBytes (K := K) ⟨(c16b_render spell' cs').toArray⟩ := by
  rw [parse_render spell cs hm hspell, parse_render spell' cs' hm' hspell', ← (run_normalize svgInit cs).1,
    ← (run_normalize svgInit cs').1, hn]

/-! ## 5. The output format of `BezPath::write_to`

`c16b_write spell els` is the *format* of svg.rs `write_to` (`M{},{}` / `L{},{}` / `Q{},{} {},{}` / `C{},{} {},{} {},{}` / `Z`, one
space between elements) with the number printer `spell` as a parameter.  It is defined in `Proofs/Lemmas/C16BWriter.lean` by
reading the Rust source; `Proofs/C16W.lean` shows that it is the model writer `svgWrite` of `Kurbo/SvgWrite.lean`.  Nothing here is
about Rust's `Display for f64`. -/

/-- the parser reads a written element list back as the meaning of the commands `M L Q C Z` it consists of -/
theorem parse_write_format (spell : K → NumParts) (els : List (PathEl K)) (hm : c16b_startsWithMove (els.map c16b_ofEl))
    (hspell : ∀ e ∈ els, ∀ x ∈ (c16b_ofEl e).scalars, (spell x).Valid ∧ tokValue (parseTok (spell x).bytes) = x) :
    fromSvgBytes (K := K) ⟨(c16b_write spell els).toArray⟩ = .ok (c16b_run svgInit (els.map c16b_ofEl)).path := by
  have hb : c16b_write spell els = c16b_spell (c16b_wSpelled spell false els) [] := by
    rw [c16b_wSpelled_bytes]; simp
  have h := parse_spelled (K := K) ⟨(c16b_write spell els).toArray⟩ (c16b_wSpelled spell false els) [] hb
    (c16b_wSpelled_ok spell els 0 false (fun e he x hx => (hspell e he x hx).1))
    (c16b_wSpelled_startsWithMove spell els false hm)
  rw [h, c16b_wSpelled_values spell els false (fun e he x hx => (hspell e he x hx).2)]

/-- **round trip on the format of `write_to`**: an element list that starts with a `MoveTo` (or is empty) and in which every
    `ClosePath` is followed by a `MoveTo` or the end is read back *identically* – under the stated assumption on the number
    printer (`spell x` is a valid token whose parsed value is `x`, for the coordinates that occur) -/
theorem parse_write_format_roundtrip (spell : K → NumParts) (els : List (PathEl K))
    (hm : c16b_startsWithMove (els.map c16b_ofEl)) (hcm : c16b_closeThenMove (els.map c16b_ofEl))
    (hspell : ∀ e ∈ els, ∀ x ∈ (c16b_ofEl e).scalars, (spell x).Valid ∧ tokValue (parseTok (spell x).bytes) = x) :
    fromSvgBytes (K := K) ⟨(c16b_write spell els).toArray⟩ = .ok els := by
  rw [parse_write_format spell els hm hspell, c16b_run_ofEls svgInit els hcm (by intro h; simp [svgInit] at h)]
  simp [svgInit]

/-- without the condition on `ClosePath` the result has one more `MoveTo` per `ClosePath` that is followed by a drawing element
    (same segments, other elements) -/
theorem parse_write_format_count (spell : K → NumParts) (els : List (PathEl K)) (hm : c16b_startsWithMove (els.map c16b_ofEl))
    (hspell : ∀ e ∈ els, ∀ x ∈ (c16b_ofEl e).scalars, (spell x).Valid ∧ tokValue (parseTok (spell x).bytes) = x) :
    ∃ els', fromSvgBytes (K := K) ⟨(c16b_write spell els).toArray⟩ = .ok els' ∧
      els'.length = c16b_elemCount false (els.map c16b_ofEl) := by
  refine ⟨_, parse_write_format spell els hm hspell, ?_⟩
  rw [c16b_run_length]; simp [svgInit]

/-- hypotheses and conclusion on a concrete element list -/
example : c16b_startsWithMove (c16b_exEls.map c16b_ofEl) ∧ c16b_closeThenMove (c16b_exEls.map c16b_ofEl) ∧
    (∀ e ∈ c16b_exEls, ∀ x ∈ (c16b_ofEl e).scalars,
      (c16b_exSpell x).Valid ∧ tokValue (parseTok (c16b_exSpell x).bytes) = x) ∧
    (⟨(c16b_write c16b_exSpell c16b_exEls).toArray⟩ : ByteArray) = "M1,2 L3,4 Q5,6 7,8 C1,2 3,4 -5,6 Z M1,1 L2,2 Z".toUTF8 ∧
    fromSvg (K := Rat) "M1,2 L3,4 Q5,6 7,8 C1,2 3,4 -5,6 Z M1,1 L2,2 Z" = .ok c16b_exEls :=
  ⟨by decide, by decide, by decide +kernel, by decide +kernel, by decide +kernel⟩

/-- `ClosePath` followed by a `LineTo`: read back with an extra `MoveTo` -/
example : fromSvg (K := Rat) "M1,2 L3,4 Z L5,6" =
    .ok [.MoveTo ⟨1, 2⟩, .LineTo ⟨3, 4⟩, .ClosePath, .MoveTo ⟨1, 2⟩, .LineTo ⟨5, 6⟩] := by decide +kernel

/-! ## 6. Non-vacuity: concrete instances over `Rat` (all hypotheses decided; `Proofs/Lemmas/C16BDecide.lean` makes
`c16b_SpelledOk` decidable, `Proofs/Lemmas/C16BExamples.lean` holds the data) -/

/-- the hypotheses of `parse_render` (and of its corollaries) hold for the command list
    `M1 2 L3 4 c1 0 2 -1 3 0 S8 1 9 0 h-2 Zt1 1 Q1 2 3 4 T5 4 V7 z` with the one-digit spelling `c16b_exSpell`;
    its canonical rendering is that string -/
example : c16b_startsWithMove c16b_exCmds ∧
    (∀ c ∈ c16b_exCmds, ∀ x ∈ c.scalars, (c16b_exSpell x).Valid ∧ tokValue (parseTok (c16b_exSpell x).bytes) = x) ∧
    (⟨(c16b_render c16b_exSpell c16b_exCmds).toArray⟩ : ByteArray) =
      "M1 2 L3 4 c1 0 2 -1 3 0 S8 1 9 0 h-2 Zt1 1 Q1 2 3 4 T5 4 V7 z".toUTF8 :=
  ⟨by decide, by decide +kernel, by decide +kernel⟩

/-- … so `parse_render` gives the result of the parser on that string: relative `c`, reflection for `S` after `c` and for `T` after
    `Q`, no reflection for `t` after `Z` (control point = current point) but a flushed implicit `MoveTo` -/
example : fromSvg (K := Rat) "M1 2 L3 4 c1 0 2 -1 3 0 S8 1 9 0 h-2 Zt1 1 Q1 2 3 4 T5 4 V7 z" =
    .ok [.MoveTo ⟨1, 2⟩, .LineTo ⟨3, 4⟩, .CurveTo ⟨4, 4⟩ ⟨5, 3⟩ ⟨6, 4⟩, .CurveTo ⟨7, 5⟩ ⟨8, 1⟩ ⟨9, 0⟩, .LineTo ⟨7, 0⟩, .ClosePath,
         .MoveTo ⟨1, 2⟩, .QuadTo ⟨1, 2⟩ ⟨2, 3⟩, .QuadTo ⟨1, 2⟩ ⟨3, 4⟩, .QuadTo ⟨5, 6⟩ ⟨5, 4⟩, .LineTo ⟨5, 7⟩, .ClosePath] := by
  have h := parse_render c16b_exSpell c16b_exCmds (by decide) (by decide +kernel)
  have hb : (⟨(c16b_render c16b_exSpell c16b_exCmds).toArray⟩ : ByteArray) =
      "M1 2 L3 4 c1 0 2 -1 3 0 S8 1 9 0 h-2 Zt1 1 Q1 2 3 4 T5 4 V7 z".toUTF8 := by decide +kernel
  rw [hb] at h
  rw [fromSvg, h]
  decide +kernel

/-- the same by direct kernel evaluation of the model (independent of the theorem) -/
example : fromSvg (K := Rat) "M1 2 L3 4 c1 0 2 -1 3 0 S8 1 9 0 h-2 Zt1 1 Q1 2 3 4 T5 4 V7 z" =
    .ok (c16b_run svgInit c16b_exCmds).path := by decide +kernel

/-- the element count: 11 commands, one `Z` followed by a non-move command ⇒ 12 elements -/
example : c16b_elemCount false c16b_exCmds = 12 ∧ c16b_exCmds.length = 11 := by decide

/-- absolute form and normal form of the example list; `c16b_exSpell` spells all their numbers too, so the hypotheses of
    `parse_render_relative_absolute` / `parse_render_normal_form` are met -/
example :
    c16b_absolutize svgInit c16b_exCmds =
      [.moveTo false ⟨1, 2⟩, .lineTo false ⟨3, 4⟩, .curveTo false ⟨4, 4⟩ ⟨5, 3⟩ ⟨6, 4⟩, .smoothCurveTo false ⟨8, 1⟩ ⟨9, 0⟩,
       .horiz false 7, .close false, .smoothQuadTo false ⟨2, 3⟩, .quadTo false ⟨1, 2⟩ ⟨3, 4⟩, .smoothQuadTo false ⟨5, 4⟩,
       .vert false 7, .close false] ∧
    c16b_normalize svgInit c16b_exCmds =
      [.moveTo false ⟨1, 2⟩, .lineTo false ⟨3, 4⟩, .curveTo false ⟨4, 4⟩ ⟨5, 3⟩ ⟨6, 4⟩, .curveTo false ⟨7, 5⟩ ⟨8, 1⟩ ⟨9, 0⟩,
       .lineTo false ⟨7, 0⟩, .close false, .quadTo false ⟨1, 2⟩ ⟨2, 3⟩, .quadTo false ⟨1, 2⟩ ⟨3, 4⟩, .quadTo false ⟨5, 6⟩ ⟨5, 4⟩,
       .lineTo false ⟨5, 7⟩, .close false] ∧
    (∀ c ∈ c16b_absolutize svgInit c16b_exCmds, ∀ x ∈ c.scalars,
      (c16b_exSpell x).Valid ∧ tokValue (parseTok (c16b_exSpell x).bytes) = x) ∧
    (∀ c ∈ c16b_normalize svgInit c16b_exCmds, ∀ x ∈ c.scalars,
      (c16b_exSpell x).Valid ∧ tokValue (parseTok (c16b_exSpell x).bytes) = x) :=
  ⟨by decide +kernel, by decide +kernel, by decide +kernel, by decide +kernel⟩

/-- the hypotheses of `parse_spelled` hold for the spelled list `c16b_exSpelled` with tail `"\n"`, i.e. the string
    `" M1,2 3 4l-1-.5Z\n"`: leading white space, a comma, an implicit `L` after `M`, packed signs, a leading period, trailing
    white space -/
example : (⟨(c16b_spell c16b_exSpelled [10]).toArray⟩ : ByteArray) = " M1,2 3 4l-1-.5Z\n".toUTF8 ∧
    c16b_SpelledOk 0 c16b_exSpelled [10] ∧ c16b_startsWithMove (c16b_exSpelled.map (·.cmd)) ∧
    c16b_exSpelled.map (C16Spelled.value (K := Rat)) =
      [.moveTo false ⟨1, 2⟩, .lineTo false ⟨3, 4⟩, .lineTo true ⟨-1, -1/2⟩, .close false] :=
  ⟨by decide +kernel, by decide +kernel, by decide, by decide +kernel⟩

example : fromSvg (K := Rat) " M1,2 3 4l-1-.5Z\n" = .ok [.MoveTo ⟨1, 2⟩, .LineTo ⟨3, 4⟩, .LineTo ⟨2, 7/2⟩, .ClosePath] := by
  have h := parse_spelled (K := Rat) " M1,2 3 4l-1-.5Z\n".toUTF8 c16b_exSpelled [10] (by decide +kernel) (by decide +kernel)
    (by decide)
  rw [fromSvg, h]
  decide +kernel

/-- the spelling `"M1 2L3 4L2 3.5Z"` of the absolute form of the same list gives the same path (`parse_spelled_same_value` needs
    equal *values*; here the values differ – `l-1-.5` vs `L2 3.5` – and `run_absolutize` bridges them) -/
example : fromSvg (K := Rat) "M1 2L3 4L2 3.5Z" = fromSvg (K := Rat) " M1,2 3 4l-1-.5Z\n" := by decide +kernel

/-- the invariant discussion of C16 in one example: after `Z` the remembered command is still `L`, so a number after `Z` is an
    implicit `L` (spelled with `explicit := false` after a `close`) -/
example :
    let ss : List C16Spelled :=
      [{ cmd := .moveTo false ⟨{ p := { ip := [49] }, sep := [32] }, { p := { ip := [50] } }⟩ },
       { cmd := .close false },
       { explicit := false, cmd := .lineTo false ⟨{ p := { ip := [51] }, sep := [32] }, { p := { ip := [52] } }⟩ }]
    c16b_SpelledOk 0 ss [] ∧ (⟨(c16b_spell ss []).toArray⟩ : ByteArray) = "M1 2Z3 4".toUTF8 ∧
    fromSvg (K := Rat) "M1 2Z3 4" = .ok [.MoveTo ⟨1, 2⟩, .ClosePath, .MoveTo ⟨1, 2⟩, .LineTo ⟨3, 4⟩] :=
  ⟨by decide +kernel, by decide +kernel, by decide +kernel⟩

/-- a spelling that is NOT well formed (and indeed parses differently): no separator between `1` and `2` – `"M12 3"` -/
example :
    ¬ c16b_SpelledOk 0
      [{ cmd := .moveTo false ⟨{ p := { ip := [49] } }, { p := { ip := [50] }, sep := [32] }⟩ }] [51] := by decide +kernel

end Kurbo
