import Proofs.KDefs
import Proofs.Lemmas.C11
import Proofs.Lemmas.C11RR
import Proofs.Lemmas.C15Quad
import Proofs.C12
import Proofs.Lemmas.C11Real
/-! C11 – closed-form shape queries agree with the shape's own outline.

    "For every closed shape, the closed-form area, perimeter, winding number for points off the boundary, and bounding
    box agree with those computed from the shape's Bezier outline; the bounding box is tight for rectangles, rounded
    rectangles, circles, ellipses, triangles and lines.  Rectangles resolve boundary points with the same half-open
    rule as paths, so a plane tiled by rectangles assigns every point to exactly one tile."

    The theorems are about the model definitions exactly as they are: `Rect.winding/area/perimeter/bounding_box`
    (`Kurbo/Kernel.lean`), the shape functions of `Kurbo/Shapes.lean`, and the path queries `pathWinding`
    (`Kurbo/Curve.lean`), `pathArea` (`Kurbo/Path.lean`), `pathBoundingBox`.  `K` is an arbitrary lawful scalar (ℚ, ℝ, …)
    unless a section says ℝ.

    PROVED
    1. Rect (outline = exact polygon, so everything is compared with the path machinery itself):
       * `rect_winding_eq_path_winding`: `pathWinding r.path_elements p = some (r.winding p)` for EVERY `p`, boundary
         points included, every corner order (also reversed and zero-extent rectangles, where `ClosePath` emits no edge);
         `rect_winding_ne_zero_iff` (non-zero exactly where `abs().contains(p)`, sign by orientation),
         `rect_winding_eq_contains`.
       * tiling: `interval_tiling` (a monotone sequence cuts `[a 0, a n)` into half-open intervals, each point in exactly
         one, none outside), `rect_tiling_horizontal`, `rect_tiling_vertical` (two tiles sharing an edge: the winding
         numbers add up to the big rectangle's, never both non-zero; the shared edge goes to one tile),
         `rect_grid_tiling` (grid `ax 0 ≤ … ≤ ax m`, `ay 0 ≤ … ≤ ay n`: a point counted by the big rectangle is counted
         by exactly one tile `(i,j)`, a point not counted by it by none).
       * `rect_area_eq_path_area`, `rect_bbox_eq_path_bbox` (`bounding_box = abs` = the `pathBoundingBox` of the
         outline), `rect_bbox_tight`, `rect_perimeter_eq` (`2(|w|+|h|)` = sum of the four axis-parallel side lengths),
         `rect_perimeter_eq_outline_arclen` (= sum of the model's `Line.arclen` of the four outline edges, under the
         hypothesis `HypotLaw K`: `Scalar.hypot` is the Euclidean norm).  `line_bbox_tight` for a single line.
    2. Triangle (outline = exact polygon):
       * `triangle_winding_eq_path_winding`: for `p` on none of the three closed edges (`¬ OnSeg`), rows through vertices
         included, both orientations: `pathWinding t.path_elements p = some (t.winding p)` – under the hypothesis that
         the three cross products whose `signum` the code takes do not ALL vanish; corollary
         `triangle_winding_eq_path_winding_of_area_ne_zero` (every non-degenerate triangle).  The hypothesis is needed:
         for the degenerate triangle `(1,1),(2,2),(3,3)` and `p = (0,0)` (on no edge) the closed form returns `1`
         (`signum 0 = 1` three times) and the outline `0` – `example` at the end.  This is outside the property's
         quantifier ("both orientations": a zero-area triangle has none) and recorded as design finding (n).
       * `triangle_winding_sign` (values `−1,0,1`; `+1` only with area `≥ 0`, `−1` only with area `< 0`),
         `triangle_area_eq_path_area`, `triangle_bbox_eq_path_bbox`, `triangle_bbox_tight`,
         `triangle_perimeter_eq_outline_arclen` (under `HypotLaw K`).
    3. RoundedRect (closed form vs the IDEAL shape, not vs the Bézier outline):
       * `from_rect_normalises` (`rect = abs`, ordered corners, every radius in `[0, min(w,h)/2]`, any input),
         `roundedRect_winding_iff_ideal`: for ordered corners and admissible radii (`RoundedRect.RadiiOk`)
         `winding p = 1 ↔ RoundedRect.Ideal p` and `winding ∈ {0,1}`, where `Ideal` (defined in
         `Proofs/Lemmas/C11RR.lean`) is the closed rectangle minus, per corner, the part of the `r × r` corner square
         outside the inscribed disc of THAT corner's radius (four different radii allowed; boundary points count);
         `roundedRect_from_rect_winding_iff_ideal` (everything `from_rect` builds), `roundedRect_inside_iff_ideal` (the
         quadrant-level statement of the prototype), `roundedRect_ideal_uniform` (sanity of `Ideal`: with one radius
         it IS the union of the two inner strips and four corner discs).
       * `roundedRect_bbox` (`= rect.abs`, contains `Ideal`), `roundedRect_bbox_tight` (the four tangent points where
         the outline's straight pieces start are in `Ideal`, one on each side), `roundedRect_outline_pieces` (centres and
         radii of `arcs` are the corner discs of `Ideal`; `rectEls` written out), `roundedRect_area_perimeter_eq`
         (rectangle minus `(1−π/4)r²` resp. `(2−π/2)r` per corner, `π = Scalar.pi` symbolic).
    4. Circle / Ellipse (closed form vs the ideal set):
       * `circle_winding_iff` (`= 1 ↔ dist² < r²`, OPEN disc, either sign of `r`), `circle_bbox_tight`,
         `circle_area_perimeter_eq` (`π r²`, `|2πr|`, `π` symbolic).
       * `ellipse_winding_iff` (pre-image under `inner.inverse` in the open unit disc), `ellipse_winding_iff_image`
         (`det ≠ 0`: image of the open unit disc under `inner`), `ellipse_bbox_contains` (Cauchy–Schwarz) and
         `ellipse_bbox_tight` under `SqrtExact` at the two arguments the function passes to `Scalar.sqrt`,
         `ellipse_area_eq` (`π·|det|`: the two singular values of `svd` multiply to `|det|`) under the square-root law
         on all non-negatives; (ℝ, `LawfulReal`) `ellipse_bbox_area_real` without hypotheses.
    5. CircleSegment:
       * `cseg_winding_radial` (any lawful `K`, whatever `atan2`/`fmod`/`pi` are: value in `{0,1}`, `1` only strictly
         between the circles, radii in either order), `cseg_bbox_contains`, `cseg_area_perimeter_eq` (formulas).
       * (ℝ with `LawfulReal` and the new class `LawfulRealAngle`: `Scalar.pi = π`, `Scalar.fmod a b = a − b·trunc(a/b)`)
         `cseg_winding_iff_sector`: `winding p = 1 ↔` strictly between the circles ∧ the direction of `p − center` is
         `start + σθ` for some `θ ∈ [0, |sweep|]`, `σ = signum sweep` – for EVERY start angle and sweep, ranges across
         `±π` included (the model is the repaired `winding`, design row (e)).

    NOT PROVED
    * Agreement of the closed forms of Circle, Ellipse, RoundedRect, CircleSegment with their *Bézier outlines*
      (`pathWinding/pathArea/pathBoundingBox` of `Circle.path_elements` etc., "within tolerance"): needs the
      approximation-error theorem of C10 for arcs plus an argument that the curved outline's crossing number equals
      membership in the ideal set; supported by the correspondence runs only.  For these shapes the theorems above
      compare the closed form with the ideal SET (disc, affine image of the disc, `RoundedRect.Ideal`, annular sector).
    * That `π r²`, `π|det|`, `rect − Σ(1−π/4)r²`, `½|R²−r²|·sweep` ARE the Lebesgue areas (and the perimeter formulas
      the lengths) of those ideal sets: the formulas are only written out (`…_area_perimeter_eq`); no measure theory.
      `Ellipse::perimeter` (Kummer series) is not modelled here and nothing is proved about it.
    * Triangle: points ON an edge (the closed form uses `signum 0 = 1`, the path the half-open rule – they differ
      there) and degenerate triangles (counterexample above) are excluded by hypothesis, not covered.
    * `HypotLaw`, `SqrtExact`, `LawfulReal`, `LawfulRealAngle` are hypotheses/classes about the transcendental `Scalar`
      fields; they hold for ℝ with Mathlib's functions (`example`s at the end) and `SqrtExact` at the needed arguments
      also for suitable ℚ inputs; nothing is claimed about `Float` rounding anywhere in this file.
    * The tiling theorems are for grids (products of two monotone sequences), not for arbitrary rectangle partitions.
    Helper lemmas: `Proofs/Lemmas/C11.lean` (polygons with 3/4 vertices written out, `Rect.winding` closed form, tiling
    in one dimension, `c11_offEdge_of_not_onSeg`, `HypotLaw`), `Proofs/Lemmas/C11Tri.lean` (port of the triangle prototype),
    `Proofs/Lemmas/C11RR.lean` (port of the rounded-rectangle prototype, `RadiiOk`, `Ideal`), `Proofs/Lemmas/C11Real.lean`
    (`LawfulRealAngle`, the angle reduction `redAngle`). -/
set_option linter.unusedSectionVars false
set_option linter.unusedVariables false

/-! ## 1. Rect -/
namespace Kurbo
section rect
variable {K : Type} [Field K] [LinearOrder K] [IsStrictOrderedRing K] [FloorRing K] [Scalar K] [LawfulScalar K]

/-- **the closed form is the path rule**: for EVERY point (boundary points included) and every corner order the
    winding number computed from the outline `M(x0,y0) L(x1,y0) L(x1,y1) L(x0,y1) Z` is `Rect::winding` -/
theorem rect_winding_eq_path_winding (r : Rect K) (p : Point K) :
    pathWinding r.path_elements p = some (r.winding p) := by
  unfold Rect.path_elements
  rw [pathWinding_quadrilateral, rect_crossings_eq_winding]

/-- `Rect::winding` is non-zero exactly on the half-open normalised rectangle, i.e. where `abs().contains(p)` holds;
    its sign is `+1` when the corners are in the same order on both axes, `−1` otherwise -/
theorem rect_winding_ne_zero_iff (r : Rect K) (p : Point K) :
    (r.winding p ≠ 0 ↔ r.abs.contains p = true) ∧
    (r.winding p ≠ 0 → r.winding p = if (r.x0 < r.x1 ↔ r.y0 < r.y1) then 1 else -1) := by
  constructor
  · rw [Rect.winding_ne_zero_iff, Rect.contains_iff, Rect.abs_eq]; rfl
  · intro h
    have hc := (Rect.winding_ne_zero_iff r p).mp h
    rw [Rect.winding_eq, if_pos hc]
    by_cases hx : r.x0 < r.x1 <;> by_cases hy : r.y0 < r.y1 <;> simp [hx, hy]

/-- for a rectangle with ordered corners the winding number is the indicator of `contains` -/
theorem rect_winding_eq_contains (r : Rect K) (h : r.Nonneg) (p : Point K) :
    r.winding p = if r.contains p = true then 1 else 0 := by
  rw [Rect.Nonneg.winding_eq h]
  exact if_congr (Rect.contains_iff r p).symm rfl rfl

/-! ### tiling -/

/-- one dimension: a monotone sequence `a 0 ≤ a 1 ≤ … ≤ a n` cuts `[a 0, a n)` into the half-open intervals
    `[a i, a (i+1))`; every point of `[a 0, a n)` lies in exactly one of them (empty intervals, `a i = a (i+1)`,
    are allowed) and no point outside lies in any -/
theorem interval_tiling (a : ℕ → K) (ha : Monotone a) (n : ℕ) (x : K) :
    (a 0 ≤ x ∧ x < a n → ∃! i, i < n ∧ a i ≤ x ∧ x < a (i + 1)) ∧
    (∀ i, i < n → a i ≤ x ∧ x < a (i + 1) → a 0 ≤ x ∧ x < a n) := by
  constructor
  · rintro ⟨h0, h1⟩
    obtain ⟨i, hi, h2⟩ := tile_exists a n x h0 h1
    exact ⟨i, ⟨hi, h2⟩, fun j hj => tile_unique a ha x j i hj.2 h2⟩
  · intro i hi h
    exact tile_inside a ha n x i hi h

/-- two rectangles side by side, sharing the edge `x = x1`: every point is counted by the big rectangle exactly as
    often as by the two tiles together, and never by both tiles – so each point of the (half-open) big rectangle
    is in exactly one tile, the points of the shared edge going to the right-hand tile -/
theorem rect_tiling_horizontal (x0 x1 x2 y0 y1 : K) (h01 : x0 ≤ x1) (h12 : x1 ≤ x2) (hy : y0 ≤ y1) (p : Point K) :
    (⟨x0, y0, x1, y1⟩ : Rect K).winding p + (⟨x1, y0, x2, y1⟩ : Rect K).winding p
      = (⟨x0, y0, x2, y1⟩ : Rect K).winding p ∧
    ¬ ((⟨x0, y0, x1, y1⟩ : Rect K).winding p ≠ 0 ∧ (⟨x1, y0, x2, y1⟩ : Rect K).winding p ≠ 0) ∧
    ((⟨x0, y0, x2, y1⟩ : Rect K).winding p ≠ 0 →
      ((⟨x0, y0, x1, y1⟩ : Rect K).winding p ≠ 0 ∨ (⟨x1, y0, x2, y1⟩ : Rect K).winding p ≠ 0)) := by
  have nA : (⟨x0, y0, x1, y1⟩ : Rect K).Nonneg := ⟨h01, hy⟩
  have nB : (⟨x1, y0, x2, y1⟩ : Rect K).Nonneg := ⟨h12, hy⟩
  have nC : (⟨x0, y0, x2, y1⟩ : Rect K).Nonneg := ⟨le_trans h01 h12, hy⟩
  rw [nA.winding_eq, nB.winding_eq, nC.winding_eq]
  simp only
  by_cases a : x0 ≤ p.x ∧ p.x < x1 ∧ y0 ≤ p.y ∧ p.y < y1 <;>
    by_cases b : x1 ≤ p.x ∧ p.x < x2 ∧ y0 ≤ p.y ∧ p.y < y1
  · exact absurd (lt_of_lt_of_le a.2.1 b.1) (lt_irrefl _)
  · have c : x0 ≤ p.x ∧ p.x < x2 ∧ y0 ≤ p.y ∧ p.y < y1 := ⟨a.1, lt_of_lt_of_le a.2.1 h12, a.2.2⟩
    simp [a, c]
  · have c : x0 ≤ p.x ∧ p.x < x2 ∧ y0 ≤ p.y ∧ p.y < y1 := ⟨le_trans h01 b.1, b.2⟩
    simp [b, c]
  · have c : ¬ (x0 ≤ p.x ∧ p.x < x2 ∧ y0 ≤ p.y ∧ p.y < y1) := by
      rintro ⟨c1, c2, c3⟩
      rcases lt_or_ge p.x x1 with h | h
      · exact a ⟨c1, h, c3⟩
      · exact b ⟨h, c2, c3⟩
    simp [a, b, c]

/-- the same for two rectangles one above the other, sharing the edge `y = y1` -/
theorem rect_tiling_vertical (x0 x1 y0 y1 y2 : K) (hx : x0 ≤ x1) (h01 : y0 ≤ y1) (h12 : y1 ≤ y2) (p : Point K) :
    (⟨x0, y0, x1, y1⟩ : Rect K).winding p + (⟨x0, y1, x1, y2⟩ : Rect K).winding p
      = (⟨x0, y0, x1, y2⟩ : Rect K).winding p ∧
    ¬ ((⟨x0, y0, x1, y1⟩ : Rect K).winding p ≠ 0 ∧ (⟨x0, y1, x1, y2⟩ : Rect K).winding p ≠ 0) ∧
    ((⟨x0, y0, x1, y2⟩ : Rect K).winding p ≠ 0 →
      ((⟨x0, y0, x1, y1⟩ : Rect K).winding p ≠ 0 ∨ (⟨x0, y1, x1, y2⟩ : Rect K).winding p ≠ 0)) := by
  have nA : (⟨x0, y0, x1, y1⟩ : Rect K).Nonneg := ⟨hx, h01⟩
  have nB : (⟨x0, y1, x1, y2⟩ : Rect K).Nonneg := ⟨hx, h12⟩
  have nC : (⟨x0, y0, x1, y2⟩ : Rect K).Nonneg := ⟨hx, le_trans h01 h12⟩
  rw [nA.winding_eq, nB.winding_eq, nC.winding_eq]
  simp only
  by_cases a : x0 ≤ p.x ∧ p.x < x1 ∧ y0 ≤ p.y ∧ p.y < y1 <;>
    by_cases b : x0 ≤ p.x ∧ p.x < x1 ∧ y1 ≤ p.y ∧ p.y < y2
  · exact absurd (lt_of_lt_of_le a.2.2.2 b.2.2.1) (lt_irrefl _)
  · have c : x0 ≤ p.x ∧ p.x < x1 ∧ y0 ≤ p.y ∧ p.y < y2 := ⟨a.1, a.2.1, a.2.2.1, lt_of_lt_of_le a.2.2.2 h12⟩
    simp [a, c]
  · have c : x0 ≤ p.x ∧ p.x < x1 ∧ y0 ≤ p.y ∧ p.y < y2 := ⟨b.1, b.2.1, le_trans h01 b.2.2.1, b.2.2.2⟩
    simp [b, c]
  · have c : ¬ (x0 ≤ p.x ∧ p.x < x1 ∧ y0 ≤ p.y ∧ p.y < y2) := by
      rintro ⟨c1, c2, c3, c4⟩
      rcases lt_or_ge p.y y1 with h | h
      · exact a ⟨c1, c2, c3, h⟩
      · exact b ⟨c1, c2, h, c4⟩
    simp [a, b, c]

/-- **a plane tiled by rectangles assigns every point to exactly one tile**: for grid lines
    `ax 0 ≤ … ≤ ax m` and `ay 0 ≤ … ≤ ay n` every point that the big rectangle counts (`winding ≠ 0`, i.e. a point of
    `[ax 0, ax m) × [ay 0, ay n)`) has non-zero winding number in exactly one tile `(i, j)`, and a point the big
    rectangle does not count is counted by no tile -/
theorem rect_grid_tiling (ax ay : ℕ → K) (hx : Monotone ax) (hy : Monotone ay) (m n : ℕ) (p : Point K) :
    ((⟨ax 0, ay 0, ax m, ay n⟩ : Rect K).winding p ≠ 0 →
      ∃! ij : ℕ × ℕ, ij.1 < m ∧ ij.2 < n ∧
        (⟨ax ij.1, ay ij.2, ax (ij.1 + 1), ay (ij.2 + 1)⟩ : Rect K).winding p ≠ 0) ∧
    ((⟨ax 0, ay 0, ax m, ay n⟩ : Rect K).winding p = 0 →
      ∀ i j, i < m → j < n → (⟨ax i, ay j, ax (i + 1), ay (j + 1)⟩ : Rect K).winding p = 0) := by
  have nBig : (⟨ax 0, ay 0, ax m, ay n⟩ : Rect K).Nonneg := ⟨hx (Nat.zero_le m), hy (Nat.zero_le n)⟩
  have nT : ∀ i j, (⟨ax i, ay j, ax (i + 1), ay (j + 1)⟩ : Rect K).Nonneg :=
    fun i j => ⟨hx (Nat.le_succ i), hy (Nat.le_succ j)⟩
  constructor
  · intro h
    rw [nBig.winding_ne_zero_iff] at h
    obtain ⟨i, hi, hi2⟩ := tile_exists ax m p.x h.1 h.2.1
    obtain ⟨j, hj, hj2⟩ := tile_exists ay n p.y h.2.2.1 h.2.2.2
    refine ⟨(i, j), ⟨hi, hj, ?_⟩, ?_⟩
    · rw [(nT i j).winding_ne_zero_iff]; exact ⟨hi2.1, hi2.2, hj2.1, hj2.2⟩
    · rintro ⟨i', j'⟩ ⟨_, _, h'⟩
      rw [(nT i' j').winding_ne_zero_iff] at h'
      have e1 := tile_unique ax hx p.x i' i ⟨h'.1, h'.2.1⟩ hi2
      have e2 := tile_unique ay hy p.y j' j ⟨h'.2.2.1, h'.2.2.2⟩ hj2
      rw [e1, e2]
  · intro h i j hi hj
    by_contra hne0
    have hne := ((nT i j).winding_ne_zero_iff p).mp hne0
    apply (nBig.winding_ne_zero_iff p).mpr _ h
    have h1 := tile_inside ax hx m p.x i hi ⟨hne.1, hne.2.1⟩
    have h2 := tile_inside ay hy n p.y j hj ⟨hne.2.2.1, hne.2.2.2⟩
    exact ⟨h1.1, h1.2, h2.1, h2.2⟩

/-! ### area, bounding box, perimeter -/

/-- the signed area of the outline is `Rect::area` (`width·height`, negative when exactly one axis is reversed) -/
theorem rect_area_eq_path_area (r : Rect K) : pathArea r.path_elements = some r.area := by
  unfold Rect.path_elements
  rw [pathArea_quadrilateral, Rect.area_eq]
  congr 1
  simp only
  ring

/-- `Rect::bounding_box` is `abs()`; it is the bounding box the path machinery computes from the outline -/
theorem rect_bbox_eq_path_bbox (r : Rect K) :
    r.bounding_box = r.abs ∧ pathBoundingBox r.path_elements = some r.bounding_box := by
  refine ⟨rfl, ?_⟩
  unfold Rect.path_elements
  rw [pathBoundingBox_quadrilateral]
  show _ = some r.abs
  rw [Rect.abs_eq]
  simp only [Option.some.injEq, Rect.mk.injEq]
  refine ⟨?_, ?_, ?_, ?_⟩ <;> minmax_eq

/-- the box contains the four corners (closed) and is tight: it is non-negative and each of its four sides passes
    through a corner -/
theorem rect_bbox_tight (r : Rect K) :
    r.bounding_box.Nonneg ∧
    r.bounding_box.ContainsClosed ⟨r.x0, r.y0⟩ ∧ r.bounding_box.ContainsClosed ⟨r.x1, r.y0⟩ ∧
    r.bounding_box.ContainsClosed ⟨r.x1, r.y1⟩ ∧ r.bounding_box.ContainsClosed ⟨r.x0, r.y1⟩ ∧
    (r.bounding_box.x0 = r.x0 ∨ r.bounding_box.x0 = r.x1) ∧ (r.bounding_box.x1 = r.x0 ∨ r.bounding_box.x1 = r.x1) ∧
    (r.bounding_box.y0 = r.y0 ∨ r.bounding_box.y0 = r.y1) ∧ (r.bounding_box.y1 = r.y0 ∨ r.bounding_box.y1 = r.y1) := by
  have e : r.bounding_box = ⟨min r.x0 r.x1, min r.y0 r.y1, max r.x0 r.x1, max r.y0 r.y1⟩ := Rect.abs_eq r
  rw [e]
  unfold Rect.Nonneg Rect.ContainsClosed
  simp only
  refine ⟨⟨min_le_max, min_le_max⟩, ⟨min_le_left _ _, le_max_left _ _, min_le_left _ _, le_max_left _ _⟩,
    ⟨min_le_right _ _, le_max_right _ _, min_le_left _ _, le_max_left _ _⟩,
    ⟨min_le_right _ _, le_max_right _ _, min_le_right _ _, le_max_right _ _⟩,
    ⟨min_le_left _ _, le_max_left _ _, min_le_right _ _, le_max_right _ _⟩,
    min_choice _ _, max_choice _ _, min_choice _ _, max_choice _ _⟩

/-- `Rect::perimeter` is `2(|w| + |h|)`, the sum of the lengths of the four (axis-parallel) sides of the outline in
    path order; no square root is involved -/
theorem rect_perimeter_eq (r : Rect K) (acc : K) :
    r.perimeter acc = 2 * (|r.x1 - r.x0| + |r.y1 - r.y0|) ∧
    r.perimeter acc = |r.x1 - r.x0| + |r.y1 - r.y0| + |r.x0 - r.x1| + |r.y0 - r.y1| := by
  have e : r.perimeter acc = 2 * (|r.x1 - r.x0| + |r.y1 - r.y0|) := by
    simp only [Rect.perimeter, Rect.width, Rect.height, scalar_norm]; push_cast; ring
  refine ⟨e, ?_⟩
  rw [e, abs_sub_comm r.x0 r.x1, abs_sub_comm r.y0 r.y1]; ring

/-- with a Euclidean `hypot` the perimeter is the sum of the model's own arc lengths of the four outline segments -/
theorem rect_perimeter_eq_outline_arclen (hh : HypotLaw K) (r : Rect K) (acc : K) :
    (Line.mk ⟨r.x0, r.y0⟩ ⟨r.x1, r.y0⟩).arclen acc + (Line.mk ⟨r.x1, r.y0⟩ ⟨r.x1, r.y1⟩).arclen acc
      + (Line.mk ⟨r.x1, r.y1⟩ ⟨r.x0, r.y1⟩).arclen acc + (Line.mk ⟨r.x0, r.y1⟩ ⟨r.x0, r.y0⟩).arclen acc
      = r.perimeter acc := by
  rw [(rect_perimeter_eq r acc).2]
  simp only [Line.arclen, Vec2.hypot, kdefs, scalar_norm, sub_self, hh.axis_x, hh.axis_y]

/-- a single line `M p0 L p1`: the bounding box the path machinery computes is spanned by the two end points; it
    contains every point of the segment and each side passes through an end point -/
theorem line_bbox_tight (l : Line K) :
    pathBoundingBox l.path_elements
      = some ⟨min l.p0.x l.p1.x, min l.p0.y l.p1.y, max l.p0.x l.p1.x, max l.p0.y l.p1.y⟩ ∧
    (∀ t : K, 0 ≤ t → t ≤ 1 →
      (⟨min l.p0.x l.p1.x, min l.p0.y l.p1.y, max l.p0.x l.p1.x, max l.p0.y l.p1.y⟩ : Rect K).ContainsClosed (l.eval t)) ∧
    (min l.p0.x l.p1.x = l.p0.x ∨ min l.p0.x l.p1.x = l.p1.x) ∧ (min l.p0.y l.p1.y = l.p0.y ∨ min l.p0.y l.p1.y = l.p1.y) ∧
    (max l.p0.x l.p1.x = l.p0.x ∨ max l.p0.x l.p1.x = l.p1.x) ∧ (max l.p0.y l.p1.y = l.p0.y ∨ max l.p0.y l.p1.y = l.p1.y) := by
  refine ⟨pathBoundingBox_line l.p0 l.p1, ?_, min_choice _ _, min_choice _ _, max_choice _ _, max_choice _ _⟩
  intro t h0 h1
  have e := line_eval_xy l.p0 l.p1 t
  simp only [PathSeg.eval] at e
  unfold Rect.ContainsClosed
  simp only
  rw [e.1, e.2]
  exact ⟨(lerp_between _ _ t h0 h1).1, (lerp_between _ _ t h0 h1).2, (lerp_between _ _ t h0 h1).1,
    (lerp_between _ _ t h0 h1).2⟩

end rect

/-! ## 2. Triangle -/
section triangle
variable {K : Type} [Field K] [LinearOrder K] [IsStrictOrderedRing K] [FloorRing K] [Scalar K] [LawfulScalar K]

/-- **three signs = ray casting.**  For every query point on none of the three closed edges, both orientations, rows
    through vertices included: the closed form equals the winding number of the outline `a → b → c → a`, PROVIDED the
    three cross products whose signs `Triangle::winding` takes do not all vanish (they all vanish exactly when the
    triangle is degenerate and `p` lies on its supporting line – see the counterexample below) -/
theorem triangle_winding_eq_path_winding (t : Triangle K) (p : Point K)
    (hab : ¬ OnSeg (.Line ⟨t.a, t.b⟩) p) (hbc : ¬ OnSeg (.Line ⟨t.b, t.c⟩) p) (hca : ¬ OnSeg (.Line ⟨t.c, t.a⟩) p)
    (hnd : ¬ ((t.b - t.a).cross (p - t.a) = 0 ∧ (t.c - t.b).cross (p - t.b) = 0 ∧ (t.a - t.c).cross (p - t.c) = 0)) :
    pathWinding t.path_elements p = some (t.winding p) := by
  unfold Triangle.path_elements
  rw [pathWinding_tri, Triangle.winding_eq_triW]
  congr 1
  unfold kc
  simp only [vsub_x, vsub_y]
  refine C11Tri.triangle_winding _ _ _ _ _ _ (c11_offEdge_of_not_onSeg _ _ _ hab) (c11_offEdge_of_not_onSeg _ _ _ hbc)
    (c11_offEdge_of_not_onSeg _ _ _ hca) ?_
  intro h
  apply hnd
  simp only [kdefs, scalar_norm]
  obtain ⟨h0, h1, h2⟩ := h
  refine ⟨?_, ?_, ?_⟩
  · linear_combination h0
  · linear_combination h1
  · linear_combination h2

/-- in particular for every triangle of non-zero area and every point off its boundary -/
theorem triangle_winding_eq_path_winding_of_area_ne_zero (t : Triangle K) (p : Point K) (ha : t.area ≠ 0)
    (hab : ¬ OnSeg (.Line ⟨t.a, t.b⟩) p) (hbc : ¬ OnSeg (.Line ⟨t.b, t.c⟩) p) (hca : ¬ OnSeg (.Line ⟨t.c, t.a⟩) p) :
    pathWinding t.path_elements p = some (t.winding p) := by
  apply triangle_winding_eq_path_winding t p hab hbc hca
  intro h
  apply ha
  simp only [kdefs, scalar_norm] at h
  obtain ⟨h0, h1, h2⟩ := h
  simp only [Triangle.area, kdefs, scalar_norm]
  push_cast
  linear_combination (1 / 2 : K) * h0 + (1 / 2 : K) * h1 + (1 / 2 : K) * h2

/-- the closed form takes the values `−1, 0, 1` only, and the sign is that of the signed area when it is not `0`:
    `+1` needs all three cross products `≥ 0`, `−1` all three `< 0`, and their sum is twice the area -/
theorem triangle_winding_sign (t : Triangle K) (p : Point K) :
    (t.winding p = 1 → 0 ≤ t.area) ∧ (t.winding p = -1 → t.area < 0) ∧
    (t.winding p = 1 ∨ t.winding p = 0 ∨ t.winding p = -1) := by
  rw [Triangle.winding_eq_triW, C11Tri.triW_eq]
  have e : t.area = (1 / 2) * (((t.a.x - p.x) * (t.b.y - p.y) - (t.a.y - p.y) * (t.b.x - p.x))
      + ((t.b.x - p.x) * (t.c.y - p.y) - (t.b.y - p.y) * (t.c.x - p.x))
      + ((t.c.x - p.x) * (t.a.y - p.y) - (t.c.y - p.y) * (t.a.x - p.x))) := by
    simp only [Triangle.area, kdefs, scalar_norm]; push_cast; ring
  rw [e]
  split_ifs with h1 h2
  · refine ⟨fun h => absurd h (by decide), fun _ => by linarith [h1.1, h1.2.1, h1.2.2], Or.inr (Or.inr rfl)⟩
  · refine ⟨fun _ => by linarith [h2.1, h2.2.1, h2.2.2], fun h => absurd h (by decide), Or.inl rfl⟩
  · exact ⟨fun h => absurd h (by decide), fun h => absurd h (by decide), Or.inr (Or.inl rfl)⟩

/-- the signed area of the outline is `Triangle::area` -/
theorem triangle_area_eq_path_area (t : Triangle K) : pathArea t.path_elements = some t.area := by
  unfold Triangle.path_elements
  rw [pathArea_tri]
  congr 1
  simp only [Triangle.area, kdefs, scalar_norm]; push_cast; ring

/-- `Triangle::bounding_box` is the bounding box the path machinery computes from the outline -/
theorem triangle_bbox_eq_path_bbox (t : Triangle K) :
    pathBoundingBox t.path_elements = some t.bounding_box := by
  unfold Triangle.path_elements
  rw [pathBoundingBox_tri]
  simp only [Triangle.bounding_box, kdefs, scalar_norm]

/-- it contains the three vertices (closed) and is tight: each side passes through a vertex -/
theorem triangle_bbox_tight (t : Triangle K) :
    t.bounding_box.Nonneg ∧
    t.bounding_box.ContainsClosed t.a ∧ t.bounding_box.ContainsClosed t.b ∧ t.bounding_box.ContainsClosed t.c ∧
    (t.bounding_box.x0 = t.a.x ∨ t.bounding_box.x0 = t.b.x ∨ t.bounding_box.x0 = t.c.x) ∧
    (t.bounding_box.y0 = t.a.y ∨ t.bounding_box.y0 = t.b.y ∨ t.bounding_box.y0 = t.c.y) ∧
    (t.bounding_box.x1 = t.a.x ∨ t.bounding_box.x1 = t.b.x ∨ t.bounding_box.x1 = t.c.x) ∧
    (t.bounding_box.y1 = t.a.y ∨ t.bounding_box.y1 = t.b.y ∨ t.bounding_box.y1 = t.c.y) := by
  have e : t.bounding_box = ⟨min t.a.x (min t.b.x t.c.x), min t.a.y (min t.b.y t.c.y),
      max t.a.x (max t.b.x t.c.x), max t.a.y (max t.b.y t.c.y)⟩ := by
    simp only [Triangle.bounding_box, kdefs, scalar_norm]
  rw [e]
  unfold Rect.Nonneg Rect.ContainsClosed
  have c3min : ∀ x y z : K, min x (min y z) = x ∨ min x (min y z) = y ∨ min x (min y z) = z := by
    intro x y z
    rcases min_choice x (min y z) with h | h
    · exact Or.inl h
    · rw [h]; rcases min_choice y z with h' | h'
      · exact Or.inr (Or.inl h')
      · exact Or.inr (Or.inr h')
  have c3max : ∀ x y z : K, max x (max y z) = x ∨ max x (max y z) = y ∨ max x (max y z) = z := by
    intro x y z
    rcases max_choice x (max y z) with h | h
    · exact Or.inl h
    · rw [h]; rcases max_choice y z with h' | h'
      · exact Or.inr (Or.inl h')
      · exact Or.inr (Or.inr h')
  refine ⟨?_, ?_, ?_, ?_, c3min _ _ _, c3min _ _ _, c3max _ _ _, c3max _ _ _⟩ <;>
    simp only [min_le_iff, le_max_iff, le_refl, true_or, or_true, and_self]

/-- with a Euclidean `hypot`, `Triangle::perimeter` is the sum of the model's arc lengths of the three outline edges -/
theorem triangle_perimeter_eq_outline_arclen (hh : HypotLaw K) (t : Triangle K) (acc : K) :
    (Line.mk t.a t.b).arclen acc + (Line.mk t.b t.c).arclen acc + (Line.mk t.c t.a).arclen acc = t.perimeter := by
  simp only [Triangle.perimeter, Point.distance, Line.arclen, Vec2.hypot, kdefs, scalar_norm]
  rw [← hh.neg (t.a.x - t.b.x), ← hh.neg (t.b.x - t.c.x), ← hh.neg (t.c.x - t.a.x)]
  simp only [neg_sub]

end triangle

/-! ## 3. RoundedRect -/
section roundedRect
variable {K : Type} [Field K] [LinearOrder K] [IsStrictOrderedRing K] [FloorRing K] [Scalar K] [LawfulScalar K]

/-- `RoundedRect::from_rect` normalises: the rectangle is `abs()` of the argument (so it has ordered corners) and
    every radius ends up in `[0, min(width, height)/2]` – also for negative radii and radii beyond half the side -/
theorem from_rect_normalises (rect : Rect K) (radii : RoundedRectRadii K) :
    (RoundedRect.from_rect rect radii).rect = rect.abs ∧
    (RoundedRect.from_rect rect radii).rect.Nonneg ∧
    (RoundedRect.from_rect rect radii).RadiiOk := by
  have e : (RoundedRect.from_rect rect radii).rect = rect.abs := rfl
  refine ⟨e, ?_, ?_⟩
  · rw [e, Rect.abs_eq]; exact ⟨min_le_max, min_le_max⟩
  · unfold RoundedRect.RadiiOk
    rw [e, Rect.abs_eq]
    simp only [RoundedRect.from_rect, RoundedRectRadii.abs, RoundedRectRadii.clamp, Rect.width, Rect.height,
      Rect.abs_eq, scalar_norm]
    push_cast
    have hm : 0 ≤ min (max rect.x0 rect.x1 - min rect.x0 rect.x1) (max rect.y0 rect.y1 - min rect.y0 rect.y1) / 2 := by
      apply div_nonneg _ (by norm_num)
      exact le_min (sub_nonneg.mpr min_le_max) (sub_nonneg.mpr min_le_max)
    exact ⟨⟨le_min (abs_nonneg _) hm, min_le_right _ _⟩, ⟨le_min (abs_nonneg _) hm, min_le_right _ _⟩,
      ⟨le_min (abs_nonneg _) hm, min_le_right _ _⟩, ⟨le_min (abs_nonneg _) hm, min_le_right _ _⟩⟩

/-- **`RoundedRect::winding` is membership in the ideal rounded rectangle** (`RoundedRect.Ideal`,
    `Proofs/Lemmas/C11RR.lean`: the closed rectangle minus, at each corner, the part of the `r × r` corner square outside
    the inscribed disc of that corner's radius), for ordered corners and radii in `[0, min(w,h)/2]`; the set is closed
    (boundary points count) and the value is `0` or `1` -/
theorem roundedRect_winding_iff_ideal (s : RoundedRect K) (hn : s.rect.Nonneg) (hr : s.RadiiOk) (p : Point K) :
    (s.winding p = 1 ↔ s.Ideal p) ∧ (s.winding p = 0 ∨ s.winding p = 1) :=
  ⟨RoundedRect.winding_eq_one_iff_ideal s hn hr p, RoundedRect.winding_zero_or_one s p⟩

/-- hence for everything `from_rect` builds (any corner order, any radii) -/
theorem roundedRect_from_rect_winding_iff_ideal (rect : Rect K) (radii : RoundedRectRadii K) (p : Point K) :
    (RoundedRect.from_rect rect radii).winding p = 1 ↔ (RoundedRect.from_rect rect radii).Ideal p :=
  RoundedRect.winding_eq_one_iff_ideal _ (from_rect_normalises rect radii).2.1 (from_rect_normalises rect radii).2.2 p

/-- quadrant level (the statement of the design-round prototype): steps 3–5 of `RoundedRect::winding`, the clamp
    and circle test on `u = |x − cx|`, `v = |y − cy|` with half extents `hw, hh` and the selected radius `r`, decide
    membership in the quadrant's share of the ideal shape -/
theorem roundedRect_inside_iff_ideal (u v hw hh r : K) (hr : 0 ≤ r) (hrw : r ≤ hw) (hrh : r ≤ hh) :
    max (u - max (hw - r) 0) 0 * max (u - max (hw - r) 0) 0 + max (v - max (hh - r) 0) 0 * max (v - max (hh - r) 0) 0
        ≤ r * r ↔
      u ≤ hw ∧ v ≤ hh ∧
        (u ≤ hw - r ∨ v ≤ hh - r ∨ (u - (hw - r)) * (u - (hw - r)) + (v - (hh - r)) * (v - (hh - r)) ≤ r * r) :=
  C11RR.inside_iff_ideal u v hw hh r hr hrw hrh

/-- the ideal shape lies in the closed bounding box, which is the (normalised) rectangle -/
theorem roundedRect_bbox (s : RoundedRect K) :
    s.bounding_box = s.rect.abs ∧ (s.rect.Nonneg → s.bounding_box = s.rect) ∧
    (∀ p, s.Ideal p → s.rect.ContainsClosed p) :=
  ⟨rfl, fun h => h.abs_eq_self, fun _ h => h.1⟩

/-- the box is tight for the ideal shape: the four tangent points at which the straight pieces of the outline start
    (`rectEls`) belong to the ideal shape, one on each side of the rectangle -/
theorem roundedRect_bbox_tight (s : RoundedRect K) (hn : s.rect.Nonneg) (hr : s.RadiiOk) :
    s.Ideal ⟨s.rect.x0, s.rect.y0 + s.radii.top_left⟩ ∧ s.Ideal ⟨s.rect.x1 - s.radii.top_right, s.rect.y0⟩ ∧
    s.Ideal ⟨s.rect.x1, s.rect.y1 - s.radii.bottom_right⟩ ∧ s.Ideal ⟨s.rect.x0 + s.radii.bottom_left, s.rect.y1⟩ :=
  RoundedRect.ideal_tangent_points s hn hr

/-- sanity of the definition `RoundedRect.Ideal`: with one radius for all corners it is the union of the two inner
    strips and the four corner discs -/
theorem roundedRect_ideal_uniform (rect : Rect K) (r : K) (hn : rect.Nonneg) (hr0 : 0 ≤ r)
    (hrw : 2 * r ≤ rect.x1 - rect.x0) (hrh : 2 * r ≤ rect.y1 - rect.y0) (p : Point K) :
    (⟨rect, ⟨r, r, r, r⟩⟩ : RoundedRect K).Ideal p ↔
      (rect.x0 ≤ p.x ∧ p.x ≤ rect.x1 ∧ rect.y0 + r ≤ p.y ∧ p.y ≤ rect.y1 - r) ∨
      (rect.x0 + r ≤ p.x ∧ p.x ≤ rect.x1 - r ∧ rect.y0 ≤ p.y ∧ p.y ≤ rect.y1) ∨
      (p.x - (rect.x0 + r)) ^ 2 + (p.y - (rect.y0 + r)) ^ 2 ≤ r ^ 2 ∨
      (p.x - (rect.x1 - r)) ^ 2 + (p.y - (rect.y0 + r)) ^ 2 ≤ r ^ 2 ∨
      (p.x - (rect.x1 - r)) ^ 2 + (p.y - (rect.y1 - r)) ^ 2 ≤ r ^ 2 ∨
      (p.x - (rect.x0 + r)) ^ 2 + (p.y - (rect.y1 - r)) ^ 2 ≤ r ^ 2 :=
  RoundedRect.ideal_uniform_iff rect r hn hr0 hrw hrh p

/-- the four arcs of the outline are quarter circles around the centres of the four corner discs of `Ideal`, with that
    corner's radius, and the straight pieces start and end on the sides of the rectangle at the tangent points -/
theorem roundedRect_outline_pieces (s : RoundedRect K) :
    (s.arcs.map fun a => (a.center, a.radii)) =
      [ (⟨s.rect.x0 + s.radii.top_left, s.rect.y0 + s.radii.top_left⟩, ⟨s.radii.top_left, s.radii.top_left⟩),
        (⟨s.rect.x1 - s.radii.top_right, s.rect.y0 + s.radii.top_right⟩, ⟨s.radii.top_right, s.radii.top_right⟩),
        (⟨s.rect.x1 - s.radii.bottom_right, s.rect.y1 - s.radii.bottom_right⟩,
          ⟨s.radii.bottom_right, s.radii.bottom_right⟩),
        (⟨s.rect.x0 + s.radii.bottom_left, s.rect.y1 - s.radii.bottom_left⟩,
          ⟨s.radii.bottom_left, s.radii.bottom_left⟩) ] ∧
    s.rectEls =
      [ .MoveTo ⟨s.rect.x0, s.rect.y0 + s.radii.top_left⟩, .LineTo ⟨s.rect.x1 - s.radii.top_right, s.rect.y0⟩,
        .LineTo ⟨s.rect.x1, s.rect.y1 - s.radii.bottom_right⟩, .LineTo ⟨s.rect.x0 + s.radii.bottom_left, s.rect.y1⟩,
        .ClosePath ] := by
  constructor
  · simp only [RoundedRect.arcs, List.map_cons, List.map_nil, scalar_norm]
  · simp only [RoundedRect.rectEls, scalar_norm]

/-- `area` and `perimeter` are those of the ideal shape: the rectangle's, minus `(1 − π/4)·r²` resp. `(2 − π/2)·r`
    for each corner (`π` = `Scalar.pi`; nothing about its value is used) -/
theorem roundedRect_area_perimeter_eq (s : RoundedRect K) :
    s.area = (s.rect.x1 - s.rect.x0) * (s.rect.y1 - s.rect.y0)
      - (1 - Scalar.pi / 4) * (s.radii.top_left ^ 2 + s.radii.top_right ^ 2 + s.radii.bottom_right ^ 2
          + s.radii.bottom_left ^ 2) ∧
    s.perimeter = 2 * (|s.rect.x1 - s.rect.x0| + |s.rect.y1 - s.rect.y0|)
      - (2 - Scalar.pi / 2) * (s.radii.top_left + s.radii.top_right + s.radii.bottom_right + s.radii.bottom_left) := by
  constructor
  · simp only [RoundedRect.area, Rect.area, Rect.width, Rect.height, fracPi4, List.foldl_cons, List.foldl_nil,
      scalar_norm]
    push_cast; ring
  · simp only [RoundedRect.perimeter, Rect.perimeter, Rect.width, Rect.height, fracPi2, List.foldl_cons,
      List.foldl_nil, scalar_norm]
    push_cast; ring

end roundedRect

/-! ## 4. Circle, Ellipse -/
section circle
variable {K : Type} [Field K] [LinearOrder K] [IsStrictOrderedRing K] [FloorRing K] [Scalar K] [LawfulScalar K]

/-- `Circle::winding` is membership in the OPEN disc (points on the circle itself get `0`), for either sign of the
    stored radius -/
theorem circle_winding_iff (c : Circle K) (p : Point K) :
    (c.winding p = 1 ↔ (p.x - c.center.x) ^ 2 + (p.y - c.center.y) ^ 2 < c.radius ^ 2) ∧
    (c.winding p = 0 ∨ c.winding p = 1) := by
  simp only [Circle.winding, kdefs, scalar_norm, decide_eq_true_eq]
  have e : (p.x - c.center.x) * (p.x - c.center.x) + (p.y - c.center.y) * (p.y - c.center.y)
      = (p.x - c.center.x) ^ 2 + (p.y - c.center.y) ^ 2 := by ring
  rw [e]
  constructor
  · exact ite_one_zero_eq_one_iff _
  · split_ifs
    · exact Or.inr rfl
    · exact Or.inl rfl

/-- the box `center ± |r|` contains the closed disc and is tight: the four extreme points `center ± (|r|, 0)`,
    `center ± (0, |r|)` lie on the circle and on the four sides -/
theorem circle_bbox_tight (c : Circle K) :
    c.bounding_box = ⟨c.center.x - |c.radius|, c.center.y - |c.radius|, c.center.x + |c.radius|, c.center.y + |c.radius|⟩ ∧
    c.bounding_box.Nonneg ∧
    (∀ p : Point K, (p.x - c.center.x) ^ 2 + (p.y - c.center.y) ^ 2 ≤ c.radius ^ 2 → c.bounding_box.ContainsClosed p) ∧
    ((c.center.x + |c.radius| - c.center.x) ^ 2 + (c.center.y - c.center.y) ^ 2 = c.radius ^ 2 ∧
      c.bounding_box.x1 = c.center.x + |c.radius|) ∧
    ((c.center.x - |c.radius| - c.center.x) ^ 2 + (c.center.y - c.center.y) ^ 2 = c.radius ^ 2 ∧
      c.bounding_box.x0 = c.center.x - |c.radius|) ∧
    ((c.center.x - c.center.x) ^ 2 + (c.center.y + |c.radius| - c.center.y) ^ 2 = c.radius ^ 2 ∧
      c.bounding_box.y1 = c.center.y + |c.radius|) ∧
    ((c.center.x - c.center.x) ^ 2 + (c.center.y - |c.radius| - c.center.y) ^ 2 = c.radius ^ 2 ∧
      c.bounding_box.y0 = c.center.y - |c.radius|) := by
  have e : c.bounding_box
      = ⟨c.center.x - |c.radius|, c.center.y - |c.radius|, c.center.x + |c.radius|, c.center.y + |c.radius|⟩ := by
    simp only [Circle.bounding_box, kdefs, scalar_norm]
  have ha := abs_nonneg c.radius
  have hs : |c.radius| ^ 2 = c.radius ^ 2 := sq_abs c.radius
  rw [e]
  refine ⟨rfl, ⟨by linarith, by linarith⟩, ?_, ⟨by rw [← hs]; ring, rfl⟩, ⟨by rw [← hs]; ring, rfl⟩,
    ⟨by rw [← hs]; ring, rfl⟩, ⟨by rw [← hs]; ring, rfl⟩⟩
  intro p hp
  have hx : (p.x - c.center.x) ^ 2 ≤ |c.radius| ^ 2 := by rw [hs]; nlinarith [sq_nonneg (p.y - c.center.y)]
  have hy : (p.y - c.center.y) ^ 2 ≤ |c.radius| ^ 2 := by rw [hs]; nlinarith [sq_nonneg (p.x - c.center.x)]
  obtain ⟨hx1, hx2⟩ := abs_le_of_sq_le_sq' hx ha
  obtain ⟨hy1, hy2⟩ := abs_le_of_sq_le_sq' hy ha
  exact ⟨by linarith, by linarith, by linarith, by linarith⟩

/-- `area = π r²`, `perimeter = |2πr|` with `π = Scalar.pi` (formulas of the ideal circle; nothing about the value of
    `Scalar.pi` is used) -/
theorem circle_area_perimeter_eq (c : Circle K) :
    c.area = Scalar.pi * c.radius ^ 2 ∧ c.perimeter = |2 * Scalar.pi * c.radius| := by
  constructor
  · simp only [Circle.area, scalar_norm]
  · simp only [Circle.perimeter, scalar_norm]; push_cast; rfl

/-- `Ellipse::winding` is `1` exactly when the pre-image of `p` under the stored affine map, computed with
    `Affine::inverse`, lies in the open unit disc -/
theorem ellipse_winding_iff (e : Ellipse K) (p : Point K) :
    (e.winding p = 1 ↔ (e.inner.inverse * p).x ^ 2 + (e.inner.inverse * p).y ^ 2 < 1) ∧
    (e.winding p = 0 ∨ e.winding p = 1) := by
  simp only [Ellipse.winding, Point.to_vec2, Vec2.hypot2, Vec2.dot, scalar_norm, decide_eq_true_eq]
  push_cast
  have e' : (e.inner.inverse * p).x * (e.inner.inverse * p).x + (e.inner.inverse * p).y * (e.inner.inverse * p).y
      = (e.inner.inverse * p).x ^ 2 + (e.inner.inverse * p).y ^ 2 := by ring
  rw [e']
  constructor
  · exact ite_one_zero_eq_one_iff _
  · split_ifs
    · exact Or.inr rfl
    · exact Or.inl rfl

/-- for a non-singular stored map: membership in the image of the open unit disc -/
theorem ellipse_winding_iff_image (e : Ellipse K) (h : e.inner.determinant ≠ 0) (p : Point K) :
    e.winding p = 1 ↔ ∃ q : Point K, q.x ^ 2 + q.y ^ 2 < 1 ∧ e.inner * q = p := by
  rw [(ellipse_winding_iff e p).1]
  constructor
  · intro hq
    exact ⟨e.inner.inverse * p, hq, (affine_inverse_act e.inner h p).2⟩
  · rintro ⟨q, hq, rfl⟩
    rw [(affine_inverse_act e.inner h q).1]; exact hq

/-- Cauchy–Schwarz: the image of the closed unit disc lies in `Ellipse::bounding_box`, given that `Scalar.sqrt` is
    exact at the two arguments the function passes to it -/
theorem ellipse_bbox_contains (e : Ellipse K)
    (hx : SqrtExact (e.inner.c0 * e.inner.c0 + e.inner.c2 * e.inner.c2))
    (hy : SqrtExact (e.inner.c1 * e.inner.c1 + e.inner.c3 * e.inner.c3))
    (q : Point K) (hq : q.x ^ 2 + q.y ^ 2 ≤ 1) :
    e.bounding_box.ContainsClosed (e.inner * q) := by
  obtain ⟨hx0, hx2⟩ := hx
  obtain ⟨hy0, hy2⟩ := hy
  simp only [Ellipse.bounding_box, Rect.ContainsClosed, kdefs, scalar_norm]
  set rx := Scalar.sqrt (e.inner.c0 * e.inner.c0 + e.inner.c2 * e.inner.c2)
  set ry := Scalar.sqrt (e.inner.c1 * e.inner.c1 + e.inner.c3 * e.inner.c3)
  have cs : ∀ a b R : K, 0 ≤ R → R * R = a * a + b * b → -R ≤ a * q.x + b * q.y ∧ a * q.x + b * q.y ≤ R := by
    intro a b R hR hRR
    apply abs_le_of_sq_le_sq' _ hR
    nlinarith [sq_nonneg (a * q.y - b * q.x), mul_nonneg (add_nonneg (mul_self_nonneg a) (mul_self_nonneg b))
      (sub_nonneg.mpr hq)]
  obtain ⟨h1, h2⟩ := cs _ _ rx hx0 hx2
  obtain ⟨h3, h4⟩ := cs _ _ ry hy0 hy2
  exact ⟨by linarith, by linarith, by linarith, by linarith⟩

/-- … and the box is tight: each of its four sides contains the image of a point of the unit circle -/
theorem ellipse_bbox_tight (e : Ellipse K)
    (hx : SqrtExact (e.inner.c0 * e.inner.c0 + e.inner.c2 * e.inner.c2))
    (hy : SqrtExact (e.inner.c1 * e.inner.c1 + e.inner.c3 * e.inner.c3)) :
    (∃ q : Point K, q.x ^ 2 + q.y ^ 2 = 1 ∧ (e.inner * q).x = e.bounding_box.x1) ∧
    (∃ q : Point K, q.x ^ 2 + q.y ^ 2 = 1 ∧ (e.inner * q).x = e.bounding_box.x0) ∧
    (∃ q : Point K, q.x ^ 2 + q.y ^ 2 = 1 ∧ (e.inner * q).y = e.bounding_box.y1) ∧
    (∃ q : Point K, q.x ^ 2 + q.y ^ 2 = 1 ∧ (e.inner * q).y = e.bounding_box.y0) := by
  obtain ⟨hx0, hx2⟩ := hx
  obtain ⟨hy0, hy2⟩ := hy
  simp only [Ellipse.bounding_box, kdefs, scalar_norm]
  set rx := Scalar.sqrt (e.inner.c0 * e.inner.c0 + e.inner.c2 * e.inner.c2)
  set ry := Scalar.sqrt (e.inner.c1 * e.inner.c1 + e.inner.c3 * e.inner.c3)
  -- a unit vector `(u, v)` with `a u + b v = R`
  have key : ∀ a b R : K, R * R = a * a + b * b → ∃ u v : K, u ^ 2 + v ^ 2 = 1 ∧ a * u + b * v = R := by
    intro a b R hRR
    by_cases hR : R = 0
    · have ha : a = 0 := by
        have : a * a = 0 := by nlinarith [mul_self_nonneg a, mul_self_nonneg b, hRR, hR]
        exact mul_self_eq_zero.mp this
      have hb : b = 0 := by
        have : b * b = 0 := by nlinarith [mul_self_nonneg a, mul_self_nonneg b, hRR, hR]
        exact mul_self_eq_zero.mp this
      exact ⟨1, 0, by norm_num, by rw [ha, hb, hR]; ring⟩
    · refine ⟨a / R, b / R, ?_, ?_⟩
      · field_simp; linear_combination -hRR
      · field_simp; linear_combination -hRR
  obtain ⟨u, v, huv, hu⟩ := key _ _ rx hx2
  obtain ⟨u', v', huv', hu'⟩ := key _ _ ry hy2
  refine ⟨⟨⟨u, v⟩, huv, by simp only; linarith⟩, ⟨⟨-u, -v⟩, by simp only; rw [← huv]; ring, by simp only; linarith⟩,
    ⟨⟨u', v'⟩, huv', by simp only; linarith⟩, ⟨⟨-u', -v'⟩, by simp only; rw [← huv']; ring, by simp only; linarith⟩⟩

/-- `Ellipse::area` is `π·|det|` of the stored map (the product of the two singular values `svd` computes is
    `|det|`), given that `Scalar.sqrt` is the exact square root on non-negative arguments -/
theorem ellipse_area_eq (e : Ellipse K) (hs : ∀ x : K, 0 ≤ x → SqrtExact x) :
    e.area = Scalar.pi * |e.inner.determinant| := by
  simp only [Ellipse.area, Affine.svd, Affine.determinant, scalar_norm]
  push_cast
  set a := e.inner.c0
  set b := e.inner.c1
  set c := e.inner.c2
  set d := e.inner.c3
  have hD : 0 ≤ (a * a - b * b + c * c - d * d) ^ 2 + 4 * (a * b + c * d) ^ 2 := by positivity
  obtain ⟨h20, h22⟩ := hs _ hD
  set s2 := Scalar.sqrt ((a * a - b * b + c * c - d * d) ^ 2 + 4 * (a * b + c * d) ^ 2)
  have hs1 : 0 ≤ a * a + b * b + c * c + d * d := by
    nlinarith [mul_self_nonneg a, mul_self_nonneg b, mul_self_nonneg c, mul_self_nonneg d]
  have hle : s2 ≤ a * a + b * b + c * c + d * d := by
    by_contra hlt
    push Not at hlt
    nlinarith [mul_self_lt_mul_self hs1 hlt, sq_nonneg (a * d - b * c)]
  obtain ⟨hp0, hp2⟩ := hs (1 / 2 * (a * a + b * b + c * c + d * d + s2)) (by linarith)
  obtain ⟨hm0, hm2⟩ := hs (1 / 2 * (a * a + b * b + c * c + d * d - s2)) (by linarith)
  set rp := Scalar.sqrt (1 / 2 * (a * a + b * b + c * c + d * d + s2))
  set rm := Scalar.sqrt (1 / 2 * (a * a + b * b + c * c + d * d - s2))
  have hprod : rp * rm = |a * d - b * c| := by
    have h0 : 0 ≤ rp * rm := mul_nonneg hp0 hm0
    have hsq : (rp * rm) * (rp * rm) = (a * d - b * c) * (a * d - b * c) := by
      have : (rp * rm) * (rp * rm) = (rp * rp) * (rm * rm) := by ring
      rw [this, hp2, hm2]
      linear_combination (-1 / 4 : K) * h22
    rw [← abs_of_nonneg h0]
    exact abs_eq_abs.mpr ((mul_self_eq_mul_self_iff).mp hsq)
  rw [mul_assoc, hprod]

end circle

/-! ### over ℝ the square-root hypotheses hold -/
section ellipseReal
variable [Scalar ℝ] [LawfulScalar ℝ] [LawfulReal]

/-- (ℝ) the box of an ellipse contains the image of the closed unit disc and each side touches the image of the unit
    circle; the area is `π·|det|` -/
theorem ellipse_bbox_area_real (e : Ellipse ℝ) :
    (∀ q : Point ℝ, q.x ^ 2 + q.y ^ 2 ≤ 1 → e.bounding_box.ContainsClosed (e.inner * q)) ∧
    ((∃ q : Point ℝ, q.x ^ 2 + q.y ^ 2 = 1 ∧ (e.inner * q).x = e.bounding_box.x1) ∧
      (∃ q : Point ℝ, q.x ^ 2 + q.y ^ 2 = 1 ∧ (e.inner * q).x = e.bounding_box.x0) ∧
      (∃ q : Point ℝ, q.x ^ 2 + q.y ^ 2 = 1 ∧ (e.inner * q).y = e.bounding_box.y1) ∧
      (∃ q : Point ℝ, q.x ^ 2 + q.y ^ 2 = 1 ∧ (e.inner * q).y = e.bounding_box.y0)) ∧
    e.area = Scalar.pi * |e.inner.determinant| := by
  have hx := sqrtExact_of_lawfulReal (e.inner.c0 * e.inner.c0 + e.inner.c2 * e.inner.c2)
    (add_nonneg (mul_self_nonneg _) (mul_self_nonneg _))
  have hy := sqrtExact_of_lawfulReal (e.inner.c1 * e.inner.c1 + e.inner.c3 * e.inner.c3)
    (add_nonneg (mul_self_nonneg _) (mul_self_nonneg _))
  exact ⟨fun q hq => ellipse_bbox_contains e hx hy q hq, ellipse_bbox_tight e hx hy,
    ellipse_area_eq e sqrtExact_of_lawfulReal⟩

end ellipseReal

/-! ## 5. CircleSegment -/
section circleSegment
variable {K : Type} [Field K] [LinearOrder K] [IsStrictOrderedRing K] [FloorRing K] [Scalar K] [LawfulScalar K]

/-- radial part of `CircleSegment::winding` (needs no trigonometry, holds for whatever `atan2`, `fmod`, `pi` are):
    the value is `0` or `1`, and `1` only strictly between the two circles (the radii in either order) -/
theorem cseg_winding_radial (s : CircleSegment K) (p : Point K) :
    (s.winding p = 0 ∨ s.winding p = 1) ∧
    (s.winding p = 1 →
      (s.inner_radius ^ 2 < (p.x - s.center.x) ^ 2 + (p.y - s.center.y) ^ 2 ∧
        (p.x - s.center.x) ^ 2 + (p.y - s.center.y) ^ 2 < s.outer_radius ^ 2) ∨
      (s.outer_radius ^ 2 < (p.x - s.center.x) ^ 2 + (p.y - s.center.y) ^ 2 ∧
        (p.x - s.center.x) ^ 2 + (p.y - s.center.y) ^ 2 < s.inner_radius ^ 2)) := by
  have e : (p.x - s.center.x) * (p.x - s.center.x) + (p.y - s.center.y) * (p.y - s.center.y)
      = (p.x - s.center.x) ^ 2 + (p.y - s.center.y) ^ 2 := by ring
  unfold CircleSegment.winding
  simp only [Vec2.hypot2, Vec2.dot, point_sub, scalar_norm, Bool.or_eq_true, Bool.and_eq_true, decide_eq_true_eq, e]
  constructor
  · split_ifs <;> first | exact Or.inl rfl | exact Or.inr rfl
  · split_ifs
    all_goals first
      | (intro h; exact absurd h (by decide))
      | (intro _; rcases ‹(_ ∧ _) ∨ (_ ∧ _)› with h | h
         · exact Or.inl ⟨h.2, h.1⟩
         · exact Or.inr ⟨h.2, h.1⟩)

/-- for non-negative radii the points counted by `winding` lie in `CircleSegment::bounding_box` (the box of the larger
    circle; it is NOT tight for a proper sector, and kurbo does not claim so) -/
theorem cseg_bbox_contains (s : CircleSegment K) (hi : 0 ≤ s.inner_radius) (ho : 0 ≤ s.outer_radius) (p : Point K)
    (h : s.winding p = 1) : s.bounding_box.ContainsClosed p := by
  have hb : s.bounding_box = ⟨s.center.x - max s.inner_radius s.outer_radius, s.center.y - max s.inner_radius s.outer_radius,
      s.center.x + max s.inner_radius s.outer_radius, s.center.y + max s.inner_radius s.outer_radius⟩ := by
    simp only [CircleSegment.bounding_box, kdefs, scalar_norm]
  have hR : 0 ≤ max s.inner_radius s.outer_radius := le_trans hi (le_max_left _ _)
  have hd : (p.x - s.center.x) ^ 2 + (p.y - s.center.y) ^ 2 ≤ max s.inner_radius s.outer_radius ^ 2 := by
    rcases (cseg_winding_radial s p).2 h with ⟨_, h2⟩ | ⟨_, h2⟩
    · exact le_trans h2.le (pow_le_pow_left₀ ho (le_max_right _ _) 2)
    · exact le_trans h2.le (pow_le_pow_left₀ hi (le_max_left _ _) 2)
  have hx : (p.x - s.center.x) ^ 2 ≤ max s.inner_radius s.outer_radius ^ 2 := by
    nlinarith [sq_nonneg (p.y - s.center.y)]
  have hy : (p.y - s.center.y) ^ 2 ≤ max s.inner_radius s.outer_radius ^ 2 := by
    nlinarith [sq_nonneg (p.x - s.center.x)]
  obtain ⟨a1, a2⟩ := abs_le_of_sq_le_sq' hx hR
  obtain ⟨b1, b2⟩ := abs_le_of_sq_le_sq' hy hR
  rw [hb]
  exact ⟨by simp only; linarith, by simp only; linarith, by simp only; linarith, by simp only; linarith⟩

/-- `area = ½·|R² − r²|·sweep`, `perimeter = 2|R − r| + sweep·(r + R)`: the formulas of the ideal annular sector for
    a non-negative sweep angle -/
theorem cseg_area_perimeter_eq (s : CircleSegment K) :
    s.area = 1 / 2 * |s.outer_radius ^ 2 - s.inner_radius ^ 2| * s.sweep_angle ∧
    s.perimeter = 2 * |s.outer_radius - s.inner_radius| + s.sweep_angle * (s.inner_radius + s.outer_radius) := by
  constructor
  · simp only [CircleSegment.area, scalar_norm]; push_cast; rfl
  · simp only [CircleSegment.perimeter, scalar_norm]; push_cast; rfl

end circleSegment

/-! ### the whole test over ℝ -/
section circleSegmentReal
open Real
variable [Scalar ℝ] [LawfulScalar ℝ] [LawfulReal] [LawfulRealAngle]

/-- **`CircleSegment::winding` is membership in the annular sector** (ℝ; `atan2 = Complex.arg`, `%` = C `fmod`,
    `Scalar.pi = π`): the value is `1` exactly when the point lies strictly between the two circles and its direction
    from the centre is `start + σ·θ` for some `θ ∈ [0, |sweep|]`, `σ = ±1` the sign of the sweep (`signum`, so `σ = 1`
    for a zero sweep).  No restriction on `start`, on the size of the sweep, or on ranges crossing `±π`. -/
theorem cseg_winding_iff_sector (s : CircleSegment ℝ) (p : Point ℝ) :
    s.winding p = 1 ↔
      ((s.inner_radius ^ 2 < (p.x - s.center.x) ^ 2 + (p.y - s.center.y) ^ 2 ∧
          (p.x - s.center.x) ^ 2 + (p.y - s.center.y) ^ 2 < s.outer_radius ^ 2) ∨
        (s.outer_radius ^ 2 < (p.x - s.center.x) ^ 2 + (p.y - s.center.y) ^ 2 ∧
          (p.x - s.center.x) ^ 2 + (p.y - s.center.y) ^ 2 < s.inner_radius ^ 2)) ∧
      ∃ θ : ℝ, 0 ≤ θ ∧ θ ≤ |s.sweep_angle| ∧
        p.x - s.center.x = √((p.x - s.center.x) ^ 2 + (p.y - s.center.y) ^ 2)
          * cos (s.start_angle + (if s.sweep_angle < 0 then -1 else 1) * θ) ∧
        p.y - s.center.y = √((p.x - s.center.x) ^ 2 + (p.y - s.center.y) ^ 2)
          * sin (s.start_angle + (if s.sweep_angle < 0 then -1 else 1) * θ) := by
  rw [CircleSegment.winding_eq_one_iff_real]
  set z : ℂ := ⟨p.x - s.center.x, p.y - s.center.y⟩ with hz
  have hnorm : √((p.x - s.center.x) ^ 2 + (p.y - s.center.y) ^ 2) = ‖z‖ := (Complex.norm_eq_sqrt_sq_add_sq z).symm
  rw [hnorm]
  obtain ⟨σ, hσ, hcast⟩ : ∃ σ : ℤ, (σ = 1 ∨ σ = -1) ∧ ((σ : ℝ) = if s.sweep_angle < 0 then (-1 : ℝ) else 1) := by
    by_cases h : s.sweep_angle < 0
    · exact ⟨-1, Or.inr rfl, by rw [if_pos h]; norm_num⟩
    · exact ⟨1, Or.inl rfl, by rw [if_neg h]; norm_num⟩
  rw [← hcast]
  constructor
  · rintro ⟨hle, hrad⟩
    obtain ⟨h0, _, _⟩ := redAngle_spec ((Complex.arg z - s.start_angle) * σ)
    obtain ⟨hc, hs⟩ := redAngle_direction z s.start_angle σ hσ
    exact ⟨hrad, _, h0, hle, hc.symm, hs.symm⟩
  · rintro ⟨hrad, θ, h0, h1, hx, hy⟩
    refine ⟨le_trans (redAngle_le_of_direction z ?_ s.start_angle θ σ hσ h0 hx hy) h1, hrad⟩
    intro hz0
    have hre : p.x - s.center.x = 0 := by have := congrArg Complex.re hz0; simpa [hz] using this
    have him : p.y - s.center.y = 0 := by have := congrArg Complex.im hz0; simpa [hz] using this
    rw [hre, him] at hrad
    rcases hrad with ⟨h, _⟩ | ⟨h, _⟩
    · nlinarith [sq_nonneg s.inner_radius]
    · nlinarith [sq_nonneg s.outer_radius]

end circleSegmentReal
end Kurbo

/-! ## non-vacuity: concrete inputs meeting the hypotheses (over `Rat`, the scalar the driver executes) -/
namespace Kurbo
namespace C11Examples
open PathEl

/-- a rectangle with reversed x axis -/
def rRev : Rect Rat := ⟨3, 1, 0, 2⟩
-- 1: inside (negative orientation), outside, and the boundary points: low edges/corner are in, high edges are out,
-- in the closed form and in the outline alike
example : pathWinding rRev.path_elements ⟨1, 3/2⟩ = some (-1) ∧ rRev.winding ⟨1, 3/2⟩ = -1 := by decide +kernel
example : pathWinding rRev.path_elements ⟨0, 1⟩ = some (-1) ∧ rRev.winding ⟨0, 1⟩ = -1 ∧
    pathWinding rRev.path_elements ⟨3, 1⟩ = some 0 ∧ rRev.winding ⟨3, 1⟩ = 0 ∧
    pathWinding rRev.path_elements ⟨1, 2⟩ = some 0 ∧ rRev.winding ⟨1, 2⟩ = 0 ∧
    pathWinding rRev.path_elements ⟨0, 3/2⟩ = some (-1) ∧ rRev.winding ⟨0, 3/2⟩ = -1 := by decide +kernel
example : rRev.abs.contains ⟨1, 3/2⟩ = true ∧ pathArea rRev.path_elements = some (-3) ∧ rRev.area = -3 ∧
    rRev.perimeter 0 = 8 ∧ pathBoundingBox rRev.path_elements = some ⟨0, 1, 3, 2⟩ := by decide +kernel
-- a degenerate rectangle (zero height): the closing edge is not even emitted; still equal
example : pathWinding (⟨0, 1, 2, 1⟩ : Rect Rat).path_elements ⟨1, 1⟩ = some 0 ∧ (⟨0, 1, 2, 1⟩ : Rect Rat).winding ⟨1, 1⟩ = 0 := by
  decide +kernel
-- `rect_winding_eq_contains`: ordered corners
example : (⟨0, 1, 3, 2⟩ : Rect Rat).Nonneg := by norm_num [Rect.Nonneg]
-- tiling: the grid lines 0,1,2,… ; hypotheses of `interval_tiling`, `rect_grid_tiling`
example : Monotone (fun i : ℕ => (i : Rat)) := Nat.mono_cast
example : ((fun i : ℕ => (i : Rat)) 0 ≤ 5/2 ∧ (5/2 : Rat) < (fun i : ℕ => (i : Rat)) 4) ∧
    ((fun i : ℕ => (i : Rat)) 2 ≤ 5/2 ∧ (5/2 : Rat) < (fun i : ℕ => (i : Rat)) (2 + 1)) := by norm_num
example : (⟨0, 0, 4, 3⟩ : Rect Rat).winding ⟨2, 1⟩ ≠ 0 ∧ (⟨2, 1, 3, 2⟩ : Rect Rat).winding ⟨2, 1⟩ ≠ 0 ∧
    (⟨1, 1, 2, 2⟩ : Rect Rat).winding ⟨2, 1⟩ = 0 ∧ (⟨2, 0, 3, 1⟩ : Rect Rat).winding ⟨2, 1⟩ = 0 ∧
    (⟨1, 0, 2, 1⟩ : Rect Rat).winding ⟨2, 1⟩ = 0 := by decide +kernel
-- `rect_tiling_horizontal` / `_vertical`: a point ON the shared edge goes to the right-hand / lower tile only
example : (0 : Rat) ≤ 1 ∧ (1 : Rat) ≤ 3 ∧ (0 : Rat) ≤ 2 := by norm_num
example : (⟨0, 0, 1, 2⟩ : Rect Rat).winding ⟨1, 1⟩ = 0 ∧ (⟨1, 0, 3, 2⟩ : Rect Rat).winding ⟨1, 1⟩ = 1 ∧
    (⟨0, 0, 3, 2⟩ : Rect Rat).winding ⟨1, 1⟩ = 1 := by decide +kernel

/-- counter-clockwise and clockwise triangles; the row `y = 0` passes through two vertices -/
def tri : Triangle Rat := ⟨⟨0, 0⟩, ⟨4, 0⟩, ⟨0, 4⟩⟩
def triCw : Triangle Rat := ⟨⟨0, 0⟩, ⟨0, 4⟩, ⟨4, 0⟩⟩
example : pathWinding tri.path_elements ⟨1, 1⟩ = some 1 ∧ tri.winding ⟨1, 1⟩ = 1 ∧
    pathWinding triCw.path_elements ⟨1, 1⟩ = some (-1) ∧ triCw.winding ⟨1, 1⟩ = -1 ∧
    pathWinding tri.path_elements ⟨-1, 0⟩ = some 0 ∧ tri.winding ⟨-1, 0⟩ = 0 ∧
    pathWinding tri.path_elements ⟨5, 0⟩ = some 0 ∧ tri.winding ⟨5, 0⟩ = 0 := by decide +kernel
example : pathArea tri.path_elements = some 8 ∧ tri.area = 8 ∧ triCw.area = -8 ∧
    pathBoundingBox tri.path_elements = some ⟨0, 0, 4, 4⟩ ∧ tri.bounding_box = ⟨0, 0, 4, 4⟩ := by decide +kernel

-- hypotheses of `triangle_winding_eq_path_winding` for `tri` and the point `(−1, 0)` ON the supporting line of the
-- edge `a b` (whose row passes through two vertices) but off the edge
example : ¬ OnSeg (.Line ⟨tri.a, tri.b⟩) ⟨-1, 0⟩ ∧ ¬ OnSeg (.Line ⟨tri.b, tri.c⟩) ⟨-1, 0⟩ ∧
    ¬ OnSeg (.Line ⟨tri.c, tri.a⟩) ⟨-1, 0⟩ := by
  refine ⟨notOnSeg_of _ _ _ ?_, notOnSeg_of _ _ _ ?_, notOnSeg_of _ _ _ ?_⟩ <;>
    (intro t h0 h1 hx hy; simp only [tri] at hx hy; linarith)
example : ¬ ((tri.b - tri.a).cross ((⟨-1, 0⟩ : Point Rat) - tri.a) = 0 ∧
    (tri.c - tri.b).cross ((⟨-1, 0⟩ : Point Rat) - tri.b) = 0 ∧
    (tri.a - tri.c).cross ((⟨-1, 0⟩ : Point Rat) - tri.c) = 0) := by decide +kernel
example : tri.area ≠ 0 := by decide +kernel

/-- **the excluded case is real** (design finding (n)): a DEGENERATE triangle and a point of its supporting line that
    lies on none of its edges – the closed form says `1` (three times `signum(0) = 1`), the outline says `0`.  This is
    outside the property's quantifier ("both orientations": a zero-area triangle has none); the hypothesis `hnd` of
    `triangle_winding_eq_path_winding` is exactly what excludes it. -/
def triDeg : Triangle Rat := ⟨⟨1, 1⟩, ⟨2, 2⟩, ⟨3, 3⟩⟩
example : triDeg.winding ⟨0, 0⟩ = 1 ∧ pathWinding triDeg.path_elements ⟨0, 0⟩ = some 0 ∧ triDeg.area = 0 := by
  decide +kernel
example : ¬ OnSeg (.Line ⟨triDeg.a, triDeg.b⟩) ⟨0, 0⟩ ∧ ¬ OnSeg (.Line ⟨triDeg.b, triDeg.c⟩) ⟨0, 0⟩ ∧
    ¬ OnSeg (.Line ⟨triDeg.c, triDeg.a⟩) ⟨0, 0⟩ := by
  refine ⟨notOnSeg_of _ _ _ ?_, notOnSeg_of _ _ _ ?_, notOnSeg_of _ _ _ ?_⟩ <;>
    (intro t h0 h1 hx hy; simp only [triDeg] at hx hy; linarith)
example : (triDeg.b - triDeg.a).cross ((⟨0, 0⟩ : Point Rat) - triDeg.a) = 0 ∧
    (triDeg.c - triDeg.b).cross ((⟨0, 0⟩ : Point Rat) - triDeg.b) = 0 ∧
    (triDeg.a - triDeg.c).cross ((⟨0, 0⟩ : Point Rat) - triDeg.c) = 0 := by decide +kernel

/-- reversed corners, a negative radius, one beyond half the side, a zero one -/
def rr : RoundedRect Rat := RoundedRect.from_rect ⟨4, 2, 0, 0⟩ ⟨1, 5, -1, 0⟩
example : rr.rect = ⟨0, 0, 4, 2⟩ ∧ rr.radii.top_left = 1 ∧ rr.radii.top_right = 1 ∧ rr.radii.bottom_right = 1 ∧
    rr.radii.bottom_left = 0 := by decide +kernel
example : rr.rect.Nonneg ∧ rr.RadiiOk := ⟨(from_rect_normalises _ _).2.1, (from_rect_normalises _ _).2.2⟩
example : (⟨⟨0, 0, 4, 2⟩, ⟨1, 1/2, 1, 0⟩⟩ : RoundedRect Rat).rect.Nonneg ∧
    (⟨⟨0, 0, 4, 2⟩, ⟨1, 1/2, 1, 0⟩⟩ : RoundedRect Rat).RadiiOk := by
  norm_num [Rect.Nonneg, RoundedRect.RadiiOk]
-- centre, a point of the top-left corner square outside the disc, one inside the disc, the square bottom-left corner
-- itself (radius 0), a point on the rounded boundary
example : rr.winding ⟨2, 1⟩ = 1 ∧ rr.winding ⟨1/10, 1/10⟩ = 0 ∧ rr.winding ⟨1/2, 1/2⟩ = 1 ∧ rr.winding ⟨0, 2⟩ = 1 ∧
    rr.winding ⟨4, 1⟩ = 1 ∧ rr.winding ⟨1 - 3/5, 1 - 4/5⟩ = 1 ∧ rr.winding ⟨5, 1⟩ = 0 := by decide +kernel
-- `roundedRect_ideal_uniform` / `roundedRect_inside_iff_ideal`
example : (⟨0, 0, 4, 2⟩ : Rect Rat).Nonneg ∧ (0 : Rat) ≤ 1 ∧ (2 * 1 : Rat) ≤ 4 - 0 ∧ (2 * 1 : Rat) ≤ 2 - 0 := by
  norm_num [Rect.Nonneg]

/-- a circle stored with a negative radius -/
def circ : Circle Rat := ⟨⟨1, 1⟩, -2⟩
example : circ.winding ⟨2, 2⟩ = 1 ∧ circ.winding ⟨3, 1⟩ = 0 ∧ circ.winding ⟨4, 1⟩ = 0 ∧
    circ.bounding_box = ⟨-1, -1, 3, 3⟩ := by decide +kernel

/-- an ellipse whose stored map has rational column norms: `3² + 4² = 5²`, `5² + 12² = 13²`, `det = 16` -/
def ell : Ellipse Rat := ⟨⟨3, 5, 4, 12, 1, -1⟩⟩
example : ell.inner.determinant ≠ 0 := by decide +kernel
example : SqrtExact (ell.inner.c0 * ell.inner.c0 + ell.inner.c2 * ell.inner.c2) ∧
    SqrtExact (ell.inner.c1 * ell.inner.c1 + ell.inner.c3 * ell.inner.c3) := by
  unfold SqrtExact; decide +kernel
example : ell.bounding_box = ⟨-4, -14, 6, 12⟩ ∧ ell.winding ⟨1, -1⟩ = 1 ∧ ell.winding ⟨6, 12⟩ = 0 := by decide +kernel
example : ((3/5 : Rat)) ^ 2 + (4/5 : Rat) ^ 2 ≤ 1 ∧ (ell.inner * (⟨3/5, 4/5⟩ : Point Rat)).x = 6 := by decide +kernel

-- the global square-root law (`ellipse_area_eq`) and the Euclidean `hypot` (`rect_perimeter_eq_outline_arclen`,
-- `triangle_perimeter_eq_outline_arclen`) hold for ℝ with Mathlib's functions
example : letI := realScalar; ∀ x : ℝ, 0 ≤ x → SqrtExact x := by
  intro x hx
  exact ⟨Real.sqrt_nonneg x, Real.mul_self_sqrt hx⟩
example : @HypotLaw ℝ _ _ realScalar := by
  intro x y
  refine ⟨Real.sqrt_nonneg _, ?_⟩
  show Real.sqrt (x * x + y * y) ^ 2 = _
  rw [Real.sq_sqrt (add_nonneg (mul_self_nonneg x) (mul_self_nonneg y))]; ring

example : @LawfulScalar ℝ _ _ _ _ realScalar ∧ @LawfulReal realScalar ∧ @LawfulRealAngle realScalar :=
  ⟨realScalar_lawful, realScalar_lawfulReal, realScalar_lawfulRealAngle⟩

/-- `atan2 ≡ 0` on `Rat`: the angular test passes for a sweep of 1, the radial part decides -/
def cseg : CircleSegment Rat := ⟨⟨0, 0⟩, 2, 1, 0, 1⟩
example : cseg.winding ⟨3/2, 0⟩ = 1 ∧ cseg.winding ⟨1/2, 0⟩ = 0 ∧ cseg.winding ⟨2, 0⟩ = 0 ∧
    (0 : Rat) ≤ cseg.inner_radius ∧ (0 : Rat) ≤ cseg.outer_radius ∧ cseg.bounding_box = ⟨-2, -2, 2, 2⟩ := by decide +kernel

/-- a line -/
example : pathBoundingBox (⟨⟨3, 0⟩, ⟨1, 2⟩⟩ : Line Rat).path_elements = some ⟨1, 0, 3, 2⟩ := by decide +kernel

end C11Examples
end Kurbo
