import Mathlib.Tactic.Attr.Register
/-- simp set rewriting `Scalar` operations of a lawful scalar into ordinary field arithmetic -/
register_simp_attr scalar_norm
/-- simp set unfolding the kernel model (structure-level helpers: operators, constructors, projections) -/
register_simp_attr kdefs
