import Proofs.C01
import Proofs.C05
import Proofs.C09
import Proofs.C15
import Proofs.C17
import Proofs.Lemmas.Glue
/-! # Glue – theorems that combine property files so that hypotheses disappear

Several property files state a theorem under a hypothesis that is exactly what another property file proves.  Here the
two sides are put together.  Helper lemmas: `Proofs/Lemmas/Glue.lean` (prefix `glue_`).

## Proved

**C09 × C17 (× C15)** – ℝ, any `Scalar ℝ` structure with `LawfulScalar`, `LawfulReal` (C15: the real
`sqrt cbrt sin cos atan2`) and `LawfulPowf` (C17: `powf x y = x^y`, `x as usize = min ⌊x⌋₊ (2⁶⁴−1)`).  One structure
meets all of them: `glue_realScalar` (`lawClasses_inhabited`).
* `toQuadsWithin_real` – the hypothesis `ToQuadsWithin c a` of C09 is a theorem (from C17's `toQuadsN_sufficient` +
  `toQuads_error_bound` through C09's `toQuadsWithin_of_squared_bound`), for `a > 0` and C17's non-saturation side
  condition `(|D|²/(432a²))^(1/6) ≤ 2⁶⁴−1`, `D = p3 − 3p2 + 3p1 − p0`.
* `cubic_nearest_within_unconditional` – the conclusion of C09's `cubic_nearest_within_real` (`t ∈ [0,1]`,
  `|√distance_sq − dist(p, cubic)| ≤ a`, `|p − c(t)| ≤ dist(p, cubic) + 2a`) with NO `ToQuadsWithin` and NO solver
  hypothesis: for every cubic, every point, every `a > 0` under the non-saturation side condition.
  `cubic_nearest_within_unconditional'` – the same with the side condition in polynomial form
  `|D|² ≤ 432·a²·(2⁶⁴−1)⁶` (no real power).
* `pathSeg_nearest_within_unconditional` (`'`) – the property text of C09 for every `PathSeg` (line, quadratic, cubic);
  the side condition is asked for cubic segments only.

**C01 × C15** – ℝ, `LawfulScalar` + `LawfulReal`:
* `windingInner_quad_monotone_unconditional`, `windingInner_cubic_monotone_unconditional` – C01's
  `windingInner_quad_monotone` / `windingInner_cubic_monotone` without the solver hypothesis `hsolve`; the geometric
  hypotheses (y injective on [0,1], `tS ∈ [0,1]` with `y(tS) = p.y`) stay.  `hsolve` comes from C15
  (`solveQuadratic_spec_real`, `solveCubic_mem_iff`, `solveCubic_of_c3_zero`); the "not the zero polynomial" side
  condition of C15 follows from injectivity (`glue_quad_poly_nonzero`, `glue_cubic_poly_nonzero`: a constant `y(t)` is
  not injective), so no row hypothesis is needed.
* `windingInner_quad_monotone_real_unconditional` – C01's `windingInner_quad_monotone_real` (strictly monotone `y`,
  `p.y` in the half-open row: the crossing parameter exists, is unique, and is counted) without `hsolve`;
  `windingInner_cubic_monotone_real_unconditional` – the cubic analogue (C01 has no such statement; proved here the
  same way from `cubic_row_root_exists`).
  `windingInner_quad_hsolve`, `windingInner_cubic_hsolve` are the discharged hypotheses themselves.

**C05 × C17** – ℝ, `LawfulScalar` + `LawfulSqrt` (C05) + `LawfulPowf` (C17):
* `cubic_flatten_vertices_near_cubic` – every vertex that `flattenCubic c tol s` (`s ≥ 0`, `tol > 0`) emits before the
  stored end point is `quad.eval t` of a piece `(t0, t1, quad)` of `to_quads(tol·0.1)` (written `c.to_quads (tol / 10)`;
  `glue_toQuadTol_eq` identifies it with the model's argument) with `t ∈ [0,1)`, groups in the
  order of the pieces, and lies within `tol/10` of the cubic at the corresponding parameter `t0 + t·(t1 − t0)`
  (Euclidean distance `≤ tol/10`), under the non-saturation side condition for accuracy `tol/10`; `'`: polynomial side
  condition.  `flatten_curveTo_vertices_near_cubic` – the same for the run `flatten` emits for a `CurveTo` element
  (`sqrt_tol = √tol ≥ 0` is discharged there).

## NOT proved
* The non-saturation side condition remains (it is a real restriction: when `as usize` saturates the piece count is
  too small and C17's bound is lost), as does `a > 0` (for `a = 0` the piece count divides by zero and C17 proves
  nothing; C09's `pathSeg_nearest_within_real` allows `a = 0`, the glued theorems do not).
* No single `Scalar ℝ` meets *all* law classes of the project: C17's `LawfulPowf` (saturating `as usize`) contradicts
  C10's `LawfulCount` / C15-ITP's `LawfulRealLog` (non-saturating) – `glue_lawfulPowf_not_lawfulCount`.  The glue
  theorems only use classes that are jointly satisfiable, and say so by exhibiting `glue_realScalar`.
* Curved paths as a whole in C01 (tiling of the rows by `extrema_ranges`, homotopy to a polygon) are still open; only
  the solver hypothesis of the single-piece theorems is discharged.
* C05 × C17 gives the distance of each flatten *vertex* to the cubic; the chord–curve flattening error is not claimed
  (not claimed by C05 either).
* Nothing about `Float`. -/
set_option linter.unusedSectionVars false
namespace Kurbo
open C09

/-- the law classes used by the glue theorems are met by ONE `Scalar ℝ` structure -/
theorem lawClasses_inhabited : ∃ inst : Scalar ℝ, @LawfulScalar ℝ _ _ _ _ inst ∧ @LawfulReal inst ∧ @LawfulPowf inst ∧
    @LawfulSqrt inst ∧ @LawfulHypot ℝ _ _ inst ∧ @LawfulHypotR inst :=
  ⟨glue_realScalar, glue_realScalar_lawful, glue_realScalar_lawfulReal, glue_realScalar_lawfulPowf,
    glue_realScalar_lawfulSqrt, glue_realScalar_lawfulHypot, glue_realScalar_lawfulHypotR⟩

/-! ## 1. C09 × C17: `nearest` on cubics without the `to_quads` hypothesis -/
section nearest
variable [Scalar ℝ] [LawfulScalar ℝ]

/-- C09's hypothesis `ToQuadsWithin` from C17 -/
theorem toQuadsWithin_real [LawfulPowf] (c : CubicBez ℝ) (a : ℝ) (ha : 0 < a)
    (hsat : (((c.p3.x - 3 * c.p2.x + 3 * c.p1.x - c.p0.x) ^ 2
        + (c.p3.y - 3 * c.p2.y + 3 * c.p1.y - c.p0.y) ^ 2) / (432 * a ^ 2)) ^ ((1 : ℝ) / 6) ≤ 2 ^ 64 - 1) :
    ToQuadsWithin c a :=
  toQuadsWithin_of_squared_bound c a ha.le fun i p hp s hs0 hs1 =>
    toQuads_error_bound c a (toQuadsN_sufficient c a ha.ne' hsat) i p hp s hs0 hs1

/-- **`CubicBez::nearest` is within the accuracy** – no `to_quads` hypothesis, no solver hypothesis -/
theorem cubic_nearest_within_unconditional [LawfulReal] [LawfulPowf] (c : CubicBez ℝ) (p : Point ℝ) (a : ℝ)
    (ha : 0 < a)
    (hsat : (((c.p3.x - 3 * c.p2.x + 3 * c.p1.x - c.p0.x) ^ 2
        + (c.p3.y - 3 * c.p2.y + 3 * c.p1.y - c.p0.y) ^ 2) / (432 * a ^ 2)) ^ ((1 : ℝ) / 6) ≤ 2 ^ 64 - 1) :
    0 ≤ (c.nearest p a).t ∧ (c.nearest p a).t ≤ 1 ∧
    |Real.sqrt (c.nearest p a).distance_sq - curveDist c.eval p| ≤ a ∧
    pdist p (c.eval (c.nearest p a).t) ≤ curveDist c.eval p + 2 * a :=
  cubic_nearest_within_real c p a (toQuadsWithin_real c a ha hsat)

/-- the same, side condition without the sixth root: `|D|² ≤ 432·a²·(2⁶⁴−1)⁶` -/
theorem cubic_nearest_within_unconditional' [LawfulReal] [LawfulPowf] (c : CubicBez ℝ) (p : Point ℝ) (a : ℝ)
    (ha : 0 < a)
    (hsat : (c.p3.x - 3 * c.p2.x + 3 * c.p1.x - c.p0.x) ^ 2 + (c.p3.y - 3 * c.p2.y + 3 * c.p1.y - c.p0.y) ^ 2
        ≤ 432 * a ^ 2 * (2 ^ 64 - 1) ^ 6) :
    0 ≤ (c.nearest p a).t ∧ (c.nearest p a).t ≤ 1 ∧
    |Real.sqrt (c.nearest p a).distance_sq - curveDist c.eval p| ≤ a ∧
    pdist p (c.eval (c.nearest p a).t) ≤ curveDist c.eval p + 2 * a :=
  cubic_nearest_within_unconditional c p a ha (glue_sat_of_poly _ a (by positivity) ha.ne' hsat)

/-- **the property text of C09 for every segment kind**; the side condition concerns cubic segments only -/
theorem pathSeg_nearest_within_unconditional [LawfulReal] [LawfulPowf] (s : PathSeg ℝ) (p : Point ℝ) (a : ℝ)
    (ha : 0 < a)
    (hsat : ∀ c, s = .Cubic c → (((c.p3.x - 3 * c.p2.x + 3 * c.p1.x - c.p0.x) ^ 2
        + (c.p3.y - 3 * c.p2.y + 3 * c.p1.y - c.p0.y) ^ 2) / (432 * a ^ 2)) ^ ((1 : ℝ) / 6) ≤ 2 ^ 64 - 1) :
    0 ≤ (s.nearest p a).t ∧ (s.nearest p a).t ≤ 1 ∧
    |Real.sqrt (s.nearest p a).distance_sq - curveDist s.eval p| ≤ a ∧
    pdist p (s.eval (s.nearest p a).t) ≤ curveDist s.eval p + 2 * a :=
  pathSeg_nearest_within_real s p a ha.le fun c hc => toQuadsWithin_real c a ha (hsat c hc)

theorem pathSeg_nearest_within_unconditional' [LawfulReal] [LawfulPowf] (s : PathSeg ℝ) (p : Point ℝ) (a : ℝ)
    (ha : 0 < a)
    (hsat : ∀ c, s = .Cubic c →
      (c.p3.x - 3 * c.p2.x + 3 * c.p1.x - c.p0.x) ^ 2 + (c.p3.y - 3 * c.p2.y + 3 * c.p1.y - c.p0.y) ^ 2
        ≤ 432 * a ^ 2 * (2 ^ 64 - 1) ^ 6) :
    0 ≤ (s.nearest p a).t ∧ (s.nearest p a).t ≤ 1 ∧
    |Real.sqrt (s.nearest p a).distance_sq - curveDist s.eval p| ≤ a ∧
    pdist p (s.eval (s.nearest p a).t) ≤ curveDist s.eval p + 2 * a :=
  pathSeg_nearest_within_unconditional s p a ha fun c hc =>
    glue_sat_of_poly _ a (by positivity) ha.ne' (hsat c hc)

end nearest

/-- non-vacuity: the instance exists and a genuinely cubic curve (`D = (−2, 0) ≠ 0`) with `a = 1/20` meets both forms of
    the side condition -/
example : ∃ (_ : Scalar ℝ) (_ : LawfulScalar ℝ) (_ : LawfulReal) (_ : LawfulPowf),
    let c : CubicBez ℝ := ⟨⟨0, 0⟩, ⟨1, 2⟩, ⟨3, 2⟩, ⟨4, 0⟩⟩
    (0 : ℝ) < 1 / 20 ∧
    ((c.p3.x - 3 * c.p2.x + 3 * c.p1.x - c.p0.x) ^ 2 + (c.p3.y - 3 * c.p2.y + 3 * c.p1.y - c.p0.y) ^ 2
        ≤ 432 * (1 / 20 : ℝ) ^ 2 * (2 ^ 64 - 1) ^ 6) ∧
    (((c.p3.x - 3 * c.p2.x + 3 * c.p1.x - c.p0.x) ^ 2
        + (c.p3.y - 3 * c.p2.y + 3 * c.p1.y - c.p0.y) ^ 2) / (432 * (1 / 20 : ℝ) ^ 2)) ^ ((1 : ℝ) / 6) ≤ 2 ^ 64 - 1 := by
  refine ⟨glue_realScalar, glue_realScalar_lawful, glue_realScalar_lawfulReal, glue_realScalar_lawfulPowf, ?_⟩
  have h : ((4 : ℝ) - 3 * 3 + 3 * 1 - 0) ^ 2 + ((0 : ℝ) - 3 * 2 + 3 * 2 - 0) ^ 2
      ≤ 432 * (1 / 20 : ℝ) ^ 2 * (2 ^ 64 - 1) ^ 6 := by norm_num
  exact ⟨by norm_num, h, glue_sat_of_poly _ _ (by positivity) (by norm_num) h⟩

/-- … so the conclusion holds for that cubic, every query point, in the instance `glue_realScalar` -/
example (p : Point ℝ) : letI := glue_realScalar
    let c : CubicBez ℝ := ⟨⟨0, 0⟩, ⟨1, 2⟩, ⟨3, 2⟩, ⟨4, 0⟩⟩
    |Real.sqrt (c.nearest p (1 / 20)).distance_sq - curveDist c.eval p| ≤ 1 / 20 := by
  let _ := glue_realScalar
  have := glue_realScalar_lawful
  have := glue_realScalar_lawfulReal
  have := glue_realScalar_lawfulPowf
  exact (cubic_nearest_within_unconditional' _ p (1 / 20) (by norm_num) (by norm_num)).2.2.1

/-! ## 2. C01 × C15: `winding_inner` on a y-injective curved piece without the solver hypothesis -/
section winding
variable [Scalar ℝ] [LawfulScalar ℝ] [LawfulReal]

/-- the solver behaviour that C01 takes as hypothesis `hsolve`, quadratic branch – from C15 -/
theorem windingInner_quad_hsolve (q : QuadBez ℝ) (p : Point ℝ)
    (hinj : Set.InjOn (fun t => (q.eval t).y) (Set.Icc 0 1)) (x : ℝ) :
    x ∈ solveQuadratic (q.p0.y - p.y) (2 * (q.p1.y - q.p0.y)) (q.p2.y - 2 * q.p1.y + q.p0.y) ↔
      (q.p0.y - p.y) + (2 * (q.p1.y - q.p0.y)) * x + (q.p2.y - 2 * q.p1.y + q.p0.y) * x ^ 2 = 0 :=
  (solveQuadratic_spec_real _ _ _ (glue_quad_poly_nonzero q p hinj)).1 x

/-- the solver behaviour that C01 takes as hypothesis `hsolve`, cubic branch – from C15 (`solveCubic_mem_iff` when the
    leading coefficient does not vanish, `solveCubic_of_c3_zero` + `solveQuadratic_spec_real` when it does) -/
theorem windingInner_cubic_hsolve (c : CubicBez ℝ) (p : Point ℝ)
    (hinj : Set.InjOn (fun t => (c.eval t).y) (Set.Icc 0 1)) (x : ℝ) :
    x ∈ solveCubic (c.p0.y - p.y) (3 * (c.p1.y - c.p0.y)) (3 * (c.p2.y - 2 * c.p1.y + c.p0.y))
          (c.p3.y - 3 * c.p2.y + 3 * c.p1.y - c.p0.y) ↔
      (c.p0.y - p.y) + (3 * (c.p1.y - c.p0.y)) * x + (3 * (c.p2.y - 2 * c.p1.y + c.p0.y)) * x ^ 2
        + (c.p3.y - 3 * c.p2.y + 3 * c.p1.y - c.p0.y) * x ^ 3 = 0 := by
  have hnz := glue_cubic_poly_nonzero c p hinj
  by_cases h3 : c.p3.y - 3 * c.p2.y + 3 * c.p1.y - c.p0.y = 0
  · rw [h3, solveCubic_of_c3_zero,
      (solveQuadratic_spec_real _ _ _ (fun hh => hnz ⟨hh.1, hh.2.1, hh.2.2, h3⟩)).1 x]
    constructor <;> intro e <;> linarith
  · exact solveCubic_mem_iff _ _ _ _ h3 x

/-- **quadratic piece, no solver hypothesis** (statement of C01's `windingInner_quad_monotone` minus `hsolve`) -/
theorem windingInner_quad_monotone_unconditional (q : QuadBez ℝ) (p : Point ℝ) (tS : ℝ)
    (hinj : Set.InjOn (fun t => (q.eval t).y) (Set.Icc 0 1))
    (h0 : 0 ≤ tS) (h1 : tS ≤ 1) (hy : (q.eval tS).y = p.y) :
    PathSeg.winding_inner (.Quad q) p = rowSign q.p0.y q.p2.y p.y * (if (q.eval tS).x ≤ p.x then 1 else 0) :=
  windingInner_quad_monotone q p tS (windingInner_quad_hsolve q p hinj) hinj h0 h1 hy

/-- **cubic piece, no solver hypothesis** (statement of C01's `windingInner_cubic_monotone` minus `hsolve`) -/
theorem windingInner_cubic_monotone_unconditional (c : CubicBez ℝ) (p : Point ℝ) (tS : ℝ)
    (hinj : Set.InjOn (fun t => (c.eval t).y) (Set.Icc 0 1))
    (h0 : 0 ≤ tS) (h1 : tS ≤ 1) (hy : (c.eval tS).y = p.y) :
    PathSeg.winding_inner (.Cubic c) p = rowSign c.p0.y c.p3.y p.y * (if (c.eval tS).x ≤ p.x then 1 else 0) :=
  windingInner_cubic_monotone c p tS (windingInner_cubic_hsolve c p hinj) hinj h0 h1 hy

/-- strictly y-monotone quadratic piece whose half-open row contains `p.y`: the crossing parameter exists, is unique
    and is counted – C01's `windingInner_quad_monotone_real` minus `hsolve` -/
theorem windingInner_quad_monotone_real_unconditional (q : QuadBez ℝ) (p : Point ℝ)
    (hmono : StrictMonoOn (fun t => (q.eval t).y) (Set.Icc 0 1) ∨ StrictAntiOn (fun t => (q.eval t).y) (Set.Icc 0 1))
    (hrow : q.p0.y ≤ p.y ∧ p.y < q.p2.y ∨ q.p2.y ≤ p.y ∧ p.y < q.p0.y) :
    ∃ tS : ℝ, 0 ≤ tS ∧ tS ≤ 1 ∧ (q.eval tS).y = p.y ∧ (∀ t, 0 ≤ t → t ≤ 1 → (q.eval t).y = p.y → t = tS) ∧
      PathSeg.winding_inner (.Quad q) p
        = (if q.p0.y < q.p2.y then -1 else 1) * (if (q.eval tS).x ≤ p.x then 1 else 0) :=
  windingInner_quad_monotone_real q p
    (fun x => (solveQuadratic_spec_real _ _ _ (quad_row_poly_nonzero q p hrow)).1 x) hmono hrow

/-- the cubic analogue (not stated in C01): strictly y-monotone cubic piece whose half-open row contains `p.y` – the
    crossing parameter exists (intermediate value theorem, `cubic_row_root_exists`), is unique and is counted; no
    solver hypothesis -/
theorem windingInner_cubic_monotone_real_unconditional (c : CubicBez ℝ) (p : Point ℝ)
    (hmono : StrictMonoOn (fun t => (c.eval t).y) (Set.Icc 0 1) ∨ StrictAntiOn (fun t => (c.eval t).y) (Set.Icc 0 1))
    (hrow : c.p0.y ≤ p.y ∧ p.y < c.p3.y ∨ c.p3.y ≤ p.y ∧ p.y < c.p0.y) :
    ∃ tS : ℝ, 0 ≤ tS ∧ tS ≤ 1 ∧ (c.eval tS).y = p.y ∧ (∀ t, 0 ≤ t → t ≤ 1 → (c.eval t).y = p.y → t = tS) ∧
      PathSeg.winding_inner (.Cubic c) p
        = (if c.p0.y < c.p3.y then -1 else 1) * (if (c.eval tS).x ≤ p.x then 1 else 0) := by
  have hinj : Set.InjOn (fun t => (c.eval t).y) (Set.Icc 0 1) := by
    rcases hmono with h | h
    · exact h.injOn
    · exact h.injOn
  obtain ⟨tS, h0, h1, hy⟩ := cubic_row_root_exists c p.y (by
    rcases hrow with h | h
    · exact Or.inl ⟨h.1, h.2.le⟩
    · exact Or.inr ⟨h.1, h.2.le⟩)
  refine ⟨tS, h0, h1, hy, ?_, ?_⟩
  · intro t ht0 ht1 hty
    exact hinj ⟨ht0, ht1⟩ ⟨h0, h1⟩ (by show (c.eval t).y = (c.eval tS).y; rw [hty, hy])
  · rw [windingInner_cubic_monotone_unconditional c p tS hinj h0 h1 hy]
    congr 1
    unfold rowSign
    rcases hrow with h | h
    · rw [if_pos h, if_pos (by linarith [h.1, h.2])]
    · rw [if_neg (by rintro ⟨c1, c2⟩; linarith [h.1, h.2]), if_pos h, if_neg (by linarith [h.1, h.2])]

end winding

/-- non-vacuity (ℝ): the instance exists; the quadratic `y(t) = t²`, `x(t) = 2t(1−t)` and the same curve degree-raised
    to a cubic (vanishing leading coefficient: the `solveCubic_of_c3_zero` path) are y-injective on [0,1], and the row
    `y = 1/4` is met at `tS = 1/2` -/
example : ∃ (_ : Scalar ℝ) (_ : LawfulScalar ℝ) (_ : LawfulReal),
    Set.InjOn (fun t => ((⟨⟨0, 0⟩, ⟨1, 0⟩, ⟨0, 1⟩⟩ : QuadBez ℝ).eval t).y) (Set.Icc 0 1) ∧
    ((⟨⟨0, 0⟩, ⟨1, 0⟩, ⟨0, 1⟩⟩ : QuadBez ℝ).eval (1 / 2)).y = 1 / 4 ∧
    Set.InjOn (fun t => ((⟨⟨0, 0⟩, ⟨2/3, 0⟩, ⟨2/3, 1/3⟩, ⟨0, 1⟩⟩ : CubicBez ℝ).eval t).y) (Set.Icc 0 1) ∧
    ((⟨⟨0, 0⟩, ⟨2/3, 0⟩, ⟨2/3, 1/3⟩, ⟨0, 1⟩⟩ : CubicBez ℝ).eval (1 / 2)).y = 1 / 4 := by
  refine ⟨glue_realScalar, glue_realScalar_lawful, glue_realScalar_lawfulReal, ?_, ?_, ?_, ?_⟩
  · let _ := glue_realScalar
    have := glue_realScalar_lawful
    intro s hs t ht h
    simp only [quad_eval_y_poly] at h
    have h' : s ^ 2 = t ^ 2 := by linarith
    exact (pow_left_inj₀ hs.1 ht.1 (by norm_num)).mp h'
  · let _ := glue_realScalar
    have := glue_realScalar_lawful
    rw [quad_eval_y_poly]; norm_num
  · let _ := glue_realScalar
    have := glue_realScalar_lawful
    intro s hs t ht h
    simp only [cubic_eval_y_poly] at h
    have h' : s ^ 2 = t ^ 2 := by linarith
    exact (pow_left_inj₀ hs.1 ht.1 (by norm_num)).mp h'
  · let _ := glue_realScalar
    have := glue_realScalar_lawful
    rw [cubic_eval_y_poly]; norm_num

/-- a cubic piece with non-vanishing leading coefficient (`y(t) = t³`: the `solveCubic_mem_iff` path) -/
example : ∃ (_ : Scalar ℝ) (_ : LawfulScalar ℝ) (_ : LawfulReal),
    Set.InjOn (fun t => ((⟨⟨0, 0⟩, ⟨1, 0⟩, ⟨1, 0⟩, ⟨0, 1⟩⟩ : CubicBez ℝ).eval t).y) (Set.Icc 0 1) ∧
    ((⟨⟨0, 0⟩, ⟨1, 0⟩, ⟨1, 0⟩, ⟨0, 1⟩⟩ : CubicBez ℝ).eval (1 / 2)).y = 1 / 8 ∧
    (⟨⟨0, 0⟩, ⟨1, 0⟩, ⟨1, 0⟩, ⟨0, 1⟩⟩ : CubicBez ℝ).p3.y - 3 * (⟨⟨0, 0⟩, ⟨1, 0⟩, ⟨1, 0⟩, ⟨0, 1⟩⟩ : CubicBez ℝ).p2.y
      + 3 * (⟨⟨0, 0⟩, ⟨1, 0⟩, ⟨1, 0⟩, ⟨0, 1⟩⟩ : CubicBez ℝ).p1.y - (⟨⟨0, 0⟩, ⟨1, 0⟩, ⟨1, 0⟩, ⟨0, 1⟩⟩ : CubicBez ℝ).p0.y ≠ 0 := by
  refine ⟨glue_realScalar, glue_realScalar_lawful, glue_realScalar_lawfulReal, ?_, ?_, ?_⟩
  · let _ := glue_realScalar
    have := glue_realScalar_lawful
    intro s hs t ht h
    simp only [cubic_eval_y_poly] at h
    have h' : s ^ 3 = t ^ 3 := by linarith
    exact (pow_left_inj₀ hs.1 ht.1 (by norm_num)).mp h'
  · let _ := glue_realScalar
    have := glue_realScalar_lawful
    rw [cubic_eval_y_poly]; norm_num
  · norm_num

/-- hypotheses of `windingInner_quad_monotone_real_unconditional`: strict monotonicity and the row, `y(t) = t²` -/
example : ∃ (_ : Scalar ℝ) (_ : LawfulScalar ℝ) (_ : LawfulReal),
    StrictMonoOn (fun t => ((⟨⟨0, 0⟩, ⟨1, 0⟩, ⟨0, 1⟩⟩ : QuadBez ℝ).eval t).y) (Set.Icc 0 1) ∧
    (⟨⟨0, 0⟩, ⟨1, 0⟩, ⟨0, 1⟩⟩ : QuadBez ℝ).p0.y ≤ (1/4 : ℝ) ∧ (1/4 : ℝ) < (⟨⟨0, 0⟩, ⟨1, 0⟩, ⟨0, 1⟩⟩ : QuadBez ℝ).p2.y := by
  refine ⟨glue_realScalar, glue_realScalar_lawful, glue_realScalar_lawfulReal, ?_, by norm_num, by norm_num⟩
  let _ := glue_realScalar
  have := glue_realScalar_lawful
  intro s hs t ht hst
  simp only [quad_eval_y_poly]
  have h1 : 0 < t - s := sub_pos.mpr hst
  have h2 : 0 < t + s := by linarith [hs.1, ht.1]
  nlinarith [mul_pos h1 h2]

/-- hypotheses of `windingInner_cubic_monotone_real_unconditional`: strict monotonicity and the row, `y(t) = t³` -/
example : ∃ (_ : Scalar ℝ) (_ : LawfulScalar ℝ) (_ : LawfulReal),
    StrictMonoOn (fun t => ((⟨⟨0, 0⟩, ⟨1, 0⟩, ⟨1, 0⟩, ⟨0, 1⟩⟩ : CubicBez ℝ).eval t).y) (Set.Icc 0 1) ∧
    (⟨⟨0, 0⟩, ⟨1, 0⟩, ⟨1, 0⟩, ⟨0, 1⟩⟩ : CubicBez ℝ).p0.y ≤ (1/8 : ℝ) ∧
    (1/8 : ℝ) < (⟨⟨0, 0⟩, ⟨1, 0⟩, ⟨1, 0⟩, ⟨0, 1⟩⟩ : CubicBez ℝ).p3.y := by
  refine ⟨glue_realScalar, glue_realScalar_lawful, glue_realScalar_lawfulReal, ?_, by norm_num, by norm_num⟩
  let _ := glue_realScalar
  have := glue_realScalar_lawful
  intro s hs t ht hst
  simp only [cubic_eval_y_poly]
  have h3 : s ^ 3 < t ^ 3 := pow_lt_pow_left₀ hst hs.1 (by norm_num)
  linarith

/-! ## 3. C05 × C17: the vertices of a flattened cubic are near the cubic -/
section flattenCubic
variable [Scalar ℝ] [LawfulScalar ℝ] [LawfulSqrt] [LawfulPowf]

/-- C05's `cubic_vertices_monotone` with C17's accuracy of `to_quads` added: the run of a cubic (`sqrt_tol = s ≥ 0`,
    which always holds inside `flatten`: `flatten_sqrt_tol_nonneg`) is one group of vertices per piece `(t0, t1, quad)` of
    `to_quads(tol/10)`, in the order of the pieces, then the stored end point; every vertex of a group is `quad.eval t`
    with strictly increasing `t ∈ [0,1)` and its Euclidean distance to the cubic at the corresponding parameter
    `t0 + t·(t1 − t0)` is at most `tol/10` -/
theorem cubic_flatten_vertices_near_cubic (c : CubicBez ℝ) (tol s : ℝ) (hs : 0 ≤ s) (htol : 0 < tol)
    (hsat : (((c.p3.x - 3 * c.p2.x + 3 * c.p1.x - c.p0.x) ^ 2
        + (c.p3.y - 3 * c.p2.y + 3 * c.p1.y - c.p0.y) ^ 2) / (432 * (tol / 10) ^ 2)) ^ ((1 : ℝ) / 6) ≤ 2 ^ 64 - 1) :
    ∃ groups : List (List (PathEl ℝ)),
      flattenCubic c tol s = groups.flatten ++ [PathEl.LineTo c.p3] ∧
      List.Forall₂ (fun (tq : ℝ × ℝ × QuadBez ℝ) g =>
        ∃ ts : List ℝ, g = ts.map (fun t => PathEl.LineTo (tq.2.2.eval t)) ∧ ts.Pairwise (· < ·) ∧
          ∀ t ∈ ts, 0 ≤ t ∧ t < 1 ∧
            Real.sqrt (((tq.2.2.eval t).x - (c.eval (tq.1 + t * (tq.2.1 - tq.1))).x) ^ 2
              + ((tq.2.2.eval t).y - (c.eval (tq.1 + t * (tq.2.1 - tq.1))).y) ^ 2) ≤ tol / 10)
        (c.to_quads (tol / 10)) groups := by
  have ha : 0 < tol / 10 := by positivity
  obtain ⟨groups, h1, h2, -⟩ := cubic_vertices_monotone c tol s hs
  rw [glue_toQuadTol_eq] at h2
  refine ⟨groups, h1, glue_forall₂_imp_mem h2 ?_⟩
  rintro tq g htq ⟨ts, hg, hpw, hts⟩
  refine ⟨ts, hg, hpw, fun t ht => ⟨(hts t ht).1, (hts t ht).2, ?_⟩⟩
  obtain ⟨i, hi⟩ := List.mem_iff_getElem?.mp htq
  rw [Real.sqrt_le_left ha.le]
  exact toQuads_error_bound c (tol / 10) (toQuadsN_sufficient c (tol / 10) ha.ne' hsat) i tq hi t (hts t ht).1
    (hts t ht).2.le

/-- the same, side condition without the sixth root -/
theorem cubic_flatten_vertices_near_cubic' (c : CubicBez ℝ) (tol s : ℝ) (hs : 0 ≤ s) (htol : 0 < tol)
    (hsat : (c.p3.x - 3 * c.p2.x + 3 * c.p1.x - c.p0.x) ^ 2 + (c.p3.y - 3 * c.p2.y + 3 * c.p1.y - c.p0.y) ^ 2
        ≤ 432 * (tol / 10) ^ 2 * (2 ^ 64 - 1) ^ 6) :
    ∃ groups : List (List (PathEl ℝ)),
      flattenCubic c tol s = groups.flatten ++ [PathEl.LineTo c.p3] ∧
      List.Forall₂ (fun (tq : ℝ × ℝ × QuadBez ℝ) g =>
        ∃ ts : List ℝ, g = ts.map (fun t => PathEl.LineTo (tq.2.2.eval t)) ∧ ts.Pairwise (· < ·) ∧
          ∀ t ∈ ts, 0 ≤ t ∧ t < 1 ∧
            Real.sqrt (((tq.2.2.eval t).x - (c.eval (tq.1 + t * (tq.2.1 - tq.1))).x) ^ 2
              + ((tq.2.2.eval t).y - (c.eval (tq.1 + t * (tq.2.1 - tq.1))).y) ^ 2) ≤ tol / 10)
        (c.to_quads (tol / 10)) groups :=
  cubic_flatten_vertices_near_cubic c tol s hs htol
    (glue_sat_of_poly _ (tol / 10) (by positivity) (by positivity) hsat)

/-- the same inside `flatten`: the run that `flatten els tol` emits for a `CurveTo` element when the current point is
    `c.p0` (`flatten_runs`: the run is `flattenRun state el tol (sqrt tol)`) – no hypothesis on `sqrt_tol` is left -/
theorem flatten_curveTo_vertices_near_cubic (st : Option (Point ℝ) × Option (Point ℝ)) (c : CubicBez ℝ) (tol : ℝ)
    (hst : st.1 = some c.p0) (htol : 0 < tol)
    (hsat : (c.p3.x - 3 * c.p2.x + 3 * c.p1.x - c.p0.x) ^ 2 + (c.p3.y - 3 * c.p2.y + 3 * c.p1.y - c.p0.y) ^ 2
        ≤ 432 * (tol / 10) ^ 2 * (2 ^ 64 - 1) ^ 6) :
    ∃ groups : List (List (PathEl ℝ)),
      flattenRun st (.CurveTo c.p1 c.p2 c.p3) tol (Scalar.sqrt tol) = groups.flatten ++ [PathEl.LineTo c.p3] ∧
      List.Forall₂ (fun (tq : ℝ × ℝ × QuadBez ℝ) g =>
        ∃ ts : List ℝ, g = ts.map (fun t => PathEl.LineTo (tq.2.2.eval t)) ∧ ts.Pairwise (· < ·) ∧
          ∀ t ∈ ts, 0 ≤ t ∧ t < 1 ∧
            Real.sqrt (((tq.2.2.eval t).x - (c.eval (tq.1 + t * (tq.2.1 - tq.1))).x) ^ 2
              + ((tq.2.2.eval t).y - (c.eval (tq.1 + t * (tq.2.1 - tq.1))).y) ^ 2) ≤ tol / 10)
        (c.to_quads (tol / 10)) groups := by
  obtain ⟨p0, p1, p2, p3⟩ := c
  rw [(flatten_run_ends_exact_cubic st p0 p1 p2 p3 tol (Scalar.sqrt tol) hst).1]
  exact cubic_flatten_vertices_near_cubic' ⟨p0, p1, p2, p3⟩ tol _ (flatten_sqrt_tol_nonneg tol) htol hsat

end flattenCubic

/-- non-vacuity: the instance exists (`LawfulSqrt` and `LawfulPowf` together), and the cubic of the first example with
    `tol = 1/2`, `s = √tol` meets the hypotheses -/
example : ∃ (_ : Scalar ℝ) (_ : LawfulScalar ℝ) (_ : LawfulSqrt) (_ : LawfulPowf),
    let c : CubicBez ℝ := ⟨⟨0, 0⟩, ⟨1, 2⟩, ⟨3, 2⟩, ⟨4, 0⟩⟩
    (0 : ℝ) ≤ Scalar.sqrt (1 / 2 : ℝ) ∧ (0 : ℝ) < 1 / 2 ∧
    ((c.p3.x - 3 * c.p2.x + 3 * c.p1.x - c.p0.x) ^ 2 + (c.p3.y - 3 * c.p2.y + 3 * c.p1.y - c.p0.y) ^ 2
        ≤ 432 * ((1 / 2 : ℝ) / 10) ^ 2 * (2 ^ 64 - 1) ^ 6) ∧
    (((c.p3.x - 3 * c.p2.x + 3 * c.p1.x - c.p0.x) ^ 2 + (c.p3.y - 3 * c.p2.y + 3 * c.p1.y - c.p0.y) ^ 2)
        / (432 * ((1 / 2 : ℝ) / 10) ^ 2)) ^ ((1 : ℝ) / 6) ≤ 2 ^ 64 - 1 ∧
    ((some c.p0, none) : Option (Point ℝ) × Option (Point ℝ)).1 = some c.p0 := by
  refine ⟨glue_realScalar, glue_realScalar_lawful, glue_realScalar_lawfulSqrt, glue_realScalar_lawfulPowf, ?_⟩
  have h : ((4 : ℝ) - 3 * 3 + 3 * 1 - 0) ^ 2 + ((0 : ℝ) - 3 * 2 + 3 * 2 - 0) ^ 2
      ≤ 432 * ((1 / 2 : ℝ) / 10) ^ 2 * (2 ^ 64 - 1) ^ 6 := by norm_num
  exact ⟨Real.sqrt_nonneg _, by norm_num, h, glue_sat_of_poly _ _ (by positivity) (by norm_num) h, rfl⟩

end Kurbo
