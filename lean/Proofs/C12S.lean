import Proofs.Lemmas.C12SSvd
import Proofs.Lemmas.C12SArc
import Proofs.Lemmas.C12SPts
/-! C12S – affine images of ellipses, circles and elliptical arcs (supplement to `Proofs/C12.lean`).

    Property text (C12): "Transforming a point, segment, path or shape and then evaluating it gives the transform of the
    evaluation – in particular the image of a circle, ellipse or elliptical arc is the ellipse or arc through the image
    points, traversed in the image direction."

    Model: `Affine.svd`, `Ellipse.new/private_new/center`, `Affine.mul_Ellipse`, `Affine.mul_Arc`, `sampleEllipse` of
    `Kurbo/Shapes.lean`, exactly as they are.  Notation of this file (definitions in `Proofs/Lemmas/C12S*.lean`):
    * `e.pts = { e.inner * u | u.x² + u.y² = 1 }` – the ideal point set of an `Ellipse` (image of the unit circle);
    * `e.svdPts = { e.center + sampleEllipse radii rot θ | θ }` with `(radii, rot) = e.inner.svd` – the ellipse that
      `Ellipse::radii_and_rotation`/`path_elements` describe;
    * `c.pts` – the circle `|p − center|² = radius²`; `c.toEllipse = Ellipse.new c.center (r, r) 0` – what
      `impl Mul<Circle> for Affine` multiplies (`self * Ellipse::from(circle)`; the model has no separate definition for
      it, `Kurbo/OpsShapes.lean` uses the same expression);
    * `a.pointAt θ = a.center + sampleEllipse a.radii a.x_rotation θ`; `a.pts = { a.pointAt (start + s·sweep) | 0 ≤ s ≤ 1 }`;
    * `sgnNeg D = −1` if `D < 0`, else `+1`; `svdPhase B` – the angle of the right orthogonal factor of the SVD.

    PROVED
    A. any lawful scalar:
       1. `(A * e).pts = A '' e.pts` and `(A * e).center = A * e.center` (every `A`, also singular).
    B. over ℝ with `LawfulTrig` (`sin cos` real) and `LawfulReal` (`sqrt`, `atan2 = arg`):
       2. the SVD as a statement about points: for non-singular `B`,
          `B * (cos θ, sin θ) = B.translation + sampleEllipse B.svd.1 B.svd.2 (σ·(θ − ψ))`, `σ = sgnNeg (det B)`,
          `ψ = svdPhase B`, and conversely every sample is the image of the unit vector at `σ·θ' + ψ`.  Both singular
          values are positive.  This covers the circle case `rx = ry` (where `atan2(0, 0) = 0` fixes an arbitrary
          rotation): no hypothesis `rx ≠ ry` is needed.
          Singular `B`: `ry = 0 ≤ rx` and `B * (cos θ, sin θ)` is the sample at `θ − ψ` (`svd_parametrisation_singular`).
       3. `e.pts = e.svdPts` for EVERY `e` (also singular: the degenerate ellipse is a segment or a point); hence
          `(A * e).svdPts = A '' e.svdPts` for every `A`, `e`.
       4. circles: `c.toEllipse.pts = c.pts` (every radius, also negative or zero), `(A * c.toEllipse).pts = A '' c.pts
          = (A * c.toEllipse).svdPts` and `(A * c.toEllipse).center = A * c.center` (every `A`).
       5. ARCS, parameter-wise, the full statement: for `det A ≠ 0`, radii `> 0` and EVERY real `s`
          `(A*arc).center + sampleEllipse (A*arc).radii (A*arc).x_rotation ((A*arc).start_angle + s·(A*arc).sweep_angle)
             = A * (arc.center + sampleEllipse arc.radii arc.x_rotation (arc.start_angle + s·arc.sweep_angle))`
          (`arc_image_param`); start point (`s = 0`), end point (`s = 1`), the point sets (`s ∈ [0,1]`), and
          `(A*arc).sweep_angle = ± arc.sweep_angle` with `−` exactly for `det A < 0`; every image point satisfies the
          implicit equation of the image ellipse; with `LawfulCount` (C10 item 8): the Bezier outline of `A * arc`
          starts with `MoveTo (A * start point)` and ends on `A * end point`.
       6. the same for radii of ANY signs (`≠ 0`): the point of `A * arc` at `s` is the image of the point of `arc` at
          `start + τ·s·sweep`, `τ = sgnNeg (rx·ry)` (`arc_image_param_signed`).  So for radii of equal sign (also both
          negative) 5. holds, and

    A BEHAVIOUR OF THE MODEL (HENCE OF THE CRATE) THAT VIOLATES THE PROPERTY TEXT
       7. for radii of OPPOSITE signs `A * arc` starts at the image of the start point but traverses the image of the
          arc with the sweep NEGATED (`arc_image_mixed_radii`); concretely `Affine.scale 1` (the identity) times the arc
          `center (0,0), radii (−1, 1), start 0, sweep π/2, x_rotation 0` ends at `(0, −1)` whereas the arc ends at `(0, 1)`
          (`arc_image_mixed_radii_counterexample`).  Cause: `Ellipse::new` takes `abs` of the radii (a reflection when
          exactly one is negative) but the sweep is flipped only according to `det A`.  `Arc::path_elements`/
          `sample_ellipse` use the signed radii, so such an `Arc` is a meaningful value of the crate.  Checked on the
          crate itself (harness op `shape.affine`, identity, this arc, tolerance 0.1): the outline of `A * arc` runs
          `(−1, 0) → (0, −1)`, the image of the outline of `arc` runs `(−1, 0) → (0, 1)`; `kmodel F` prints the same line.

    NOT PROVED
    * arcs (5./6.) for a singular `A` or a zero radius (excluded by hypothesis).  The hypothesis is necessary: the image
      ellipse then has `ry' = 0` and the start angle is `atan2(y·rx', x·0)`, which forgets `x` (e.g. the identity times
      the arc with radii `(1, 0)`, start `π/3` does not start at the arc's start point).  Not formalised.
    * nothing about `Float`: all statements of part B use exact real arithmetic; how far the `f64` results are from
      the image (conditioning of the SVD near `rx = ry`, `atan2` near the branch cut) is left to the oracle.
    * the OUTLINES (`path_elements`) of the image shapes are related to the image point sets only through C10
      (`arc_end_point`, `ellipse_endpoints_on_affine_image`, …); no statement "the Bezier outline of `A * arc` is the
      image of the Bezier outline of `arc`" is made (it is false: the subdivision depends on the image radii).
    Helper lemmas: `Proofs/Lemmas/C12SSvd.lean`, `C12SArc.lean`, `C12SPts.lean`; reused: `svd_gram`, `hyp_cos_sin_arg`
    (`C10Ellipse.lean`), `sampleEllipse_real`, `sampleEllipse_unrotate` (`C10Real.lean`). -/
set_option linter.unusedSectionVars false

/-! ## A. any lawful scalar -/
namespace Kurbo
section lawful
variable {K : Type} [Field K] [LinearOrder K] [IsStrictOrderedRing K] [FloorRing K] [Scalar K] [LawfulScalar K]

/-- the point set of `A * e` is the image of the point set of `e` (every `A`, also singular) -/
theorem ellipse_image_pts (A : Affine K) (e : Ellipse K) :
    (A.mul_Ellipse e).pts = (fun p : Point K => A * p) '' e.pts := mul_Ellipse_pts A e

/-- membership form, without `Set` notation -/
theorem ellipse_image_pts_iff (A : Affine K) (e : Ellipse K) (p : Point K) :
    (∃ u : Point K, u.x ^ 2 + u.y ^ 2 = 1 ∧ p = (A.mul_Ellipse e).inner * u)
      ↔ ∃ q : Point K, (∃ u : Point K, u.x ^ 2 + u.y ^ 2 = 1 ∧ q = e.inner * u) ∧ A * q = p := by
  have := congrArg (fun S => p ∈ S) (mul_Ellipse_pts A e)
  exact iff_of_eq this

/-- the centre is mapped to the centre -/
theorem ellipse_image_center (A : Affine K) (e : Ellipse K) : (A.mul_Ellipse e).center = A * e.center :=
  mul_Ellipse_center A e

/-- `Ellipse::new(c, radii, rot)` has centre `c` and maps `(x, y)` to `c + R(rot)·(|rx|·x, |ry|·y)` -/
theorem ellipse_new_spec (c : Point K) (radii : Vec2 K) (rot : K) (p : Point K) :
    (Ellipse.new c radii rot).center = c ∧
    (Ellipse.new c radii rot).inner * p
      = ⟨c.x + (Scalar.cos rot * (|radii.x| * p.x) - Scalar.sin rot * (|radii.y| * p.y)),
         c.y + (Scalar.sin rot * (|radii.x| * p.x) + Scalar.cos rot * (|radii.y| * p.y))⟩ :=
  ⟨ellipse_new_center c radii rot, ellipse_new_act c radii rot p⟩

end lawful
end Kurbo

/-! ## B. the real numbers -/
namespace Kurbo
open Real

-- the class assumptions are satisfiable: ℝ with Mathlib's functions
example : @LawfulScalar ℝ _ _ _ _ realScalar ∧ @LawfulTrig realScalar ∧ @LawfulReal realScalar :=
  ⟨realScalar_lawful, realScalar_lawfulTrig, realScalar_lawfulReal⟩

section real
variable [Scalar ℝ] [LawfulScalar ℝ] [LawfulTrig] [LawfulReal]

/-! ### 2. the SVD as a statement about points -/

/-- non-singular `B`: both `svd` radii are positive and their product is `|det B|` -/
theorem svd_radii_positive (B : Affine ℝ) (hdet : B.determinant ≠ 0) :
    0 < B.svd.1.x ∧ 0 < B.svd.1.y ∧ B.svd.1.x * B.svd.1.y = |B.determinant| :=
  ⟨(svd_radii_pos B hdet).1, (svd_radii_pos B hdet).2, svd_radii_prod B⟩

/-- `B_lin = R(rot)·diag(rx, ry)·W` with `W` orthogonal: there is a phase `ψ` such that the image of the unit vector at
    angle `θ` is the sample of the `svd` ellipse at `σ·(θ − ψ)` (`W` = rotation by `−ψ` for `det B > 0`, the reflection
    `θ ↦ ψ − θ` for `det B < 0`), and conversely the sample at `θ'` is the image of the unit vector at `σ·θ' + ψ` -/
theorem svd_parametrisation (B : Affine ℝ) (hdet : B.determinant ≠ 0) :
    ∃ ψ : ℝ,
      (∀ θ : ℝ, B * (⟨cos θ, sin θ⟩ : Point ℝ)
        = B.translation.to_point + sampleEllipse B.svd.1 B.svd.2 (sgnNeg B.determinant * (θ - ψ))) ∧
      (∀ θ' : ℝ, B.translation.to_point + sampleEllipse B.svd.1 B.svd.2 θ'
        = B * (⟨cos (sgnNeg B.determinant * θ' + ψ), sin (sgnNeg B.determinant * θ' + ψ)⟩ : Point ℝ)) :=
  ⟨svdPhase B, svd_point B hdet, svd_point_inv B hdet⟩

theorem sgnNeg_spec (D : ℝ) : (D < 0 → sgnNeg D = -1) ∧ (¬ D < 0 → sgnNeg D = 1) :=
  ⟨sgnNeg_of_neg, sgnNeg_of_nonneg⟩

-- non-vacuity: a shear (det 1), a reflection composed with a scaling (det −2), and a map with `rx = ry` (circle case)
example : letI := realScalar; (⟨1, 0, 1, 1, 3, 4⟩ : Affine ℝ).determinant ≠ 0 := by
  show ((1 : ℝ) * 1 - 0 * 1 ≠ 0); norm_num
example : letI := realScalar; (⟨2, 0, 0, -1, 0, 0⟩ : Affine ℝ).determinant ≠ 0 := by
  show ((2 : ℝ) * (-1) - 0 * 0 ≠ 0); norm_num
example : letI := realScalar; (⟨0, 3, -3, 0, 1, 1⟩ : Affine ℝ).determinant ≠ 0 := by
  show ((0 : ℝ) * 0 - 3 * (-3) ≠ 0); norm_num

/-! ### 3. ellipses -/

/-- the unit circle is `{(cos θ, sin θ)}`: `e.pts` in parametric form -/
theorem ellipse_pts_parametric (e : Ellipse ℝ) :
    e.pts = {p | ∃ θ : ℝ, p = e.inner * (⟨cos θ, sin θ⟩ : Point ℝ)} := ellipse_pts_param e

/-- the ellipse described by `(center, svd radii, svd rotation)` IS the image of the unit circle under `inner`
    (EVERY `inner`: the circle case `rx = ry` and the singular case `ry = 0` are included) -/
theorem ellipse_pts_eq_svd (e : Ellipse ℝ) : e.pts = e.svdPts := ellipse_pts_eq_svdPts_all e

/-- singular `inner`: the second radius is `0` and the image of the unit vector at `θ` is the sample at `θ − ψ` -/
theorem svd_parametrisation_singular (B : Affine ℝ) (hdet : B.determinant = 0) :
    B.svd.1.y = 0 ∧ B.svd.1.y ≤ B.svd.1.x ∧
    ∃ ψ : ℝ, ∀ θ : ℝ, B * (⟨cos θ, sin θ⟩ : Point ℝ)
        = B.translation.to_point + sampleEllipse B.svd.1 B.svd.2 (θ - ψ) :=
  ⟨(svd_point_singular B hdet 0).1, svd_radii_le B, svdPhase B, fun θ => (svd_point_singular B hdet θ).2⟩

-- non-vacuity: a rank-one map
example : letI := realScalar; (⟨1, 2, 2, 4, 0, 0⟩ : Affine ℝ).determinant = 0 := by
  show ((1 : ℝ) * 4 - 2 * 2 = 0); norm_num

/-- the image of the `(center, radii, rotation)` ellipse of `e` under `A` is the `(center, radii, rotation)` ellipse
    of `A * e` (every `A`, every `e`) -/
theorem ellipse_image_svd (A : Affine ℝ) (e : Ellipse ℝ) :
    (A.mul_Ellipse e).svdPts = (fun p : Point ℝ => A * p) '' e.svdPts := by
  rw [← ellipse_pts_eq_svdPts_all, ← ellipse_pts_eq_svdPts_all e, mul_Ellipse_pts]

-- non-vacuity: the ellipse with semi-axes 2 and 1 turned by an arbitrary angle is non-singular
example (c : Point ℝ) (rot : ℝ) : (Ellipse.new c ⟨2, 1⟩ rot).inner.determinant ≠ 0 := by
  rw [ellipse_new_det_real]; norm_num

/-! ### 4. circles (`impl Mul<Circle> for Affine` = `self * Ellipse::from(circle)`) -/

/-- `Ellipse::from(circle)` has the circle as its point set (every radius: negative, zero) -/
theorem circle_as_ellipse_pts (c : Circle ℝ) : c.toEllipse.pts = c.pts := circle_toEllipse_pts c

/-- the point set of `A * circle` is the image of the circle (every `A`) -/
theorem circle_image_pts (A : Affine ℝ) (c : Circle ℝ) :
    (A.mul_Ellipse c.toEllipse).pts = (fun p : Point ℝ => A * p) '' c.pts := by
  rw [mul_Ellipse_pts, circle_toEllipse_pts]

/-- … and it is the ellipse that `radii_and_rotation` of the result describes, whose centre is the image of the
    circle's centre (every `A`, every radius) -/
theorem circle_image_svd (A : Affine ℝ) (c : Circle ℝ) :
    (A.mul_Ellipse c.toEllipse).svdPts = (fun p : Point ℝ => A * p) '' c.pts ∧
    (A.mul_Ellipse c.toEllipse).center = A * c.center := by
  refine ⟨?_, ?_⟩
  · rw [← ellipse_pts_eq_svdPts_all, mul_Ellipse_pts, circle_toEllipse_pts]
  · rw [mul_Ellipse_center]
    unfold Circle.toEllipse
    rw [ellipse_new_center]

/-! ### 5. arcs, parameter-wise -/

/-- centre, radii and rotation of `A * arc` are those of the ellipse `A * Ellipse::new(arc.center, arc.radii,
    arc.x_rotation)`; the sweep is negated exactly for an orientation-reversing `A` -/
theorem arc_image_fields (A : Affine ℝ) (arc : Arc ℝ) :
    (A.mul_Arc arc).center = (A.mul_Ellipse (Ellipse.new arc.center arc.radii arc.x_rotation)).center ∧
    (A.mul_Arc arc).center = A * arc.center ∧
    ((A.mul_Arc arc).radii, (A.mul_Arc arc).x_rotation)
      = (A.mul_Ellipse (Ellipse.new arc.center arc.radii arc.x_rotation)).inner.svd ∧
    (A.mul_Arc arc).sweep_angle = sgnNeg A.determinant * arc.sweep_angle ∧
    (A.determinant < 0 → (A.mul_Arc arc).sweep_angle = -arc.sweep_angle) ∧
    (¬ A.determinant < 0 → (A.mul_Arc arc).sweep_angle = arc.sweep_angle) := by
  refine ⟨rfl, ?_, rfl, mul_Arc_sweep A arc, fun h => ?_, fun h => ?_⟩
  · show (A.mul_Ellipse (Ellipse.new arc.center arc.radii arc.x_rotation)).center = _
    rw [mul_Ellipse_center, ellipse_new_center]
  · rw [mul_Arc_sweep, sgnNeg_of_neg h]; ring
  · rw [mul_Arc_sweep, sgnNeg_of_nonneg h]; ring

/-- THE ARC IMAGE THEOREM: for a non-singular `A` and an arc with positive radii, the point of `A * arc` at parameter
    `s` is the image of the point of `arc` at parameter `s` – for every real `s`, in particular for `s ∈ [0, 1]`
    ("the arc through the image points, traversed in the image direction") -/
theorem arc_image_param (A : Affine ℝ) (arc : Arc ℝ) (hdet : A.determinant ≠ 0)
    (hx : 0 < arc.radii.x) (hy : 0 < arc.radii.y) (s : ℝ) :
    (A.mul_Arc arc).center + sampleEllipse (A.mul_Arc arc).radii (A.mul_Arc arc).x_rotation
        ((A.mul_Arc arc).start_angle + s * (A.mul_Arc arc).sweep_angle)
      = A * (arc.center + sampleEllipse arc.radii arc.x_rotation (arc.start_angle + s * arc.sweep_angle)) := by
  have h := mul_Arc_point_general A arc hdet hx.ne' hy.ne' s
  rw [sgnNeg_of_nonneg (not_lt.mpr (mul_pos hx hy).le), one_mul] at h
  exact h

-- non-vacuity: a shear and a reflecting map, an arc with radii (2, 1)
example : letI := realScalar; (⟨1, 0, 1, 1, 3, 4⟩ : Affine ℝ).determinant ≠ 0 ∧
    0 < (⟨⟨0, 0⟩, ⟨2, 1⟩, 1, 2, 3⟩ : Arc ℝ).radii.x ∧ 0 < (⟨⟨0, 0⟩, ⟨2, 1⟩, 1, 2, 3⟩ : Arc ℝ).radii.y := by
  refine ⟨?_, ?_, ?_⟩
  · show ((1 : ℝ) * 1 - 0 * 1 ≠ 0); norm_num
  · show (0 : ℝ) < 2; norm_num
  · show (0 : ℝ) < 1; norm_num
example : letI := realScalar; (⟨2, 0, 0, -1, 0, 0⟩ : Affine ℝ).determinant < 0 := by
  show ((2 : ℝ) * (-1) - 0 * 0 < 0); norm_num

/-- start point to start point (`s = 0`) and end point to end point (`s = 1`) -/
theorem arc_image_endpoints (A : Affine ℝ) (arc : Arc ℝ) (hdet : A.determinant ≠ 0)
    (hx : 0 < arc.radii.x) (hy : 0 < arc.radii.y) :
    (A.mul_Arc arc).center + sampleEllipse (A.mul_Arc arc).radii (A.mul_Arc arc).x_rotation (A.mul_Arc arc).start_angle
      = A * (arc.center + sampleEllipse arc.radii arc.x_rotation arc.start_angle) ∧
    (A.mul_Arc arc).center + sampleEllipse (A.mul_Arc arc).radii (A.mul_Arc arc).x_rotation
        ((A.mul_Arc arc).start_angle + (A.mul_Arc arc).sweep_angle)
      = A * (arc.center + sampleEllipse arc.radii arc.x_rotation (arc.start_angle + arc.sweep_angle)) := by
  have h0 := arc_image_param A arc hdet hx hy 0
  have h1 := arc_image_param A arc hdet hx hy 1
  simp only [zero_mul, add_zero, one_mul] at h0 h1
  exact ⟨h0, h1⟩

/-- the point sets: the arc `A * arc` is the image of `arc` -/
theorem arc_image_pts (A : Affine ℝ) (arc : Arc ℝ) (hdet : A.determinant ≠ 0)
    (hx : 0 < arc.radii.x) (hy : 0 < arc.radii.y) :
    (A.mul_Arc arc).pts = (fun p : Point ℝ => A * p) '' arc.pts := by
  ext p
  constructor
  · rintro ⟨s, h0, h1, rfl⟩
    exact ⟨_, ⟨s, h0, h1, rfl⟩, (arc_image_param A arc hdet hx hy s).symm⟩
  · rintro ⟨q, ⟨s, h0, h1, rfl⟩, rfl⟩
    exact ⟨s, h0, h1, (arc_image_param A arc hdet hx hy s).symm⟩

/-- the image arc lies on the image ellipse: in the frame of `A * arc` every image point satisfies the implicit
    equation of the ellipse with the image radii (combination with C10 item 6) -/
theorem arc_image_on_ellipse (A : Affine ℝ) (arc : Arc ℝ) (hdet : A.determinant ≠ 0)
    (hx : 0 < arc.radii.x) (hy : 0 < arc.radii.y) (s : ℝ) :
    OnEllipse (A.mul_Arc arc).center (A.mul_Arc arc).radii.x (A.mul_Arc arc).radii.y (A.mul_Arc arc).x_rotation
      (A * (arc.center + sampleEllipse arc.radii arc.x_rotation (arc.start_angle + s * arc.sweep_angle))) := by
  rw [← arc_image_param A arc hdet hx hy s]
  have hB : (arcImgInner A arc).determinant ≠ 0 := by
    have : (arcImgInner A arc).determinant = A.determinant * (|arc.radii.x| * |arc.radii.y|) := by
      unfold arcImgInner
      rw [← ellipse_new_det_real arc.center arc.radii arc.x_rotation]
      kaff
    rw [this]
    exact mul_ne_zero hdet (mul_ne_zero (abs_ne_zero.mpr hx.ne') (abs_ne_zero.mpr hy.ne'))
  obtain ⟨h1, h2⟩ := svd_radii_pos _ hB
  exact center_add_onEllipse _ _ _ _ (by rw [mul_Arc_radii]; exact h1.ne') (by rw [mul_Arc_radii]; exact h2.ne')


/-! ### the outline of the image arc starts and ends on the images of the arc's end points (with C10 item 8) -/
section outline
variable [LawfulCount]

/-- the Bezier outline of `A * arc` begins with `MoveTo (A * start point of arc)` and, after all its pieces, leaves the
    pen on `A * end point of arc` – for every tolerance -/
theorem arc_image_outline_endpoints (A : Affine ℝ) (arc : Arc ℝ) (tol : ℝ) (hdet : A.determinant ≠ 0)
    (hx : 0 < arc.radii.x) (hy : 0 < arc.radii.y) :
    (A.mul_Arc arc).path_elements tol
      = PathEl.MoveTo (A * (arc.center + sampleEllipse arc.radii arc.x_rotation arc.start_angle))
          :: (A.mul_Arc arc).append_iter tol ∧
    penAfter (A * (arc.center + sampleEllipse arc.radii arc.x_rotation arc.start_angle)) ((A.mul_Arc arc).append_iter tol)
      = A * (arc.center + sampleEllipse arc.radii arc.x_rotation (arc.start_angle + arc.sweep_angle)) := by
  obtain ⟨h0, h1⟩ := arc_image_endpoints A arc hdet hx hy
  refine ⟨?_, ?_⟩
  · rw [← h0]; rfl
  · rw [← h0, ← h1]
    exact penAfter_arc_real (A.mul_Arc arc) tol

end outline

/-! ### 6./7. radii of arbitrary signs -/

/-- general form: the point of `A * arc` at parameter `s` is the image of the point of `arc` at the angle
    `start + τ·s·sweep`, `τ = sgnNeg (rx·ry)` (`+1` for radii of equal sign, `−1` for opposite signs) -/
theorem arc_image_param_signed (A : Affine ℝ) (arc : Arc ℝ) (hdet : A.determinant ≠ 0)
    (hx : arc.radii.x ≠ 0) (hy : arc.radii.y ≠ 0) (s : ℝ) :
    (A.mul_Arc arc).center + sampleEllipse (A.mul_Arc arc).radii (A.mul_Arc arc).x_rotation
        ((A.mul_Arc arc).start_angle + s * (A.mul_Arc arc).sweep_angle)
      = A * (arc.center + sampleEllipse arc.radii arc.x_rotation
          (arc.start_angle + sgnNeg (arc.radii.x * arc.radii.y) * (s * arc.sweep_angle))) :=
  mul_Arc_point_general A arc hdet hx hy s

/-- radii of OPPOSITE signs: `A * arc` traverses the image of the arc with the sweep negated – it starts at the image
    of the start point and then runs the wrong way (a violation of the property text by the model, hence the crate) -/
theorem arc_image_mixed_radii (A : Affine ℝ) (arc : Arc ℝ) (hdet : A.determinant ≠ 0)
    (hxy : arc.radii.x * arc.radii.y < 0) (s : ℝ) :
    (A.mul_Arc arc).center + sampleEllipse (A.mul_Arc arc).radii (A.mul_Arc arc).x_rotation
        ((A.mul_Arc arc).start_angle + s * (A.mul_Arc arc).sweep_angle)
      = A * (arc.center + sampleEllipse arc.radii arc.x_rotation (arc.start_angle - s * arc.sweep_angle)) := by
  have hx : arc.radii.x ≠ 0 := fun h => by rw [h, zero_mul] at hxy; exact lt_irrefl _ hxy
  have hy : arc.radii.y ≠ 0 := fun h => by rw [h, mul_zero] at hxy; exact lt_irrefl _ hxy
  have h := mul_Arc_point_general A arc hdet hx hy s
  rw [sgnNeg_of_neg hxy, show arc.start_angle + -1 * (s * arc.sweep_angle) = arc.start_angle - s * arc.sweep_angle by ring] at h
  exact h

/-- concrete instance: the IDENTITY map times the arc `center (0,0), radii (−1, 1), start 0, sweep π/2, no rotation`
    is an arc that ends at `(0, −1)`, whereas the arc itself ends at `(0, 1)` -/
theorem arc_image_mixed_radii_counterexample :
    let A : Affine ℝ := ⟨1, 0, 0, 1, 0, 0⟩
    let arc : Arc ℝ := ⟨⟨0, 0⟩, ⟨-1, 1⟩, 0, Real.pi / 2, 0⟩
    (A.mul_Arc arc).center + sampleEllipse (A.mul_Arc arc).radii (A.mul_Arc arc).x_rotation
        ((A.mul_Arc arc).start_angle + (A.mul_Arc arc).sweep_angle) = (⟨0, -1⟩ : Point ℝ) ∧
    A * (arc.center + sampleEllipse arc.radii arc.x_rotation (arc.start_angle + arc.sweep_angle)) = (⟨0, 1⟩ : Point ℝ) := by
  intro A arc
  have hdet : A.determinant ≠ 0 := by rw [determinant_eq]; norm_num [A]
  have hxy : arc.radii.x * arc.radii.y < 0 := by norm_num [arc]
  have h := arc_image_mixed_radii A arc hdet hxy 1
  rw [one_mul] at h
  rw [one_mul] at h
  constructor
  · rw [h, sampleEllipse_real]
    simp only [A, arc, kdefs, scalar_norm, Point.mk.injEq]
    rw [show (0 : ℝ) - Real.pi / 2 = -(Real.pi / 2) by ring]
    simp only [Real.cos_neg, Real.sin_neg, Real.cos_pi_div_two, Real.sin_pi_div_two, Real.cos_zero, Real.sin_zero]
    constructor <;> norm_num
  · rw [sampleEllipse_real]
    simp only [A, arc, kdefs, scalar_norm, Point.mk.injEq]
    rw [show (0 : ℝ) + Real.pi / 2 = Real.pi / 2 by ring]
    simp only [Real.cos_pi_div_two, Real.sin_pi_div_two, Real.cos_zero, Real.sin_zero]
    constructor <;> norm_num

end real
end Kurbo
