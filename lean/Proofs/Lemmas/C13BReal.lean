import Proofs.Lemmas.C13BTotal
import Proofs.Lemmas.C13Real
/-! C13B: `dash` DOES return on a closed sub-path (forward execution of a two-vertex closed path that lies inside the first
    dash, for every lawful scalar), and the witness over ℝ for the hypotheses of the theorems of `Proofs/C13B.lean`. -/
set_option linter.unusedSectionVars false
namespace Kurbo
open DashSpec
variable {K : Type} [Field K] [LinearOrder K] [IsStrictOrderedRing K] [FloorRing K] [Scalar K] [LawfulScalar K]

/-- playback with a `ClosePath` pending, forward: with `k` elements left in the stash, `k` units of budget suffice -/
theorem c13b_collect_replay_cp_fwd : ∀ (k : Nat) (s : DashIt K) (n fuel : Nat) (acc : List (PathEl K)),
    s.stash.size - s.stash_ix = k → s.state = .FromStash → s.input_done = false → s.closepath_pending = true →
    k ≤ n → 1 ≤ fuel →
    ∃ n' fuel', 1 ≤ fuel' ∧ collectFrom n (fuel + 1) s acc
      = collectFrom n' fuel' s.c13b_afterClose ((s.stash.toList.drop s.stash_ix).reverse ++ acc) := by
  intro k
  induction k with
  | zero =>
    intro s n fuel acc hk hs hd hcp _ hf
    have hnone : s.stash[s.stash_ix]? = none := by
      rw [Array.getElem?_eq_none_iff]; omega
    refine ⟨n, fuel, hf, ?_⟩
    unfold collectFrom
    rw [c13b_next_fromStash_cp s fuel hs hnone hd hcp, List.drop_eq_nil_of_le (by simp; omega)]
    rfl
  | succ k ih =>
    intro s n fuel acc hk hs hd hcp hn _
    have hlt : s.stash_ix < s.stash.size := by omega
    have hsome : s.stash[s.stash_ix]? = some s.stash[s.stash_ix] := Array.getElem?_eq_getElem hlt
    cases n with
    | zero => omega
    | succ n =>
      obtain ⟨n', fuel', h1, h2⟩ := ih { s with stash_ix := s.stash_ix + 1 } n 99999 (s.stash[s.stash_ix] :: acc)
        (by show s.stash.size - (s.stash_ix + 1) = k; omega) hs hd hcp (by omega) (by omega)
      refine ⟨n', fuel', h1, ?_⟩
      have e0 : collectFrom (n + 1) (fuel + 1) s acc
          = collectFrom n 100000 { s with stash_ix := s.stash_ix + 1 } (s.stash[s.stash_ix] :: acc) := by
        unfold collectFrom
        rw [next_fromStash_some s _ fuel hs hsome]
        simp only
        rw [dashCollect_succ]
        rfl
      rw [e0, h2]
      have hl : s.stash_ix < s.stash.toList.length := by simpa using hlt
      rw [List.drop_eq_getElem_cons hl]
      have e : ((s.stash.toList[s.stash_ix] :: List.drop (s.stash_ix + 1) s.stash.toList).reverse ++ acc)
          = (List.drop (s.stash_ix + 1) s.stash.toList).reverse ++ (s.stash[s.stash_ix] :: acc) := by
        simp
      rw [e]
      rfl

/-- `NeedInput` at the end of the input, forward -/
theorem c13b_collect_end_fwd (s : DashIt K) (n fuel : Nat) (acc : List (PathEl K)) (hs : s.state = .NeedInput)
    (hd : s.input_done = false) (hcp : s.closepath_pending = false) (hin : s.inner = []) :
    collectFrom n (fuel + 1) s acc = .ok acc.reverse := by
  unfold collectFrom DashIt.next
  rw [hs]
  simp only [hd, Bool.false_eq_true, if_false, get_input_nil s hcp hin, if_true]

/-- **A closed two-vertex sub-path inside the first dash**: `M p0 L q Z` (`q ≠ p0`) with the pattern on at the offset and
    the first dash at least as long as `|p0 q| + |q p0|` is returned as `M p0, L q, L p0, Z` (the whole sub-path with its
    closing line, `ClosePath` last) – and `dash` does return (no fuel or budget problem), for every lawful scalar. -/
theorem c13b_dash_closed_short (p0 q : Point K) (off : K) (dashes : Array K) (budget : Nat) (it : DashIt K)
    (hit : dashImpl [.MoveTo p0, .LineTo q, .ClosePath] off dashes = some it) (hn : 0 < dashes.size) (hne : q ≠ p0)
    (hact : it.is_active = true) (hge1 : ¬ it.dash_remaining < (Line.mk p0 q).arclen 0)
    (hge2 : ¬ it.dash_remaining - (Line.mk p0 q).arclen 0 < (Line.mk q p0).arclen 0) (hb : 5 ≤ budget) :
    dash [.MoveTo p0, .LineTo q, .ClosePath] off dashes budget = .ok [.MoveTo p0, .LineTo q, .LineTo p0, .ClosePath] := by
  obtain ⟨it', a1, a2, a3, a4, a5, a6, a7, a8, a9, a10⟩ := dashImpl_ok [.MoveTo p0, .LineTo q, .ClosePath] off dashes 100000 hn
  rw [hit] at a1
  cases a1
  unfold dash
  rw [hit]
  simp only
  obtain ⟨n, rfl⟩ : ∃ n, budget = n + 1 := ⟨budget - 1, by omega⟩
  rw [dashCollect_succ]
  have hgi := get_input_moveTo_lineTo it p0 q [.ClosePath] a10 (by rw [a7]; rfl) a4
  have hnext := next_needInput it 99999 a6 a9 (by rw [hgi]; exact a9) (by rw [hgi]; exact a6)
  have hc0 : collectFrom n 100000 it [] = collectFrom n 99999 (it.startState p0 q [.ClosePath]) [] := by
    unfold collectFrom
    rw [hnext, hgi]
    rfl
  rw [hc0]
  obtain ⟨sA, hsA⟩ : ∃ sA : DashIt K, sA = it.startState p0 q [.ClosePath] := ⟨_, rfl⟩
  rw [← hsA]
  have hst0 : (sA.state == .ToStash && sA.stash.isEmpty) = true := by
    subst hsA; show (true && it.stash.isEmpty) = true; rw [a7]; rfl
  have hstepA := step_stash_start sA hst0
  have hactA : sA.is_active = true := by subst hsA; exact a5.2.2.symm.trans hact
  rw [if_pos hactA] at hstepA
  have hcurA : sA.current_seg.start = p0 := by subst hsA; rfl
  rw [hcurA] at hstepA
  rw [collect_stash_some n 99998 sA sA _ [] (by subst hsA; rfl) hstepA]
  -- first segment: `LineTo q` goes to the stash, then the closing line is loaded
  obtain ⟨sB, hsB⟩ : ∃ sB : DashIt K, sB = { sA with stash := sA.stash.push (.MoveTo p0) } := ⟨_, rfl⟩
  rw [← hsB]
  have hstB : (sB.state == .ToStash && sB.stash.isEmpty) = false := by subst hsB; simp
  have hnlt : ¬ sB.dash_remaining < sB.seg_remaining := by
    subst hsB; subst hsA
    show ¬ it.init_dash_remaining < (Line.mk p0 q).arclen 0
    rw [← a5.2.1]; exact hge1
  have hactB : sB.is_active = true := by subst hsB; exact hactA
  have hstepB := step_line_end_stash sB ⟨p0, q⟩ (by subst hsB; subst hsA; rfl) hstB (by subst hsB; subst hsA; rfl) hactB hnlt
  rw [c13b_get_input_close_ne ({ sB with stash := sB.stash.push (.LineTo (Line.mk p0 q).p1), dash_remaining := sB.dash_remaining - sB.seg_remaining } : DashIt K)
    [] (by subst hsB; subst hsA; exact a10) (by subst hsB; subst hsA; rfl)
    (by subst hsB; subst hsA; exact hne)] at hstepB
  obtain ⟨sC, hsC⟩ : ∃ sC : DashIt K, sC = ({ sB with stash := sB.stash.push (.LineTo (Line.mk p0 q).p1), dash_remaining := sB.dash_remaining - sB.seg_remaining }
    : DashIt K).c13b_loadClose [] := ⟨_, rfl⟩
  rw [← hsC] at hstepB
  rw [collect_stash_none n 99997 sB sC [] (by subst hsB; subst hsA; rfl) hstepB]
  -- closing line: `LineTo p0` goes to the stash, then `ClosePath`
  have hstC : (sC.state == .ToStash && sC.stash.isEmpty) = false := by subst hsC; subst hsB; subst hsA; simp [DashIt.c13b_loadClose, DashIt.startState]
  have hnltC : ¬ sC.dash_remaining < sC.seg_remaining := by
    subst hsC; subst hsB; subst hsA
    show ¬ it.init_dash_remaining - (Line.mk p0 q).arclen 0 < (Line.mk q p0).arclen 0
    rw [← a5.2.1]; exact hge2
  have hactC : sC.is_active = true := by subst hsC; exact hactB
  have hstepC := step_line_end_stash sC ⟨q, p0⟩ (by subst hsC; subst hsB; subst hsA; rfl) hstC
    (by subst hsC; subst hsB; subst hsA; rfl) hactC hnltC
  rw [c13b_get_input_pending _ (by subst hsC; rfl),
    c13b_handle_toStash _ (by subst hsC; subst hsB; subst hsA; rfl)] at hstepC
  obtain ⟨sD, hsD⟩ : ∃ sD : DashIt K, sD = ({ sC with stash := sC.stash.push (.LineTo (Line.mk q p0).p1), dash_remaining := sC.dash_remaining - sC.seg_remaining }
    : DashIt K).c13b_closedS := ⟨_, rfl⟩
  rw [← hsD] at hstepC
  rw [collect_stash_none n 99996 sC sD [] (by subst hsC; subst hsB; subst hsA; rfl) hstepC]
  -- playback
  have hstashD : sD.stash = #[.MoveTo p0, .LineTo q, .LineTo p0, .ClosePath] := by
    subst hsD; subst hsC; subst hsB; subst hsA
    show (((it.stash.push (PathEl.MoveTo p0)).push (PathEl.LineTo q)).push (PathEl.LineTo p0)).push PathEl.ClosePath = _
    rw [a7]; rfl
  have hixD : sD.stash_ix = 0 := by subst hsD; subst hsC; subst hsB; subst hsA; exact a8
  obtain ⟨n', fuel', h1, h2⟩ := c13b_collect_replay_cp_fwd 4 sD n 99995 []
    (by rw [hstashD, hixD]; rfl) (by subst hsD; rfl)
    (by subst hsD; subst hsC; subst hsB; subst hsA; exact a9)
    (by subst hsD; subst hsC; rfl) (by omega) (by omega)
  rw [h2]
  obtain ⟨fuel'', rfl⟩ : ∃ x, fuel' = x + 1 := ⟨fuel' - 1, by omega⟩
  rw [c13b_collect_end_fwd sD.c13b_afterClose n' fuel'' _ rfl
    (by subst hsD; subst hsC; subst hsB; subst hsA; exact a9) rfl
    (by subst hsD; subst hsC; rfl)]
  rw [hstashD, hixD]
  simp

/-- `dash` returns on a closed sub-path over ℝ: `M (0,0) L (1,0) Z` with pattern [4], offset 0 (`steps = 0`) -/
theorem c13b_exReal_closed_ok : ∃ (_ : Scalar ℝ) (_ : LawfulScalar ℝ) (_ : LawfulHypotSq ℝ),
    dash [.MoveTo ⟨0, 0⟩, .LineTo ⟨1, 0⟩, .ClosePath] (0 : ℝ) #[4] 10
      = .ok [.MoveTo ⟨0, 0⟩, .LineTo ⟨1, 0⟩, .LineTo ⟨0, 0⟩, .ClosePath] ∧
    (∀ i, (h : i < (#[4] : Array ℝ).size) → 0 < (#[4] : Array ℝ)[i]) ∧
    (∀ k < 0, prefixSum (#[4] : Array ℝ) k < 0) ∧ (0 : ℝ) ≤ prefixSum #[4] 0 := by
  let _ := realScalar
  have _ := realScalar_lawful
  have hps : prefixSum (#[4] : Array ℝ) 0 = 4 := by simp [prefixSum, cyc, patOf]
  have hlast : (0 : ℝ) ≤ prefixSum #[4] 0 := by rw [hps]; norm_num
  have hpos : ∀ i, (h : i < (#[4] : Array ℝ).size) → 0 < (#[4] : Array ℝ)[i] := by
    intro i hi
    have hi' : i < 1 := hi
    interval_cases i
    simp
  refine ⟨realScalar, realScalar_lawful, realScalar_lawfulHypotSq, ?_, hpos, fun k hk => absurd hk (Nat.not_lt_zero k), hlast⟩
  obtain ⟨it, h1, -, h3, h4, -, -⟩ := dashImpl_phase [.MoveTo ⟨0, 0⟩, .LineTo ⟨1, 0⟩, .ClosePath] (#[4] : Array ℝ)
    (by decide) 0 0 100000 (by omega) (fun k hk => absurd hk (Nat.not_lt_zero k)) hlast
  have e1 : (Line.mk (⟨0, 0⟩ : Point ℝ) ⟨1, 0⟩).arclen 0 = 1 := by
    show Real.sqrt ((1 - 0) * (1 - 0) + (0 - 0) * (0 - 0)) = 1
    rw [show ((1 : ℝ) - 0) * (1 - 0) + (0 - 0) * (0 - 0) = 1 by norm_num, Real.sqrt_one]
  have e2 : (Line.mk (⟨1, 0⟩ : Point ℝ) ⟨0, 0⟩).arclen 0 = 1 := by
    show Real.sqrt ((0 - 1) * (0 - 1) + (0 - 0) * (0 - 0)) = 1
    rw [show ((0 : ℝ) - 1) * (0 - 1) + (0 - 0) * (0 - 0) = 1 by norm_num, Real.sqrt_one]
  refine c13b_dash_closed_short ⟨0, 0⟩ ⟨1, 0⟩ 0 #[4] 10 it h1 (by decide) ?_ (by rw [h4]; rfl) ?_ ?_ (by omega)
  · intro h
    have := congrArg Point.x h
    norm_num at this
  · rw [h3, hps, e1]; norm_num
  · rw [h3, hps, e1, e2]; norm_num

end Kurbo
