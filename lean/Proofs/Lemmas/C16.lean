import Kurbo.Svg
/-! Helper lemmas for C16/C14 (SVG path lexer): index invariants and panic freedom of the lexer functions.
    Everything is for an arbitrary `[Scalar K]`. -/
namespace Kurbo

/-- the lexer index is inside the buffer (`ix = size` = at the end) -/
def Lx.WF (l : Lx) : Prop := l.ix ≤ l.data.size

/-- `l'` is `l` moved forward (weakly) over the same bytes, staying inside the buffer if `l` was -/
structure Lx.Le (l l' : Lx) : Prop where
  data : l'.data = l.data
  ix : l.ix ≤ l'.ix
  wf : l.WF → l'.WF

/-- `l'` is `l` moved forward by at least one byte -/
structure Lx.Lt (l l' : Lx) : Prop where
  data : l'.data = l.data
  ix : l.ix < l'.ix
  wf : l.WF → l'.WF

theorem Lx.Le.refl (l : Lx) : l.Le l := ⟨rfl, Nat.le_refl _, id⟩
theorem Lx.Le.trans {a b c : Lx} (h1 : a.Le b) (h2 : b.Le c) : a.Le c :=
  ⟨h2.data.trans h1.data, Nat.le_trans h1.ix h2.ix, fun h => h2.wf (h1.wf h)⟩
theorem Lx.Lt.le {a b : Lx} (h : a.Lt b) : a.Le b := ⟨h.data, Nat.le_of_lt h.ix, h.wf⟩
theorem Lx.Lt.trans_le {a b c : Lx} (h1 : a.Lt b) (h2 : b.Le c) : a.Lt c :=
  ⟨h2.data.trans h1.data, Nat.lt_of_lt_of_le h1.ix h2.ix, fun h => h2.wf (h1.wf h)⟩
theorem Lx.Le.trans_lt {a b c : Lx} (h1 : a.Le b) (h2 : b.Lt c) : a.Lt c :=
  ⟨h2.data.trans h1.data, Nat.lt_of_le_of_lt h1.ix h2.ix, fun h => h2.wf (h1.wf h)⟩

/-! ### `getByte`, `unget` -/

theorem getByte_lt {l l' : Lx} {c : UInt8} (h : getByte l = some (c, l')) : l.Lt l' := by
  obtain ⟨hd, hi, hlt⟩ := getByte_spec h
  exact ⟨hd, by omega, fun _ => by unfold Lx.WF; rw [hd, hi]; omega⟩

theorem getByte_none {l : Lx} (h : getByte l = none) : l.data.size ≤ l.ix := by
  unfold getByte at h
  split at h
  · simp at h
  · omega

theorem getByte_eq_none_iff {l : Lx} : getByte l = none ↔ l.data.size ≤ l.ix := by
  constructor
  · exact getByte_none
  · intro h; unfold getByte; rw [dif_neg (by omega)]

theorem getByte_eq_some {l : Lx} (h : l.ix < l.data.size) :
    getByte l = some (l.data[l.ix], { l with ix := l.ix + 1 }) := by
  unfold getByte; rw [dif_pos h]

/-- every `unget` of the lexer happens right after a successful `getByte`, hence at `ix ≥ 1` -/
theorem unget_after_getByte {l l' : Lx} {c : UInt8} (h : getByte l = some (c, l')) : unget l' = some l := by
  obtain ⟨hd, hi, hlt⟩ := getByte_spec h
  unfold unget
  rw [if_neg (by omega)]
  cases l; cases l'; simp_all

theorem unget_some {l l' : Lx} (h : unget l = some l') : l'.data = l.data ∧ l'.ix + 1 = l.ix := by
  unfold unget at h
  split at h
  · simp at h
  · simp only [Option.some.injEq] at h; subst h; exact ⟨rfl, by simp; omega⟩

/-! ### `skipWs` -/

theorem skipWs_le (l : Lx) : l.Le (skipWs l) := by
  fun_induction skipWs l with
  | case1 l h hw ih =>
    have h1 : l.Le { l with ix := l.ix + 1 } := ⟨rfl, Nat.le_succ _, fun _ => h⟩
    exact h1.trans ih
  | case2 l h hw => exact Lx.Le.refl _
  | case3 l h => exact Lx.Le.refl _

/-- after `skipWs` the lexer is at the end or at a non-white-space byte -/
theorem skipWs_stop (l : Lx) (h : (skipWs l).ix < (skipWs l).data.size) :
    isWs (skipWs l).data[(skipWs l).ix] = false := by
  fun_induction skipWs l with
  | case1 l h hw ih => exact ih h
  | case2 l h' hw => simpa using hw
  | case3 l h' => omega

theorem skipWs_idem (l : Lx) : skipWs (skipWs l) = skipWs l := by
  generalize hm : skipWs l = m
  unfold skipWs
  split
  · rename_i h
    have := skipWs_stop l (by rw [hm]; exact h)
    simp only [hm] at this
    rw [if_neg (by simp [this])]
  · rfl

/-! ### the digit loops -/

theorem digitsLoop_ne_panic (l : Lx) (cnt : Nat) (seen : Bool) : digitsLoop l cnt seen ≠ .panic := by
  fun_induction digitsLoop l cnt seen with
  | case1 => simp
  | case2 _ _ _ _ _ _ _ ih => exact ih
  | case3 _ _ _ _ _ _ _ _ ih => exact ih
  | case4 => simp
  | case5 l cnt seen c l' h _ _ hu =>
    rw [unget_after_getByte h] at hu; simp at hu

theorem digitsLoop_no_err (l : Lx) (cnt : Nat) (seen : Bool) (e : SvgErr) : digitsLoop l cnt seen ≠ .err e := by
  fun_induction digitsLoop l cnt seen with
  | case1 => simp
  | case2 _ _ _ _ _ _ _ ih => exact ih
  | case3 _ _ _ _ _ _ _ _ ih => exact ih
  | case4 => simp
  | case5 l cnt seen c l' h _ _ hu => simp

/-- the digit loop moves forward, and counts at most as many digits as it consumes bytes -/
theorem digitsLoop_ok {l : Lx} {cnt : Nat} {seen : Bool} {n : Nat} {l' : Lx}
    (h : digitsLoop l cnt seen = .ok n l') : l.Le l' ∧ cnt ≤ n ∧ n - cnt ≤ l'.ix - l.ix := by
  fun_induction digitsLoop l cnt seen with
  | case1 l cnt seen hg =>
    simp only [LR.ok.injEq] at h; obtain ⟨rfl, rfl⟩ := h
    exact ⟨Lx.Le.refl _, Nat.le_refl _, by omega⟩
  | case2 l cnt seen c l1 hg hd ih =>
    obtain ⟨h1, h2, h3⟩ := ih h
    have hl := getByte_lt hg
    have := hl.ix
    have := h1.ix
    exact ⟨hl.le.trans h1, by omega, by omega⟩
  | case3 l cnt seen c l1 hg hd hdot ih =>
    obtain ⟨h1, h2, h3⟩ := ih h
    have hl := getByte_lt hg
    have := hl.ix
    have := h1.ix
    exact ⟨hl.le.trans h1, by omega, by omega⟩
  | case4 l cnt seen c l1 hg hd hdot l2 hu =>
    simp only [LR.ok.injEq] at h; obtain ⟨rfl, rfl⟩ := h
    rw [unget_after_getByte hg] at hu
    simp only [Option.some.injEq] at hu; subst hu
    exact ⟨Lx.Le.refl _, Nat.le_refl _, by omega⟩
  | case5 l cnt seen c l' hg _ _ hu => simp at h

theorem expDigits_ne_panic (l : Lx) : expDigits l ≠ .panic := by
  fun_induction expDigits l with
  | case1 => simp
  | case2 => simp
  | case3 l c l' h _ hu =>
    rw [unget_after_getByte h] at hu; simp at hu
  | case4 _ _ _ _ _ ih => exact ih

theorem expDigits_no_err (l : Lx) (e : SvgErr) : expDigits l ≠ .err e := by
  fun_induction expDigits l with
  | case1 => simp
  | case2 => simp
  | case3 l c l' h _ hu => simp
  | case4 _ _ _ _ _ ih => exact ih

theorem expDigits_ok {l : Lx} {u : Unit} {l' : Lx} (h : expDigits l = .ok u l') : l.Le l' := by
  fun_induction expDigits l with
  | case1 l hg =>
    simp only [LR.ok.injEq] at h; obtain ⟨_, rfl⟩ := h
    exact Lx.Le.refl _
  | case2 l c l1 hg hd l2 hu =>
    simp only [LR.ok.injEq] at h; obtain ⟨_, rfl⟩ := h
    rw [unget_after_getByte hg] at hu
    simp only [Option.some.injEq] at hu; subst hu
    exact Lx.Le.refl _
  | case3 l c l' hg _ hu => simp at h
  | case4 l c l1 hg hd ih => exact (getByte_lt hg).le.trans (ih h)

/-! ### `getNumber` -/

/-- the exponent part of `getNumber` (the `afterExp` block of the model), as a function of the lexer after the mantissa -/
def expPart (l3 : Lx) : LR Unit :=
  match getByte l3 with
  | none => .ok () l3
  | some (c, l4) =>
    if c == 101 || c == 69 then
      match getByte l4 with
      | none => .err .wrong
      | some (c1, l5) =>
        let sd : LR UInt8 :=
          if c1 == 45 || c1 == 43 then
            match getByte l5 with
            | none => .err .wrong
            | some (c2, l6) => .ok c2 l6
          else .ok c1 l5
        match sd with
        | .ok cd l7 => if !isDigit cd then .err .wrong else expDigits l7
        | .err e => .err e
        | .panic => .panic
    else
      match unget l4 with
      | some l5 => .ok () l5
      | none => .panic

theorem expPart_ne_panic (l : Lx) : expPart l ≠ .panic := by
  unfold expPart
  split
  · simp
  · rename_i c l4 hg
    split
    · split
      · simp
      · simp only
        split
        · rename_i hsd
          split
          · simp
          · exact expDigits_ne_panic _
        · simp
        · rename_i hsd
          split at hsd
          · split at hsd <;> simp at hsd
          · simp at hsd
    · rw [unget_after_getByte hg]; simp

theorem expPart_err {l : Lx} {e : SvgErr} (h : expPart l = .err e) : e = .wrong := by
  unfold expPart at h
  split at h
  · simp at h
  · rename_i c l4 hg
    split at h
    · split at h
      · simp at h; exact h.symm
      · simp only at h
        split at h
        · split at h
          · simp at h; exact h.symm
          · exact absurd h (expDigits_no_err _ _)
        · rename_i hsd
          split at hsd
          · split at hsd
            · simp at hsd h; rw [← h, ← hsd]
            · simp at hsd
          · simp at hsd
        · simp at h
    · rw [unget_after_getByte hg] at h; simp at h

theorem expPart_ok {l : Lx} {u : Unit} {l' : Lx} (h : expPart l = .ok u l') : l.Le l' := by
  unfold expPart at h
  split at h
  · simp only [LR.ok.injEq] at h; obtain ⟨_, rfl⟩ := h; exact Lx.Le.refl _
  · rename_i c l4 hg
    split at h
    · split at h
      · simp at h
      · rename_i c1 l5 hg5
        simp only at h
        split at h
        · rename_i cd l7 hsd
          have h47 : l4.Le l7 := by
            split at hsd
            · split at hsd
              · simp at hsd
              · rename_i c2 l6 hg6
                simp only [LR.ok.injEq] at hsd; obtain ⟨_, rfl⟩ := hsd
                exact (getByte_lt hg5).le.trans (getByte_lt hg6).le
            · simp only [LR.ok.injEq] at hsd; obtain ⟨_, rfl⟩ := hsd
              exact (getByte_lt hg5).le
          split at h
          · simp at h
          · exact (getByte_lt hg).le.trans (h47.trans (expDigits_ok h))
        · simp at h
        · simp at h
    · rw [unget_after_getByte hg] at h
      simp only [LR.ok.injEq] at h; obtain ⟨_, rfl⟩ := h; exact Lx.Le.refl _

section
variable {K : Type} [Scalar K]

/-- `getNumber` written with `expPart` and with the sign step simplified (`unget` right after `getByte` restores the lexer) -/
theorem getNumber_eq (l0 : Lx) : getNumber (K := K) l0 =
    (match getByte (skipWs l0) with
     | none => .err .unexpectedEof
     | some (c, l1) =>
       match digitsLoop (if c == 45 || c == 43 then l1 else skipWs l0) 0 false with
       | .panic => .panic
       | .err e => .err e
       | .ok n l3 =>
         match expPart l3 with
         | .panic => .panic
         | .err e => .err e
         | .ok _ l8 =>
           if n > 0 then .ok (tokValue (parseTok ((l8.data.extract (skipWs l0).ix l8.ix).toList))) l8
           else .err .wrong) := by
  unfold getNumber
  simp only
  cases hg : getByte (skipWs l0) with
  | none => rfl
  | some p =>
    obtain ⟨c, l1⟩ := p
    simp only
    have hu := unget_after_getByte hg
    by_cases hc : (c == 45 || c == 43) = true
    · simp only [hc, Bool.not_true, Bool.false_eq_true, if_false, if_true]
      rfl
    · simp only [hc, Bool.not_false, if_true, hu, if_false, Bool.false_eq_true]
      rfl


theorem getNumber_ne_panic (l0 : Lx) : getNumber (K := K) l0 ≠ .panic := by
  rw [getNumber_eq]
  split
  · simp
  · split
    · rename_i h; exact absurd h (digitsLoop_ne_panic _ _ _)
    · simp
    · split
      · rename_i h; exact absurd h (expPart_ne_panic _)
      · simp
      · split <;> simp

theorem getNumber_err {l0 : Lx} {e : SvgErr} (h : getNumber (K := K) l0 = .err e) : e = .wrong ∨ e = .unexpectedEof := by
  rw [getNumber_eq] at h
  split at h
  · simp at h; exact .inr h.symm
  · split at h
    · simp at h
    · rename_i h'; exact absurd h' (digitsLoop_no_err _ _ _ _)
    · split at h
      · simp at h
      · rename_i h'; simp at h; subst h; exact .inl (expPart_err h')
      · split at h <;> simp at h
        exact .inl h.symm

theorem getNumber_eof_iff (l0 : Lx) :
    getNumber (K := K) l0 = .err .unexpectedEof ↔ (skipWs l0).data.size ≤ (skipWs l0).ix := by
  rw [← getByte_eq_none_iff]
  constructor
  · intro h
    rw [getNumber_eq] at h
    split at h
    · assumption
    · split at h
      · simp at h
      · rename_i h'; exact absurd h' (digitsLoop_no_err _ _ _ _)
      · split at h
        · simp at h
        · rename_i h'; simp at h; subst h; have := expPart_err h'; simp at this
        · split at h <;> simp at h
  · intro h
    rw [getNumber_eq, h]

theorem getNumber_ok {l0 l' : Lx} {x : K} (h : getNumber (K := K) l0 = .ok x l') : l0.Lt l' := by
  rw [getNumber_eq] at h
  split at h
  · simp at h
  · rename_i c l1 hg
    split at h
    · simp at h
    · simp at h
    · rename_i n l3 hd
      split at h
      · simp at h
      · simp at h
      · rename_i u l8 he
        split at h
        · rename_i hn
          simp only [LR.ok.injEq] at h; obtain ⟨_, rfl⟩ := h
          obtain ⟨h1, h2, h3⟩ := digitsLoop_ok hd
          have h4 := expPart_ok he
          have h0 := skipWs_le l0
          have h12 : (skipWs l0).Le (if (c == 45 || c == 43) = true then l1 else skipWs l0) := by
            split
            · exact (getByte_lt hg).le
            · exact Lx.Le.refl _
          have h23 : Lx.Lt (if (c == 45 || c == 43) = true then l1 else skipWs l0) l3 :=
            ⟨h1.data, by omega, h1.wf⟩
          exact (h0.trans h12).trans_lt (h23.trans_le h4)
        · simp at h


theorem digitsLoop_stop {l l1 : Lx} {c : UInt8} (cnt : Nat) (seen : Bool) (hg : getByte l = some (c, l1))
    (hd : isDigit c = false) (hdot : (c == 46 && !seen) = false) : digitsLoop l cnt seen = .ok cnt l := by
  unfold digitsLoop
  split
  · rename_i h; rw [hg] at h
  · rename_i c' l' h
    rw [hg] at h; simp only [Option.some.injEq, Prod.mk.injEq] at h; obtain ⟨rfl, rfl⟩ := h
    simp only [hd, hdot, Bool.false_eq_true, if_false, unget_after_getByte hg]

/-- a number position whose first non-white-space byte is not a digit, sign or period gives `Wrong` -/
theorem getNumber_wrong_of_start {l0 l1 : Lx} {c : UInt8} (hg : getByte (skipWs l0) = some (c, l1))
    (hd : isDigit c = false) (h43 : c ≠ 43) (h45 : c ≠ 45) (h46 : c ≠ 46) :
    getNumber (K := K) l0 = .err .wrong := by
  rw [getNumber_eq, hg]
  simp only
  have h1 : (c == 45 || c == 43) = false := by simp [h43, h45]
  rw [h1]; simp only [Bool.false_eq_true, if_false]
  rw [digitsLoop_stop 0 false hg hd (by simp [h46])]
  simp only
  split
  · rename_i h; exact absurd h (expPart_ne_panic _)
  · rename_i h; rw [expPart_err h]
  · simp

/-! ### `optComma`, `getFlag`, `getNumberPair`, `getMaybeRelative`, `getCmd` -/

theorem optComma_some (l0 : Lx) : ∃ l', optComma l0 = some l' ∧ l0.Le l' := by
  unfold optComma
  simp only
  split
  · exact ⟨_, rfl, skipWs_le l0⟩
  · rename_i c l1 hg
    split
    · exact ⟨_, unget_after_getByte hg, skipWs_le l0⟩
    · exact ⟨_, rfl, (skipWs_le l0).trans (getByte_lt hg).le⟩

theorem optComma_ne_panic (l0 : Lx) : optComma l0 ≠ none := by
  obtain ⟨l', h, _⟩ := optComma_some l0; rw [h]; simp

theorem optComma_le {l0 l' : Lx} (h : optComma l0 = some l') : l0.Le l' := by
  obtain ⟨l'', h', hle⟩ := optComma_some l0
  rw [h] at h'; simp only [Option.some.injEq] at h'; subst h'; exact hle

theorem getFlag_ne_panic (l0 : Lx) : getFlag l0 ≠ .panic := by
  unfold getFlag; simp only
  split
  · simp
  · split
    · simp
    · split <;> simp

theorem getFlag_ok {l0 l' : Lx} {b : Bool} (h : getFlag l0 = .ok b l') : l0.Lt l' := by
  unfold getFlag at h; simp only at h
  split at h
  · simp at h
  · rename_i c l1 hg
    have := (skipWs_le l0).trans_lt (getByte_lt hg)
    split at h
    · simp only [LR.ok.injEq] at h; obtain ⟨_, rfl⟩ := h; exact this
    · split at h
      · simp only [LR.ok.injEq] at h; obtain ⟨_, rfl⟩ := h; exact this
      · simp at h

theorem getFlag_err {l0 : Lx} {e : SvgErr} (h : getFlag l0 = .err e) : e = .wrong ∨ e = .unexpectedEof := by
  unfold getFlag at h; simp only at h
  split at h
  · simp at h; exact .inr h.symm
  · split at h
    · simp at h
    · split at h
      · simp at h
      · simp at h; exact .inl h.symm

theorem getNumberPair_ne_panic (l : Lx) : getNumberPair (K := K) l ≠ .panic := by
  unfold getNumberPair
  split
  · rename_i h; exact absurd h (getNumber_ne_panic _)
  · simp
  · split
    · rename_i h; exact absurd h (optComma_ne_panic _)
    · split
      · rename_i h; exact absurd h (getNumber_ne_panic _)
      · simp
      · split
        · rename_i h; exact absurd h (optComma_ne_panic _)
        · simp

theorem getNumberPair_ok {l l' : Lx} {p : Point K} (h : getNumberPair (K := K) l = .ok p l') : l.Lt l' := by
  unfold getNumberPair at h
  split at h
  · simp at h
  · simp at h
  · rename_i x l1 h1
    split at h
    · simp at h
    · rename_i l2 h2
      split at h
      · simp at h
      · simp at h
      · rename_i y l3 h3
        split at h
        · simp at h
        · rename_i l4 h4
          simp only [LR.ok.injEq] at h; obtain ⟨_, rfl⟩ := h
          exact (getNumber_ok h1).trans_le ((optComma_le h2).trans ((getNumber_ok h3).le.trans (optComma_le h4)))

theorem getNumberPair_err {l : Lx} {e : SvgErr} (h : getNumberPair (K := K) l = .err e) :
    e = .wrong ∨ e = .unexpectedEof := by
  unfold getNumberPair at h
  split at h
  · simp at h
  · rename_i h1; simp at h; subst h; exact getNumber_err h1
  · split at h
    · simp at h
    · split at h
      · simp at h
      · rename_i h1; simp at h; subst h; exact getNumber_err h1
      · split at h <;> simp at h

theorem getMaybeRelative_ne_panic (cmd : UInt8) (p : Point K) (l : Lx) : getMaybeRelative cmd p l ≠ .panic := by
  unfold getMaybeRelative
  split
  · rename_i h; exact absurd h (getNumberPair_ne_panic _)
  · simp
  · split <;> simp

theorem getMaybeRelative_ok {cmd : UInt8} {p q : Point K} {l l' : Lx}
    (h : getMaybeRelative cmd p l = .ok q l') : l.Lt l' := by
  unfold getMaybeRelative at h
  split at h
  · simp at h
  · simp at h
  · rename_i h1
    split at h <;> (simp only [LR.ok.injEq] at h; obtain ⟨_, rfl⟩ := h; exact getNumberPair_ok h1)

theorem getMaybeRelative_err {cmd : UInt8} {p : Point K} {l : Lx} {e : SvgErr}
    (h : getMaybeRelative cmd p l = .err e) : e = .wrong ∨ e = .unexpectedEof := by
  unfold getMaybeRelative at h
  split at h
  · simp at h
  · rename_i h1; simp at h; subst h; exact getNumberPair_err h1
  · split at h <;> simp at h

/-- the byte can start a number: sign, period or digit -/
def isNumStart (c : UInt8) : Bool := c == 45 || c == 43 || c == 46 || isDigit c

/-- what `getCmd` returns: end of commands (`none`), a letter that was consumed, or – implicit repetition – the previous
    command with the lexer left *at* a byte that can start a number -/
theorem getCmd_cases (lc : UInt8) (l0 : Lx) :
    (∃ l', getCmd lc l0 = some (none, l') ∧ l0.Le l') ∨
    (∃ c l', getCmd lc l0 = some (some c, l') ∧ (isLower c || isUpper c) = true ∧ l0.Lt l') ∨
    (∃ c l1, getCmd lc l0 = some (some lc, skipWs l0) ∧ lc ≠ 0 ∧ getByte (skipWs l0) = some (c, l1) ∧ isNumStart c = true) := by
  unfold getCmd; simp only
  split
  · exact .inl ⟨_, rfl, skipWs_le l0⟩
  · rename_i c l1 hg
    split
    · rename_i hc
      exact .inr (.inl ⟨c, l1, rfl, hc, (skipWs_le l0).trans_lt (getByte_lt hg)⟩)
    · rw [unget_after_getByte hg]
      split
      · rename_i hc
        simp only [Bool.and_eq_true, bne_iff_ne, ne_eq] at hc
        exact .inr (.inr ⟨c, l1, rfl, hc.1, hg, hc.2⟩)
      · exact .inl ⟨_, rfl, skipWs_le l0⟩

theorem getCmd_ne_panic (lc : UInt8) (l0 : Lx) : getCmd lc l0 ≠ none := by
  rcases getCmd_cases lc l0 with ⟨l', h, _⟩ | ⟨c, l', h, _⟩ | ⟨c, l1, h, _⟩ <;> rw [h] <;> simp


end

end Kurbo
