import Proofs.Lemmas.C16Step
/-! Helper lemmas for C16: `getNumber` up to the end of the mantissa for arbitrary (also digit-free) input, and the malformed
    shapes that give `Wrong`. -/
namespace Kurbo
section
variable {K : Type} [Scalar K]

/-- `getNumber` up to the end of the mantissa, for any sign / digits / period / digits – also when there is no digit at all -/
theorem getNumber_mantissa_rem (l : Lx) (ws sign ip fd rest : List UInt8) (dot : Bool)
    (hws : ∀ c ∈ ws, isWs c = true) (hsign : IsSign sign) (hip : AllDigits ip) (hfd : AllDigits fd)
    (hfdnil : dot = false → fd = []) (hne : sign ≠ [] ∨ ip ≠ [] ∨ dot = true)
    (hr : StopsAt (fun c => isDigit c || (c == 46 && !dot)) rest)
    (hrem : l.rem = ws ++ (sign ++ ((ip ++ (if dot then 46 :: fd else [])) ++ rest))) :
    getNumber (K := K) l =
      match expPart (l.adv (ws.length + sign.length + (ip ++ (if dot then 46 :: fd else [])).length)) with
      | .panic => .panic
      | .err e => .err e
      | .ok _ l8 =>
        if ip.length + fd.length > 0 then
          .ok (tokValue (parseTok ((l8.data.extract (l.ix + ws.length) l8.ix).toList))) l8
        else .err .wrong := by
  -- the first byte of the mantissa if there is no sign
  have hm0 : sign = [] → ∃ m0 mr, (ip ++ (if dot then 46 :: fd else [])) = m0 :: mr ∧ m0 ≠ 43 ∧ m0 ≠ 45 ∧ isWs m0 = false := by
    intro hs
    cases ip with
    | cons d ds =>
      have := isDigit_ne (hip d List.mem_cons_self)
      exact ⟨d, _, rfl, this.1, this.2.1, this.2.2.2.2.2⟩
    | nil =>
      rcases hne with h | h | h
      · exact absurd hs h
      · exact absurd rfl h
      · rw [h]; exact ⟨46, fd, by simp, by decide, by decide, by decide⟩
  have hskip : skipWs l = l.adv ws.length := by
    apply skipWs_rem hrem hws
    intro c r' hc
    rcases hsign with hsg | hsg | hsg
    · obtain ⟨m0, mr, hm, -, -, hw⟩ := hm0 hsg
      rw [hsg, hm] at hc; simp only [List.nil_append, List.cons_append, List.cons.injEq] at hc
      rw [← hc.1]; exact hw
    · rw [hsg] at hc; simp only [List.cons_append, List.cons.injEq] at hc; rw [← hc.1]; decide
    · rw [hsg] at hc; simp only [List.cons_append, List.cons.injEq] at hc; rw [← hc.1]; decide
  have h0 : (l.adv ws.length).rem = sign ++ ((ip ++ (if dot then 46 :: fd else [])) ++ rest) := Lx.rem_adv hrem
  rw [getNumber_eq, hskip]
  have hsignstep : ∃ c l1, getByte (l.adv ws.length) = some (c, l1) ∧
      (if (c == 45 || c == 43) = true then l1 else l.adv ws.length) = (l.adv ws.length).adv sign.length := by
    rcases hsign with hsg | hsg | hsg
    · obtain ⟨m0, mr, hm, h43, h45, -⟩ := hm0 hsg
      rw [hsg, hm] at h0
      rw [hsg]
      exact ⟨m0, _, Lx.getByte_cons h0, by simp [h43, h45]⟩
    · rw [hsg] at h0 ⊢; exact ⟨43, _, Lx.getByte_cons h0, by simp⟩
    · rw [hsg] at h0 ⊢; exact ⟨45, _, Lx.getByte_cons h0, by simp⟩
  obtain ⟨c, l1, hg, hl2⟩ := hsignstep
  rw [hg]; simp only [hl2]
  have h1 : ((l.adv ws.length).adv sign.length).rem = (ip ++ (if dot then 46 :: fd else [])) ++ rest := Lx.rem_adv h0
  rw [digitsLoop_mantissa dot h1 hip hfd hfdnil hr]
  simp only [Lx.adv_adv, Lx.adv_ix]
  generalize expPart (l.adv (ws.length + sign.length + (ip ++ if dot = true then 46 :: fd else []).length)) = res
  cases res <;> rfl

/-- a sign and/or a period without any digit is `Wrong` (whatever follows) -/
theorem getNumber_wrong_no_digits (l : Lx) (ws sign rest : List UInt8) (dot : Bool)
    (hws : ∀ c ∈ ws, isWs c = true) (hsign : IsSign sign) (hne : sign ≠ [] ∨ dot = true)
    (hr : StopsAt (fun c => isDigit c || (c == 46 && !dot)) rest)
    (hrem : l.rem = ws ++ (sign ++ ((if dot then [46] else []) ++ rest))) : getNumber (K := K) l = .err .wrong := by
  have := getNumber_mantissa_rem (K := K) l ws sign [] [] rest dot hws hsign (by simp [AllDigits]) (by simp [AllDigits])
    (fun _ => rfl) (by rcases hne with h | h; exact .inl h; exact .inr (.inr h)) hr (by simpa using hrem)
  rw [this]
  split
  · rename_i h; exact absurd h (expPart_ne_panic _)
  · rename_i h; rw [expPart_err h]
  · simp

/-- a mantissa followed by `e`/`E` and an optional sign but no digit is `Wrong` -/
theorem getNumber_wrong_bad_exponent (l : Lx) (ws rest : List UInt8) (p : NumParts) (e : UInt8) (esign : List UInt8)
    (hv : p.Valid) (hnoexp : p.hasExp = false) (hws : ∀ c ∈ ws, isWs c = true) (he : e = 101 ∨ e = 69) (hes : IsSign esign)
    (hr : StopsAt isDigit rest) (hr' : esign = [] → StopsAt (fun c => c == 45 || c == 43) rest)
    (hrem : l.rem = ws ++ p.bytes ++ (e :: esign ++ rest)) : getNumber (K := K) l = .err .wrong := by
  have hbytes : p.bytes = p.sign ++ (p.ip ++ (if p.dot then 46 :: p.fd else [])) := by
    simp [NumParts.bytes, NumParts.mantBytes, NumParts.expBytes, hnoexp]
  have hne : p.sign ≠ [] ∨ p.ip ≠ [] ∨ p.dot = true := by
    by_cases h1 : p.ip = []
    · right; right
      cases hd : p.dot with
      | true => rfl
      | false => have := hv.digits; rw [hv.fd_nil hd, h1] at this; simp at this
    · exact .inr (.inl h1)
  have hee : (e == 101 || e == 69) = true := by rcases he with rfl | rfl <;> decide
  have hstop : StopsAt (fun c => isDigit c || (c == 46 && !p.dot)) (e :: esign ++ rest) := by
    apply StopsAt.cons
    rcases he with rfl | rfl <;> simp <;> decide
  have := getNumber_mantissa_rem (K := K) l ws p.sign p.ip p.fd (e :: esign ++ rest) p.dot hws hv.sign hv.ip hv.fd
    hv.fd_nil hne hstop (by rw [hrem, hbytes]; simp)
  rw [this]
  -- the exponent part fails
  have hl3 : (l.adv (ws.length + p.sign.length + (p.ip ++ (if p.dot then 46 :: p.fd else [])).length)).rem =
      e :: (esign ++ rest) := by
    have h' : l.rem = (ws ++ p.sign ++ (p.ip ++ (if p.dot then 46 :: p.fd else []))) ++ (e :: (esign ++ rest)) := by
      rw [hrem, hbytes]; simp
    have := Lx.rem_adv h'
    simpa [Nat.add_assoc] using this
  generalize (l.adv (ws.length + p.sign.length + (p.ip ++ (if p.dot then 46 :: p.fd else [])).length)) = l3 at hl3 ⊢
  have hexp : expPart l3 = .err .wrong := by
    unfold expPart
    rw [Lx.getByte_cons hl3]
    have h4 := Lx.rem_adv_one hl3
    simp only [hee, if_true]
    rcases hes with rfl | rfl | rfl
    · simp only [List.nil_append] at h4
      cases rest with
      | nil => rw [Lx.rem_nil h4]
      | cons c r' =>
        rw [Lx.getByte_cons h4]
        have h1 := hr c r' rfl
        have h2 := hr' rfl c r' rfl
        simp only at h2
        simp only [h2, Bool.false_eq_true, if_false, h1, Bool.not_false, if_true]
    · have h4' : (l3.adv 1).rem = 43 :: rest := h4
      rw [Lx.getByte_cons h4']
      have h5 := Lx.rem_adv_one h4'
      have : ((43 : UInt8) == 45 || (43 : UInt8) == 43) = true := by decide
      simp only [this, if_true]
      cases rest with
      | nil => rw [Lx.rem_nil h5]
      | cons c r' =>
        rw [Lx.getByte_cons h5]
        simp only [hr c r' rfl, Bool.not_false, if_true]
    · have h4' : (l3.adv 1).rem = 45 :: rest := h4
      rw [Lx.getByte_cons h4']
      have h5 := Lx.rem_adv_one h4'
      have : ((45 : UInt8) == 45 || (45 : UInt8) == 43) = true := by decide
      simp only [this, if_true]
      cases rest with
      | nil => rw [Lx.rem_nil h5]
      | cons c r' =>
        rw [Lx.getByte_cons h5]
        simp only [hr c r' rfl, Bool.not_false, if_true]
  rw [hexp]
end

-- decidable equality of results, for the concrete `decide +kernel` examples
deriving instance DecidableEq for Lx, LR, SvgSt, SvgRes

end Kurbo
