import Proofs.KDefs
import Proofs.Lemmas.C13
import Proofs.C06
import Mathlib.Algebra.BigOperators.Group.Finset.Basic
import Mathlib.Algebra.Order.BigOperators.Group.Finset
import Mathlib.Algebra.Order.Archimedean.Basic
import Mathlib.Tactic.LinearCombination
/-! Arithmetic side of C13.
    * the specification of dashing by arc length: a pattern position `Ph` (index, remaining length of the entry, on/off),
      `walk` (advance the position by a length, returning the on-length covered), `walk_add` ("vertices are invisible"),
      conservation over a polyline (`walkList_eq_walk`);
    * `dashInitLoop` computes the position of the offset in the periodic pattern;
    * the geometry of one `step` on a straight segment (needs `hypot² = x² + y²`, `hypot ≥ 0`: `LawfulHypotSq`). -/
set_option linter.unusedSectionVars false
namespace Kurbo
namespace DashSpec
variable {K : Type} [Field K] [LinearOrder K] [IsStrictOrderedRing K]

/-- position in the dash pattern: index of the entry, length of it still ahead, whether it is an "on" entry -/
structure Ph (K : Type) where
  ix : Nat
  rem : K
  act : Bool
deriving DecidableEq

/-- switch to the next pattern entry (`dash_ix + 1` with wrap-around, `is_active = !is_active`);
    the pattern is `pat 0, …, pat (n-1)` repeated -/
def Ph.next (n : Nat) (pat : Nat → K) (ph : Ph K) : Ph K :=
  ⟨(ph.ix + 1) % n, pat ((ph.ix + 1) % n), !ph.act⟩

/-- length counted if the entry is an "on" entry -/
def onPart (act : Bool) (x : K) : K := if act then x else 0

theorem onPart_add (act : Bool) (x y : K) : onPart act x + onPart act y = onPart act (x + y) := by
  unfold onPart; cases act <;> simp

theorem onPart_nonneg (act : Bool) (x : K) (h : 0 ≤ x) : 0 ≤ onPart act x := by
  unfold onPart; cases act <;> simp [h]

theorem onPart_le (act : Bool) (x : K) (h : 0 ≤ x) : onPart act x ≤ x := by
  unfold onPart; cases act <;> simp [h]

/-- advance by a stretch of arc length `l`: returns the on-length covered and the position at the end
    (fuel = maximal number of switches + 1).  This is literally what the iterator does to one straight segment of length `l`:
    `while dash_remaining < seg_remaining { switch }; dash_remaining -= seg_remaining`. -/
def walk (n : Nat) (pat : Nat → K) : Nat → Ph K → K → Option (K × Ph K)
  | 0, _, _ => none
  | f + 1, ph, l =>
    if ph.rem < l then
      match walk n pat f (ph.next n pat) (l - ph.rem) with
      | some (o, ph') => some (onPart ph.act ph.rem + o, ph')
      | none => none
    else some (onPart ph.act l, { ph with rem := ph.rem - l })

/-- position after advancing by `l` -/
def advance (n : Nat) (pat : Nat → K) (f : Nat) (ph : Ph K) (l : K) : Option (Ph K) := (walk n pat f ph l).map (·.2)
/-- on-length between a position and the position `l` further -/
def onLength (n : Nat) (pat : Nat → K) (f : Nat) (ph : Ph K) (l : K) : Option K := (walk n pat f ph l).map (·.1)

/-- inside one entry: the on-length is `l` or `0`, the entry gets shorter by `l` -/
theorem walk_within (n : Nat) (pat : Nat → K) (f : Nat) (ph : Ph K) (l : K) (h : l ≤ ph.rem) :
    walk n pat (f + 1) ph l = some (onPart ph.act l, { ph with rem := ph.rem - l }) := by
  unfold walk; rw [if_neg (not_lt.mpr h)]

/-- across a switch: finish the entry, go on in the next one -/
theorem walk_switch (n : Nat) (pat : Nat → K) (f : Nat) (ph : Ph K) (l : K) (h : ph.rem < l) :
    walk n pat (f + 1) ph l = (walk n pat f (ph.next n pat) (l - ph.rem)).map
      fun r => (onPart ph.act ph.rem + r.1, r.2) := by
  conv_lhs => unfold walk
  rw [if_pos h]
  cases walk n pat f (ph.next n pat) (l - ph.rem) <;> rfl

theorem walk_mono (n : Nat) (pat : Nat → K) (f k : Nat) (ph : Ph K) (l : K) (r : K × Ph K)
    (h : walk n pat f ph l = some r) : walk n pat (f + k) ph l = some r := by
  induction f generalizing ph l r with
  | zero => simp [walk] at h
  | succ f ih =>
    have e : f + 1 + k = (f + k) + 1 := by omega
    rw [e]
    unfold walk at h ⊢
    by_cases hlt : ph.rem < l
    · rw [if_pos hlt] at h ⊢
      cases hc : walk n pat f (ph.next n pat) (l - ph.rem) with
      | none => rw [hc] at h; simp at h
      | some q =>
        rw [hc] at h
        rw [ih _ _ _ hc]
        exact h
    · rw [if_neg hlt] at h ⊢
      exact h

/-- **Vertices are invisible.** Walking `l1` and then `l2` covers the same on-length and ends in the same position as
    walking `l1 + l2` in one piece (also when a switch falls exactly on the vertex: the strict `<` leaves `rem = 0` and
    the switch happens at the start of the second stretch). -/
theorem walk_add (n : Nat) (pat : Nat → K) (f m : Nat) (ph ph1 ph2 : Ph K) (l1 l2 o1 o2 : K) (h2 : 0 ≤ l2)
    (c1 : walk n pat f ph l1 = some (o1, ph1)) (c2 : walk n pat m ph1 l2 = some (o2, ph2)) :
    walk n pat (f + m) ph (l1 + l2) = some (o1 + o2, ph2) := by
  induction f generalizing ph l1 o1 with
  | zero => simp [walk] at c1
  | succ f ih =>
    have e : f + 1 + m = (f + m) + 1 := by omega
    rw [e]
    unfold walk at c1
    by_cases hlt : ph.rem < l1
    · -- a switch inside the first stretch
      rw [if_pos hlt] at c1
      cases hc : walk n pat f (ph.next n pat) (l1 - ph.rem) with
      | none => rw [hc] at c1; simp at c1
      | some q =>
        obtain ⟨o1', ph1'⟩ := q
        rw [hc] at c1
        simp only [Option.some.injEq, Prod.mk.injEq] at c1
        obtain ⟨ho, hp⟩ := c1
        subst hp
        have := ih (ph.next n pat) (l1 - ph.rem) o1' hc
        unfold walk
        rw [if_pos (by linarith)]
        have e2 : l1 + l2 - ph.rem = l1 - ph.rem + l2 := by ring
        rw [e2, this]
        simp only [Option.some.injEq, Prod.mk.injEq, and_true]
        rw [← ho]; ring
    · -- the first stretch ends inside the current entry
      rw [if_neg hlt] at c1
      simp only [Option.some.injEq, Prod.mk.injEq] at c1
      obtain ⟨ho, hp⟩ := c1
      subst hp
      cases m with
      | zero => simp [walk] at c2
      | succ m =>
        unfold walk at c2 ⊢
        simp only at c2
        by_cases hlt2 : ph.rem - l1 < l2
        · rw [if_pos hlt2] at c2
          rw [if_pos (by linarith)]
          have hnext : Ph.next n pat { ph with rem := ph.rem - l1 } = ph.next n pat := rfl
          rw [hnext] at c2
          cases hc : walk n pat m (ph.next n pat) (l2 - (ph.rem - l1)) with
          | none => rw [hc] at c2; simp at c2
          | some q =>
            obtain ⟨o2', ph2'⟩ := q
            rw [hc] at c2
            simp only [Option.some.injEq, Prod.mk.injEq] at c2
            obtain ⟨ho2, hp2⟩ := c2
            subst hp2
            have e2 : l1 + l2 - ph.rem = l2 - (ph.rem - l1) := by ring
            have e3 : f + (m + 1) = m + (f + 1) := by omega
            rw [e2, e3, walk_mono n pat m (f + 1) _ _ _ hc]
            simp only [Option.some.injEq, Prod.mk.injEq, and_true]
            rw [← ho, ← ho2, ← add_assoc, onPart_add]
            congr 2; ring
        · rw [if_neg hlt2] at c2
          rw [if_neg (by linarith)]
          simp only [Option.some.injEq, Prod.mk.injEq] at c2 ⊢
          obtain ⟨ho2, hp2⟩ := c2
          subst hp2
          refine ⟨?_, ?_⟩
          · rw [← ho, ← ho2, onPart_add]
          · simp only [Ph.mk.injEq, true_and, and_true]; ring

/-! ### conservation over a polyline -/

/-- walk the segments of a polyline one after the other (fuel `f` for each segment): total on-length and final position -/
def walkList (n : Nat) (pat : Nat → K) (f : Nat) : Ph K → List K → Option (K × Ph K)
  | ph, [] => some (0, ph)
  | ph, l :: ls =>
    match walk n pat f ph l with
    | none => none
    | some (o, ph1) =>
      match walkList n pat f ph1 ls with
      | none => none
      | some (o', ph2) => some (o + o', ph2)

/-- **Conservation.** Dashing a polyline segment by segment covers the same on-length, and ends at the same pattern
    position, as dashing one straight stretch of the total length: the result depends on arc length only. -/
theorem walkList_eq_walk (n : Nat) (pat : Nat → K) (f : Nat) : ∀ (ls : List K) (l : K) (ph ph' : Ph K) (o : K),
    (∀ x ∈ ls, 0 ≤ x) → walkList n pat f ph (l :: ls) = some (o, ph') →
    walk n pat (f * (ls.length + 1)) ph (l + ls.sum) = some (o, ph')
  | [], l, ph, ph', o, _, h => by
    unfold walkList at h
    cases hc : walk n pat f ph l with
    | none => rw [hc] at h; simp at h
    | some q =>
      obtain ⟨o1, ph1⟩ := q
      rw [hc] at h
      simp only [walkList, Option.some.injEq, Prod.mk.injEq] at h
      obtain ⟨h1, h2⟩ := h
      subst h2
      simp only [List.length_nil, Nat.zero_add, Nat.mul_one, List.sum_nil, add_zero]
      rw [hc, ← h1, add_zero]
  | l2 :: ls, l, ph, ph', o, hnn, h => by
    unfold walkList at h
    cases hc : walk n pat f ph l with
    | none => rw [hc] at h; simp at h
    | some q =>
      obtain ⟨o1, ph1⟩ := q
      rw [hc] at h
      simp only at h
      cases hc2 : walkList n pat f ph1 (l2 :: ls) with
      | none => rw [hc2] at h; simp at h
      | some q2 =>
        obtain ⟨o2, ph2⟩ := q2
        rw [hc2] at h
        simp only [Option.some.injEq, Prod.mk.injEq] at h
        obtain ⟨h1, h2⟩ := h
        subst h2
        have hnn' : ∀ x ∈ ls, 0 ≤ x := fun x hx => hnn x (List.mem_cons_of_mem _ hx)
        have ih := walkList_eq_walk n pat f ls l2 ph1 ph2 o2 hnn' hc2
        have hs : 0 ≤ l2 + ls.sum := add_nonneg (hnn l2 List.mem_cons_self) (List.sum_nonneg hnn')
        have := walk_add n pat f _ ph ph1 ph2 l (l2 + ls.sum) o1 o2 hs hc ih
        have e : f * ((l2 :: ls).length + 1) = f + f * (ls.length + 1) := by
          simp only [List.length_cons]; ring
        rw [e, List.sum_cons, this, h1]

/-! ### bounds and termination -/

/-- with a non-negative pattern the on-length of a stretch is between `0` and its length, and the remaining length
    of the entry stays non-negative -/
theorem walk_bounds (n : Nat) (pat : Nat → K) (hpat : ∀ i, 0 ≤ pat i) : ∀ (f : Nat) (ph ph' : Ph K) (l o : K),
    0 ≤ ph.rem → 0 ≤ l → walk n pat f ph l = some (o, ph') → 0 ≤ o ∧ o ≤ l ∧ 0 ≤ ph'.rem
  | 0, _, _, _, _, _, _, h => by simp [walk] at h
  | f + 1, ph, ph', l, o, hr, hl, h => by
    unfold walk at h
    by_cases hlt : ph.rem < l
    · rw [if_pos hlt] at h
      cases hc : walk n pat f (ph.next n pat) (l - ph.rem) with
      | none => rw [hc] at h; simp at h
      | some q =>
        obtain ⟨o1, ph1⟩ := q
        rw [hc] at h
        simp only [Option.some.injEq, Prod.mk.injEq] at h
        obtain ⟨h1, h2⟩ := h
        subst h2
        obtain ⟨b1, b2, b3⟩ := walk_bounds n pat hpat f (ph.next n pat) ph1 (l - ph.rem) o1 (hpat _) (by linarith) hc
        have := onPart_nonneg ph.act ph.rem hr
        have := onPart_le ph.act ph.rem hr
        exact ⟨by linarith, by linarith, b3⟩
    · rw [if_neg hlt] at h
      simp only [Option.some.injEq, Prod.mk.injEq] at h
      obtain ⟨h1, h2⟩ := h
      subst h2
      have := onPart_nonneg ph.act l hl
      have := onPart_le ph.act l hl
      exact ⟨by linarith, by linarith, by simp only; linarith⟩

/-- every entry at least `m > 0`: `f + 1` rounds of fuel suffice for a stretch of length `≤ (f + 1)·m` when the current
    entry is still at least `m` long … -/
theorem walk_some_of_le (n : Nat) (pat : Nat → K) (m : K) (hpat : ∀ i, m ≤ pat i) : ∀ (f : Nat) (ph : Ph K) (l : K),
    m ≤ ph.rem → l ≤ (f + 1 : Nat) * m → ∃ r, walk n pat (f + 1) ph l = some r
  | 0, ph, l, hr, hl => by
    unfold walk
    rw [if_neg (by push_cast at hl; linarith)]
    exact ⟨_, rfl⟩
  | f + 1, ph, l, hr, hl => by
    unfold walk
    by_cases hlt : ph.rem < l
    · rw [if_pos hlt]
      obtain ⟨r, hr'⟩ := walk_some_of_le n pat m hpat f (ph.next n pat) (l - ph.rem) (hpat _)
        (by push_cast at hl ⊢; linarith)
      rw [hr']
      exact ⟨_, rfl⟩
    · rw [if_neg hlt]
      exact ⟨_, rfl⟩

/-- … and one round more from an arbitrary position (`next_terminates`, arc-length form) -/
theorem walk_terminates (n : Nat) (pat : Nat → K) (m : K) (hpat : ∀ i, m ≤ pat i) (f : Nat) (ph : Ph K) (l : K)
    (hr : 0 ≤ ph.rem) (hl : l ≤ (f + 1 : Nat) * m) : ∃ r, walk n pat (f + 2) ph l = some r := by
  unfold walk
  by_cases hlt : ph.rem < l
  · rw [if_pos hlt]
    obtain ⟨r, hr'⟩ := walk_some_of_le n pat m hpat f (ph.next n pat) (l - ph.rem) (hpat _) (by linarith)
    rw [hr']
    exact ⟨_, rfl⟩
  · rw [if_neg hlt]
    exact ⟨_, rfl⟩

/-- the same for a polyline: enough fuel per segment exists when the pattern entries are at least `m > 0` -/
theorem walkList_terminates (n : Nat) (pat : Nat → K) (m : K) (hm : 0 ≤ m) (hpat : ∀ i, m ≤ pat i) (f : Nat) :
    ∀ (ls : List K) (ph : Ph K), 0 ≤ ph.rem → (∀ l ∈ ls, 0 ≤ l ∧ l ≤ (f + 1 : Nat) * m) →
    ∃ r, walkList n pat (f + 2) ph ls = some r
  | [], ph, _, _ => ⟨_, rfl⟩
  | l :: ls, ph, hr, hl => by
    unfold walkList
    obtain ⟨h0, h1⟩ := hl l List.mem_cons_self
    obtain ⟨⟨o1, ph1⟩, e1⟩ := walk_terminates n pat m hpat f ph l hr h1
    have hb := walk_bounds n pat (fun i => le_trans hm (hpat i)) _ ph ph1 l o1 hr h0 e1
    obtain ⟨⟨o2, ph2⟩, e2⟩ := walkList_terminates n pat m hm hpat f ls ph1 hb.2.2
      (fun x hx => hl x (List.mem_cons_of_mem _ hx))
    simp only [e1, e2]
    exact ⟨_, rfl⟩

end DashSpec
end Kurbo

namespace Kurbo
open DashSpec
variable {K : Type} [Field K] [LinearOrder K] [IsStrictOrderedRing K] [FloorRing K] [Scalar K] [LawfulScalar K]

/-! ### `dash_impl`: the position of the offset in the periodic pattern -/

/-- entry `i` of the pattern (`0` outside) -/
def patOf (dashes : Array K) (i : Nat) : K := dashes.getD i 0
/-- the pattern repeated periodically -/
def cyc (dashes : Array K) (j : Nat) : K := patOf dashes (j % dashes.size)
/-- end of the `k`-th entry of the repeated pattern, measured from the start of the pattern -/
def prefixSum (dashes : Array K) (k : Nat) : K := ∑ j ∈ Finset.range (k + 1), cyc dashes j

theorem dashAt_cyc (dashes : Array K) (hn : 0 < dashes.size) (j : Nat) :
    dashAt dashes (j % dashes.size) = some (cyc dashes j) := by
  rw [dashAt_lt _ _ (Nat.mod_lt _ hn)]
  unfold cyc patOf
  rw [Array.getD_eq_getD_getElem?, Array.getElem?_eq_getElem (Nat.mod_lt _ hn)]
  rfl

/-- a lower bound of all entries is a lower bound of the repeated pattern -/
theorem cyc_ge (dashes : Array K) (hn : 0 < dashes.size) (m : K) (h : ∀ i, (hi : i < dashes.size) → m ≤ dashes[i])
    (j : Nat) : m ≤ cyc dashes j := by
  have hj : j % dashes.size < dashes.size := Nat.mod_lt _ hn
  have := dashAt_cyc dashes hn j
  rw [dashAt_lt _ _ hj] at this
  rw [← Option.some.inj this]
  exact h _ hj

/-- the `while dash_remaining < 0` loop, started at entry `k` with remaining length `rem`: it stops after `steps` rounds,
    where `steps` is the first number of further entries that makes the remaining length non-negative -/
theorem dashInitLoop_spec (dashes : Array K) (hn : 0 < dashes.size) : ∀ (steps fuel k : Nat) (rem : K) (act : Bool),
    steps ≤ fuel →
    (∀ j < steps, rem + ∑ i ∈ Finset.range j, cyc dashes (k + 1 + i) < 0) →
    0 ≤ rem + ∑ i ∈ Finset.range steps, cyc dashes (k + 1 + i) →
    dashInitLoop dashes fuel (k % dashes.size) rem act =
      some ((k + steps) % dashes.size, rem + ∑ i ∈ Finset.range steps, cyc dashes (k + 1 + i),
        if steps % 2 = 0 then act else !act)
  | 0, fuel, k, rem, act, _, _, h0 => by
    simp only [Finset.range_zero, Finset.sum_empty, add_zero] at h0 ⊢
    cases fuel with
    | zero => rfl
    | succ fuel =>
      unfold dashInitLoop
      simp only [scalar_norm, Nat.cast_zero, decide_eq_true_eq, if_neg (not_lt.mpr h0)]
      rfl
  | steps + 1, 0, k, rem, act, hf, _, _ => by omega
  | steps + 1, fuel + 1, k, rem, act, hf, hneg, h0 => by
    unfold dashInitLoop
    have hr : rem < 0 := by simpa using hneg 0 (Nat.succ_pos _)
    have hix : (k % dashes.size + 1) % dashes.size = (k + 1) % dashes.size := by
      rw [Nat.add_mod, Nat.mod_mod, ← Nat.add_mod]
    simp only [scalar_norm, Nat.cast_zero, decide_eq_true_eq, if_pos hr, hix, dashAt_cyc dashes hn]
    have shift : ∀ j, rem + cyc dashes (k + 1) + ∑ i ∈ Finset.range j, cyc dashes (k + 1 + 1 + i)
        = rem + ∑ i ∈ Finset.range (j + 1), cyc dashes (k + 1 + i) := by
      intro j
      rw [Finset.sum_range_succ', add_assoc]
      congr 1
      rw [add_comm]
      congr 1
      apply Finset.sum_congr rfl
      intro i _
      congr 1; omega
    rw [dashInitLoop_spec dashes hn steps fuel (k + 1) (rem + cyc dashes (k + 1)) (!act) (by omega)
      (fun j hj => by rw [shift]; exact hneg (j + 1) (by omega)) (by rw [shift]; exact h0)]
    rw [shift]
    congr 2
    · congr 1; omega
    · congr 1
      rcases Nat.mod_two_eq_zero_or_one steps with h | h
      · have : (steps + 1) % 2 = 1 := by omega
        simp [h, this]
      · have : (steps + 1) % 2 = 0 := by omega
        simp [h, this]

theorem prefixSum_eq (dashes : Array K) (j : Nat) :
    cyc dashes 0 + ∑ i ∈ Finset.range j, cyc dashes (0 + 1 + i) = prefixSum dashes j := by
  unfold prefixSum
  rw [Finset.sum_range_succ', add_comm]
  congr 1
  apply Finset.sum_congr rfl
  intro i _
  congr 1; omega

/-- started as `dash_impl` starts it (entry 0, remaining `dashes[0] - offset`, on) the loop ends at the first entry whose
    end `prefixSum k` is not before the offset -/
theorem dashInitLoop_offset (dashes : Array K) (hn : 0 < dashes.size) (offset : K) (steps fuel : Nat) (hf : steps ≤ fuel)
    (hmin : ∀ k < steps, prefixSum dashes k < offset) (hlast : offset ≤ prefixSum dashes steps) :
    dashInitLoop dashes fuel 0 (cyc dashes 0 - offset) true =
      some (steps % dashes.size, prefixSum dashes steps - offset, decide (steps % 2 = 0)) := by
  have h := dashInitLoop_spec dashes hn steps fuel 0 (cyc dashes 0 - offset) true hf
    (fun j hj => by
      have := hmin j hj
      rw [← prefixSum_eq] at this
      linarith)
    (by rw [← prefixSum_eq] at hlast; linarith)
  rw [Nat.zero_mod, Nat.zero_add] at h
  rw [h]
  simp only [Option.some.injEq, Prod.mk.injEq, true_and]
  refine ⟨?_, ?_⟩
  · rw [← prefixSum_eq]; ring
  · by_cases h2 : steps % 2 = 0 <;> simp [h2]

theorem prefixSum_ge (dashes : Array K) (m : K) (hm : ∀ j, m ≤ cyc dashes j) (k : Nat) :
    ((k + 1 : Nat) : K) * m ≤ prefixSum dashes k := by
  unfold prefixSum
  induction k with
  | zero => simpa using hm 0
  | succ k ih =>
    rw [Finset.sum_range_succ]
    have := hm (k + 1)
    push_cast at ih ⊢
    linarith

/-- a pattern of positive entries has a positive lower bound -/
theorem exists_pos_lower_bound (dashes : Array K) (hn : 0 < dashes.size)
    (hpos : ∀ i, (h : i < dashes.size) → 0 < dashes[i]) : ∃ m : K, 0 < m ∧ ∀ j, m ≤ cyc dashes j := by
  have key : ∀ l : List K, (∀ x ∈ l, 0 < x) → ∃ m : K, 0 < m ∧ ∀ x ∈ l, m ≤ x := by
    intro l
    induction l with
    | nil => intro _; exact ⟨1, one_pos, fun x hx => by cases hx⟩
    | cons a l ih =>
      intro h
      obtain ⟨m, hm0, hm⟩ := ih (fun x hx => h x (List.mem_cons_of_mem _ hx))
      refine ⟨min a m, lt_min (h a List.mem_cons_self) hm0, ?_⟩
      intro x hx
      rcases List.mem_cons.mp hx with rfl | hx
      · exact min_le_left _ _
      · exact le_trans (min_le_right _ _) (hm x hx)
  obtain ⟨m, hm0, hm⟩ := key dashes.toList (by
    intro x hx
    obtain ⟨i, hi, rfl⟩ := List.getElem_of_mem hx
    simp only [Array.length_toList] at hi
    simpa using hpos i hi)
  refine ⟨m, hm0, fun j => hm _ ?_⟩
  have hj : j % dashes.size < dashes.size := Nat.mod_lt _ hn
  unfold cyc patOf
  rw [Array.getD_eq_getD_getElem?, Array.getElem?_eq_getElem hj]
  simp

/-- for a pattern of positive entries the number of rounds exists, whatever the offset -/
theorem exists_steps (dashes : Array K) (hn : 0 < dashes.size) (hpos : ∀ i, (h : i < dashes.size) → 0 < dashes[i])
    (offset : K) :
    ∃ steps, (∀ k < steps, prefixSum dashes k < offset) ∧ offset ≤ prefixSum dashes steps := by
  classical
  obtain ⟨m, hm0, hm⟩ := exists_pos_lower_bound dashes hn hpos
  have hex : ∃ k, offset ≤ prefixSum dashes k := by
    obtain ⟨k, hk⟩ := Archimedean.arch offset hm0
    refine ⟨k, le_trans hk ?_⟩
    have := prefixSum_ge dashes m hm k
    rw [nsmul_eq_mul]
    push_cast at this
    nlinarith
  exact ⟨Nat.find hex, fun k hk => not_le.mp (Nat.find_min hex hk), Nat.find_spec hex⟩

theorem cyc_zero (dashes : Array K) (hn : 0 < dashes.size) : cyc dashes 0 = dashes[0] := by
  have := dashAt_cyc dashes hn 0
  rw [Nat.zero_mod, dashAt_lt _ _ hn] at this
  exact (Option.some.inj this).symm

theorem dashImpl_phase (inner : List (PathEl K)) (dashes : Array K) (hn : 0 < dashes.size) (offset : K)
    (steps fuel : Nat) (hf : steps ≤ fuel) (hmin : ∀ k < steps, prefixSum dashes k < offset)
    (hlast : offset ≤ prefixSum dashes steps) :
    ∃ it, dashImpl inner offset dashes fuel = some it ∧ it.dash_ix = steps % dashes.size ∧
      it.dash_remaining = prefixSum dashes steps - offset ∧ it.is_active = decide (steps % 2 = 0) ∧
      it.PhaseInit ∧ it.dashes = dashes := by
  unfold dashImpl
  simp only [dashAt_lt _ _ hn, scalar_norm, ← cyc_zero dashes hn,
    dashInitLoop_offset dashes hn offset steps fuel hf hmin hlast]
  exact ⟨_, rfl, rfl, rfl, rfl, ⟨rfl, rfl, rfl⟩, rfl⟩

/-- for `0 ≤ offset` the remaining length is at most the length of the entry: the position is inside entry `steps` -/
theorem prefixSum_rem_le (dashes : Array K) (offset : K) (h0 : 0 ≤ offset) (steps : Nat)
    (hmin : ∀ k < steps, prefixSum dashes k < offset) : prefixSum dashes steps - offset ≤ cyc dashes steps := by
  cases steps with
  | zero => simp [prefixSum]; exact h0
  | succ k =>
    have := hmin k (Nat.lt_succ_self _)
    unfold prefixSum at this ⊢
    rw [Finset.sum_range_succ]
    linarith

/-! ### one `step` on a straight segment -/

/-- `hypot` is the Euclidean norm: non-negative with the right square (true of `√(x²+y²)` over ℝ; `Rat`'s executable
    `hypot` only approximates irrational roots and is not an instance) -/
class LawfulHypotSq (K : Type) [Field K] [LinearOrder K] [Scalar K] : Prop where
  hypot_nonneg : ∀ x y : K, 0 ≤ Scalar.hypot x y
  hypot_sq : ∀ x y : K, Scalar.hypot x y ^ 2 = x ^ 2 + y ^ 2

variable [LawfulHypotSq K]

theorem hypot_smul (c x y : K) (hc : 0 ≤ c) : Scalar.hypot (c * x) (c * y) = c * Scalar.hypot x y := by
  have h1 := LawfulHypotSq.hypot_nonneg (c * x) (c * y)
  have h2 : 0 ≤ c * Scalar.hypot x y := mul_nonneg hc (LawfulHypotSq.hypot_nonneg x y)
  rw [← sq_eq_sq₀ h1 h2, LawfulHypotSq.hypot_sq, mul_pow c (Scalar.hypot x y), LawfulHypotSq.hypot_sq]
  ring

theorem line_sub_arclen (l : Line K) (t0 t1 a a' : K) (h : t0 ≤ t1) :
    (l.subsegment ⟨t0, t1⟩).arclen a = (t1 - t0) * l.arclen a' := by
  simp only [Line.arclen, Vec2.hypot, kdefs, scalar_norm]
  rw [← hypot_smul _ _ _ (sub_nonneg.mpr h)]
  congr 1 <;> ring

theorem line_inv_arclen_eq (l : Line K) (d a : K) : l.inv_arclen d a = d / l.arclen a := by
  simp only [Line.arclen, Line.inv_arclen, scalar_norm]

theorem line_arclen_nonneg (l : Line K) (a : K) : 0 ≤ l.arclen a := LawfulHypotSq.hypot_nonneg _ _

/-- distance between two points of a line = parameter difference × length -/
theorem line_eval_dist (l : Line K) (t0 t1 a : K) (h : t0 ≤ t1) :
    (l.eval t1 - l.eval t0).hypot = (t1 - t0) * l.arclen a := line_sub_arclen l t0 t1 a a h

section
omit [LawfulHypotSq K]
theorem nextIx_eq_mod (s : DashIt K) (h : s.dash_ix < s.dashes.size) :
    s.nextIx = (s.dash_ix + 1) % s.dashes.size := by
  unfold DashIt.nextIx
  split
  · rename_i he
    simp only [beq_iff_eq] at he
    rw [he, Nat.mod_self]
  · rename_i he
    simp only [beq_iff_eq] at he
    rw [Nat.mod_eq_of_lt (by omega)]
end

/-- on a straight current segment: the parameter at which the current pattern entry ends, in terms of the whole segment -/
theorem cutT_line (s : DashIt K) (l : Line K) (hseg : s.current_seg = .Line l) (a : K) (ht : s.t ≤ 1) :
    s.cutT = s.dash_remaining / ((1 - s.t) * l.arclen a) := by
  unfold DashIt.cutT DashIt.restSeg
  rw [hseg]
  simp only [PathSeg.subsegment, PathSeg.inv_arclen]
  rw [line_inv_arclen_eq _ _ (Scalar.ofRat dashAccuracy)]
  have := line_sub_arclen l s.t 1 (Scalar.ofRat dashAccuracy) a ht
  simp only [scalar_norm, Nat.cast_one] at this ⊢
  rw [this]

theorem step_line_switch (s : DashIt K) (l : Line K) (L : K) (hseg : s.current_seg = .Line l)
    (hL : l.arclen 0 = L) (hLpos : 0 < L) (ht : s.t < 1) (hst : (s.state == .ToStash && s.stash.isEmpty) = false)
    (hix : s.dash_ix < s.dashes.size) (hlt : s.dash_remaining < s.seg_remaining) :
    s.step = some (some (if s.is_active then .LineTo (l.eval (s.t + s.dash_remaining / L))
                         else .MoveTo (l.eval (s.t + s.dash_remaining / L))),
      { s with state := if s.is_active then .Working else s.state, is_active := !s.is_active,
               t := s.t + s.dash_remaining / L, seg_remaining := s.seg_remaining - s.dash_remaining,
               dash_ix := (s.dash_ix + 1) % s.dashes.size, dash_remaining := cyc s.dashes (s.dash_ix + 1) }) := by
  have hn : 0 < s.dashes.size := by omega
  have h1 : Scalar.lt s.dash_remaining s.seg_remaining = true := by
    simp only [scalar_norm, decide_eq_true_eq]; exact hlt
  rw [step_switch s hst h1, nextIx_eq_mod s hix, dashAt_cyc _ hn]
  have hcut := cutT_line s l hseg 0 ht.le
  rw [hL] at hcut
  have h1t : (1 - s.t) ≠ 0 := by intro h; linarith
  have hLne : L ≠ 0 := hLpos.ne'
  have e_t : s.t + s.cutT * (1 - s.t) = s.t + s.dash_remaining / L := by
    rw [hcut]; field_simp
  have e_pt : s.restSeg.eval s.cutT = l.eval (s.t + s.dash_remaining / L) := by
    unfold DashIt.restSeg
    rw [hseg]
    simp only [PathSeg.subsegment, PathSeg.eval]
    rw [line_subsegment_eval, ← e_t]
    simp only [scalar_norm, Nat.cast_one]
  have e_on : segToEl (s.restSeg.subsegment ⟨@OfNat.ofNat K 0 Ops.instOfNat, s.cutT⟩)
      = .LineTo (l.eval (s.t + s.dash_remaining / L)) := by
    rw [← e_pt]
    unfold DashIt.restSeg
    rw [hseg]
    simp only [PathSeg.subsegment, PathSeg.eval, segToEl, Line.subsegment]
  rw [e_on, e_pt]
  simp only [scalar_norm, Nat.cast_one, e_t]

section
omit [LawfulHypotSq K]
theorem restSeg_line_el (s : DashIt K) (l : Line K) (hseg : s.current_seg = .Line l) : segToEl s.restSeg = .LineTo l.p1 := by
  unfold DashIt.restSeg
  rw [hseg]
  simp only [PathSeg.subsegment, segToEl, Line.subsegment, scalar_norm, Nat.cast_one, (line_eval_zero_one l).2]

/-- the `step` that finishes a straight segment: the entry gets shorter by the rest of the segment and new input is fetched;
    if the entry is on, the end point is emitted – returned, or, while the first dash is being stashed (`ToStash`), pushed to
    the stash BEFORE the input is fetched (so a `ClosePath` that `get_input` appends comes after it) -/
theorem step_line_end (s : DashIt K) (l : Line K) (hseg : s.current_seg = .Line l)
    (hst : (s.state == .ToStash && s.stash.isEmpty) = false) (hnlt : ¬ s.dash_remaining < s.seg_remaining) :
    s.step = some (if s.is_active && !(s.state == .ToStash) then some (.LineTo l.p1) else none,
      ({ (if s.is_active && s.state == .ToStash then { s with stash := s.stash.push (.LineTo l.p1) } else s) with
          dash_remaining := s.dash_remaining - s.seg_remaining } : DashIt K).get_input) := by
  have h1 : Scalar.lt s.dash_remaining s.seg_remaining = false := by
    simp only [scalar_norm, decide_eq_false_iff_not]; exact hnlt
  rw [step_seg_end s hst h1]
  unfold DashIt.endPush
  rw [restSeg_line_el s l hseg]
  cases hb : (s.is_active && s.state == DashState.ToStash) <;> simp only [scalar_norm, Bool.false_eq_true, if_false, if_true]

/-- … in state `Working` (or any state but `ToStash`): the end point is returned if the entry is on -/
theorem step_line_end_working (s : DashIt K) (l : Line K) (hseg : s.current_seg = .Line l)
    (hst : (s.state == .ToStash && s.stash.isEmpty) = false) (hns : s.state ≠ .ToStash)
    (hnlt : ¬ s.dash_remaining < s.seg_remaining) :
    s.step = some (if s.is_active then some (.LineTo l.p1) else none,
      ({ s with dash_remaining := s.dash_remaining - s.seg_remaining } : DashIt K).get_input) := by
  have hb : (s.state == DashState.ToStash) = false := by
    cases h : (s.state == DashState.ToStash)
    · rfl
    · exact absurd (by simpa using h) hns
  rw [step_line_end s l hseg hst hnlt]
  simp only [hb, Bool.and_false, Bool.false_eq_true, if_false, Bool.not_false, Bool.and_true]

/-- … in state `ToStash` with the entry on: the end point is pushed to the stash, then input is fetched; nothing is returned -/
theorem step_line_end_stash (s : DashIt K) (l : Line K) (hseg : s.current_seg = .Line l)
    (hst : (s.state == .ToStash && s.stash.isEmpty) = false) (hs : s.state = .ToStash) (ha : s.is_active = true)
    (hnlt : ¬ s.dash_remaining < s.seg_remaining) :
    s.step = some (none, ({ s with stash := s.stash.push (.LineTo l.p1),
                                   dash_remaining := s.dash_remaining - s.seg_remaining } : DashIt K).get_input) := by
  have hb : (s.state == DashState.ToStash) = true := by rw [hs]; rfl
  rw [step_line_end s l hseg hst hnlt]
  simp only [hb, ha, Bool.and_true, if_true, Bool.not_true, Bool.and_false, Bool.false_eq_true, if_false]
end

end Kurbo
