import Proofs.KDefs
import Kurbo.Path
import Mathlib.Analysis.SpecialFunctions.Integrals.Basic
import Mathlib.Tactic.Ring
import Mathlib.Tactic.Linarith
/-! Helper definitions and lemmas for `Proofs/C02.lean` (signed area).
    * unfolding lemmas for the `Affine * _` operator instances,
    * `∫₀¹` of a polynomial and of the Green integrand `x·y′ − y·x′` of a cubic-in-power-basis pair,
    * an index-free description `segsFrom` of the `Segments` iterator model, the segments of a "curve body"
      (`LineTo/QuadTo/CurveTo` only), chains of segments. -/
set_option linter.unusedSectionVars false
namespace Kurbo

/-! ### the operator instances `Affine * _` -/
section affine_ops
variable {K : Type} [Scalar K]
theorem affine_mul_point (A : Affine K) (p : Point K) : A * p = Affine.mul_Point A p := rfl
theorem c02_affine_mul_line (A : Affine K) (p : Line K) : A * p = Affine.mul_Line A p := rfl
theorem c02_affine_mul_quad (A : Affine K) (p : QuadBez K) : A * p = Affine.mul_QuadBez A p := rfl
theorem c02_affine_mul_cubic (A : Affine K) (p : CubicBez K) : A * p = Affine.mul_CubicBez A p := rfl
theorem c02_affine_mul_pathSeg (A : Affine K) (p : PathSeg K) : A * p = Affine.mul_PathSeg A p := rfl
theorem c02_affine_mul_pathEl (A : Affine K) (p : PathEl K) : A * p = Affine.mul_PathEl A p := rfl
theorem affine_mul_affine (A B : Affine K) : A * B = Affine.mul_Affine A B := rfl
end affine_ops

/-- everything needed to turn `A * (segment)` and `signed_area` into polynomials -/
macro "aff_ring" : tactic => `(tactic| (
  simp only [Kurbo.affine_mul_point, Kurbo.c02_affine_mul_line, Kurbo.c02_affine_mul_quad, Kurbo.c02_affine_mul_cubic,
    Kurbo.c02_affine_mul_pathSeg, Kurbo.affine_mul_affine,
    Kurbo.Affine.mul_Point, Kurbo.Affine.mul_Line, Kurbo.Affine.mul_QuadBez, Kurbo.Affine.mul_CubicBez,
    Kurbo.Affine.mul_PathSeg, Kurbo.Affine.mul_Affine, Kurbo.Affine.determinant, Kurbo.Affine.translate,
    Kurbo.PathSeg.signed_area, Kurbo.PathSeg.start, Kurbo.PathSeg.end,
    kdefs, scalar_norm, Kurbo.Point.mk.injEq, Kurbo.Vec2.mk.injEq, Kurbo.Line.mk.injEq,
    Kurbo.QuadBez.mk.injEq, Kurbo.CubicBez.mk.injEq, Kurbo.Affine.mk.injEq]
  <;> (try push_cast) <;> (try refine ⟨?_, ?_⟩) <;> (try refine ⟨?_, ?_⟩) <;> (try refine ⟨?_, ?_⟩)
  <;> (try refine ⟨?_, ?_⟩) <;> (try refine ⟨?_, ?_⟩) <;> ring))

/-! ### integrals of polynomials over `[0,1]` -/
section calculus
open intervalIntegral Finset

/-- `∫₀¹ Σ cₖ tᵏ = Σ cₖ/(k+1)` -/
theorem integral_poly01 (c : ℕ → ℝ) (n : ℕ) :
    ∫ t in (0:ℝ)..1, ∑ k ∈ range n, c k * t ^ k = ∑ k ∈ range n, c k / (k + 1) := by
  rw [integral_finsetSum]
  · apply Finset.sum_congr rfl
    intro k _
    rw [integral_const_mul, integral_pow]
    simp [div_eq_mul_inv]
  · intro k _
    apply Continuous.intervalIntegrable
    fun_prop

/-- coefficients of `x·y′ − y·x′` for `x = a0 + a1 t + a2 t² + a3 t³`, `y = b0 + b1 t + b2 t² + b3 t³`:
    the coefficient of `tᵐ` is `Σ_{i+j=m+1} (j−i)·aᵢ·bⱼ` -/
def greenCoeff (a0 a1 a2 a3 b0 b1 b2 b3 : ℝ) : ℕ → ℝ
  | 0 => a0 * b1 - a1 * b0
  | 1 => 2 * (a0 * b2 - a2 * b0)
  | 2 => 3 * (a0 * b3 - a3 * b0) + (a1 * b2 - a2 * b1)
  | 3 => 2 * (a1 * b3 - a3 * b1)
  | 4 => a2 * b3 - a3 * b2
  | _ => 0

/-- the Green integrand of a pair of cubic polynomials in the power basis, integrated over `[0,1]` -/
theorem integral_green_poly3 (a0 a1 a2 a3 b0 b1 b2 b3 : ℝ) :
    ∫ t in (0:ℝ)..1, ((a0 + a1 * t + a2 * t ^ 2 + a3 * t ^ 3) * (b1 + b2 * (2 * t) + b3 * (3 * t ^ 2))
        - (b0 + b1 * t + b2 * t ^ 2 + b3 * t ^ 3) * (a1 + a2 * (2 * t) + a3 * (3 * t ^ 2)))
      = (a0 * b1 - a1 * b0) + (a0 * b2 - a2 * b0) + (a0 * b3 - a3 * b0) + (a1 * b2 - a2 * b1) / 3
        + (a1 * b3 - a3 * b1) / 2 + (a2 * b3 - a3 * b2) / 5 := by
  have h : ∀ t : ℝ, ((a0 + a1 * t + a2 * t ^ 2 + a3 * t ^ 3) * (b1 + b2 * (2 * t) + b3 * (3 * t ^ 2))
        - (b0 + b1 * t + b2 * t ^ 2 + b3 * t ^ 3) * (a1 + a2 * (2 * t) + a3 * (3 * t ^ 2)))
      = ∑ k ∈ range 5, greenCoeff a0 a1 a2 a3 b0 b1 b2 b3 k * t ^ k := by
    intro t
    simp only [Finset.sum_range_succ, Finset.sum_range_zero, greenCoeff]
    ring
  simp_rw [h]
  rw [integral_poly01]
  simp only [Finset.sum_range_succ, Finset.sum_range_zero, greenCoeff]
  push_cast
  ring

/-- the same for any integrand that is pointwise equal to such a polynomial expression -/
theorem integral_green_of_poly (f : ℝ → ℝ) (a0 a1 a2 a3 b0 b1 b2 b3 : ℝ)
    (h : ∀ t : ℝ, f t = (a0 + a1 * t + a2 * t ^ 2 + a3 * t ^ 3) * (b1 + b2 * (2 * t) + b3 * (3 * t ^ 2))
        - (b0 + b1 * t + b2 * t ^ 2 + b3 * t ^ 3) * (a1 + a2 * (2 * t) + a3 * (3 * t ^ 2))) :
    ∫ t in (0:ℝ)..1, f t
      = (a0 * b1 - a1 * b0) + (a0 * b2 - a2 * b0) + (a0 * b3 - a3 * b0) + (a1 * b2 - a2 * b1) / 3
        + (a1 * b3 - a3 * b1) / 2 + (a2 * b3 - a3 * b2) / 5 := by
  rw [← integral_green_poly3]
  exact intervalIntegral.integral_congr (fun t _ => h t)

end calculus

/-! ### the `Segments` iterator without indices -/
section structural
variable {K : Type} [Scalar K]

/-- `segsIdxFrom` without the element indices -/
def segsFrom (st : SegSt K) : List (PathEl K) → Option (List (PathSeg K))
  | [] => some []
  | el :: rest =>
    match segStep st el with
    | none => none
    | some (st', out) =>
      match segsFrom st' rest with
      | none => none
      | some l => some (match out with | some s => s :: l | none => l)

theorem segsIdxFrom_map_snd (st : SegSt K) (ix : Nat) (els : List (PathEl K)) :
    (segsIdxFrom st ix els).map (·.map (·.2)) = segsFrom st els := by
  induction els generalizing st ix with
  | nil => rfl
  | cons el rest ih =>
    simp only [segsIdxFrom, segsFrom]
    cases h : segStep st el with
    | none => rfl
    | some r =>
      obtain ⟨st', out⟩ := r
      simp only
      rw [← ih st' (ix + 1)]
      cases segsIdxFrom st' (ix + 1) rest with
      | none => rfl
      | some l => cases out <;> rfl

theorem segs_eq_segsFrom (els : List (PathEl K)) : segs els = segsFrom none els :=
  segsIdxFrom_map_snd none 0 els

/-- a `MoveTo` overwrites the iterator state, whatever it was -/
theorem segStep_moveTo (st : SegSt K) (p : Point K) : segStep st (.MoveTo p) = some (some (p, p), none) := by
  cases st <;> rfl

theorem segsFrom_moveTo (st : SegSt K) (p : Point K) (r : List (PathEl K)) :
    segsFrom st (.MoveTo p :: r) = segsFrom (some (p, p)) r := by
  simp only [segsFrom, segStep_moveTo]
  cases segsFrom (some (p, p)) r <;> rfl

/-- from any state a list that starts with `MoveTo` produces what it produces from the initial state -/
theorem segsFrom_moveTo_any (st : SegSt K) (p : Point K) (r : List (PathEl K)) :
    segsFrom st (.MoveTo p :: r) = segsFrom none (.MoveTo p :: r) := by
  rw [segsFrom_moveTo, segsFrom_moveTo]

/-- `LineTo`, `QuadTo`, `CurveTo` -/
def IsCurveEl : PathEl K → Prop
  | .LineTo _ => True
  | .QuadTo _ _ => True
  | .CurveTo _ _ _ => True
  | _ => False

instance : DecidablePred (IsCurveEl (K := K)) := fun e => by
  cases e <;> simp only [IsCurveEl] <;> infer_instance

/-- a sub-path body: only `LineTo`, `QuadTo`, `CurveTo` -/
def IsBody (body : List (PathEl K)) : Prop := ∀ e ∈ body, IsCurveEl e

/-- the segments a body draws when the current point is `last` -/
def bodySegs (last : Point K) : List (PathEl K) → List (PathSeg K)
  | [] => []
  | .LineTo p :: r => .Line ⟨last, p⟩ :: bodySegs p r
  | .QuadTo p1 p2 :: r => .Quad ⟨last, p1, p2⟩ :: bodySegs p2 r
  | .CurveTo p1 p2 p3 :: r => .Cubic ⟨last, p1, p2, p3⟩ :: bodySegs p3 r
  | .MoveTo _ :: r => bodySegs last r
  | .ClosePath :: r => bodySegs last r

/-- the current point after a body -/
def bodyEnd (last : Point K) : List (PathEl K) → Point K
  | [] => last
  | el :: r => bodyEnd (el.end_point.getD last) r

instance (body : List (PathEl K)) : Decidable (IsBody body) :=
  inferInstanceAs (Decidable (∀ e ∈ body, IsCurveEl e))

theorem isBody_cons {e : PathEl K} {r : List (PathEl K)} : IsBody (e :: r) ↔ IsCurveEl e ∧ IsBody r := by
  simp [IsBody]

/-- the iterator walks through a body, emitting `bodySegs` -/
theorem segsFrom_body_append (start : Point K) (tail : List (PathEl K)) :
    ∀ (body : List (PathEl K)) (last : Point K), IsBody body →
      segsFrom (some (start, last)) (body ++ tail)
        = (segsFrom (some (start, bodyEnd last body)) tail).map (bodySegs last body ++ ·) := by
  intro body
  induction body with
  | nil =>
    intro last _
    simp only [List.nil_append, bodyEnd, bodySegs]
    cases segsFrom (some (start, last)) tail <;> rfl
  | cons el r ih =>
    intro last hb
    rw [isBody_cons] at hb
    cases el with
    | MoveTo p => exact hb.1.elim
    | ClosePath => exact hb.1.elim
    | LineTo p =>
      simp only [List.cons_append, segsFrom, segStep, bodyEnd, bodySegs, PathEl.end_point, Option.getD_some]
      rw [ih p hb.2]
      cases segsFrom (some (start, bodyEnd p r)) tail <;> rfl
    | QuadTo p1 p2 =>
      simp only [List.cons_append, segsFrom, segStep, bodyEnd, bodySegs, PathEl.end_point, Option.getD_some]
      rw [ih p2 hb.2]
      cases segsFrom (some (start, bodyEnd p2 r)) tail <;> rfl
    | CurveTo p1 p2 p3 =>
      simp only [List.cons_append, segsFrom, segStep, bodyEnd, bodySegs, PathEl.end_point, Option.getD_some]
      rw [ih p3 hb.2]
      cases segsFrom (some (start, bodyEnd p3 r)) tail <;> rfl

/-- consecutive segments share their end/start point; the chain runs from `p` to `q` -/
def SegChain (p : Point K) : List (PathSeg K) → Point K → Prop
  | [], q => p = q
  | s :: r, q => s.start = p ∧ SegChain s.end r q

theorem segChain_append {p m q : Point K} {ss₁ ss₂ : List (PathSeg K)} :
    SegChain p ss₁ m → SegChain m ss₂ q → SegChain p (ss₁ ++ ss₂) q := by
  induction ss₁ generalizing p with
  | nil => intro h1 h2; simp only [SegChain] at h1; subst h1; simpa using h2
  | cons s r ih =>
    intro h1 h2
    exact ⟨h1.1, ih h1.2 h2⟩

theorem segChain_bodySegs : ∀ (body : List (PathEl K)) (last : Point K), IsBody body →
    SegChain last (bodySegs last body) (bodyEnd last body) := by
  intro body
  induction body with
  | nil => intro last _; rfl
  | cons el r ih =>
    intro last hb
    rw [isBody_cons] at hb
    cases el with
    | MoveTo p => exact hb.1.elim
    | ClosePath => exact hb.1.elim
    | LineTo p => exact ⟨rfl, ih p hb.2⟩
    | QuadTo p1 p2 => exact ⟨rfl, ih p2 hb.2⟩
    | CurveTo p1 p2 p3 => exact ⟨rfl, ih p3 hb.2⟩

/-- reversing a chain (order and each segment) gives a chain back -/
theorem segChain_reverse {p q : Point K} {ss : List (PathSeg K)} (h : SegChain p ss q) :
    SegChain q (ss.reverse.map PathSeg.reverse) p := by
  induction ss generalizing p with
  | nil => simp only [SegChain] at h; subst h; rfl
  | cons s r ih =>
    obtain ⟨h1, h2⟩ := h
    have h3 := ih h2
    simp only [List.reverse_cons, List.map_append, List.map_cons, List.map_nil]
    refine segChain_append h3 ?_
    subst h1
    cases s with
    | Line l => cases l; exact ⟨rfl, rfl⟩
    | Quad l => exact ⟨rfl, rfl⟩
    | Cubic l => exact ⟨rfl, rfl⟩

/-- mapping a body by an affine map commutes with `bodySegs` / `bodyEnd` -/
theorem bodySegs_map (A : Affine K) : ∀ (body : List (PathEl K)) (last : Point K), IsBody body →
    bodySegs (A * last) (body.map (fun e : PathEl K => A * e)) = (bodySegs last body).map (fun s : PathSeg K => A * s) := by
  intro body
  induction body with
  | nil => intro last _; rfl
  | cons el r ih =>
    intro last hb
    rw [isBody_cons] at hb
    cases el with
    | MoveTo p => exact hb.1.elim
    | ClosePath => exact hb.1.elim
    | LineTo p =>
      show PathSeg.Line ⟨A * last, A * p⟩ :: bodySegs (A * p) (r.map _) = _
      rw [ih p hb.2]; rfl
    | QuadTo p1 p2 =>
      show PathSeg.Quad ⟨A * last, A * p1, A * p2⟩ :: bodySegs (A * p2) (r.map _) = _
      rw [ih p2 hb.2]; rfl
    | CurveTo p1 p2 p3 =>
      show PathSeg.Cubic ⟨A * last, A * p1, A * p2, A * p3⟩ :: bodySegs (A * p3) (r.map _) = _
      rw [ih p3 hb.2]; rfl

theorem bodyEnd_map (A : Affine K) : ∀ (body : List (PathEl K)) (last : Point K), IsBody body →
    bodyEnd (A * last) (body.map (fun e : PathEl K => A * e)) = A * bodyEnd last body := by
  intro body
  induction body with
  | nil => intro last _; rfl
  | cons el r ih =>
    intro last hb
    rw [isBody_cons] at hb
    cases el with
    | MoveTo p => exact hb.1.elim
    | ClosePath => exact hb.1.elim
    | LineTo p => exact ih p hb.2
    | QuadTo p1 p2 => exact ih p2 hb.2
    | CurveTo p1 p2 p3 => exact ih p3 hb.2

theorem isBody_map (A : Affine K) {body : List (PathEl K)} (hb : IsBody body) : IsBody (body.map (fun e : PathEl K => A * e)) := by
  intro e he
  rw [List.mem_map] at he
  obtain ⟨e0, h0, rfl⟩ := he
  have := hb e0 h0
  cases e0 <;> first | exact this.elim | trivial


/-- general append law: if what `els₂` produces does not depend on the iterator state (e.g. it starts with
    `MoveTo`), the segments of `els₁ ++ els₂` are those of `els₁` followed by those of `els₂`, and a panic in
    either part is a panic of the whole -/
theorem segsFrom_append_bind {els₂ : List (PathEl K)} (h2 : ∀ st, segsFrom st els₂ = segsFrom none els₂) :
    ∀ (els₁ : List (PathEl K)) (st : SegSt K),
      segsFrom st (els₁ ++ els₂)
        = (segsFrom st els₁).bind fun l1 => (segsFrom none els₂).map (l1 ++ ·) := by
  intro els₁
  induction els₁ with
  | nil =>
    intro st
    simp only [List.nil_append, segsFrom, Option.bind_some]
    rw [h2 st]
    cases segsFrom none els₂ <;> rfl
  | cons el rest ih =>
    intro st
    simp only [segsFrom, List.cons_append]
    cases hs : segStep st el with
    | none => rfl
    | some r =>
      obtain ⟨st', out⟩ := r
      simp only
      rw [ih st']
      cases segsFrom st' rest with
      | none => rfl
      | some l =>
        cases segsFrom none els₂ with
        | none => rfl
        | some l2 => cases out <;> rfl

/-- the closing line of `ClosePath` (drawn only when the current point differs from the sub-path start) -/
def closeSegs (e p : Point K) : List (PathSeg K) := if e.peq p then [] else [.Line ⟨e, p⟩]

theorem segsFrom_close (start last : Point K) :
    segsFrom (some (start, last)) [.ClosePath] = some (closeSegs last start) := by
  simp only [segsFrom, segStep, closeSegs]
  cases last.peq start <;> rfl

/-- segments of one explicitly closed sub-path -/
theorem segsFrom_closed_subpath (st : SegSt K) (p : Point K) (body : List (PathEl K)) (hb : IsBody body) :
    segsFrom st (.MoveTo p :: body ++ [.ClosePath]) = some (bodySegs p body ++ closeSegs (bodyEnd p body) p) := by
  rw [List.cons_append, segsFrom_moveTo, segsFrom_body_append _ _ _ _ hb, segsFrom_close]; rfl

/-- segments of one sub-path that is not closed by `ClosePath` -/
theorem segsFrom_open_subpath (st : SegSt K) (p : Point K) (body : List (PathEl K)) (hb : IsBody body) :
    segsFrom st (.MoveTo p :: body) = some (bodySegs p body) := by
  have h := segsFrom_body_append p [] body p hb
  rw [List.append_nil] at h
  rw [segsFrom_moveTo, h]
  simp [segsFrom]

/-- a list of closed sub-paths: each is `MoveTo p, body…, ClosePath`, or `MoveTo p, body…` with the body ending
    at `p` again (closed without `ClosePath`) -/
inductive ClosedPath : List (PathEl K) → Prop
  | nil : ClosedPath []
  | close (p : Point K) (body rest : List (PathEl K)) : IsBody body → ClosedPath rest →
      ClosedPath ((.MoveTo p :: body ++ [.ClosePath]) ++ rest)
  | implicit (p : Point K) (body rest : List (PathEl K)) : IsBody body → bodyEnd p body = p → ClosedPath rest →
      ClosedPath ((.MoveTo p :: body) ++ rest)

theorem ClosedPath.state_indep {els : List (PathEl K)} (h : ClosedPath els) :
    ∀ st, segsFrom st els = segsFrom none els := by
  intro st
  cases h with
  | nil => rfl
  | close p body rest _ _ => exact segsFrom_moveTo_any st p _
  | implicit p body rest _ _ _ => exact segsFrom_moveTo_any st p _


/-! ### `reverse_subpath` / `reverse_subpaths` on a single sub-path -/

theorem bodyEnd_append (p : Point K) (a b : List (PathEl K)) :
    bodyEnd p (a ++ b) = bodyEnd (bodyEnd p a) b := by
  induction a generalizing p with
  | nil => rfl
  | cons e r ih => exact ih _

theorem bodySegs_append (p : Point K) (a b : List (PathEl K)) (ha : IsBody a) :
    bodySegs p (a ++ b) = bodySegs p a ++ bodySegs (bodyEnd p a) b := by
  induction a generalizing p with
  | nil => rfl
  | cons e r ih =>
    rw [isBody_cons] at ha
    cases e with
    | MoveTo q => exact ha.1.elim
    | ClosePath => exact ha.1.elim
    | LineTo q => simp only [List.cons_append, bodySegs, bodyEnd, PathEl.end_point, Option.getD_some, ih q ha.2]
    | QuadTo q1 q2 => simp only [List.cons_append, bodySegs, bodyEnd, PathEl.end_point, Option.getD_some, ih q2 ha.2]
    | CurveTo q1 q2 q3 =>
      simp only [List.cons_append, bodySegs, bodyEnd, PathEl.end_point, Option.getD_some, ih q3 ha.2]

/-- the element that draws `el` backwards, ending in `ep` -/
def revEl (ep : Point K) : PathEl K → PathEl K
  | .LineTo _ => .LineTo ep
  | .QuadTo c0 _ => .QuadTo c0 ep
  | .CurveTo c0 c1 _ => .CurveTo c1 c0 ep
  | e => e

/-- the current point before the first element of a *reversed* body (last element first) -/
def c02PrevEnd (p : Point K) : List (PathEl K) → Point K
  | [] => p
  | prev :: _ => prev.end_point.getD p

/-- what `reverse_subpath` pushes after its `MoveTo`; the argument is the reversed body (last element first) -/
def c02RevBody (p : Point K) : List (PathEl K) → List (PathEl K)
  | [] => []
  | el :: before => revEl (c02PrevEnd p before) el :: c02RevBody p before

theorem reverseSubpath_go_eq (p : Point K) (l : List (PathEl K)) (hl : IsBody l) :
    reverseSubpath.go p l = some (c02RevBody p l) := by
  induction l with
  | nil => rfl
  | cons el before ih =>
    rw [isBody_cons] at hl
    have hgo := ih hl.2
    have hel := hl.1
    cases before with
    | nil => cases el <;> first | exact hel.elim | rfl
    | cons prev t =>
      have hprev := (isBody_cons.mp hl.2).1
      rw [reverseSubpath.go, hgo]
      cases prev <;> first | exact hprev.elim | (cases el <;> first | exact hel.elim | rfl)

theorem prevEnd_eq_bodyEnd (p : Point K) (l : List (PathEl K)) (hl : IsBody l) :
    c02PrevEnd p l = bodyEnd p l.reverse := by
  cases l with
  | nil => rfl
  | cons prev t =>
    rw [List.reverse_cons, bodyEnd_append]
    have := (isBody_cons.mp hl).1
    cases prev <;> first | exact this.elim | rfl

theorem isBody_reverse {l : List (PathEl K)} (hl : IsBody l) : IsBody l.reverse := by
  intro e he; exact hl e (List.mem_reverse.mp he)

theorem isBody_revBody (p : Point K) (l : List (PathEl K)) (hl : IsBody l) : IsBody (c02RevBody p l) := by
  induction l with
  | nil => intro e he; cases he
  | cons el before ih =>
    rw [isBody_cons] at hl
    simp only [c02RevBody]
    rw [isBody_cons]
    refine ⟨?_, ih hl.2⟩
    have := hl.1
    cases el <;> first | exact this.elim | trivial

/-- the reversed body draws the reversed chain -/
theorem bodySegs_revBody (p : Point K) (l : List (PathEl K)) (hl : IsBody l) :
    bodySegs (c02PrevEnd p l) (c02RevBody p l) = (bodySegs p l.reverse).reverse.map PathSeg.reverse ∧
    bodyEnd (c02PrevEnd p l) (c02RevBody p l) = p := by
  induction l with
  | nil => exact ⟨rfl, rfl⟩
  | cons el before ih =>
    rw [isBody_cons] at hl
    obtain ⟨ih1, ih2⟩ := ih hl.2
    rw [List.reverse_cons, bodySegs_append _ _ _ (isBody_reverse hl.2), ← prevEnd_eq_bodyEnd p before hl.2,
      List.reverse_append, List.map_append, ← ih1]
    have := hl.1
    cases el with
    | MoveTo q => exact this.elim
    | ClosePath => exact this.elim
    | LineTo q => exact ⟨rfl, ih2⟩
    | QuadTo q1 q2 => exact ⟨rfl, ih2⟩
    | CurveTo q1 q2 q3 => exact ⟨rfl, ih2⟩

/-- `reverse_subpath` on a body -/
theorem reverseSubpath_body (p : Point K) (body : List (PathEl K)) (hb : IsBody body) :
    reverseSubpath p body = some (.MoveTo (bodyEnd p body) :: c02RevBody p body.reverse) := by
  have he : (body.getLast?.bind PathEl.end_point).getD p = bodyEnd p body := by
    have := prevEnd_eq_bodyEnd p body.reverse (isBody_reverse hb)
    rw [List.reverse_reverse] at this
    rw [← this]
    rw [← List.head?_reverse]
    cases body.reverse with
    | nil => rfl
    | cons a t => rfl
  unfold reverseSubpath
  simp only [reverseSubpath_go_eq p body.reverse (isBody_reverse hb), he]

theorem reverseSubpaths_closed_subpath (p : Point K) (body : List (PathEl K)) (hb : IsBody body) :
    reverseSubpaths (.MoveTo p :: body ++ [.ClosePath])
      = some (.MoveTo (bodyEnd p body) :: c02RevBody p body.reverse ++ [.ClosePath]) := by
  unfold reverseSubpaths
  extract_lets slice step init
  have hbody : ∀ (l : List (PathEl K)) (k : Nat) (st : RevSt K), IsBody l →
      ∃ b, ((l.zipIdx k).map fun (el, ix) => (ix, el)).foldl step (some st)
        = some { st with pending_move := b } := by
    intro l
    induction l with
    | nil => intro k st _; exact ⟨st.pending_move, rfl⟩
    | cons e r ih =>
      intro k st hl
      rw [isBody_cons] at hl
      obtain ⟨b, hb'⟩ := ih (k + 1) { st with pending_move := false } hl.2
      refine ⟨b, ?_⟩
      simp only [List.zipIdx_cons, List.map_cons, List.foldl_cons]
      have : step (some st) (k, e) = some { st with pending_move := false } := by
        have h1 := hl.1
        cases e <;> first | exact h1.elim | rfl
      rw [this, hb']
  have h0 : step (some init) (0, PathEl.MoveTo p)
      = some { start_ix := 1, start_pt := p, reversed := [], pending_move := true } := rfl
  obtain ⟨b, hb'⟩ := hbody body 1 { start_ix := 1, start_pt := p, reversed := [], pending_move := true } hb
  simp only [List.zipIdx_cons, List.zipIdx_append, List.zipIdx_nil, List.map_cons, List.map_append, List.map_nil,
    List.foldl_cons, List.foldl_append, List.foldl_nil, h0, Nat.zero_add, hb']
  have hlast : step (some { start_ix := 1, start_pt := p, reversed := [], pending_move := b })
        ((PathEl.MoveTo p :: body).length, PathEl.ClosePath)
      = some { start_ix := (PathEl.MoveTo p :: body).length + 1, start_pt := p,
               reversed := (PathEl.MoveTo (bodyEnd p body) :: c02RevBody p body.reverse) ++ [PathEl.ClosePath],
               pending_move := false } := by
    show Option.map _ (if 1 ≤ (PathEl.MoveTo p :: body).length
      then Option.map (fun x => [] ++ x) (reverseSubpath p (slice 1 (PathEl.MoveTo p :: body).length))
      else some []) = _
    rw [if_pos (by simp)]
    have hs : slice 1 (PathEl.MoveTo p :: body).length = body := by
      simp [slice]
    rw [hs, reverseSubpath_body p body hb]; rfl
  rw [hlast]
  simp only []
  rw [if_neg (by simp), if_neg (by simp)]


/-- a single sub-path without `ClosePath` (open, or returning to its start) -/
theorem reverseSubpaths_open_subpath (p : Point K) (body : List (PathEl K)) (hb : IsBody body) :
    reverseSubpaths (.MoveTo p :: body) = some (.MoveTo (bodyEnd p body) :: c02RevBody p body.reverse) := by
  cases hbody0 : body with
  | nil => rfl
  | cons e0 r0 =>
  rw [← hbody0]
  unfold reverseSubpaths
  extract_lets slice step init
  have hbody : ∀ (l : List (PathEl K)) (k : Nat) (st : RevSt K), IsBody l →
      ∃ b, ((l.zipIdx k).map fun (el, ix) => (ix, el)).foldl step (some st)
        = some { st with pending_move := b } := by
    intro l
    induction l with
    | nil => intro k st _; exact ⟨st.pending_move, rfl⟩
    | cons e r ih =>
      intro k st hl
      rw [isBody_cons] at hl
      obtain ⟨b, hb'⟩ := ih (k + 1) { st with pending_move := false } hl.2
      refine ⟨b, ?_⟩
      simp only [List.zipIdx_cons, List.map_cons, List.foldl_cons]
      have : step (some st) (k, e) = some { st with pending_move := false } := by
        have h1 := hl.1
        cases e <;> first | exact h1.elim | rfl
      rw [this, hb']
  have h0 : step (some init) (0, PathEl.MoveTo p)
      = some { start_ix := 1, start_pt := p, reversed := [], pending_move := true } := rfl
  obtain ⟨b, hb'⟩ := hbody body 1 { start_ix := 1, start_pt := p, reversed := [], pending_move := true } hb
  simp only [List.zipIdx_cons, List.map_cons, List.foldl_cons, h0, Nat.zero_add, hb']
  rw [if_pos (by rw [hbody0]; simp)]
  simp only [List.drop_one, List.tail_cons, reverseSubpath_body p body hb]
  rfl

/-- the segments of the reversed closed sub-path: the reversed body chain, then the closing line back -/
theorem segsFrom_reverse_closed (st : SegSt K) (p : Point K) (body : List (PathEl K)) (hb : IsBody body) :
    segsFrom st (.MoveTo (bodyEnd p body) :: c02RevBody p body.reverse ++ [.ClosePath])
      = some ((bodySegs p body).reverse.map PathSeg.reverse ++ closeSegs p (bodyEnd p body)) := by
  have he : c02PrevEnd p body.reverse = bodyEnd p body := by
    rw [prevEnd_eq_bodyEnd _ _ (isBody_reverse hb), List.reverse_reverse]
  obtain ⟨h1, h2⟩ := bodySegs_revBody p body.reverse (isBody_reverse hb)
  rw [he] at h2
  rw [he, List.reverse_reverse] at h1
  rw [segsFrom_closed_subpath st _ _ (isBody_revBody p _ (isBody_reverse hb)), h1, h2]

theorem segsFrom_reverse_open (st : SegSt K) (p : Point K) (body : List (PathEl K)) (hb : IsBody body) :
    segsFrom st (.MoveTo (bodyEnd p body) :: c02RevBody p body.reverse)
      = some ((bodySegs p body).reverse.map PathSeg.reverse) := by
  have he : c02PrevEnd p body.reverse = bodyEnd p body := by
    rw [prevEnd_eq_bodyEnd _ _ (isBody_reverse hb), List.reverse_reverse]
  obtain ⟨h1, _⟩ := bodySegs_revBody p body.reverse (isBody_reverse hb)
  rw [he, List.reverse_reverse] at h1
  rw [segsFrom_open_subpath st _ _ (isBody_revBody p _ (isBody_reverse hb)), h1]

end structural

/-! ### lawful scalars: areas of chains -/
section lawful
variable {K : Type} [Field K] [LinearOrder K] [IsStrictOrderedRing K] [FloorRing K] [Scalar K] [LawfulScalar K]

theorem peq_eq_decide (a b : Point K) : a.peq b = decide (a = b) := by
  cases a; cases b
  simp only [Point.peq, scalar_norm, Point.mk.injEq, Bool.decide_and]

theorem c02_peq_iff (a b : Point K) : a.peq b = true ↔ a = b := by
  rw [peq_eq_decide]; exact decide_eq_true_iff

/-- sum of the segment areas -/
def areaSum (ss : List (PathSeg K)) : K := (ss.map PathSeg.signed_area).sum

theorem areaSum_nil : areaSum ([] : List (PathSeg K)) = 0 := rfl
theorem areaSum_cons (s : PathSeg K) (r : List (PathSeg K)) : areaSum (s :: r) = s.signed_area + areaSum r := by
  simp [areaSum]
theorem areaSum_append (a b : List (PathSeg K)) : areaSum (a ++ b) = areaSum a + areaSum b := by
  simp [areaSum]

theorem foldl_area_eq (ss : List (PathSeg K)) (a : K) :
    ss.foldl (fun acc s => acc + s.signed_area) a = a + areaSum ss := by
  induction ss generalizing a with
  | nil => simp [areaSum]
  | cons s r ih => rw [List.foldl_cons, ih, areaSum_cons]; ring

theorem pathArea_eq_areaSum (els : List (PathEl K)) : pathArea els = (segs els).map areaSum := by
  unfold pathArea
  simp only [scalar_norm]
  push_cast
  congr 1
  funext ss
  rw [foldl_area_eq, zero_add]

/-- additivity when the second part does not depend on the iterator state -/
theorem pathArea_append_some {els₁ els₂ : List (PathEl K)} (hi : ∀ st, segsFrom st els₂ = segsFrom none els₂)
    {a₁ a₂ : K} (h1 : pathArea els₁ = some a₁) (h2 : pathArea els₂ = some a₂) :
    pathArea (els₁ ++ els₂) = some (a₁ + a₂) := by
  rw [pathArea_eq_areaSum, segs_eq_segsFrom] at h1 h2 ⊢
  rw [segsFrom_append_bind hi]
  cases e1 : segsFrom none els₁ with
  | none => rw [e1] at h1; cases h1
  | some s1 =>
    cases e2 : segsFrom none els₂ with
    | none => rw [e2] at h2; cases h2
    | some s2 =>
      rw [e1] at h1; rw [e2] at h2
      simp only [Option.map_some, Option.some.injEq, Option.bind_some] at h1 h2 ⊢
      rw [areaSum_append, h1, h2]

/-- the translation-dependent part of the area of an affinely mapped arc from `p` to `q` -/
def affCorr (A : Affine K) (p q : Point K) : K :=
  (1 / 2) * (A.c4 * ((A * q).y - (A * p).y) - A.c5 * ((A * q).x - (A * p).x))

theorem affCorr_self (A : Affine K) (p : Point K) : affCorr A p p = 0 := by
  unfold affCorr; ring
theorem affCorr_add (A : Affine K) (p m q : Point K) : affCorr A p m + affCorr A m q = affCorr A p q := by
  unfold affCorr; ring

theorem pathSeg_signedArea_affine (A : Affine K) (s : PathSeg K) :
    (A * s).signed_area = A.determinant * s.signed_area + affCorr A s.start s.end := by
  unfold affCorr
  cases s <;> aff_ring

theorem affine_start (A : Affine K) (s : PathSeg K) : (A * s).start = A * s.start := by cases s <;> rfl
theorem affine_end (A : Affine K) (s : PathSeg K) : (A * s).end = A * s.end := by cases s <;> rfl

theorem segChain_map (A : Affine K) {p q : Point K} {ss : List (PathSeg K)} (h : SegChain p ss q) :
    SegChain (A * p) (ss.map (fun s : PathSeg K => A * s)) (A * q) := by
  induction ss generalizing p with
  | nil => simp only [SegChain] at h; subst h; rfl
  | cons s r ih =>
    obtain ⟨h1, h2⟩ := h
    refine ⟨?_, ?_⟩
    · rw [affine_start, h1]
    · rw [affine_end]; exact ih h2

/-- determinant law along a chain from `p` to `q` -/
theorem chain_areaSum_affine (A : Affine K) {p q : Point K} {ss : List (PathSeg K)} (h : SegChain p ss q) :
    areaSum (ss.map (fun s : PathSeg K => A * s)) = A.determinant * areaSum ss + affCorr A p q := by
  induction ss generalizing p with
  | nil => simp only [SegChain] at h; subst h; simp [areaSum, affCorr_self]
  | cons s r ih =>
    obtain ⟨h1, h2⟩ := h
    rw [List.map_cons, areaSum_cons, areaSum_cons, ih h2, pathSeg_signedArea_affine, h1,
      ← affCorr_add A p s.end q]
    ring

theorem areaSum_reverse (ss : List (PathSeg K)) (hrev : ∀ s : PathSeg K, s.reverse.signed_area = - s.signed_area) :
    areaSum (ss.reverse.map PathSeg.reverse) = - areaSum ss := by
  induction ss with
  | nil => simp [areaSum]
  | cons s r ih =>
    rw [List.reverse_cons, List.map_append, areaSum_append, ih, List.map_cons, List.map_nil, areaSum_cons,
      areaSum_nil, areaSum_cons, hrev]
    ring

theorem segChain_closeSegs (e p : Point K) : SegChain e (closeSegs e p) p := by
  unfold closeSegs
  by_cases h : e.peq p = true
  · rw [if_pos h]; exact (c02_peq_iff e p).mp h
  · rw [if_neg h]; exact ⟨rfl, rfl⟩

/-- the closing line of the mapped path has the area of the mapped closing line, also when the map is singular
    and collapses a closing line that was drawn in the original -/
theorem areaSum_closeSegs_map (A : Affine K) (e p : Point K) :
    areaSum (closeSegs (A * e) (A * p)) = areaSum ((closeSegs e p).map (fun s : PathSeg K => A * s)) := by
  unfold closeSegs
  by_cases h : e.peq p = true
  · have h' : (A * e).peq (A * p) = true := by
      rw [c02_peq_iff] at h ⊢; rw [h]
    rw [if_pos h, if_pos h']; rfl
  · rw [if_neg h]
    by_cases h' : (A * e).peq (A * p) = true
    · rw [if_pos h']
      rw [c02_peq_iff] at h'
      simp only [List.map_cons, List.map_nil, areaSum_cons, areaSum_nil, add_zero]
      show (0 : K) = (PathSeg.Line ⟨A * e, A * p⟩).signed_area
      rw [h']
      simp only [PathSeg.signed_area, kdefs, scalar_norm]; ring
    · rw [if_neg h']; rfl

/-- the closing line of the reversed sub-path is the reversed closing line -/
theorem closeSegs_swap (e p : Point K) : closeSegs p e = (closeSegs e p).map PathSeg.reverse := by
  unfold closeSegs
  by_cases h : e.peq p = true
  · have h' : p.peq e = true := by rw [c02_peq_iff] at h ⊢; exact h.symm
    rw [if_pos h, if_pos h']; rfl
  · have h' : ¬ p.peq e = true := fun h'' => h (by rw [c02_peq_iff] at h'' ⊢; exact h''.symm)
    rw [if_neg h, if_neg h']; rfl

theorem closeSegs_eq_ite (e p : Point K) :
    closeSegs e p = if e = p then [] else [PathSeg.Line ⟨e, p⟩] := by
  unfold closeSegs
  by_cases h : e = p
  · rw [if_pos h, if_pos ((c02_peq_iff _ _).mpr h)]
  · rw [if_neg h, if_neg (fun h' => h ((c02_peq_iff _ _).mp h'))]

end lawful

/-! ### example data for the non-vacuity examples of `Proofs/C02.lean` -/
namespace C02Examples
open PathEl

/-- unit square, turning from +x towards +y: area `+1` -/
def sq : List (PathEl Rat) := [MoveTo ⟨0, 0⟩, LineTo ⟨1, 0⟩, LineTo ⟨1, 1⟩, LineTo ⟨0, 1⟩, ClosePath]
/-- a second sub-path with a quadratic and a cubic, closed implicitly (returns to its start, no `ClosePath`) -/
def blob : List (PathEl Rat) := [MoveTo ⟨2, 0⟩, QuadTo ⟨3, 1⟩ ⟨2, 2⟩, CurveTo ⟨1, 2⟩ ⟨1, 0⟩ ⟨2, 0⟩]
def cb : CubicBez Rat := ⟨⟨0, 0⟩, ⟨1, 0⟩, ⟨1, 1⟩, ⟨0, 1⟩⟩
def aff : Affine Rat := ⟨2, 1, -1, 3, 5, -7⟩
/-- singular: projection onto the x axis -/
def proj : Affine Rat := ⟨1, 0, 0, 0, 0, 0⟩

end C02Examples

end Kurbo
