import Proofs.Lemmas.C08Ext
import Proofs.C06
/-! C08 helpers: Bernstein form of `eval`, convex-hull bounds, critical points are listed or the coordinate is
    constant, and the generic "each side of the folded box is attained" lemma.  Any lawful scalar. -/
set_option linter.unusedSectionVars false
namespace Kurbo
variable {K : Type} [Field K] [LinearOrder K] [IsStrictOrderedRing K] [FloorRing K] [Scalar K] [LawfulScalar K]

/-! ### Bernstein form -/

theorem line_eval_bern (l : Line K) (t : K) :
    (l.eval t).x = l.p0.x * (1 - t) + l.p1.x * t ∧ (l.eval t).y = l.p0.y * (1 - t) + l.p1.y * t := by
  constructor <;> kring

theorem quad_eval_bern (q : QuadBez K) (t : K) :
    (q.eval t).x = q.p0.x * (1 - t) ^ 2 + 2 * q.p1.x * ((1 - t) * t) + q.p2.x * t ^ 2 ∧
    (q.eval t).y = q.p0.y * (1 - t) ^ 2 + 2 * q.p1.y * ((1 - t) * t) + q.p2.y * t ^ 2 := by
  constructor <;> kring

theorem cubic_eval_bern (c : CubicBez K) (t : K) :
    (c.eval t).x = c.p0.x * (1 - t) ^ 3 + 3 * c.p1.x * ((1 - t) ^ 2 * t) + 3 * c.p2.x * ((1 - t) * t ^ 2)
      + c.p3.x * t ^ 3 ∧
    (c.eval t).y = c.p0.y * (1 - t) ^ 3 + 3 * c.p1.y * ((1 - t) ^ 2 * t) + 3 * c.p2.y * ((1 - t) * t ^ 2)
      + c.p3.y * t ^ 3 := by
  constructor <;> kring

theorem bern1_le (a b M t : K) (ht0 : 0 ≤ t) (ht1 : t ≤ 1) (ha : a ≤ M) (hb : b ≤ M) :
    a * (1 - t) + b * t ≤ M := by
  have hs : 0 ≤ 1 - t := sub_nonneg.mpr ht1
  have h1 := mul_nonneg (sub_nonneg.mpr ha) hs
  have h2 := mul_nonneg (sub_nonneg.mpr hb) ht0
  have e : M - (a * (1 - t) + b * t) = (M - a) * (1 - t) + (M - b) * t := by ring
  linarith

theorem bern1_ge (a b m t : K) (ht0 : 0 ≤ t) (ht1 : t ≤ 1) (ha : m ≤ a) (hb : m ≤ b) :
    m ≤ a * (1 - t) + b * t := by
  have h := bern1_le (-a) (-b) (-m) t ht0 ht1 (neg_le_neg ha) (neg_le_neg hb)
  have e : -a * (1 - t) + -b * t = -(a * (1 - t) + b * t) := by ring
  rw [e] at h; exact neg_le_neg_iff.mp h

theorem bern2_le (a b c M t : K) (ht0 : 0 ≤ t) (ht1 : t ≤ 1) (ha : a ≤ M) (hb : b ≤ M) (hc : c ≤ M) :
    a * (1 - t) ^ 2 + 2 * b * ((1 - t) * t) + c * t ^ 2 ≤ M := by
  have hs : 0 ≤ 1 - t := sub_nonneg.mpr ht1
  have h1 := mul_nonneg (sub_nonneg.mpr ha) (pow_nonneg hs 2)
  have h2 := mul_nonneg (sub_nonneg.mpr hb) (mul_nonneg hs ht0)
  have h3 := mul_nonneg (sub_nonneg.mpr hc) (pow_nonneg ht0 2)
  have e : M - (a * (1 - t) ^ 2 + 2 * b * ((1 - t) * t) + c * t ^ 2)
      = (M - a) * (1 - t) ^ 2 + 2 * ((M - b) * ((1 - t) * t)) + (M - c) * t ^ 2 := by ring
  linarith

theorem bern2_ge (a b c m t : K) (ht0 : 0 ≤ t) (ht1 : t ≤ 1) (ha : m ≤ a) (hb : m ≤ b) (hc : m ≤ c) :
    m ≤ a * (1 - t) ^ 2 + 2 * b * ((1 - t) * t) + c * t ^ 2 := by
  have h := bern2_le (-a) (-b) (-c) (-m) t ht0 ht1 (neg_le_neg ha) (neg_le_neg hb) (neg_le_neg hc)
  have e : -a * (1 - t) ^ 2 + 2 * -b * ((1 - t) * t) + -c * t ^ 2
      = -(a * (1 - t) ^ 2 + 2 * b * ((1 - t) * t) + c * t ^ 2) := by ring
  rw [e] at h; exact neg_le_neg_iff.mp h

theorem bern3_le (a b c d M t : K) (ht0 : 0 ≤ t) (ht1 : t ≤ 1) (ha : a ≤ M) (hb : b ≤ M) (hc : c ≤ M)
    (hd : d ≤ M) :
    a * (1 - t) ^ 3 + 3 * b * ((1 - t) ^ 2 * t) + 3 * c * ((1 - t) * t ^ 2) + d * t ^ 3 ≤ M := by
  have hs : 0 ≤ 1 - t := sub_nonneg.mpr ht1
  have h1 := mul_nonneg (sub_nonneg.mpr ha) (pow_nonneg hs 3)
  have h2 := mul_nonneg (sub_nonneg.mpr hb) (mul_nonneg (pow_nonneg hs 2) ht0)
  have h3 := mul_nonneg (sub_nonneg.mpr hc) (mul_nonneg hs (pow_nonneg ht0 2))
  have h4 := mul_nonneg (sub_nonneg.mpr hd) (pow_nonneg ht0 3)
  have e : M - (a * (1 - t) ^ 3 + 3 * b * ((1 - t) ^ 2 * t) + 3 * c * ((1 - t) * t ^ 2) + d * t ^ 3)
      = (M - a) * (1 - t) ^ 3 + 3 * ((M - b) * ((1 - t) ^ 2 * t)) + 3 * ((M - c) * ((1 - t) * t ^ 2))
        + (M - d) * t ^ 3 := by ring
  linarith

theorem bern3_ge (a b c d m t : K) (ht0 : 0 ≤ t) (ht1 : t ≤ 1) (ha : m ≤ a) (hb : m ≤ b) (hc : m ≤ c)
    (hd : m ≤ d) :
    m ≤ a * (1 - t) ^ 3 + 3 * b * ((1 - t) ^ 2 * t) + 3 * c * ((1 - t) * t ^ 2) + d * t ^ 3 := by
  have h := bern3_le (-a) (-b) (-c) (-d) (-m) t ht0 ht1 (neg_le_neg ha) (neg_le_neg hb) (neg_le_neg hc)
    (neg_le_neg hd)
  have e : -a * (1 - t) ^ 3 + 3 * -b * ((1 - t) ^ 2 * t) + 3 * -c * ((1 - t) * t ^ 2) + -d * t ^ 3
      = -(a * (1 - t) ^ 3 + 3 * b * ((1 - t) ^ 2 * t) + 3 * c * ((1 - t) * t ^ 2) + d * t ^ 3) := by ring
  rw [e] at h; exact neg_le_neg_iff.mp h

/-! ### convex hull property: a box containing the control points contains the curve -/

theorem line_eval_in_box (r : Rect K) (l : Line K) (h0 : r.ContainsClosed l.p0) (h1 : r.ContainsClosed l.p1)
    (t : K) (ht0 : 0 ≤ t) (ht1 : t ≤ 1) : r.ContainsClosed (l.eval t) := by
  unfold Rect.ContainsClosed at *
  rw [(line_eval_bern l t).1, (line_eval_bern l t).2]
  exact ⟨bern1_ge _ _ _ t ht0 ht1 h0.1 h1.1, bern1_le _ _ _ t ht0 ht1 h0.2.1 h1.2.1,
    bern1_ge _ _ _ t ht0 ht1 h0.2.2.1 h1.2.2.1, bern1_le _ _ _ t ht0 ht1 h0.2.2.2 h1.2.2.2⟩

theorem quad_eval_in_box (r : Rect K) (q : QuadBez K) (h0 : r.ContainsClosed q.p0) (h1 : r.ContainsClosed q.p1)
    (h2 : r.ContainsClosed q.p2) (t : K) (ht0 : 0 ≤ t) (ht1 : t ≤ 1) : r.ContainsClosed (q.eval t) := by
  unfold Rect.ContainsClosed at *
  rw [(quad_eval_bern q t).1, (quad_eval_bern q t).2]
  exact ⟨bern2_ge _ _ _ _ t ht0 ht1 h0.1 h1.1 h2.1, bern2_le _ _ _ _ t ht0 ht1 h0.2.1 h1.2.1 h2.2.1,
    bern2_ge _ _ _ _ t ht0 ht1 h0.2.2.1 h1.2.2.1 h2.2.2.1, bern2_le _ _ _ _ t ht0 ht1 h0.2.2.2 h1.2.2.2 h2.2.2.2⟩

theorem cubic_eval_in_box (r : Rect K) (c : CubicBez K) (h0 : r.ContainsClosed c.p0) (h1 : r.ContainsClosed c.p1)
    (h2 : r.ContainsClosed c.p2) (h3 : r.ContainsClosed c.p3) (t : K) (ht0 : 0 ≤ t) (ht1 : t ≤ 1) :
    r.ContainsClosed (c.eval t) := by
  unfold Rect.ContainsClosed at *
  rw [(cubic_eval_bern c t).1, (cubic_eval_bern c t).2]
  exact ⟨bern3_ge _ _ _ _ _ t ht0 ht1 h0.1 h1.1 h2.1 h3.1, bern3_le _ _ _ _ _ t ht0 ht1 h0.2.1 h1.2.1 h2.2.1 h3.2.1,
    bern3_ge _ _ _ _ _ t ht0 ht1 h0.2.2.1 h1.2.2.1 h2.2.2.1 h3.2.2.1,
    bern3_le _ _ _ _ _ t ht0 ht1 h0.2.2.2 h1.2.2.2 h2.2.2.2 h3.2.2.2⟩

/-- the control points of a segment (specification vocabulary) -/
def PathSeg.controlPoints {K : Type} : PathSeg K → List (Point K)
  | .Line l => [l.p0, l.p1]
  | .Quad q => [q.p0, q.p1, q.p2]
  | .Cubic c => [c.p0, c.p1, c.p2, c.p3]

theorem seg_eval_in_box (r : Rect K) (s : PathSeg K) (h : ∀ p ∈ s.controlPoints, r.ContainsClosed p)
    (t : K) (ht0 : 0 ≤ t) (ht1 : t ≤ 1) : r.ContainsClosed (s.eval t) := by
  cases s with
  | Line l =>
    exact line_eval_in_box r l (h _ (by simp [PathSeg.controlPoints])) (h _ (by simp [PathSeg.controlPoints]))
      t ht0 ht1
  | Quad q =>
    exact quad_eval_in_box r q (h _ (by simp [PathSeg.controlPoints])) (h _ (by simp [PathSeg.controlPoints]))
      (h _ (by simp [PathSeg.controlPoints])) t ht0 ht1
  | Cubic c =>
    exact cubic_eval_in_box r c (h _ (by simp [PathSeg.controlPoints])) (h _ (by simp [PathSeg.controlPoints]))
      (h _ (by simp [PathSeg.controlPoints])) (h _ (by simp [PathSeg.controlPoints])) t ht0 ht1

/-! ### a critical point is listed, or the coordinate is constant -/

theorem quad_crit_x (q : QuadBez K) (t : K) (h0 : 0 < t) (h1 : t < 1) (hz : (q.deriv.eval t).x = 0) :
    t ∈ q.extrema ∨ ∀ u, (q.deriv.eval u).x = 0 := by
  rw [(quad_deriv_eval q t).1] at hz
  have hz' : (q.p1.x - q.p0.x) + t * (q.p2.x - q.p1.x - (q.p1.x - q.p0.x)) = 0 := by
    rcases mul_eq_zero.mp hz with h | h
    · norm_num at h
    · exact h
  by_cases hdd : q.p2.x - q.p1.x - (q.p1.x - q.p0.x) = 0
  · right; intro u
    rw [(quad_deriv_eval q u).1]
    rw [hdd] at hz' ⊢
    have : q.p1.x - q.p0.x = 0 := by linear_combination hz'
    rw [this]; ring
  · left
    rw [(quad_extrema_facts q).1]; left
    rw [mem_unitRoot]
    exact ⟨hdd, h0, h1, (affine_root_iff _ _ _ hdd).mp hz'⟩

theorem quad_crit_y (q : QuadBez K) (t : K) (h0 : 0 < t) (h1 : t < 1) (hz : (q.deriv.eval t).y = 0) :
    t ∈ q.extrema ∨ ∀ u, (q.deriv.eval u).y = 0 := by
  rw [(quad_deriv_eval q t).2] at hz
  have hz' : (q.p1.y - q.p0.y) + t * (q.p2.y - q.p1.y - (q.p1.y - q.p0.y)) = 0 := by
    rcases mul_eq_zero.mp hz with h | h
    · norm_num at h
    · exact h
  by_cases hdd : q.p2.y - q.p1.y - (q.p1.y - q.p0.y) = 0
  · right; intro u
    rw [(quad_deriv_eval q u).2]
    rw [hdd] at hz' ⊢
    have : q.p1.y - q.p0.y = 0 := by linear_combination hz'
    rw [this]; ring
  · left
    rw [(quad_extrema_facts q).1]; right
    rw [mem_unitRoot]
    exact ⟨hdd, h0, h1, (affine_root_iff _ _ _ hdd).mp hz'⟩

theorem quad_const_x (q : QuadBez K) (h : ∀ u, (q.deriv.eval u).x = 0) (t : K) : (q.eval t).x = q.p0.x := by
  have a0 := h 0
  have a1 := h 1
  rw [(quad_deriv_eval q _).1] at a0 a1
  have e1 : q.p1.x = q.p0.x := by linear_combination (1 / 2 : K) * a0
  have e2 : q.p2.x = q.p0.x := by linear_combination (1 / 2 : K) * a1 + (1 / 2 : K) * a0
  rw [(quad_eval_bern q t).1, e1, e2]; ring

theorem quad_const_y (q : QuadBez K) (h : ∀ u, (q.deriv.eval u).y = 0) (t : K) : (q.eval t).y = q.p0.y := by
  have a0 := h 0
  have a1 := h 1
  rw [(quad_deriv_eval q _).2] at a0 a1
  have e1 : q.p1.y = q.p0.y := by linear_combination (1 / 2 : K) * a0
  have e2 : q.p2.y = q.p0.y := by linear_combination (1 / 2 : K) * a1 + (1 / 2 : K) * a0
  rw [(quad_eval_bern q t).2, e1, e2]; ring

theorem three_ne_zero_mul {x : K} (h : 3 * x = 0) : x = 0 := by
  rcases mul_eq_zero.mp h with h | h
  · norm_num at h
  · exact h

theorem cubic_crit_x (S : QuadSolverSpec K) (c : CubicBez K) (t : K) (h0 : 0 < t) (h1 : t < 1)
    (hz : (c.deriv.eval t).x = 0) : t ∈ c.extrema ∨ ∀ u, (c.deriv.eval u).x = 0 := by
  rw [(cubic_deriv_eval c t).1] at hz
  have hz' := three_ne_zero_mul hz
  by_cases hnz : (c.p1.x - c.p0.x) - 2 * (c.p2.x - c.p1.x) + (c.p3.x - c.p2.x) ≠ 0 ∨
      2 * ((c.p2.x - c.p1.x) - (c.p1.x - c.p0.x)) ≠ 0 ∨ c.p1.x - c.p0.x ≠ 0
  · left
    rw [mem_cubic_extrema]; left
    exact cubicOneCoord_complete S _ _ _ t hnz h0 h1 hz'
  · right; intro u
    simp only [not_or, not_not] at hnz
    rw [(cubic_deriv_eval c u).1, hnz.1, hnz.2.1, hnz.2.2]; ring

theorem cubic_crit_y (S : QuadSolverSpec K) (c : CubicBez K) (t : K) (h0 : 0 < t) (h1 : t < 1)
    (hz : (c.deriv.eval t).y = 0) : t ∈ c.extrema ∨ ∀ u, (c.deriv.eval u).y = 0 := by
  rw [(cubic_deriv_eval c t).2] at hz
  have hz' := three_ne_zero_mul hz
  by_cases hnz : (c.p1.y - c.p0.y) - 2 * (c.p2.y - c.p1.y) + (c.p3.y - c.p2.y) ≠ 0 ∨
      2 * ((c.p2.y - c.p1.y) - (c.p1.y - c.p0.y)) ≠ 0 ∨ c.p1.y - c.p0.y ≠ 0
  · left
    rw [mem_cubic_extrema]; right
    exact cubicOneCoord_complete S _ _ _ t hnz h0 h1 hz'
  · right; intro u
    simp only [not_or, not_not] at hnz
    rw [(cubic_deriv_eval c u).2, hnz.1, hnz.2.1, hnz.2.2]; ring

theorem cubic_const_x (c : CubicBez K) (h : ∀ u, (c.deriv.eval u).x = 0) (t : K) : (c.eval t).x = c.p0.x := by
  have a0 := h 0
  have a1 := h 1
  have a2 := h (1 / 2)
  rw [(cubic_deriv_eval c _).1] at a0 a1 a2
  have e1 : c.p1.x = c.p0.x := by linear_combination (1 / 3 : K) * a0
  have e3 : c.p3.x = c.p2.x := by linear_combination (1 / 3 : K) * a1
  have e2 : c.p2.x = c.p1.x := by
    linear_combination (2 / 3 : K) * a2 - (1 / 6 : K) * a0 - (1 / 6 : K) * a1
  rw [(cubic_eval_bern c t).1, e3, e2, e1]; ring

theorem cubic_const_y (c : CubicBez K) (h : ∀ u, (c.deriv.eval u).y = 0) (t : K) : (c.eval t).y = c.p0.y := by
  have a0 := h 0
  have a1 := h 1
  have a2 := h (1 / 2)
  rw [(cubic_deriv_eval c _).2] at a0 a1 a2
  have e1 : c.p1.y = c.p0.y := by linear_combination (1 / 3 : K) * a0
  have e3 : c.p3.y = c.p2.y := by linear_combination (1 / 3 : K) * a1
  have e2 : c.p2.y = c.p1.y := by
    linear_combination (2 / 3 : K) * a2 - (1 / 6 : K) * a0 - (1 / 6 : K) * a1
  rw [(cubic_eval_bern c t).2, e3, e2, e1]; ring

/-! ### the box of a segment, unfolded -/

theorem seg_bounding_box_eq (s : PathSeg K) :
    s.bounding_box = s.extrema.foldl (fun bb t => bb.union_pt (s.eval t)) (Rect.from_points (s.eval 0) (s.eval 1)) := by
  unfold PathSeg.bounding_box
  cases s with
  | Line l => simp only [PathSeg.start, PathSeg.end, PathSeg.eval, Line.start, Line.end,
      (line_eval_zero_one l).1, (line_eval_zero_one l).2]
  | Quad q => simp only [PathSeg.start, PathSeg.end, PathSeg.eval, QuadBez.start, QuadBez.end,
      (quad_eval_zero_one q).1, (quad_eval_zero_one q).2]
  | Cubic c => simp only [PathSeg.start, PathSeg.end, PathSeg.eval, CubicBez.start, CubicBez.end,
      (cubic_eval_zero_one c).1, (cubic_eval_zero_one c).2]

theorem seg_extrema_unit (s : PathSeg K) (t : K) (h : t ∈ s.extrema) : 0 < t ∧ t < 1 := by
  cases s with
  | Line l => simp [PathSeg.extrema] at h
  | Quad q =>
    simp only [PathSeg.extrema] at h
    rw [(quad_extrema_facts q).1] at h
    rcases h with h | h <;> (rw [mem_unitRoot] at h; exact ⟨h.2.1, h.2.2.1⟩)
  | Cubic c =>
    simp only [PathSeg.extrema] at h
    rw [mem_cubic_extrema] at h
    rcases h with h | h <;> exact cubicOneCoord_unit _ _ _ t h

/-- each side of a box folded from `from_points (f 0) (f 1)` over parameters in `[0,1]` is attained on `[0,1]` -/
theorem fold_box_tight (f : K → Point K) (ex : List K) (hex : ∀ t ∈ ex, 0 < t ∧ t < 1) :
    let bb := ex.foldl (fun bb t => bb.union_pt (f t)) (Rect.from_points (f 0) (f 1))
    (∃ t, 0 ≤ t ∧ t ≤ 1 ∧ (f t).x = bb.x0) ∧ (∃ t, 0 ≤ t ∧ t ≤ 1 ∧ (f t).y = bb.y0) ∧
    (∃ t, 0 ≤ t ∧ t ≤ 1 ∧ (f t).x = bb.x1) ∧ (∃ t, 0 ≤ t ∧ t ≤ 1 ∧ (f t).y = bb.y1) := by
  intro bb
  obtain ⟨h1, h2, h3, h4⟩ := foldl_union_pt_attained f ex (Rect.from_points (f 0) (f 1))
  have ex0 : (Rect.from_points (f 0) (f 1)).x0 = min (f 0).x (f 1).x := by rw [Rect.from_points_eq]
  have ey0 : (Rect.from_points (f 0) (f 1)).y0 = min (f 0).y (f 1).y := by rw [Rect.from_points_eq]
  have ex1 : (Rect.from_points (f 0) (f 1)).x1 = max (f 0).x (f 1).x := by rw [Rect.from_points_eq]
  have ey1 : (Rect.from_points (f 0) (f 1)).y1 = max (f 0).y (f 1).y := by rw [Rect.from_points_eq]
  refine ⟨?_, ?_, ?_, ?_⟩
  · rcases h1 with h | ⟨t, ht, h⟩
    · rcases min_choice (f 0).x (f 1).x with e | e
      · exact ⟨0, le_rfl, zero_le_one, (h.trans (ex0.trans e)).symm⟩
      · exact ⟨1, zero_le_one, le_rfl, (h.trans (ex0.trans e)).symm⟩
    · exact ⟨t, (hex t ht).1.le, (hex t ht).2.le, h.symm⟩
  · rcases h2 with h | ⟨t, ht, h⟩
    · rcases min_choice (f 0).y (f 1).y with e | e
      · exact ⟨0, le_rfl, zero_le_one, (h.trans (ey0.trans e)).symm⟩
      · exact ⟨1, zero_le_one, le_rfl, (h.trans (ey0.trans e)).symm⟩
    · exact ⟨t, (hex t ht).1.le, (hex t ht).2.le, h.symm⟩
  · rcases h3 with h | ⟨t, ht, h⟩
    · rcases max_choice (f 0).x (f 1).x with e | e
      · exact ⟨0, le_rfl, zero_le_one, (h.trans (ex1.trans e)).symm⟩
      · exact ⟨1, zero_le_one, le_rfl, (h.trans (ex1.trans e)).symm⟩
    · exact ⟨t, (hex t ht).1.le, (hex t ht).2.le, h.symm⟩
  · rcases h4 with h | ⟨t, ht, h⟩
    · rcases max_choice (f 0).y (f 1).y with e | e
      · exact ⟨0, le_rfl, zero_le_one, (h.trans (ey1.trans e)).symm⟩
      · exact ⟨1, zero_le_one, le_rfl, (h.trans (ey1.trans e)).symm⟩
    · exact ⟨t, (hex t ht).1.le, (hex t ht).2.le, h.symm⟩

end Kurbo
