import Proofs.KDefs
import Proofs.C06
import Kurbo.Quads
import Mathlib.Analysis.SpecialFunctions.Pow.Real
/-! Helper lemmas for C17: `CubicBez.fit_inside` (cu2qu's farthest-fit-inside test). -/
set_option linter.unusedSectionVars false
namespace Kurbo

/-! ### fuel monotonicity (no arithmetic law needed) -/
section structural
variable {K : Type} [Scalar K]

theorem fit_inside_succ_of_true (d : K) : ∀ (fuel : Nat) (c : CubicBez K),
    c.fit_inside d fuel = true → c.fit_inside d (fuel + 1) = true
  | 0, c, h => by simp [CubicBez.fit_inside] at h
  | fuel + 1, c, h => by
    rw [CubicBez.fit_inside] at h ⊢
    split at h
    · rename_i h1; rw [if_pos h1]
    · rename_i h1; rw [if_neg h1]
      simp only [] at h ⊢
      split at h
      · exact absurd h (by simp)
      · rename_i h2; rw [if_neg h2]
        simp only [Bool.and_eq_true] at h ⊢
        exact ⟨fit_inside_succ_of_true d fuel _ h.1, fit_inside_succ_of_true d fuel _ h.2⟩

theorem fit_inside_mono (d : K) (c : CubicBez K) (fuel fuel' : Nat) (hle : fuel ≤ fuel')
    (h : c.fit_inside d fuel = true) : c.fit_inside d fuel' = true := by
  induction hle with
  | refl => exact h
  | step _ ih => exact fit_inside_succ_of_true d _ c ih

end structural

variable {K : Type} [Field K] [LinearOrder K] [IsStrictOrderedRing K] [FloorRing K] [Scalar K] [LawfulScalar K]

/-- The one fact about `Scalar.hypot` the containment proofs need: comparing `hypot x y` with a non-negative bound
    is comparing the squared length with the squared bound.  It holds for `ℝ` when `hypot x y = √(x²+y²)`
    (`lawfulHypot_of_sqrt`).  (`Rat`'s executable `hypot` is a 2⁻¹⁰⁰-approximation of the square root and is *not*
    an instance.) -/
class LawfulHypot (K : Type) [Field K] [LinearOrder K] [Scalar K] : Prop where
  hypot_le_iff : ∀ x y d : K, 0 ≤ d → (Scalar.hypot x y ≤ d ↔ x ^ 2 + y ^ 2 ≤ d ^ 2)

theorem lawfulHypot_of_sqrt [Scalar ℝ] (h : ∀ x y : ℝ, Scalar.hypot x y = Real.sqrt (x ^ 2 + y ^ 2)) :
    LawfulHypot ℝ where
  hypot_le_iff x y d hd := by
    rw [h, Real.sqrt_le_left hd]

/-- squared length of a point -/
def Point.nsq (p : Point K) : K := p.x ^ 2 + p.y ^ 2

theorem vec2_hypot_le_iff [LawfulHypot K] (v : Vec2 K) (d : K) (hd : 0 ≤ d) :
    v.hypot ≤ d ↔ v.x ^ 2 + v.y ^ 2 ≤ d ^ 2 := LawfulHypot.hypot_le_iff v.x v.y d hd

/-! ### convex hull property, squared form -/

theorem conv2 (px py qx qy d t : K) (hp : px ^ 2 + py ^ 2 ≤ d ^ 2) (hq : qx ^ 2 + qy ^ 2 ≤ d ^ 2)
    (ht0 : 0 ≤ t) (ht1 : t ≤ 1) :
    ((1 - t) * px + t * qx) ^ 2 + ((1 - t) * py + t * qy) ^ 2 ≤ d ^ 2 := by
  have key : d ^ 2 - (((1 - t) * px + t * qx) ^ 2 + ((1 - t) * py + t * qy) ^ 2)
      = (1 - t) * (d ^ 2 - (px ^ 2 + py ^ 2)) + t * (d ^ 2 - (qx ^ 2 + qy ^ 2))
        + t * (1 - t) * ((px - qx) ^ 2 + (py - qy) ^ 2) := by ring
  have h1 : 0 ≤ (1 - t) * (d ^ 2 - (px ^ 2 + py ^ 2)) := mul_nonneg (by linarith) (by linarith)
  have h2 : 0 ≤ t * (d ^ 2 - (qx ^ 2 + qy ^ 2)) := mul_nonneg ht0 (by linarith)
  have h3 : 0 ≤ t * (1 - t) * ((px - qx) ^ 2 + (py - qy) ^ 2) :=
    mul_nonneg (mul_nonneg ht0 (by linarith)) (by positivity)
  linarith

/-- a cubic Bézier stays in every disc (about the origin) that contains its four control points -/
theorem cubic_eval_nsq_le (c : CubicBez K) (d : K) (h0 : c.p0.nsq ≤ d ^ 2) (h1 : c.p1.nsq ≤ d ^ 2)
    (h2 : c.p2.nsq ≤ d ^ 2) (h3 : c.p3.nsq ≤ d ^ 2) (t : K) (ht0 : 0 ≤ t) (ht1 : t ≤ 1) :
    (c.eval t).nsq ≤ d ^ 2 := by
  unfold Point.nsq at *
  have a01 := conv2 _ _ _ _ d t h0 h1 ht0 ht1
  have a12 := conv2 _ _ _ _ d t h1 h2 ht0 ht1
  have a23 := conv2 _ _ _ _ d t h2 h3 ht0 ht1
  have b0 := conv2 _ _ _ _ d t a01 a12 ht0 ht1
  have b1 := conv2 _ _ _ _ d t a12 a23 ht0 ht1
  have e := conv2 _ _ _ _ d t b0 b1 ht0 ht1
  have ex : (c.eval t).x = (1 - t) * ((1 - t) * ((1 - t) * c.p0.x + t * c.p1.x) + t * ((1 - t) * c.p1.x + t * c.p2.x))
      + t * ((1 - t) * ((1 - t) * c.p1.x + t * c.p2.x) + t * ((1 - t) * c.p2.x + t * c.p3.x)) := by kring
  have ey : (c.eval t).y = (1 - t) * ((1 - t) * ((1 - t) * c.p0.y + t * c.p1.y) + t * ((1 - t) * c.p1.y + t * c.p2.y))
      + t * ((1 - t) * ((1 - t) * c.p1.y + t * c.p2.y) + t * ((1 - t) * c.p2.y + t * c.p3.y)) := by kring
  rw [ex, ey]; exact e

/-! ### soundness of `fit_inside` -/

theorem cubic_left_eval (c : CubicBez K) (t : K) : (c.subsegment ⟨0, 1 / 2⟩).eval (2 * t) = c.eval t := by
  rw [cubic_subsegment_eval]; congr 1; ring
theorem cubic_right_eval (c : CubicBez K) (t : K) : (c.subsegment ⟨1 / 2, 1⟩).eval (2 * t - 1) = c.eval t := by
  rw [cubic_subsegment_eval]; congr 1; ring

theorem fit_inside_sound [LawfulHypot K] (d : K) (hd : 0 ≤ d) : ∀ (fuel : Nat) (c : CubicBez K),
    c.p0.nsq ≤ d ^ 2 → c.p3.nsq ≤ d ^ 2 → c.fit_inside d fuel = true →
    ∀ t : K, 0 ≤ t → t ≤ 1 → (c.eval t).nsq ≤ d ^ 2
  | 0, c, _, _, h => by simp [CubicBez.fit_inside] at h
  | fuel + 1, c, h0, h3, h => by
    intro t ht0 ht1
    rw [CubicBez.fit_inside] at h
    split at h
    · rename_i h1
      simp only [scalar_norm, Bool.and_eq_true, decide_eq_true_eq] at h1
      rw [vec2_hypot_le_iff _ _ hd, vec2_hypot_le_iff _ _ hd] at h1
      exact cubic_eval_nsq_le c d h0 h1.2 h1.1 h3 t ht0 ht1
    · simp only [] at h
      split at h
      · exact absurd h (by simp)
      · rename_i h1 h2
        simp only [scalar_norm, decide_eq_true_eq, not_lt] at h2
        rw [vec2_hypot_le_iff _ _ hd] at h2
        have hmid : (c.eval (1 / 2)).nsq ≤ d ^ 2 := by
          simp only [kdefs, scalar_norm] at h2
          simp only [Point.nsq, kdefs, scalar_norm]
          push_cast at h2 ⊢
          refine le_of_eq_of_le ?_ h2
          ring
        rw [cubic_subdivide] at h
        simp only [Bool.and_eq_true] at h
        have e0 : c.eval 0 = c.p0 := (cubic_eval_zero_one c).1
        have e1 : c.eval 1 = c.p3 := (cubic_eval_zero_one c).2
        rcases le_total t (1 / 2) with hh | hh
        · rw [← cubic_left_eval]
          refine fit_inside_sound d hd fuel _ ?_ ?_ h.1 (2 * t) (by linarith) (by linarith)
          · show (c.eval 0).nsq ≤ _
            rw [e0]; exact h0
          · exact hmid
        · rw [← cubic_right_eval]
          refine fit_inside_sound d hd fuel _ ?_ ?_ h.2 (2 * t - 1) (by linarith) (by linarith)
          · exact hmid
          · show (c.eval 1).nsq ≤ _
            rw [e1]; exact h3

/-- the same in terms of the model's own `hypot` -/
theorem fit_inside_sound_hypot [LawfulHypot K] (d : K) (hd : 0 ≤ d) (fuel : Nat) (c : CubicBez K)
    (h0 : c.p0.to_vec2.hypot ≤ d) (h3 : c.p3.to_vec2.hypot ≤ d) (h : c.fit_inside d fuel = true)
    (t : K) (ht0 : 0 ≤ t) (ht1 : t ≤ 1) : (c.eval t).to_vec2.hypot ≤ d := by
  rw [vec2_hypot_le_iff _ _ hd] at h0 h3 ⊢
  exact fit_inside_sound d hd fuel c h0 h3 h t ht0 ht1

end Kurbo
