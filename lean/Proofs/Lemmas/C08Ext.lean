import Proofs.Lemmas.C08List
import Mathlib.Tactic.LinearCombination
/-! C08 helpers: what `QuadBez.extrema`, `cubicOneCoord` and `CubicBez.extrema` contain.
    `QuadSolverSpec` is the specification of `solveQuadratic` that the cubic statements assume (proved in C15). -/
set_option linter.unusedSectionVars false
namespace Kurbo
variable {K : Type} [Field K] [LinearOrder K] [IsStrictOrderedRing K] [FloorRing K] [Scalar K] [LawfulScalar K]

/-! ### quadratics -/

/-- the root of `d0 + t·dd` if it exists and lies in the open unit interval -/
def unitRoot (d0 dd : K) : List K := if dd ≠ 0 ∧ 0 < -d0 / dd ∧ -d0 / dd < 1 then [-d0 / dd] else []

/-- the "push, then swap" merge of `QuadBez::extrema` -/
def quadMerge (rx ry : List K) : List K :=
  match ry with
  | [] => rx
  | ty :: _ =>
    match rx with
    | [t0] => if ty < t0 then [ty, t0] else [t0, ty]
    | _ => rx ++ [ty]

theorem mem_unitRoot (d0 dd t : K) : t ∈ unitRoot d0 dd ↔ dd ≠ 0 ∧ 0 < t ∧ t < 1 ∧ t = -d0 / dd := by
  unfold unitRoot
  split_ifs with h
  · simp only [List.mem_singleton]
    constructor
    · rintro rfl; exact ⟨h.1, h.2.1, h.2.2, rfl⟩
    · exact fun h => h.2.2.2
  · simp only [List.not_mem_nil, false_iff]
    rintro ⟨h1, h2, h3, rfl⟩
    exact h ⟨h1, h2, h3⟩

theorem unitRoot_cases (d0 dd : K) : unitRoot d0 dd = [] ∨ unitRoot d0 dd = [-d0 / dd] := by
  unfold unitRoot; split_ifs <;> simp

theorem quadMerge_cases (rx ry : List K) (hx : rx = [] ∨ ∃ a, rx = [a]) (hy : ry = [] ∨ ∃ b, ry = [b]) :
    (∀ t, t ∈ quadMerge rx ry ↔ t ∈ rx ∨ t ∈ ry) ∧ (quadMerge rx ry).Pairwise (· ≤ ·) ∧
      (quadMerge rx ry).length ≤ 2 := by
  rcases hx with rfl | ⟨a, rfl⟩ <;> rcases hy with rfl | ⟨b, rfl⟩
  · simp [quadMerge]
  · simp [quadMerge]
  · simp [quadMerge]
  · simp only [quadMerge]
    split_ifs with h
    · refine ⟨fun t => by simp [or_comm], ?_, by simp⟩
      simp [h.le]
    · refine ⟨fun t => by simp, ?_, by simp⟩
      simp [not_lt.mp h]

theorem quad_extrema_eq (q : QuadBez K) :
    q.extrema = quadMerge (unitRoot (q.p1.x - q.p0.x) (q.p2.x - q.p1.x - (q.p1.x - q.p0.x)))
      (unitRoot (q.p1.y - q.p0.y) (q.p2.y - q.p1.y - (q.p1.y - q.p0.y))) := by
  unfold QuadBez.extrema
  simp only [kdefs, scalar_norm, sne]
  push_cast
  simp only [decide_eq_true_eq, Bool.and_eq_true, Bool.not_eq_true', decide_eq_false_iff_not]
  by_cases hx1 : q.p2.x - q.p1.x - (q.p1.x - q.p0.x) = 0 <;>
  by_cases hy1 : q.p2.y - q.p1.y - (q.p1.y - q.p0.y) = 0 <;>
  by_cases hx2 : (0 < -(q.p1.x - q.p0.x) / (q.p2.x - q.p1.x - (q.p1.x - q.p0.x)) ∧
                  -(q.p1.x - q.p0.x) / (q.p2.x - q.p1.x - (q.p1.x - q.p0.x)) < 1) <;>
  by_cases hy2 : (0 < -(q.p1.y - q.p0.y) / (q.p2.y - q.p1.y - (q.p1.y - q.p0.y)) ∧
                  -(q.p1.y - q.p0.y) / (q.p2.y - q.p1.y - (q.p1.y - q.p0.y)) < 1) <;>
  simp only [unitRoot, quadMerge, hx1, hy1, hx2, hy2, not_true_eq_false, not_false_eq_true, if_true, if_false,
    ne_eq, and_self, true_and, false_and, List.nil_append]

theorem quad_extrema_facts (q : QuadBez K) :
    (∀ t, t ∈ q.extrema ↔ t ∈ unitRoot (q.p1.x - q.p0.x) (q.p2.x - q.p1.x - (q.p1.x - q.p0.x)) ∨
        t ∈ unitRoot (q.p1.y - q.p0.y) (q.p2.y - q.p1.y - (q.p1.y - q.p0.y))) ∧
    q.extrema.Pairwise (· ≤ ·) ∧ q.extrema.length ≤ 2 := by
  rw [quad_extrema_eq]
  apply quadMerge_cases
  · rcases unitRoot_cases (q.p1.x - q.p0.x) (q.p2.x - q.p1.x - (q.p1.x - q.p0.x)) with h | h
    · exact Or.inl h
    · exact Or.inr ⟨_, h⟩
  · rcases unitRoot_cases (q.p1.y - q.p0.y) (q.p2.y - q.p1.y - (q.p1.y - q.p0.y)) with h | h
    · exact Or.inl h
    · exact Or.inr ⟨_, h⟩

/-- the velocity of a quadratic is affine in `t` -/
theorem quad_deriv_eval (q : QuadBez K) (t : K) :
    (q.deriv.eval t).x = 2 * ((q.p1.x - q.p0.x) + t * (q.p2.x - q.p1.x - (q.p1.x - q.p0.x))) ∧
    (q.deriv.eval t).y = 2 * ((q.p1.y - q.p0.y) + t * (q.p2.y - q.p1.y - (q.p1.y - q.p0.y))) := by
  constructor <;> kring

theorem affine_root_iff (d0 dd t : K) (h : dd ≠ 0) : d0 + t * dd = 0 ↔ t = -d0 / dd := by
  rw [eq_div_iff h]
  constructor <;> intro e <;> linear_combination e

/-! ### the solver specification assumed by the cubic statements -/

/-- what `CubicBez.extrema` needs to know about `solveQuadratic` (root set in the quadratic case, the exact
    value in the degenerate cases, at most two roots, increasing order). -/
structure QuadSolverSpec (K : Type) [Field K] [LinearOrder K] [IsStrictOrderedRing K] [FloorRing K] [Scalar K] : Prop where
  quad : ∀ c0 c1 c2 : K, c2 ≠ 0 → ∀ x, x ∈ solveQuadratic c0 c1 c2 ↔ c0 + c1 * x + c2 * x ^ 2 = 0
  linear : ∀ c0 c1 : K, c1 ≠ 0 → solveQuadratic c0 c1 0 = [-c0 / c1]
  zero : solveQuadratic (0 : K) 0 0 = [0]
  const : ∀ c0 : K, c0 ≠ 0 → solveQuadratic c0 0 0 = []
  length_le : ∀ c0 c1 c2 : K, (solveQuadratic c0 c1 c2).length ≤ 2
  sorted : ∀ c0 c1 c2 : K, (solveQuadratic c0 c1 c2).Pairwise (· ≤ ·)

/-! ### cubics -/

theorem cubicOneCoord_eq (d0 d1 d2 : K) :
    cubicOneCoord d0 d1 d2 =
      (solveQuadratic d0 (2 * (d1 - d0)) (d0 - 2 * d1 + d2)).filter fun t => decide (0 < t) && decide (t < 1) := by
  unfold cubicOneCoord
  simp only [scalar_norm]
  push_cast
  rfl

theorem cubicOneCoord_unit (d0 d1 d2 t : K) (h : t ∈ cubicOneCoord d0 d1 d2) : 0 < t ∧ t < 1 := by
  rw [cubicOneCoord_eq, List.mem_filter] at h
  simpa using h.2

theorem cubicOneCoord_length (S : QuadSolverSpec K) (d0 d1 d2 : K) : (cubicOneCoord d0 d1 d2).length ≤ 2 := by
  rw [cubicOneCoord_eq]
  exact (List.length_filter_le _ _).trans (S.length_le _ _ _)

theorem cubicOneCoord_sound (S : QuadSolverSpec K) (d0 d1 d2 t : K) (h : t ∈ cubicOneCoord d0 d1 d2) :
    0 < t ∧ t < 1 ∧ d0 + 2 * (d1 - d0) * t + (d0 - 2 * d1 + d2) * t ^ 2 = 0 := by
  have hu := cubicOneCoord_unit d0 d1 d2 t h
  refine ⟨hu.1, hu.2, ?_⟩
  rw [cubicOneCoord_eq, List.mem_filter] at h
  have hm := h.1
  by_cases ha : d0 - 2 * d1 + d2 = 0
  · rw [ha] at hm ⊢
    by_cases hb : 2 * (d1 - d0) = 0
    · rw [hb] at hm ⊢
      by_cases hc : d0 = 0
      · rw [hc]; ring
      · rw [S.const d0 hc] at hm; simp at hm
    · rw [S.linear _ _ hb, List.mem_singleton, eq_div_iff hb] at hm
      linear_combination hm
  · exact (S.quad _ _ _ ha t).mp hm

theorem cubicOneCoord_complete (S : QuadSolverSpec K) (d0 d1 d2 t : K)
    (hnz : d0 - 2 * d1 + d2 ≠ 0 ∨ 2 * (d1 - d0) ≠ 0 ∨ d0 ≠ 0) (h0 : 0 < t) (h1 : t < 1)
    (hz : d0 + 2 * (d1 - d0) * t + (d0 - 2 * d1 + d2) * t ^ 2 = 0) : t ∈ cubicOneCoord d0 d1 d2 := by
  rw [cubicOneCoord_eq, List.mem_filter]
  refine ⟨?_, by simp [h0, h1]⟩
  by_cases ha : d0 - 2 * d1 + d2 = 0
  · rw [ha] at hz ⊢
    by_cases hb : 2 * (d1 - d0) = 0
    · rw [hb] at hz
      have hc : d0 = 0 := by linear_combination hz
      rcases hnz with h | h | h
      · exact absurd ha h
      · exact absurd hb h
      · exact absurd hc h
    · rw [S.linear _ _ hb, List.mem_singleton, eq_div_iff hb]
      linear_combination hz
  · exact (S.quad _ _ _ ha t).mpr hz

/-- `one_coord` returns nothing when the velocity coordinate vanishes identically (the solver's `[0]` is filtered) -/
theorem cubicOneCoord_nonzero (S : QuadSolverSpec K) (d0 d1 d2 t : K) (h : t ∈ cubicOneCoord d0 d1 d2) :
    d0 - 2 * d1 + d2 ≠ 0 ∨ 2 * (d1 - d0) ≠ 0 ∨ d0 ≠ 0 := by
  by_contra hall
  simp only [not_or, not_not] at hall
  obtain ⟨ha, hb, hc⟩ := hall
  have hu := cubicOneCoord_unit d0 d1 d2 t h
  rw [cubicOneCoord_eq, ha, hb, hc, S.zero, List.mem_filter, List.mem_singleton] at h
  rw [h.1] at hu
  exact lt_irrefl _ hu.1

/-- a quadratic polynomial function that vanishes everywhere has zero coefficients -/
theorem quadpoly_zero (a b c : K) (h : ∀ u : K, 3 * (c + b * u + a * u ^ 2) = 0) : a = 0 ∧ b = 0 ∧ c = 0 := by
  have a0 := h 0
  have a1 := h 1
  have a2 := h (1 / 2)
  refine ⟨?_, ?_, ?_⟩
  · linear_combination (2 / 3 : K) * a1 + (2 / 3 : K) * a0 - (4 / 3 : K) * a2
  · linear_combination -(1 / 3 : K) * a1 - a0 + (4 / 3 : K) * a2
  · linear_combination (1 / 3 : K) * a0

/-- the velocity of a cubic is the quadratic whose coefficients `one_coord` passes to the solver (times 3) -/
theorem cubic_deriv_eval (c : CubicBez K) (t : K) :
    (c.deriv.eval t).x = 3 * ((c.p1.x - c.p0.x) + 2 * ((c.p2.x - c.p1.x) - (c.p1.x - c.p0.x)) * t
      + ((c.p1.x - c.p0.x) - 2 * (c.p2.x - c.p1.x) + (c.p3.x - c.p2.x)) * t ^ 2) ∧
    (c.deriv.eval t).y = 3 * ((c.p1.y - c.p0.y) + 2 * ((c.p2.y - c.p1.y) - (c.p1.y - c.p0.y)) * t
      + ((c.p1.y - c.p0.y) - 2 * (c.p2.y - c.p1.y) + (c.p3.y - c.p2.y)) * t ^ 2) := by
  constructor <;> kring

theorem cubic_extrema_eq (c : CubicBez K) :
    c.extrema = sortList (cubicOneCoord (c.p1.x - c.p0.x) (c.p2.x - c.p1.x) (c.p3.x - c.p2.x) ++
      cubicOneCoord (c.p1.y - c.p0.y) (c.p2.y - c.p1.y) (c.p3.y - c.p2.y)) := by
  unfold CubicBez.extrema
  simp only [kdefs, scalar_norm]

theorem mem_cubic_extrema (c : CubicBez K) (t : K) :
    t ∈ c.extrema ↔ t ∈ cubicOneCoord (c.p1.x - c.p0.x) (c.p2.x - c.p1.x) (c.p3.x - c.p2.x) ∨
      t ∈ cubicOneCoord (c.p1.y - c.p0.y) (c.p2.y - c.p1.y) (c.p3.y - c.p2.y) := by
  rw [cubic_extrema_eq, mem_sortList, List.mem_append]

end Kurbo
