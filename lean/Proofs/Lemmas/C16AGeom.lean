import Mathlib.Analysis.SpecialFunctions.Complex.Arg
import Mathlib.Analysis.SpecialFunctions.Trigonometric.Basic
import Mathlib.Analysis.SpecialFunctions.Sqrt
import Mathlib.Tactic.LinearCombination
import Mathlib.Tactic.FieldSimp
import Mathlib.Tactic.Positivity
/-! C16A helpers, part 1: the real algebra/trigonometry behind `Arc::from_svg_arc` (SVG implementation notes F.6.5),
    independent of the model.  Everything is over ℝ with Mathlib's `√`, `Complex.arg`, `sin`, `cos`. -/
namespace Kurbo.SvgArcR
open Real

/-- `coe` of F.6.5.2, in the shape the code computes it -/
noncomputable def coe (la sw : Bool) (px py rx ry : ℝ) : ℝ :=
  (if (la == sw) = true then -1 else 1) *
    √|((rx * ry) * (rx * ry) - ((rx * py) * (rx * py) + (ry * px) * (ry * px))) / ((rx * py) * (rx * py) + (ry * px) * (ry * px))|

/-- centre in the frame of the ellipse axes (`transformed_cx`, `transformed_cy`) -/
noncomputable def tcx (la sw : Bool) (px py rx ry : ℝ) : ℝ := coe la sw px py rx ry * (rx * py) / ry
noncomputable def tcy (la sw : Bool) (px py rx ry : ℝ) : ℝ := -coe la sw px py rx ry * (ry * px) / rx

/-- `start_v`, `end_v` as complex numbers (`atan2 y x = arg (x + iy)`) -/
noncomputable def startV (la sw : Bool) (px py rx ry : ℝ) : ℂ :=
  ⟨(px - tcx la sw px py rx ry) / rx, (py - tcy la sw px py rx ry) / ry⟩
noncomputable def endV (la sw : Bool) (px py rx ry : ℝ) : ℂ :=
  ⟨(-px - tcx la sw px py rx ry) / rx, (-py - tcy la sw px py rx ry) / ry⟩

/-- Rust's `%` on reals -/
noncomputable def fmodR (a b : ℝ) : ℝ := a - b * (if a / b < 0 then (⌈a / b⌉ : ℝ) else (⌊a / b⌋ : ℝ))

/-- the two `if`s after the `%` -/
noncomputable def fixSweep (sw : Bool) (s0 : ℝ) : ℝ :=
  if (sw && decide (s0 < 0)) = true then s0 + 2 * π else if (!sw && decide (0 < s0)) = true then s0 - 2 * π else s0

/-- `sweep_angle` -/
noncomputable def sweepAngle (la sw : Bool) (px py rx ry : ℝ) : ℝ :=
  fixSweep sw (fmodR (Complex.arg (endV la sw px py rx ry) - Complex.arg (startV la sw px py rx ry)) (2 * π))

/-! ### `%` -/

theorem fmodR_of_abs_lt {a b : ℝ} (hb : 0 < b) (h : |a| < b) : fmodR a b = a := by
  have h1 := abs_lt.mp h
  have hq1 : a / b < 1 := by rw [div_lt_one hb]; exact h1.2
  have hq2 : -1 < a / b := by rw [lt_div_iff₀ hb]; linarith
  unfold fmodR
  by_cases hneg : a / b < 0
  · rw [if_pos hneg]
    have : ⌈a / b⌉ = 0 := by
      rw [Int.ceil_eq_iff]; constructor <;> push_cast <;> linarith
    rw [this]; simp
  · rw [if_neg hneg]
    have : ⌊a / b⌋ = 0 := by
      rw [Int.floor_eq_iff]; constructor <;> push_cast <;> linarith
    rw [this]; simp

theorem fmodR_int (a b : ℝ) : ∃ k : ℤ, fmodR a b = a - b * k := by
  unfold fmodR
  by_cases hneg : a / b < 0
  · exact ⟨⌈a / b⌉, by rw [if_pos hneg]⟩
  · exact ⟨⌊a / b⌋, by rw [if_neg hneg]⟩

theorem sin_fmodR (a : ℝ) : sin (fmodR a (2 * π)) = sin a := by
  obtain ⟨k, hk⟩ := fmodR_int a (2 * π)
  rw [hk, mul_comm]; exact Real.sin_sub_int_mul_two_pi a k

theorem cos_fmodR (a : ℝ) : cos (fmodR a (2 * π)) = cos a := by
  obtain ⟨k, hk⟩ := fmodR_int a (2 * π)
  rw [hk, mul_comm]; exact Real.cos_sub_int_mul_two_pi a k

/-- the law asked for in the task: `x % 2π` differs from `x` by a multiple of `2π`, lies in `(−2π, 2π)` and has the sign of `x` -/
theorem fmodR_two_pi_spec (a : ℝ) :
    (∃ k : ℤ, fmodR a (2 * π) = a - 2 * π * k) ∧ |fmodR a (2 * π)| < 2 * π ∧
    (0 ≤ a → 0 ≤ fmodR a (2 * π)) ∧ (a ≤ 0 → fmodR a (2 * π) ≤ 0) := by
  have hT : 0 < 2 * π := by positivity
  refine ⟨fmodR_int a _, ?_⟩
  have ha : a = (a / (2 * π)) * (2 * π) := by field_simp
  unfold fmodR
  set q := a / (2 * π) with hq
  by_cases hneg : q < 0
  · rw [if_pos hneg]
    have h1 : q ≤ (⌈q⌉ : ℝ) := Int.le_ceil q
    have h2 : (⌈q⌉ : ℝ) < q + 1 := Int.ceil_lt_add_one q
    have hf : a - 2 * π * (⌈q⌉ : ℝ) = (q - ⌈q⌉) * (2 * π) := by rw [ha]; ring
    have ha0 : a < 0 := by rw [ha]; exact mul_neg_of_neg_of_pos hneg hT
    rw [hf]
    have hle : (q - ⌈q⌉) * (2 * π) ≤ 0 := mul_nonpos_of_nonpos_of_nonneg (by linarith) hT.le
    refine ⟨?_, fun h => absurd h (not_le.mpr ha0), fun _ => hle⟩
    rw [abs_lt]; constructor <;> nlinarith
  · rw [if_neg hneg]
    have h1 : (⌊q⌋ : ℝ) ≤ q := Int.floor_le q
    have h2 : q < (⌊q⌋ : ℝ) + 1 := Int.lt_floor_add_one q
    have hf : a - 2 * π * (⌊q⌋ : ℝ) = (q - ⌊q⌋) * (2 * π) := by rw [ha]; ring
    have hq0 : 0 ≤ q := not_lt.mp hneg
    have ha0 : 0 ≤ a := by rw [ha]; exact mul_nonneg hq0 hT.le
    rw [hf]
    have hge : 0 ≤ (q - ⌊q⌋) * (2 * π) := mul_nonneg (by linarith) hT.le
    refine ⟨?_, fun _ => hge, fun h => ?_⟩
    · rw [abs_lt]; constructor <;> nlinarith
    · have ha00 : a = 0 := le_antisymm h ha0
      have hq00 : q = 0 := by rw [hq, ha00]; simp
      rw [hq00]; simp

/-! ### the algebra of F.6.5 -/

section algebra
variable {la sw : Bool} {px py rx ry : ℝ}

/-- `S = (rx·py)² + (ry·px)²` -/
theorem sumsq_pos (hrx : 0 < rx) (hry : 0 < ry) (hp : px ≠ 0 ∨ py ≠ 0) :
    0 < (rx * py) * (rx * py) + (ry * px) * (ry * px) := by
  rcases hp with h | h
  · have : 0 < (ry * px) * (ry * px) := mul_self_pos.mpr (mul_ne_zero hry.ne' h)
    nlinarith [mul_self_nonneg (rx * py)]
  · have : 0 < (rx * py) * (rx * py) := mul_self_pos.mpr (mul_ne_zero hrx.ne' h)
    nlinarith [mul_self_nonneg (ry * px)]

/-- `coe² · S = (rx·ry)² − S` when the radii are large enough (`S ≤ (rx·ry)²`) -/
theorem coe_sq_mul (hrx : 0 < rx) (hry : 0 < ry) (hp : px ≠ 0 ∨ py ≠ 0)
    (hle : (rx * py) * (rx * py) + (ry * px) * (ry * px) ≤ (rx * ry) * (rx * ry)) :
    coe la sw px py rx ry ^ 2 * ((rx * py) * (rx * py) + (ry * px) * (ry * px))
      = (rx * ry) * (rx * ry) - ((rx * py) * (rx * py) + (ry * px) * (ry * px)) := by
  have hS := sumsq_pos hrx hry hp
  set S := (rx * py) * (rx * py) + (ry * px) * (ry * px) with hSdef
  have hq : 0 ≤ ((rx * ry) * (rx * ry) - S) / S := div_nonneg (by linarith) hS.le
  unfold coe
  rw [← hSdef, abs_of_nonneg hq, mul_pow, Real.sq_sqrt hq]
  have hsg : (if (la == sw) = true then (-1 : ℝ) else 1) ^ 2 = 1 := by split_ifs <;> norm_num
  rw [hsg, one_mul, div_mul_cancel₀ _ hS.ne']

/-- `coe = 0` when `S = (rx·ry)²` (the radii were scaled up, or fit exactly) -/
theorem coe_eq_zero (h : (rx * py) * (rx * py) + (ry * px) * (ry * px) = (rx * ry) * (rx * ry)) :
    coe la sw px py rx ry = 0 := by
  unfold coe; rw [h, sub_self, zero_div, abs_zero, Real.sqrt_zero, mul_zero]

/-- sign of `coe` when the radii are strictly large enough -/
theorem coe_sign (hrx : 0 < rx) (hry : 0 < ry) (hp : px ≠ 0 ∨ py ≠ 0)
    (hlt : (rx * py) * (rx * py) + (ry * px) * (ry * px) < (rx * ry) * (rx * ry)) :
    (la = sw → coe la sw px py rx ry < 0) ∧ (la ≠ sw → 0 < coe la sw px py rx ry) := by
  have hS := sumsq_pos hrx hry hp
  have hq : 0 < √|((rx * ry) * (rx * ry) - ((rx * py) * (rx * py) + (ry * px) * (ry * px))) / ((rx * py) * (rx * py) + (ry * px) * (ry * px))| := by
    apply Real.sqrt_pos.mpr; apply abs_pos.mpr; exact (div_pos (by linarith) hS).ne'
  unfold coe
  constructor
  · intro h; subst h; simp only [beq_self_eq_true, if_true]; linarith
  · intro h
    have : (la == sw) = false := by simpa using h
    rw [this]; simp only [Bool.false_eq_true, if_false]; linarith

theorem startV_normSq (hrx : 0 < rx) (hry : 0 < ry) (hp : px ≠ 0 ∨ py ≠ 0)
    (hle : (rx * py) * (rx * py) + (ry * px) * (ry * px) ≤ (rx * ry) * (rx * ry)) :
    (startV la sw px py rx ry).re ^ 2 + (startV la sw px py rx ry).im ^ 2 = 1 := by
  have hk := coe_sq_mul (la := la) (sw := sw) hrx hry hp hle
  simp only [startV, tcx, tcy]
  set k := coe la sw px py rx ry
  have hrx' := hrx.ne'; have hry' := hry.ne'
  field_simp
  linear_combination hk

theorem endV_normSq (hrx : 0 < rx) (hry : 0 < ry) (hp : px ≠ 0 ∨ py ≠ 0)
    (hle : (rx * py) * (rx * py) + (ry * px) * (ry * px) ≤ (rx * ry) * (rx * ry)) :
    (endV la sw px py rx ry).re ^ 2 + (endV la sw px py rx ry).im ^ 2 = 1 := by
  have hk := coe_sq_mul (la := la) (sw := sw) hrx hry hp hle
  simp only [endV, tcx, tcy]
  set k := coe la sw px py rx ry
  have hrx' := hrx.ne'; have hry' := hry.ne'
  field_simp
  linear_combination hk

/-- `start_v × end_v = 2·coe·S/(rx·ry)²` -/
theorem cross_eq (hrx : 0 < rx) (hry : 0 < ry) :
    (startV la sw px py rx ry).re * (endV la sw px py rx ry).im - (startV la sw px py rx ry).im * (endV la sw px py rx ry).re
      = 2 * coe la sw px py rx ry * ((rx * py) * (rx * py) + (ry * px) * (ry * px)) / ((rx * ry) * (rx * ry)) := by
  simp only [startV, endV, tcx, tcy]
  set k := coe la sw px py rx ry
  have hrx' := hrx.ne'; have hry' := hry.ne'
  field_simp
  ring

/-- `end_v ≠ start_v` (the chord is not degenerate) -/
theorem startV_ne_endV (hrx : 0 < rx) (hry : 0 < ry) (hp : px ≠ 0 ∨ py ≠ 0) :
    startV la sw px py rx ry ≠ endV la sw px py rx ry := by
  intro h
  have h1 := congrArg Complex.re h
  have h2 := congrArg Complex.im h
  simp only [startV, endV] at h1 h2
  rw [div_left_inj' hrx.ne'] at h1
  rw [div_left_inj' hry.ne'] at h2
  rcases hp with h0 | h0
  · apply h0; linarith
  · apply h0; linarith

end algebra

/-! ### unit complex numbers and `arg` -/

theorem norm_eq_one_of_sq {z : ℂ} (h : z.re ^ 2 + z.im ^ 2 = 1) : ‖z‖ = 1 := by
  have : ‖z‖ ^ 2 = 1 := by rw [Complex.sq_norm, Complex.normSq_apply]; linarith
  have hn : 0 ≤ ‖z‖ := norm_nonneg z
  nlinarith

theorem cos_arg_unit {z : ℂ} (h : z.re ^ 2 + z.im ^ 2 = 1) : cos (Complex.arg z) = z.re := by
  have hn := norm_eq_one_of_sq h
  have hz : z ≠ 0 := by intro h0; rw [h0] at hn; simp at hn
  rw [Complex.cos_arg hz, hn, div_one]

theorem sin_arg_unit {z : ℂ} (h : z.re ^ 2 + z.im ^ 2 = 1) : sin (Complex.arg z) = z.im := by
  have hn := norm_eq_one_of_sq h
  rw [Complex.sin_arg, hn, div_one]

/-- unit complex numbers with the same argument are equal -/
theorem eq_of_arg_eq_unit {z w : ℂ} (hz : z.re ^ 2 + z.im ^ 2 = 1) (hw : w.re ^ 2 + w.im ^ 2 = 1)
    (h : Complex.arg z = Complex.arg w) : z = w := by
  apply Complex.ext
  · rw [← cos_arg_unit hz, ← cos_arg_unit hw, h]
  · rw [← sin_arg_unit hz, ← sin_arg_unit hw, h]

/-! ### the two `if`s -/

theorem fixSweep_true {s0 : ℝ} : fixSweep true s0 = if s0 < 0 then s0 + 2 * π else s0 := by
  unfold fixSweep; by_cases h : s0 < 0 <;> simp [h]

theorem fixSweep_false {s0 : ℝ} : fixSweep false s0 = if 0 < s0 then s0 - 2 * π else s0 := by
  unfold fixSweep; by_cases h : 0 < s0 <;> simp [h]

theorem fixSweep_int (sw : Bool) (s0 : ℝ) : ∃ k : ℤ, fixSweep sw s0 = s0 + k * (2 * π) := by
  cases sw
  · rw [fixSweep_false]; split_ifs
    · exact ⟨-1, by push_cast; ring⟩
    · exact ⟨0, by push_cast; ring⟩
  · rw [fixSweep_true]; split_ifs
    · exact ⟨1, by push_cast; ring⟩
    · exact ⟨0, by push_cast; ring⟩

/-! ### which half turn: sign of the sine -/

theorem lt_pi_of_sin_pos {σ : ℝ} (h1 : σ < 2 * π) (hs : 0 < sin σ) : σ < π := by
  by_contra hc
  have hc := not_lt.mp hc
  have : sin (σ - 2 * π) ≤ 0 := Real.sin_nonpos_of_nonpos_of_neg_pi_le (by linarith) (by linarith)
  rw [Real.sin_sub_two_pi] at this
  linarith

theorem pi_lt_of_sin_neg {σ : ℝ} (h0 : 0 < σ) (hs : sin σ < 0) : π < σ := by
  by_contra hc
  have hc := not_lt.mp hc
  have : 0 ≤ sin σ := Real.sin_nonneg_of_nonneg_of_le_pi h0.le hc
  linarith

theorem eq_pi_of_sin_zero {σ : ℝ} (h0 : 0 < σ) (h1 : σ < 2 * π) (hs : sin σ = 0) : σ = π := by
  have : sin (σ - π) = 0 := by rw [Real.sin_sub_pi, hs, neg_zero]
  have := (Real.sin_eq_zero_iff_of_lt_of_lt (by linarith) (by linarith)).mp this
  linarith

end Kurbo.SvgArcR
