import Proofs.Lemmas.C17Fit
import Proofs.Lemmas.C17Split
import Proofs.Lemmas.C17Spline
import Proofs.Lemmas.C17Loop
/-! Helper lemmas for C17: soundness of `try_approx_quadratic` / `approx_spline_n` (the tested cubic is the
    difference curve between the degree-raised quadratic and the cubic piece). -/
set_option linter.unusedSectionVars false
namespace Kurbo
variable {K : Type} [Field K] [LinearOrder K] [IsStrictOrderedRing K] [FloorRing K] [Scalar K] [LawfulScalar K]

/-- the `k`-th of `n` equal parameter pieces of a cubic -/
def cubicPiece (c : CubicBez K) (n k : Nat) : CubicBez K := c.subsegment ⟨(k : K) / n, ((k : K) + 1) / n⟩

theorem split_into_n_pieces (c : CubicBez K) (n : Nat) :
    c.split_into_n n = (List.range n).map (cubicPiece c n) := split_into_n_eq c n

theorem cubicPiece_eval (c : CubicBez K) (n k : Nat) (t : K) :
    (cubicPiece c n k).eval t = c.eval (((k : K) + t) / n) := by
  unfold cubicPiece; rw [cubic_subsegment_eval]; congr 1; ring

theorem cubicPiece_p0 (c : CubicBez K) (n k : Nat) : (cubicPiece c n k).p0 = c.eval ((k : K) / n) := rfl
theorem cubicPiece_p3 (c : CubicBez K) (n k : Nat) : (cubicPiece c n k).p3 = c.eval (((k : K) + 1) / n) := rfl

theorem cubicPiece_join (c : CubicBez K) (n k : Nat) : (cubicPiece c n k).p3 = (cubicPiece c n (k + 1)).p0 := by
  rw [cubicPiece_p0, cubicPiece_p3]; push_cast; rfl

theorem cubicPiece_first (c : CubicBez K) (n : Nat) : (cubicPiece c n 0).p0 = c.p0 := by
  rw [cubicPiece_p0]; simp only [Nat.cast_zero, zero_div]; exact (cubic_eval_zero_one c).1

theorem cubicPiece_last (c : CubicBez K) (n : Nat) : (cubicPiece c (n + 1) n).p3 = c.p3 := by
  rw [cubicPiece_p3]
  have : ((n : K) + 1) / ((n + 1 : Nat) : K) = 1 := by
    push_cast; exact div_self (by positivity)
  rw [this]; exact (cubic_eval_zero_one c).2

/-- **difference-curve identity**: the cubic tested by `try_approx_quadratic` and by the loop of `approx_spline_n`
    is the degree-raised quadratic `(q0,q1,q2)` minus the cubic `cur` (given that its first and last control points
    are the end-point differences) -/
theorem diff_curve (q0 q1 q2 e0 e3 : Point K) (cur : CubicBez K) (r : K) (hr : r = 2 / 3)
    (h0x : e0.x = q0.x - cur.p0.x) (h0y : e0.y = q0.y - cur.p0.y)
    (h3x : e3.x = q2.x - cur.p3.x) (h3y : e3.y = q2.y - cur.p3.y) (t : K) :
    ((CubicBez.new e0 (q0.lerp q1 r - cur.p1.to_vec2) (q2.lerp q1 r - cur.p2.to_vec2) e3).eval t).x
        = ((QuadBez.mk q0 q1 q2).eval t).x - (cur.eval t).x ∧
    ((CubicBez.new e0 (q0.lerp q1 r - cur.p1.to_vec2) (q2.lerp q1 r - cur.p2.to_vec2) e3).eval t).y
        = ((QuadBez.mk q0 q1 q2).eval t).y - (cur.eval t).y := by
  subst hr
  constructor
  · simp only [kdefs, scalar_norm, h0x, h3x]; ring
  · simp only [kdefs, scalar_norm, h0y, h3y]; ring

theorem try_approx_quadratic_sound [LawfulHypot K] (c : CubicBez K) (a : K) (ha : 0 ≤ a) (q : QuadBez K)
    (h : c.try_approx_quadratic a = some q) (t : K) (ht0 : 0 ≤ t) (ht1 : t ≤ 1) :
    ((q.eval t).x - (c.eval t).x) ^ 2 + ((q.eval t).y - (c.eval t).y) ^ 2 ≤ a ^ 2 := by
  unfold CubicBez.try_approx_quadratic at h
  split at h
  · rename_i q1 _
    simp only [] at h
    split at h
    · cases h
    · rename_i hfit
      simp only [Bool.not_eq_true, Bool.not_eq_false'] at hfit
      simp only [Option.some.injEq] at h
      subst h
      have hz : (Point.ZERO : Point K).nsq ≤ a ^ 2 := by
        simp only [Point.nsq, Point.ZERO, scalar_norm]; push_cast; nlinarith [sq_nonneg a]
      have hs := fit_inside_sound a ha fitFuel _ hz hz hfit t ht0 ht1
      obtain ⟨ex, ey⟩ := diff_curve c.p0 q1 c.p3 Point.ZERO Point.ZERO c (open Ops in ((2 : K) / (3 : K)))
        (by simp only [scalar_norm]; push_cast; rfl)
        (by simp only [Point.ZERO, scalar_norm]; push_cast; ring) (by simp only [Point.ZERO, scalar_norm]; push_cast; ring)
        (by simp only [Point.ZERO, scalar_norm]; push_cast; ring) (by simp only [Point.ZERO, scalar_norm]; push_cast; ring) t
      unfold Point.nsq at hs
      rw [ex, ey] at hs
      exact hs
  · cases h

/-! ### the loop of `approx_spline_n` -/

theorem splineCheck_iff (a : K) (c0 : Point K) (S : Nat → CubicBez K) (n j : Nat) :
    splineCheck a c0 S n j = true ↔
      (splineD1 c0 S n (j + 1)).hypot ≤ a ∧ (splineErr c0 S n j).fit_inside a fitFuel = true := by
  unfold splineCheck
  simp only [scalar_norm, Bool.not_eq_true', Bool.or_eq_false_iff, decide_eq_false_iff_not, not_lt,
    Bool.not_eq_false']

theorem splineD1_bound [LawfulHypot K] (a : K) (ha : 0 ≤ a) (c0 : Point K) (S : Nat → CubicBez K) (n : Nat)
    (hchk : ∀ j, j < n → splineCheck a c0 S n j = true) (j : Nat) (hj : j ≤ n) :
    (splineD1 c0 S n j).x ^ 2 + (splineD1 c0 S n j).y ^ 2 ≤ a ^ 2 := by
  rcases j with _ | k
  · simp only [splineD1, if_true, Vec2.ZERO, scalar_norm]; push_cast; nlinarith [sq_nonneg a]
  · have := ((splineCheck_iff a c0 S n k).mp (hchk k (by omega))).1
    rwa [vec2_hypot_le_iff _ _ ha] at this

/-- the carried end-point error is the difference of the current on-curve point and the start of the current piece -/
theorem splineD1_start (c : CubicBez K) (n j : Nat) :
    (splineD1 c.p0 (cubicPiece c n) n j).x = (splineQ2 c.p0 (cubicPiece c n) n j).x - (cubicPiece c n j).p0.x ∧
    (splineD1 c.p0 (cubicPiece c n) n j).y = (splineQ2 c.p0 (cubicPiece c n) n j).y - (cubicPiece c n j).p0.y := by
  rcases j with _ | k
  · simp only [splineD1, splineQ2, if_true, cubicPiece_first, Vec2.ZERO, scalar_norm]; push_cast
    constructor <;> ring
  · simp only [splineD1, Nat.succ_ne_zero, if_false, Nat.add_sub_cancel, ← cubicPiece_join]
    constructor <;> kring

theorem spline_piece_sound [LawfulHypot K] (c : CubicBez K) (n : Nat) (a : K) (ha : 0 ≤ a)
    (hchk : ∀ j, j < n → splineCheck a c.p0 (cubicPiece c n) n j = true) (j : Nat) (hj : j < n)
    (t : K) (ht0 : 0 ≤ t) (ht1 : t ≤ 1) :
    (((QuadBez.mk (splineQ2 c.p0 (cubicPiece c n) n j) (splineQ (cubicPiece c n) n j)
          (splineQ2 c.p0 (cubicPiece c n) n (j + 1))).eval t).x - (c.eval (((j : K) + t) / n)).x) ^ 2
    + (((QuadBez.mk (splineQ2 c.p0 (cubicPiece c n) n j) (splineQ (cubicPiece c n) n j)
          (splineQ2 c.p0 (cubicPiece c n) n (j + 1))).eval t).y - (c.eval (((j : K) + t) / n)).y) ^ 2 ≤ a ^ 2 := by
  have hfit := ((splineCheck_iff a c.p0 _ n j).mp (hchk j hj)).2
  have h0 := splineD1_bound a ha c.p0 _ n hchk j (by omega)
  have h3 := splineD1_bound a ha c.p0 _ n hchk (j + 1) (by omega)
  have hs := fit_inside_sound a ha fitFuel (splineErr c.p0 (cubicPiece c n) n j) h0 h3 hfit t ht0 ht1
  obtain ⟨s0x, s0y⟩ := splineD1_start c n j
  have s3 : splineD1 c.p0 (cubicPiece c n) n (j + 1)
      = (splineQ2 c.p0 (cubicPiece c n) n (j + 1)).to_vec2 - (cubicPiece c n j).p3.to_vec2 := by
    simp [splineD1]
  obtain ⟨ex, ey⟩ := diff_curve (splineQ2 c.p0 (cubicPiece c n) n j) (splineQ (cubicPiece c n) n j)
    (splineQ2 c.p0 (cubicPiece c n) n (j + 1)) (splineD1 c.p0 (cubicPiece c n) n j).to_point
    (splineD1 c.p0 (cubicPiece c n) n (j + 1)).to_point (cubicPiece c n j) (open Ops in ((2 : K) / (3 : K)))
    (by simp only [scalar_norm]; push_cast; rfl) s0x s0y (by rw [s3]; kring) (by rw [s3]; kring) t
  unfold Point.nsq at hs
  unfold splineErr at hs
  rw [ex, ey, cubicPiece_eval] at hs
  exact hs

theorem quadSplineToQuads_three {K' : Type} [Scalar K'] (p0 p1 p2 : Point K') :
    quadSplineToQuads [p0, p1, p2] = [⟨p0, p1, p2⟩] := by
  simp [quadSplineToQuads, List.range_succ]

/-- the implied quadratics of the spline, in terms of the loop quantities -/
theorem spline_quads (c : CubicBez K) (n : Nat) (idx : Nat) (hidx : idx < n) :
    (⟨if idx = 0 then c.p0 else (splineQ (cubicPiece c n) n (idx - 1)).midpoint (splineQ (cubicPiece c n) n idx),
      splineQ (cubicPiece c n) n idx,
      if idx + 1 < n then (splineQ (cubicPiece c n) n idx).midpoint (splineQ (cubicPiece c n) n (idx + 1)) else c.p3⟩
        : QuadBez K)
      = ⟨splineQ2 c.p0 (cubicPiece c n) n idx, splineQ (cubicPiece c n) n idx,
          splineQ2 c.p0 (cubicPiece c n) n (idx + 1)⟩ := by
  have e0 : splineQ2 c.p0 (cubicPiece c n) n idx
      = if idx = 0 then c.p0 else (splineQ (cubicPiece c n) n (idx - 1)).midpoint (splineQ (cubicPiece c n) n idx) := by
    simp [splineQ2, hidx]
  have e1 : splineQ2 c.p0 (cubicPiece c n) n (idx + 1)
      = if idx + 1 < n then (splineQ (cubicPiece c n) n idx).midpoint (splineQ (cubicPiece c n) n (idx + 1)) else c.p3 := by
    by_cases hlt : idx + 1 < n
    · simp [splineQ2, hlt]
    · have hn : n = idx + 1 := by omega
      subst hn
      simp [splineQ2, cubicPiece_last]
  rw [e0, e1]

theorem approx_spline_n_sound [LawfulHypot K] (c : CubicBez K) (n : Nat) (a : K) (ha : 0 ≤ a) (pts : List (Point K))
    (h : c.approx_spline_n n a = some pts) :
    (quadSplineToQuads pts).length = n ∧
    ∀ (idx : Nat) (q : QuadBez K), (quadSplineToQuads pts)[idx]? = some q → ∀ t : K, 0 ≤ t → t ≤ 1 →
      ((q.eval t).x - (c.eval (((idx : K) + t) / n)).x) ^ 2
        + ((q.eval t).y - (c.eval (((idx : K) + t) / n)).y) ^ 2 ≤ a ^ 2 := by
  by_cases hn : n = 1
  · subst hn
    rw [approx_spline_n_eq] at h
    simp only [beq_self_eq_true, if_true] at h
    cases hq : c.try_approx_quadratic a with
    | none => rw [hq] at h; cases h
    | some q0 =>
      rw [hq] at h
      simp only [Option.map_some, Option.some.injEq] at h
      subst h
      rw [quadSplineToQuads_three]
      refine ⟨rfl, ?_⟩
      intro idx q hget t ht0 ht1
      rcases idx with _ | k
      · simp only [List.getElem?_cons_zero, Option.some.injEq] at hget
        subst hget
        have := try_approx_quadratic_sound c a ha q0 hq t ht0 ht1
        simpa using this
      · simp at hget
  · obtain ⟨h2, hpts, hchk⟩ := approx_spline_n_closed c n a pts (cubicPiece c n) hn (split_into_n_pieces c n) h
    subst hpts
    rw [quadSplineToQuads_closed]
    refine ⟨by simp, ?_⟩
    intro idx q hget t ht0 ht1
    rw [List.getElem?_map] at hget
    have hidx : idx < n := by
      by_contra hge
      rw [List.getElem?_eq_none (by simpa using hge)] at hget
      cases hget
    rw [List.getElem?_range hidx] at hget
    simp only [Option.map_some, Option.some.injEq] at hget
    rw [spline_quads c n idx hidx] at hget
    subst hget
    exact spline_piece_sound c n a ha hchk idx hidx t ht0 ht1

end Kurbo
